import LexVerif.Gen.Literals
import LexVerif.Spec.LiteralsExpected
/-!
# Literals.ParseFloatBigint — lexical-parse-float/src/bigint.rs still has the literals and token shape the models were transcribed from

`Gen.Literals.ParseFloatBigint` is re-extracted from /repo's source text on every run; `Spec.LiteralsExpected.ParseFloatBigint` is the
committed snapshot. One theorem per fn / macro item, so a failing obligation names the item whose source moved;
`items_same` catches added or removed items. (Written by `extractors.literals.snapshot()`.)
-/
namespace LexVerif.Props.Literals.ParseFloatBigint
open LexVerif

theorem items_same : Gen.Literals.ParseFloatBigint.items = Spec.LiteralsExpected.ParseFloatBigint.items := by decide
theorem k_index_unchecked_macro : Gen.Literals.ParseFloatBigint.k_index_unchecked_macro = Spec.LiteralsExpected.ParseFloatBigint.k_index_unchecked_macro := by decide
theorem k_new : Gen.Literals.ParseFloatBigint.k_new = Spec.LiteralsExpected.ParseFloatBigint.k_new := by decide
theorem k_from_u32 : Gen.Literals.ParseFloatBigint.k_from_u32 = Spec.LiteralsExpected.ParseFloatBigint.k_from_u32 := by decide
theorem k_from_u64 : Gen.Literals.ParseFloatBigint.k_from_u64 = Spec.LiteralsExpected.ParseFloatBigint.k_from_u64 := by decide
theorem k_hi64 : Gen.Literals.ParseFloatBigint.k_hi64 = Spec.LiteralsExpected.ParseFloatBigint.k_hi64 := by decide
theorem k_pow : Gen.Literals.ParseFloatBigint.k_pow = Spec.LiteralsExpected.ParseFloatBigint.k_pow := by decide
theorem k_bit_length : Gen.Literals.ParseFloatBigint.k_bit_length = Spec.LiteralsExpected.ParseFloatBigint.k_bit_length := by decide
theorem k_mul_assign : Gen.Literals.ParseFloatBigint.k_mul_assign = Spec.LiteralsExpected.ParseFloatBigint.k_mul_assign := by decide
theorem k_default : Gen.Literals.ParseFloatBigint.k_default = Spec.LiteralsExpected.ParseFloatBigint.k_default := by decide
theorem k_from_float : Gen.Literals.ParseFloatBigint.k_from_float = Spec.LiteralsExpected.ParseFloatBigint.k_from_float := by decide
theorem k_shl_bits : Gen.Literals.ParseFloatBigint.k_shl_bits = Spec.LiteralsExpected.ParseFloatBigint.k_shl_bits := by decide
theorem k_shl_limbs : Gen.Literals.ParseFloatBigint.k_shl_limbs = Spec.LiteralsExpected.ParseFloatBigint.k_shl_limbs := by decide
theorem k_shl : Gen.Literals.ParseFloatBigint.k_shl = Spec.LiteralsExpected.ParseFloatBigint.k_shl := by decide
theorem k_leading_zeros : Gen.Literals.ParseFloatBigint.k_leading_zeros = Spec.LiteralsExpected.ParseFloatBigint.k_leading_zeros := by decide
theorem k_hi_macro : Gen.Literals.ParseFloatBigint.k_hi_macro = Spec.LiteralsExpected.ParseFloatBigint.k_hi_macro := by decide
theorem k_as_mut_ptr : Gen.Literals.ParseFloatBigint.k_as_mut_ptr = Spec.LiteralsExpected.ParseFloatBigint.k_as_mut_ptr := by decide
theorem k_as_ptr : Gen.Literals.ParseFloatBigint.k_as_ptr = Spec.LiteralsExpected.ParseFloatBigint.k_as_ptr := by decide
theorem k_try_from : Gen.Literals.ParseFloatBigint.k_try_from = Spec.LiteralsExpected.ParseFloatBigint.k_try_from := by decide
theorem k_set_len : Gen.Literals.ParseFloatBigint.k_set_len = Spec.LiteralsExpected.ParseFloatBigint.k_set_len := by decide
theorem k_len : Gen.Literals.ParseFloatBigint.k_len = Spec.LiteralsExpected.ParseFloatBigint.k_len := by decide
theorem k_is_empty : Gen.Literals.ParseFloatBigint.k_is_empty = Spec.LiteralsExpected.ParseFloatBigint.k_is_empty := by decide
theorem k_capacity : Gen.Literals.ParseFloatBigint.k_capacity = Spec.LiteralsExpected.ParseFloatBigint.k_capacity := by decide
theorem k_push_unchecked : Gen.Literals.ParseFloatBigint.k_push_unchecked = Spec.LiteralsExpected.ParseFloatBigint.k_push_unchecked := by decide
theorem k_try_push : Gen.Literals.ParseFloatBigint.k_try_push = Spec.LiteralsExpected.ParseFloatBigint.k_try_push := by decide
theorem k_pop_unchecked : Gen.Literals.ParseFloatBigint.k_pop_unchecked = Spec.LiteralsExpected.ParseFloatBigint.k_pop_unchecked := by decide
theorem k_pop : Gen.Literals.ParseFloatBigint.k_pop = Spec.LiteralsExpected.ParseFloatBigint.k_pop := by decide
theorem k_extend_unchecked : Gen.Literals.ParseFloatBigint.k_extend_unchecked = Spec.LiteralsExpected.ParseFloatBigint.k_extend_unchecked := by decide
theorem k_try_extend : Gen.Literals.ParseFloatBigint.k_try_extend = Spec.LiteralsExpected.ParseFloatBigint.k_try_extend := by decide
theorem k_truncate_unchecked : Gen.Literals.ParseFloatBigint.k_truncate_unchecked = Spec.LiteralsExpected.ParseFloatBigint.k_truncate_unchecked := by decide
theorem k_resize_unchecked : Gen.Literals.ParseFloatBigint.k_resize_unchecked = Spec.LiteralsExpected.ParseFloatBigint.k_resize_unchecked := by decide
theorem k_try_resize : Gen.Literals.ParseFloatBigint.k_try_resize = Spec.LiteralsExpected.ParseFloatBigint.k_try_resize := by decide
theorem k_hi16 : Gen.Literals.ParseFloatBigint.k_hi16 = Spec.LiteralsExpected.ParseFloatBigint.k_hi16 := by decide
theorem k_hi32 : Gen.Literals.ParseFloatBigint.k_hi32 = Spec.LiteralsExpected.ParseFloatBigint.k_hi32 := by decide
theorem k_from_u16 : Gen.Literals.ParseFloatBigint.k_from_u16 = Spec.LiteralsExpected.ParseFloatBigint.k_from_u16 := by decide
theorem k_rview : Gen.Literals.ParseFloatBigint.k_rview = Spec.LiteralsExpected.ParseFloatBigint.k_rview := by decide
theorem k_normalize : Gen.Literals.ParseFloatBigint.k_normalize = Spec.LiteralsExpected.ParseFloatBigint.k_normalize := by decide
theorem k_is_normalized : Gen.Literals.ParseFloatBigint.k_is_normalized = Spec.LiteralsExpected.ParseFloatBigint.k_is_normalized := by decide
theorem k_quorem : Gen.Literals.ParseFloatBigint.k_quorem = Spec.LiteralsExpected.ParseFloatBigint.k_quorem := by decide
theorem k_add_small : Gen.Literals.ParseFloatBigint.k_add_small = Spec.LiteralsExpected.ParseFloatBigint.k_add_small := by decide
theorem k_mul_small : Gen.Literals.ParseFloatBigint.k_mul_small = Spec.LiteralsExpected.ParseFloatBigint.k_mul_small := by decide
theorem k_eq : Gen.Literals.ParseFloatBigint.k_eq = Spec.LiteralsExpected.ParseFloatBigint.k_eq := by decide
theorem k_partial_cmp : Gen.Literals.ParseFloatBigint.k_partial_cmp = Spec.LiteralsExpected.ParseFloatBigint.k_partial_cmp := by decide
theorem k_cmp : Gen.Literals.ParseFloatBigint.k_cmp = Spec.LiteralsExpected.ParseFloatBigint.k_cmp := by decide
theorem k_deref : Gen.Literals.ParseFloatBigint.k_deref = Spec.LiteralsExpected.ParseFloatBigint.k_deref := by decide
theorem k_deref_mut : Gen.Literals.ParseFloatBigint.k_deref_mut = Spec.LiteralsExpected.ParseFloatBigint.k_deref_mut := by decide
theorem k_get_unchecked : Gen.Literals.ParseFloatBigint.k_get_unchecked = Spec.LiteralsExpected.ParseFloatBigint.k_get_unchecked := by decide
theorem k_get : Gen.Literals.ParseFloatBigint.k_get = Spec.LiteralsExpected.ParseFloatBigint.k_get := by decide
theorem k_index : Gen.Literals.ParseFloatBigint.k_index = Spec.LiteralsExpected.ParseFloatBigint.k_index := by decide
theorem k_nonzero : Gen.Literals.ParseFloatBigint.k_nonzero = Spec.LiteralsExpected.ParseFloatBigint.k_nonzero := by decide
theorem k_u32_to_hi16_1 : Gen.Literals.ParseFloatBigint.k_u32_to_hi16_1 = Spec.LiteralsExpected.ParseFloatBigint.k_u32_to_hi16_1 := by decide
theorem k_u32_to_hi16_2 : Gen.Literals.ParseFloatBigint.k_u32_to_hi16_2 = Spec.LiteralsExpected.ParseFloatBigint.k_u32_to_hi16_2 := by decide
theorem k_u32_to_hi32_1 : Gen.Literals.ParseFloatBigint.k_u32_to_hi32_1 = Spec.LiteralsExpected.ParseFloatBigint.k_u32_to_hi32_1 := by decide
theorem k_u32_to_hi32_2 : Gen.Literals.ParseFloatBigint.k_u32_to_hi32_2 = Spec.LiteralsExpected.ParseFloatBigint.k_u32_to_hi32_2 := by decide
theorem k_u32_to_hi64_1 : Gen.Literals.ParseFloatBigint.k_u32_to_hi64_1 = Spec.LiteralsExpected.ParseFloatBigint.k_u32_to_hi64_1 := by decide
theorem k_u32_to_hi64_2 : Gen.Literals.ParseFloatBigint.k_u32_to_hi64_2 = Spec.LiteralsExpected.ParseFloatBigint.k_u32_to_hi64_2 := by decide
theorem k_u32_to_hi64_3 : Gen.Literals.ParseFloatBigint.k_u32_to_hi64_3 = Spec.LiteralsExpected.ParseFloatBigint.k_u32_to_hi64_3 := by decide
theorem k_u64_to_hi16_1 : Gen.Literals.ParseFloatBigint.k_u64_to_hi16_1 = Spec.LiteralsExpected.ParseFloatBigint.k_u64_to_hi16_1 := by decide
theorem k_u64_to_hi16_2 : Gen.Literals.ParseFloatBigint.k_u64_to_hi16_2 = Spec.LiteralsExpected.ParseFloatBigint.k_u64_to_hi16_2 := by decide
theorem k_u64_to_hi32_1 : Gen.Literals.ParseFloatBigint.k_u64_to_hi32_1 = Spec.LiteralsExpected.ParseFloatBigint.k_u64_to_hi32_1 := by decide
theorem k_u64_to_hi32_2 : Gen.Literals.ParseFloatBigint.k_u64_to_hi32_2 = Spec.LiteralsExpected.ParseFloatBigint.k_u64_to_hi32_2 := by decide
theorem k_u64_to_hi64_1 : Gen.Literals.ParseFloatBigint.k_u64_to_hi64_1 = Spec.LiteralsExpected.ParseFloatBigint.k_u64_to_hi64_1 := by decide
theorem k_u64_to_hi64_2 : Gen.Literals.ParseFloatBigint.k_u64_to_hi64_2 = Spec.LiteralsExpected.ParseFloatBigint.k_u64_to_hi64_2 := by decide
theorem k_scalar_add : Gen.Literals.ParseFloatBigint.k_scalar_add = Spec.LiteralsExpected.ParseFloatBigint.k_scalar_add := by decide
theorem k_scalar_mul : Gen.Literals.ParseFloatBigint.k_scalar_mul = Spec.LiteralsExpected.ParseFloatBigint.k_scalar_mul := by decide
theorem k_small_add_from : Gen.Literals.ParseFloatBigint.k_small_add_from = Spec.LiteralsExpected.ParseFloatBigint.k_small_add_from := by decide
theorem k_small_add : Gen.Literals.ParseFloatBigint.k_small_add = Spec.LiteralsExpected.ParseFloatBigint.k_small_add := by decide
theorem k_small_mul : Gen.Literals.ParseFloatBigint.k_small_mul = Spec.LiteralsExpected.ParseFloatBigint.k_small_mul := by decide
theorem k_large_add_from : Gen.Literals.ParseFloatBigint.k_large_add_from = Spec.LiteralsExpected.ParseFloatBigint.k_large_add_from := by decide
theorem k_large_add : Gen.Literals.ParseFloatBigint.k_large_add = Spec.LiteralsExpected.ParseFloatBigint.k_large_add := by decide
theorem k_long_mul : Gen.Literals.ParseFloatBigint.k_long_mul = Spec.LiteralsExpected.ParseFloatBigint.k_long_mul := by decide
theorem k_large_mul : Gen.Literals.ParseFloatBigint.k_large_mul = Spec.LiteralsExpected.ParseFloatBigint.k_large_mul := by decide
theorem k_large_quorem : Gen.Literals.ParseFloatBigint.k_large_quorem = Spec.LiteralsExpected.ParseFloatBigint.k_large_quorem := by decide
theorem k_compare : Gen.Literals.ParseFloatBigint.k_compare = Spec.LiteralsExpected.ParseFloatBigint.k_compare := by decide
theorem k_split_radix : Gen.Literals.ParseFloatBigint.k_split_radix = Spec.LiteralsExpected.ParseFloatBigint.k_split_radix := by decide

end LexVerif.Props.Literals.ParseFloatBigint
