import LexVerif.Gen.Literals
import LexVerif.Spec.LiteralsExpected
/-!
# Literals.UtilSkip — lexical-util/src/skip.rs still has the literals and token shape the models were transcribed from

`Gen.Literals.UtilSkip` is re-extracted from /repo's source text on every run; `Spec.LiteralsExpected.UtilSkip` is the
committed snapshot. One theorem per fn / macro item, so a failing obligation names the item whose source moved;
`items_same` catches added or removed items. (Written by `extractors.literals.snapshot()`.)
-/
namespace LexVerif.Props.Literals.UtilSkip
open LexVerif

theorem items_same : Gen.Literals.UtilSkip.items = Spec.LiteralsExpected.UtilSkip.items := by decide
theorem k_indexing_macro : Gen.Literals.UtilSkip.k_indexing_macro = Spec.LiteralsExpected.UtilSkip.k_indexing_macro := by decide
theorem k_is_i_macro : Gen.Literals.UtilSkip.k_is_i_macro = Spec.LiteralsExpected.UtilSkip.k_is_i_macro := by decide
theorem k_is_ic_macro : Gen.Literals.UtilSkip.k_is_ic_macro = Spec.LiteralsExpected.UtilSkip.k_is_ic_macro := by decide
theorem k_is_l_macro : Gen.Literals.UtilSkip.k_is_l_macro = Spec.LiteralsExpected.UtilSkip.k_is_l_macro := by decide
theorem k_is_lc_macro : Gen.Literals.UtilSkip.k_is_lc_macro = Spec.LiteralsExpected.UtilSkip.k_is_lc_macro := by decide
theorem k_is_t_macro : Gen.Literals.UtilSkip.k_is_t_macro = Spec.LiteralsExpected.UtilSkip.k_is_t_macro := by decide
theorem k_is_tc_macro : Gen.Literals.UtilSkip.k_is_tc_macro = Spec.LiteralsExpected.UtilSkip.k_is_tc_macro := by decide
theorem k_is_il_macro : Gen.Literals.UtilSkip.k_is_il_macro = Spec.LiteralsExpected.UtilSkip.k_is_il_macro := by decide
theorem k_is_ilc_macro : Gen.Literals.UtilSkip.k_is_ilc_macro = Spec.LiteralsExpected.UtilSkip.k_is_ilc_macro := by decide
theorem k_is_it_macro : Gen.Literals.UtilSkip.k_is_it_macro = Spec.LiteralsExpected.UtilSkip.k_is_it_macro := by decide
theorem k_is_itc_macro : Gen.Literals.UtilSkip.k_is_itc_macro = Spec.LiteralsExpected.UtilSkip.k_is_itc_macro := by decide
theorem k_is_lt_macro : Gen.Literals.UtilSkip.k_is_lt_macro = Spec.LiteralsExpected.UtilSkip.k_is_lt_macro := by decide
theorem k_is_ltc_macro : Gen.Literals.UtilSkip.k_is_ltc_macro = Spec.LiteralsExpected.UtilSkip.k_is_ltc_macro := by decide
theorem k_is_ilt_macro : Gen.Literals.UtilSkip.k_is_ilt_macro = Spec.LiteralsExpected.UtilSkip.k_is_ilt_macro := by decide
theorem k_is_iltc_macro : Gen.Literals.UtilSkip.k_is_iltc_macro = Spec.LiteralsExpected.UtilSkip.k_is_iltc_macro := by decide
theorem k_peek_1_macro : Gen.Literals.UtilSkip.k_peek_1_macro = Spec.LiteralsExpected.UtilSkip.k_peek_1_macro := by decide
theorem k_peek_n_macro : Gen.Literals.UtilSkip.k_peek_n_macro = Spec.LiteralsExpected.UtilSkip.k_peek_n_macro := by decide
theorem k_peek_noskip_macro : Gen.Literals.UtilSkip.k_peek_noskip_macro = Spec.LiteralsExpected.UtilSkip.k_peek_noskip_macro := by decide
theorem k_peek_l_macro : Gen.Literals.UtilSkip.k_peek_l_macro = Spec.LiteralsExpected.UtilSkip.k_peek_l_macro := by decide
theorem k_peek_i_macro : Gen.Literals.UtilSkip.k_peek_i_macro = Spec.LiteralsExpected.UtilSkip.k_peek_i_macro := by decide
theorem k_peek_t_macro : Gen.Literals.UtilSkip.k_peek_t_macro = Spec.LiteralsExpected.UtilSkip.k_peek_t_macro := by decide
theorem k_peek_il_macro : Gen.Literals.UtilSkip.k_peek_il_macro = Spec.LiteralsExpected.UtilSkip.k_peek_il_macro := by decide
theorem k_peek_it_macro : Gen.Literals.UtilSkip.k_peek_it_macro = Spec.LiteralsExpected.UtilSkip.k_peek_it_macro := by decide
theorem k_peek_lt_macro : Gen.Literals.UtilSkip.k_peek_lt_macro = Spec.LiteralsExpected.UtilSkip.k_peek_lt_macro := by decide
theorem k_peek_ilt_macro : Gen.Literals.UtilSkip.k_peek_ilt_macro = Spec.LiteralsExpected.UtilSkip.k_peek_ilt_macro := by decide
theorem k_peek_lc_macro : Gen.Literals.UtilSkip.k_peek_lc_macro = Spec.LiteralsExpected.UtilSkip.k_peek_lc_macro := by decide
theorem k_peek_ic_macro : Gen.Literals.UtilSkip.k_peek_ic_macro = Spec.LiteralsExpected.UtilSkip.k_peek_ic_macro := by decide
theorem k_peek_tc_macro : Gen.Literals.UtilSkip.k_peek_tc_macro = Spec.LiteralsExpected.UtilSkip.k_peek_tc_macro := by decide
theorem k_peek_ilc_macro : Gen.Literals.UtilSkip.k_peek_ilc_macro = Spec.LiteralsExpected.UtilSkip.k_peek_ilc_macro := by decide
theorem k_peek_itc_macro : Gen.Literals.UtilSkip.k_peek_itc_macro = Spec.LiteralsExpected.UtilSkip.k_peek_itc_macro := by decide
theorem k_peek_ltc_macro : Gen.Literals.UtilSkip.k_peek_ltc_macro = Spec.LiteralsExpected.UtilSkip.k_peek_ltc_macro := by decide
theorem k_peek_iltc_macro : Gen.Literals.UtilSkip.k_peek_iltc_macro = Spec.LiteralsExpected.UtilSkip.k_peek_iltc_macro := by decide
theorem k_bytes : Gen.Literals.UtilSkip.k_bytes = Spec.LiteralsExpected.UtilSkip.k_bytes := by decide
theorem k_new : Gen.Literals.UtilSkip.k_new = Spec.LiteralsExpected.UtilSkip.k_new := by decide
theorem k_from_parts : Gen.Literals.UtilSkip.k_from_parts = Spec.LiteralsExpected.UtilSkip.k_from_parts := by decide
theorem k_integer_iter : Gen.Literals.UtilSkip.k_integer_iter = Spec.LiteralsExpected.UtilSkip.k_integer_iter := by decide
theorem k_fraction_iter : Gen.Literals.UtilSkip.k_fraction_iter = Spec.LiteralsExpected.UtilSkip.k_fraction_iter := by decide
theorem k_exponent_iter : Gen.Literals.UtilSkip.k_exponent_iter = Spec.LiteralsExpected.UtilSkip.k_exponent_iter := by decide
theorem k_special_iter : Gen.Literals.UtilSkip.k_special_iter = Spec.LiteralsExpected.UtilSkip.k_special_iter := by decide
theorem k_step_by_unchecked_impl : Gen.Literals.UtilSkip.k_step_by_unchecked_impl = Spec.LiteralsExpected.UtilSkip.k_step_by_unchecked_impl := by decide
theorem k_peek_many_unchecked_impl : Gen.Literals.UtilSkip.k_peek_many_unchecked_impl = Spec.LiteralsExpected.UtilSkip.k_peek_many_unchecked_impl := by decide
theorem k_get_buffer : Gen.Literals.UtilSkip.k_get_buffer = Spec.LiteralsExpected.UtilSkip.k_get_buffer := by decide
theorem k_cursor : Gen.Literals.UtilSkip.k_cursor = Spec.LiteralsExpected.UtilSkip.k_cursor := by decide
theorem k_set_cursor : Gen.Literals.UtilSkip.k_set_cursor = Spec.LiteralsExpected.UtilSkip.k_set_cursor := by decide
theorem k_current_count : Gen.Literals.UtilSkip.k_current_count = Spec.LiteralsExpected.UtilSkip.k_current_count := by decide
theorem k_step_by_unchecked : Gen.Literals.UtilSkip.k_step_by_unchecked = Spec.LiteralsExpected.UtilSkip.k_step_by_unchecked := by decide
theorem k_peek_many_unchecked : Gen.Literals.UtilSkip.k_peek_many_unchecked = Spec.LiteralsExpected.UtilSkip.k_peek_many_unchecked := by decide
theorem k_skip_iterator_macro : Gen.Literals.UtilSkip.k_skip_iterator_macro = Spec.LiteralsExpected.UtilSkip.k_skip_iterator_macro := by decide
theorem k_is_sign_macro : Gen.Literals.UtilSkip.k_is_sign_macro = Spec.LiteralsExpected.UtilSkip.k_is_sign_macro := by decide
theorem k_is_sign : Gen.Literals.UtilSkip.k_is_sign = Spec.LiteralsExpected.UtilSkip.k_is_sign := by decide
theorem k_is_digit_separator_macro : Gen.Literals.UtilSkip.k_is_digit_separator_macro = Spec.LiteralsExpected.UtilSkip.k_is_digit_separator_macro := by decide
theorem k_is_digit_separator : Gen.Literals.UtilSkip.k_is_digit_separator = Spec.LiteralsExpected.UtilSkip.k_is_digit_separator := by decide
theorem k_skip_iterator_impl_macro : Gen.Literals.UtilSkip.k_skip_iterator_impl_macro = Spec.LiteralsExpected.UtilSkip.k_skip_iterator_impl_macro := by decide
theorem k_take_n : Gen.Literals.UtilSkip.k_take_n = Spec.LiteralsExpected.UtilSkip.k_take_n := by decide
theorem k_skip_iterator_iterator_impl_macro : Gen.Literals.UtilSkip.k_skip_iterator_iterator_impl_macro = Spec.LiteralsExpected.UtilSkip.k_skip_iterator_iterator_impl_macro := by decide
theorem k_next : Gen.Literals.UtilSkip.k_next = Spec.LiteralsExpected.UtilSkip.k_next := by decide
theorem k_skip_iterator_iter_base_macro : Gen.Literals.UtilSkip.k_skip_iterator_iter_base_macro = Spec.LiteralsExpected.UtilSkip.k_skip_iterator_iter_base_macro := by decide
theorem k_skip_iterator_digits_iter_base_macro : Gen.Literals.UtilSkip.k_skip_iterator_digits_iter_base_macro = Spec.LiteralsExpected.UtilSkip.k_skip_iterator_digits_iter_base_macro := by decide
theorem k_is_consumed : Gen.Literals.UtilSkip.k_is_consumed = Spec.LiteralsExpected.UtilSkip.k_is_consumed := by decide
theorem k_skip_iterator_bytesiter_impl_macro : Gen.Literals.UtilSkip.k_skip_iterator_bytesiter_impl_macro = Spec.LiteralsExpected.UtilSkip.k_skip_iterator_bytesiter_impl_macro := by decide
theorem k_increment_count : Gen.Literals.UtilSkip.k_increment_count = Spec.LiteralsExpected.UtilSkip.k_increment_count := by decide
theorem k_peek : Gen.Literals.UtilSkip.k_peek = Spec.LiteralsExpected.UtilSkip.k_peek := by decide
theorem k_is_digit : Gen.Literals.UtilSkip.k_is_digit = Spec.LiteralsExpected.UtilSkip.k_is_digit := by decide

end LexVerif.Props.Literals.UtilSkip
