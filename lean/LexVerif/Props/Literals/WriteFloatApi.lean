import LexVerif.Gen.Literals
import LexVerif.Spec.LiteralsExpected
/-!
# Literals.WriteFloatApi — lexical-write-float/src/api.rs still has the literals and token shape the models were transcribed from

`Gen.Literals.WriteFloatApi` is re-extracted from /repo's source text on every run; `Spec.LiteralsExpected.WriteFloatApi` is the
committed snapshot. One theorem per fn / macro item, so a failing obligation names the item whose source moved;
`items_same` catches added or removed items. (Written by `extractors.literals.snapshot()`.)
-/
namespace LexVerif.Props.Literals.WriteFloatApi
open LexVerif

theorem items_same : Gen.Literals.WriteFloatApi.items = Spec.LiteralsExpected.WriteFloatApi.items := by decide
theorem k_float_to_lexical_macro : Gen.Literals.WriteFloatApi.k_float_to_lexical_macro = Spec.LiteralsExpected.WriteFloatApi.k_float_to_lexical_macro := by decide
theorem k_to_lexical : Gen.Literals.WriteFloatApi.k_to_lexical = Spec.LiteralsExpected.WriteFloatApi.k_to_lexical := by decide
theorem k_to_lexical_with_options : Gen.Literals.WriteFloatApi.k_to_lexical_with_options = Spec.LiteralsExpected.WriteFloatApi.k_to_lexical_with_options := by decide

end LexVerif.Props.Literals.WriteFloatApi
