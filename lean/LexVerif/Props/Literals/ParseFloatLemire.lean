import LexVerif.Gen.Literals
import LexVerif.Spec.LiteralsExpected
/-!
# Literals.ParseFloatLemire — lexical-parse-float/src/lemire.rs still has the literals and token shape the models were transcribed from

`Gen.Literals.ParseFloatLemire` is re-extracted from /repo's source text on every run; `Spec.LiteralsExpected.ParseFloatLemire` is the
committed snapshot. One theorem per fn / macro item, so a failing obligation names the item whose source moved;
`items_same` catches added or removed items. (Written by `extractors.literals.snapshot()`.)
-/
namespace LexVerif.Props.Literals.ParseFloatLemire
open LexVerif

theorem items_same : Gen.Literals.ParseFloatLemire.items = Spec.LiteralsExpected.ParseFloatLemire.items := by decide
theorem k_lemire : Gen.Literals.ParseFloatLemire.k_lemire = Spec.LiteralsExpected.ParseFloatLemire.k_lemire := by decide
theorem k_compute_float : Gen.Literals.ParseFloatLemire.k_compute_float = Spec.LiteralsExpected.ParseFloatLemire.k_compute_float := by decide
theorem k_compute_error : Gen.Literals.ParseFloatLemire.k_compute_error = Spec.LiteralsExpected.ParseFloatLemire.k_compute_error := by decide
theorem k_compute_error_scaled : Gen.Literals.ParseFloatLemire.k_compute_error_scaled = Spec.LiteralsExpected.ParseFloatLemire.k_compute_error_scaled := by decide
theorem k_power : Gen.Literals.ParseFloatLemire.k_power = Spec.LiteralsExpected.ParseFloatLemire.k_power := by decide
theorem k_verif_power : Gen.Literals.ParseFloatLemire.k_verif_power = Spec.LiteralsExpected.ParseFloatLemire.k_verif_power := by decide
theorem k_full_multiplication : Gen.Literals.ParseFloatLemire.k_full_multiplication = Spec.LiteralsExpected.ParseFloatLemire.k_full_multiplication := by decide
theorem k_compute_product_approx : Gen.Literals.ParseFloatLemire.k_compute_product_approx = Spec.LiteralsExpected.ParseFloatLemire.k_compute_product_approx := by decide

end LexVerif.Props.Literals.ParseFloatLemire
