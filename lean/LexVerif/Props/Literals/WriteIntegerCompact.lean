import LexVerif.Gen.Literals
import LexVerif.Spec.LiteralsExpected
/-!
# Literals.WriteIntegerCompact — lexical-write-integer/src/compact.rs still has the literals and token shape the models were transcribed from

`Gen.Literals.WriteIntegerCompact` is re-extracted from /repo's source text on every run; `Spec.LiteralsExpected.WriteIntegerCompact` is the
committed snapshot. One theorem per fn / macro item, so a failing obligation names the item whose source moved;
`items_same` catches added or removed items. (Written by `extractors.literals.snapshot()`.)
-/
namespace LexVerif.Props.Literals.WriteIntegerCompact
open LexVerif

theorem items_same : Gen.Literals.WriteIntegerCompact.items = Spec.LiteralsExpected.WriteIntegerCompact.items := by decide
theorem k_compact : Gen.Literals.WriteIntegerCompact.k_compact = Spec.LiteralsExpected.WriteIntegerCompact.k_compact := by decide
theorem k_compact_impl_macro : Gen.Literals.WriteIntegerCompact.k_compact_impl_macro = Spec.LiteralsExpected.WriteIntegerCompact.k_compact_impl_macro := by decide

end LexVerif.Props.Literals.WriteIntegerCompact
