import LexVerif.Gen.Literals
import LexVerif.Spec.LiteralsExpected
/-!
# Literals.UtilAssert — lexical-util/src/assert.rs still has the literals and token shape the models were transcribed from

`Gen.Literals.UtilAssert` is re-extracted from /repo's source text on every run; `Spec.LiteralsExpected.UtilAssert` is the
committed snapshot. One theorem per fn / macro item, so a failing obligation names the item whose source moved;
`items_same` catches added or removed items. (Written by `extractors.literals.snapshot()`.)
-/
namespace LexVerif.Props.Literals.UtilAssert
open LexVerif

theorem items_same : Gen.Literals.UtilAssert.items = Spec.LiteralsExpected.UtilAssert.items := by decide
theorem k_debug_assert_radix : Gen.Literals.UtilAssert.k_debug_assert_radix = Spec.LiteralsExpected.UtilAssert.k_debug_assert_radix := by decide
theorem k_assert_buffer : Gen.Literals.UtilAssert.k_assert_buffer = Spec.LiteralsExpected.UtilAssert.k_assert_buffer := by decide

end LexVerif.Props.Literals.UtilAssert
