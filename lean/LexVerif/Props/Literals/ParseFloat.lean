import LexVerif.Gen.Literals
import LexVerif.Spec.LiteralsExpected
/-!
# Literals.ParseFloat — whitelisted arithmetic kernels of /repo still carry the literals (and token shape) the models
were transcribed from

`Gen.Literals` is re-extracted from /repo's source text on every run (extractors/literals.py: a tokenizer, the
integer literals of each whitelisted function/macro in source order, and a hash of its token sequence with the
literals abstracted). `Spec.LiteralsExpected` is the committed snapshot. One theorem per kernel, so that a failing
obligation names the function whose source moved. (Written by `snapshot()` together with the snapshot.)
-/
namespace LexVerif.Props.Literals.ParseFloat
open LexVerif

theorem parse_float_lemire_compute_float : Gen.Literals.parse_float_lemire_compute_float = Spec.LiteralsExpected.parse_float_lemire_compute_float := by decide
theorem parse_float_lemire_compute_product_approx : Gen.Literals.parse_float_lemire_compute_product_approx = Spec.LiteralsExpected.parse_float_lemire_compute_product_approx := by decide
theorem parse_float_lemire_power : Gen.Literals.parse_float_lemire_power = Spec.LiteralsExpected.parse_float_lemire_power := by decide
theorem parse_float_lemire_full_multiplication : Gen.Literals.parse_float_lemire_full_multiplication = Spec.LiteralsExpected.parse_float_lemire_full_multiplication := by decide
theorem parse_float_lemire_compute_error_scaled : Gen.Literals.parse_float_lemire_compute_error_scaled = Spec.LiteralsExpected.parse_float_lemire_compute_error_scaled := by decide
theorem parse_float_lemire_lemire : Gen.Literals.parse_float_lemire_lemire = Spec.LiteralsExpected.parse_float_lemire_lemire := by decide
theorem parse_float_bellerophon_bellerophon : Gen.Literals.parse_float_bellerophon_bellerophon = Spec.LiteralsExpected.parse_float_bellerophon_bellerophon := by decide
theorem parse_float_bellerophon_error_is_accurate : Gen.Literals.parse_float_bellerophon_error_is_accurate = Spec.LiteralsExpected.parse_float_bellerophon_error_is_accurate := by decide
theorem parse_float_bellerophon_error_scale : Gen.Literals.parse_float_bellerophon_error_scale = Spec.LiteralsExpected.parse_float_bellerophon_error_scale := by decide
theorem parse_float_bellerophon_mul : Gen.Literals.parse_float_bellerophon_mul = Spec.LiteralsExpected.parse_float_bellerophon_mul := by decide
theorem parse_float_bellerophon_normalize : Gen.Literals.parse_float_bellerophon_normalize = Spec.LiteralsExpected.parse_float_bellerophon_normalize := by decide
theorem parse_float_binary_binary : Gen.Literals.parse_float_binary_binary = Spec.LiteralsExpected.parse_float_binary_binary := by decide
theorem parse_float_binary_slow_binary : Gen.Literals.parse_float_binary_slow_binary = Spec.LiteralsExpected.parse_float_binary_slow_binary := by decide
theorem parse_float_shared_calculate_shift : Gen.Literals.parse_float_shared_calculate_shift = Spec.LiteralsExpected.parse_float_shared_calculate_shift := by decide
theorem parse_float_shared_calculate_power2 : Gen.Literals.parse_float_shared_calculate_power2 = Spec.LiteralsExpected.parse_float_shared_calculate_power2 := by decide
theorem parse_float_shared_log2 : Gen.Literals.parse_float_shared_log2 = Spec.LiteralsExpected.parse_float_shared_log2 := by decide
theorem parse_float_shared_round : Gen.Literals.parse_float_shared_round = Spec.LiteralsExpected.parse_float_shared_round := by decide
theorem parse_float_shared_round_nearest_tie_even : Gen.Literals.parse_float_shared_round_nearest_tie_even = Spec.LiteralsExpected.parse_float_shared_round_nearest_tie_even := by decide
theorem parse_float_number_is_fast_path : Gen.Literals.parse_float_number_is_fast_path = Spec.LiteralsExpected.parse_float_number_is_fast_path := by decide
theorem parse_float_number_try_fast_path : Gen.Literals.parse_float_number_try_fast_path = Spec.LiteralsExpected.parse_float_number_try_fast_path := by decide
theorem parse_float_mask_lower_n_mask : Gen.Literals.parse_float_mask_lower_n_mask = Spec.LiteralsExpected.parse_float_mask_lower_n_mask := by decide
theorem parse_float_mask_lower_n_halfway : Gen.Literals.parse_float_mask_lower_n_halfway = Spec.LiteralsExpected.parse_float_mask_lower_n_halfway := by decide
theorem parse_float_mask_nth_bit : Gen.Literals.parse_float_mask_nth_bit = Spec.LiteralsExpected.parse_float_mask_nth_bit := by decide
theorem parse_float_slow_scientific_exponent : Gen.Literals.parse_float_slow_scientific_exponent = Spec.LiteralsExpected.parse_float_slow_scientific_exponent := by decide
theorem parse_float_slow_round_up_truncated : Gen.Literals.parse_float_slow_round_up_truncated = Spec.LiteralsExpected.parse_float_slow_round_up_truncated := by decide
theorem parse_float_slow_round_up_nonzero : Gen.Literals.parse_float_slow_round_up_nonzero = Spec.LiteralsExpected.parse_float_slow_round_up_nonzero := by decide
theorem parse_float_slow_slow_radix : Gen.Literals.parse_float_slow_slow_radix = Spec.LiteralsExpected.parse_float_slow_slow_radix := by decide
theorem parse_float_slow_digit_comp : Gen.Literals.parse_float_slow_digit_comp = Spec.LiteralsExpected.parse_float_slow_digit_comp := by decide
theorem parse_float_slow_positive_digit_comp : Gen.Literals.parse_float_slow_positive_digit_comp = Spec.LiteralsExpected.parse_float_slow_positive_digit_comp := by decide
theorem parse_float_slow_negative_digit_comp : Gen.Literals.parse_float_slow_negative_digit_comp = Spec.LiteralsExpected.parse_float_slow_negative_digit_comp := by decide
theorem parse_float_slow_parse_mantissa : Gen.Literals.parse_float_slow_parse_mantissa = Spec.LiteralsExpected.parse_float_slow_parse_mantissa := by decide
theorem parse_float_slow_byte_comp : Gen.Literals.parse_float_slow_byte_comp = Spec.LiteralsExpected.parse_float_slow_byte_comp := by decide
theorem parse_float_slow_compare_bytes : Gen.Literals.parse_float_slow_compare_bytes = Spec.LiteralsExpected.parse_float_slow_compare_bytes := by decide
theorem parse_float_slow_b : Gen.Literals.parse_float_slow_b = Spec.LiteralsExpected.parse_float_slow_b := by decide
theorem parse_float_slow_bh : Gen.Literals.parse_float_slow_bh = Spec.LiteralsExpected.parse_float_slow_bh := by decide

end LexVerif.Props.Literals.ParseFloat
