import LexVerif.Gen.Literals
import LexVerif.Spec.LiteralsExpected
/-!
# Literals.WriteIntegerOptions — lexical-write-integer/src/options.rs still has the literals and token shape the models were transcribed from

`Gen.Literals.WriteIntegerOptions` is re-extracted from /repo's source text on every run; `Spec.LiteralsExpected.WriteIntegerOptions` is the
committed snapshot. One theorem per fn / macro item, so a failing obligation names the item whose source moved;
`items_same` catches added or removed items. (Written by `extractors.literals.snapshot()`.)
-/
namespace LexVerif.Props.Literals.WriteIntegerOptions
open LexVerif

theorem items_same : Gen.Literals.WriteIntegerOptions.items = Spec.LiteralsExpected.WriteIntegerOptions.items := by decide
theorem k_new : Gen.Literals.WriteIntegerOptions.k_new = Spec.LiteralsExpected.WriteIntegerOptions.k_new := by decide
theorem k_is_valid : Gen.Literals.WriteIntegerOptions.k_is_valid = Spec.LiteralsExpected.WriteIntegerOptions.k_is_valid := by decide
theorem k_build_unchecked : Gen.Literals.WriteIntegerOptions.k_build_unchecked = Spec.LiteralsExpected.WriteIntegerOptions.k_build_unchecked := by decide
theorem k_build_strict : Gen.Literals.WriteIntegerOptions.k_build_strict = Spec.LiteralsExpected.WriteIntegerOptions.k_build_strict := by decide
theorem k_build : Gen.Literals.WriteIntegerOptions.k_build = Spec.LiteralsExpected.WriteIntegerOptions.k_build := by decide
theorem k_default : Gen.Literals.WriteIntegerOptions.k_default = Spec.LiteralsExpected.WriteIntegerOptions.k_default := by decide
theorem k_from_radix : Gen.Literals.WriteIntegerOptions.k_from_radix = Spec.LiteralsExpected.WriteIntegerOptions.k_from_radix := by decide
theorem k_buffer_size_const : Gen.Literals.WriteIntegerOptions.k_buffer_size_const = Spec.LiteralsExpected.WriteIntegerOptions.k_buffer_size_const := by decide
theorem k_builder : Gen.Literals.WriteIntegerOptions.k_builder = Spec.LiteralsExpected.WriteIntegerOptions.k_builder := by decide
theorem k_rebuild : Gen.Literals.WriteIntegerOptions.k_rebuild = Spec.LiteralsExpected.WriteIntegerOptions.k_rebuild := by decide
theorem k_buffer_size : Gen.Literals.WriteIntegerOptions.k_buffer_size = Spec.LiteralsExpected.WriteIntegerOptions.k_buffer_size := by decide

end LexVerif.Props.Literals.WriteIntegerOptions
