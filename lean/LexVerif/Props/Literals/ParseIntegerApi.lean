import LexVerif.Gen.Literals
import LexVerif.Spec.LiteralsExpected
/-!
# Literals.ParseIntegerApi — lexical-parse-integer/src/api.rs still has the literals and token shape the models were transcribed from

`Gen.Literals.ParseIntegerApi` is re-extracted from /repo's source text on every run; `Spec.LiteralsExpected.ParseIntegerApi` is the
committed snapshot. One theorem per fn / macro item, so a failing obligation names the item whose source moved;
`items_same` catches added or removed items. (Written by `extractors.literals.snapshot()`.)
-/
namespace LexVerif.Props.Literals.ParseIntegerApi
open LexVerif

theorem items_same : Gen.Literals.ParseIntegerApi.items = Spec.LiteralsExpected.ParseIntegerApi.items := by decide
theorem k_integer_from_lexical_macro : Gen.Literals.ParseIntegerApi.k_integer_from_lexical_macro = Spec.LiteralsExpected.ParseIntegerApi.k_integer_from_lexical_macro := by decide
theorem k_from_lexical : Gen.Literals.ParseIntegerApi.k_from_lexical = Spec.LiteralsExpected.ParseIntegerApi.k_from_lexical := by decide
theorem k_from_lexical_partial : Gen.Literals.ParseIntegerApi.k_from_lexical_partial = Spec.LiteralsExpected.ParseIntegerApi.k_from_lexical_partial := by decide
theorem k_from_lexical_with_options : Gen.Literals.ParseIntegerApi.k_from_lexical_with_options = Spec.LiteralsExpected.ParseIntegerApi.k_from_lexical_with_options := by decide
theorem k_from_lexical_partial_with_options : Gen.Literals.ParseIntegerApi.k_from_lexical_partial_with_options = Spec.LiteralsExpected.ParseIntegerApi.k_from_lexical_partial_with_options := by decide

end LexVerif.Props.Literals.ParseIntegerApi
