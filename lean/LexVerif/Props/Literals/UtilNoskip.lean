import LexVerif.Gen.Literals
import LexVerif.Spec.LiteralsExpected
/-!
# Literals.UtilNoskip — lexical-util/src/noskip.rs still has the literals and token shape the models were transcribed from

`Gen.Literals.UtilNoskip` is re-extracted from /repo's source text on every run; `Spec.LiteralsExpected.UtilNoskip` is the
committed snapshot. One theorem per fn / macro item, so a failing obligation names the item whose source moved;
`items_same` catches added or removed items. (Written by `extractors.literals.snapshot()`.)
-/
namespace LexVerif.Props.Literals.UtilNoskip
open LexVerif

theorem items_same : Gen.Literals.UtilNoskip.items = Spec.LiteralsExpected.UtilNoskip.items := by decide
theorem k_bytes : Gen.Literals.UtilNoskip.k_bytes = Spec.LiteralsExpected.UtilNoskip.k_bytes := by decide
theorem k_new : Gen.Literals.UtilNoskip.k_new = Spec.LiteralsExpected.UtilNoskip.k_new := by decide
theorem k_from_parts : Gen.Literals.UtilNoskip.k_from_parts = Spec.LiteralsExpected.UtilNoskip.k_from_parts := by decide
theorem k_integer_iter : Gen.Literals.UtilNoskip.k_integer_iter = Spec.LiteralsExpected.UtilNoskip.k_integer_iter := by decide
theorem k_fraction_iter : Gen.Literals.UtilNoskip.k_fraction_iter = Spec.LiteralsExpected.UtilNoskip.k_fraction_iter := by decide
theorem k_exponent_iter : Gen.Literals.UtilNoskip.k_exponent_iter = Spec.LiteralsExpected.UtilNoskip.k_exponent_iter := by decide
theorem k_special_iter : Gen.Literals.UtilNoskip.k_special_iter = Spec.LiteralsExpected.UtilNoskip.k_special_iter := by decide
theorem k_get_buffer : Gen.Literals.UtilNoskip.k_get_buffer = Spec.LiteralsExpected.UtilNoskip.k_get_buffer := by decide
theorem k_cursor : Gen.Literals.UtilNoskip.k_cursor = Spec.LiteralsExpected.UtilNoskip.k_cursor := by decide
theorem k_set_cursor : Gen.Literals.UtilNoskip.k_set_cursor = Spec.LiteralsExpected.UtilNoskip.k_set_cursor := by decide
theorem k_current_count : Gen.Literals.UtilNoskip.k_current_count = Spec.LiteralsExpected.UtilNoskip.k_current_count := by decide
theorem k_step_by_unchecked : Gen.Literals.UtilNoskip.k_step_by_unchecked = Spec.LiteralsExpected.UtilNoskip.k_step_by_unchecked := by decide
theorem k_peek_many_unchecked : Gen.Literals.UtilNoskip.k_peek_many_unchecked = Spec.LiteralsExpected.UtilNoskip.k_peek_many_unchecked := by decide
theorem k_take_n : Gen.Literals.UtilNoskip.k_take_n = Spec.LiteralsExpected.UtilNoskip.k_take_n := by decide
theorem k_is_consumed : Gen.Literals.UtilNoskip.k_is_consumed = Spec.LiteralsExpected.UtilNoskip.k_is_consumed := by decide
theorem k_increment_count : Gen.Literals.UtilNoskip.k_increment_count = Spec.LiteralsExpected.UtilNoskip.k_increment_count := by decide
theorem k_peek : Gen.Literals.UtilNoskip.k_peek = Spec.LiteralsExpected.UtilNoskip.k_peek := by decide
theorem k_is_digit : Gen.Literals.UtilNoskip.k_is_digit = Spec.LiteralsExpected.UtilNoskip.k_is_digit := by decide
theorem k_next : Gen.Literals.UtilNoskip.k_next = Spec.LiteralsExpected.UtilNoskip.k_next := by decide
theorem k_len : Gen.Literals.UtilNoskip.k_len = Spec.LiteralsExpected.UtilNoskip.k_len := by decide

end LexVerif.Props.Literals.UtilNoskip
