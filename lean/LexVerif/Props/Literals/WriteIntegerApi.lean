import LexVerif.Gen.Literals
import LexVerif.Spec.LiteralsExpected
/-!
# Literals.WriteIntegerApi — lexical-write-integer/src/api.rs still has the literals and token shape the models were transcribed from

`Gen.Literals.WriteIntegerApi` is re-extracted from /repo's source text on every run; `Spec.LiteralsExpected.WriteIntegerApi` is the
committed snapshot. One theorem per fn / macro item, so a failing obligation names the item whose source moved;
`items_same` catches added or removed items. (Written by `extractors.literals.snapshot()`.)
-/
namespace LexVerif.Props.Literals.WriteIntegerApi
open LexVerif

theorem items_same : Gen.Literals.WriteIntegerApi.items = Spec.LiteralsExpected.WriteIntegerApi.items := by decide
theorem k_unsigned : Gen.Literals.WriteIntegerApi.k_unsigned = Spec.LiteralsExpected.WriteIntegerApi.k_unsigned := by decide
theorem k_signed : Gen.Literals.WriteIntegerApi.k_signed = Spec.LiteralsExpected.WriteIntegerApi.k_signed := by decide
theorem k_unsigned_to_lexical_macro : Gen.Literals.WriteIntegerApi.k_unsigned_to_lexical_macro = Spec.LiteralsExpected.WriteIntegerApi.k_unsigned_to_lexical_macro := by decide
theorem k_to_lexical : Gen.Literals.WriteIntegerApi.k_to_lexical = Spec.LiteralsExpected.WriteIntegerApi.k_to_lexical := by decide
theorem k_to_lexical_with_options : Gen.Literals.WriteIntegerApi.k_to_lexical_with_options = Spec.LiteralsExpected.WriteIntegerApi.k_to_lexical_with_options := by decide
theorem k_signed_to_lexical_macro : Gen.Literals.WriteIntegerApi.k_signed_to_lexical_macro = Spec.LiteralsExpected.WriteIntegerApi.k_signed_to_lexical_macro := by decide

end LexVerif.Props.Literals.WriteIntegerApi
