import LexVerif.Gen.Literals
import LexVerif.Spec.LiteralsExpected
/-!
# Literals.WriteFloatHex — lexical-write-float/src/hex.rs still has the literals and token shape the models were transcribed from

`Gen.Literals.WriteFloatHex` is re-extracted from /repo's source text on every run; `Spec.LiteralsExpected.WriteFloatHex` is the
committed snapshot. One theorem per fn / macro item, so a failing obligation names the item whose source moved;
`items_same` catches added or removed items. (Written by `extractors.literals.snapshot()`.)
-/
namespace LexVerif.Props.Literals.WriteFloatHex
open LexVerif

theorem items_same : Gen.Literals.WriteFloatHex.items = Spec.LiteralsExpected.WriteFloatHex.items := by decide
theorem k_write_float : Gen.Literals.WriteFloatHex.k_write_float = Spec.LiteralsExpected.WriteFloatHex.k_write_float := by decide
theorem k_write_float_scientific : Gen.Literals.WriteFloatHex.k_write_float_scientific = Spec.LiteralsExpected.WriteFloatHex.k_write_float_scientific := by decide
theorem k_scale_sci_exp : Gen.Literals.WriteFloatHex.k_scale_sci_exp = Spec.LiteralsExpected.WriteFloatHex.k_scale_sci_exp := by decide

end LexVerif.Props.Literals.WriteFloatHex
