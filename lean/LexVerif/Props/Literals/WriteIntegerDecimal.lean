import LexVerif.Gen.Literals
import LexVerif.Spec.LiteralsExpected
/-!
# Literals.WriteIntegerDecimal — lexical-write-integer/src/decimal.rs still has the literals and token shape the models were transcribed from

`Gen.Literals.WriteIntegerDecimal` is re-extracted from /repo's source text on every run; `Spec.LiteralsExpected.WriteIntegerDecimal` is the
committed snapshot. One theorem per fn / macro item, so a failing obligation names the item whose source moved;
`items_same` catches added or removed items. (Written by `extractors.literals.snapshot()`.)
-/
namespace LexVerif.Props.Literals.WriteIntegerDecimal
open LexVerif

theorem items_same : Gen.Literals.WriteIntegerDecimal.items = Spec.LiteralsExpected.WriteIntegerDecimal.items := by decide
theorem k_fast_log10 : Gen.Literals.WriteIntegerDecimal.k_fast_log10 = Spec.LiteralsExpected.WriteIntegerDecimal.k_fast_log10 := by decide
theorem k_fast_digit_count : Gen.Literals.WriteIntegerDecimal.k_fast_digit_count = Spec.LiteralsExpected.WriteIntegerDecimal.k_fast_digit_count := by decide
theorem k_fallback_digit_count : Gen.Literals.WriteIntegerDecimal.k_fallback_digit_count = Spec.LiteralsExpected.WriteIntegerDecimal.k_fallback_digit_count := by decide
theorem k_decimal_count : Gen.Literals.WriteIntegerDecimal.k_decimal_count = Spec.LiteralsExpected.WriteIntegerDecimal.k_decimal_count := by decide
theorem k_decimal : Gen.Literals.WriteIntegerDecimal.k_decimal = Spec.LiteralsExpected.WriteIntegerDecimal.k_decimal := by decide
theorem k_decimal_signed : Gen.Literals.WriteIntegerDecimal.k_decimal_signed = Spec.LiteralsExpected.WriteIntegerDecimal.k_decimal_signed := by decide
theorem k_decimal_impl_macro : Gen.Literals.WriteIntegerDecimal.k_decimal_impl_macro = Spec.LiteralsExpected.WriteIntegerDecimal.k_decimal_impl_macro := by decide

end LexVerif.Props.Literals.WriteIntegerDecimal
