import LexVerif.Gen.Literals
import LexVerif.Spec.LiteralsExpected
/-!
# Literals.UtilApi — lexical-util/src/api.rs still has the literals and token shape the models were transcribed from

`Gen.Literals.UtilApi` is re-extracted from /repo's source text on every run; `Spec.LiteralsExpected.UtilApi` is the
committed snapshot. One theorem per fn / macro item, so a failing obligation names the item whose source moved;
`items_same` catches added or removed items. (Written by `extractors.literals.snapshot()`.)
-/
namespace LexVerif.Props.Literals.UtilApi
open LexVerif

theorem items_same : Gen.Literals.UtilApi.items = Spec.LiteralsExpected.UtilApi.items := by decide
theorem k_from_lexical_macro : Gen.Literals.UtilApi.k_from_lexical_macro = Spec.LiteralsExpected.UtilApi.k_from_lexical_macro := by decide
theorem k_from_lexical : Gen.Literals.UtilApi.k_from_lexical = Spec.LiteralsExpected.UtilApi.k_from_lexical := by decide
theorem k_from_lexical_partial : Gen.Literals.UtilApi.k_from_lexical_partial = Spec.LiteralsExpected.UtilApi.k_from_lexical_partial := by decide
theorem k_from_lexical_with_options_macro : Gen.Literals.UtilApi.k_from_lexical_with_options_macro = Spec.LiteralsExpected.UtilApi.k_from_lexical_with_options_macro := by decide
theorem k_from_lexical_with_options : Gen.Literals.UtilApi.k_from_lexical_with_options = Spec.LiteralsExpected.UtilApi.k_from_lexical_with_options := by decide
theorem k_from_lexical_partial_with_options : Gen.Literals.UtilApi.k_from_lexical_partial_with_options = Spec.LiteralsExpected.UtilApi.k_from_lexical_partial_with_options := by decide
theorem k_to_lexical_macro : Gen.Literals.UtilApi.k_to_lexical_macro = Spec.LiteralsExpected.UtilApi.k_to_lexical_macro := by decide
theorem k_to_lexical : Gen.Literals.UtilApi.k_to_lexical = Spec.LiteralsExpected.UtilApi.k_to_lexical := by decide
theorem k_to_lexical_with_options_macro : Gen.Literals.UtilApi.k_to_lexical_with_options_macro = Spec.LiteralsExpected.UtilApi.k_to_lexical_with_options_macro := by decide
theorem k_to_lexical_with_options : Gen.Literals.UtilApi.k_to_lexical_with_options = Spec.LiteralsExpected.UtilApi.k_to_lexical_with_options := by decide

end LexVerif.Props.Literals.UtilApi
