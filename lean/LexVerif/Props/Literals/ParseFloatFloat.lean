import LexVerif.Gen.Literals
import LexVerif.Spec.LiteralsExpected
/-!
# Literals.ParseFloatFloat — lexical-parse-float/src/float.rs still has the literals and token shape the models were transcribed from

`Gen.Literals.ParseFloatFloat` is re-extracted from /repo's source text on every run; `Spec.LiteralsExpected.ParseFloatFloat` is the
committed snapshot. One theorem per fn / macro item, so a failing obligation names the item whose source moved;
`items_same` catches added or removed items. (Written by `extractors.literals.snapshot()`.)
-/
namespace LexVerif.Props.Literals.ParseFloatFloat
open LexVerif

theorem items_same : Gen.Literals.ParseFloatFloat.items = Spec.LiteralsExpected.ParseFloatFloat.items := by decide
theorem k_min_exponent_fast_path : Gen.Literals.ParseFloatFloat.k_min_exponent_fast_path = Spec.LiteralsExpected.ParseFloatFloat.k_min_exponent_fast_path := by decide
theorem k_max_exponent_fast_path : Gen.Literals.ParseFloatFloat.k_max_exponent_fast_path = Spec.LiteralsExpected.ParseFloatFloat.k_max_exponent_fast_path := by decide
theorem k_max_exponent_disguised_fast_path : Gen.Literals.ParseFloatFloat.k_max_exponent_disguised_fast_path = Spec.LiteralsExpected.ParseFloatFloat.k_max_exponent_disguised_fast_path := by decide
theorem k_pow_fast_path : Gen.Literals.ParseFloatFloat.k_pow_fast_path = Spec.LiteralsExpected.ParseFloatFloat.k_pow_fast_path := by decide
theorem k_int_pow_fast_path : Gen.Literals.ParseFloatFloat.k_int_pow_fast_path = Spec.LiteralsExpected.ParseFloatFloat.k_int_pow_fast_path := by decide
theorem k_powf : Gen.Literals.ParseFloatFloat.k_powf = Spec.LiteralsExpected.ParseFloatFloat.k_powf := by decide
theorem k_powd : Gen.Literals.ParseFloatFloat.k_powd = Spec.LiteralsExpected.ParseFloatFloat.k_powd := by decide
theorem k_extended_to_float : Gen.Literals.ParseFloatFloat.k_extended_to_float = Spec.LiteralsExpected.ParseFloatFloat.k_extended_to_float := by decide

end LexVerif.Props.Literals.ParseFloatFloat
