import LexVerif.Gen.Literals
import LexVerif.Spec.LiteralsExpected
/-!
# Literals.Util — whitelisted arithmetic kernels of /repo still carry the literals (and token shape) the models
were transcribed from

`Gen.Literals` is re-extracted from /repo's source text on every run (extractors/literals.py: a tokenizer, the
integer literals of each whitelisted function/macro in source order, and a hash of its token sequence with the
literals abstracted). `Spec.LiteralsExpected` is the committed snapshot. One theorem per kernel, so that a failing
obligation names the function whose source moved. (Written by `snapshot()` together with the snapshot.)
-/
namespace LexVerif.Props.Literals.Util
open LexVerif

theorem util_num_overflow_digits : Gen.Literals.util_num_overflow_digits = Spec.LiteralsExpected.util_num_overflow_digits := by decide
theorem util_digit_char_to_valid_digit_const : Gen.Literals.util_digit_char_to_valid_digit_const = Spec.LiteralsExpected.util_digit_char_to_valid_digit_const := by decide
theorem util_digit_char_to_digit_const : Gen.Literals.util_digit_char_to_digit_const = Spec.LiteralsExpected.util_digit_char_to_digit_const := by decide
theorem util_digit_digit_to_char_const : Gen.Literals.util_digit_digit_to_char_const = Spec.LiteralsExpected.util_digit_digit_to_char_const := by decide
theorem util_div128_fast_u128_divrem : Gen.Literals.util_div128_fast_u128_divrem = Spec.LiteralsExpected.util_div128_fast_u128_divrem := by decide
theorem util_div128_moderate_u128_divrem : Gen.Literals.util_div128_moderate_u128_divrem = Spec.LiteralsExpected.util_div128_moderate_u128_divrem := by decide
theorem util_div128_slow_u128_divrem : Gen.Literals.util_div128_slow_u128_divrem = Spec.LiteralsExpected.util_div128_slow_u128_divrem := by decide
theorem util_div128_pow2_u128_divrem : Gen.Literals.util_div128_pow2_u128_divrem = Spec.LiteralsExpected.util_div128_pow2_u128_divrem := by decide
theorem util_mul_mulhi : Gen.Literals.util_mul_mulhi = Spec.LiteralsExpected.util_mul_mulhi := by decide

end LexVerif.Props.Literals.Util
