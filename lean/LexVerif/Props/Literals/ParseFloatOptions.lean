import LexVerif.Gen.Literals
import LexVerif.Spec.LiteralsExpected
/-!
# Literals.ParseFloatOptions — lexical-parse-float/src/options.rs still has the literals and token shape the models were transcribed from

`Gen.Literals.ParseFloatOptions` is re-extracted from /repo's source text on every run; `Spec.LiteralsExpected.ParseFloatOptions` is the
committed snapshot. One theorem per fn / macro item, so a failing obligation names the item whose source moved;
`items_same` catches added or removed items. (Written by `extractors.literals.snapshot()`.)
-/
namespace LexVerif.Props.Literals.ParseFloatOptions
open LexVerif

theorem items_same : Gen.Literals.ParseFloatOptions.items = Spec.LiteralsExpected.ParseFloatOptions.items := by decide
theorem k_new : Gen.Literals.ParseFloatOptions.k_new = Spec.LiteralsExpected.ParseFloatOptions.k_new := by decide
theorem k_get_lossy : Gen.Literals.ParseFloatOptions.k_get_lossy = Spec.LiteralsExpected.ParseFloatOptions.k_get_lossy := by decide
theorem k_get_exponent : Gen.Literals.ParseFloatOptions.k_get_exponent = Spec.LiteralsExpected.ParseFloatOptions.k_get_exponent := by decide
theorem k_get_decimal_point : Gen.Literals.ParseFloatOptions.k_get_decimal_point = Spec.LiteralsExpected.ParseFloatOptions.k_get_decimal_point := by decide
theorem k_get_nan_string : Gen.Literals.ParseFloatOptions.k_get_nan_string = Spec.LiteralsExpected.ParseFloatOptions.k_get_nan_string := by decide
theorem k_get_inf_string : Gen.Literals.ParseFloatOptions.k_get_inf_string = Spec.LiteralsExpected.ParseFloatOptions.k_get_inf_string := by decide
theorem k_get_infinity_string : Gen.Literals.ParseFloatOptions.k_get_infinity_string = Spec.LiteralsExpected.ParseFloatOptions.k_get_infinity_string := by decide
theorem k_lossy : Gen.Literals.ParseFloatOptions.k_lossy = Spec.LiteralsExpected.ParseFloatOptions.k_lossy := by decide
theorem k_exponent : Gen.Literals.ParseFloatOptions.k_exponent = Spec.LiteralsExpected.ParseFloatOptions.k_exponent := by decide
theorem k_decimal_point : Gen.Literals.ParseFloatOptions.k_decimal_point = Spec.LiteralsExpected.ParseFloatOptions.k_decimal_point := by decide
theorem k_nan_string : Gen.Literals.ParseFloatOptions.k_nan_string = Spec.LiteralsExpected.ParseFloatOptions.k_nan_string := by decide
theorem k_inf_string : Gen.Literals.ParseFloatOptions.k_inf_string = Spec.LiteralsExpected.ParseFloatOptions.k_inf_string := by decide
theorem k_infinity_string : Gen.Literals.ParseFloatOptions.k_infinity_string = Spec.LiteralsExpected.ParseFloatOptions.k_infinity_string := by decide
theorem k_nan_str_is_valid : Gen.Literals.ParseFloatOptions.k_nan_str_is_valid = Spec.LiteralsExpected.ParseFloatOptions.k_nan_str_is_valid := by decide
theorem k_inf_str_is_valid : Gen.Literals.ParseFloatOptions.k_inf_str_is_valid = Spec.LiteralsExpected.ParseFloatOptions.k_inf_str_is_valid := by decide
theorem k_infinity_string_is_valid : Gen.Literals.ParseFloatOptions.k_infinity_string_is_valid = Spec.LiteralsExpected.ParseFloatOptions.k_infinity_string_is_valid := by decide
theorem k_is_valid : Gen.Literals.ParseFloatOptions.k_is_valid = Spec.LiteralsExpected.ParseFloatOptions.k_is_valid := by decide
theorem k_build_unchecked : Gen.Literals.ParseFloatOptions.k_build_unchecked = Spec.LiteralsExpected.ParseFloatOptions.k_build_unchecked := by decide
theorem k_build_strict : Gen.Literals.ParseFloatOptions.k_build_strict = Spec.LiteralsExpected.ParseFloatOptions.k_build_strict := by decide
theorem k_build : Gen.Literals.ParseFloatOptions.k_build = Spec.LiteralsExpected.ParseFloatOptions.k_build := by decide
theorem k_default : Gen.Literals.ParseFloatOptions.k_default = Spec.LiteralsExpected.ParseFloatOptions.k_default := by decide
theorem k_from_radix : Gen.Literals.ParseFloatOptions.k_from_radix = Spec.LiteralsExpected.ParseFloatOptions.k_from_radix := by decide
theorem k_set_lossy : Gen.Literals.ParseFloatOptions.k_set_lossy = Spec.LiteralsExpected.ParseFloatOptions.k_set_lossy := by decide
theorem k_set_exponent : Gen.Literals.ParseFloatOptions.k_set_exponent = Spec.LiteralsExpected.ParseFloatOptions.k_set_exponent := by decide
theorem k_set_decimal_point : Gen.Literals.ParseFloatOptions.k_set_decimal_point = Spec.LiteralsExpected.ParseFloatOptions.k_set_decimal_point := by decide
theorem k_set_nan_string : Gen.Literals.ParseFloatOptions.k_set_nan_string = Spec.LiteralsExpected.ParseFloatOptions.k_set_nan_string := by decide
theorem k_set_inf_string : Gen.Literals.ParseFloatOptions.k_set_inf_string = Spec.LiteralsExpected.ParseFloatOptions.k_set_inf_string := by decide
theorem k_set_infinity_string : Gen.Literals.ParseFloatOptions.k_set_infinity_string = Spec.LiteralsExpected.ParseFloatOptions.k_set_infinity_string := by decide
theorem k_builder : Gen.Literals.ParseFloatOptions.k_builder = Spec.LiteralsExpected.ParseFloatOptions.k_builder := by decide
theorem k_rebuild : Gen.Literals.ParseFloatOptions.k_rebuild = Spec.LiteralsExpected.ParseFloatOptions.k_rebuild := by decide
theorem k_unwrap_str : Gen.Literals.ParseFloatOptions.k_unwrap_str = Spec.LiteralsExpected.ParseFloatOptions.k_unwrap_str := by decide

end LexVerif.Props.Literals.ParseFloatOptions
