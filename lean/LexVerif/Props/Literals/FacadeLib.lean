import LexVerif.Gen.Literals
import LexVerif.Spec.LiteralsExpected
/-!
# Literals.FacadeLib — lexical/src/lib.rs still has the literals and token shape the models were transcribed from

`Gen.Literals.FacadeLib` is re-extracted from /repo's source text on every run; `Spec.LiteralsExpected.FacadeLib` is the
committed snapshot. One theorem per fn / macro item, so a failing obligation names the item whose source moved;
`items_same` catches added or removed items. (Written by `extractors.literals.snapshot()`.)
-/
namespace LexVerif.Props.Literals.FacadeLib
open LexVerif

theorem items_same : Gen.Literals.FacadeLib.items = Spec.LiteralsExpected.FacadeLib.items := by decide
theorem k_to_string : Gen.Literals.FacadeLib.k_to_string = Spec.LiteralsExpected.FacadeLib.k_to_string := by decide
theorem k_to_string_with_options : Gen.Literals.FacadeLib.k_to_string_with_options = Spec.LiteralsExpected.FacadeLib.k_to_string_with_options := by decide
theorem k_parse : Gen.Literals.FacadeLib.k_parse = Spec.LiteralsExpected.FacadeLib.k_parse := by decide
theorem k_parse_partial : Gen.Literals.FacadeLib.k_parse_partial = Spec.LiteralsExpected.FacadeLib.k_parse_partial := by decide
theorem k_parse_with_options : Gen.Literals.FacadeLib.k_parse_with_options = Spec.LiteralsExpected.FacadeLib.k_parse_with_options := by decide
theorem k_parse_partial_with_options : Gen.Literals.FacadeLib.k_parse_partial_with_options = Spec.LiteralsExpected.FacadeLib.k_parse_partial_with_options := by decide

end LexVerif.Props.Literals.FacadeLib
