import LexVerif.Gen.Literals
import LexVerif.Spec.LiteralsExpected
/-!
# Literals.UtilFormatBuilder — lexical-util/src/format_builder.rs still has the literals and token shape the models were transcribed from

`Gen.Literals.UtilFormatBuilder` is re-extracted from /repo's source text on every run; `Spec.LiteralsExpected.UtilFormatBuilder` is the
committed snapshot. One theorem per fn / macro item, so a failing obligation names the item whose source moved;
`items_same` catches added or removed items. (Written by `extractors.literals.snapshot()`.)
-/
namespace LexVerif.Props.Literals.UtilFormatBuilder
open LexVerif

theorem items_same : Gen.Literals.UtilFormatBuilder.items = Spec.LiteralsExpected.UtilFormatBuilder.items := by decide
theorem k_add_flag_macro : Gen.Literals.UtilFormatBuilder.k_add_flag_macro = Spec.LiteralsExpected.UtilFormatBuilder.k_add_flag_macro := by decide
theorem k_add_flags_macro : Gen.Literals.UtilFormatBuilder.k_add_flags_macro = Spec.LiteralsExpected.UtilFormatBuilder.k_add_flags_macro := by decide
theorem k_has_flag_macro : Gen.Literals.UtilFormatBuilder.k_has_flag_macro = Spec.LiteralsExpected.UtilFormatBuilder.k_has_flag_macro := by decide
theorem k_unwrap_or_zero : Gen.Literals.UtilFormatBuilder.k_unwrap_or_zero = Spec.LiteralsExpected.UtilFormatBuilder.k_unwrap_or_zero := by decide
theorem k_new : Gen.Literals.UtilFormatBuilder.k_new = Spec.LiteralsExpected.UtilFormatBuilder.k_new := by decide
theorem k_binary : Gen.Literals.UtilFormatBuilder.k_binary = Spec.LiteralsExpected.UtilFormatBuilder.k_binary := by decide
theorem k_octal : Gen.Literals.UtilFormatBuilder.k_octal = Spec.LiteralsExpected.UtilFormatBuilder.k_octal := by decide
theorem k_decimal : Gen.Literals.UtilFormatBuilder.k_decimal = Spec.LiteralsExpected.UtilFormatBuilder.k_decimal := by decide
theorem k_hexadecimal : Gen.Literals.UtilFormatBuilder.k_hexadecimal = Spec.LiteralsExpected.UtilFormatBuilder.k_hexadecimal := by decide
theorem k_from_radix : Gen.Literals.UtilFormatBuilder.k_from_radix = Spec.LiteralsExpected.UtilFormatBuilder.k_from_radix := by decide
theorem k_get_digit_separator : Gen.Literals.UtilFormatBuilder.k_get_digit_separator = Spec.LiteralsExpected.UtilFormatBuilder.k_get_digit_separator := by decide
theorem k_get_mantissa_radix : Gen.Literals.UtilFormatBuilder.k_get_mantissa_radix = Spec.LiteralsExpected.UtilFormatBuilder.k_get_mantissa_radix := by decide
theorem k_get_exponent_base : Gen.Literals.UtilFormatBuilder.k_get_exponent_base = Spec.LiteralsExpected.UtilFormatBuilder.k_get_exponent_base := by decide
theorem k_get_exponent_radix : Gen.Literals.UtilFormatBuilder.k_get_exponent_radix = Spec.LiteralsExpected.UtilFormatBuilder.k_get_exponent_radix := by decide
theorem k_get_base_prefix : Gen.Literals.UtilFormatBuilder.k_get_base_prefix = Spec.LiteralsExpected.UtilFormatBuilder.k_get_base_prefix := by decide
theorem k_get_base_suffix : Gen.Literals.UtilFormatBuilder.k_get_base_suffix = Spec.LiteralsExpected.UtilFormatBuilder.k_get_base_suffix := by decide
theorem k_get_required_integer_digits : Gen.Literals.UtilFormatBuilder.k_get_required_integer_digits = Spec.LiteralsExpected.UtilFormatBuilder.k_get_required_integer_digits := by decide
theorem k_get_required_fraction_digits : Gen.Literals.UtilFormatBuilder.k_get_required_fraction_digits = Spec.LiteralsExpected.UtilFormatBuilder.k_get_required_fraction_digits := by decide
theorem k_get_required_exponent_digits : Gen.Literals.UtilFormatBuilder.k_get_required_exponent_digits = Spec.LiteralsExpected.UtilFormatBuilder.k_get_required_exponent_digits := by decide
theorem k_get_required_mantissa_digits : Gen.Literals.UtilFormatBuilder.k_get_required_mantissa_digits = Spec.LiteralsExpected.UtilFormatBuilder.k_get_required_mantissa_digits := by decide
theorem k_get_no_positive_mantissa_sign : Gen.Literals.UtilFormatBuilder.k_get_no_positive_mantissa_sign = Spec.LiteralsExpected.UtilFormatBuilder.k_get_no_positive_mantissa_sign := by decide
theorem k_get_required_mantissa_sign : Gen.Literals.UtilFormatBuilder.k_get_required_mantissa_sign = Spec.LiteralsExpected.UtilFormatBuilder.k_get_required_mantissa_sign := by decide
theorem k_get_no_exponent_notation : Gen.Literals.UtilFormatBuilder.k_get_no_exponent_notation = Spec.LiteralsExpected.UtilFormatBuilder.k_get_no_exponent_notation := by decide
theorem k_get_no_positive_exponent_sign : Gen.Literals.UtilFormatBuilder.k_get_no_positive_exponent_sign = Spec.LiteralsExpected.UtilFormatBuilder.k_get_no_positive_exponent_sign := by decide
theorem k_get_required_exponent_sign : Gen.Literals.UtilFormatBuilder.k_get_required_exponent_sign = Spec.LiteralsExpected.UtilFormatBuilder.k_get_required_exponent_sign := by decide
theorem k_get_no_exponent_without_fraction : Gen.Literals.UtilFormatBuilder.k_get_no_exponent_without_fraction = Spec.LiteralsExpected.UtilFormatBuilder.k_get_no_exponent_without_fraction := by decide
theorem k_get_no_special : Gen.Literals.UtilFormatBuilder.k_get_no_special = Spec.LiteralsExpected.UtilFormatBuilder.k_get_no_special := by decide
theorem k_get_case_sensitive_special : Gen.Literals.UtilFormatBuilder.k_get_case_sensitive_special = Spec.LiteralsExpected.UtilFormatBuilder.k_get_case_sensitive_special := by decide
theorem k_get_no_integer_leading_zeros : Gen.Literals.UtilFormatBuilder.k_get_no_integer_leading_zeros = Spec.LiteralsExpected.UtilFormatBuilder.k_get_no_integer_leading_zeros := by decide
theorem k_get_no_float_leading_zeros : Gen.Literals.UtilFormatBuilder.k_get_no_float_leading_zeros = Spec.LiteralsExpected.UtilFormatBuilder.k_get_no_float_leading_zeros := by decide
theorem k_get_required_exponent_notation : Gen.Literals.UtilFormatBuilder.k_get_required_exponent_notation = Spec.LiteralsExpected.UtilFormatBuilder.k_get_required_exponent_notation := by decide
theorem k_get_case_sensitive_exponent : Gen.Literals.UtilFormatBuilder.k_get_case_sensitive_exponent = Spec.LiteralsExpected.UtilFormatBuilder.k_get_case_sensitive_exponent := by decide
theorem k_get_case_sensitive_base_prefix : Gen.Literals.UtilFormatBuilder.k_get_case_sensitive_base_prefix = Spec.LiteralsExpected.UtilFormatBuilder.k_get_case_sensitive_base_prefix := by decide
theorem k_get_case_sensitive_base_suffix : Gen.Literals.UtilFormatBuilder.k_get_case_sensitive_base_suffix = Spec.LiteralsExpected.UtilFormatBuilder.k_get_case_sensitive_base_suffix := by decide
theorem k_get_integer_internal_digit_separator : Gen.Literals.UtilFormatBuilder.k_get_integer_internal_digit_separator = Spec.LiteralsExpected.UtilFormatBuilder.k_get_integer_internal_digit_separator := by decide
theorem k_get_fraction_internal_digit_separator : Gen.Literals.UtilFormatBuilder.k_get_fraction_internal_digit_separator = Spec.LiteralsExpected.UtilFormatBuilder.k_get_fraction_internal_digit_separator := by decide
theorem k_get_exponent_internal_digit_separator : Gen.Literals.UtilFormatBuilder.k_get_exponent_internal_digit_separator = Spec.LiteralsExpected.UtilFormatBuilder.k_get_exponent_internal_digit_separator := by decide
theorem k_get_integer_leading_digit_separator : Gen.Literals.UtilFormatBuilder.k_get_integer_leading_digit_separator = Spec.LiteralsExpected.UtilFormatBuilder.k_get_integer_leading_digit_separator := by decide
theorem k_get_fraction_leading_digit_separator : Gen.Literals.UtilFormatBuilder.k_get_fraction_leading_digit_separator = Spec.LiteralsExpected.UtilFormatBuilder.k_get_fraction_leading_digit_separator := by decide
theorem k_get_exponent_leading_digit_separator : Gen.Literals.UtilFormatBuilder.k_get_exponent_leading_digit_separator = Spec.LiteralsExpected.UtilFormatBuilder.k_get_exponent_leading_digit_separator := by decide
theorem k_get_integer_trailing_digit_separator : Gen.Literals.UtilFormatBuilder.k_get_integer_trailing_digit_separator = Spec.LiteralsExpected.UtilFormatBuilder.k_get_integer_trailing_digit_separator := by decide
theorem k_get_fraction_trailing_digit_separator : Gen.Literals.UtilFormatBuilder.k_get_fraction_trailing_digit_separator = Spec.LiteralsExpected.UtilFormatBuilder.k_get_fraction_trailing_digit_separator := by decide
theorem k_get_exponent_trailing_digit_separator : Gen.Literals.UtilFormatBuilder.k_get_exponent_trailing_digit_separator = Spec.LiteralsExpected.UtilFormatBuilder.k_get_exponent_trailing_digit_separator := by decide
theorem k_get_integer_consecutive_digit_separator : Gen.Literals.UtilFormatBuilder.k_get_integer_consecutive_digit_separator = Spec.LiteralsExpected.UtilFormatBuilder.k_get_integer_consecutive_digit_separator := by decide
theorem k_get_fraction_consecutive_digit_separator : Gen.Literals.UtilFormatBuilder.k_get_fraction_consecutive_digit_separator = Spec.LiteralsExpected.UtilFormatBuilder.k_get_fraction_consecutive_digit_separator := by decide
theorem k_get_exponent_consecutive_digit_separator : Gen.Literals.UtilFormatBuilder.k_get_exponent_consecutive_digit_separator = Spec.LiteralsExpected.UtilFormatBuilder.k_get_exponent_consecutive_digit_separator := by decide
theorem k_get_special_digit_separator : Gen.Literals.UtilFormatBuilder.k_get_special_digit_separator = Spec.LiteralsExpected.UtilFormatBuilder.k_get_special_digit_separator := by decide
theorem k_digit_separator : Gen.Literals.UtilFormatBuilder.k_digit_separator = Spec.LiteralsExpected.UtilFormatBuilder.k_digit_separator := by decide
theorem k_radix : Gen.Literals.UtilFormatBuilder.k_radix = Spec.LiteralsExpected.UtilFormatBuilder.k_radix := by decide
theorem k_mantissa_radix : Gen.Literals.UtilFormatBuilder.k_mantissa_radix = Spec.LiteralsExpected.UtilFormatBuilder.k_mantissa_radix := by decide
theorem k_exponent_base : Gen.Literals.UtilFormatBuilder.k_exponent_base = Spec.LiteralsExpected.UtilFormatBuilder.k_exponent_base := by decide
theorem k_exponent_radix : Gen.Literals.UtilFormatBuilder.k_exponent_radix = Spec.LiteralsExpected.UtilFormatBuilder.k_exponent_radix := by decide
theorem k_base_prefix : Gen.Literals.UtilFormatBuilder.k_base_prefix = Spec.LiteralsExpected.UtilFormatBuilder.k_base_prefix := by decide
theorem k_base_suffix : Gen.Literals.UtilFormatBuilder.k_base_suffix = Spec.LiteralsExpected.UtilFormatBuilder.k_base_suffix := by decide
theorem k_required_integer_digits : Gen.Literals.UtilFormatBuilder.k_required_integer_digits = Spec.LiteralsExpected.UtilFormatBuilder.k_required_integer_digits := by decide
theorem k_required_fraction_digits : Gen.Literals.UtilFormatBuilder.k_required_fraction_digits = Spec.LiteralsExpected.UtilFormatBuilder.k_required_fraction_digits := by decide
theorem k_required_exponent_digits : Gen.Literals.UtilFormatBuilder.k_required_exponent_digits = Spec.LiteralsExpected.UtilFormatBuilder.k_required_exponent_digits := by decide
theorem k_required_mantissa_digits : Gen.Literals.UtilFormatBuilder.k_required_mantissa_digits = Spec.LiteralsExpected.UtilFormatBuilder.k_required_mantissa_digits := by decide
theorem k_required_digits : Gen.Literals.UtilFormatBuilder.k_required_digits = Spec.LiteralsExpected.UtilFormatBuilder.k_required_digits := by decide
theorem k_no_positive_mantissa_sign : Gen.Literals.UtilFormatBuilder.k_no_positive_mantissa_sign = Spec.LiteralsExpected.UtilFormatBuilder.k_no_positive_mantissa_sign := by decide
theorem k_required_mantissa_sign : Gen.Literals.UtilFormatBuilder.k_required_mantissa_sign = Spec.LiteralsExpected.UtilFormatBuilder.k_required_mantissa_sign := by decide
theorem k_no_exponent_notation : Gen.Literals.UtilFormatBuilder.k_no_exponent_notation = Spec.LiteralsExpected.UtilFormatBuilder.k_no_exponent_notation := by decide
theorem k_no_positive_exponent_sign : Gen.Literals.UtilFormatBuilder.k_no_positive_exponent_sign = Spec.LiteralsExpected.UtilFormatBuilder.k_no_positive_exponent_sign := by decide
theorem k_required_exponent_sign : Gen.Literals.UtilFormatBuilder.k_required_exponent_sign = Spec.LiteralsExpected.UtilFormatBuilder.k_required_exponent_sign := by decide
theorem k_no_exponent_without_fraction : Gen.Literals.UtilFormatBuilder.k_no_exponent_without_fraction = Spec.LiteralsExpected.UtilFormatBuilder.k_no_exponent_without_fraction := by decide
theorem k_no_special : Gen.Literals.UtilFormatBuilder.k_no_special = Spec.LiteralsExpected.UtilFormatBuilder.k_no_special := by decide
theorem k_case_sensitive_special : Gen.Literals.UtilFormatBuilder.k_case_sensitive_special = Spec.LiteralsExpected.UtilFormatBuilder.k_case_sensitive_special := by decide
theorem k_no_integer_leading_zeros : Gen.Literals.UtilFormatBuilder.k_no_integer_leading_zeros = Spec.LiteralsExpected.UtilFormatBuilder.k_no_integer_leading_zeros := by decide
theorem k_no_float_leading_zeros : Gen.Literals.UtilFormatBuilder.k_no_float_leading_zeros = Spec.LiteralsExpected.UtilFormatBuilder.k_no_float_leading_zeros := by decide
theorem k_required_exponent_notation : Gen.Literals.UtilFormatBuilder.k_required_exponent_notation = Spec.LiteralsExpected.UtilFormatBuilder.k_required_exponent_notation := by decide
theorem k_case_sensitive_exponent : Gen.Literals.UtilFormatBuilder.k_case_sensitive_exponent = Spec.LiteralsExpected.UtilFormatBuilder.k_case_sensitive_exponent := by decide
theorem k_case_sensitive_base_prefix : Gen.Literals.UtilFormatBuilder.k_case_sensitive_base_prefix = Spec.LiteralsExpected.UtilFormatBuilder.k_case_sensitive_base_prefix := by decide
theorem k_case_sensitive_base_suffix : Gen.Literals.UtilFormatBuilder.k_case_sensitive_base_suffix = Spec.LiteralsExpected.UtilFormatBuilder.k_case_sensitive_base_suffix := by decide
theorem k_integer_internal_digit_separator : Gen.Literals.UtilFormatBuilder.k_integer_internal_digit_separator = Spec.LiteralsExpected.UtilFormatBuilder.k_integer_internal_digit_separator := by decide
theorem k_fraction_internal_digit_separator : Gen.Literals.UtilFormatBuilder.k_fraction_internal_digit_separator = Spec.LiteralsExpected.UtilFormatBuilder.k_fraction_internal_digit_separator := by decide
theorem k_exponent_internal_digit_separator : Gen.Literals.UtilFormatBuilder.k_exponent_internal_digit_separator = Spec.LiteralsExpected.UtilFormatBuilder.k_exponent_internal_digit_separator := by decide
theorem k_internal_digit_separator : Gen.Literals.UtilFormatBuilder.k_internal_digit_separator = Spec.LiteralsExpected.UtilFormatBuilder.k_internal_digit_separator := by decide
theorem k_integer_leading_digit_separator : Gen.Literals.UtilFormatBuilder.k_integer_leading_digit_separator = Spec.LiteralsExpected.UtilFormatBuilder.k_integer_leading_digit_separator := by decide
theorem k_fraction_leading_digit_separator : Gen.Literals.UtilFormatBuilder.k_fraction_leading_digit_separator = Spec.LiteralsExpected.UtilFormatBuilder.k_fraction_leading_digit_separator := by decide
theorem k_exponent_leading_digit_separator : Gen.Literals.UtilFormatBuilder.k_exponent_leading_digit_separator = Spec.LiteralsExpected.UtilFormatBuilder.k_exponent_leading_digit_separator := by decide
theorem k_leading_digit_separator : Gen.Literals.UtilFormatBuilder.k_leading_digit_separator = Spec.LiteralsExpected.UtilFormatBuilder.k_leading_digit_separator := by decide
theorem k_integer_trailing_digit_separator : Gen.Literals.UtilFormatBuilder.k_integer_trailing_digit_separator = Spec.LiteralsExpected.UtilFormatBuilder.k_integer_trailing_digit_separator := by decide
theorem k_fraction_trailing_digit_separator : Gen.Literals.UtilFormatBuilder.k_fraction_trailing_digit_separator = Spec.LiteralsExpected.UtilFormatBuilder.k_fraction_trailing_digit_separator := by decide
theorem k_exponent_trailing_digit_separator : Gen.Literals.UtilFormatBuilder.k_exponent_trailing_digit_separator = Spec.LiteralsExpected.UtilFormatBuilder.k_exponent_trailing_digit_separator := by decide
theorem k_trailing_digit_separator : Gen.Literals.UtilFormatBuilder.k_trailing_digit_separator = Spec.LiteralsExpected.UtilFormatBuilder.k_trailing_digit_separator := by decide
theorem k_integer_consecutive_digit_separator : Gen.Literals.UtilFormatBuilder.k_integer_consecutive_digit_separator = Spec.LiteralsExpected.UtilFormatBuilder.k_integer_consecutive_digit_separator := by decide
theorem k_fraction_consecutive_digit_separator : Gen.Literals.UtilFormatBuilder.k_fraction_consecutive_digit_separator = Spec.LiteralsExpected.UtilFormatBuilder.k_fraction_consecutive_digit_separator := by decide
theorem k_exponent_consecutive_digit_separator : Gen.Literals.UtilFormatBuilder.k_exponent_consecutive_digit_separator = Spec.LiteralsExpected.UtilFormatBuilder.k_exponent_consecutive_digit_separator := by decide
theorem k_consecutive_digit_separator : Gen.Literals.UtilFormatBuilder.k_consecutive_digit_separator = Spec.LiteralsExpected.UtilFormatBuilder.k_consecutive_digit_separator := by decide
theorem k_special_digit_separator : Gen.Literals.UtilFormatBuilder.k_special_digit_separator = Spec.LiteralsExpected.UtilFormatBuilder.k_special_digit_separator := by decide
theorem k_digit_separator_flags : Gen.Literals.UtilFormatBuilder.k_digit_separator_flags = Spec.LiteralsExpected.UtilFormatBuilder.k_digit_separator_flags := by decide
theorem k_integer_digit_separator_flags : Gen.Literals.UtilFormatBuilder.k_integer_digit_separator_flags = Spec.LiteralsExpected.UtilFormatBuilder.k_integer_digit_separator_flags := by decide
theorem k_fraction_digit_separator_flags : Gen.Literals.UtilFormatBuilder.k_fraction_digit_separator_flags = Spec.LiteralsExpected.UtilFormatBuilder.k_fraction_digit_separator_flags := by decide
theorem k_exponent_digit_separator_flags : Gen.Literals.UtilFormatBuilder.k_exponent_digit_separator_flags = Spec.LiteralsExpected.UtilFormatBuilder.k_exponent_digit_separator_flags := by decide
theorem k_build_unchecked : Gen.Literals.UtilFormatBuilder.k_build_unchecked = Spec.LiteralsExpected.UtilFormatBuilder.k_build_unchecked := by decide
theorem k_build_strict : Gen.Literals.UtilFormatBuilder.k_build_strict = Spec.LiteralsExpected.UtilFormatBuilder.k_build_strict := by decide
theorem k_build : Gen.Literals.UtilFormatBuilder.k_build = Spec.LiteralsExpected.UtilFormatBuilder.k_build := by decide
theorem k_rebuild : Gen.Literals.UtilFormatBuilder.k_rebuild = Spec.LiteralsExpected.UtilFormatBuilder.k_rebuild := by decide
theorem k_default : Gen.Literals.UtilFormatBuilder.k_default = Spec.LiteralsExpected.UtilFormatBuilder.k_default := by decide

end LexVerif.Props.Literals.UtilFormatBuilder
