import LexVerif.Gen.Literals
import LexVerif.Spec.LiteralsExpected
/-!
# Literals.UtilNotFeatureFormat — lexical-util/src/not_feature_format.rs still has the literals and token shape the models were transcribed from

`Gen.Literals.UtilNotFeatureFormat` is re-extracted from /repo's source text on every run; `Spec.LiteralsExpected.UtilNotFeatureFormat` is the
committed snapshot. One theorem per fn / macro item, so a failing obligation names the item whose source moved;
`items_same` catches added or removed items. (Written by `extractors.literals.snapshot()`.)
-/
namespace LexVerif.Props.Literals.UtilNotFeatureFormat
open LexVerif

theorem items_same : Gen.Literals.UtilNotFeatureFormat.items = Spec.LiteralsExpected.UtilNotFeatureFormat.items := by decide
theorem k_new : Gen.Literals.UtilNotFeatureFormat.k_new = Spec.LiteralsExpected.UtilNotFeatureFormat.k_new := by decide
theorem k_is_valid : Gen.Literals.UtilNotFeatureFormat.k_is_valid = Spec.LiteralsExpected.UtilNotFeatureFormat.k_is_valid := by decide
theorem k_error : Gen.Literals.UtilNotFeatureFormat.k_error = Spec.LiteralsExpected.UtilNotFeatureFormat.k_error := by decide
theorem k_is_valid_radix : Gen.Literals.UtilNotFeatureFormat.k_is_valid_radix = Spec.LiteralsExpected.UtilNotFeatureFormat.k_is_valid_radix := by decide
theorem k_error_radix : Gen.Literals.UtilNotFeatureFormat.k_error_radix = Spec.LiteralsExpected.UtilNotFeatureFormat.k_error_radix := by decide
theorem k_required_integer_digits : Gen.Literals.UtilNotFeatureFormat.k_required_integer_digits = Spec.LiteralsExpected.UtilNotFeatureFormat.k_required_integer_digits := by decide
theorem k_required_fraction_digits : Gen.Literals.UtilNotFeatureFormat.k_required_fraction_digits = Spec.LiteralsExpected.UtilNotFeatureFormat.k_required_fraction_digits := by decide
theorem k_required_exponent_digits : Gen.Literals.UtilNotFeatureFormat.k_required_exponent_digits = Spec.LiteralsExpected.UtilNotFeatureFormat.k_required_exponent_digits := by decide
theorem k_required_mantissa_digits : Gen.Literals.UtilNotFeatureFormat.k_required_mantissa_digits = Spec.LiteralsExpected.UtilNotFeatureFormat.k_required_mantissa_digits := by decide
theorem k_required_digits : Gen.Literals.UtilNotFeatureFormat.k_required_digits = Spec.LiteralsExpected.UtilNotFeatureFormat.k_required_digits := by decide
theorem k_no_positive_mantissa_sign : Gen.Literals.UtilNotFeatureFormat.k_no_positive_mantissa_sign = Spec.LiteralsExpected.UtilNotFeatureFormat.k_no_positive_mantissa_sign := by decide
theorem k_required_mantissa_sign : Gen.Literals.UtilNotFeatureFormat.k_required_mantissa_sign = Spec.LiteralsExpected.UtilNotFeatureFormat.k_required_mantissa_sign := by decide
theorem k_no_exponent_notation : Gen.Literals.UtilNotFeatureFormat.k_no_exponent_notation = Spec.LiteralsExpected.UtilNotFeatureFormat.k_no_exponent_notation := by decide
theorem k_no_positive_exponent_sign : Gen.Literals.UtilNotFeatureFormat.k_no_positive_exponent_sign = Spec.LiteralsExpected.UtilNotFeatureFormat.k_no_positive_exponent_sign := by decide
theorem k_required_exponent_sign : Gen.Literals.UtilNotFeatureFormat.k_required_exponent_sign = Spec.LiteralsExpected.UtilNotFeatureFormat.k_required_exponent_sign := by decide
theorem k_no_exponent_without_fraction : Gen.Literals.UtilNotFeatureFormat.k_no_exponent_without_fraction = Spec.LiteralsExpected.UtilNotFeatureFormat.k_no_exponent_without_fraction := by decide
theorem k_no_special : Gen.Literals.UtilNotFeatureFormat.k_no_special = Spec.LiteralsExpected.UtilNotFeatureFormat.k_no_special := by decide
theorem k_case_sensitive_special : Gen.Literals.UtilNotFeatureFormat.k_case_sensitive_special = Spec.LiteralsExpected.UtilNotFeatureFormat.k_case_sensitive_special := by decide
theorem k_no_integer_leading_zeros : Gen.Literals.UtilNotFeatureFormat.k_no_integer_leading_zeros = Spec.LiteralsExpected.UtilNotFeatureFormat.k_no_integer_leading_zeros := by decide
theorem k_no_float_leading_zeros : Gen.Literals.UtilNotFeatureFormat.k_no_float_leading_zeros = Spec.LiteralsExpected.UtilNotFeatureFormat.k_no_float_leading_zeros := by decide
theorem k_required_exponent_notation : Gen.Literals.UtilNotFeatureFormat.k_required_exponent_notation = Spec.LiteralsExpected.UtilNotFeatureFormat.k_required_exponent_notation := by decide
theorem k_case_sensitive_exponent : Gen.Literals.UtilNotFeatureFormat.k_case_sensitive_exponent = Spec.LiteralsExpected.UtilNotFeatureFormat.k_case_sensitive_exponent := by decide
theorem k_case_sensitive_base_prefix : Gen.Literals.UtilNotFeatureFormat.k_case_sensitive_base_prefix = Spec.LiteralsExpected.UtilNotFeatureFormat.k_case_sensitive_base_prefix := by decide
theorem k_case_sensitive_base_suffix : Gen.Literals.UtilNotFeatureFormat.k_case_sensitive_base_suffix = Spec.LiteralsExpected.UtilNotFeatureFormat.k_case_sensitive_base_suffix := by decide
theorem k_integer_internal_digit_separator : Gen.Literals.UtilNotFeatureFormat.k_integer_internal_digit_separator = Spec.LiteralsExpected.UtilNotFeatureFormat.k_integer_internal_digit_separator := by decide
theorem k_fraction_internal_digit_separator : Gen.Literals.UtilNotFeatureFormat.k_fraction_internal_digit_separator = Spec.LiteralsExpected.UtilNotFeatureFormat.k_fraction_internal_digit_separator := by decide
theorem k_exponent_internal_digit_separator : Gen.Literals.UtilNotFeatureFormat.k_exponent_internal_digit_separator = Spec.LiteralsExpected.UtilNotFeatureFormat.k_exponent_internal_digit_separator := by decide
theorem k_internal_digit_separator : Gen.Literals.UtilNotFeatureFormat.k_internal_digit_separator = Spec.LiteralsExpected.UtilNotFeatureFormat.k_internal_digit_separator := by decide
theorem k_integer_leading_digit_separator : Gen.Literals.UtilNotFeatureFormat.k_integer_leading_digit_separator = Spec.LiteralsExpected.UtilNotFeatureFormat.k_integer_leading_digit_separator := by decide
theorem k_fraction_leading_digit_separator : Gen.Literals.UtilNotFeatureFormat.k_fraction_leading_digit_separator = Spec.LiteralsExpected.UtilNotFeatureFormat.k_fraction_leading_digit_separator := by decide
theorem k_exponent_leading_digit_separator : Gen.Literals.UtilNotFeatureFormat.k_exponent_leading_digit_separator = Spec.LiteralsExpected.UtilNotFeatureFormat.k_exponent_leading_digit_separator := by decide
theorem k_leading_digit_separator : Gen.Literals.UtilNotFeatureFormat.k_leading_digit_separator = Spec.LiteralsExpected.UtilNotFeatureFormat.k_leading_digit_separator := by decide
theorem k_integer_trailing_digit_separator : Gen.Literals.UtilNotFeatureFormat.k_integer_trailing_digit_separator = Spec.LiteralsExpected.UtilNotFeatureFormat.k_integer_trailing_digit_separator := by decide
theorem k_fraction_trailing_digit_separator : Gen.Literals.UtilNotFeatureFormat.k_fraction_trailing_digit_separator = Spec.LiteralsExpected.UtilNotFeatureFormat.k_fraction_trailing_digit_separator := by decide
theorem k_exponent_trailing_digit_separator : Gen.Literals.UtilNotFeatureFormat.k_exponent_trailing_digit_separator = Spec.LiteralsExpected.UtilNotFeatureFormat.k_exponent_trailing_digit_separator := by decide
theorem k_trailing_digit_separator : Gen.Literals.UtilNotFeatureFormat.k_trailing_digit_separator = Spec.LiteralsExpected.UtilNotFeatureFormat.k_trailing_digit_separator := by decide
theorem k_integer_consecutive_digit_separator : Gen.Literals.UtilNotFeatureFormat.k_integer_consecutive_digit_separator = Spec.LiteralsExpected.UtilNotFeatureFormat.k_integer_consecutive_digit_separator := by decide
theorem k_fraction_consecutive_digit_separator : Gen.Literals.UtilNotFeatureFormat.k_fraction_consecutive_digit_separator = Spec.LiteralsExpected.UtilNotFeatureFormat.k_fraction_consecutive_digit_separator := by decide
theorem k_exponent_consecutive_digit_separator : Gen.Literals.UtilNotFeatureFormat.k_exponent_consecutive_digit_separator = Spec.LiteralsExpected.UtilNotFeatureFormat.k_exponent_consecutive_digit_separator := by decide
theorem k_consecutive_digit_separator : Gen.Literals.UtilNotFeatureFormat.k_consecutive_digit_separator = Spec.LiteralsExpected.UtilNotFeatureFormat.k_consecutive_digit_separator := by decide
theorem k_special_digit_separator : Gen.Literals.UtilNotFeatureFormat.k_special_digit_separator = Spec.LiteralsExpected.UtilNotFeatureFormat.k_special_digit_separator := by decide
theorem k_digit_separator : Gen.Literals.UtilNotFeatureFormat.k_digit_separator = Spec.LiteralsExpected.UtilNotFeatureFormat.k_digit_separator := by decide
theorem k_has_digit_separator : Gen.Literals.UtilNotFeatureFormat.k_has_digit_separator = Spec.LiteralsExpected.UtilNotFeatureFormat.k_has_digit_separator := by decide
theorem k_base_prefix : Gen.Literals.UtilNotFeatureFormat.k_base_prefix = Spec.LiteralsExpected.UtilNotFeatureFormat.k_base_prefix := by decide
theorem k_has_base_prefix : Gen.Literals.UtilNotFeatureFormat.k_has_base_prefix = Spec.LiteralsExpected.UtilNotFeatureFormat.k_has_base_prefix := by decide
theorem k_base_suffix : Gen.Literals.UtilNotFeatureFormat.k_base_suffix = Spec.LiteralsExpected.UtilNotFeatureFormat.k_base_suffix := by decide
theorem k_has_base_suffix : Gen.Literals.UtilNotFeatureFormat.k_has_base_suffix = Spec.LiteralsExpected.UtilNotFeatureFormat.k_has_base_suffix := by decide
theorem k_mantissa_radix : Gen.Literals.UtilNotFeatureFormat.k_mantissa_radix = Spec.LiteralsExpected.UtilNotFeatureFormat.k_mantissa_radix := by decide
theorem k_radix : Gen.Literals.UtilNotFeatureFormat.k_radix = Spec.LiteralsExpected.UtilNotFeatureFormat.k_radix := by decide
theorem k_radix2 : Gen.Literals.UtilNotFeatureFormat.k_radix2 = Spec.LiteralsExpected.UtilNotFeatureFormat.k_radix2 := by decide
theorem k_radix4 : Gen.Literals.UtilNotFeatureFormat.k_radix4 = Spec.LiteralsExpected.UtilNotFeatureFormat.k_radix4 := by decide
theorem k_radix8 : Gen.Literals.UtilNotFeatureFormat.k_radix8 = Spec.LiteralsExpected.UtilNotFeatureFormat.k_radix8 := by decide
theorem k_exponent_base : Gen.Literals.UtilNotFeatureFormat.k_exponent_base = Spec.LiteralsExpected.UtilNotFeatureFormat.k_exponent_base := by decide
theorem k_exponent_radix : Gen.Literals.UtilNotFeatureFormat.k_exponent_radix = Spec.LiteralsExpected.UtilNotFeatureFormat.k_exponent_radix := by decide
theorem k_flags : Gen.Literals.UtilNotFeatureFormat.k_flags = Spec.LiteralsExpected.UtilNotFeatureFormat.k_flags := by decide
theorem k_interface_flags : Gen.Literals.UtilNotFeatureFormat.k_interface_flags = Spec.LiteralsExpected.UtilNotFeatureFormat.k_interface_flags := by decide
theorem k_digit_separator_flags : Gen.Literals.UtilNotFeatureFormat.k_digit_separator_flags = Spec.LiteralsExpected.UtilNotFeatureFormat.k_digit_separator_flags := by decide
theorem k_exponent_flags : Gen.Literals.UtilNotFeatureFormat.k_exponent_flags = Spec.LiteralsExpected.UtilNotFeatureFormat.k_exponent_flags := by decide
theorem k_integer_digit_separator_flags : Gen.Literals.UtilNotFeatureFormat.k_integer_digit_separator_flags = Spec.LiteralsExpected.UtilNotFeatureFormat.k_integer_digit_separator_flags := by decide
theorem k_fraction_digit_separator_flags : Gen.Literals.UtilNotFeatureFormat.k_fraction_digit_separator_flags = Spec.LiteralsExpected.UtilNotFeatureFormat.k_fraction_digit_separator_flags := by decide
theorem k_exponent_digit_separator_flags : Gen.Literals.UtilNotFeatureFormat.k_exponent_digit_separator_flags = Spec.LiteralsExpected.UtilNotFeatureFormat.k_exponent_digit_separator_flags := by decide
theorem k_builder : Gen.Literals.UtilNotFeatureFormat.k_builder = Spec.LiteralsExpected.UtilNotFeatureFormat.k_builder := by decide
theorem k_rebuild : Gen.Literals.UtilNotFeatureFormat.k_rebuild = Spec.LiteralsExpected.UtilNotFeatureFormat.k_rebuild := by decide
theorem k_default : Gen.Literals.UtilNotFeatureFormat.k_default = Spec.LiteralsExpected.UtilNotFeatureFormat.k_default := by decide
theorem k_radix_error_impl : Gen.Literals.UtilNotFeatureFormat.k_radix_error_impl = Spec.LiteralsExpected.UtilNotFeatureFormat.k_radix_error_impl := by decide
theorem k_format_error_impl : Gen.Literals.UtilNotFeatureFormat.k_format_error_impl = Spec.LiteralsExpected.UtilNotFeatureFormat.k_format_error_impl := by decide

end LexVerif.Props.Literals.UtilNotFeatureFormat
