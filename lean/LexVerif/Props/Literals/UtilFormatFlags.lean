import LexVerif.Gen.Literals
import LexVerif.Spec.LiteralsExpected
/-!
# Literals.UtilFormatFlags — lexical-util/src/format_flags.rs still has the literals and token shape the models were transcribed from

`Gen.Literals.UtilFormatFlags` is re-extracted from /repo's source text on every run; `Spec.LiteralsExpected.UtilFormatFlags` is the
committed snapshot. One theorem per fn / macro item, so a failing obligation names the item whose source moved;
`items_same` catches added or removed items. (Written by `extractors.literals.snapshot()`.)
-/
namespace LexVerif.Props.Literals.UtilFormatFlags
open LexVerif

theorem items_same : Gen.Literals.UtilFormatFlags.items = Spec.LiteralsExpected.UtilFormatFlags.items := by decide
theorem k_check_subsequent_flags_macro : Gen.Literals.UtilFormatFlags.k_check_subsequent_flags_macro = Spec.LiteralsExpected.UtilFormatFlags.k_check_subsequent_flags_macro := by decide
theorem k_check_subsequent_masks_macro : Gen.Literals.UtilFormatFlags.k_check_subsequent_masks_macro = Spec.LiteralsExpected.UtilFormatFlags.k_check_subsequent_masks_macro := by decide
theorem k_check_mask_shifts_macro : Gen.Literals.UtilFormatFlags.k_check_mask_shifts_macro = Spec.LiteralsExpected.UtilFormatFlags.k_check_mask_shifts_macro := by decide
theorem k_check_masks_and_flags_macro : Gen.Literals.UtilFormatFlags.k_check_masks_and_flags_macro = Spec.LiteralsExpected.UtilFormatFlags.k_check_masks_and_flags_macro := by decide
theorem k_digit_separator : Gen.Literals.UtilFormatFlags.k_digit_separator = Spec.LiteralsExpected.UtilFormatFlags.k_digit_separator := by decide
theorem k_base_prefix : Gen.Literals.UtilFormatFlags.k_base_prefix = Spec.LiteralsExpected.UtilFormatFlags.k_base_prefix := by decide
theorem k_base_suffix : Gen.Literals.UtilFormatFlags.k_base_suffix = Spec.LiteralsExpected.UtilFormatFlags.k_base_suffix := by decide
theorem k_mantissa_radix : Gen.Literals.UtilFormatFlags.k_mantissa_radix = Spec.LiteralsExpected.UtilFormatFlags.k_mantissa_radix := by decide
theorem k_exponent_base : Gen.Literals.UtilFormatFlags.k_exponent_base = Spec.LiteralsExpected.UtilFormatFlags.k_exponent_base := by decide
theorem k_exponent_radix : Gen.Literals.UtilFormatFlags.k_exponent_radix = Spec.LiteralsExpected.UtilFormatFlags.k_exponent_radix := by decide
theorem k_radix_from_flags : Gen.Literals.UtilFormatFlags.k_radix_from_flags = Spec.LiteralsExpected.UtilFormatFlags.k_radix_from_flags := by decide
theorem k_is_valid_exponent_flags : Gen.Literals.UtilFormatFlags.k_is_valid_exponent_flags = Spec.LiteralsExpected.UtilFormatFlags.k_is_valid_exponent_flags := by decide
theorem k_is_valid_optional_control_radix : Gen.Literals.UtilFormatFlags.k_is_valid_optional_control_radix = Spec.LiteralsExpected.UtilFormatFlags.k_is_valid_optional_control_radix := by decide
theorem k_is_valid_optional_control : Gen.Literals.UtilFormatFlags.k_is_valid_optional_control = Spec.LiteralsExpected.UtilFormatFlags.k_is_valid_optional_control := by decide
theorem k_is_valid_control : Gen.Literals.UtilFormatFlags.k_is_valid_control = Spec.LiteralsExpected.UtilFormatFlags.k_is_valid_control := by decide
theorem k_is_valid_digit_separator : Gen.Literals.UtilFormatFlags.k_is_valid_digit_separator = Spec.LiteralsExpected.UtilFormatFlags.k_is_valid_digit_separator := by decide
theorem k_is_valid_base_prefix : Gen.Literals.UtilFormatFlags.k_is_valid_base_prefix = Spec.LiteralsExpected.UtilFormatFlags.k_is_valid_base_prefix := by decide
theorem k_is_valid_base_suffix : Gen.Literals.UtilFormatFlags.k_is_valid_base_suffix = Spec.LiteralsExpected.UtilFormatFlags.k_is_valid_base_suffix := by decide
theorem k_is_valid_punctuation : Gen.Literals.UtilFormatFlags.k_is_valid_punctuation = Spec.LiteralsExpected.UtilFormatFlags.k_is_valid_punctuation := by decide
theorem k_is_valid_options_punctuation : Gen.Literals.UtilFormatFlags.k_is_valid_options_punctuation = Spec.LiteralsExpected.UtilFormatFlags.k_is_valid_options_punctuation := by decide
theorem k_is_valid_radix : Gen.Literals.UtilFormatFlags.k_is_valid_radix = Spec.LiteralsExpected.UtilFormatFlags.k_is_valid_radix := by decide

end LexVerif.Props.Literals.UtilFormatFlags
