import LexVerif.Gen.Literals
import LexVerif.Spec.LiteralsExpected
/-!
# Literals.WriteInteger — whitelisted arithmetic kernels of /repo still carry the literals (and token shape) the models
were transcribed from

`Gen.Literals` is re-extracted from /repo's source text on every run (extractors/literals.py: a tokenizer, the
integer literals of each whitelisted function/macro in source order, and a hash of its token sequence with the
literals abstracted). `Spec.LiteralsExpected` is the committed snapshot. One theorem per kernel, so that a failing
obligation names the function whose source moved. (Written by `snapshot()` together with the snapshot.)
-/
namespace LexVerif.Props.Literals.WriteInteger
open LexVerif

theorem write_integer_digit_count_fast_log2 : Gen.Literals.write_integer_digit_count_fast_log2 = Spec.LiteralsExpected.write_integer_digit_count_fast_log2 := by decide
theorem write_integer_decimal_fast_log10 : Gen.Literals.write_integer_decimal_fast_log10 = Spec.LiteralsExpected.write_integer_decimal_fast_log10 := by decide
theorem write_integer_decimal_fallback_digit_count : Gen.Literals.write_integer_decimal_fallback_digit_count = Spec.LiteralsExpected.write_integer_decimal_fallback_digit_count := by decide
theorem write_integer_jeaiii_write_digits : Gen.Literals.write_integer_jeaiii_write_digits = Spec.LiteralsExpected.write_integer_jeaiii_write_digits := by decide
theorem write_integer_jeaiii_from_u8 : Gen.Literals.write_integer_jeaiii_from_u8 = Spec.LiteralsExpected.write_integer_jeaiii_from_u8 := by decide
theorem write_integer_jeaiii_from_u16 : Gen.Literals.write_integer_jeaiii_from_u16 = Spec.LiteralsExpected.write_integer_jeaiii_from_u16 := by decide
theorem write_integer_jeaiii_from_u32 : Gen.Literals.write_integer_jeaiii_from_u32 = Spec.LiteralsExpected.write_integer_jeaiii_from_u32 := by decide
theorem write_integer_jeaiii_from_u64 : Gen.Literals.write_integer_jeaiii_from_u64 = Spec.LiteralsExpected.write_integer_jeaiii_from_u64 := by decide
theorem write_integer_jeaiii_from_u128 : Gen.Literals.write_integer_jeaiii_from_u128 = Spec.LiteralsExpected.write_integer_jeaiii_from_u128 := by decide
theorem write_integer_algorithm_write_digits : Gen.Literals.write_integer_algorithm_write_digits = Spec.LiteralsExpected.write_integer_algorithm_write_digits := by decide
theorem write_integer_compact_compact : Gen.Literals.write_integer_compact_compact = Spec.LiteralsExpected.write_integer_compact_compact := by decide

end LexVerif.Props.Literals.WriteInteger
