import LexVerif.Gen.Literals
import LexVerif.Spec.LiteralsExpected
/-!
# Literals.ParseFloatMask — lexical-parse-float/src/mask.rs still has the literals and token shape the models were transcribed from

`Gen.Literals.ParseFloatMask` is re-extracted from /repo's source text on every run; `Spec.LiteralsExpected.ParseFloatMask` is the
committed snapshot. One theorem per fn / macro item, so a failing obligation names the item whose source moved;
`items_same` catches added or removed items. (Written by `extractors.literals.snapshot()`.)
-/
namespace LexVerif.Props.Literals.ParseFloatMask
open LexVerif

theorem items_same : Gen.Literals.ParseFloatMask.items = Spec.LiteralsExpected.ParseFloatMask.items := by decide
theorem k_lower_n_mask : Gen.Literals.ParseFloatMask.k_lower_n_mask = Spec.LiteralsExpected.ParseFloatMask.k_lower_n_mask := by decide
theorem k_lower_n_halfway : Gen.Literals.ParseFloatMask.k_lower_n_halfway = Spec.LiteralsExpected.ParseFloatMask.k_lower_n_halfway := by decide
theorem k_nth_bit : Gen.Literals.ParseFloatMask.k_nth_bit = Spec.LiteralsExpected.ParseFloatMask.k_nth_bit := by decide

end LexVerif.Props.Literals.ParseFloatMask
