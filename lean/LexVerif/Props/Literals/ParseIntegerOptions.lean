import LexVerif.Gen.Literals
import LexVerif.Spec.LiteralsExpected
/-!
# Literals.ParseIntegerOptions — lexical-parse-integer/src/options.rs still has the literals and token shape the models were transcribed from

`Gen.Literals.ParseIntegerOptions` is re-extracted from /repo's source text on every run; `Spec.LiteralsExpected.ParseIntegerOptions` is the
committed snapshot. One theorem per fn / macro item, so a failing obligation names the item whose source moved;
`items_same` catches added or removed items. (Written by `extractors.literals.snapshot()`.)
-/
namespace LexVerif.Props.Literals.ParseIntegerOptions
open LexVerif

theorem items_same : Gen.Literals.ParseIntegerOptions.items = Spec.LiteralsExpected.ParseIntegerOptions.items := by decide
theorem k_new : Gen.Literals.ParseIntegerOptions.k_new = Spec.LiteralsExpected.ParseIntegerOptions.k_new := by decide
theorem k_get_no_multi_digit : Gen.Literals.ParseIntegerOptions.k_get_no_multi_digit = Spec.LiteralsExpected.ParseIntegerOptions.k_get_no_multi_digit := by decide
theorem k_no_multi_digit : Gen.Literals.ParseIntegerOptions.k_no_multi_digit = Spec.LiteralsExpected.ParseIntegerOptions.k_no_multi_digit := by decide
theorem k_is_valid : Gen.Literals.ParseIntegerOptions.k_is_valid = Spec.LiteralsExpected.ParseIntegerOptions.k_is_valid := by decide
theorem k_build_unchecked : Gen.Literals.ParseIntegerOptions.k_build_unchecked = Spec.LiteralsExpected.ParseIntegerOptions.k_build_unchecked := by decide
theorem k_build_strict : Gen.Literals.ParseIntegerOptions.k_build_strict = Spec.LiteralsExpected.ParseIntegerOptions.k_build_strict := by decide
theorem k_build : Gen.Literals.ParseIntegerOptions.k_build = Spec.LiteralsExpected.ParseIntegerOptions.k_build := by decide
theorem k_default : Gen.Literals.ParseIntegerOptions.k_default = Spec.LiteralsExpected.ParseIntegerOptions.k_default := by decide
theorem k_from_radix : Gen.Literals.ParseIntegerOptions.k_from_radix = Spec.LiteralsExpected.ParseIntegerOptions.k_from_radix := by decide
theorem k_set_no_multi_digit : Gen.Literals.ParseIntegerOptions.k_set_no_multi_digit = Spec.LiteralsExpected.ParseIntegerOptions.k_set_no_multi_digit := by decide
theorem k_builder : Gen.Literals.ParseIntegerOptions.k_builder = Spec.LiteralsExpected.ParseIntegerOptions.k_builder := by decide
theorem k_rebuild : Gen.Literals.ParseIntegerOptions.k_rebuild = Spec.LiteralsExpected.ParseIntegerOptions.k_rebuild := by decide

end LexVerif.Props.Literals.ParseIntegerOptions
