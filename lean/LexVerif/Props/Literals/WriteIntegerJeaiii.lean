import LexVerif.Gen.Literals
import LexVerif.Spec.LiteralsExpected
/-!
# Literals.WriteIntegerJeaiii — lexical-write-integer/src/jeaiii.rs still has the literals and token shape the models were transcribed from

`Gen.Literals.WriteIntegerJeaiii` is re-extracted from /repo's source text on every run; `Spec.LiteralsExpected.WriteIntegerJeaiii` is the
committed snapshot. One theorem per fn / macro item, so a failing obligation names the item whose source moved;
`items_same` catches added or removed items. (Written by `extractors.literals.snapshot()`.)
-/
namespace LexVerif.Props.Literals.WriteIntegerJeaiii
open LexVerif

theorem items_same : Gen.Literals.WriteIntegerJeaiii.items = Spec.LiteralsExpected.WriteIntegerJeaiii.items := by decide
theorem k_next2 : Gen.Literals.WriteIntegerJeaiii.k_next2 = Spec.LiteralsExpected.WriteIntegerJeaiii.k_next2 := by decide
theorem k_u128_divrem_10_10pow10 : Gen.Literals.WriteIntegerJeaiii.k_u128_divrem_10_10pow10 = Spec.LiteralsExpected.WriteIntegerJeaiii.k_u128_divrem_10_10pow10 := by decide
theorem k_div128_rem_1e10 : Gen.Literals.WriteIntegerJeaiii.k_div128_rem_1e10 = Spec.LiteralsExpected.WriteIntegerJeaiii.k_div128_rem_1e10 := by decide
theorem k_i_macro : Gen.Literals.WriteIntegerJeaiii.k_i_macro = Spec.LiteralsExpected.WriteIntegerJeaiii.k_i_macro := by decide
theorem k_write_n_macro : Gen.Literals.WriteIntegerJeaiii.k_write_n_macro = Spec.LiteralsExpected.WriteIntegerJeaiii.k_write_n_macro := by decide
theorem k_print_n_macro : Gen.Literals.WriteIntegerJeaiii.k_print_n_macro = Spec.LiteralsExpected.WriteIntegerJeaiii.k_print_n_macro := by decide
theorem k_write_digits_macro : Gen.Literals.WriteIntegerJeaiii.k_write_digits_macro = Spec.LiteralsExpected.WriteIntegerJeaiii.k_write_digits_macro := by decide
theorem k_from_u8 : Gen.Literals.WriteIntegerJeaiii.k_from_u8 = Spec.LiteralsExpected.WriteIntegerJeaiii.k_from_u8 := by decide
theorem k_from_u16 : Gen.Literals.WriteIntegerJeaiii.k_from_u16 = Spec.LiteralsExpected.WriteIntegerJeaiii.k_from_u16 := by decide
theorem k_from_u32 : Gen.Literals.WriteIntegerJeaiii.k_from_u32 = Spec.LiteralsExpected.WriteIntegerJeaiii.k_from_u32 := by decide
theorem k_from_u64_impl : Gen.Literals.WriteIntegerJeaiii.k_from_u64_impl = Spec.LiteralsExpected.WriteIntegerJeaiii.k_from_u64_impl := by decide
theorem k_from_u64 : Gen.Literals.WriteIntegerJeaiii.k_from_u64 = Spec.LiteralsExpected.WriteIntegerJeaiii.k_from_u64 := by decide
theorem k_from_i64 : Gen.Literals.WriteIntegerJeaiii.k_from_i64 = Spec.LiteralsExpected.WriteIntegerJeaiii.k_from_i64 := by decide
theorem k_from_u128 : Gen.Literals.WriteIntegerJeaiii.k_from_u128 = Spec.LiteralsExpected.WriteIntegerJeaiii.k_from_u128 := by decide

end LexVerif.Props.Literals.WriteIntegerJeaiii
