import LexVerif.Gen.Literals
import LexVerif.Spec.LiteralsExpected
/-!
# Literals.WriteFloatCompact — lexical-write-float/src/compact.rs still has the literals and token shape the models were transcribed from

`Gen.Literals.WriteFloatCompact` is re-extracted from /repo's source text on every run; `Spec.LiteralsExpected.WriteFloatCompact` is the
committed snapshot. One theorem per fn / macro item, so a failing obligation names the item whose source moved;
`items_same` catches added or removed items. (Written by `extractors.literals.snapshot()`.)
-/
namespace LexVerif.Props.Literals.WriteFloatCompact
open LexVerif

theorem items_same : Gen.Literals.WriteFloatCompact.items = Spec.LiteralsExpected.WriteFloatCompact.items := by decide
theorem k_write_float : Gen.Literals.WriteFloatCompact.k_write_float = Spec.LiteralsExpected.WriteFloatCompact.k_write_float := by decide
theorem k_write_float_scientific : Gen.Literals.WriteFloatCompact.k_write_float_scientific = Spec.LiteralsExpected.WriteFloatCompact.k_write_float_scientific := by decide
theorem k_write_float_negative_exponent : Gen.Literals.WriteFloatCompact.k_write_float_negative_exponent = Spec.LiteralsExpected.WriteFloatCompact.k_write_float_negative_exponent := by decide
theorem k_write_float_positive_exponent : Gen.Literals.WriteFloatCompact.k_write_float_positive_exponent = Spec.LiteralsExpected.WriteFloatCompact.k_write_float_positive_exponent := by decide
theorem k_round_digit : Gen.Literals.WriteFloatCompact.k_round_digit = Spec.LiteralsExpected.WriteFloatCompact.k_round_digit := by decide
theorem k_generate_digits : Gen.Literals.WriteFloatCompact.k_generate_digits = Spec.LiteralsExpected.WriteFloatCompact.k_generate_digits := by decide
theorem k_grisu : Gen.Literals.WriteFloatCompact.k_grisu = Spec.LiteralsExpected.WriteFloatCompact.k_grisu := by decide
theorem k_from_float : Gen.Literals.WriteFloatCompact.k_from_float = Spec.LiteralsExpected.WriteFloatCompact.k_from_float := by decide
theorem k_normalize : Gen.Literals.WriteFloatCompact.k_normalize = Spec.LiteralsExpected.WriteFloatCompact.k_normalize := by decide
theorem k_normalized_boundaries : Gen.Literals.WriteFloatCompact.k_normalized_boundaries = Spec.LiteralsExpected.WriteFloatCompact.k_normalized_boundaries := by decide
theorem k_mul : Gen.Literals.WriteFloatCompact.k_mul = Spec.LiteralsExpected.WriteFloatCompact.k_mul := by decide
theorem k_cached_grisu_power : Gen.Literals.WriteFloatCompact.k_cached_grisu_power = Spec.LiteralsExpected.WriteFloatCompact.k_cached_grisu_power := by decide
theorem k_fast_binary_power : Gen.Literals.WriteFloatCompact.k_fast_binary_power = Spec.LiteralsExpected.WriteFloatCompact.k_fast_binary_power := by decide
theorem k_fast_decimal_power : Gen.Literals.WriteFloatCompact.k_fast_decimal_power = Spec.LiteralsExpected.WriteFloatCompact.k_fast_decimal_power := by decide
theorem k_verif_cached_grisu_power : Gen.Literals.WriteFloatCompact.k_verif_cached_grisu_power = Spec.LiteralsExpected.WriteFloatCompact.k_verif_cached_grisu_power := by decide
theorem k_verif_fast_binary_power : Gen.Literals.WriteFloatCompact.k_verif_fast_binary_power = Spec.LiteralsExpected.WriteFloatCompact.k_verif_fast_binary_power := by decide
theorem k_verif_fast_decimal_power : Gen.Literals.WriteFloatCompact.k_verif_fast_decimal_power = Spec.LiteralsExpected.WriteFloatCompact.k_verif_fast_decimal_power := by decide
theorem k_grisu_power : Gen.Literals.WriteFloatCompact.k_grisu_power = Spec.LiteralsExpected.WriteFloatCompact.k_grisu_power := by decide
theorem k_grisu_impl_macro : Gen.Literals.WriteFloatCompact.k_grisu_impl_macro = Spec.LiteralsExpected.WriteFloatCompact.k_grisu_impl_macro := by decide
theorem k_grisu_unimpl_macro : Gen.Literals.WriteFloatCompact.k_grisu_unimpl_macro = Spec.LiteralsExpected.WriteFloatCompact.k_grisu_unimpl_macro := by decide

end LexVerif.Props.Literals.WriteFloatCompact
