import LexVerif.Gen.Literals
import LexVerif.Spec.LiteralsExpected
/-!
# Literals.WriteFloatIndex — lexical-write-float/src/index.rs still has the literals and token shape the models were transcribed from

`Gen.Literals.WriteFloatIndex` is re-extracted from /repo's source text on every run; `Spec.LiteralsExpected.WriteFloatIndex` is the
committed snapshot. One theorem per fn / macro item, so a failing obligation names the item whose source moved;
`items_same` catches added or removed items. (Written by `extractors.literals.snapshot()`.)
-/
namespace LexVerif.Props.Literals.WriteFloatIndex
open LexVerif

theorem items_same : Gen.Literals.WriteFloatIndex.items = Spec.LiteralsExpected.WriteFloatIndex.items := by decide
theorem k_index_unchecked_macro : Gen.Literals.WriteFloatIndex.k_index_unchecked_macro = Spec.LiteralsExpected.WriteFloatIndex.k_index_unchecked_macro := by decide

end LexVerif.Props.Literals.WriteFloatIndex
