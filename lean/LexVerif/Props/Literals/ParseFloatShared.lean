import LexVerif.Gen.Literals
import LexVerif.Spec.LiteralsExpected
/-!
# Literals.ParseFloatShared — lexical-parse-float/src/shared.rs still has the literals and token shape the models were transcribed from

`Gen.Literals.ParseFloatShared` is re-extracted from /repo's source text on every run; `Spec.LiteralsExpected.ParseFloatShared` is the
committed snapshot. One theorem per fn / macro item, so a failing obligation names the item whose source moved;
`items_same` catches added or removed items. (Written by `extractors.literals.snapshot()`.)
-/
namespace LexVerif.Props.Literals.ParseFloatShared
open LexVerif

theorem items_same : Gen.Literals.ParseFloatShared.items = Spec.LiteralsExpected.ParseFloatShared.items := by decide
theorem k_can_try_parse_multidigit_macro : Gen.Literals.ParseFloatShared.k_can_try_parse_multidigit_macro = Spec.LiteralsExpected.ParseFloatShared.k_can_try_parse_multidigit_macro := by decide
theorem k_calculate_shift : Gen.Literals.ParseFloatShared.k_calculate_shift = Spec.LiteralsExpected.ParseFloatShared.k_calculate_shift := by decide
theorem k_calculate_power2 : Gen.Literals.ParseFloatShared.k_calculate_power2 = Spec.LiteralsExpected.ParseFloatShared.k_calculate_power2 := by decide
theorem k_log2 : Gen.Literals.ParseFloatShared.k_log2 = Spec.LiteralsExpected.ParseFloatShared.k_log2 := by decide
theorem k_starts_with : Gen.Literals.ParseFloatShared.k_starts_with = Spec.LiteralsExpected.ParseFloatShared.k_starts_with := by decide
theorem k_starts_with_uncased : Gen.Literals.ParseFloatShared.k_starts_with_uncased = Spec.LiteralsExpected.ParseFloatShared.k_starts_with_uncased := by decide
theorem k_round : Gen.Literals.ParseFloatShared.k_round = Spec.LiteralsExpected.ParseFloatShared.k_round := by decide
theorem k_round_nearest_tie_even : Gen.Literals.ParseFloatShared.k_round_nearest_tie_even = Spec.LiteralsExpected.ParseFloatShared.k_round_nearest_tie_even := by decide
theorem k_round_down : Gen.Literals.ParseFloatShared.k_round_down = Spec.LiteralsExpected.ParseFloatShared.k_round_down := by decide

end LexVerif.Props.Literals.ParseFloatShared
