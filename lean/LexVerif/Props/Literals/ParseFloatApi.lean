import LexVerif.Gen.Literals
import LexVerif.Spec.LiteralsExpected
/-!
# Literals.ParseFloatApi — lexical-parse-float/src/api.rs still has the literals and token shape the models were transcribed from

`Gen.Literals.ParseFloatApi` is re-extracted from /repo's source text on every run; `Spec.LiteralsExpected.ParseFloatApi` is the
committed snapshot. One theorem per fn / macro item, so a failing obligation names the item whose source moved;
`items_same` catches added or removed items. (Written by `extractors.literals.snapshot()`.)
-/
namespace LexVerif.Props.Literals.ParseFloatApi
open LexVerif

theorem items_same : Gen.Literals.ParseFloatApi.items = Spec.LiteralsExpected.ParseFloatApi.items := by decide
theorem k_float_from_lexical_macro : Gen.Literals.ParseFloatApi.k_float_from_lexical_macro = Spec.LiteralsExpected.ParseFloatApi.k_float_from_lexical_macro := by decide
theorem k_from_lexical : Gen.Literals.ParseFloatApi.k_from_lexical = Spec.LiteralsExpected.ParseFloatApi.k_from_lexical := by decide
theorem k_from_lexical_partial : Gen.Literals.ParseFloatApi.k_from_lexical_partial = Spec.LiteralsExpected.ParseFloatApi.k_from_lexical_partial := by decide
theorem k_from_lexical_with_options : Gen.Literals.ParseFloatApi.k_from_lexical_with_options = Spec.LiteralsExpected.ParseFloatApi.k_from_lexical_with_options := by decide
theorem k_from_lexical_partial_with_options : Gen.Literals.ParseFloatApi.k_from_lexical_partial_with_options = Spec.LiteralsExpected.ParseFloatApi.k_from_lexical_partial_with_options := by decide

end LexVerif.Props.Literals.ParseFloatApi
