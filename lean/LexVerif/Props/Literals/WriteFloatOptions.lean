import LexVerif.Gen.Literals
import LexVerif.Spec.LiteralsExpected
/-!
# Literals.WriteFloatOptions — lexical-write-float/src/options.rs still has the literals and token shape the models were transcribed from

`Gen.Literals.WriteFloatOptions` is re-extracted from /repo's source text on every run; `Spec.LiteralsExpected.WriteFloatOptions` is the
committed snapshot. One theorem per fn / macro item, so a failing obligation names the item whose source moved;
`items_same` catches added or removed items. (Written by `extractors.literals.snapshot()`.)
-/
namespace LexVerif.Props.Literals.WriteFloatOptions
open LexVerif

theorem items_same : Gen.Literals.WriteFloatOptions.items = Spec.LiteralsExpected.WriteFloatOptions.items := by decide
theorem k_max_macro : Gen.Literals.WriteFloatOptions.k_max_macro = Spec.LiteralsExpected.WriteFloatOptions.k_max_macro := by decide
theorem k_new : Gen.Literals.WriteFloatOptions.k_new = Spec.LiteralsExpected.WriteFloatOptions.k_new := by decide
theorem k_get_max_significant_digits : Gen.Literals.WriteFloatOptions.k_get_max_significant_digits = Spec.LiteralsExpected.WriteFloatOptions.k_get_max_significant_digits := by decide
theorem k_get_min_significant_digits : Gen.Literals.WriteFloatOptions.k_get_min_significant_digits = Spec.LiteralsExpected.WriteFloatOptions.k_get_min_significant_digits := by decide
theorem k_get_positive_exponent_break : Gen.Literals.WriteFloatOptions.k_get_positive_exponent_break = Spec.LiteralsExpected.WriteFloatOptions.k_get_positive_exponent_break := by decide
theorem k_get_negative_exponent_break : Gen.Literals.WriteFloatOptions.k_get_negative_exponent_break = Spec.LiteralsExpected.WriteFloatOptions.k_get_negative_exponent_break := by decide
theorem k_get_round_mode : Gen.Literals.WriteFloatOptions.k_get_round_mode = Spec.LiteralsExpected.WriteFloatOptions.k_get_round_mode := by decide
theorem k_get_trim_floats : Gen.Literals.WriteFloatOptions.k_get_trim_floats = Spec.LiteralsExpected.WriteFloatOptions.k_get_trim_floats := by decide
theorem k_get_exponent : Gen.Literals.WriteFloatOptions.k_get_exponent = Spec.LiteralsExpected.WriteFloatOptions.k_get_exponent := by decide
theorem k_get_decimal_point : Gen.Literals.WriteFloatOptions.k_get_decimal_point = Spec.LiteralsExpected.WriteFloatOptions.k_get_decimal_point := by decide
theorem k_get_nan_string : Gen.Literals.WriteFloatOptions.k_get_nan_string = Spec.LiteralsExpected.WriteFloatOptions.k_get_nan_string := by decide
theorem k_get_inf_string : Gen.Literals.WriteFloatOptions.k_get_inf_string = Spec.LiteralsExpected.WriteFloatOptions.k_get_inf_string := by decide
theorem k_get_infinity_string : Gen.Literals.WriteFloatOptions.k_get_infinity_string = Spec.LiteralsExpected.WriteFloatOptions.k_get_infinity_string := by decide
theorem k_max_significant_digits : Gen.Literals.WriteFloatOptions.k_max_significant_digits = Spec.LiteralsExpected.WriteFloatOptions.k_max_significant_digits := by decide
theorem k_min_significant_digits : Gen.Literals.WriteFloatOptions.k_min_significant_digits = Spec.LiteralsExpected.WriteFloatOptions.k_min_significant_digits := by decide
theorem k_positive_exponent_break : Gen.Literals.WriteFloatOptions.k_positive_exponent_break = Spec.LiteralsExpected.WriteFloatOptions.k_positive_exponent_break := by decide
theorem k_negative_exponent_break : Gen.Literals.WriteFloatOptions.k_negative_exponent_break = Spec.LiteralsExpected.WriteFloatOptions.k_negative_exponent_break := by decide
theorem k_round_mode : Gen.Literals.WriteFloatOptions.k_round_mode = Spec.LiteralsExpected.WriteFloatOptions.k_round_mode := by decide
theorem k_trim_floats : Gen.Literals.WriteFloatOptions.k_trim_floats = Spec.LiteralsExpected.WriteFloatOptions.k_trim_floats := by decide
theorem k_exponent : Gen.Literals.WriteFloatOptions.k_exponent = Spec.LiteralsExpected.WriteFloatOptions.k_exponent := by decide
theorem k_decimal_point : Gen.Literals.WriteFloatOptions.k_decimal_point = Spec.LiteralsExpected.WriteFloatOptions.k_decimal_point := by decide
theorem k_nan_string : Gen.Literals.WriteFloatOptions.k_nan_string = Spec.LiteralsExpected.WriteFloatOptions.k_nan_string := by decide
theorem k_inf_string : Gen.Literals.WriteFloatOptions.k_inf_string = Spec.LiteralsExpected.WriteFloatOptions.k_inf_string := by decide
theorem k_infinity_string : Gen.Literals.WriteFloatOptions.k_infinity_string = Spec.LiteralsExpected.WriteFloatOptions.k_infinity_string := by decide
theorem k_nan_str_is_valid : Gen.Literals.WriteFloatOptions.k_nan_str_is_valid = Spec.LiteralsExpected.WriteFloatOptions.k_nan_str_is_valid := by decide
theorem k_inf_str_is_valid : Gen.Literals.WriteFloatOptions.k_inf_str_is_valid = Spec.LiteralsExpected.WriteFloatOptions.k_inf_str_is_valid := by decide
theorem k_is_valid : Gen.Literals.WriteFloatOptions.k_is_valid = Spec.LiteralsExpected.WriteFloatOptions.k_is_valid := by decide
theorem k_build_unchecked : Gen.Literals.WriteFloatOptions.k_build_unchecked = Spec.LiteralsExpected.WriteFloatOptions.k_build_unchecked := by decide
theorem k_build_strict : Gen.Literals.WriteFloatOptions.k_build_strict = Spec.LiteralsExpected.WriteFloatOptions.k_build_strict := by decide
theorem k_build : Gen.Literals.WriteFloatOptions.k_build = Spec.LiteralsExpected.WriteFloatOptions.k_build := by decide
theorem k_default : Gen.Literals.WriteFloatOptions.k_default = Spec.LiteralsExpected.WriteFloatOptions.k_default := by decide
theorem k_from_radix : Gen.Literals.WriteFloatOptions.k_from_radix = Spec.LiteralsExpected.WriteFloatOptions.k_from_radix := by decide
theorem k_buffer_size_const : Gen.Literals.WriteFloatOptions.k_buffer_size_const = Spec.LiteralsExpected.WriteFloatOptions.k_buffer_size_const := by decide
theorem k_set_max_significant_digits : Gen.Literals.WriteFloatOptions.k_set_max_significant_digits = Spec.LiteralsExpected.WriteFloatOptions.k_set_max_significant_digits := by decide
theorem k_set_min_significant_digits : Gen.Literals.WriteFloatOptions.k_set_min_significant_digits = Spec.LiteralsExpected.WriteFloatOptions.k_set_min_significant_digits := by decide
theorem k_set_positive_exponent_break : Gen.Literals.WriteFloatOptions.k_set_positive_exponent_break = Spec.LiteralsExpected.WriteFloatOptions.k_set_positive_exponent_break := by decide
theorem k_set_negative_exponent_break : Gen.Literals.WriteFloatOptions.k_set_negative_exponent_break = Spec.LiteralsExpected.WriteFloatOptions.k_set_negative_exponent_break := by decide
theorem k_set_round_mode : Gen.Literals.WriteFloatOptions.k_set_round_mode = Spec.LiteralsExpected.WriteFloatOptions.k_set_round_mode := by decide
theorem k_set_trim_floats : Gen.Literals.WriteFloatOptions.k_set_trim_floats = Spec.LiteralsExpected.WriteFloatOptions.k_set_trim_floats := by decide
theorem k_set_exponent : Gen.Literals.WriteFloatOptions.k_set_exponent = Spec.LiteralsExpected.WriteFloatOptions.k_set_exponent := by decide
theorem k_set_decimal_point : Gen.Literals.WriteFloatOptions.k_set_decimal_point = Spec.LiteralsExpected.WriteFloatOptions.k_set_decimal_point := by decide
theorem k_set_nan_string : Gen.Literals.WriteFloatOptions.k_set_nan_string = Spec.LiteralsExpected.WriteFloatOptions.k_set_nan_string := by decide
theorem k_set_inf_string : Gen.Literals.WriteFloatOptions.k_set_inf_string = Spec.LiteralsExpected.WriteFloatOptions.k_set_inf_string := by decide
theorem k_builder : Gen.Literals.WriteFloatOptions.k_builder = Spec.LiteralsExpected.WriteFloatOptions.k_builder := by decide
theorem k_rebuild : Gen.Literals.WriteFloatOptions.k_rebuild = Spec.LiteralsExpected.WriteFloatOptions.k_rebuild := by decide
theorem k_buffer_size : Gen.Literals.WriteFloatOptions.k_buffer_size = Spec.LiteralsExpected.WriteFloatOptions.k_buffer_size := by decide
theorem k_unwrap_or_zero_macro : Gen.Literals.WriteFloatOptions.k_unwrap_or_zero_macro = Spec.LiteralsExpected.WriteFloatOptions.k_unwrap_or_zero_macro := by decide
theorem k_unwrap_or_max_usize : Gen.Literals.WriteFloatOptions.k_unwrap_or_max_usize = Spec.LiteralsExpected.WriteFloatOptions.k_unwrap_or_max_usize := by decide
theorem k_unwrap_str : Gen.Literals.WriteFloatOptions.k_unwrap_str = Spec.LiteralsExpected.WriteFloatOptions.k_unwrap_str := by decide

end LexVerif.Props.Literals.WriteFloatOptions
