import LexVerif.Gen.Literals
import LexVerif.Spec.LiteralsExpected
/-!
# Literals.UtilFormat — lexical-util/src/format.rs still has the literals and token shape the models were transcribed from

`Gen.Literals.UtilFormat` is re-extracted from /repo's source text on every run; `Spec.LiteralsExpected.UtilFormat` is the
committed snapshot. One theorem per fn / macro item, so a failing obligation names the item whose source moved;
`items_same` catches added or removed items. (Written by `extractors.literals.snapshot()`.)
-/
namespace LexVerif.Props.Literals.UtilFormat
open LexVerif

theorem items_same : Gen.Literals.UtilFormat.items = Spec.LiteralsExpected.UtilFormat.items := by decide
theorem k_format_is_valid : Gen.Literals.UtilFormat.k_format_is_valid = Spec.LiteralsExpected.UtilFormat.k_format_is_valid := by decide
theorem k_format_error : Gen.Literals.UtilFormat.k_format_error = Spec.LiteralsExpected.UtilFormat.k_format_error := by decide
theorem k_verif_format_error : Gen.Literals.UtilFormat.k_verif_format_error = Spec.LiteralsExpected.UtilFormat.k_verif_format_error := by decide

end LexVerif.Props.Literals.UtilFormat
