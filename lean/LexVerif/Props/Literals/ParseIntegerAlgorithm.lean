import LexVerif.Gen.Literals
import LexVerif.Spec.LiteralsExpected
/-!
# Literals.ParseIntegerAlgorithm — lexical-parse-integer/src/algorithm.rs still has the literals and token shape the models were transcribed from

`Gen.Literals.ParseIntegerAlgorithm` is re-extracted from /repo's source text on every run; `Spec.LiteralsExpected.ParseIntegerAlgorithm` is the
committed snapshot. One theorem per fn / macro item, so a failing obligation names the item whose source moved;
`items_same` catches added or removed items. (Written by `extractors.literals.snapshot()`.)
-/
namespace LexVerif.Props.Literals.ParseIntegerAlgorithm
open LexVerif

theorem items_same : Gen.Literals.ParseIntegerAlgorithm.items = Spec.LiteralsExpected.ParseIntegerAlgorithm.items := by decide
theorem k_can_try_parse_multidigits : Gen.Literals.ParseIntegerAlgorithm.k_can_try_parse_multidigits = Spec.LiteralsExpected.ParseIntegerAlgorithm.k_can_try_parse_multidigits := by decide
theorem k_required_digits_macro : Gen.Literals.ParseIntegerAlgorithm.k_required_digits_macro = Spec.LiteralsExpected.ParseIntegerAlgorithm.k_required_digits_macro := by decide
theorem k_into_ok_complete_macro : Gen.Literals.ParseIntegerAlgorithm.k_into_ok_complete_macro = Spec.LiteralsExpected.ParseIntegerAlgorithm.k_into_ok_complete_macro := by decide
theorem k_into_ok_partial_macro : Gen.Literals.ParseIntegerAlgorithm.k_into_ok_partial_macro = Spec.LiteralsExpected.ParseIntegerAlgorithm.k_into_ok_partial_macro := by decide
theorem k_invalid_digit_complete_macro : Gen.Literals.ParseIntegerAlgorithm.k_invalid_digit_complete_macro = Spec.LiteralsExpected.ParseIntegerAlgorithm.k_invalid_digit_complete_macro := by decide
theorem k_invalid_digit_partial_macro : Gen.Literals.ParseIntegerAlgorithm.k_invalid_digit_partial_macro = Spec.LiteralsExpected.ParseIntegerAlgorithm.k_invalid_digit_partial_macro := by decide
theorem k_into_error_macro : Gen.Literals.ParseIntegerAlgorithm.k_into_error_macro = Spec.LiteralsExpected.ParseIntegerAlgorithm.k_into_error_macro := by decide
theorem k_fmt_invalid_digit_macro : Gen.Literals.ParseIntegerAlgorithm.k_fmt_invalid_digit_macro = Spec.LiteralsExpected.ParseIntegerAlgorithm.k_fmt_invalid_digit_macro := by decide
theorem k_parse_sign_macro : Gen.Literals.ParseIntegerAlgorithm.k_parse_sign_macro = Spec.LiteralsExpected.ParseIntegerAlgorithm.k_parse_sign_macro := by decide
theorem k_parse_sign : Gen.Literals.ParseIntegerAlgorithm.k_parse_sign = Spec.LiteralsExpected.ParseIntegerAlgorithm.k_parse_sign := by decide
theorem k_is_4digits : Gen.Literals.ParseIntegerAlgorithm.k_is_4digits = Spec.LiteralsExpected.ParseIntegerAlgorithm.k_is_4digits := by decide
theorem k_parse_4digits : Gen.Literals.ParseIntegerAlgorithm.k_parse_4digits = Spec.LiteralsExpected.ParseIntegerAlgorithm.k_parse_4digits := by decide
theorem k_try_parse_4digits : Gen.Literals.ParseIntegerAlgorithm.k_try_parse_4digits = Spec.LiteralsExpected.ParseIntegerAlgorithm.k_try_parse_4digits := by decide
theorem k_is_8digits : Gen.Literals.ParseIntegerAlgorithm.k_is_8digits = Spec.LiteralsExpected.ParseIntegerAlgorithm.k_is_8digits := by decide
theorem k_parse_8digits : Gen.Literals.ParseIntegerAlgorithm.k_parse_8digits = Spec.LiteralsExpected.ParseIntegerAlgorithm.k_parse_8digits := by decide
theorem k_try_parse_8digits : Gen.Literals.ParseIntegerAlgorithm.k_try_parse_8digits = Spec.LiteralsExpected.ParseIntegerAlgorithm.k_try_parse_8digits := by decide
theorem k_parse_1digit_unchecked_macro : Gen.Literals.ParseIntegerAlgorithm.k_parse_1digit_unchecked_macro = Spec.LiteralsExpected.ParseIntegerAlgorithm.k_parse_1digit_unchecked_macro := by decide
theorem k_parse_1digit_checked_macro : Gen.Literals.ParseIntegerAlgorithm.k_parse_1digit_checked_macro = Spec.LiteralsExpected.ParseIntegerAlgorithm.k_parse_1digit_checked_macro := by decide
theorem k_parse_digits_unchecked_macro : Gen.Literals.ParseIntegerAlgorithm.k_parse_digits_unchecked_macro = Spec.LiteralsExpected.ParseIntegerAlgorithm.k_parse_digits_unchecked_macro := by decide
theorem k_parse_digits_checked_macro : Gen.Literals.ParseIntegerAlgorithm.k_parse_digits_checked_macro = Spec.LiteralsExpected.ParseIntegerAlgorithm.k_parse_digits_checked_macro := by decide
theorem k_algorithm_macro : Gen.Literals.ParseIntegerAlgorithm.k_algorithm_macro = Spec.LiteralsExpected.ParseIntegerAlgorithm.k_algorithm_macro := by decide
theorem k_algorithm_complete : Gen.Literals.ParseIntegerAlgorithm.k_algorithm_complete = Spec.LiteralsExpected.ParseIntegerAlgorithm.k_algorithm_complete := by decide
theorem k_algorithm_partial : Gen.Literals.ParseIntegerAlgorithm.k_algorithm_partial = Spec.LiteralsExpected.ParseIntegerAlgorithm.k_algorithm_partial := by decide

end LexVerif.Props.Literals.ParseIntegerAlgorithm
