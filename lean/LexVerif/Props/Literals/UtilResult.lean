import LexVerif.Gen.Literals
import LexVerif.Spec.LiteralsExpected
/-!
# Literals.UtilResult — lexical-util/src/result.rs still has the literals and token shape the models were transcribed from

`Gen.Literals.UtilResult` is re-extracted from /repo's source text on every run; `Spec.LiteralsExpected.UtilResult` is the
committed snapshot. One theorem per fn / macro item, so a failing obligation names the item whose source moved;
`items_same` catches added or removed items. (Written by `extractors.literals.snapshot()`.)
-/
namespace LexVerif.Props.Literals.UtilResult
open LexVerif

theorem items_same : Gen.Literals.UtilResult.items = Spec.LiteralsExpected.UtilResult.items := by decide

end LexVerif.Props.Literals.UtilResult
