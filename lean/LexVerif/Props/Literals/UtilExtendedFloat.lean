import LexVerif.Gen.Literals
import LexVerif.Spec.LiteralsExpected
/-!
# Literals.UtilExtendedFloat — lexical-util/src/extended_float.rs still has the literals and token shape the models were transcribed from

`Gen.Literals.UtilExtendedFloat` is re-extracted from /repo's source text on every run; `Spec.LiteralsExpected.UtilExtendedFloat` is the
committed snapshot. One theorem per fn / macro item, so a failing obligation names the item whose source moved;
`items_same` catches added or removed items. (Written by `extractors.literals.snapshot()`.)
-/
namespace LexVerif.Props.Literals.UtilExtendedFloat
open LexVerif

theorem items_same : Gen.Literals.UtilExtendedFloat.items = Spec.LiteralsExpected.UtilExtendedFloat.items := by decide
theorem k_mantissa : Gen.Literals.UtilExtendedFloat.k_mantissa = Spec.LiteralsExpected.UtilExtendedFloat.k_mantissa := by decide
theorem k_exponent : Gen.Literals.UtilExtendedFloat.k_exponent = Spec.LiteralsExpected.UtilExtendedFloat.k_exponent := by decide

end LexVerif.Props.Literals.UtilExtendedFloat
