import LexVerif.Gen.Literals
import LexVerif.Spec.LiteralsExpected
/-!
# Literals.WriteFloatAlgorithm — lexical-write-float/src/algorithm.rs still has the literals and token shape the models were transcribed from

`Gen.Literals.WriteFloatAlgorithm` is re-extracted from /repo's source text on every run; `Spec.LiteralsExpected.WriteFloatAlgorithm` is the
committed snapshot. One theorem per fn / macro item, so a failing obligation names the item whose source moved;
`items_same` catches added or removed items. (Written by `extractors.literals.snapshot()`.)
-/
namespace LexVerif.Props.Literals.WriteFloatAlgorithm
open LexVerif

theorem items_same : Gen.Literals.WriteFloatAlgorithm.items = Spec.LiteralsExpected.WriteFloatAlgorithm.items := by decide
theorem k_write_float : Gen.Literals.WriteFloatAlgorithm.k_write_float = Spec.LiteralsExpected.WriteFloatAlgorithm.k_write_float := by decide
theorem k_write_float_scientific : Gen.Literals.WriteFloatAlgorithm.k_write_float_scientific = Spec.LiteralsExpected.WriteFloatAlgorithm.k_write_float_scientific := by decide
theorem k_write_float_negative_exponent : Gen.Literals.WriteFloatAlgorithm.k_write_float_negative_exponent = Spec.LiteralsExpected.WriteFloatAlgorithm.k_write_float_negative_exponent := by decide
theorem k_write_float_positive_exponent : Gen.Literals.WriteFloatAlgorithm.k_write_float_positive_exponent = Spec.LiteralsExpected.WriteFloatAlgorithm.k_write_float_positive_exponent := by decide
theorem k_to_decimal : Gen.Literals.WriteFloatAlgorithm.k_to_decimal = Spec.LiteralsExpected.WriteFloatAlgorithm.k_to_decimal := by decide
theorem k_compute_round_short : Gen.Literals.WriteFloatAlgorithm.k_compute_round_short = Spec.LiteralsExpected.WriteFloatAlgorithm.k_compute_round_short := by decide
theorem k_compute_round : Gen.Literals.WriteFloatAlgorithm.k_compute_round = Spec.LiteralsExpected.WriteFloatAlgorithm.k_compute_round := by decide
theorem k_compute_nearest_shorter : Gen.Literals.WriteFloatAlgorithm.k_compute_nearest_shorter = Spec.LiteralsExpected.WriteFloatAlgorithm.k_compute_nearest_shorter := by decide
theorem k_compute_nearest_normal : Gen.Literals.WriteFloatAlgorithm.k_compute_nearest_normal = Spec.LiteralsExpected.WriteFloatAlgorithm.k_compute_nearest_normal := by decide
theorem k_compute_left_closed_directed : Gen.Literals.WriteFloatAlgorithm.k_compute_left_closed_directed = Spec.LiteralsExpected.WriteFloatAlgorithm.k_compute_left_closed_directed := by decide
theorem k_compute_right_closed_directed : Gen.Literals.WriteFloatAlgorithm.k_compute_right_closed_directed = Spec.LiteralsExpected.WriteFloatAlgorithm.k_compute_right_closed_directed := by decide
theorem k_write_digits_u32 : Gen.Literals.WriteFloatAlgorithm.k_write_digits_u32 = Spec.LiteralsExpected.WriteFloatAlgorithm.k_write_digits_u32 := by decide
theorem k_write_digits_u64 : Gen.Literals.WriteFloatAlgorithm.k_write_digits_u64 = Spec.LiteralsExpected.WriteFloatAlgorithm.k_write_digits_u64 := by decide
theorem k_extended_float : Gen.Literals.WriteFloatAlgorithm.k_extended_float = Spec.LiteralsExpected.WriteFloatAlgorithm.k_extended_float := by decide
theorem k_floor_log2 : Gen.Literals.WriteFloatAlgorithm.k_floor_log2 = Spec.LiteralsExpected.WriteFloatAlgorithm.k_floor_log2 := by decide
theorem k_is_endpoint : Gen.Literals.WriteFloatAlgorithm.k_is_endpoint = Spec.LiteralsExpected.WriteFloatAlgorithm.k_is_endpoint := by decide
theorem k_is_right_endpoint : Gen.Literals.WriteFloatAlgorithm.k_is_right_endpoint = Spec.LiteralsExpected.WriteFloatAlgorithm.k_is_right_endpoint := by decide
theorem k_is_left_endpoint : Gen.Literals.WriteFloatAlgorithm.k_is_left_endpoint = Spec.LiteralsExpected.WriteFloatAlgorithm.k_is_left_endpoint := by decide
theorem k_umul128_upper64 : Gen.Literals.WriteFloatAlgorithm.k_umul128_upper64 = Spec.LiteralsExpected.WriteFloatAlgorithm.k_umul128_upper64 := by decide
theorem k_umul192_upper128 : Gen.Literals.WriteFloatAlgorithm.k_umul192_upper128 = Spec.LiteralsExpected.WriteFloatAlgorithm.k_umul192_upper128 := by decide
theorem k_umul192_lower128 : Gen.Literals.WriteFloatAlgorithm.k_umul192_lower128 = Spec.LiteralsExpected.WriteFloatAlgorithm.k_umul192_lower128 := by decide
theorem k_umul96_upper64 : Gen.Literals.WriteFloatAlgorithm.k_umul96_upper64 = Spec.LiteralsExpected.WriteFloatAlgorithm.k_umul96_upper64 := by decide
theorem k_umul96_lower64 : Gen.Literals.WriteFloatAlgorithm.k_umul96_lower64 = Spec.LiteralsExpected.WriteFloatAlgorithm.k_umul96_lower64 := by decide
theorem k_floor_log5_pow2 : Gen.Literals.WriteFloatAlgorithm.k_floor_log5_pow2 = Spec.LiteralsExpected.WriteFloatAlgorithm.k_floor_log5_pow2 := by decide
theorem k_floor_log10_pow2 : Gen.Literals.WriteFloatAlgorithm.k_floor_log10_pow2 = Spec.LiteralsExpected.WriteFloatAlgorithm.k_floor_log10_pow2 := by decide
theorem k_floor_log2_pow10 : Gen.Literals.WriteFloatAlgorithm.k_floor_log2_pow10 = Spec.LiteralsExpected.WriteFloatAlgorithm.k_floor_log2_pow10 := by decide
theorem k_floor_log5_pow2_minus_log5_3 : Gen.Literals.WriteFloatAlgorithm.k_floor_log5_pow2_minus_log5_3 = Spec.LiteralsExpected.WriteFloatAlgorithm.k_floor_log5_pow2_minus_log5_3 := by decide
theorem k_floor_log10_pow2_minus_log10_4_over_3 : Gen.Literals.WriteFloatAlgorithm.k_floor_log10_pow2_minus_log10_4_over_3 = Spec.LiteralsExpected.WriteFloatAlgorithm.k_floor_log10_pow2_minus_log10_4_over_3 := by decide
theorem k_pow32 : Gen.Literals.WriteFloatAlgorithm.k_pow32 = Spec.LiteralsExpected.WriteFloatAlgorithm.k_pow32 := by decide
theorem k_pow64 : Gen.Literals.WriteFloatAlgorithm.k_pow64 = Spec.LiteralsExpected.WriteFloatAlgorithm.k_pow64 := by decide
theorem k_count_factors : Gen.Literals.WriteFloatAlgorithm.k_count_factors = Spec.LiteralsExpected.WriteFloatAlgorithm.k_count_factors := by decide
theorem k_divide_by_pow10_32 : Gen.Literals.WriteFloatAlgorithm.k_divide_by_pow10_32 = Spec.LiteralsExpected.WriteFloatAlgorithm.k_divide_by_pow10_32 := by decide
theorem k_divide_by_pow10_64 : Gen.Literals.WriteFloatAlgorithm.k_divide_by_pow10_64 = Spec.LiteralsExpected.WriteFloatAlgorithm.k_divide_by_pow10_64 := by decide
theorem k_prefer_round_down : Gen.Literals.WriteFloatAlgorithm.k_prefer_round_down = Spec.LiteralsExpected.WriteFloatAlgorithm.k_prefer_round_down := by decide
theorem k_is_symmetric : Gen.Literals.WriteFloatAlgorithm.k_is_symmetric = Spec.LiteralsExpected.WriteFloatAlgorithm.k_is_symmetric := by decide
theorem k_include_left_endpoint : Gen.Literals.WriteFloatAlgorithm.k_include_left_endpoint = Spec.LiteralsExpected.WriteFloatAlgorithm.k_include_left_endpoint := by decide
theorem k_include_right_endpoint : Gen.Literals.WriteFloatAlgorithm.k_include_right_endpoint = Spec.LiteralsExpected.WriteFloatAlgorithm.k_include_right_endpoint := by decide
theorem k_compute_left_endpoint_u64 : Gen.Literals.WriteFloatAlgorithm.k_compute_left_endpoint_u64 = Spec.LiteralsExpected.WriteFloatAlgorithm.k_compute_left_endpoint_u64 := by decide
theorem k_compute_right_endpoint_u64 : Gen.Literals.WriteFloatAlgorithm.k_compute_right_endpoint_u64 = Spec.LiteralsExpected.WriteFloatAlgorithm.k_compute_right_endpoint_u64 := by decide
theorem k_compute_round_up_u64 : Gen.Literals.WriteFloatAlgorithm.k_compute_round_up_u64 = Spec.LiteralsExpected.WriteFloatAlgorithm.k_compute_round_up_u64 := by decide
theorem k_high : Gen.Literals.WriteFloatAlgorithm.k_high = Spec.LiteralsExpected.WriteFloatAlgorithm.k_high := by decide
theorem k_low : Gen.Literals.WriteFloatAlgorithm.k_low = Spec.LiteralsExpected.WriteFloatAlgorithm.k_low := by decide
theorem k_rotr32 : Gen.Literals.WriteFloatAlgorithm.k_rotr32 = Spec.LiteralsExpected.WriteFloatAlgorithm.k_rotr32 := by decide
theorem k_rotr64 : Gen.Literals.WriteFloatAlgorithm.k_rotr64 = Spec.LiteralsExpected.WriteFloatAlgorithm.k_rotr64 := by decide
theorem k_check_div_pow10_macro : Gen.Literals.WriteFloatAlgorithm.k_check_div_pow10_macro = Spec.LiteralsExpected.WriteFloatAlgorithm.k_check_div_pow10_macro := by decide
theorem k_div_pow10_macro : Gen.Literals.WriteFloatAlgorithm.k_div_pow10_macro = Spec.LiteralsExpected.WriteFloatAlgorithm.k_div_pow10_macro := by decide
theorem k_digit_count : Gen.Literals.WriteFloatAlgorithm.k_digit_count = Spec.LiteralsExpected.WriteFloatAlgorithm.k_digit_count := by decide
theorem k_write_digits : Gen.Literals.WriteFloatAlgorithm.k_write_digits = Spec.LiteralsExpected.WriteFloatAlgorithm.k_write_digits := by decide
theorem k_dragonbox_power : Gen.Literals.WriteFloatAlgorithm.k_dragonbox_power = Spec.LiteralsExpected.WriteFloatAlgorithm.k_dragonbox_power := by decide
theorem k_compute_left_endpoint : Gen.Literals.WriteFloatAlgorithm.k_compute_left_endpoint = Spec.LiteralsExpected.WriteFloatAlgorithm.k_compute_left_endpoint := by decide
theorem k_compute_right_endpoint : Gen.Literals.WriteFloatAlgorithm.k_compute_right_endpoint = Spec.LiteralsExpected.WriteFloatAlgorithm.k_compute_right_endpoint := by decide
theorem k_compute_round_up : Gen.Literals.WriteFloatAlgorithm.k_compute_round_up = Spec.LiteralsExpected.WriteFloatAlgorithm.k_compute_round_up := by decide
theorem k_compute_mul : Gen.Literals.WriteFloatAlgorithm.k_compute_mul = Spec.LiteralsExpected.WriteFloatAlgorithm.k_compute_mul := by decide
theorem k_compute_mul_parity : Gen.Literals.WriteFloatAlgorithm.k_compute_mul_parity = Spec.LiteralsExpected.WriteFloatAlgorithm.k_compute_mul_parity := by decide
theorem k_compute_delta : Gen.Literals.WriteFloatAlgorithm.k_compute_delta = Spec.LiteralsExpected.WriteFloatAlgorithm.k_compute_delta := by decide
theorem k_process_trailing_zeros : Gen.Literals.WriteFloatAlgorithm.k_process_trailing_zeros = Spec.LiteralsExpected.WriteFloatAlgorithm.k_process_trailing_zeros := by decide
theorem k_remove_trailing_zeros : Gen.Literals.WriteFloatAlgorithm.k_remove_trailing_zeros = Spec.LiteralsExpected.WriteFloatAlgorithm.k_remove_trailing_zeros := by decide
theorem k_divisible_by_pow2 : Gen.Literals.WriteFloatAlgorithm.k_divisible_by_pow2 = Spec.LiteralsExpected.WriteFloatAlgorithm.k_divisible_by_pow2 := by decide
theorem k_check_div_pow10 : Gen.Literals.WriteFloatAlgorithm.k_check_div_pow10 = Spec.LiteralsExpected.WriteFloatAlgorithm.k_check_div_pow10 := by decide
theorem k_div_pow10 : Gen.Literals.WriteFloatAlgorithm.k_div_pow10 = Spec.LiteralsExpected.WriteFloatAlgorithm.k_div_pow10 := by decide
theorem k_divide_by_pow10 : Gen.Literals.WriteFloatAlgorithm.k_divide_by_pow10 = Spec.LiteralsExpected.WriteFloatAlgorithm.k_divide_by_pow10 := by decide
theorem k_dragonbox_unimpl_macro : Gen.Literals.WriteFloatAlgorithm.k_dragonbox_unimpl_macro = Spec.LiteralsExpected.WriteFloatAlgorithm.k_dragonbox_unimpl_macro := by decide

end LexVerif.Props.Literals.WriteFloatAlgorithm
