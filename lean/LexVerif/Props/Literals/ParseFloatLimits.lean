import LexVerif.Gen.Literals
import LexVerif.Spec.LiteralsExpected
/-!
# Literals.ParseFloatLimits — lexical-parse-float/src/limits.rs still has the literals and token shape the models were transcribed from

`Gen.Literals.ParseFloatLimits` is re-extracted from /repo's source text on every run; `Spec.LiteralsExpected.ParseFloatLimits` is the
committed snapshot. One theorem per fn / macro item, so a failing obligation names the item whose source moved;
`items_same` catches added or removed items. (Written by `extractors.literals.snapshot()`.)
-/
namespace LexVerif.Props.Literals.ParseFloatLimits
open LexVerif

theorem items_same : Gen.Literals.ParseFloatLimits.items = Spec.LiteralsExpected.ParseFloatLimits.items := by decide
theorem k_exponent_limit : Gen.Literals.ParseFloatLimits.k_exponent_limit = Spec.LiteralsExpected.ParseFloatLimits.k_exponent_limit := by decide
theorem k_mantissa_limit : Gen.Literals.ParseFloatLimits.k_mantissa_limit = Spec.LiteralsExpected.ParseFloatLimits.k_mantissa_limit := by decide
theorem k_f32_exponent_limit : Gen.Literals.ParseFloatLimits.k_f32_exponent_limit = Spec.LiteralsExpected.ParseFloatLimits.k_f32_exponent_limit := by decide
theorem k_f32_mantissa_limit : Gen.Literals.ParseFloatLimits.k_f32_mantissa_limit = Spec.LiteralsExpected.ParseFloatLimits.k_f32_mantissa_limit := by decide
theorem k_f64_exponent_limit : Gen.Literals.ParseFloatLimits.k_f64_exponent_limit = Spec.LiteralsExpected.ParseFloatLimits.k_f64_exponent_limit := by decide
theorem k_f64_mantissa_limit : Gen.Literals.ParseFloatLimits.k_f64_mantissa_limit = Spec.LiteralsExpected.ParseFloatLimits.k_f64_mantissa_limit := by decide
theorem k_f128_exponent_limit : Gen.Literals.ParseFloatLimits.k_f128_exponent_limit = Spec.LiteralsExpected.ParseFloatLimits.k_f128_exponent_limit := by decide
theorem k_f128_mantissa_limit : Gen.Literals.ParseFloatLimits.k_f128_mantissa_limit = Spec.LiteralsExpected.ParseFloatLimits.k_f128_mantissa_limit := by decide
theorem k_u32_power_limit : Gen.Literals.ParseFloatLimits.k_u32_power_limit = Spec.LiteralsExpected.ParseFloatLimits.k_u32_power_limit := by decide
theorem k_u64_power_limit : Gen.Literals.ParseFloatLimits.k_u64_power_limit = Spec.LiteralsExpected.ParseFloatLimits.k_u64_power_limit := by decide
theorem k_max_digits : Gen.Literals.ParseFloatLimits.k_max_digits = Spec.LiteralsExpected.ParseFloatLimits.k_max_digits := by decide
theorem k_f32_max_digits : Gen.Literals.ParseFloatLimits.k_f32_max_digits = Spec.LiteralsExpected.ParseFloatLimits.k_f32_max_digits := by decide
theorem k_f64_max_digits : Gen.Literals.ParseFloatLimits.k_f64_max_digits = Spec.LiteralsExpected.ParseFloatLimits.k_f64_max_digits := by decide

end LexVerif.Props.Literals.ParseFloatLimits
