import LexVerif.Gen.Literals
import LexVerif.Spec.LiteralsExpected
/-!
# Literals.WriteFloatWrite — lexical-write-float/src/write.rs still has the literals and token shape the models were transcribed from

`Gen.Literals.WriteFloatWrite` is re-extracted from /repo's source text on every run; `Spec.LiteralsExpected.WriteFloatWrite` is the
committed snapshot. One theorem per fn / macro item, so a failing obligation names the item whose source moved;
`items_same` catches added or removed items. (Written by `extractors.literals.snapshot()`.)
-/
namespace LexVerif.Props.Literals.WriteFloatWrite
open LexVerif

theorem items_same : Gen.Literals.WriteFloatWrite.items = Spec.LiteralsExpected.WriteFloatWrite.items := by decide
theorem k_write_special : Gen.Literals.WriteFloatWrite.k_write_special = Spec.LiteralsExpected.WriteFloatWrite.k_write_special := by decide
theorem k_write_nan : Gen.Literals.WriteFloatWrite.k_write_nan = Spec.LiteralsExpected.WriteFloatWrite.k_write_nan := by decide
theorem k_write_inf : Gen.Literals.WriteFloatWrite.k_write_inf = Spec.LiteralsExpected.WriteFloatWrite.k_write_inf := by decide
theorem k_check_buffer : Gen.Literals.WriteFloatWrite.k_check_buffer = Spec.LiteralsExpected.WriteFloatWrite.k_check_buffer := by decide
theorem k_write_float : Gen.Literals.WriteFloatWrite.k_write_float = Spec.LiteralsExpected.WriteFloatWrite.k_write_float := by decide
theorem k_write_float_impl_macro : Gen.Literals.WriteFloatWrite.k_write_float_impl_macro = Spec.LiteralsExpected.WriteFloatWrite.k_write_float_impl_macro := by decide
theorem k_write_float_as_f32_macro : Gen.Literals.WriteFloatWrite.k_write_float_as_f32_macro = Spec.LiteralsExpected.WriteFloatWrite.k_write_float_as_f32_macro := by decide

end LexVerif.Props.Literals.WriteFloatWrite
