import LexVerif.Gen.Literals
import LexVerif.Spec.LiteralsExpected
/-!
# Literals.WriteFloatShared — lexical-write-float/src/shared.rs still has the literals and token shape the models were transcribed from

`Gen.Literals.WriteFloatShared` is re-extracted from /repo's source text on every run; `Spec.LiteralsExpected.WriteFloatShared` is the
committed snapshot. One theorem per fn / macro item, so a failing obligation names the item whose source moved;
`items_same` catches added or removed items. (Written by `extractors.literals.snapshot()`.)
-/
namespace LexVerif.Props.Literals.WriteFloatShared
open LexVerif

theorem items_same : Gen.Literals.WriteFloatShared.items = Spec.LiteralsExpected.WriteFloatShared.items := by decide
theorem k_min_exact_digits : Gen.Literals.WriteFloatShared.k_min_exact_digits = Spec.LiteralsExpected.WriteFloatShared.k_min_exact_digits := by decide
theorem k_round_up : Gen.Literals.WriteFloatShared.k_round_up = Spec.LiteralsExpected.WriteFloatShared.k_round_up := by decide
theorem k_truncate_and_round_decimal : Gen.Literals.WriteFloatShared.k_truncate_and_round_decimal = Spec.LiteralsExpected.WriteFloatShared.k_truncate_and_round_decimal := by decide
theorem k_write_exponent_sign : Gen.Literals.WriteFloatShared.k_write_exponent_sign = Spec.LiteralsExpected.WriteFloatShared.k_write_exponent_sign := by decide
theorem k_write_exponent : Gen.Literals.WriteFloatShared.k_write_exponent = Spec.LiteralsExpected.WriteFloatShared.k_write_exponent := by decide
theorem k_write_float_macro : Gen.Literals.WriteFloatShared.k_write_float_macro = Spec.LiteralsExpected.WriteFloatShared.k_write_float_macro := by decide

end LexVerif.Props.Literals.WriteFloatShared
