import LexVerif.Gen.Literals
import LexVerif.Spec.LiteralsExpected
/-!
# Literals.ParseFloatBellerophon — lexical-parse-float/src/bellerophon.rs still has the literals and token shape the models were transcribed from

`Gen.Literals.ParseFloatBellerophon` is re-extracted from /repo's source text on every run; `Spec.LiteralsExpected.ParseFloatBellerophon` is the
committed snapshot. One theorem per fn / macro item, so a failing obligation names the item whose source moved;
`items_same` catches added or removed items. (Written by `extractors.literals.snapshot()`.)
-/
namespace LexVerif.Props.Literals.ParseFloatBellerophon
open LexVerif

theorem items_same : Gen.Literals.ParseFloatBellerophon.items = Spec.LiteralsExpected.ParseFloatBellerophon.items := by decide
theorem k_bellerophon : Gen.Literals.ParseFloatBellerophon.k_bellerophon = Spec.LiteralsExpected.ParseFloatBellerophon.k_bellerophon := by decide
theorem k_error_scale : Gen.Literals.ParseFloatBellerophon.k_error_scale = Spec.LiteralsExpected.ParseFloatBellerophon.k_error_scale := by decide
theorem k_error_halfscale : Gen.Literals.ParseFloatBellerophon.k_error_halfscale = Spec.LiteralsExpected.ParseFloatBellerophon.k_error_halfscale := by decide
theorem k_error_is_accurate : Gen.Literals.ParseFloatBellerophon.k_error_is_accurate = Spec.LiteralsExpected.ParseFloatBellerophon.k_error_is_accurate := by decide
theorem k_normalize : Gen.Literals.ParseFloatBellerophon.k_normalize = Spec.LiteralsExpected.ParseFloatBellerophon.k_normalize := by decide
theorem k_mul : Gen.Literals.ParseFloatBellerophon.k_mul = Spec.LiteralsExpected.ParseFloatBellerophon.k_mul := by decide
theorem k_get_small : Gen.Literals.ParseFloatBellerophon.k_get_small = Spec.LiteralsExpected.ParseFloatBellerophon.k_get_small := by decide
theorem k_get_large : Gen.Literals.ParseFloatBellerophon.k_get_large = Spec.LiteralsExpected.ParseFloatBellerophon.k_get_large := by decide
theorem k_get_small_int : Gen.Literals.ParseFloatBellerophon.k_get_small_int = Spec.LiteralsExpected.ParseFloatBellerophon.k_get_small_int := by decide

end LexVerif.Props.Literals.ParseFloatBellerophon
