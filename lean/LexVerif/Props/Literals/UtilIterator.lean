import LexVerif.Gen.Literals
import LexVerif.Spec.LiteralsExpected
/-!
# Literals.UtilIterator — lexical-util/src/iterator.rs still has the literals and token shape the models were transcribed from

`Gen.Literals.UtilIterator` is re-extracted from /repo's source text on every run; `Spec.LiteralsExpected.UtilIterator` is the
committed snapshot. One theorem per fn / macro item, so a failing obligation names the item whose source moved;
`items_same` catches added or removed items. (Written by `extractors.literals.snapshot()`.)
-/
namespace LexVerif.Props.Literals.UtilIterator
open LexVerif

theorem items_same : Gen.Literals.UtilIterator.items = Spec.LiteralsExpected.UtilIterator.items := by decide
theorem k_as_ptr : Gen.Literals.UtilIterator.k_as_ptr = Spec.LiteralsExpected.UtilIterator.k_as_ptr := by decide
theorem k_as_slice : Gen.Literals.UtilIterator.k_as_slice = Spec.LiteralsExpected.UtilIterator.k_as_slice := by decide
theorem k_get_buffer : Gen.Literals.UtilIterator.k_get_buffer = Spec.LiteralsExpected.UtilIterator.k_get_buffer := by decide
theorem k_buffer_length : Gen.Literals.UtilIterator.k_buffer_length = Spec.LiteralsExpected.UtilIterator.k_buffer_length := by decide
theorem k_is_buffer_empty : Gen.Literals.UtilIterator.k_is_buffer_empty = Spec.LiteralsExpected.UtilIterator.k_is_buffer_empty := by decide
theorem k_cursor : Gen.Literals.UtilIterator.k_cursor = Spec.LiteralsExpected.UtilIterator.k_cursor := by decide
theorem k_set_cursor : Gen.Literals.UtilIterator.k_set_cursor = Spec.LiteralsExpected.UtilIterator.k_set_cursor := by decide
theorem k_current_count : Gen.Literals.UtilIterator.k_current_count = Spec.LiteralsExpected.UtilIterator.k_current_count := by decide
theorem k_is_contiguous : Gen.Literals.UtilIterator.k_is_contiguous = Spec.LiteralsExpected.UtilIterator.k_is_contiguous := by decide
theorem k_first : Gen.Literals.UtilIterator.k_first = Spec.LiteralsExpected.UtilIterator.k_first := by decide
theorem k_first_is_cased : Gen.Literals.UtilIterator.k_first_is_cased = Spec.LiteralsExpected.UtilIterator.k_first_is_cased := by decide
theorem k_first_is_uncased : Gen.Literals.UtilIterator.k_first_is_uncased = Spec.LiteralsExpected.UtilIterator.k_first_is_uncased := by decide
theorem k_first_is : Gen.Literals.UtilIterator.k_first_is = Spec.LiteralsExpected.UtilIterator.k_first_is := by decide
theorem k_step_by_unchecked : Gen.Literals.UtilIterator.k_step_by_unchecked = Spec.LiteralsExpected.UtilIterator.k_step_by_unchecked := by decide
theorem k_step_unchecked : Gen.Literals.UtilIterator.k_step_unchecked = Spec.LiteralsExpected.UtilIterator.k_step_unchecked := by decide
theorem k_peek_many_unchecked : Gen.Literals.UtilIterator.k_peek_many_unchecked = Spec.LiteralsExpected.UtilIterator.k_peek_many_unchecked := by decide
theorem k_peek_u32 : Gen.Literals.UtilIterator.k_peek_u32 = Spec.LiteralsExpected.UtilIterator.k_peek_u32 := by decide
theorem k_peek_u64 : Gen.Literals.UtilIterator.k_peek_u64 = Spec.LiteralsExpected.UtilIterator.k_peek_u64 := by decide
theorem k_is_consumed : Gen.Literals.UtilIterator.k_is_consumed = Spec.LiteralsExpected.UtilIterator.k_is_consumed := by decide
theorem k_increment_count : Gen.Literals.UtilIterator.k_increment_count = Spec.LiteralsExpected.UtilIterator.k_increment_count := by decide
theorem k_peek : Gen.Literals.UtilIterator.k_peek = Spec.LiteralsExpected.UtilIterator.k_peek := by decide
theorem k_try_read : Gen.Literals.UtilIterator.k_try_read = Spec.LiteralsExpected.UtilIterator.k_try_read := by decide
theorem k_peek_is_cased : Gen.Literals.UtilIterator.k_peek_is_cased = Spec.LiteralsExpected.UtilIterator.k_peek_is_cased := by decide
theorem k_peek_is_uncased : Gen.Literals.UtilIterator.k_peek_is_uncased = Spec.LiteralsExpected.UtilIterator.k_peek_is_uncased := by decide
theorem k_peek_is : Gen.Literals.UtilIterator.k_peek_is = Spec.LiteralsExpected.UtilIterator.k_peek_is := by decide
theorem k_read_if : Gen.Literals.UtilIterator.k_read_if = Spec.LiteralsExpected.UtilIterator.k_read_if := by decide
theorem k_read_if_value_cased : Gen.Literals.UtilIterator.k_read_if_value_cased = Spec.LiteralsExpected.UtilIterator.k_read_if_value_cased := by decide
theorem k_read_if_value_uncased : Gen.Literals.UtilIterator.k_read_if_value_uncased = Spec.LiteralsExpected.UtilIterator.k_read_if_value_uncased := by decide
theorem k_read_if_value : Gen.Literals.UtilIterator.k_read_if_value = Spec.LiteralsExpected.UtilIterator.k_read_if_value := by decide
theorem k_skip_zeros : Gen.Literals.UtilIterator.k_skip_zeros = Spec.LiteralsExpected.UtilIterator.k_skip_zeros := by decide
theorem k_is_digit : Gen.Literals.UtilIterator.k_is_digit = Spec.LiteralsExpected.UtilIterator.k_is_digit := by decide

end LexVerif.Props.Literals.UtilIterator
