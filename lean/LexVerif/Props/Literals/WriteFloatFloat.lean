import LexVerif.Gen.Literals
import LexVerif.Spec.LiteralsExpected
/-!
# Literals.WriteFloatFloat — lexical-write-float/src/float.rs still has the literals and token shape the models were transcribed from

`Gen.Literals.WriteFloatFloat` is re-extracted from /repo's source text on every run; `Spec.LiteralsExpected.WriteFloatFloat` is the
committed snapshot. One theorem per fn / macro item, so a failing obligation names the item whose source moved;
`items_same` catches added or removed items. (Written by `extractors.literals.snapshot()`.)
-/
namespace LexVerif.Props.Literals.WriteFloatFloat
open LexVerif

theorem items_same : Gen.Literals.WriteFloatFloat.items = Spec.LiteralsExpected.WriteFloatFloat.items := by decide

end LexVerif.Props.Literals.WriteFloatFloat
