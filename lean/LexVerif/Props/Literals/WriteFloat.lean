import LexVerif.Gen.Literals
import LexVerif.Spec.LiteralsExpected
/-!
# Literals.WriteFloat — whitelisted arithmetic kernels of /repo still carry the literals (and token shape) the models
were transcribed from

`Gen.Literals` is re-extracted from /repo's source text on every run (extractors/literals.py: a tokenizer, the
integer literals of each whitelisted function/macro in source order, and a hash of its token sequence with the
literals abstracted). `Spec.LiteralsExpected` is the committed snapshot. One theorem per kernel, so that a failing
obligation names the function whose source moved. (Written by `snapshot()` together with the snapshot.)
-/
namespace LexVerif.Props.Literals.WriteFloat
open LexVerif

theorem write_float_algorithm_compute_nearest_shorter : Gen.Literals.write_float_algorithm_compute_nearest_shorter = Spec.LiteralsExpected.write_float_algorithm_compute_nearest_shorter := by decide
theorem write_float_algorithm_compute_nearest_normal : Gen.Literals.write_float_algorithm_compute_nearest_normal = Spec.LiteralsExpected.write_float_algorithm_compute_nearest_normal := by decide
theorem write_float_algorithm_floor_log2 : Gen.Literals.write_float_algorithm_floor_log2 = Spec.LiteralsExpected.write_float_algorithm_floor_log2 := by decide
theorem write_float_algorithm_floor_log10_pow2 : Gen.Literals.write_float_algorithm_floor_log10_pow2 = Spec.LiteralsExpected.write_float_algorithm_floor_log10_pow2 := by decide
theorem write_float_algorithm_floor_log2_pow10 : Gen.Literals.write_float_algorithm_floor_log2_pow10 = Spec.LiteralsExpected.write_float_algorithm_floor_log2_pow10 := by decide
theorem write_float_algorithm_floor_log5_pow2 : Gen.Literals.write_float_algorithm_floor_log5_pow2 = Spec.LiteralsExpected.write_float_algorithm_floor_log5_pow2 := by decide
theorem write_float_algorithm_floor_log5_pow2_minus_log5_3 : Gen.Literals.write_float_algorithm_floor_log5_pow2_minus_log5_3 = Spec.LiteralsExpected.write_float_algorithm_floor_log5_pow2_minus_log5_3 := by decide
theorem write_float_algorithm_floor_log10_pow2_minus_log10_4_over_3 : Gen.Literals.write_float_algorithm_floor_log10_pow2_minus_log10_4_over_3 = Spec.LiteralsExpected.write_float_algorithm_floor_log10_pow2_minus_log10_4_over_3 := by decide
theorem write_float_algorithm_umul128_upper64 : Gen.Literals.write_float_algorithm_umul128_upper64 = Spec.LiteralsExpected.write_float_algorithm_umul128_upper64 := by decide
theorem write_float_algorithm_umul192_upper128 : Gen.Literals.write_float_algorithm_umul192_upper128 = Spec.LiteralsExpected.write_float_algorithm_umul192_upper128 := by decide
theorem write_float_algorithm_umul192_lower128 : Gen.Literals.write_float_algorithm_umul192_lower128 = Spec.LiteralsExpected.write_float_algorithm_umul192_lower128 := by decide
theorem write_float_algorithm_umul96_upper64 : Gen.Literals.write_float_algorithm_umul96_upper64 = Spec.LiteralsExpected.write_float_algorithm_umul96_upper64 := by decide
theorem write_float_algorithm_umul96_lower64 : Gen.Literals.write_float_algorithm_umul96_lower64 = Spec.LiteralsExpected.write_float_algorithm_umul96_lower64 := by decide
theorem write_float_algorithm_is_endpoint : Gen.Literals.write_float_algorithm_is_endpoint = Spec.LiteralsExpected.write_float_algorithm_is_endpoint := by decide
theorem write_float_algorithm_is_right_endpoint : Gen.Literals.write_float_algorithm_is_right_endpoint = Spec.LiteralsExpected.write_float_algorithm_is_right_endpoint := by decide
theorem write_float_algorithm_is_left_endpoint : Gen.Literals.write_float_algorithm_is_left_endpoint = Spec.LiteralsExpected.write_float_algorithm_is_left_endpoint := by decide
theorem write_float_shared_truncate_and_round_decimal : Gen.Literals.write_float_shared_truncate_and_round_decimal = Spec.LiteralsExpected.write_float_shared_truncate_and_round_decimal := by decide
theorem write_float_shared_round_up : Gen.Literals.write_float_shared_round_up = Spec.LiteralsExpected.write_float_shared_round_up := by decide
theorem write_float_shared_min_exact_digits : Gen.Literals.write_float_shared_min_exact_digits = Spec.LiteralsExpected.write_float_shared_min_exact_digits := by decide
theorem write_float_shared_write_exponent_sign : Gen.Literals.write_float_shared_write_exponent_sign = Spec.LiteralsExpected.write_float_shared_write_exponent_sign := by decide
theorem write_float_binary_calculate_shl : Gen.Literals.write_float_binary_calculate_shl = Spec.LiteralsExpected.write_float_binary_calculate_shl := by decide
theorem write_float_binary_scale_sci_exp : Gen.Literals.write_float_binary_scale_sci_exp = Spec.LiteralsExpected.write_float_binary_scale_sci_exp := by decide
theorem write_float_binary_fast_ceildiv : Gen.Literals.write_float_binary_fast_ceildiv = Spec.LiteralsExpected.write_float_binary_fast_ceildiv := by decide
theorem write_float_binary_inverse_remainder : Gen.Literals.write_float_binary_inverse_remainder = Spec.LiteralsExpected.write_float_binary_inverse_remainder := by decide
theorem write_float_binary_truncate_and_round : Gen.Literals.write_float_binary_truncate_and_round = Spec.LiteralsExpected.write_float_binary_truncate_and_round := by decide
theorem write_float_compact_round_digit : Gen.Literals.write_float_compact_round_digit = Spec.LiteralsExpected.write_float_compact_round_digit := by decide
theorem write_float_compact_generate_digits : Gen.Literals.write_float_compact_generate_digits = Spec.LiteralsExpected.write_float_compact_generate_digits := by decide
theorem write_float_compact_grisu : Gen.Literals.write_float_compact_grisu = Spec.LiteralsExpected.write_float_compact_grisu := by decide
theorem write_float_compact_normalized_boundaries : Gen.Literals.write_float_compact_normalized_boundaries = Spec.LiteralsExpected.write_float_compact_normalized_boundaries := by decide
theorem write_float_options_buffer_size_const : Gen.Literals.write_float_options_buffer_size_const = Spec.LiteralsExpected.write_float_options_buffer_size_const := by decide

end LexVerif.Props.Literals.WriteFloat
