import LexVerif.Gen.Literals
import LexVerif.Spec.LiteralsExpected
/-!
# Literals.ParseFloatParse — lexical-parse-float/src/parse.rs still has the literals and token shape the models were transcribed from

`Gen.Literals.ParseFloatParse` is re-extracted from /repo's source text on every run; `Spec.LiteralsExpected.ParseFloatParse` is the
committed snapshot. One theorem per fn / macro item, so a failing obligation names the item whose source moved;
`items_same` catches added or removed items. (Written by `extractors.literals.snapshot()`.)
-/
namespace LexVerif.Props.Literals.ParseFloatParse
open LexVerif

theorem items_same : Gen.Literals.ParseFloatParse.items = Spec.LiteralsExpected.ParseFloatParse.items := by decide
theorem k_is_power_two_macro : Gen.Literals.ParseFloatParse.k_is_power_two_macro = Spec.LiteralsExpected.ParseFloatParse.k_is_power_two_macro := by decide
theorem k_check_radix_macro : Gen.Literals.ParseFloatParse.k_check_radix_macro = Spec.LiteralsExpected.ParseFloatParse.k_check_radix_macro := by decide
theorem k_parse_complete : Gen.Literals.ParseFloatParse.k_parse_complete = Spec.LiteralsExpected.ParseFloatParse.k_parse_complete := by decide
theorem k_parse_partial : Gen.Literals.ParseFloatParse.k_parse_partial = Spec.LiteralsExpected.ParseFloatParse.k_parse_partial := by decide
theorem k_fast_path_complete : Gen.Literals.ParseFloatParse.k_fast_path_complete = Spec.LiteralsExpected.ParseFloatParse.k_fast_path_complete := by decide
theorem k_fast_path_partial : Gen.Literals.ParseFloatParse.k_fast_path_partial = Spec.LiteralsExpected.ParseFloatParse.k_fast_path_partial := by decide
theorem k_parse_float_impl_macro : Gen.Literals.ParseFloatParse.k_parse_float_impl_macro = Spec.LiteralsExpected.ParseFloatParse.k_parse_float_impl_macro := by decide
theorem k_parse_float_as_f32_macro : Gen.Literals.ParseFloatParse.k_parse_float_as_f32_macro = Spec.LiteralsExpected.ParseFloatParse.k_parse_float_as_f32_macro := by decide
theorem k_parse_mantissa_sign : Gen.Literals.ParseFloatParse.k_parse_mantissa_sign = Spec.LiteralsExpected.ParseFloatParse.k_parse_mantissa_sign := by decide
theorem k_parse_exponent_sign : Gen.Literals.ParseFloatParse.k_parse_exponent_sign = Spec.LiteralsExpected.ParseFloatParse.k_parse_exponent_sign := by decide
theorem k_parse_number_macro : Gen.Literals.ParseFloatParse.k_parse_number_macro = Spec.LiteralsExpected.ParseFloatParse.k_parse_number_macro := by decide
theorem k_to_native_macro : Gen.Literals.ParseFloatParse.k_to_native_macro = Spec.LiteralsExpected.ParseFloatParse.k_to_native_macro := by decide
theorem k_moderate_path : Gen.Literals.ParseFloatParse.k_moderate_path = Spec.LiteralsExpected.ParseFloatParse.k_moderate_path := by decide
theorem k_slow_path : Gen.Literals.ParseFloatParse.k_slow_path = Spec.LiteralsExpected.ParseFloatParse.k_slow_path := by decide
theorem k_parse_number : Gen.Literals.ParseFloatParse.k_parse_number = Spec.LiteralsExpected.ParseFloatParse.k_parse_number := by decide
theorem k_parse_partial_number : Gen.Literals.ParseFloatParse.k_parse_partial_number = Spec.LiteralsExpected.ParseFloatParse.k_parse_partial_number := by decide
theorem k_parse_complete_number : Gen.Literals.ParseFloatParse.k_parse_complete_number = Spec.LiteralsExpected.ParseFloatParse.k_parse_complete_number := by decide
theorem k_parse_digits : Gen.Literals.ParseFloatParse.k_parse_digits = Spec.LiteralsExpected.ParseFloatParse.k_parse_digits := by decide
theorem k_parse_8digits : Gen.Literals.ParseFloatParse.k_parse_8digits = Spec.LiteralsExpected.ParseFloatParse.k_parse_8digits := by decide
theorem k_parse_u64_digits : Gen.Literals.ParseFloatParse.k_parse_u64_digits = Spec.LiteralsExpected.ParseFloatParse.k_parse_u64_digits := by decide
theorem k_is_special_eq : Gen.Literals.ParseFloatParse.k_is_special_eq = Spec.LiteralsExpected.ParseFloatParse.k_is_special_eq := by decide
theorem k_parse_positive_special : Gen.Literals.ParseFloatParse.k_parse_positive_special = Spec.LiteralsExpected.ParseFloatParse.k_parse_positive_special := by decide
theorem k_parse_partial_special : Gen.Literals.ParseFloatParse.k_parse_partial_special = Spec.LiteralsExpected.ParseFloatParse.k_parse_partial_special := by decide
theorem k_parse_special : Gen.Literals.ParseFloatParse.k_parse_special = Spec.LiteralsExpected.ParseFloatParse.k_parse_special := by decide

end LexVerif.Props.Literals.ParseFloatParse
