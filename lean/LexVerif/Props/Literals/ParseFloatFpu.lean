import LexVerif.Gen.Literals
import LexVerif.Spec.LiteralsExpected
/-!
# Literals.ParseFloatFpu — lexical-parse-float/src/fpu.rs still has the literals and token shape the models were transcribed from

`Gen.Literals.ParseFloatFpu` is re-extracted from /repo's source text on every run; `Spec.LiteralsExpected.ParseFloatFpu` is the
committed snapshot. One theorem per fn / macro item, so a failing obligation names the item whose source moved;
`items_same` catches added or removed items. (Written by `extractors.literals.snapshot()`.)
-/
namespace LexVerif.Props.Literals.ParseFloatFpu
open LexVerif

theorem items_same : Gen.Literals.ParseFloatFpu.items = Spec.LiteralsExpected.ParseFloatFpu.items := by decide
theorem k_set_cw : Gen.Literals.ParseFloatFpu.k_set_cw = Spec.LiteralsExpected.ParseFloatFpu.k_set_cw := by decide
theorem k_set_precision : Gen.Literals.ParseFloatFpu.k_set_precision = Spec.LiteralsExpected.ParseFloatFpu.k_set_precision := by decide
theorem k_drop : Gen.Literals.ParseFloatFpu.k_drop = Spec.LiteralsExpected.ParseFloatFpu.k_drop := by decide

end LexVerif.Props.Literals.ParseFloatFpu
