import LexVerif.Gen.Literals
import LexVerif.Spec.LiteralsExpected
/-!
# Literals.WriteIntegerRadix — lexical-write-integer/src/radix.rs still has the literals and token shape the models were transcribed from

`Gen.Literals.WriteIntegerRadix` is re-extracted from /repo's source text on every run; `Spec.LiteralsExpected.WriteIntegerRadix` is the
committed snapshot. One theorem per fn / macro item, so a failing obligation names the item whose source moved;
`items_same` catches added or removed items. (Written by `extractors.literals.snapshot()`.)
-/
namespace LexVerif.Props.Literals.WriteIntegerRadix
open LexVerif

theorem items_same : Gen.Literals.WriteIntegerRadix.items = Spec.LiteralsExpected.WriteIntegerRadix.items := by decide
theorem k_radix : Gen.Literals.WriteIntegerRadix.k_radix = Spec.LiteralsExpected.WriteIntegerRadix.k_radix := by decide
theorem k_radix_impl_macro : Gen.Literals.WriteIntegerRadix.k_radix_impl_macro = Spec.LiteralsExpected.WriteIntegerRadix.k_radix_impl_macro := by decide

end LexVerif.Props.Literals.WriteIntegerRadix
