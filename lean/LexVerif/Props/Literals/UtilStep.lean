import LexVerif.Gen.Literals
import LexVerif.Spec.LiteralsExpected
/-!
# Literals.UtilStep — lexical-util/src/step.rs still has the literals and token shape the models were transcribed from

`Gen.Literals.UtilStep` is re-extracted from /repo's source text on every run; `Spec.LiteralsExpected.UtilStep` is the
committed snapshot. One theorem per fn / macro item, so a failing obligation names the item whose source moved;
`items_same` catches added or removed items. (Written by `extractors.literals.snapshot()`.)
-/
namespace LexVerif.Props.Literals.UtilStep
open LexVerif

theorem items_same : Gen.Literals.UtilStep.items = Spec.LiteralsExpected.UtilStep.items := by decide
theorem k_min_step : Gen.Literals.UtilStep.k_min_step = Spec.LiteralsExpected.UtilStep.k_min_step := by decide
theorem k_max_step : Gen.Literals.UtilStep.k_max_step = Spec.LiteralsExpected.UtilStep.k_max_step := by decide
theorem k_u64_step : Gen.Literals.UtilStep.k_u64_step = Spec.LiteralsExpected.UtilStep.k_u64_step := by decide
theorem k_max_step_2 : Gen.Literals.UtilStep.k_max_step_2 = Spec.LiteralsExpected.UtilStep.k_max_step_2 := by decide
theorem k_min_step_2 : Gen.Literals.UtilStep.k_min_step_2 = Spec.LiteralsExpected.UtilStep.k_min_step_2 := by decide
theorem k_max_step_3 : Gen.Literals.UtilStep.k_max_step_3 = Spec.LiteralsExpected.UtilStep.k_max_step_3 := by decide
theorem k_min_step_3 : Gen.Literals.UtilStep.k_min_step_3 = Spec.LiteralsExpected.UtilStep.k_min_step_3 := by decide
theorem k_max_step_4 : Gen.Literals.UtilStep.k_max_step_4 = Spec.LiteralsExpected.UtilStep.k_max_step_4 := by decide
theorem k_min_step_4 : Gen.Literals.UtilStep.k_min_step_4 = Spec.LiteralsExpected.UtilStep.k_min_step_4 := by decide
theorem k_max_step_5 : Gen.Literals.UtilStep.k_max_step_5 = Spec.LiteralsExpected.UtilStep.k_max_step_5 := by decide
theorem k_min_step_5 : Gen.Literals.UtilStep.k_min_step_5 = Spec.LiteralsExpected.UtilStep.k_min_step_5 := by decide
theorem k_max_step_6 : Gen.Literals.UtilStep.k_max_step_6 = Spec.LiteralsExpected.UtilStep.k_max_step_6 := by decide
theorem k_min_step_6 : Gen.Literals.UtilStep.k_min_step_6 = Spec.LiteralsExpected.UtilStep.k_min_step_6 := by decide
theorem k_max_step_7 : Gen.Literals.UtilStep.k_max_step_7 = Spec.LiteralsExpected.UtilStep.k_max_step_7 := by decide
theorem k_min_step_7 : Gen.Literals.UtilStep.k_min_step_7 = Spec.LiteralsExpected.UtilStep.k_min_step_7 := by decide
theorem k_max_step_8 : Gen.Literals.UtilStep.k_max_step_8 = Spec.LiteralsExpected.UtilStep.k_max_step_8 := by decide
theorem k_min_step_8 : Gen.Literals.UtilStep.k_min_step_8 = Spec.LiteralsExpected.UtilStep.k_min_step_8 := by decide
theorem k_max_step_9 : Gen.Literals.UtilStep.k_max_step_9 = Spec.LiteralsExpected.UtilStep.k_max_step_9 := by decide
theorem k_min_step_9 : Gen.Literals.UtilStep.k_min_step_9 = Spec.LiteralsExpected.UtilStep.k_min_step_9 := by decide
theorem k_max_step_10 : Gen.Literals.UtilStep.k_max_step_10 = Spec.LiteralsExpected.UtilStep.k_max_step_10 := by decide
theorem k_min_step_10 : Gen.Literals.UtilStep.k_min_step_10 = Spec.LiteralsExpected.UtilStep.k_min_step_10 := by decide
theorem k_max_step_11 : Gen.Literals.UtilStep.k_max_step_11 = Spec.LiteralsExpected.UtilStep.k_max_step_11 := by decide
theorem k_min_step_11 : Gen.Literals.UtilStep.k_min_step_11 = Spec.LiteralsExpected.UtilStep.k_min_step_11 := by decide
theorem k_max_step_12 : Gen.Literals.UtilStep.k_max_step_12 = Spec.LiteralsExpected.UtilStep.k_max_step_12 := by decide
theorem k_min_step_12 : Gen.Literals.UtilStep.k_min_step_12 = Spec.LiteralsExpected.UtilStep.k_min_step_12 := by decide
theorem k_max_step_13 : Gen.Literals.UtilStep.k_max_step_13 = Spec.LiteralsExpected.UtilStep.k_max_step_13 := by decide
theorem k_min_step_13 : Gen.Literals.UtilStep.k_min_step_13 = Spec.LiteralsExpected.UtilStep.k_min_step_13 := by decide
theorem k_max_step_14 : Gen.Literals.UtilStep.k_max_step_14 = Spec.LiteralsExpected.UtilStep.k_max_step_14 := by decide
theorem k_min_step_14 : Gen.Literals.UtilStep.k_min_step_14 = Spec.LiteralsExpected.UtilStep.k_min_step_14 := by decide
theorem k_max_step_15 : Gen.Literals.UtilStep.k_max_step_15 = Spec.LiteralsExpected.UtilStep.k_max_step_15 := by decide
theorem k_min_step_15 : Gen.Literals.UtilStep.k_min_step_15 = Spec.LiteralsExpected.UtilStep.k_min_step_15 := by decide
theorem k_max_step_16 : Gen.Literals.UtilStep.k_max_step_16 = Spec.LiteralsExpected.UtilStep.k_max_step_16 := by decide
theorem k_min_step_16 : Gen.Literals.UtilStep.k_min_step_16 = Spec.LiteralsExpected.UtilStep.k_min_step_16 := by decide
theorem k_max_step_17 : Gen.Literals.UtilStep.k_max_step_17 = Spec.LiteralsExpected.UtilStep.k_max_step_17 := by decide
theorem k_min_step_17 : Gen.Literals.UtilStep.k_min_step_17 = Spec.LiteralsExpected.UtilStep.k_min_step_17 := by decide
theorem k_max_step_18 : Gen.Literals.UtilStep.k_max_step_18 = Spec.LiteralsExpected.UtilStep.k_max_step_18 := by decide
theorem k_min_step_18 : Gen.Literals.UtilStep.k_min_step_18 = Spec.LiteralsExpected.UtilStep.k_min_step_18 := by decide
theorem k_max_step_19 : Gen.Literals.UtilStep.k_max_step_19 = Spec.LiteralsExpected.UtilStep.k_max_step_19 := by decide
theorem k_min_step_19 : Gen.Literals.UtilStep.k_min_step_19 = Spec.LiteralsExpected.UtilStep.k_min_step_19 := by decide
theorem k_max_step_20 : Gen.Literals.UtilStep.k_max_step_20 = Spec.LiteralsExpected.UtilStep.k_max_step_20 := by decide
theorem k_min_step_20 : Gen.Literals.UtilStep.k_min_step_20 = Spec.LiteralsExpected.UtilStep.k_min_step_20 := by decide
theorem k_max_step_21 : Gen.Literals.UtilStep.k_max_step_21 = Spec.LiteralsExpected.UtilStep.k_max_step_21 := by decide
theorem k_min_step_21 : Gen.Literals.UtilStep.k_min_step_21 = Spec.LiteralsExpected.UtilStep.k_min_step_21 := by decide
theorem k_max_step_22 : Gen.Literals.UtilStep.k_max_step_22 = Spec.LiteralsExpected.UtilStep.k_max_step_22 := by decide
theorem k_min_step_22 : Gen.Literals.UtilStep.k_min_step_22 = Spec.LiteralsExpected.UtilStep.k_min_step_22 := by decide
theorem k_max_step_23 : Gen.Literals.UtilStep.k_max_step_23 = Spec.LiteralsExpected.UtilStep.k_max_step_23 := by decide
theorem k_min_step_23 : Gen.Literals.UtilStep.k_min_step_23 = Spec.LiteralsExpected.UtilStep.k_min_step_23 := by decide
theorem k_max_step_24 : Gen.Literals.UtilStep.k_max_step_24 = Spec.LiteralsExpected.UtilStep.k_max_step_24 := by decide
theorem k_min_step_24 : Gen.Literals.UtilStep.k_min_step_24 = Spec.LiteralsExpected.UtilStep.k_min_step_24 := by decide
theorem k_max_step_25 : Gen.Literals.UtilStep.k_max_step_25 = Spec.LiteralsExpected.UtilStep.k_max_step_25 := by decide
theorem k_min_step_25 : Gen.Literals.UtilStep.k_min_step_25 = Spec.LiteralsExpected.UtilStep.k_min_step_25 := by decide
theorem k_max_step_26 : Gen.Literals.UtilStep.k_max_step_26 = Spec.LiteralsExpected.UtilStep.k_max_step_26 := by decide
theorem k_min_step_26 : Gen.Literals.UtilStep.k_min_step_26 = Spec.LiteralsExpected.UtilStep.k_min_step_26 := by decide
theorem k_max_step_27 : Gen.Literals.UtilStep.k_max_step_27 = Spec.LiteralsExpected.UtilStep.k_max_step_27 := by decide
theorem k_min_step_27 : Gen.Literals.UtilStep.k_min_step_27 = Spec.LiteralsExpected.UtilStep.k_min_step_27 := by decide
theorem k_max_step_28 : Gen.Literals.UtilStep.k_max_step_28 = Spec.LiteralsExpected.UtilStep.k_max_step_28 := by decide
theorem k_min_step_28 : Gen.Literals.UtilStep.k_min_step_28 = Spec.LiteralsExpected.UtilStep.k_min_step_28 := by decide
theorem k_max_step_29 : Gen.Literals.UtilStep.k_max_step_29 = Spec.LiteralsExpected.UtilStep.k_max_step_29 := by decide
theorem k_min_step_29 : Gen.Literals.UtilStep.k_min_step_29 = Spec.LiteralsExpected.UtilStep.k_min_step_29 := by decide
theorem k_max_step_30 : Gen.Literals.UtilStep.k_max_step_30 = Spec.LiteralsExpected.UtilStep.k_max_step_30 := by decide
theorem k_min_step_30 : Gen.Literals.UtilStep.k_min_step_30 = Spec.LiteralsExpected.UtilStep.k_min_step_30 := by decide
theorem k_max_step_31 : Gen.Literals.UtilStep.k_max_step_31 = Spec.LiteralsExpected.UtilStep.k_max_step_31 := by decide
theorem k_min_step_31 : Gen.Literals.UtilStep.k_min_step_31 = Spec.LiteralsExpected.UtilStep.k_min_step_31 := by decide
theorem k_max_step_32 : Gen.Literals.UtilStep.k_max_step_32 = Spec.LiteralsExpected.UtilStep.k_max_step_32 := by decide
theorem k_min_step_32 : Gen.Literals.UtilStep.k_min_step_32 = Spec.LiteralsExpected.UtilStep.k_min_step_32 := by decide
theorem k_max_step_33 : Gen.Literals.UtilStep.k_max_step_33 = Spec.LiteralsExpected.UtilStep.k_max_step_33 := by decide
theorem k_min_step_33 : Gen.Literals.UtilStep.k_min_step_33 = Spec.LiteralsExpected.UtilStep.k_min_step_33 := by decide
theorem k_max_step_34 : Gen.Literals.UtilStep.k_max_step_34 = Spec.LiteralsExpected.UtilStep.k_max_step_34 := by decide
theorem k_min_step_34 : Gen.Literals.UtilStep.k_min_step_34 = Spec.LiteralsExpected.UtilStep.k_min_step_34 := by decide
theorem k_max_step_35 : Gen.Literals.UtilStep.k_max_step_35 = Spec.LiteralsExpected.UtilStep.k_max_step_35 := by decide
theorem k_min_step_35 : Gen.Literals.UtilStep.k_min_step_35 = Spec.LiteralsExpected.UtilStep.k_min_step_35 := by decide
theorem k_max_step_36 : Gen.Literals.UtilStep.k_max_step_36 = Spec.LiteralsExpected.UtilStep.k_max_step_36 := by decide
theorem k_min_step_36 : Gen.Literals.UtilStep.k_min_step_36 = Spec.LiteralsExpected.UtilStep.k_min_step_36 := by decide

end LexVerif.Props.Literals.UtilStep
