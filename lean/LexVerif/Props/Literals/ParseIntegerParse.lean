import LexVerif.Gen.Literals
import LexVerif.Spec.LiteralsExpected
/-!
# Literals.ParseIntegerParse — lexical-parse-integer/src/parse.rs still has the literals and token shape the models were transcribed from

`Gen.Literals.ParseIntegerParse` is re-extracted from /repo's source text on every run; `Spec.LiteralsExpected.ParseIntegerParse` is the
committed snapshot. One theorem per fn / macro item, so a failing obligation names the item whose source moved;
`items_same` catches added or removed items. (Written by `extractors.literals.snapshot()`.)
-/
namespace LexVerif.Props.Literals.ParseIntegerParse
open LexVerif

theorem items_same : Gen.Literals.ParseIntegerParse.items = Spec.LiteralsExpected.ParseIntegerParse.items := by decide
theorem k_parse_complete : Gen.Literals.ParseIntegerParse.k_parse_complete = Spec.LiteralsExpected.ParseIntegerParse.k_parse_complete := by decide
theorem k_parse_partial : Gen.Literals.ParseIntegerParse.k_parse_partial = Spec.LiteralsExpected.ParseIntegerParse.k_parse_partial := by decide
theorem k_parse_integer_impl_macro : Gen.Literals.ParseIntegerParse.k_parse_integer_impl_macro = Spec.LiteralsExpected.ParseIntegerParse.k_parse_integer_impl_macro := by decide

end LexVerif.Props.Literals.ParseIntegerParse
