import LexVerif.Gen.Literals
import LexVerif.Spec.LiteralsExpected
/-!
# Literals.UtilOptions — lexical-util/src/options.rs still has the literals and token shape the models were transcribed from

`Gen.Literals.UtilOptions` is re-extracted from /repo's source text on every run; `Spec.LiteralsExpected.UtilOptions` is the
committed snapshot. One theorem per fn / macro item, so a failing obligation names the item whose source moved;
`items_same` catches added or removed items. (Written by `extractors.literals.snapshot()`.)
-/
namespace LexVerif.Props.Literals.UtilOptions
open LexVerif

theorem items_same : Gen.Literals.UtilOptions.items = Spec.LiteralsExpected.UtilOptions.items := by decide
theorem k_write_options_doc_macro : Gen.Literals.UtilOptions.k_write_options_doc_macro = Spec.LiteralsExpected.UtilOptions.k_write_options_doc_macro := by decide
theorem k_is_valid : Gen.Literals.UtilOptions.k_is_valid = Spec.LiteralsExpected.UtilOptions.k_is_valid := by decide
theorem k_buffer_size : Gen.Literals.UtilOptions.k_buffer_size = Spec.LiteralsExpected.UtilOptions.k_buffer_size := by decide
theorem k_literal_macro : Gen.Literals.UtilOptions.k_literal_macro = Spec.LiteralsExpected.UtilOptions.k_literal_macro := by decide

end LexVerif.Props.Literals.UtilOptions
