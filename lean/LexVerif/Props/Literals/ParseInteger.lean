import LexVerif.Gen.Literals
import LexVerif.Spec.LiteralsExpected
/-!
# Literals.ParseInteger — whitelisted arithmetic kernels of /repo still carry the literals (and token shape) the models
were transcribed from

`Gen.Literals` is re-extracted from /repo's source text on every run (extractors/literals.py: a tokenizer, the
integer literals of each whitelisted function/macro in source order, and a hash of its token sequence with the
literals abstracted). `Spec.LiteralsExpected` is the committed snapshot. One theorem per kernel, so that a failing
obligation names the function whose source moved. (Written by `snapshot()` together with the snapshot.)
-/
namespace LexVerif.Props.Literals.ParseInteger
open LexVerif

theorem parse_integer_algorithm_is_4digits : Gen.Literals.parse_integer_algorithm_is_4digits = Spec.LiteralsExpected.parse_integer_algorithm_is_4digits := by decide
theorem parse_integer_algorithm_parse_4digits : Gen.Literals.parse_integer_algorithm_parse_4digits = Spec.LiteralsExpected.parse_integer_algorithm_parse_4digits := by decide
theorem parse_integer_algorithm_is_8digits : Gen.Literals.parse_integer_algorithm_is_8digits = Spec.LiteralsExpected.parse_integer_algorithm_is_8digits := by decide
theorem parse_integer_algorithm_parse_8digits : Gen.Literals.parse_integer_algorithm_parse_8digits = Spec.LiteralsExpected.parse_integer_algorithm_parse_8digits := by decide
theorem parse_integer_algorithm_can_try_parse_multidigits : Gen.Literals.parse_integer_algorithm_can_try_parse_multidigits = Spec.LiteralsExpected.parse_integer_algorithm_can_try_parse_multidigits := by decide

end LexVerif.Props.Literals.ParseInteger
