import LexVerif.Gen.Literals
import LexVerif.Spec.LiteralsExpected
/-!
# Literals.UtilMul — lexical-util/src/mul.rs still has the literals and token shape the models were transcribed from

`Gen.Literals.UtilMul` is re-extracted from /repo's source text on every run; `Spec.LiteralsExpected.UtilMul` is the
committed snapshot. One theorem per fn / macro item, so a failing obligation names the item whose source moved;
`items_same` catches added or removed items. (Written by `extractors.literals.snapshot()`.)
-/
namespace LexVerif.Props.Literals.UtilMul
open LexVerif

theorem items_same : Gen.Literals.UtilMul.items = Spec.LiteralsExpected.UtilMul.items := by decide
theorem k_mul : Gen.Literals.UtilMul.k_mul = Spec.LiteralsExpected.UtilMul.k_mul := by decide
theorem k_mulhi : Gen.Literals.UtilMul.k_mulhi = Spec.LiteralsExpected.UtilMul.k_mulhi := by decide

end LexVerif.Props.Literals.UtilMul
