import LexVerif.Gen.Literals
import LexVerif.Spec.LiteralsExpected
/-!
# Literals.WriteFloatRadix — lexical-write-float/src/radix.rs still has the literals and token shape the models were transcribed from

`Gen.Literals.WriteFloatRadix` is re-extracted from /repo's source text on every run; `Spec.LiteralsExpected.WriteFloatRadix` is the
committed snapshot. One theorem per fn / macro item, so a failing obligation names the item whose source moved;
`items_same` catches added or removed items. (Written by `extractors.literals.snapshot()`.)
-/
namespace LexVerif.Props.Literals.WriteFloatRadix
open LexVerif

theorem items_same : Gen.Literals.WriteFloatRadix.items = Spec.LiteralsExpected.WriteFloatRadix.items := by decide
theorem k_write_float : Gen.Literals.WriteFloatRadix.k_write_float = Spec.LiteralsExpected.WriteFloatRadix.k_write_float := by decide
theorem k_write_float_scientific : Gen.Literals.WriteFloatRadix.k_write_float_scientific = Spec.LiteralsExpected.WriteFloatRadix.k_write_float_scientific := by decide
theorem k_write_float_nonscientific : Gen.Literals.WriteFloatRadix.k_write_float_nonscientific = Spec.LiteralsExpected.WriteFloatRadix.k_write_float_nonscientific := by decide
theorem k_truncate_and_round : Gen.Literals.WriteFloatRadix.k_truncate_and_round = Spec.LiteralsExpected.WriteFloatRadix.k_truncate_and_round := by decide

end LexVerif.Props.Literals.WriteFloatRadix
