import LexVerif.Gen.Literals
import LexVerif.Spec.LiteralsExpected
/-!
# Literals.ParseFloatNumber — lexical-parse-float/src/number.rs still has the literals and token shape the models were transcribed from

`Gen.Literals.ParseFloatNumber` is re-extracted from /repo's source text on every run; `Spec.LiteralsExpected.ParseFloatNumber` is the
committed snapshot. One theorem per fn / macro item, so a failing obligation names the item whose source moved;
`items_same` catches added or removed items. (Written by `extractors.literals.snapshot()`.)
-/
namespace LexVerif.Props.Literals.ParseFloatNumber
open LexVerif

theorem items_same : Gen.Literals.ParseFloatNumber.items = Spec.LiteralsExpected.ParseFloatNumber.items := by decide
theorem k_is_fast_path : Gen.Literals.ParseFloatNumber.k_is_fast_path = Spec.LiteralsExpected.ParseFloatNumber.k_is_fast_path := by decide
theorem k_try_fast_path : Gen.Literals.ParseFloatNumber.k_try_fast_path = Spec.LiteralsExpected.ParseFloatNumber.k_try_fast_path := by decide
theorem k_force_fast_path : Gen.Literals.ParseFloatNumber.k_force_fast_path = Spec.LiteralsExpected.ParseFloatNumber.k_force_fast_path := by decide

end LexVerif.Props.Literals.ParseFloatNumber
