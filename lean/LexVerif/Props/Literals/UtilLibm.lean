import LexVerif.Gen.Literals
import LexVerif.Spec.LiteralsExpected
/-!
# Literals.UtilLibm — lexical-util/src/libm.rs still has the literals and token shape the models were transcribed from

`Gen.Literals.UtilLibm` is re-extracted from /repo's source text on every run; `Spec.LiteralsExpected.UtilLibm` is the
committed snapshot. One theorem per fn / macro item, so a failing obligation names the item whose source moved;
`items_same` catches added or removed items. (Written by `extractors.literals.snapshot()`.)
-/
namespace LexVerif.Props.Literals.UtilLibm
open LexVerif

theorem items_same : Gen.Literals.UtilLibm.items = Spec.LiteralsExpected.UtilLibm.items := by decide
theorem k_volatile_macro : Gen.Literals.UtilLibm.k_volatile_macro = Spec.LiteralsExpected.UtilLibm.k_volatile_macro := by decide
theorem k_floord : Gen.Literals.UtilLibm.k_floord = Spec.LiteralsExpected.UtilLibm.k_floord := by decide
theorem k_floorf : Gen.Literals.UtilLibm.k_floorf = Spec.LiteralsExpected.UtilLibm.k_floorf := by decide
theorem k_logd : Gen.Literals.UtilLibm.k_logd = Spec.LiteralsExpected.UtilLibm.k_logd := by decide
theorem k_logf : Gen.Literals.UtilLibm.k_logf = Spec.LiteralsExpected.UtilLibm.k_logf := by decide

end LexVerif.Props.Literals.UtilLibm
