import LexVerif.Gen.Literals
import LexVerif.Spec.LiteralsExpected
/-!
# Literals.UtilNum — lexical-util/src/num.rs still has the literals and token shape the models were transcribed from

`Gen.Literals.UtilNum` is re-extracted from /repo's source text on every run; `Spec.LiteralsExpected.UtilNum` is the
committed snapshot. One theorem per fn / macro item, so a failing obligation names the item whose source moved;
`items_same` catches added or removed items. (Written by `extractors.literals.snapshot()`.)
-/
namespace LexVerif.Props.Literals.UtilNum
open LexVerif

theorem items_same : Gen.Literals.UtilNum.items = Spec.LiteralsExpected.UtilNum.items := by decide
theorem k_as_u8 : Gen.Literals.UtilNum.k_as_u8 = Spec.LiteralsExpected.UtilNum.k_as_u8 := by decide
theorem k_as_u16 : Gen.Literals.UtilNum.k_as_u16 = Spec.LiteralsExpected.UtilNum.k_as_u16 := by decide
theorem k_as_u32 : Gen.Literals.UtilNum.k_as_u32 = Spec.LiteralsExpected.UtilNum.k_as_u32 := by decide
theorem k_as_u64 : Gen.Literals.UtilNum.k_as_u64 = Spec.LiteralsExpected.UtilNum.k_as_u64 := by decide
theorem k_as_u128 : Gen.Literals.UtilNum.k_as_u128 = Spec.LiteralsExpected.UtilNum.k_as_u128 := by decide
theorem k_as_usize : Gen.Literals.UtilNum.k_as_usize = Spec.LiteralsExpected.UtilNum.k_as_usize := by decide
theorem k_as_i8 : Gen.Literals.UtilNum.k_as_i8 = Spec.LiteralsExpected.UtilNum.k_as_i8 := by decide
theorem k_as_i16 : Gen.Literals.UtilNum.k_as_i16 = Spec.LiteralsExpected.UtilNum.k_as_i16 := by decide
theorem k_as_i32 : Gen.Literals.UtilNum.k_as_i32 = Spec.LiteralsExpected.UtilNum.k_as_i32 := by decide
theorem k_as_i64 : Gen.Literals.UtilNum.k_as_i64 = Spec.LiteralsExpected.UtilNum.k_as_i64 := by decide
theorem k_as_i128 : Gen.Literals.UtilNum.k_as_i128 = Spec.LiteralsExpected.UtilNum.k_as_i128 := by decide
theorem k_as_isize : Gen.Literals.UtilNum.k_as_isize = Spec.LiteralsExpected.UtilNum.k_as_isize := by decide
theorem k_as_f32 : Gen.Literals.UtilNum.k_as_f32 = Spec.LiteralsExpected.UtilNum.k_as_f32 := by decide
theorem k_as_f64 : Gen.Literals.UtilNum.k_as_f64 = Spec.LiteralsExpected.UtilNum.k_as_f64 := by decide
theorem k_from_u32 : Gen.Literals.UtilNum.k_from_u32 = Spec.LiteralsExpected.UtilNum.k_from_u32 := by decide
theorem k_from_u64 : Gen.Literals.UtilNum.k_from_u64 = Spec.LiteralsExpected.UtilNum.k_from_u64 := by decide
theorem k_as_f16 : Gen.Literals.UtilNum.k_as_f16 = Spec.LiteralsExpected.UtilNum.k_as_f16 := by decide
theorem k_as_bf16 : Gen.Literals.UtilNum.k_as_bf16 = Spec.LiteralsExpected.UtilNum.k_as_bf16 := by decide
theorem k_as_primitive_macro : Gen.Literals.UtilNum.k_as_primitive_macro = Spec.LiteralsExpected.UtilNum.k_as_primitive_macro := by decide
theorem k_half_as_primitive_macro : Gen.Literals.UtilNum.k_half_as_primitive_macro = Spec.LiteralsExpected.UtilNum.k_half_as_primitive_macro := by decide
theorem k_as_cast : Gen.Literals.UtilNum.k_as_cast = Spec.LiteralsExpected.UtilNum.k_as_cast := by decide
theorem k_as_cast_macro : Gen.Literals.UtilNum.k_as_cast_macro = Spec.LiteralsExpected.UtilNum.k_as_cast_macro := by decide
theorem k_primitive_macro : Gen.Literals.UtilNum.k_primitive_macro = Spec.LiteralsExpected.UtilNum.k_primitive_macro := by decide
theorem k_number_impl_macro : Gen.Literals.UtilNum.k_number_impl_macro = Spec.LiteralsExpected.UtilNum.k_number_impl_macro := by decide
theorem k_leading_zeros : Gen.Literals.UtilNum.k_leading_zeros = Spec.LiteralsExpected.UtilNum.k_leading_zeros := by decide
theorem k_trailing_zeros : Gen.Literals.UtilNum.k_trailing_zeros = Spec.LiteralsExpected.UtilNum.k_trailing_zeros := by decide
theorem k_pow : Gen.Literals.UtilNum.k_pow = Spec.LiteralsExpected.UtilNum.k_pow := by decide
theorem k_checked_pow : Gen.Literals.UtilNum.k_checked_pow = Spec.LiteralsExpected.UtilNum.k_checked_pow := by decide
theorem k_overflowing_pow : Gen.Literals.UtilNum.k_overflowing_pow = Spec.LiteralsExpected.UtilNum.k_overflowing_pow := by decide
theorem k_checked_add : Gen.Literals.UtilNum.k_checked_add = Spec.LiteralsExpected.UtilNum.k_checked_add := by decide
theorem k_checked_sub : Gen.Literals.UtilNum.k_checked_sub = Spec.LiteralsExpected.UtilNum.k_checked_sub := by decide
theorem k_checked_mul : Gen.Literals.UtilNum.k_checked_mul = Spec.LiteralsExpected.UtilNum.k_checked_mul := by decide
theorem k_overflowing_add : Gen.Literals.UtilNum.k_overflowing_add = Spec.LiteralsExpected.UtilNum.k_overflowing_add := by decide
theorem k_overflowing_sub : Gen.Literals.UtilNum.k_overflowing_sub = Spec.LiteralsExpected.UtilNum.k_overflowing_sub := by decide
theorem k_overflowing_mul : Gen.Literals.UtilNum.k_overflowing_mul = Spec.LiteralsExpected.UtilNum.k_overflowing_mul := by decide
theorem k_wrapping_add : Gen.Literals.UtilNum.k_wrapping_add = Spec.LiteralsExpected.UtilNum.k_wrapping_add := by decide
theorem k_wrapping_sub : Gen.Literals.UtilNum.k_wrapping_sub = Spec.LiteralsExpected.UtilNum.k_wrapping_sub := by decide
theorem k_wrapping_mul : Gen.Literals.UtilNum.k_wrapping_mul = Spec.LiteralsExpected.UtilNum.k_wrapping_mul := by decide
theorem k_wrapping_neg : Gen.Literals.UtilNum.k_wrapping_neg = Spec.LiteralsExpected.UtilNum.k_wrapping_neg := by decide
theorem k_saturating_add : Gen.Literals.UtilNum.k_saturating_add = Spec.LiteralsExpected.UtilNum.k_saturating_add := by decide
theorem k_saturating_sub : Gen.Literals.UtilNum.k_saturating_sub = Spec.LiteralsExpected.UtilNum.k_saturating_sub := by decide
theorem k_saturating_mul : Gen.Literals.UtilNum.k_saturating_mul = Spec.LiteralsExpected.UtilNum.k_saturating_mul := by decide
theorem k_ceil_divmod : Gen.Literals.UtilNum.k_ceil_divmod = Spec.LiteralsExpected.UtilNum.k_ceil_divmod := by decide
theorem k_ceil_div : Gen.Literals.UtilNum.k_ceil_div = Spec.LiteralsExpected.UtilNum.k_ceil_div := by decide
theorem k_ceil_mod : Gen.Literals.UtilNum.k_ceil_mod = Spec.LiteralsExpected.UtilNum.k_ceil_mod := by decide
theorem k_bit_length : Gen.Literals.UtilNum.k_bit_length = Spec.LiteralsExpected.UtilNum.k_bit_length := by decide
theorem k_is_odd : Gen.Literals.UtilNum.k_is_odd = Spec.LiteralsExpected.UtilNum.k_is_odd := by decide
theorem k_is_even : Gen.Literals.UtilNum.k_is_even = Spec.LiteralsExpected.UtilNum.k_is_even := by decide
theorem k_overflow_digits : Gen.Literals.UtilNum.k_overflow_digits = Spec.LiteralsExpected.UtilNum.k_overflow_digits := by decide
theorem k_integer_impl_macro : Gen.Literals.UtilNum.k_integer_impl_macro = Spec.LiteralsExpected.UtilNum.k_integer_impl_macro := by decide
theorem k_signed_integer_impl_macro : Gen.Literals.UtilNum.k_signed_integer_impl_macro = Spec.LiteralsExpected.UtilNum.k_signed_integer_impl_macro := by decide
theorem k_unsigned_integer_impl_macro : Gen.Literals.UtilNum.k_unsigned_integer_impl_macro = Spec.LiteralsExpected.UtilNum.k_unsigned_integer_impl_macro := by decide
theorem k_to_bits : Gen.Literals.UtilNum.k_to_bits = Spec.LiteralsExpected.UtilNum.k_to_bits := by decide
theorem k_from_bits : Gen.Literals.UtilNum.k_from_bits = Spec.LiteralsExpected.UtilNum.k_from_bits := by decide
theorem k_ln : Gen.Literals.UtilNum.k_ln = Spec.LiteralsExpected.UtilNum.k_ln := by decide
theorem k_floor : Gen.Literals.UtilNum.k_floor = Spec.LiteralsExpected.UtilNum.k_floor := by decide
theorem k_is_sign_positive : Gen.Literals.UtilNum.k_is_sign_positive = Spec.LiteralsExpected.UtilNum.k_is_sign_positive := by decide
theorem k_is_sign_negative : Gen.Literals.UtilNum.k_is_sign_negative = Spec.LiteralsExpected.UtilNum.k_is_sign_negative := by decide
theorem k_is_denormal : Gen.Literals.UtilNum.k_is_denormal = Spec.LiteralsExpected.UtilNum.k_is_denormal := by decide
theorem k_is_special : Gen.Literals.UtilNum.k_is_special = Spec.LiteralsExpected.UtilNum.k_is_special := by decide
theorem k_is_nan : Gen.Literals.UtilNum.k_is_nan = Spec.LiteralsExpected.UtilNum.k_is_nan := by decide
theorem k_is_inf : Gen.Literals.UtilNum.k_is_inf = Spec.LiteralsExpected.UtilNum.k_is_inf := by decide
theorem k_needs_negative_sign : Gen.Literals.UtilNum.k_needs_negative_sign = Spec.LiteralsExpected.UtilNum.k_needs_negative_sign := by decide
theorem k_exponent : Gen.Literals.UtilNum.k_exponent = Spec.LiteralsExpected.UtilNum.k_exponent := by decide
theorem k_mantissa : Gen.Literals.UtilNum.k_mantissa = Spec.LiteralsExpected.UtilNum.k_mantissa := by decide
theorem k_next : Gen.Literals.UtilNum.k_next = Spec.LiteralsExpected.UtilNum.k_next := by decide
theorem k_next_positive : Gen.Literals.UtilNum.k_next_positive = Spec.LiteralsExpected.UtilNum.k_next_positive := by decide
theorem k_prev : Gen.Literals.UtilNum.k_prev = Spec.LiteralsExpected.UtilNum.k_prev := by decide
theorem k_prev_positive : Gen.Literals.UtilNum.k_prev_positive = Spec.LiteralsExpected.UtilNum.k_prev_positive := by decide
theorem k_round_positive_even : Gen.Literals.UtilNum.k_round_positive_even = Spec.LiteralsExpected.UtilNum.k_round_positive_even := by decide
theorem k_max_finite : Gen.Literals.UtilNum.k_max_finite = Spec.LiteralsExpected.UtilNum.k_max_finite := by decide
theorem k_min_finite : Gen.Literals.UtilNum.k_min_finite = Spec.LiteralsExpected.UtilNum.k_min_finite := by decide
theorem k_float_literals_macro : Gen.Literals.UtilNum.k_float_literals_macro = Spec.LiteralsExpected.UtilNum.k_float_literals_macro := by decide
theorem k_float_masks_macro : Gen.Literals.UtilNum.k_float_masks_macro = Spec.LiteralsExpected.UtilNum.k_float_masks_macro := by decide
theorem k_float_one_macro : Gen.Literals.UtilNum.k_float_one_macro = Spec.LiteralsExpected.UtilNum.k_float_one_macro := by decide
theorem k_float_two_macro : Gen.Literals.UtilNum.k_float_two_macro = Spec.LiteralsExpected.UtilNum.k_float_two_macro := by decide
theorem k_float_max_macro : Gen.Literals.UtilNum.k_float_max_macro = Spec.LiteralsExpected.UtilNum.k_float_max_macro := by decide
theorem k_float_min_macro : Gen.Literals.UtilNum.k_float_min_macro = Spec.LiteralsExpected.UtilNum.k_float_min_macro := by decide
theorem k_float_nan_macro : Gen.Literals.UtilNum.k_float_nan_macro = Spec.LiteralsExpected.UtilNum.k_float_nan_macro := by decide

end LexVerif.Props.Literals.UtilNum
