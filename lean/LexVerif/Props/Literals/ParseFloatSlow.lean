import LexVerif.Gen.Literals
import LexVerif.Spec.LiteralsExpected
/-!
# Literals.ParseFloatSlow — lexical-parse-float/src/slow.rs still has the literals and token shape the models were transcribed from

`Gen.Literals.ParseFloatSlow` is re-extracted from /repo's source text on every run; `Spec.LiteralsExpected.ParseFloatSlow` is the
committed snapshot. One theorem per fn / macro item, so a failing obligation names the item whose source moved;
`items_same` catches added or removed items. (Written by `extractors.literals.snapshot()`.)
-/
namespace LexVerif.Props.Literals.ParseFloatSlow
open LexVerif

theorem items_same : Gen.Literals.ParseFloatSlow.items = Spec.LiteralsExpected.ParseFloatSlow.items := by decide
theorem k_slow_radix : Gen.Literals.ParseFloatSlow.k_slow_radix = Spec.LiteralsExpected.ParseFloatSlow.k_slow_radix := by decide
theorem k_digit_comp : Gen.Literals.ParseFloatSlow.k_digit_comp = Spec.LiteralsExpected.ParseFloatSlow.k_digit_comp := by decide
theorem k_positive_digit_comp : Gen.Literals.ParseFloatSlow.k_positive_digit_comp = Spec.LiteralsExpected.ParseFloatSlow.k_positive_digit_comp := by decide
theorem k_negative_digit_comp : Gen.Literals.ParseFloatSlow.k_negative_digit_comp = Spec.LiteralsExpected.ParseFloatSlow.k_negative_digit_comp := by decide
theorem k_try_parse_8digits_macro : Gen.Literals.ParseFloatSlow.k_try_parse_8digits_macro = Spec.LiteralsExpected.ParseFloatSlow.k_try_parse_8digits_macro := by decide
theorem k_add_digit_macro : Gen.Literals.ParseFloatSlow.k_add_digit_macro = Spec.LiteralsExpected.ParseFloatSlow.k_add_digit_macro := by decide
theorem k_add_temporary_macro : Gen.Literals.ParseFloatSlow.k_add_temporary_macro = Spec.LiteralsExpected.ParseFloatSlow.k_add_temporary_macro := by decide
theorem k_round_up_truncated_macro : Gen.Literals.ParseFloatSlow.k_round_up_truncated_macro = Spec.LiteralsExpected.ParseFloatSlow.k_round_up_truncated_macro := by decide
theorem k_round_up_nonzero_macro : Gen.Literals.ParseFloatSlow.k_round_up_nonzero_macro = Spec.LiteralsExpected.ParseFloatSlow.k_round_up_nonzero_macro := by decide
theorem k_parse_mantissa : Gen.Literals.ParseFloatSlow.k_parse_mantissa = Spec.LiteralsExpected.ParseFloatSlow.k_parse_mantissa := by decide
theorem k_integer_compare_macro : Gen.Literals.ParseFloatSlow.k_integer_compare_macro = Spec.LiteralsExpected.ParseFloatSlow.k_integer_compare_macro := by decide
theorem k_fraction_compare_macro : Gen.Literals.ParseFloatSlow.k_fraction_compare_macro = Spec.LiteralsExpected.ParseFloatSlow.k_fraction_compare_macro := by decide
theorem k_byte_comp : Gen.Literals.ParseFloatSlow.k_byte_comp = Spec.LiteralsExpected.ParseFloatSlow.k_byte_comp := by decide
theorem k_compare_bytes : Gen.Literals.ParseFloatSlow.k_compare_bytes = Spec.LiteralsExpected.ParseFloatSlow.k_compare_bytes := by decide
theorem k_scientific_exponent : Gen.Literals.ParseFloatSlow.k_scientific_exponent = Spec.LiteralsExpected.ParseFloatSlow.k_scientific_exponent := by decide
theorem k_b : Gen.Literals.ParseFloatSlow.k_b = Spec.LiteralsExpected.ParseFloatSlow.k_b := by decide
theorem k_bh : Gen.Literals.ParseFloatSlow.k_bh = Spec.LiteralsExpected.ParseFloatSlow.k_bh := by decide
theorem k_integral_binary_factor : Gen.Literals.ParseFloatSlow.k_integral_binary_factor = Spec.LiteralsExpected.ParseFloatSlow.k_integral_binary_factor := by decide

end LexVerif.Props.Literals.ParseFloatSlow
