import LexVerif.Gen.Literals
import LexVerif.Spec.LiteralsExpected
/-!
# Literals.UtilAlgorithm — lexical-util/src/algorithm.rs still has the literals and token shape the models were transcribed from

`Gen.Literals.UtilAlgorithm` is re-extracted from /repo's source text on every run; `Spec.LiteralsExpected.UtilAlgorithm` is the
committed snapshot. One theorem per fn / macro item, so a failing obligation names the item whose source moved;
`items_same` catches added or removed items. (Written by `extractors.literals.snapshot()`.)
-/
namespace LexVerif.Props.Literals.UtilAlgorithm
open LexVerif

theorem items_same : Gen.Literals.UtilAlgorithm.items = Spec.LiteralsExpected.UtilAlgorithm.items := by decide
theorem k_copy_to_dst : Gen.Literals.UtilAlgorithm.k_copy_to_dst = Spec.LiteralsExpected.UtilAlgorithm.k_copy_to_dst := by decide
theorem k_rtrim_char_count : Gen.Literals.UtilAlgorithm.k_rtrim_char_count = Spec.LiteralsExpected.UtilAlgorithm.k_rtrim_char_count := by decide
theorem k_ltrim_char_count : Gen.Literals.UtilAlgorithm.k_ltrim_char_count = Spec.LiteralsExpected.UtilAlgorithm.k_ltrim_char_count := by decide
theorem k_cannot_overflow : Gen.Literals.UtilAlgorithm.k_cannot_overflow = Spec.LiteralsExpected.UtilAlgorithm.k_cannot_overflow := by decide

end LexVerif.Props.Literals.UtilAlgorithm
