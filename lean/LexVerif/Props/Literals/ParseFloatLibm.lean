import LexVerif.Gen.Literals
import LexVerif.Spec.LiteralsExpected
/-!
# Literals.ParseFloatLibm — lexical-parse-float/src/libm.rs still has the literals and token shape the models were transcribed from

`Gen.Literals.ParseFloatLibm` is re-extracted from /repo's source text on every run; `Spec.LiteralsExpected.ParseFloatLibm` is the
committed snapshot. One theorem per fn / macro item, so a failing obligation names the item whose source moved;
`items_same` catches added or removed items. (Written by `extractors.literals.snapshot()`.)
-/
namespace LexVerif.Props.Literals.ParseFloatLibm
open LexVerif

theorem items_same : Gen.Literals.ParseFloatLibm.items = Spec.LiteralsExpected.ParseFloatLibm.items := by decide
theorem k_i_macro : Gen.Literals.ParseFloatLibm.k_i_macro = Spec.LiteralsExpected.ParseFloatLibm.k_i_macro := by decide
theorem k_powf : Gen.Literals.ParseFloatLibm.k_powf = Spec.LiteralsExpected.ParseFloatLibm.k_powf := by decide
theorem k_sqrtf : Gen.Literals.ParseFloatLibm.k_sqrtf = Spec.LiteralsExpected.ParseFloatLibm.k_sqrtf := by decide
theorem k_fabsf : Gen.Literals.ParseFloatLibm.k_fabsf = Spec.LiteralsExpected.ParseFloatLibm.k_fabsf := by decide
theorem k_scalbnf : Gen.Literals.ParseFloatLibm.k_scalbnf = Spec.LiteralsExpected.ParseFloatLibm.k_scalbnf := by decide
theorem k_powd : Gen.Literals.ParseFloatLibm.k_powd = Spec.LiteralsExpected.ParseFloatLibm.k_powd := by decide
theorem k_fabsd : Gen.Literals.ParseFloatLibm.k_fabsd = Spec.LiteralsExpected.ParseFloatLibm.k_fabsd := by decide
theorem k_scalbnd : Gen.Literals.ParseFloatLibm.k_scalbnd = Spec.LiteralsExpected.ParseFloatLibm.k_scalbnd := by decide
theorem k_sqrtd : Gen.Literals.ParseFloatLibm.k_sqrtd = Spec.LiteralsExpected.ParseFloatLibm.k_sqrtd := by decide
theorem k_get_high_word : Gen.Literals.ParseFloatLibm.k_get_high_word = Spec.LiteralsExpected.ParseFloatLibm.k_get_high_word := by decide
theorem k_with_set_high_word : Gen.Literals.ParseFloatLibm.k_with_set_high_word = Spec.LiteralsExpected.ParseFloatLibm.k_with_set_high_word := by decide
theorem k_with_set_low_word : Gen.Literals.ParseFloatLibm.k_with_set_low_word = Spec.LiteralsExpected.ParseFloatLibm.k_with_set_low_word := by decide

end LexVerif.Props.Literals.ParseFloatLibm
