import LexVerif.Gen.Literals
import LexVerif.Spec.LiteralsExpected
/-!
# Literals.CoreLib — lexical-core/src/lib.rs still has the literals and token shape the models were transcribed from

`Gen.Literals.CoreLib` is re-extracted from /repo's source text on every run; `Spec.LiteralsExpected.CoreLib` is the
committed snapshot. One theorem per fn / macro item, so a failing obligation names the item whose source moved;
`items_same` catches added or removed items. (Written by `extractors.literals.snapshot()`.)
-/
namespace LexVerif.Props.Literals.CoreLib
open LexVerif

theorem items_same : Gen.Literals.CoreLib.items = Spec.LiteralsExpected.CoreLib.items := by decide
theorem k_from_lexical_impl_macro : Gen.Literals.CoreLib.k_from_lexical_impl_macro = Spec.LiteralsExpected.CoreLib.k_from_lexical_impl_macro := by decide
theorem k_from_lexical : Gen.Literals.CoreLib.k_from_lexical = Spec.LiteralsExpected.CoreLib.k_from_lexical := by decide
theorem k_from_lexical_partial : Gen.Literals.CoreLib.k_from_lexical_partial = Spec.LiteralsExpected.CoreLib.k_from_lexical_partial := by decide
theorem k_from_lexical_with_options : Gen.Literals.CoreLib.k_from_lexical_with_options = Spec.LiteralsExpected.CoreLib.k_from_lexical_with_options := by decide
theorem k_from_lexical_partial_with_options : Gen.Literals.CoreLib.k_from_lexical_partial_with_options = Spec.LiteralsExpected.CoreLib.k_from_lexical_partial_with_options := by decide
theorem k_integer_from_lexical_macro : Gen.Literals.CoreLib.k_integer_from_lexical_macro = Spec.LiteralsExpected.CoreLib.k_integer_from_lexical_macro := by decide
theorem k_float_from_lexical_macro : Gen.Literals.CoreLib.k_float_from_lexical_macro = Spec.LiteralsExpected.CoreLib.k_float_from_lexical_macro := by decide
theorem k_to_lexical_impl_macro : Gen.Literals.CoreLib.k_to_lexical_impl_macro = Spec.LiteralsExpected.CoreLib.k_to_lexical_impl_macro := by decide
theorem k_to_lexical : Gen.Literals.CoreLib.k_to_lexical = Spec.LiteralsExpected.CoreLib.k_to_lexical := by decide
theorem k_to_lexical_with_options : Gen.Literals.CoreLib.k_to_lexical_with_options = Spec.LiteralsExpected.CoreLib.k_to_lexical_with_options := by decide
theorem k_integer_to_lexical_macro : Gen.Literals.CoreLib.k_integer_to_lexical_macro = Spec.LiteralsExpected.CoreLib.k_integer_to_lexical_macro := by decide
theorem k_float_to_lexical_macro : Gen.Literals.CoreLib.k_float_to_lexical_macro = Spec.LiteralsExpected.CoreLib.k_float_to_lexical_macro := by decide
theorem k_write : Gen.Literals.CoreLib.k_write = Spec.LiteralsExpected.CoreLib.k_write := by decide
theorem k_write_with_options : Gen.Literals.CoreLib.k_write_with_options = Spec.LiteralsExpected.CoreLib.k_write_with_options := by decide
theorem k_parse : Gen.Literals.CoreLib.k_parse = Spec.LiteralsExpected.CoreLib.k_parse := by decide
theorem k_parse_partial : Gen.Literals.CoreLib.k_parse_partial = Spec.LiteralsExpected.CoreLib.k_parse_partial := by decide
theorem k_parse_with_options : Gen.Literals.CoreLib.k_parse_with_options = Spec.LiteralsExpected.CoreLib.k_parse_with_options := by decide
theorem k_parse_partial_with_options : Gen.Literals.CoreLib.k_parse_partial_with_options = Spec.LiteralsExpected.CoreLib.k_parse_partial_with_options := by decide

end LexVerif.Props.Literals.CoreLib
