import LexVerif.Gen.Literals
import LexVerif.Spec.LiteralsExpected
/-!
# Literals.UtilFeatureFormat — lexical-util/src/feature_format.rs still has the literals and token shape the models were transcribed from

`Gen.Literals.UtilFeatureFormat` is re-extracted from /repo's source text on every run; `Spec.LiteralsExpected.UtilFeatureFormat` is the
committed snapshot. One theorem per fn / macro item, so a failing obligation names the item whose source moved;
`items_same` catches added or removed items. (Written by `extractors.literals.snapshot()`.)
-/
namespace LexVerif.Props.Literals.UtilFeatureFormat
open LexVerif

theorem items_same : Gen.Literals.UtilFeatureFormat.items = Spec.LiteralsExpected.UtilFeatureFormat.items := by decide
theorem k_from_flag_macro : Gen.Literals.UtilFeatureFormat.k_from_flag_macro = Spec.LiteralsExpected.UtilFeatureFormat.k_from_flag_macro := by decide
theorem k_new : Gen.Literals.UtilFeatureFormat.k_new = Spec.LiteralsExpected.UtilFeatureFormat.k_new := by decide
theorem k_is_valid : Gen.Literals.UtilFeatureFormat.k_is_valid = Spec.LiteralsExpected.UtilFeatureFormat.k_is_valid := by decide
theorem k_error : Gen.Literals.UtilFeatureFormat.k_error = Spec.LiteralsExpected.UtilFeatureFormat.k_error := by decide
theorem k_is_valid_radix : Gen.Literals.UtilFeatureFormat.k_is_valid_radix = Spec.LiteralsExpected.UtilFeatureFormat.k_is_valid_radix := by decide
theorem k_error_radix : Gen.Literals.UtilFeatureFormat.k_error_radix = Spec.LiteralsExpected.UtilFeatureFormat.k_error_radix := by decide
theorem k_required_integer_digits : Gen.Literals.UtilFeatureFormat.k_required_integer_digits = Spec.LiteralsExpected.UtilFeatureFormat.k_required_integer_digits := by decide
theorem k_required_fraction_digits : Gen.Literals.UtilFeatureFormat.k_required_fraction_digits = Spec.LiteralsExpected.UtilFeatureFormat.k_required_fraction_digits := by decide
theorem k_required_exponent_digits : Gen.Literals.UtilFeatureFormat.k_required_exponent_digits = Spec.LiteralsExpected.UtilFeatureFormat.k_required_exponent_digits := by decide
theorem k_required_mantissa_digits : Gen.Literals.UtilFeatureFormat.k_required_mantissa_digits = Spec.LiteralsExpected.UtilFeatureFormat.k_required_mantissa_digits := by decide
theorem k_required_digits : Gen.Literals.UtilFeatureFormat.k_required_digits = Spec.LiteralsExpected.UtilFeatureFormat.k_required_digits := by decide
theorem k_no_positive_mantissa_sign : Gen.Literals.UtilFeatureFormat.k_no_positive_mantissa_sign = Spec.LiteralsExpected.UtilFeatureFormat.k_no_positive_mantissa_sign := by decide
theorem k_required_mantissa_sign : Gen.Literals.UtilFeatureFormat.k_required_mantissa_sign = Spec.LiteralsExpected.UtilFeatureFormat.k_required_mantissa_sign := by decide
theorem k_no_exponent_notation : Gen.Literals.UtilFeatureFormat.k_no_exponent_notation = Spec.LiteralsExpected.UtilFeatureFormat.k_no_exponent_notation := by decide
theorem k_no_positive_exponent_sign : Gen.Literals.UtilFeatureFormat.k_no_positive_exponent_sign = Spec.LiteralsExpected.UtilFeatureFormat.k_no_positive_exponent_sign := by decide
theorem k_required_exponent_sign : Gen.Literals.UtilFeatureFormat.k_required_exponent_sign = Spec.LiteralsExpected.UtilFeatureFormat.k_required_exponent_sign := by decide
theorem k_no_exponent_without_fraction : Gen.Literals.UtilFeatureFormat.k_no_exponent_without_fraction = Spec.LiteralsExpected.UtilFeatureFormat.k_no_exponent_without_fraction := by decide
theorem k_no_special : Gen.Literals.UtilFeatureFormat.k_no_special = Spec.LiteralsExpected.UtilFeatureFormat.k_no_special := by decide
theorem k_case_sensitive_special : Gen.Literals.UtilFeatureFormat.k_case_sensitive_special = Spec.LiteralsExpected.UtilFeatureFormat.k_case_sensitive_special := by decide
theorem k_no_integer_leading_zeros : Gen.Literals.UtilFeatureFormat.k_no_integer_leading_zeros = Spec.LiteralsExpected.UtilFeatureFormat.k_no_integer_leading_zeros := by decide
theorem k_no_float_leading_zeros : Gen.Literals.UtilFeatureFormat.k_no_float_leading_zeros = Spec.LiteralsExpected.UtilFeatureFormat.k_no_float_leading_zeros := by decide
theorem k_required_exponent_notation : Gen.Literals.UtilFeatureFormat.k_required_exponent_notation = Spec.LiteralsExpected.UtilFeatureFormat.k_required_exponent_notation := by decide
theorem k_case_sensitive_exponent : Gen.Literals.UtilFeatureFormat.k_case_sensitive_exponent = Spec.LiteralsExpected.UtilFeatureFormat.k_case_sensitive_exponent := by decide
theorem k_case_sensitive_base_prefix : Gen.Literals.UtilFeatureFormat.k_case_sensitive_base_prefix = Spec.LiteralsExpected.UtilFeatureFormat.k_case_sensitive_base_prefix := by decide
theorem k_case_sensitive_base_suffix : Gen.Literals.UtilFeatureFormat.k_case_sensitive_base_suffix = Spec.LiteralsExpected.UtilFeatureFormat.k_case_sensitive_base_suffix := by decide
theorem k_integer_internal_digit_separator : Gen.Literals.UtilFeatureFormat.k_integer_internal_digit_separator = Spec.LiteralsExpected.UtilFeatureFormat.k_integer_internal_digit_separator := by decide
theorem k_fraction_internal_digit_separator : Gen.Literals.UtilFeatureFormat.k_fraction_internal_digit_separator = Spec.LiteralsExpected.UtilFeatureFormat.k_fraction_internal_digit_separator := by decide
theorem k_exponent_internal_digit_separator : Gen.Literals.UtilFeatureFormat.k_exponent_internal_digit_separator = Spec.LiteralsExpected.UtilFeatureFormat.k_exponent_internal_digit_separator := by decide
theorem k_internal_digit_separator : Gen.Literals.UtilFeatureFormat.k_internal_digit_separator = Spec.LiteralsExpected.UtilFeatureFormat.k_internal_digit_separator := by decide
theorem k_integer_leading_digit_separator : Gen.Literals.UtilFeatureFormat.k_integer_leading_digit_separator = Spec.LiteralsExpected.UtilFeatureFormat.k_integer_leading_digit_separator := by decide
theorem k_fraction_leading_digit_separator : Gen.Literals.UtilFeatureFormat.k_fraction_leading_digit_separator = Spec.LiteralsExpected.UtilFeatureFormat.k_fraction_leading_digit_separator := by decide
theorem k_exponent_leading_digit_separator : Gen.Literals.UtilFeatureFormat.k_exponent_leading_digit_separator = Spec.LiteralsExpected.UtilFeatureFormat.k_exponent_leading_digit_separator := by decide
theorem k_leading_digit_separator : Gen.Literals.UtilFeatureFormat.k_leading_digit_separator = Spec.LiteralsExpected.UtilFeatureFormat.k_leading_digit_separator := by decide
theorem k_integer_trailing_digit_separator : Gen.Literals.UtilFeatureFormat.k_integer_trailing_digit_separator = Spec.LiteralsExpected.UtilFeatureFormat.k_integer_trailing_digit_separator := by decide
theorem k_fraction_trailing_digit_separator : Gen.Literals.UtilFeatureFormat.k_fraction_trailing_digit_separator = Spec.LiteralsExpected.UtilFeatureFormat.k_fraction_trailing_digit_separator := by decide
theorem k_exponent_trailing_digit_separator : Gen.Literals.UtilFeatureFormat.k_exponent_trailing_digit_separator = Spec.LiteralsExpected.UtilFeatureFormat.k_exponent_trailing_digit_separator := by decide
theorem k_trailing_digit_separator : Gen.Literals.UtilFeatureFormat.k_trailing_digit_separator = Spec.LiteralsExpected.UtilFeatureFormat.k_trailing_digit_separator := by decide
theorem k_integer_consecutive_digit_separator : Gen.Literals.UtilFeatureFormat.k_integer_consecutive_digit_separator = Spec.LiteralsExpected.UtilFeatureFormat.k_integer_consecutive_digit_separator := by decide
theorem k_fraction_consecutive_digit_separator : Gen.Literals.UtilFeatureFormat.k_fraction_consecutive_digit_separator = Spec.LiteralsExpected.UtilFeatureFormat.k_fraction_consecutive_digit_separator := by decide
theorem k_exponent_consecutive_digit_separator : Gen.Literals.UtilFeatureFormat.k_exponent_consecutive_digit_separator = Spec.LiteralsExpected.UtilFeatureFormat.k_exponent_consecutive_digit_separator := by decide
theorem k_consecutive_digit_separator : Gen.Literals.UtilFeatureFormat.k_consecutive_digit_separator = Spec.LiteralsExpected.UtilFeatureFormat.k_consecutive_digit_separator := by decide
theorem k_special_digit_separator : Gen.Literals.UtilFeatureFormat.k_special_digit_separator = Spec.LiteralsExpected.UtilFeatureFormat.k_special_digit_separator := by decide
theorem k_digit_separator : Gen.Literals.UtilFeatureFormat.k_digit_separator = Spec.LiteralsExpected.UtilFeatureFormat.k_digit_separator := by decide
theorem k_has_digit_separator : Gen.Literals.UtilFeatureFormat.k_has_digit_separator = Spec.LiteralsExpected.UtilFeatureFormat.k_has_digit_separator := by decide
theorem k_base_prefix : Gen.Literals.UtilFeatureFormat.k_base_prefix = Spec.LiteralsExpected.UtilFeatureFormat.k_base_prefix := by decide
theorem k_has_base_prefix : Gen.Literals.UtilFeatureFormat.k_has_base_prefix = Spec.LiteralsExpected.UtilFeatureFormat.k_has_base_prefix := by decide
theorem k_base_suffix : Gen.Literals.UtilFeatureFormat.k_base_suffix = Spec.LiteralsExpected.UtilFeatureFormat.k_base_suffix := by decide
theorem k_has_base_suffix : Gen.Literals.UtilFeatureFormat.k_has_base_suffix = Spec.LiteralsExpected.UtilFeatureFormat.k_has_base_suffix := by decide
theorem k_mantissa_radix : Gen.Literals.UtilFeatureFormat.k_mantissa_radix = Spec.LiteralsExpected.UtilFeatureFormat.k_mantissa_radix := by decide
theorem k_radix : Gen.Literals.UtilFeatureFormat.k_radix = Spec.LiteralsExpected.UtilFeatureFormat.k_radix := by decide
theorem k_radix2 : Gen.Literals.UtilFeatureFormat.k_radix2 = Spec.LiteralsExpected.UtilFeatureFormat.k_radix2 := by decide
theorem k_radix4 : Gen.Literals.UtilFeatureFormat.k_radix4 = Spec.LiteralsExpected.UtilFeatureFormat.k_radix4 := by decide
theorem k_radix8 : Gen.Literals.UtilFeatureFormat.k_radix8 = Spec.LiteralsExpected.UtilFeatureFormat.k_radix8 := by decide
theorem k_exponent_base : Gen.Literals.UtilFeatureFormat.k_exponent_base = Spec.LiteralsExpected.UtilFeatureFormat.k_exponent_base := by decide
theorem k_exponent_radix : Gen.Literals.UtilFeatureFormat.k_exponent_radix = Spec.LiteralsExpected.UtilFeatureFormat.k_exponent_radix := by decide
theorem k_flags : Gen.Literals.UtilFeatureFormat.k_flags = Spec.LiteralsExpected.UtilFeatureFormat.k_flags := by decide
theorem k_interface_flags : Gen.Literals.UtilFeatureFormat.k_interface_flags = Spec.LiteralsExpected.UtilFeatureFormat.k_interface_flags := by decide
theorem k_digit_separator_flags : Gen.Literals.UtilFeatureFormat.k_digit_separator_flags = Spec.LiteralsExpected.UtilFeatureFormat.k_digit_separator_flags := by decide
theorem k_exponent_flags : Gen.Literals.UtilFeatureFormat.k_exponent_flags = Spec.LiteralsExpected.UtilFeatureFormat.k_exponent_flags := by decide
theorem k_integer_digit_separator_flags : Gen.Literals.UtilFeatureFormat.k_integer_digit_separator_flags = Spec.LiteralsExpected.UtilFeatureFormat.k_integer_digit_separator_flags := by decide
theorem k_fraction_digit_separator_flags : Gen.Literals.UtilFeatureFormat.k_fraction_digit_separator_flags = Spec.LiteralsExpected.UtilFeatureFormat.k_fraction_digit_separator_flags := by decide
theorem k_exponent_digit_separator_flags : Gen.Literals.UtilFeatureFormat.k_exponent_digit_separator_flags = Spec.LiteralsExpected.UtilFeatureFormat.k_exponent_digit_separator_flags := by decide
theorem k_builder : Gen.Literals.UtilFeatureFormat.k_builder = Spec.LiteralsExpected.UtilFeatureFormat.k_builder := by decide
theorem k_rebuild : Gen.Literals.UtilFeatureFormat.k_rebuild = Spec.LiteralsExpected.UtilFeatureFormat.k_rebuild := by decide
theorem k_default : Gen.Literals.UtilFeatureFormat.k_default = Spec.LiteralsExpected.UtilFeatureFormat.k_default := by decide
theorem k_radix_error_impl : Gen.Literals.UtilFeatureFormat.k_radix_error_impl = Spec.LiteralsExpected.UtilFeatureFormat.k_radix_error_impl := by decide
theorem k_format_error_impl : Gen.Literals.UtilFeatureFormat.k_format_error_impl = Spec.LiteralsExpected.UtilFeatureFormat.k_format_error_impl := by decide

end LexVerif.Props.Literals.UtilFeatureFormat
