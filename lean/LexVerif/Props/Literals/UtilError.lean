import LexVerif.Gen.Literals
import LexVerif.Spec.LiteralsExpected
/-!
# Literals.UtilError — lexical-util/src/error.rs still has the literals and token shape the models were transcribed from

`Gen.Literals.UtilError` is re-extracted from /repo's source text on every run; `Spec.LiteralsExpected.UtilError` is the
committed snapshot. One theorem per fn / macro item, so a failing obligation names the item whose source moved;
`items_same` catches added or removed items. (Written by `extractors.literals.snapshot()`.)
-/
namespace LexVerif.Props.Literals.UtilError
open LexVerif

theorem items_same : Gen.Literals.UtilError.items = Spec.LiteralsExpected.UtilError.items := by decide
theorem k_is_error_type_macro : Gen.Literals.UtilError.k_is_error_type_macro = Spec.LiteralsExpected.UtilError.k_is_error_type_macro := by decide
theorem k_description : Gen.Literals.UtilError.k_description = Spec.LiteralsExpected.UtilError.k_description := by decide
theorem k_index : Gen.Literals.UtilError.k_index = Spec.LiteralsExpected.UtilError.k_index := by decide
theorem k_write_parse_error_macro : Gen.Literals.UtilError.k_write_parse_error_macro = Spec.LiteralsExpected.UtilError.k_write_parse_error_macro := by decide
theorem k_format_message_macro : Gen.Literals.UtilError.k_format_message_macro = Spec.LiteralsExpected.UtilError.k_format_message_macro := by decide
theorem k_options_message_macro : Gen.Literals.UtilError.k_options_message_macro = Spec.LiteralsExpected.UtilError.k_options_message_macro := by decide
theorem k_fmt : Gen.Literals.UtilError.k_fmt = Spec.LiteralsExpected.UtilError.k_fmt := by decide

end LexVerif.Props.Literals.UtilError
