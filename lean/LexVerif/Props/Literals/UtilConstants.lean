import LexVerif.Gen.Literals
import LexVerif.Spec.LiteralsExpected
/-!
# Literals.UtilConstants — lexical-util/src/constants.rs still has the literals and token shape the models were transcribed from

`Gen.Literals.UtilConstants` is re-extracted from /repo's source text on every run; `Spec.LiteralsExpected.UtilConstants` is the
committed snapshot. One theorem per fn / macro item, so a failing obligation names the item whose source moved;
`items_same` catches added or removed items. (Written by `extractors.literals.snapshot()`.)
-/
namespace LexVerif.Props.Literals.UtilConstants
open LexVerif

theorem items_same : Gen.Literals.UtilConstants.items = Spec.LiteralsExpected.UtilConstants.items := by decide
theorem k_formatted_size_impl_macro : Gen.Literals.UtilConstants.k_formatted_size_impl_macro = Spec.LiteralsExpected.UtilConstants.k_formatted_size_impl_macro := by decide

end LexVerif.Props.Literals.UtilConstants
