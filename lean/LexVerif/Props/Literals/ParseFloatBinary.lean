import LexVerif.Gen.Literals
import LexVerif.Spec.LiteralsExpected
/-!
# Literals.ParseFloatBinary — lexical-parse-float/src/binary.rs still has the literals and token shape the models were transcribed from

`Gen.Literals.ParseFloatBinary` is re-extracted from /repo's source text on every run; `Spec.LiteralsExpected.ParseFloatBinary` is the
committed snapshot. One theorem per fn / macro item, so a failing obligation names the item whose source moved;
`items_same` catches added or removed items. (Written by `extractors.literals.snapshot()`.)
-/
namespace LexVerif.Props.Literals.ParseFloatBinary
open LexVerif

theorem items_same : Gen.Literals.ParseFloatBinary.items = Spec.LiteralsExpected.ParseFloatBinary.items := by decide
theorem k_binary : Gen.Literals.ParseFloatBinary.k_binary = Spec.LiteralsExpected.ParseFloatBinary.k_binary := by decide
theorem k_parse_u64_digits : Gen.Literals.ParseFloatBinary.k_parse_u64_digits = Spec.LiteralsExpected.ParseFloatBinary.k_parse_u64_digits := by decide
theorem k_slow_binary : Gen.Literals.ParseFloatBinary.k_slow_binary = Spec.LiteralsExpected.ParseFloatBinary.k_slow_binary := by decide

end LexVerif.Props.Literals.ParseFloatBinary
