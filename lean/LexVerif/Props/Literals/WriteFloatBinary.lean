import LexVerif.Gen.Literals
import LexVerif.Spec.LiteralsExpected
/-!
# Literals.WriteFloatBinary — lexical-write-float/src/binary.rs still has the literals and token shape the models were transcribed from

`Gen.Literals.WriteFloatBinary` is re-extracted from /repo's source text on every run; `Spec.LiteralsExpected.WriteFloatBinary` is the
committed snapshot. One theorem per fn / macro item, so a failing obligation names the item whose source moved;
`items_same` catches added or removed items. (Written by `extractors.literals.snapshot()`.)
-/
namespace LexVerif.Props.Literals.WriteFloatBinary
open LexVerif

theorem items_same : Gen.Literals.WriteFloatBinary.items = Spec.LiteralsExpected.WriteFloatBinary.items := by decide
theorem k_write_float : Gen.Literals.WriteFloatBinary.k_write_float = Spec.LiteralsExpected.WriteFloatBinary.k_write_float := by decide
theorem k_write_float_scientific : Gen.Literals.WriteFloatBinary.k_write_float_scientific = Spec.LiteralsExpected.WriteFloatBinary.k_write_float_scientific := by decide
theorem k_write_float_negative_exponent : Gen.Literals.WriteFloatBinary.k_write_float_negative_exponent = Spec.LiteralsExpected.WriteFloatBinary.k_write_float_negative_exponent := by decide
theorem k_write_float_positive_exponent : Gen.Literals.WriteFloatBinary.k_write_float_positive_exponent = Spec.LiteralsExpected.WriteFloatBinary.k_write_float_positive_exponent := by decide
theorem k_fast_log2 : Gen.Literals.WriteFloatBinary.k_fast_log2 = Spec.LiteralsExpected.WriteFloatBinary.k_fast_log2 := by decide
theorem k_significant_bits : Gen.Literals.WriteFloatBinary.k_significant_bits = Spec.LiteralsExpected.WriteFloatBinary.k_significant_bits := by decide
theorem k_fast_ceildiv : Gen.Literals.WriteFloatBinary.k_fast_ceildiv = Spec.LiteralsExpected.WriteFloatBinary.k_fast_ceildiv := by decide
theorem k_inverse_remainder : Gen.Literals.WriteFloatBinary.k_inverse_remainder = Spec.LiteralsExpected.WriteFloatBinary.k_inverse_remainder := by decide
theorem k_calculate_shl : Gen.Literals.WriteFloatBinary.k_calculate_shl = Spec.LiteralsExpected.WriteFloatBinary.k_calculate_shl := by decide
theorem k_scale_sci_exp : Gen.Literals.WriteFloatBinary.k_scale_sci_exp = Spec.LiteralsExpected.WriteFloatBinary.k_scale_sci_exp := by decide
theorem k_truncate_and_round : Gen.Literals.WriteFloatBinary.k_truncate_and_round = Spec.LiteralsExpected.WriteFloatBinary.k_truncate_and_round := by decide
theorem k_truncate_and_round_digits : Gen.Literals.WriteFloatBinary.k_truncate_and_round_digits = Spec.LiteralsExpected.WriteFloatBinary.k_truncate_and_round_digits := by decide

end LexVerif.Props.Literals.WriteFloatBinary
