import LexVerif.Gen.Literals
import LexVerif.Spec.LiteralsExpected
/-!
# Literals.WriteIntegerWrite — lexical-write-integer/src/write.rs still has the literals and token shape the models were transcribed from

`Gen.Literals.WriteIntegerWrite` is re-extracted from /repo's source text on every run; `Spec.LiteralsExpected.WriteIntegerWrite` is the
committed snapshot. One theorem per fn / macro item, so a failing obligation names the item whose source moved;
`items_same` catches added or removed items. (Written by `extractors.literals.snapshot()`.)
-/
namespace LexVerif.Props.Literals.WriteIntegerWrite
open LexVerif

theorem items_same : Gen.Literals.WriteIntegerWrite.items = Spec.LiteralsExpected.WriteIntegerWrite.items := by decide
theorem k_write_mantissa_macro : Gen.Literals.WriteIntegerWrite.k_write_mantissa_macro = Spec.LiteralsExpected.WriteIntegerWrite.k_write_mantissa_macro := by decide
theorem k_write_mantissa : Gen.Literals.WriteIntegerWrite.k_write_mantissa = Spec.LiteralsExpected.WriteIntegerWrite.k_write_mantissa := by decide
theorem k_write_mantissa_signed : Gen.Literals.WriteIntegerWrite.k_write_mantissa_signed = Spec.LiteralsExpected.WriteIntegerWrite.k_write_mantissa_signed := by decide
theorem k_write_exponent_macro : Gen.Literals.WriteIntegerWrite.k_write_exponent_macro = Spec.LiteralsExpected.WriteIntegerWrite.k_write_exponent_macro := by decide
theorem k_write_exponent : Gen.Literals.WriteIntegerWrite.k_write_exponent = Spec.LiteralsExpected.WriteIntegerWrite.k_write_exponent := by decide
theorem k_write_exponent_signed : Gen.Literals.WriteIntegerWrite.k_write_exponent_signed = Spec.LiteralsExpected.WriteIntegerWrite.k_write_exponent_signed := by decide
theorem k_write_integer : Gen.Literals.WriteIntegerWrite.k_write_integer = Spec.LiteralsExpected.WriteIntegerWrite.k_write_integer := by decide
theorem k_write_integer_signed : Gen.Literals.WriteIntegerWrite.k_write_integer_signed = Spec.LiteralsExpected.WriteIntegerWrite.k_write_integer_signed := by decide
theorem k_write_integer_impl_macro : Gen.Literals.WriteIntegerWrite.k_write_integer_impl_macro = Spec.LiteralsExpected.WriteIntegerWrite.k_write_integer_impl_macro := by decide

end LexVerif.Props.Literals.WriteIntegerWrite
