import LexVerif.Gen.Literals
import LexVerif.Spec.LiteralsExpected
/-!
# Literals.UtilDiv128 — lexical-util/src/div128.rs still has the literals and token shape the models were transcribed from

`Gen.Literals.UtilDiv128` is re-extracted from /repo's source text on every run; `Spec.LiteralsExpected.UtilDiv128` is the
committed snapshot. One theorem per fn / macro item, so a failing obligation names the item whose source moved;
`items_same` catches added or removed items. (Written by `extractors.literals.snapshot()`.)
-/
namespace LexVerif.Props.Literals.UtilDiv128
open LexVerif

theorem items_same : Gen.Literals.UtilDiv128.items = Spec.LiteralsExpected.UtilDiv128.items := by decide
theorem k_pow2_u128_divrem : Gen.Literals.UtilDiv128.k_pow2_u128_divrem = Spec.LiteralsExpected.UtilDiv128.k_pow2_u128_divrem := by decide
theorem k_fast_u128_divrem : Gen.Literals.UtilDiv128.k_fast_u128_divrem = Spec.LiteralsExpected.UtilDiv128.k_fast_u128_divrem := by decide
theorem k_moderate_u128_divrem : Gen.Literals.UtilDiv128.k_moderate_u128_divrem = Spec.LiteralsExpected.UtilDiv128.k_moderate_u128_divrem := by decide
theorem k_slow_u128_divrem : Gen.Literals.UtilDiv128.k_slow_u128_divrem = Spec.LiteralsExpected.UtilDiv128.k_slow_u128_divrem := by decide
theorem k_u128_divrem : Gen.Literals.UtilDiv128.k_u128_divrem = Spec.LiteralsExpected.UtilDiv128.k_u128_divrem := by decide
theorem k_u128_divrem_2 : Gen.Literals.UtilDiv128.k_u128_divrem_2 = Spec.LiteralsExpected.UtilDiv128.k_u128_divrem_2 := by decide
theorem k_u128_divrem_3 : Gen.Literals.UtilDiv128.k_u128_divrem_3 = Spec.LiteralsExpected.UtilDiv128.k_u128_divrem_3 := by decide
theorem k_u128_divrem_4 : Gen.Literals.UtilDiv128.k_u128_divrem_4 = Spec.LiteralsExpected.UtilDiv128.k_u128_divrem_4 := by decide
theorem k_u128_divrem_5 : Gen.Literals.UtilDiv128.k_u128_divrem_5 = Spec.LiteralsExpected.UtilDiv128.k_u128_divrem_5 := by decide
theorem k_u128_divrem_6 : Gen.Literals.UtilDiv128.k_u128_divrem_6 = Spec.LiteralsExpected.UtilDiv128.k_u128_divrem_6 := by decide
theorem k_u128_divrem_7 : Gen.Literals.UtilDiv128.k_u128_divrem_7 = Spec.LiteralsExpected.UtilDiv128.k_u128_divrem_7 := by decide
theorem k_u128_divrem_8 : Gen.Literals.UtilDiv128.k_u128_divrem_8 = Spec.LiteralsExpected.UtilDiv128.k_u128_divrem_8 := by decide
theorem k_u128_divrem_9 : Gen.Literals.UtilDiv128.k_u128_divrem_9 = Spec.LiteralsExpected.UtilDiv128.k_u128_divrem_9 := by decide
theorem k_u128_divrem_10 : Gen.Literals.UtilDiv128.k_u128_divrem_10 = Spec.LiteralsExpected.UtilDiv128.k_u128_divrem_10 := by decide
theorem k_u128_divrem_11 : Gen.Literals.UtilDiv128.k_u128_divrem_11 = Spec.LiteralsExpected.UtilDiv128.k_u128_divrem_11 := by decide
theorem k_u128_divrem_12 : Gen.Literals.UtilDiv128.k_u128_divrem_12 = Spec.LiteralsExpected.UtilDiv128.k_u128_divrem_12 := by decide
theorem k_u128_divrem_13 : Gen.Literals.UtilDiv128.k_u128_divrem_13 = Spec.LiteralsExpected.UtilDiv128.k_u128_divrem_13 := by decide
theorem k_u128_divrem_14 : Gen.Literals.UtilDiv128.k_u128_divrem_14 = Spec.LiteralsExpected.UtilDiv128.k_u128_divrem_14 := by decide
theorem k_u128_divrem_15 : Gen.Literals.UtilDiv128.k_u128_divrem_15 = Spec.LiteralsExpected.UtilDiv128.k_u128_divrem_15 := by decide
theorem k_u128_divrem_16 : Gen.Literals.UtilDiv128.k_u128_divrem_16 = Spec.LiteralsExpected.UtilDiv128.k_u128_divrem_16 := by decide
theorem k_u128_divrem_17 : Gen.Literals.UtilDiv128.k_u128_divrem_17 = Spec.LiteralsExpected.UtilDiv128.k_u128_divrem_17 := by decide
theorem k_u128_divrem_18 : Gen.Literals.UtilDiv128.k_u128_divrem_18 = Spec.LiteralsExpected.UtilDiv128.k_u128_divrem_18 := by decide
theorem k_u128_divrem_19 : Gen.Literals.UtilDiv128.k_u128_divrem_19 = Spec.LiteralsExpected.UtilDiv128.k_u128_divrem_19 := by decide
theorem k_u128_divrem_20 : Gen.Literals.UtilDiv128.k_u128_divrem_20 = Spec.LiteralsExpected.UtilDiv128.k_u128_divrem_20 := by decide
theorem k_u128_divrem_21 : Gen.Literals.UtilDiv128.k_u128_divrem_21 = Spec.LiteralsExpected.UtilDiv128.k_u128_divrem_21 := by decide
theorem k_u128_divrem_22 : Gen.Literals.UtilDiv128.k_u128_divrem_22 = Spec.LiteralsExpected.UtilDiv128.k_u128_divrem_22 := by decide
theorem k_u128_divrem_23 : Gen.Literals.UtilDiv128.k_u128_divrem_23 = Spec.LiteralsExpected.UtilDiv128.k_u128_divrem_23 := by decide
theorem k_u128_divrem_24 : Gen.Literals.UtilDiv128.k_u128_divrem_24 = Spec.LiteralsExpected.UtilDiv128.k_u128_divrem_24 := by decide
theorem k_u128_divrem_25 : Gen.Literals.UtilDiv128.k_u128_divrem_25 = Spec.LiteralsExpected.UtilDiv128.k_u128_divrem_25 := by decide
theorem k_u128_divrem_26 : Gen.Literals.UtilDiv128.k_u128_divrem_26 = Spec.LiteralsExpected.UtilDiv128.k_u128_divrem_26 := by decide
theorem k_u128_divrem_27 : Gen.Literals.UtilDiv128.k_u128_divrem_27 = Spec.LiteralsExpected.UtilDiv128.k_u128_divrem_27 := by decide
theorem k_u128_divrem_28 : Gen.Literals.UtilDiv128.k_u128_divrem_28 = Spec.LiteralsExpected.UtilDiv128.k_u128_divrem_28 := by decide
theorem k_u128_divrem_29 : Gen.Literals.UtilDiv128.k_u128_divrem_29 = Spec.LiteralsExpected.UtilDiv128.k_u128_divrem_29 := by decide
theorem k_u128_divrem_30 : Gen.Literals.UtilDiv128.k_u128_divrem_30 = Spec.LiteralsExpected.UtilDiv128.k_u128_divrem_30 := by decide
theorem k_u128_divrem_31 : Gen.Literals.UtilDiv128.k_u128_divrem_31 = Spec.LiteralsExpected.UtilDiv128.k_u128_divrem_31 := by decide
theorem k_u128_divrem_32 : Gen.Literals.UtilDiv128.k_u128_divrem_32 = Spec.LiteralsExpected.UtilDiv128.k_u128_divrem_32 := by decide
theorem k_u128_divrem_33 : Gen.Literals.UtilDiv128.k_u128_divrem_33 = Spec.LiteralsExpected.UtilDiv128.k_u128_divrem_33 := by decide
theorem k_u128_divrem_34 : Gen.Literals.UtilDiv128.k_u128_divrem_34 = Spec.LiteralsExpected.UtilDiv128.k_u128_divrem_34 := by decide
theorem k_u128_divrem_35 : Gen.Literals.UtilDiv128.k_u128_divrem_35 = Spec.LiteralsExpected.UtilDiv128.k_u128_divrem_35 := by decide
theorem k_u128_divrem_36 : Gen.Literals.UtilDiv128.k_u128_divrem_36 = Spec.LiteralsExpected.UtilDiv128.k_u128_divrem_36 := by decide

end LexVerif.Props.Literals.UtilDiv128
