import LexVerif.Gen.Literals
import LexVerif.Spec.LiteralsExpected
/-!
# Literals.UtilDigit — lexical-util/src/digit.rs still has the literals and token shape the models were transcribed from

`Gen.Literals.UtilDigit` is re-extracted from /repo's source text on every run; `Spec.LiteralsExpected.UtilDigit` is the
committed snapshot. One theorem per fn / macro item, so a failing obligation names the item whose source moved;
`items_same` catches added or removed items. (Written by `extractors.literals.snapshot()`.)
-/
namespace LexVerif.Props.Literals.UtilDigit
open LexVerif

theorem items_same : Gen.Literals.UtilDigit.items = Spec.LiteralsExpected.UtilDigit.items := by decide
theorem k_char_to_valid_digit_const : Gen.Literals.UtilDigit.k_char_to_valid_digit_const = Spec.LiteralsExpected.UtilDigit.k_char_to_valid_digit_const := by decide
theorem k_char_to_digit_const : Gen.Literals.UtilDigit.k_char_to_digit_const = Spec.LiteralsExpected.UtilDigit.k_char_to_digit_const := by decide
theorem k_char_is_digit_const : Gen.Literals.UtilDigit.k_char_is_digit_const = Spec.LiteralsExpected.UtilDigit.k_char_is_digit_const := by decide
theorem k_digit_to_char_const : Gen.Literals.UtilDigit.k_digit_to_char_const = Spec.LiteralsExpected.UtilDigit.k_digit_to_char_const := by decide
theorem k_char_to_digit : Gen.Literals.UtilDigit.k_char_to_digit = Spec.LiteralsExpected.UtilDigit.k_char_to_digit := by decide
theorem k_char_is_digit : Gen.Literals.UtilDigit.k_char_is_digit = Spec.LiteralsExpected.UtilDigit.k_char_is_digit := by decide
theorem k_digit_to_char : Gen.Literals.UtilDigit.k_digit_to_char = Spec.LiteralsExpected.UtilDigit.k_digit_to_char := by decide

end LexVerif.Props.Literals.UtilDigit
