import LexVerif.Gen.Literals
import LexVerif.Spec.LiteralsExpected
/-!
# Literals.WriteIntegerAlgorithm — lexical-write-integer/src/algorithm.rs still has the literals and token shape the models were transcribed from

`Gen.Literals.WriteIntegerAlgorithm` is re-extracted from /repo's source text on every run; `Spec.LiteralsExpected.WriteIntegerAlgorithm` is the
committed snapshot. One theorem per fn / macro item, so a failing obligation names the item whose source moved;
`items_same` catches added or removed items. (Written by `extractors.literals.snapshot()`.)
-/
namespace LexVerif.Props.Literals.WriteIntegerAlgorithm
open LexVerif

theorem items_same : Gen.Literals.WriteIntegerAlgorithm.items = Spec.LiteralsExpected.WriteIntegerAlgorithm.items := by decide
theorem k_i_macro : Gen.Literals.WriteIntegerAlgorithm.k_i_macro = Spec.LiteralsExpected.WriteIntegerAlgorithm.k_i_macro := by decide
theorem k_write_digits_macro : Gen.Literals.WriteIntegerAlgorithm.k_write_digits_macro = Spec.LiteralsExpected.WriteIntegerAlgorithm.k_write_digits_macro := by decide
theorem k_write_digit_macro : Gen.Literals.WriteIntegerAlgorithm.k_write_digit_macro = Spec.LiteralsExpected.WriteIntegerAlgorithm.k_write_digit_macro := by decide
theorem k_write_digits : Gen.Literals.WriteIntegerAlgorithm.k_write_digits = Spec.LiteralsExpected.WriteIntegerAlgorithm.k_write_digits := by decide
theorem k_write_step_digits : Gen.Literals.WriteIntegerAlgorithm.k_write_step_digits = Spec.LiteralsExpected.WriteIntegerAlgorithm.k_write_step_digits := by decide
theorem k_algorithm : Gen.Literals.WriteIntegerAlgorithm.k_algorithm = Spec.LiteralsExpected.WriteIntegerAlgorithm.k_algorithm := by decide
theorem k_algorithm_u128 : Gen.Literals.WriteIntegerAlgorithm.k_algorithm_u128 = Spec.LiteralsExpected.WriteIntegerAlgorithm.k_algorithm_u128 := by decide

end LexVerif.Props.Literals.WriteIntegerAlgorithm
