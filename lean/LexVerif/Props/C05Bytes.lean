import LexVerif.Proof.BytesTables
import LexVerif.Props.C01Slow
/-!
# C05 — `byte_comp` (the slow path of the radices without a digit limit) is correctly rounded

Model: `Model/SlowBytes.lean` (`byte_comp`, `compare_bytes` and the `Bigfloat` operations on 64-bit limb vectors, with the
capacity checks of `StackVec<BIGFLOAT_LIMBS>`), tied to the code by the op `sl` on odd radices.

Proved, for the 17 odd radices 3 … 35, `f32`/`f64`, builds `radix` and `compact+radix`:

* the limb-level operations denote the right numbers, keep the normal form, and fail exactly when the result does not fit
  (`Proof.BytesLimbs`, `Proof.BytesMul`: `small_mul`, `compare`, `shl`, `large_add_from`, `long_mul`, `large_mul`, `pow`;
  `large_quorem`: the single-limb quotient estimate plus one correction is exact);
* `compare_bytes` generates the digits of `num/den` and compares them with the input: its answer is the comparison of the
  value of all the significant digits with `num/den`, and it cannot panic once the divisor is normalised
  (`Proof.BytesCompare.compareBytes_spec`, `cmpDigits_spec`);
* **`byte_comp_correct`**: whenever `byte_comp` returns (no capacity panic of the `Bigfloat` arithmetic before the digit
  loop), it returns the float nearest to the value of the digits, ties to even — given an estimate that weakly brackets the
  value (`WeakBracket`, as for `negative_digit_comp`) and whose `b + h` is below `(radix + 1)·radix^sci_exp` (`hX`: the
  first generated digit fits). All three regimes of the estimate (below the underflow cut, finite, `+∞`).
* `slow_radix_bytes_correct`: `slow_radix` for those radices.
-/
namespace LexVerif.Props.C05Bytes
open LexVerif.Spec LexVerif.Proof.Tables LexVerif.Model LexVerif.Model.Slow LexVerif.Model.Bellerophon
open LexVerif.Proof.RoundNE LexVerif.Proof.ExtRound LexVerif.Proof.Slow
open LexVerif.Props.C01Slow

/-- `(b + h) / radix^sci < radix + 1`, with `b = k·2^(p−1) + q` the estimate rounded down: the first quotient digit of
`compare_bytes` is at most `radix` -/
def FirstDigitFits (F : FTy) (p radix : Nat) (fp : ExtendedFloat80) (sci : Int) : Prop :=
  ∀ k q : Nat, extendedToFloat F (round F fp roundDown) = k * 2 ^ (p - 1) + q → (0 < k → 2 ^ (p - 1) ≤ q) →
    q < 2 * 2 ^ (p - 1) →
    (2 * q + 1) * 2 ^ ((k : Int) - F.C.exponentBias).toNat * radix ^ (-sci).toNat <
      (radix + 1) * (radix ^ sci.toNat * 2 ^ (-((k : Int) - F.C.exponentBias)).toNat)

/-- **`byte_comp_correct`** -/
theorem byte_comp_correct {E : Env} {r : Nat} (h : EnvBytes E r) {F : FTy} {p eb : Nat} (lay : Layout F p eb)
    (hden : F.C.denormalExponent = 1 - F.C.exponentBias)
    (integer : List Nat) (fraction : Option (List Nat)) (hbi : ∀ c ∈ integer, c < 256)
    (hbf : ∀ fr, fraction = some fr → ∀ c ∈ fr, c < 256) (hne : sigBytes integer fraction ≠ [])
    (hvd : ValidDigits r (sigBytes integer fraction))
    (fp : ExtendedFloat80) (hm1 : 2 ^ 63 ≤ fp.mant) (hm2 : fp.mant < 2 ^ 64) (hfe : fp.exp < 2 ^ 20)
    (sci : Int) (hsci : -(2 ^ 20 : Int) < sci ∧ sci < 2 ^ 20)
    (hbr : WeakBracket F fp (sigValue r (sigBytes integer fraction) sci).1 (sigValue r (sigBytes integer fraction) sci).2)
    (hX : FirstDigitFits F p r fp sci)
    {res : ExtendedFloat80} (hres : byteComp E F r integer fraction fp sci = some res) :
    0 ≤ res.exp ∧ extendedToFloat F res =
      roundNE F.fmt (sigValue r (sigBytes integer fraction) sci).1 (sigValue r (sigBytes integer fraction) sci).2 := by
  have T := byteTables_of_envBytes h
  have hr0 : 0 < r := by have := T.r2; omega
  have hdpos : 0 < (sigValue r (sigBytes integer fraction) sci).2 := by
    unfold sigValue powFrac; split
    · exact Nat.one_pos
    · exact Nat.pow_pos hr0
  obtain ⟨k, q, RF⟩ := roundFacts_of_weak lay fp hm1 hm2 hfe _ _ hdpos hbr.1 hbr.2
  exact byteComp_spec lay hden T integer fraction hbi hbf hne hvd fp sci hsci k q RF
    (hX k q RF.bits RF.h1 RF.qb) hres

/-- **`slow_radix` for the radices without a digit limit** -/
theorem slow_radix_bytes_correct {E : Env} {r : Nat} (h : EnvBytes E r) {F : FTy} {p eb : Nat} (lay : Layout F p eb)
    (hF : F = FTy.f64 ∨ F = FTy.f32) (hden : F.C.denormalExponent = 1 - F.C.exponentBias) (n : SNum)
    (hbi : ∀ c ∈ n.integer, c < 256) (hbf : ∀ fr, n.fraction = some fr → ∀ c ∈ fr, c < 256)
    (hne : sigBytes n.integer n.fraction ≠ []) (hvd : ValidDigits r (sigBytes n.integer n.fraction))
    (fp : ExtendedFloat80) (hm1 : 2 ^ 63 ≤ fp.mant) (hm2 : fp.mant < 2 ^ 64) (hfe : fp.exp < 2 ^ 20)
    (hsci : -(2 ^ 20 : Int) < scientificExponent r n.mantissa n.exponent ∧
      scientificExponent r n.mantissa n.exponent < 2 ^ 20)
    (hbr : WeakBracket F fp
      (sigValue r (sigBytes n.integer n.fraction) (scientificExponent r n.mantissa n.exponent)).1
      (sigValue r (sigBytes n.integer n.fraction) (scientificExponent r n.mantissa n.exponent)).2)
    (hX : FirstDigitFits F p r fp (scientificExponent r n.mantissa n.exponent))
    {res : ExtendedFloat80} (hres : slowRadix E F true r n fp = some res) :
    0 ≤ res.exp ∧ extendedToFloat F res = roundNE F.fmt
      (sigValue r (sigBytes n.integer n.fraction) (scientificExponent r n.mantissa n.exponent)).1
      (sigValue r (sigBytes n.integer n.fraction) (scientificExponent r n.mantissa n.exponent)).2 := by
  have T := byteTables_of_envBytes h
  unfold slowRadix at hres
  rw [T.dbg, route_bytes h F hF] at hres
  simp only [Bool.false_and, Bool.false_eq_true, if_false] at hres
  exact byte_comp_correct h lay hden n.integer n.fraction hbi hbf hne hvd fp hm1 hm2 hfe _ hsci hbr hX hres

/-- non-vacuity: radix 3, `f64` — a literal with a long fraction, resolved by `byte_comp` -/
example : (byteComp envRadix FTy.f64 3 [49, 50] (some [49, 50, 50, 49, 48, 50, 49, 49, 50, 50, 49, 50])
    ⟨11529215046068469760, 1026⟩ 1).isSome = true := by decide +kernel

end LexVerif.Props.C05Bytes
