import LexVerif.Props.C08
import LexVerif.Props.C12
import LexVerif.Props.C17
/-!
# C08 — writer model → *parser model* (C08 ∘ C12)

`Props.C08.roundtrip_float_shape` ends at the documented grammar.  `Props.C12.accepts_iff_grammar_partial` relates the
grammar to the float parser model `Model.parseFloatSyntax` for every format without digit separator and base prefix
(all formats when the `format` feature is off).  Composition: on the bytes the decimal writer model emits, the
complete parser model of the same format never answers with an `Error`, and whenever it returns a value, that value is
a **number** (not a special, not zero-by-emptiness) that consumed the whole text and carries the written sign.
What C12 leaves open stays open here: the panic / fault exits of the many-digit re-parse (C10), and
`numberBits = litBits` (C01).
-/
namespace LexVerif.Props.C08
open LexVerif.Spec LexVerif.Model LexVerif.Model.WriteFloat LexVerif.Proof.RoundTrip LexVerif.Props.C12
open LexVerif.Proof.Grammar

theorem prefixClear_of_sepPrefixFree (feats : Features) (fmt : Format) (dp expc : Nat)
    (h : feats.format = false ∨ SepPrefixFree fmt) : PrefixClear feats fmt dp expc := by
  left
  rcases syn_pre feats fmt with h0 | ⟨hf, h1⟩
  · exact h0
  · rcases h with h | h
    · rw [hf] at h; cases h
    · rw [h1]; exact h.2.1

/-- **`roundtrip_float_parser_model`** -/
theorem roundtrip_float_parser_model (c : Cfg) (hd : c.debug = false)
    (hfmt : c.feats.format = false ∨ SepPrefixFree c.fmt)
    (hr8 : c.feats.powerOfTwo = false → c.mantissaRadix ≤ 10)
    (wo : WOpts) (po : POpts) (ds : List Nat) (sci : Int) (neg : Bool)
    (hv : FormatValid c.feats (unpack c.fmt.raw)) (h10 : c.fmt.mantissaRadix = 10)
    (ha : OptionsAgree c.feats c.fmt wo po) (hin : WriterInput ds sci)
    (wf : SpecialsWF po) (hlet : LettersOnly po) (fv : Bool) :
    (∀ k i, parseFloatSyntax c po false (writerSign c.feats c.fmt neg ++ writeDecimal c.fmt c.feats ds sci wo) fv
        ≠ .error (.err k i)) ∧
    (∀ p, parseFloatSyntax c po false (writerSign c.feats c.fmt neg ++ writeDecimal c.fmt c.feats ds sci wo) fv = .ok p →
      ∃ n, p = .number n (writerSign c.feats c.fmt neg ++ writeDecimal c.fmt c.feats ds sci wo).length ∧
        n.isNegative = neg) := by
  have hclear := prefixClear_of_sepPrefixFree c.feats c.fmt po.dp po.exp hfmt
  obtain ⟨l, hg, hneg, _⟩ := roundtrip_float_shape c.feats c.fmt wo po ds sci neg hv h10 ha hin hclear
  generalize hout : writerSign c.feats c.fmt neg ++ writeDecimal c.fmt c.feats ds sci wo = out at hg ⊢
  -- bytes
  have hy := synFacts_of_valid c.feats c.fmt hv
  have her : 2 ≤ (effFmt c.feats c.fmt).exponentRadix ∧ (effFmt c.feats c.fmt).exponentRadix ≤ 36 := by
    rw [effFmt_exponentRadix, ← syn_expRadix c.feats c.fmt]; exact ⟨hy.expRadix2, hy.expRadix36⟩
  have hb : ∀ x ∈ out, x < 256 := by
    intro x hx
    rw [← hout, List.mem_append] at hx
    rcases hx with hx | hx
    · rw [writerSign_eq] at hx
      repeat' split at hx
      all_goals simp at hx
      all_goals omega
    · have := LexVerif.Props.C17.ascii_only_decimal c.fmt c.feats ds sci wo hin.ok.lt ha.writeValid her.1 her.2 x hx
      omega
  have hs : out ≠ [] := by
    intro h0
    rw [h0] at hg
    simp [grammarFloatComplete, grammarFloatSyn] at hg
  have hbody : (splitSign out).2 ≠ [] := by
    intro h0
    -- nothing after the sign: the grammar cannot derive a number with digits
    have hsd := shapeOf_digits c.fmt c.feats ds sci wo hin ha.nonZero.1
    obtain ⟨d, dd, hd', t, ht⟩ := render_head wo.dp wo.exp (effFmt c.feats c.fmt).exponentRadix
      (plusReqOf (effFmt c.feats c.fmt) c.feats) (shapeOf c.fmt c.feats ds sci wo) hsd.ints_ne
    have hsp := splitSign_signBytes (mantSign c.feats c.fmt neg)
      ((shapeOf c.fmt c.feats ds sci wo).render wo.dp wo.exp (effFmt c.feats c.fmt).exponentRadix
        (plusReqOf (effFmt c.feats c.fmt) c.feats))
      (by intro x hx; rw [ht] at hx; simp at hx; subst hx; exact digitChar_ne_sign d)
    rw [← hout, writerSign, writeDecimal_shape, hsp, ht] at h0
    cases h0
  obtain ⟨h1, h2⟩ := accepts_iff_grammar_partial c hd hfmt hr8 po wf hlet out hb fv hbody
  constructor
  · intro k i he
    have := h2 k i he
    rw [hg] at this
    cases this
  · intro p hp
    have hag := verdict_grammar c po out hs p (h1 p hp)
    rw [hg] at hag
    cases p with
    | zero n => exact absurd hag (by simp [Agrees])
    | special sp ng n => exact absurd hag (by simp [Agrees])
    | number n cnt =>
      obtain ⟨e1, _, e3⟩ := hag
      exact ⟨n, by rw [e1], by rw [e3, hneg]⟩

/-- non-vacuity: STANDARD in the default build, `-1.5e300` -/
example :=
  roundtrip_float_parser_model ⟨{}, Format.standard, false⟩ rfl (Or.inl rfl) (by decide) {} {} [1, 5] 300 true std_valid
    (by decide) (default_agree _ _ (by decide)) ⟨⟨by decide, by decide, by decide⟩, by decide⟩ default_specials_wf
    (by intro t ht y hy; rcases ht with h | h | h <;> simp at h <;> subst h <;> revert y hy <;> decide) true

/-- … and the instance computed on the parser model -/
example : (match parseFloatSyntax ⟨{}, Format.standard, false⟩ {} false
      (writerSign {} Format.standard true ++ writeDecimal Format.standard {} [1, 5] 300 {}) with
    | .ok (.number n cnt) => n.isNegative && cnt == 8 && n.mantissa == 15 && n.exponent == 299
    | _ => false) = true := by decide +kernel

end LexVerif.Props.C08
