import LexVerif.Props.C01Slow
import LexVerif.Props.C01Main
/-!
# C01 — the slow-path model as the `slow_radix` of the pipeline theorem (`Props/C01Main.lean`)

`Model.ParseFloatAlgo` takes `slow_radix` as a parameter `slow : SlowRadix`, and `Props.C01Main.C01_main` assumes the
contract `SlowPathCorrect slow` (for **every** `Number` and every estimate with `Props.C01.Bracket`). Here the parameter
is instantiated with the model of the real code, `slowModel` (`Model.Slow` / `Model.SlowBytes`).

* `slowModel_hslow` — the per-input obligation `hslow` of `numberToFloat_of_contracts` holds for `slowModel` on the
  explicit domain `SlowDomain` (what `Props.C01Slow.slow_radix_correct` needs): the pipeline's weak `Bracket` is exactly
  the precondition `WeakBracket` of (c).
* `numberToFloat_slowModel` — hence the numeric half of `parse_complete`, with the **modelled** slow path, returns
  `litBits` of the digit content, given the fast- and moderate-path contracts and `SlowDomain` for the estimates the
  moderate path produces.

`SlowPathCorrect slowModel` itself is **not** provable as stated: it quantifies over `Number`s whose `mantissa` /
`exponent` words need not agree with the digit slices (the real `slow_radix` takes the scale from
`scientific_exponent(mantissa, exponent)`), and over estimates outside the domain (below the underflow cut, non-zero
cut tails: `truncation_invariant`). `SlowDomain.value` is the consistency it lacks.
-/
namespace LexVerif.Props.C01SlowMain
open LexVerif LexVerif.Spec LexVerif.Model LexVerif.Model.Slow LexVerif.Model.ParseFloatAlgo
open LexVerif.Proof.RoundNE LexVerif.Proof.ExtRound LexVerif.Proof.Pipeline LexVerif.Proof.Slow
open LexVerif.Props.C01Slow LexVerif.Props.C01Main
open LexVerif.Props.C01 (IsLemireFloat Bracket)

/-- the model of the real `slow_radix` as the pipeline's parameter (`none` = panic is excluded on `SlowDomain`) -/
def slowModel : SlowRadix := fun c F n fp =>
  (slowRadix (envOf c.feats) F c.feats.radix c.mantissaRadix ⟨n.mantissa, n.exponent, n.integer, n.fraction⟩ fp).getD ⟨0, 0⟩

/-- the scientific exponent the slow path computes for a `Number` -/
def sciOf (c : Cfg) (n : Number) : Int := scientificExponent c.mantissaRadix n.mantissa n.exponent

/-- the inputs on which the slow-path model is proved: a build/radix with a digit limit `d`; validated, separator-free
digit bytes with a significant digit; a `Number` whose `mantissa`/`exponent` words put the leading digit where the
digits and the explicit exponent put it (`value`); the capacity
guard of `positive_digit_comp`; for a negative exponent a normalised estimate above the underflow cut with a finite
round-down — or one to `+∞` — and the matching capacity guard of `negative_digit_comp` (`NegFit`). (`fp` is the **un-biased** estimate.) -/
structure SlowDomain (c : Cfg) (F : FTy) (p : Nat) (n : Number) (fp : ExtendedFloat80) (d : Nat) : Prop where
  env : EnvRadix (envOf c.feats) c.mantissaRadix
  maxd : (envOf c.feats).S.maxDigits F.fmt c.mantissaRadix = some d
  validInt : ValidDigits c.mantissaRadix n.integer
  validFrac : ∀ fr, n.fraction = some fr → ValidDigits c.mantissaRadix fr
  nonempty : sigBytes n.integer n.fraction ≠ []
  bytes : ∀ x ∈ sigBytes n.integer n.fraction, x < 256
  sciLo : -(2 ^ 27 : Int) < sciOf c n
  sciHi : sciOf c n < 2 ^ 27
  value : RatEq (litFrac c.mantissaRadix c.exponentBase (numberLit c n))
    (sigValue c.mantissaRadix (sigBytes n.integer n.fraction) (sciOf c n))
  posGuard : 0 ≤ digitExponent (sciOf c n) (mantissaOf c.mantissaRadix d (sigBytes n.integer n.fraction)).2 →
    (mantissaOf c.mantissaRadix d (sigBytes n.integer n.fraction)).1 *
      c.mantissaRadix ^ (digitExponent (sciOf c n) (mantissaOf c.mantissaRadix d (sigBytes n.integer n.fraction)).2).toNat <
      2 ^ (64 * (envOf c.feats).L.bigintLimbs)
  negSide : digitExponent (sciOf c n) (mantissaOf c.mantissaRadix d (sigBytes n.integer n.fraction)).2 < 0 →
    2 ^ 63 ≤ fp.mant ∧ fp.mant < 2 ^ 64 ∧ fp.exp < 2 ^ 20 ∧
    NegFit (envOf c.feats) F p c.mantissaRadix (mantissaOf c.mantissaRadix d (sigBytes n.integer n.fraction)).1 fp
      (digitExponent (sciOf c n) (mantissaOf c.mantissaRadix d (sigBytes n.integer n.fraction)).2)

theorem isFloat_of {F : FTy} (hF : IsLemireFloat F) : IsFloat F := hF

/-- the value the slow path rounds, `M·radix^e`, rounds like the digit content of the `Number` -/
theorem roundNE_value {c : Cfg} {F : FTy} (hF : IsFloat F) {p eb : Nat} (lay : Layout F p eb) {n : Number}
    {fp : ExtendedFloat80} {d : Nat} (D : SlowDomain c F p n fp d) (hb : 0 < c.exponentBase) :
    roundNE F.fmt
        (powFrac c.mantissaRadix (digitExponent (sciOf c n) (mantissaOf c.mantissaRadix d (sigBytes n.integer n.fraction)).2)
          (mantissaOf c.mantissaRadix d (sigBytes n.integer n.fraction)).1).1
        (powFrac c.mantissaRadix (digitExponent (sciOf c n) (mantissaOf c.mantissaRadix d (sigBytes n.integer n.fraction)).2)
          (mantissaOf c.mantissaRadix d (sigBytes n.integer n.fraction)).1).2 =
      roundNE F.fmt (litFrac c.mantissaRadix c.exponentBase (numberLit c n)).1
        (litFrac c.mantissaRadix c.exponentBase (numberLit c n)).2 := by
  have hr2 := (envRadix_facts D.env).1
  have hrp : 0 < c.mantissaRadix := by omega
  have h1 : roundNE F.fmt (litFrac c.mantissaRadix c.exponentBase (numberLit c n)).1
      (litFrac c.mantissaRadix c.exponentBase (numberLit c n)).2 =
      roundNE F.fmt (sigValue c.mantissaRadix (sigBytes n.integer n.fraction) (sciOf c n)).1
        (sigValue c.mantissaRadix (sigBytes n.integer n.fraction) (sciOf c n)).2 :=
    roundNE_congr' lay.wf (litFrac_den_pos hrp hb _) (powFrac_den_pos hrp _ _) D.value
  rw [h1]
  by_cases hfew : (sigBytes n.integer n.fraction).length ≤ d
  · rw [value_untruncated _ _ _ _ hfew]
  · by_cases hz : anyNonzero ((sigBytes n.integer n.fraction).drop d) = true
    · have hvs : ValidDigits c.mantissaRadix (sigBytes n.integer n.fraction) := by
        unfold sigBytes
        cases hfr : n.fraction with
        | none => exact valid_skipZeros D.validInt
        | some fr =>
          simp only
          split
          · exact valid_skipZeros (D.validFrac fr hfr)
          · exact valid_append (valid_skipZeros D.validInt) (D.validFrac fr hfr)
      exact truncation_invariant_proved _ _ D.env F hF d D.maxd _ _ hvs D.bytes
        (fun c cs hcs => sigBytes_head hcs) (by omega) hz
    · exact value_zero_tail lay.wf hrp d _ _ (by omega) (by simpa using hz)

/-- **the obligation `hslow` of `numberToFloat_of_contracts`, for the slow-path model**: with the pipeline's (weak)
`Bracket` on the biased estimate and `SlowDomain` for the un-biased one, `slowModel` returns the float nearest to the
digit content of the `Number`. -/
theorem slowModel_hslow {c : Cfg} {F : FTy} (hF : IsLemireFloat F) {p eb : Nat} (lay : Layout F p eb)
    (hden : F.C.denormalExponent = 1 - F.C.exponentBias) (hb : 0 < c.exponentBase) (n : Number) (fp : ExtendedFloat80)
    {d : Nat} (D : SlowDomain c F p n { fp with exp := fp.exp - invalidFp } d)
    (hbr : Bracket F fp (litFrac c.mantissaRadix c.exponentBase (numberLit c n)).1
      (litFrac c.mantissaRadix c.exponentBase (numberLit c n)).2) :
    extendedToFloat F (slowModel c F n { fp with exp := fp.exp - invalidFp }) =
      roundNE F.fmt (litFrac c.mantissaRadix c.exponentBase (numberLit c n)).1
        (litFrac c.mantissaRadix c.exponentBase (numberLit c n)).2 := by
  have hv := roundNE_value (isFloat_of hF) lay D hb
  obtain ⟨res, e1, _, e3⟩ := slow_radix_correct D.env lay (isFloat_of hF) hden c.feats.radix D.maxd
    ⟨n.mantissa, n.exponent, n.integer, n.fraction⟩ { fp with exp := fp.exp - invalidFp }
    D.validInt D.validFrac D.nonempty D.bytes D.sciLo D.sciHi D.posGuard (by
      intro hneg
      obtain ⟨a1, a2, a4, a6⟩ := D.negSide hneg
      refine ⟨a1, a2, a4, ?_, a6⟩
      -- the pipeline's bracket is the weak bracket of the value the slow path rounds
      unfold WeakBracket
      have hpf : ∀ (e : Int) (M : Nat), e < 0 →
          powFrac c.mantissaRadix e M = (M, c.mantissaRadix ^ (-e).toNat) := by
        intro e M he; unfold powFrac; rw [if_neg (by omega)]
      have := hpf _ (mantissaOf c.mantissaRadix d (sigBytes n.integer n.fraction)).1 hneg
      unfold sciOf at this hv
      rw [this] at hv
      simp only at hv
      dsimp only
      rw [hv]
      exact hbr)
  unfold slowModel
  unfold sciOf at hv
  rw [e1, Option.getD_some, e3, hv]

/-- the radices with a digit limit are not powers of two: `slow_path` dispatches to `slow_radix` -/
theorem slowPath_generic (slow : SlowRadix) (c : Cfg) {E : Env} (h : EnvRadix E c.mantissaRadix) (F : FTy) (n : Number)
    (fp : ExtendedFloat80) : slowPath slow c F n fp = slow c F n fp := by
  have hnp : isPowerTwo c.mantissaRadix = false := by
    have hall : ∀ x ∈ digitRadices, isPowerTwo x = false := by decide
    rcases h with ⟨_, hr⟩ | ⟨_, hr⟩
    · rw [hr]; decide
    · exact hall _ hr
  unfold slowPath
  rw [hnp, Bool.and_false]
  simp

/-- **the pipeline with the modelled slow path**: fast-path contract + moderate-path contract + `SlowDomain` for every
invalid-marked estimate the moderate path can return ⇒ `numberToFloat slowModel` is `litBits` of the digit content.
(For decimal non-`compact` builds `Props.C01Main.fastContract_decimal` and, under `lemire_sound`,
`moderateContract_lemire` provide the first two.) -/
theorem numberToFloat_slowModel {F : FTy} (hF : IsLemireFloat F) {p eb : Nat} (lay : Layout F p eb)
    (hden : F.C.denormalExponent = 1 - F.C.exponentBias) (c : Cfg)
    (hr : 2 ≤ c.mantissaRadix) (hr36 : c.mantissaRadix ≤ 36) (hb : 2 ≤ c.exponentBase)
    (n : Number) (hmany : n.manyDigits = false)
    (hx : RatEq (powFrac c.exponentBase n.exponent n.mantissa)
      (litFrac c.mantissaRadix c.exponentBase (numberLit c n)))
    (hfast : FastContract c F n) (hmod : ModerateContract c F n)
    (hdom : ∀ fp, moderatePath c F (numOf n) false = .ok fp → fp.exp < 0 →
      ∃ d, SlowDomain c F p n { fp with exp := fp.exp - invalidFp } d) :
    numberToFloat slowModel c F n false = some (litBits F.fmt c.mantissaRadix c.exponentBase (numberLit c n)) := by
  apply numberToFloat_of_contracts slowModel hF c hr hr36 hb n hmany hx hfast hmod
  intro fp hm hneg hbr
  obtain ⟨d, D⟩ := hdom fp hm hneg
  rw [slowPath_generic slowModel c D.env]
  exact slowModel_hslow hF lay hden (by omega) n fp D hbr

end LexVerif.Props.C01SlowMain
