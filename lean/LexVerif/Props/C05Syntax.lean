import LexVerif.Props.C05Final
import LexVerif.Props.C05Number
/-!
# Props.C05Syntax — the syntax facts of `C05_radix_main`, discharged for the same-base classes

`Props.C05Final.C05_radix_main` has two residual hypotheses per `Number`: `SyntaxFacts` (the syntax layer) and, for generic
radices, `SlowFacts`. Here `SyntaxFacts` is **proved** from `Props.C05Number` (the radix-`r` versions of
`number_exact_of_syntax` / `number_truncated_of_syntax`) for every class whose exponent base is the mantissa radix:

* generic radices — `syntaxFacts_generic`, giving `C05_generic_main` (only `SlowFacts` is left, and a 55-bit mantissa for
  radix 31 with `f64`);
* power-of-two radices, exponent base = radix **and the five mixed-base pairs** (`BasePair`; `Props.C05Number` carries the
  scale factor `k = log radix / log base` of the implicit exponent) — `syntaxFacts_pow2`, giving `C05_pow2_main`,
  **unconditional** for inputs shorter than `2^54` bytes: the exponent word is inside `ExpWide` (`±2^59`) by the syntax
  layer, and `binary` is right there (`Proof.BinaryWide`: the saturating `calculate_power2` of /repo commit 220c4cc);
* `C05_radix_full_partial`: both, with the remaining hypotheses listed.
-/
namespace LexVerif.Props.C05Syntax
open LexVerif LexVerif.Spec LexVerif.Model LexVerif.Model.ParseFloatAlgo
open LexVerif.Proof.Slow LexVerif.Proof.Pipeline LexVerif.Proof.RoundNE LexVerif.Proof.Bell
open LexVerif.Props.C01Main LexVerif.Props.C01SlowMain LexVerif.Props.C01SlowDomain LexVerif.Props.C05 LexVerif.Props.C05Final
open LexVerif.Props.C01 (IsLemireFloat IsI64)

/-! ## the value of all the digits is a true value of the truncated word, any radix -/

/-- `S = w·r^A + tail`, `tail < r^A`, `q = A + E − fl`: `S·r^(E − fl)` is a true value of the truncated `⟨w, q⟩` -/
theorem interval_tv_r (r : Nat) (hr0 : 0 < r) (S w A fl : Nat) (q E : Int) (neg : Bool) (hS1 : w * r ^ A ≤ S) (hS2 : S < (w + 1) * r ^ A)
    (hq : q = (A : Int) + E - fl) :
    TrueValue r ⟨w, q, neg, true⟩ (S * r ^ E.toNat) (r ^ fl * r ^ (-E).toNat) := by
  unfold TrueValue
  simp only [if_true]
  rw [powFrac_eq, powFrac_eq]
  dsimp only
  have hexp : q.toNat + (fl + (-E).toNat) = A + E.toNat + (-q).toNat := by omega
  generalize q.toNat = a at *
  generalize (-q).toNat = b at *
  generalize E.toNat = e1 at *
  generalize (-E).toNat = e2 at *
  have k1 : w * r ^ a * (r ^ fl * r ^ e2) = w * r ^ A * (r ^ e1 * r ^ b) := by
    calc w * r ^ a * (r ^ fl * r ^ e2) = w * r ^ (a + (fl + e2)) := by rw [Nat.pow_add, Nat.pow_add]; ring
      _ = w * r ^ A * (r ^ e1 * r ^ b) := by rw [hexp, Nat.pow_add, Nat.pow_add]; ring
  have k2 : (w + 1) * r ^ a * (r ^ fl * r ^ e2) = (w + 1) * r ^ A * (r ^ e1 * r ^ b) := by
    calc (w + 1) * r ^ a * (r ^ fl * r ^ e2) = (w + 1) * r ^ (a + (fl + e2)) := by
          rw [Nat.pow_add, Nat.pow_add]; ring
      _ = (w + 1) * r ^ A * (r ^ e1 * r ^ b) := by rw [hexp, Nat.pow_add, Nat.pow_add]; ring
  have hpos : 0 < r ^ e1 * r ^ b := Nat.mul_pos (Nat.pow_pos hr0) (Nat.pow_pos hr0)
  constructor
  · rw [k1]
    calc w * r ^ A * (r ^ e1 * r ^ b) ≤ S * (r ^ e1 * r ^ b) := Nat.mul_le_mul_right _ hS1
      _ = S * r ^ e1 * r ^ b := by ring
  · rw [k2]
    calc S * r ^ e1 * r ^ b = S * (r ^ e1 * r ^ b) := by ring
      _ < (w + 1) * r ^ A * (r ^ e1 * r ^ b) := Nat.mul_lt_mul_of_pos_right hS2 hpos

/-- the value of all the digits of a truncated `Number` is one of its true values -/
theorem litFrac_tv_truncated_r (r stp : Nat) (hr0 : 0 < r) (c : Cfg) (hr : c.mantissaRadix = r) (n : Number) (hmany : n.manyDigits = true)
    (hs : PlainSlices c n) (hN : stp < (sigBytes n.integer n.fraction).length)
    (hw : n.mantissa = ofDigits r (dv r ((sigBytes n.integer n.fraction).take stp)))
    (hq : n.exponent = ((sigBytes n.integer n.fraction).length : Int) - stp + n.explicitExp -
      ((n.fraction.getD []).length : Int)) :
    TrueValue r (numOf n) (litFrac r r (numberLit c n)).1 (litFrac r r (numberLit c n)).2 := by
  have hnum : numOf n = ⟨n.mantissa, n.exponent, n.isNegative, true⟩ := by unfold numOf; rw [hmany]
  have hvs : ValidDigits r (sigBytes n.integer n.fraction) := by
    have := valid_sigBytes hs.validInt hs.validFrac
    rwa [hr] at this
  obtain ⟨z, hz⟩ := sig_decomp n.integer n.fraction
  have hD : ofDigits r ((numberLit c n).intDigits ++ (numberLit c n).fracDigits) =
      ofDigits r (dv r (sigBytes n.integer n.fraction)) := by
    rw [hs.intDigits, hs.fracDigits, hr]
    have : dv r n.integer ++ dv r (n.fraction.getD []) = dv r (n.integer ++ n.fraction.getD []) := by
      unfold dv; rw [List.map_append]
    rw [this, hz, ofDigits_dv_zeros]
  have hfl : (numberLit c n).fracDigits.length = (n.fraction.getD []).length := by
    rw [hs.fracDigits, dv_length]
  have hE : (numberLit c n).exp = n.explicitExp := rfl
  have hV : litFrac r r (numberLit c n) =
      (ofDigits r (dv r (sigBytes n.integer n.fraction)) * r ^ n.explicitExp.toNat,
        r ^ (n.fraction.getD []).length * r ^ (-n.explicitExp).toNat) := by
    rw [litFrac_eq, hD, hfl, hE]
  have hSsplit := C01Number.ofDigits_dv_take_drop r (sigBytes n.integer n.fraction) stp
  have hStail := ofDigits_dv_lt (valid_drop hvs stp)
  rw [← hw, List.length_drop] at hSsplit
  rw [List.length_drop] at hStail
  generalize hsig : sigBytes n.integer n.fraction = sig at *
  generalize hS : ofDigits r (dv r sig) = S at *
  generalize hfle : (n.fraction.getD []).length = fl at *
  generalize htl : ofDigits r (dv r (List.drop stp sig)) = tl at *
  have hS1 : n.mantissa * r ^ (sig.length - stp) ≤ S := by omega
  have hS2 : S < (n.mantissa + 1) * r ^ (sig.length - stp) := by
    have : (n.mantissa + 1) * r ^ (sig.length - stp) = n.mantissa * r ^ (sig.length - stp) + r ^ (sig.length - stp) := by
      ring
    omega
  rw [hnum, hV]
  exact interval_tv_r r hr0 S n.mantissa (sig.length - stp) fl n.exponent n.explicitExp n.isNegative hS1 hS2 (by omega)

/-- the value of a `Number` whose slices are plain digits: `S·b^E / r^fl` with `S` the value of the significant digits -/
theorem litFrac_plain (r b : Nat) (c : Cfg) (hr : c.mantissaRadix = r) (n : Number) (hs : PlainSlices c n) :
    litFrac r b (numberLit c n) =
      (ofDigits r (dv r (sigBytes n.integer n.fraction)) * b ^ n.explicitExp.toNat,
        r ^ (n.fraction.getD []).length * b ^ (-n.explicitExp).toNat) := by
  obtain ⟨z, hz⟩ := sig_decomp n.integer n.fraction
  have hD : ofDigits r ((numberLit c n).intDigits ++ (numberLit c n).fracDigits) =
      ofDigits r (dv r (sigBytes n.integer n.fraction)) := by
    rw [hs.intDigits, hs.fracDigits, hr]
    have : dv r n.integer ++ dv r (n.fraction.getD []) = dv r (n.integer ++ n.fraction.getD []) := by
      unfold dv; rw [List.map_append]
    rw [this, hz, ofDigits_dv_zeros]
  have hfl : (numberLit c n).fracDigits.length = (n.fraction.getD []).length := by
    rw [hs.fracDigits, dv_length]
  have hE : (numberLit c n).exp = n.explicitExp := rfl
  rw [C05Number.litFrac_eq2, hD, hfl, hE]

/-! ## the exponent bases of a power-of-two radix -/

/-- the (mantissa radix, exponent base) pairs the code supports, with `k = log(radix)/log(base)`: equal bases, and the
five mixed pairs 4/2, 8/2, 16/2, 32/2, 16/4 -/
inductive BasePair : Nat → Nat → Nat → Prop
  | same (r : Nat) : BasePair r r 1
  | r4b2 : BasePair 4 2 2
  | r8b2 : BasePair 8 2 3
  | r16b2 : BasePair 16 2 4
  | r32b2 : BasePair 32 2 5
  | r16b4 : BasePair 16 4 2

theorem BasePair.pow {r b k : Nat} (h : BasePair r b k) : r = b ^ k := by
  cases h <;> simp

theorem BasePair.k5 {r b k : Nat} (h : BasePair r b k) : k ≤ 5 := by
  cases h <;> omega

theorem BasePair.k1 {r b k : Nat} (h : BasePair r b k) : 1 ≤ k := by
  cases h <;> omega

theorem BasePair.isPow2 {r b k : Nat} (h : BasePair r b k) (hr : IsPow2 r) : IsPow2 b := by
  cases h
  · exact hr
  all_goals (unfold IsPow2; decide)

theorem BasePair.scale (c : Cfg) {k : Nat} (h : BasePair c.mantissaRadix c.exponentBase k) (x : Int) :
    LexVerif.Proof.Sep.scaleVal c x = x * k := by
  generalize hr : c.mantissaRadix = r at h
  generalize hb : c.exponentBase = b at h
  unfold LexVerif.Proof.Sep.scaleVal
  cases h
  · rw [if_pos (by rw [hr, hb])]; simp
  · rw [if_neg (by rw [hr, hb]; decide), hr, hb]; simp [log2Radix]
  · rw [if_neg (by rw [hr, hb]; decide), hr, hb]; simp [log2Radix]
  · rw [if_neg (by rw [hr, hb]; decide), hr, hb]; simp [log2Radix]
  · rw [if_neg (by rw [hr, hb]; decide), hr, hb]; simp [log2Radix]
  · rw [if_neg (by rw [hr, hb]; decide), hr, hb]
    simp only [log2Radix]
    have : x * ((4 : Nat) : Int) = x * 2 * 2 := by push_cast; ring
    simp
    have e : x * 4 = x * 2 * 2 := by ring
    rw [e, Int.mul_tdiv_cancel _ (by decide)]

/-! ## `u64_step` of the syntax layer and of the tables -/

theorem step_facts : ∀ r, r < 37 → 2 ≤ r →
    r ^ u64StepTable.getD (r - 2) 1 ≤ 2 ^ 64 ∧ 1 ≤ u64StepTable.getD (r - 2) 1 := by decide +kernel

theorem step_generic55 : ∀ x ∈ bellRadicesRadix, x ≠ 31 → 2 ^ 55 ≤ x ^ (u64StepTable.getD (x - 2) 1 - 1) := by
  decide +kernel

theorem step_generic54 : ∀ x ∈ bellRadicesRadix, 2 ^ 54 ≤ x ^ (u64StepTable.getD (x - 2) 1 - 1) := by
  decide +kernel

theorem u64Step_radix (feats : Features) (hr : feats.radix = true) {r : Nat} (h2 : 2 ≤ r) (h36 : r ≤ 36) :
    u64Step feats r = u64StepTable.getD (r - 2) 1 := by
  unfold u64Step
  rw [hr]
  simp [h2, h36]

theorem u64Step_pow2_eq (feats : Features) (hp : feats.powerOfTwo = true) {r : Nat} (hr : IsPow2 r) :
    u64Step feats r = (smallSetOf feats).u64Step r := by
  unfold u64Step smallSetOf
  rw [hp]
  rcases hr with h | h | h | h | h <;> subst h <;> cases feats.radix <;> cases feats.compact <;> rfl

theorem generic_not_isPow2 {r : Nat} (h : r ∈ bellRadicesRadix) : ¬ IsPow2 r := by
  have hall : ∀ x ∈ bellRadicesRadix, ¬ (x = 2 ∨ x = 4 ∨ x = 8 ∨ x = 16 ∨ x = 32) := by decide
  exact hall r h

/-! ## the digit values `slow_binary` sees are the digits of the significant bytes -/

theorem digitVal_48 (r : Nat) : Binary.digitVal 48 r = 0 := by
  unfold Binary.digitVal
  split_ifs <;> omega

theorem digitVal_zero {x r : Nat} (hx : x < 256) (h : Binary.digitVal x r = 0) : x = 48 := by
  unfold Binary.digitVal at h
  split_ifs at h <;> omega

theorem dropWhile_replicate_zero (z : Nat) (l : List Nat) :
    (List.replicate z 0 ++ l).dropWhile (· == 0) = l.dropWhile (· == 0) := by
  induction z with
  | zero => rfl
  | succ k ih => rw [List.replicate_succ, List.cons_append, List.dropWhile_cons]; simpa using ih

theorem sigDigits_eq (r : Nat) (i : List Nat) (f : Option (List Nat)) (h256 : ∀ x ∈ sigBytes i f, x < 256) :
    sigDigits r i f = dv r (sigBytes i f) := by
  obtain ⟨z, hz⟩ := sig_decomp i f
  have e1 : sigDigits r i f = (dv r (i ++ f.getD [])).dropWhile (· == 0) := rfl
  have e2 : dv r (List.replicate z 48 ++ sigBytes i f) = List.replicate z 0 ++ dv r (sigBytes i f) := by
    unfold dv
    rw [List.map_append, List.map_replicate, digitVal_48]
  rw [e1, hz, e2, dropWhile_replicate_zero]
  cases hsb : sigBytes i f with
  | nil => rfl
  | cons c cs =>
    have hc48 := LexVerif.Proof.Slow.sigBytes_head hsb
    have hc := h256 c (by rw [hsb]; exact List.mem_cons_self)
    have hne : Binary.digitVal c r ≠ 0 := fun h => hc48 (digitVal_zero hc h)
    have e3 : dv r (c :: cs) = Binary.digitVal c r :: dv r cs := rfl
    rw [e3, List.dropWhile_cons]
    simp [hne]

theorem dv_take (r : Nat) (bs : List Nat) (k : Nat) : (dv r bs).take k = dv r (bs.take k) := by
  unfold dv; rw [List.map_take]

/-! ## `SyntaxFacts`, generic radices -/

/-- **`SyntaxFacts` for a generic radix** (exponent base = radix, separator-free format class, valid punctuation, input of
bytes shorter than `2^60`). Every `u64_step`-digit mantissa has 54 bits; 55 for every radix but 31 (`31^11 ≈ 2^54.5`). -/
theorem syntaxFacts_generic (feats : Features) (fmt : Format) (G : GenericClass ⟨feats, fmt, false⟩)
    (hfeat : feats.radix = true → feats.powerOfTwo = true)
    (hclass : feats.format = false ∨ C12.SepPrefixFree fmt) (o : POpts)
    (hval : isValidOptionsPunctuation feats fmt o.exp o.dp = true) (isPartial : Bool) (s : List Nat) (fv : Bool)
    (h256 : ∀ x ∈ s, x < 256) (hlen : s.length < 2 ^ 60) (n : Number) (cnt : Nat)
    (hp : parseFloatSyntax ⟨feats, fmt, false⟩ o isPartial s fv = .ok (.number n cnt)) :
    SyntaxFacts ⟨feats, fmt, false⟩ n := by
  have hmem : fmt.mantissaRadix ∈ bellRadicesRadix := G.mem
  have hbase : fmt.exponentBase = fmt.mantissaRadix := G.base
  have hrad : feats.radix = true := G.radix
  obtain ⟨_, _, h2, h36⟩ := generic_not_pow2 hmem
  have hnp := generic_not_isPow2 hmem
  obtain ⟨hfit, hstp1⟩ := step_facts fmt.mantissaRadix (by omega) h2
  have hstep := u64Step_radix feats hrad h2 h36
  have hr8 : (⟨feats, fmt, false⟩ : Cfg).feats.powerOfTwo = false → (⟨feats, fmt, false⟩ : Cfg).mantissaRadix ≤ 10 := by
    intro h
    have : feats.powerOfTwo = true := hfeat hrad
    have h' : feats.powerOfTwo = false := h
    rw [this] at h'; cases h'
  have hdp := C05Number.dp_not_digit_r feats fmt o hval
  have hsc1 : ∀ x : Int, LexVerif.Proof.Sep.scaleVal ⟨feats, fmt, false⟩ x = x * (1 : Nat) := by
    intro x; rw [C01Number.scaleVal_same_base ⟨feats, fmt, false⟩ hbase.symm]; simp
  refine ⟨fun hmany => ?_, fun _ hpw => absurd hpw hnp, fun hmany _ => ?_⟩
  · obtain ⟨hx, _, _⟩ := C05Number.number_exact_of_syntax_r fmt.mantissaRadix _ h2 hstp1 hfit ⟨feats, fmt, false⟩ hstep hr8 rfl
      hclass rfl fmt.mantissaRadix 1 (by decide) (by simp) hbase hsc1 o hdp isPartial s fv h256 hlen n cnt hp hmany
    exact ⟨hx, fun hpw => absurd hpw hnp⟩
  · obtain ⟨hs, hN, hw, hw1, hwlt, hq, _, _, _, _⟩ := C05Number.number_truncated_of_syntax_r fmt.mantissaRadix _ h2 hstp1 hfit
      ⟨feats, fmt, false⟩ hstep hr8 rfl hclass rfl fmt.mantissaRadix 1 (by decide) (by simp) hbase hsc1 o hdp isPartial s fv h256 hlen n cnt hp hmany
    have hq : n.exponent = ((sigBytes n.integer n.fraction).length : Int) - (u64StepTable.getD (fmt.mantissaRadix - 2) 1 : Nat) +
        n.explicitExp - ((n.fraction.getD []).length : Int) := by rw [hq]; push_cast; ring
    refine ⟨by omega, Nat.le_trans (step_generic54 _ hmem) hw1, fun h => Nat.le_trans (step_generic55 _ hmem h) hw1, ?_⟩
    · have := litFrac_tv_truncated_r fmt.mantissaRadix _ (by omega) ⟨feats, fmt, false⟩ rfl n hmany hs hN hw hq
      have hb' : (⟨feats, fmt, false⟩ : Cfg).exponentBase = fmt.mantissaRadix := hbase
      rw [hb']
      exact this

/-! ## `SyntaxFacts`, power-of-two radices: same exponent base and the five mixed-base pairs -/

open LexVerif.Proof.SlowBinary in
/-- **`SyntaxFacts` for a power-of-two radix with any supported exponent base** (`BasePair`: the radix itself, or the mixed
pairs 4/2, 8/2, 16/2, 32/2, 16/4); `hexp`: the exponent word is inside `±2^27` (the range `binary` is proved for) -/
theorem syntaxFacts_pow2 (feats : Features) (fmt : Format) (hpf : feats.powerOfTwo = true)
    (hpw : IsPow2 fmt.mantissaRadix) {k : Nat} (hpair : BasePair fmt.mantissaRadix fmt.exponentBase k)
    (hclass : feats.format = false ∨ C12.SepPrefixFree fmt) (o : POpts)
    (hval : isValidOptionsPunctuation feats fmt o.exp o.dp = true) (isPartial : Bool) (s : List Nat) (fv : Bool)
    (h256 : ∀ x ∈ s, x < 256) (hlen54 : s.length < 2 ^ 54) (n : Number) (cnt : Nat)
    (hp : parseFloatSyntax ⟨feats, fmt, false⟩ o isPartial s fv = .ok (.number n cnt)) :
    SyntaxFacts ⟨feats, fmt, false⟩ n := by
  have hlen : s.length < 2 ^ 60 := Nat.lt_of_lt_of_le hlen54 (Nat.pow_le_pow_right (by decide) (by decide))
  have h54 : (2 : Nat) ^ 54 = 18014398509481984 := by decide
  have h59 : (2 : Int) ^ 59 = 576460752303423488 := by decide
  have h40 : (2 : Int) ^ 40 = 1099511627776 := by decide
  have hkc : k = 1 ∨ k = 2 ∨ k = 3 ∨ k = 4 ∨ k = 5 := by
    have := hpair.k1; have := hpair.k5; omega
  have h2 : 2 ≤ fmt.mantissaRadix := by rcases hpw with h | h | h | h | h <;> rw [h] <;> omega
  obtain ⟨hfit, _, _, hstp1⟩ := u64Step_pow2 feats hpf hpw
  have hstep := u64Step_pow2_eq feats hpf hpw
  have hr8 : (⟨feats, fmt, false⟩ : Cfg).feats.powerOfTwo = false → (⟨feats, fmt, false⟩ : Cfg).mantissaRadix ≤ 10 := by
    intro h
    have h' : feats.powerOfTwo = false := h
    rw [hpf] at h'; cases h'
  have hdp := C05Number.dp_not_digit_r feats fmt o hval
  have hsc : ∀ x : Int, LexVerif.Proof.Sep.scaleVal ⟨feats, fmt, false⟩ x = x * k :=
    BasePair.scale ⟨feats, fmt, false⟩ hpair
  have hrk := hpair.pow
  refine ⟨fun hmany => ?_, fun hmany _ => ?_, fun _ G => absurd hpw (generic_not_isPow2 G.mem)⟩
  · obtain ⟨hx, _, _, hbd⟩ := C05Number.number_exact_of_syntax_r fmt.mantissaRadix _ h2 hstp1 hfit ⟨feats, fmt, false⟩ hstep hr8 rfl
      hclass rfl fmt.exponentBase k hpair.k5 hrk rfl hsc o hdp isPartial s fv h256 hlen n cnt hp hmany
    exact ⟨hx, fun _ => by unfold LexVerif.Proof.BinaryWide.ExpWide; omega⟩
  · obtain ⟨hs, hN, hw, hw1, hwlt, hq, hE1, hE2, hl1, hl2⟩ := C05Number.number_truncated_of_syntax_r fmt.mantissaRadix _ h2 hstp1 hfit
      ⟨feats, fmt, false⟩ hstep hr8 rfl hclass rfl fmt.exponentBase k hpair.k5 hrk rfl hsc o hdp isPartial s fv h256 hlen n cnt hp hmany
    have hbs : ∀ x ∈ sigBytes n.integer n.fraction, x < 256 := by
      intro x hx
      rcases mem_sigBytes hx with h | ⟨fr, hfr, h⟩
      · exact hs.bytesInt x h
      · exact hs.bytesFrac fr hfr x h
    have hsd := sigDigits_eq fmt.mantissaRadix n.integer n.fraction hbs
    have hV := litFrac_plain fmt.mantissaRadix fmt.exponentBase ⟨feats, fmt, false⟩ rfl n hs
    have hr' : (⟨feats, fmt, false⟩ : Cfg).mantissaRadix = fmt.mantissaRadix := rfl
    have hb' : (⟨feats, fmt, false⟩ : Cfg).exponentBase = fmt.exponentBase := rfl
    have hf' : (⟨feats, fmt, false⟩ : Cfg).feats = feats := rfl
    have hexp : LexVerif.Proof.BinaryWide.ExpWide n.exponent := by
      obtain ⟨z, hz⟩ := sig_decomp n.integer n.fraction
      have hNle : (sigBytes n.integer n.fraction).length ≤ n.integer.length + (n.fraction.getD []).length := by
        have := congrArg List.length hz
        rw [List.length_append, List.length_append, List.length_replicate] at this
        omega
      have hstp64 : (smallSetOf feats).u64Step fmt.mantissaRadix ≤ 64 := by
        have h1 : 2 ^ (smallSetOf feats).u64Step fmt.mantissaRadix ≤
            fmt.mantissaRadix ^ (smallSetOf feats).u64Step fmt.mantissaRadix := Nat.pow_le_pow_left h2 _
        exact (Nat.pow_le_pow_iff_right (by decide : 1 < 2)).mp (Nat.le_trans h1 hfit)
      unfold LexVerif.Proof.BinaryWide.ExpWide
      rw [hq]
      generalize (sigBytes n.integer n.fraction).length = N at *
      generalize (smallSetOf feats).u64Step fmt.mantissaRadix = stp at *
      generalize (n.fraction.getD []).length = fl at *
      rcases hkc with rfl | rfl | rfl | rfl | rfl <;> push_cast <;> constructor <;> omega
    constructor
    · exact hexp
    · intro x hx
      rw [hr']
      rcases List.mem_append.mp hx with h | h
      · exact ⟨hs.bytesInt x h, hs.validInt x h⟩
      · cases hfr : n.fraction with
        | none => rw [hfr] at h; simp at h
        | some fr =>
          rw [hfr] at h
          exact ⟨hs.bytesFrac fr hfr x h, hs.validFrac fr hfr x h⟩
    · rw [hr', hf', hsd, dv_length]; exact hN
    · rw [hr', hf', hsd, dv_take]
      exact hw
    · rw [hr', hb', hf', hsd, dv_length, hV]
      have e0 : valOf fmt.mantissaRadix 0 (dv fmt.mantissaRadix (sigBytes n.integer n.fraction)) =
          ofDigits fmt.mantissaRadix (dv fmt.mantissaRadix (sigBytes n.integer n.fraction)) := rfl
      rw [e0, powFrac_eq]
      unfold RatEq
      dsimp only
      generalize (smallSetOf feats).u64Step fmt.mantissaRadix = stp at *
      generalize ofDigits fmt.mantissaRadix (dv fmt.mantissaRadix (sigBytes n.integer n.fraction)) = S
      generalize (sigBytes n.integer n.fraction).length = N at *
      generalize (n.fraction.getD []).length = fl at *
      generalize fmt.exponentBase = b at *
      rw [hrk, ← Nat.pow_mul, ← Nat.pow_mul]
      have hq' : n.exponent = ((k * (N - stp) : Nat) : Int) - ((k * fl : Nat) : Int) + n.explicitExp := by
        rw [hq]; push_cast [Nat.cast_sub (Nat.le_of_lt hN)]; ring
      generalize k * (N - stp) = T1 at *
      generalize k * fl = T2 at *
      have hexpo : n.explicitExp.toNat + ((-n.exponent).toNat + T1) =
          n.exponent.toNat + (T2 + (-n.explicitExp).toNat) := by omega
      calc S * b ^ n.explicitExp.toNat * (b ^ (-n.exponent).toNat * b ^ T1)
          = S * b ^ (n.explicitExp.toNat + ((-n.exponent).toNat + T1)) := by
            rw [Nat.pow_add, Nat.pow_add]; ring
        _ = S * b ^ n.exponent.toNat * (b ^ T2 * b ^ (-n.explicitExp).toNat) := by
            rw [hexpo, Nat.pow_add, Nat.pow_add]; ring

/-! ## API level -/

/-- **`C05_generic_main`** — generic radices (the 29 radices with Bellerophon tables, `radix` builds, `compact` or not,
exponent base = radix), separator-free format classes of C12, `f32`/`f64`, complete and partial parser, inputs of bytes
shorter than `2^60`: the pipeline with the modelled slow path prints what the specification prints. The syntax layer is
discharged; what remains, per `Number` of the input: `hslow` (`SlowFacts`: what `digit_comp` / `byte_comp` make of a
bracketing invalid-marked estimate) and, for radix 31 with `f64` only, `h31` (a truncated mantissa of at least 55 bits;
`f32` needs 54, which every `u64_step`-digit mantissa has). -/
theorem C05_generic_main (feats : Features) (fmt : Format) (G : GenericClass ⟨feats, fmt, false⟩)
    (hfeat : feats.radix = true → feats.powerOfTwo = true)
    (hclass : feats.format = false ∨ C12.SepPrefixFree fmt)
    (o : POpts) {F : FTy} (hF : IsLemireFloat F) (isPartial : Bool) (s : List Nat)
    (h256 : ∀ x ∈ s, x < 256) (hlen : s.length < 2 ^ 60)
    (h31 : fmt.mantissaRadix = 31 → F = FTy.f64 → ∀ n cnt, parseFloatSyntax ⟨feats, fmt, false⟩ o isPartial s
      (formatError feats fmt).isNone = .ok (.number n cnt) → n.manyDigits = true → 2 ^ 55 ≤ n.mantissa)
    (hslow : ∀ n cnt, parseFloatSyntax ⟨feats, fmt, false⟩ o isPartial s (formatError feats fmt).isNone =
      .ok (.number n cnt) → SlowFacts slowModel ⟨feats, fmt, false⟩ F n) :
    parseFloatAlgoModel slowModel feats fmt o isPartial F s = parseFloatModel feats fmt o isPartial F.fmt s := by
  apply C01Final.parseFloatAlgoModel_eq_valid
  intro hval n cnt hp
  exact numberToFloat_radix slowModel hF ⟨feats, fmt, false⟩ (.generic G) n
    (syntaxFacts_generic feats fmt G hfeat hclass o hval isPartial s _ h256 hlen n cnt hp)
    (fun _ => hslow n cnt hp) (fun h hf => h31 h hf n cnt hp)

/-- **`C05_pow2_main`** — power-of-two radices (2, 4, 8, 16, 32) with every supported exponent base (`BasePair`: the radix
itself and the five mixed pairs 4/2, 8/2, 16/2, 32/2, 16/4 — hex floats with a binary exponent), every `power-of-two` build:
inputs of bytes shorter than `2^54`: **unconditional** — no slow-path hypothesis (`binary` / `slow_binary` are proved) and no
exponent hypothesis (`binary` with the saturating `calculate_power2` of /repo commit 220c4cc is right on `ExpWide`, which the
syntax layer guarantees for such inputs: the explicit exponent saturates below `2^40`). -/
theorem C05_pow2_main (feats : Features) (fmt : Format) (hpf : feats.powerOfTwo = true)
    (hpw : IsPow2 fmt.mantissaRadix) {k : Nat} (hpair : BasePair fmt.mantissaRadix fmt.exponentBase k)
    (hclass : feats.format = false ∨ C12.SepPrefixFree fmt)
    (o : POpts) {F : FTy} (hF : IsLemireFloat F) (isPartial : Bool) (s : List Nat)
    (h256 : ∀ x ∈ s, x < 256) (hlen : s.length < 2 ^ 54) :
    parseFloatAlgoModel slowModel feats fmt o isPartial F s = parseFloatModel feats fmt o isPartial F.fmt s := by
  apply C01Final.parseFloatAlgoModel_eq_valid
  intro hval n cnt hp
  have hb2 : IsPow2 (⟨feats, fmt, false⟩ : Cfg).exponentBase := hpair.isPow2 hpw
  exact numberToFloat_radix slowModel hF ⟨feats, fmt, false⟩ (.pow2 hpf hpw hb2) n
    (syntaxFacts_pow2 feats fmt hpf hpw hpair hclass o hval isPartial s _ h256 hlen n cnt hp)
    (fun G => absurd hpw (generic_not_isPow2 G.mem))
    (fun h => by
      have h' : fmt.mantissaRadix = 31 := h
      rw [h'] at hpw; unfold IsPow2 at hpw; omega)

/-- **`C05_radix_full_partial`** — what is proved of `C05_radix_full`, with the remaining hypotheses listed. For every
non-decimal radix class — power-of-two radices 2, 4, 8, 16, 32 of `power-of-two` builds with the exponent base equal to the
radix or one of the five mixed pairs (`BasePair`), and the 29 generic radices of `radix` builds (`compact` or not) with
exponent base = radix —, separator-free format classes of C12, `f32`/`f64`, complete and partial parser, inputs of bytes
shorter than `2^54`: `parseFloatAlgoModel slowModel = parseFloatModel`.

* power-of-two radices: **no remaining hypothesis**;
* generic radices: `hslow` — per `Number` of the input, `SlowFacts`: what `slow_radix` (`digit_comp` for even, `byte_comp`
  for odd radices) returns for the un-biased, invalid-marked Bellerophon estimate that brackets the value. Its content is
  proved on the models (`Props.C01Slow.slow_radix_correct_full_proved`, `Props.C05Bytes.slow_radix_bytes_correct`) under
  their domain conditions — `SlowDomain` (capacity of `BIGINT_LIMBS`, exponent range) resp. `FirstDigitFits` and no capacity
  failure of the 18-limb `Bigfloat` — which are not derived from the input here;
* radix 31, `f64`: `h31` — a truncated mantissa word of at least 55 bits (`31^11 ≈ 2^54.5`; the bracketing of an
  invalid-marked estimate is proved from 55 bits for `f64`, from 54 for `f32`). -/
theorem C05_radix_full_partial (feats : Features) (fmt : Format)
    (R : (feats.powerOfTwo = true ∧ IsPow2 fmt.mantissaRadix ∧ ∃ k, BasePair fmt.mantissaRadix fmt.exponentBase k) ∨
      GenericClass ⟨feats, fmt, false⟩)
    (hfeat : feats.radix = true → feats.powerOfTwo = true)
    (hclass : feats.format = false ∨ C12.SepPrefixFree fmt)
    (o : POpts) {F : FTy} (hF : IsLemireFloat F) (isPartial : Bool) (s : List Nat)
    (h256 : ∀ x ∈ s, x < 256) (hlen : s.length < 2 ^ 54)
    (hslow : GenericClass ⟨feats, fmt, false⟩ → ∀ n cnt, parseFloatSyntax ⟨feats, fmt, false⟩ o isPartial s
      (formatError feats fmt).isNone = .ok (.number n cnt) → SlowFacts slowModel ⟨feats, fmt, false⟩ F n)
    (h31 : fmt.mantissaRadix = 31 → F = FTy.f64 → ∀ n cnt, parseFloatSyntax ⟨feats, fmt, false⟩ o isPartial s
      (formatError feats fmt).isNone = .ok (.number n cnt) → n.manyDigits = true → 2 ^ 55 ≤ n.mantissa) :
    parseFloatAlgoModel slowModel feats fmt o isPartial F s = parseFloatModel feats fmt o isPartial F.fmt s := by
  rcases R with ⟨hpf, hpw, k, hpair⟩ | G
  · exact C05_pow2_main feats fmt hpf hpw hpair hclass o hF isPartial s h256 hlen
  · exact C05_generic_main feats fmt G hfeat hclass o hF isPartial s h256
      (Nat.lt_of_lt_of_le hlen (Nat.pow_le_pow_right (by decide) (by decide))) h31 (hslow G)

/-- non-vacuity: the hexadecimal format (exponent base 16) of a `power-of-two` build; the radix-3 format of a `radix` build -/
example (s : List Nat) (h256 : ∀ x ∈ s, x < 256) (hlen : s.length < 2 ^ 54) :
    parseFloatAlgoModel slowModel { powerOfTwo := true } ⟨0x0a10100000000000000000000000000c⟩ {} false FTy.f64 s =
      parseFloatModel { powerOfTwo := true } ⟨0x0a10100000000000000000000000000c⟩ {} false f64 s :=
  C05_pow2_main { powerOfTwo := true } ⟨0x0a10100000000000000000000000000c⟩ rfl
    (by unfold IsPow2; decide) (BasePair.same 16) (Or.inl rfl) {} (Or.inl rfl) false s h256 hlen

/-- non-vacuity for a mixed-base pair: hexadecimal digits with a binary exponent (hex floats) -/
example (s : List Nat) (h256 : ∀ x ∈ s, x < 256) (hlen : s.length < 2 ^ 54) :
    parseFloatAlgoModel slowModel { powerOfTwo := true } ⟨0x0a02100000000000000000000000000c⟩ {} false FTy.f64 s =
      parseFloatModel { powerOfTwo := true } ⟨0x0a02100000000000000000000000000c⟩ {} false f64 s :=
  C05_pow2_main { powerOfTwo := true } ⟨0x0a02100000000000000000000000000c⟩ rfl
    (by unfold IsPow2; decide) (k := 4)
    (by
      have h1 : (⟨0x0a02100000000000000000000000000c⟩ : Format).mantissaRadix = 16 := by decide
      have h2 : (⟨0x0a02100000000000000000000000000c⟩ : Format).exponentBase = 2 := by decide
      rw [h1, h2]; exact .r16b2)
    (Or.inl rfl) {} (Or.inl rfl) false s h256 hlen

example : GenericClass ⟨{ powerOfTwo := true, radix := true }, ⟨0x0303030000000000000000000000000c⟩, false⟩ :=
  ⟨rfl, by decide, by decide⟩

/-- the pipeline on 46-digit radix-3 literals around the half-way point `2^53 + 1` (truncated mantissa, Bellerophon cannot
decide, `byte_comp` does): just above rounds up, exactly half-way and just below round to even -/
example :
    parseFloatAlgoModel slowModel { powerOfTwo := true, radix := true } ⟨0x0303030000000000000000000000000c⟩ {} false FTy.f64
      (C01Slow.bytesOf "1121202011211211122211100012101120.000000000001") = "ok 4340000000000001 -" ∧
    parseFloatAlgoModel slowModel { powerOfTwo := true, radix := true } ⟨0x0303030000000000000000000000000c⟩ {} false FTy.f64
      (C01Slow.bytesOf "1121202011211211122211100012101120.000000000000") = "ok 4340000000000000 -" ∧
    parseFloatAlgoModel slowModel { powerOfTwo := true, radix := true } ⟨0x0303030000000000000000000000000c⟩ {} false FTy.f64
      (C01Slow.bytesOf "1121202011211211122211100012101112.222222222222") = "ok 4340000000000000 -" := by decide +kernel

end LexVerif.Props.C05Syntax
