import LexVerif.Props.RoundNE
import LexVerif.Proof.WriteRadixInt
import LexVerif.Proof.WriteBinaryShape
import LexVerif.Proof.WriteRadixFrac
import LexVerif.Proof.WriteRadixIntText
import LexVerif.Proof.WriteRadixRound
import LexVerif.Proof.WriteRadixError
import LexVerif.Proof.WriteRadixMid
import LexVerif.Proof.WriteRadixBig
import LexVerif.Proof.WriteRadixSmall
import LexVerif.Proof.WriteRadixFix
import Mathlib.Tactic.SplitIfs
/-!
# C07 — generic-radix float output

1. the judge: the check measures, for each written output, the distance between the float and the nearest float of the
   output's exact value; monotonicity of `roundNE` makes that measurement meaningful.
2. `RadixInteger`: the abstract integer path (`Model/WriteRadixInt.lean`, assumption `IeeeExact`).
3. `RadixFull`: theorems about the WHOLE writer `Model/WriteRadix.lean` (hardware arithmetic modelled exactly as
   "exact result, then round to nearest even"; tied to radix.rs byte-for-byte by the `wf` correspondence):
   well-formedness (3a), termination / fuel adequacy (3b), integer exactness with the `IeeeExact` assumption discharged
   (3c), and the ulp clause (3d): `radix_error_bound : C07_radix_error_bound` — the digits denote a number whose nearest
   float is within 1364 (f64) / 246 (f32) patterns of the input — with the text-level exclusion `PositionalFits`.
-/
namespace LexVerif.Props.C07
open LexVerif.Spec LexVerif.Proof.RoundNE LexVerif.Props.RoundNE

/-- the judge's nearest-float map is monotone in the exact value (f64 instance) -/
theorem judge_monotone_f64 (a b c d : Nat) (hb : 0 < b) (hd : 0 < d) (h : (a : ℚ) / b ≤ (c : ℚ) / d) :
    roundNE f64 a b ≤ roundNE f64 c d :=
  roundNE_mono wf_f64 hb hd h

/-! ## the integer part of radix.rs (model `Model/WriteRadixInt.lean`, tied by the `wf` correspondence on integral floats)

IEEE ASSUMPTION, explicit: `IeeeExact lim ops` — on operands that are integers below `lim = 2^53` (f64) / `2^24` (f32),
the float operations `%`, `-`, `/` return the exact result whenever that result is an integer below `lim` (i.e. is
representable; IEEE-754 requires correctly rounded `-`, `/` and an exact remainder). The hardware is trusted to satisfy
it; the Lean driver runs the model with `exactOps`, which satisfies it by definition (`exactOps_ieee`). -/
section RadixInteger
open LexVerif.Model LexVerif.Model.WriteBinary LexVerif.Model.WriteRadixInt LexVerif.Proof.WriteRadixInt
open LexVerif.Proof.WriteBinaryDigits LexVerif.Proof.WriteBinaryShape

theorem exactOps_satisfies_assumption (lim : Nat) : IeeeExact lim exactOps := exactOps_ieee lim

/-- `radix_integer_exact` (digits): for a float whose value is an integer `1 ≤ n < lim ≤ 2^64`, any radix `2 ≤ r < lim`,
the digit loop of radix.rs produces exactly the canonical numeral `toDigits r n`; it has no leading zero, so
`sci_exp = digit count - 1`. -/
theorem radix_integer_exact (ops : FOps) (r lim n : Nat) (hx : IeeeExact lim ops) (hr : 2 ≤ r) (hrl : r < lim)
    (h0 : 0 < n) (hl : n < lim) (h64 : lim ≤ 2 ^ 64) :
    integerDigits ops r n = toDigits r n ∧ ltrimZeroCount (integerDigits ops r n) = 0 := by
  have h := integerDigits_eq ops r lim n hx hr hrl h0 hl h64
  exact ⟨h, by rw [h]; exact ltrimZeroCount_toDigits r n hr h0⟩

/-- positional notation: the integer part written is `toDigits r n` (never trimmed), the fraction is absent or zeros -/
theorem radix_integer_exact_positional (o : WOpts) (ds : List Nat) :
    (nonsciLayout o ds).int = ds ∧ (∀ d ∈ (nonsciLayout o ds).frac, d = 0) ∧ (nonsciLayout o ds).exp = none := by
  unfold nonsciLayout
  split
  · exact ⟨rfl, by simp, rfl⟩
  · refine ⟨rfl, ?_, rfl⟩
    intro d hd
    rcases List.mem_append.mp hd with h | h
    · simpa using h
    · rw [pad_eq] at h; exact (List.mem_replicate.mp h).2

/-- scientific notation: one integer digit; the written digits and `toDigits r n` agree up to trailing zeros; the
exponent is the one passed in (`digit count - 1`) — so the text denotes `n` exactly -/
theorem radix_integer_exact_scientific (fmt : Format) (o : WOpts) (ds : List Nat) (e : Int) (hne : ds ≠ []) :
    ∃ j k, (sciLayout fmt o ds e).int ++ (sciLayout fmt o ds e).frac ++ List.replicate k 0 = ds ++ List.replicate j 0
      ∧ (sciLayout fmt o ds e).int.length = 1 ∧ (sciLayout fmt o ds e).exp = some e := by
  cases hds : ds with
  | nil => exact absurd hds hne
  | cons d0 tail =>
    obtain ⟨k, hk, _⟩ := rtrimZeros_spec tail
    have hrep : ∀ a b : Nat, List.replicate a (0 : Nat) ++ List.replicate b 0 = List.replicate b 0 ++ List.replicate a 0 := by
      intro a b; rw [List.replicate_append_replicate, List.replicate_append_replicate, Nat.add_comm]
    rcases sciLayout_cases fmt o d0 tail e with ⟨h, hnil⟩ | ⟨h, hnil⟩ | h
    · rw [h]
      rw [hnil, List.nil_append] at hk
      refine ⟨0, k, ?_, rfl, rfl⟩
      rw [hk]; simp
    · rw [h]
      rw [hnil, List.nil_append] at hk
      refine ⟨1, k, ?_, rfl, rfl⟩
      have h1 : ([0] : List Nat) = List.replicate 1 0 := rfl
      rw [hk, h1]
      simp only [List.cons_append, List.nil_append, List.append_assoc]
      rw [hrep]
    · rw [h]
      refine ⟨minExactDigits (1 + (rtrimZeros tail).length) o - (1 + (rtrimZeros tail).length), k, ?_, rfl, rfl⟩
      have e1 : d0 :: tail = d0 :: (rtrimZeros tail ++ List.replicate k 0) := by rw [← hk]
      rw [e1]
      simp only [List.cons_append, List.nil_append, List.append_assoc]
      rw [hrep]

/-- the whole integer path: with the digits of `radix_integer_exact`, `radix::write_float` chooses between exactly these
two layouts on `sci_exp = digit count - 1` -/
theorem radix_integer_layout (fmt : Format) (o : WOpts) (ops : FOps) (lim n : Nat)
    (hx : IeeeExact lim ops) (hr : 2 ≤ fmt.mantissaRadix) (hrl : fmt.mantissaRadix < lim)
    (h0 : 0 < n) (hl : n < lim) (h64 : lim ≤ 2 ^ 64) :
    layoutInt fmt o ops n = sciLayout fmt o (toDigits fmt.mantissaRadix n)
        (Dragonbox.i32 (Dragonbox.i32 (((toDigits fmt.mantissaRadix n).length : Int) - (0 : Nat)) - 1))
    ∨ layoutInt fmt o ops n = nonsciLayout o (toDigits fmt.mantissaRadix n) := by
  obtain ⟨h1, h2⟩ := radix_integer_exact ops fmt.mantissaRadix lim n hx hr hrl h0 hl h64
  unfold layoutInt
  simp only
  rw [h2, h1]
  split
  · exact Or.inl rfl
  · exact Or.inr rfl

/-- non-vacuity: 2^53 - 1 in radix 36, by the kernel -/
example : integerDigits exactOps 36 (2 ^ 53 - 1) = toDigits 36 (2 ^ 53 - 1) := by decide +kernel
example : render ⟨12 + 3 * 2 ^ 104⟩ { radix := true, powerOfTwo := true } {}
    (layoutInt ⟨12 + 3 * 2 ^ 104⟩ {} exactOps 5000) = [50, 48, 50, 49, 50, 48, 49, 50, 46, 48] := by decide +kernel

end RadixInteger

/-! ## the whole writer (`Model/WriteRadix.lean`)

`cf` selects the round-up back-trace: `true` = /repo at or after dbb7ae7 (carry repaired; what the driver runs,
`WriteRadix.repoHasCarryFix`), `false` = the original snapshot (finding C07-generic-radix-roundup-invalid-digit). -/
section RadixFull
open LexVerif.Model LexVerif.Model.WriteRadix LexVerif.Model.WriteRadixInt
open LexVerif.Proof.WriteRadixF LexVerif.Proof.WriteRadixWF LexVerif.Proof.WriteRadixTerm
open LexVerif.Proof.WriteRadixTermInt LexVerif.Proof.WriteRadixFrac LexVerif.Proof.WriteRadixInteger
open LexVerif.Proof.WriteRadixRound LexVerif.Proof.WriteRadixError LexVerif.Proof.WriteRadixMid
open LexVerif.Proof.WriteRadixBig LexVerif.Proof.WriteRadixSmall LexVerif.Proof.WriteRadixFix
open LexVerif.Model.WriteInt (Res)

/-- binary32 or binary64 (radix.rs runs in the float's own type) -/
def StdFmt (f : Fmt) : Prop := f = f64 ∨ f = f32

theorem StdFmt.fok {f : Fmt} (h : StdFmt f) : FOK f := by rcases h with rfl | rfl; exacts [fok_f64, fok_f32]
theorem StdFmt.radix_lt {f : Fmt} (h : StdFmt f) {r : Nat} (hr : r ≤ 36) : r < 2 * 2 ^ (f.p - 1) := by
  rcases h with rfl | rfl
  · exact Nat.lt_of_le_of_lt hr (by decide)
  · exact Nat.lt_of_le_of_lt hr (by decide)
theorem StdFmt.predOne {f : Fmt} (h : StdFmt f) {r : Nat} (hr : r ∈ genericRadices) : PredOne f r := by
  rcases h with rfl | rfl; exacts [predOne_table_f64 r hr, predOne_table_f32 r hr]
theorem StdFmt.fuel {f : Fmt} (h : StdFmt f) : Proof.RoundNE.L f ≤ halfSize ∧ f.bias + 2 ≤ halfSize ∧ f.p ≤ halfSize := by
  rcases h with rfl | rfl <;> decide
theorem genericRadices_bounds : ∀ r ∈ genericRadices, 3 ≤ r ∧ r ≤ 36 := by decide

/-! ### 3a. well-formedness -/

/-- **C07 well-formedness, code as it is in /repo now (dbb7ae7, f386e72, 2de23fc).** For every finite
binary32/binary64 pattern, every generic radix, every format with that mantissa radix (any exponent radix ≥ 2), every
feature set and EVERY option set (max/min significant digits, rounding mode, breaks, trim, punctuation): whatever
`radix::write_float` writes is a non-empty run of digits below the radix, optionally the decimal point and digits
below the radix, optionally the exponent character, an optional sign and digits of the exponent radix. No exclusion. -/
theorem radix_wellformed {f : Fmt} (hf : StdFmt f) {r : Nat} (hr : r ∈ genericRadices) (feats : Features)
    (fmt : Format) (hfr : fmt.mantissaRadix = r) (her : 2 ≤ fmt.exponentRadix) (o : WOpts)
    {bits : Nat} (hb : bits < f.infBits) (len : Nat) {text : List Nat}
    (hw : WriteRadix.writeFloat true feats f fmt o bits len = .ok text) :
    WellFormed r fmt.exponentRadix o.dp o.exp text := by
  obtain ⟨h3, h36⟩ := genericRadices_bounds r hr
  rw [writeFloat_old] at hw
  rw [hfr] at hw
  cases hg : generate true f r bits with
  | ok g =>
    rw [hg] at hw
    simp only [Res.bind] at hw
    cases hl : layoutText (WriteFloat.effFmt feats fmt) feats o r g with
    | ok t =>
      rw [hl] at hw
      simp only at hw
      split at hw
      · simp at hw
      · simp only [Res.ok.injEq] at hw
        subst hw
        obtain ⟨hd, hne⟩ := generate_digitBytes hf.fok (by omega) h36 (hf.radix_lt h36) (hf.predOne hr) hb hg
        have := layoutText_wellFormed_all (WriteFloat.effFmt feats fmt) feats o (by omega : 2 ≤ r) h36
          (by rw [effFmt_exponentRadix]; exact her) g hd hne hl
        rwa [effFmt_exponentRadix] at this
    | fault => rw [hl] at hw; simp at hw
    | panic => rw [hl] at hw; simp at hw
  | fault => rw [hg] at hw; simp [Res.bind] at hw
  | panic => rw [hg] at hw; simp [Res.bind] at hw

/-- **the same for either version of the back-trace, under the exact excluded case**: every FRACTION byte the digit
generation left in the scratch buffer is a digit of the radix (the integer bytes always are). For the original
snapshot (`cf = false`) this hypothesis fails exactly on the recorded round-up finding (`snapshot_roundup_invalid_digit`). -/
theorem radix_wellformed_of_valid_fraction (cf : Bool) {f : Fmt} (hf : StdFmt f) {r : Nat} (hr : r ∈ genericRadices)
    (feats : Features) (fmt : Format) (hfr : fmt.mantissaRadix = r) (her : 2 ≤ fmt.exponentRadix) (o : WOpts)
    {bits : Nat} (len : Nat) {g : Gen} (hg : generate cf f r bits = .ok g)
    (hfrac : ∀ c ∈ g.fracs, DigitByte r c) {text : List Nat}
    (hw : WriteRadix.writeFloat cf feats f fmt o bits len = .ok text) :
    WellFormed r fmt.exponentRadix o.dp o.exp text := by
  obtain ⟨h3, h36⟩ := genericRadices_bounds r hr
  rw [writeFloat_old] at hw
  rw [hfr, hg] at hw
  simp only [Res.bind] at hw
  cases hl : layoutText (WriteFloat.effFmt feats fmt) feats o r g with
  | ok t =>
    rw [hl] at hw
    simp only at hw
    split at hw
    · simp at hw
    · simp only [Res.ok.injEq] at hw
      subst hw
      obtain ⟨hints, hne⟩ := generate_ints hf.fok (by omega) h36 (hf.radix_lt h36) hg
      have hd : ∀ c ∈ g.ints ++ g.fracs, DigitByte r c := by
        intro c hc
        rcases List.mem_append.mp hc with hc | hc
        · exact hints c hc
        · exact hfrac c hc
      have := layoutText_wellFormed_all (WriteFloat.effFmt feats fmt) feats o (by omega : 2 ≤ r) h36
        (by rw [effFmt_exponentRadix]; exact her) g hd hne hl
      rwa [effFmt_exponentRadix] at this
  | fault => rw [hl] at hw; simp at hw
  | panic => rw [hl] at hw; simp at hw

/-- radix 3 plain format (`mantissa_radix = exponent_base = exponent_radix = 3`, default flags) -/
def fmt3 : Format := ⟨0x303030000000000000000000000000c⟩
/-- radix 36 with `required_exponent_notation` -/
def fmt36req : Format := ⟨0x2424240000000000000000000000400c⟩
def featsRadix : Features := { radix := true, powerOfTwo := true }
def featsRadixFormat : Features := { radix := true, powerOfTwo := true, format := true }

theorem not_digitByte3_51 : ¬ DigitByte 3 51 := by
  rintro ⟨d, hd, h⟩
  unfold digitChar at h
  split at h <;> omega

/-- decided witness, ORIGINAL SNAPSHOT: the float just below 7/9 (binary32 `0x3f471c71`) in radix 3 is written
`"0.203"` — `'3'` is not a digit of the radix — and the text is not well-formed … -/
theorem snapshot_roundup_invalid_digit :
    WriteRadix.writeFloat false featsRadix f32 fmt3 {} 0x3f471c71 256 = .ok [48, 46, 50, 48, 51]
    ∧ ¬ WellFormed 3 3 46 101 [48, 46, 50, 48, 51] := by
  refine ⟨by decide +kernel, fun h => ?_⟩
  rcases h.bytes 51 (by simp) with h | h | h | h | h | h
  · exact not_digitByte3_51 h
  · exact not_digitByte3_51 h
  all_goals omega

/-- … while the repaired code writes `"0.21"` for the same float (non-vacuity of `radix_wellformed`) -/
theorem repaired_roundup_example :
    WriteRadix.writeFloat true featsRadix f32 fmt3 {} 0x3f471c71 256 = .ok [48, 46, 50, 49] := by decide +kernel

example : WellFormed 3 3 46 101 [48, 46, 50, 49] :=
  radix_wellformed (Or.inr rfl) (by decide) featsRadix fmt3 (by decide) (by decide) {} (by decide) 256
    repaired_roundup_example

/-- regression (finding class C14-generic-digit-options, repaired in /repo 2de23fc): binary32 1/9 in radix 3 with
`max_significant_digits = 2` was written `"0.01\\0"` (a NUL byte read past the digits); now `"0.01"` -/
theorem max_digits_regression :
    WriteRadix.writeFloat true featsRadix f32 fmt3 { maxDigits := some 2, negBreak := some (-20) } 0x3de38e39 256
      = .ok [48, 46, 48, 49] := by decide +kernel

/-- regression (repaired in /repo f386e72): with `required_exponent_notation` the zero, the negative zero's magnitude and
the smallest subnormal (whose digits are all zero) PANICked on `digits[0]` of an empty slice; now `"0.0^0"` -/
theorem zero_required_exponent_regression :
    WriteRadix.writeFloat true featsRadixFormat f64 fmt36req { exp := 94 } 0 256 = .ok [48, 46, 48, 94, 48]
    ∧ WriteRadix.writeFloat true featsRadixFormat f64 fmt36req { exp := 94 } 1 256 = .ok [48, 46, 48, 94, 48]
    ∧ WriteRadix.writeFloat true featsRadixFormat f32 fmt36req { exp := 94, trim := true } 0 256 = .ok [48, 94, 48] := by
  refine ⟨by decide +kernel, by decide +kernel, by decide +kernel⟩

/-- **the writer never PANICs except for a too short `bytes`** (code as in /repo now): for every finite pattern, every
generic radix, format, feature set and EVERY option set (`max_significant_digits` a `NonZero`), digit generation and the
layout — `truncate_and_round`, `round_up`, both notations — return; the call PANICs iff the caller's slice is shorter than
the highest index `hi` touched. Subsumes the two repaired PANICs (zero under `required_exponent_notation`; radix 17 with
128 significant digits, corpus/C07.ops) and the slice-order / out-of-window reads of the former `truncate_and_round`. -/
theorem radix_write_total {f : Fmt} (hf : StdFmt f) {r : Nat} (hr : r ∈ genericRadices) (feats : Features)
    (fmt : Format) (hfr : fmt.mantissaRadix = r) (o : WOpts) (ho : o.maxDigits ≠ some 0)
    {bits : Nat} (hb : bits < f.infBits) (len : Nat) :
    ∃ t : Text, WriteRadix.writeFloat true feats f fmt o bits len = if t.hi > len then .panic else .ok t.text := by
  obtain ⟨h3, h36⟩ := genericRadices_bounds r hr
  obtain ⟨g, hg, hlen⟩ := generate_total hf.fok (by omega : 2 ≤ r) (hf.radix_lt h36) true hf.fuel.1 hf.fuel.2.1 h36 hb
  obtain ⟨hd, hne⟩ := generate_digitBytes hf.fok (by omega) h36 (hf.radix_lt h36) (hf.predOne hr) hb hg
  have hil : g.ints.length < halfSize := by
    have : f.bias + 2 < halfSize := by rcases hf with rfl | rfl <;> decide
    omega
  obtain ⟨t, ht⟩ := layoutText_total (WriteFloat.effFmt feats fmt) feats o ho (by omega : 2 ≤ r) h36 g hd hne hil
  refine ⟨t, ?_⟩
  rw [writeFloat_old]
  rw [hfr, hg]
  simp only [Res.bind]
  rw [ht]

/-! ### 3b. termination / fuel adequacy -/

/-- **the fraction loop terminates within the scratch buffer**: for every finite pattern and radix 2..36 the fraction
part of `write_float` returns (no index past the 1100 bytes right of the decimal point): `delta` at least doubles per
iteration and the loop exits once `delta ≥ 1 ≥ fraction`, so at most 1075 (f64) / 150 (f32) digits are written. -/
theorem radix_fraction_terminates (cf : Bool) {f : Fmt} (hf : StdFmt f) {r : Nat} (hr : 2 ≤ r) (hr36 : r ≤ 36)
    {bits : Nat} (hb : bits < f.infBits) : ∃ x, genFraction cf f r bits = .ok x :=
  genFraction_total cf hf.fok hf.fuel.1 hr hr36 (hf.radix_lt hr36) hb

/-- **the integer loops terminate within the scratch buffer**, for every starting value up to `+∞`: the exponent field
of `integer` drops by at least one per iteration of either loop, at most `bias + 2` (1025 / 129) bytes are written. -/
theorem radix_integer_terminates {f : Fmt} (hf : StdFmt f) {r : Nat} (hr : 2 ≤ r) (hr36 : r ≤ 36) {x : Nat}
    (hx : x ≤ f.infBits) : ∃ ints, genInteger f r x = .ok ints ∧ ints.length ≤ f.bias + 2 :=
  genInteger_total hf.fok hr (hf.radix_lt hr36) hf.fuel.2.1 hx

/-- **digit generation never PANICs** (both loops, carry included) -/
theorem radix_generate_total (cf : Bool) {f : Fmt} (hf : StdFmt f) {r : Nat} (hr : 2 ≤ r) (hr36 : r ≤ 36)
    {bits : Nat} (hb : bits < f.infBits) : ∃ g, generate cf f r bits = .ok g ∧ g.ints.length ≤ f.bias + 2 :=
  generate_total hf.fok hr (hf.radix_lt hr36) cf hf.fuel.1 hf.fuel.2.1 hr36 hb

/-! ### 3c. integer exactness — the `IeeeExact` assumption discharged -/

/-- the three float operations of the integer path as the full model computes them (exact result, then `roundNE`),
read back as integers -/
def modelOps (f : Fmt) : FOps :=
  ⟨fun a b => Proof.RoundNE.ival f (fmod f (ofNat f a) (ofNat f b)) / unit f,
   fun a b => Proof.RoundNE.ival f (fsub f (ofNat f a) (ofNat f b)) / unit f,
   fun a b => Proof.RoundNE.ival f (fdiv f (ofNat f a) (ofNat f b)) / unit f⟩

/-- **`IeeeExact` is a theorem about the modelled arithmetic**, no longer an assumption -/
theorem ieeeExact_modelOps {f : Fmt} (h : FOK f) : IeeeExact (2 * 2 ^ (f.p - 1)) (modelOps f) := by
  intro a b ha hb0 hb
  have hu := unit_pos f
  have val : ∀ {n : Nat}, n < 2 * 2 ^ (f.p - 1) → Proof.RoundNE.ival f (ofNat f n) / unit f = n := by
    intro n hn; rw [(ofNat_ival h hn).1, Nat.mul_div_cancel _ hu]
  refine ⟨?_, ?_, ?_, ?_⟩
  · show Proof.RoundNE.ival f (fmod f (ofNat f a) (ofNat f b)) / unit f = a % b
    rw [fmod_ofNat h ha hb hb0]
    exact val (Nat.lt_trans (Nat.mod_lt _ hb0) hb)
  · intro hle
    show Proof.RoundNE.ival f (fsub f (ofNat f a) (ofNat f b)) / unit f = a - b
    rw [fsub_ofNat h ha hle]
    exact val (by omega)
  · show Proof.RoundNE.ival f (fsub f (ofNat f a) (ofNat f 0)) / unit f = a
    rw [fsub_ofNat h ha (Nat.zero_le _)]
    exact val ha
  · intro hdvd
    show Proof.RoundNE.ival f (fdiv f (ofNat f a) (ofNat f b)) / unit f = a / b
    rw [fdiv_ofNat h ha hb hb0 hdvd]
    exact val (Nat.lt_of_le_of_lt (Nat.div_le_self _ _) ha)

/-- **C07 integer clause on the full model** (either back-trace): for the float of an integer `0 < n < 2^p`
(`2^53` / `2^24`) and every radix 2..36, digit generation of the whole writer yields exactly the canonical numeral
`toDigits r n` as integer digits, no fraction digit and nothing else — the integer-path model's digits
(`integerDigits`), with no arithmetic assumption. -/
theorem radix_integer_exact_full (cf : Bool) {f : Fmt} (hf : StdFmt f) {r : Nat} (hr : 2 ≤ r) (hr36 : r ≤ 36)
    {n : Nat} (h0 : 0 < n) (hn : n < 2 * 2 ^ (f.p - 1)) :
    generate cf f r (ofNat f n) = .ok ⟨(toDigits r n).map digitChar, [], []⟩
    ∧ integerDigits (modelOps f) r n = toDigits r n := by
  refine ⟨generate_integral cf hf.fok hf.fuel.2.2 hr hr36 (hf.radix_lt hr36) h0 hn, ?_⟩
  have h64 : 2 * 2 ^ (f.p - 1) ≤ 2 ^ 64 := by rcases hf with rfl | rfl <;> decide
  exact (radix_integer_exact (modelOps f) r _ n (ieeeExact_modelOps hf.fok) hr (hf.radix_lt hr36) h0 hn h64).1

/-- **the full model on an integral float equals the integer-path model, text level**: for the float of an integer
`0 < n < 2^p`, default `max_significant_digits`, any other options / format flags / feature set, the whole writer
returns exactly the bytes `render (layoutInt …)` of the integer-path model (run on the modelled arithmetic), or PANICs
iff the caller's slice is shorter than the highest index `hi` it touches. With `radix_integer_exact*` this carries the
positional / scientific exactness statements over to the full model. -/
theorem radix_integer_text_full (cf : Bool) {f : Fmt} (hf : StdFmt f) (feats : Features) (fmt : Format)
    (hr : 2 ≤ fmt.mantissaRadix) (hr36 : fmt.mantissaRadix ≤ 36) (o : WOpts) (ho : o.maxDigits = none)
    {n : Nat} (h0 : 0 < n) (hn : n < 2 * 2 ^ (f.p - 1)) (len : Nat) :
    ∃ hi, WriteRadix.writeFloat cf feats f fmt o (ofNat f n) len =
      if hi > len then .panic
      else .ok (WriteBinary.render (WriteFloat.effFmt feats fmt) feats o
        (layoutInt (WriteFloat.effFmt feats fmt) o (modelOps f) n)) := by
  have hmr : (WriteFloat.effFmt feats fmt).mantissaRadix = fmt.mantissaRadix := effFmt_byteAt feats fmt (by decide)
  obtain ⟨hgen, hdig⟩ := radix_integer_exact_full cf hf hr hr36 h0 hn
  obtain ⟨d0, t, hdt, hd0⟩ := LexVerif.Proof.WriteBinaryDigits.toDigits_head_pos fmt.mantissaRadix n hr h0
  have h64 : 2 * 2 ^ (f.p - 1) ≤ 2 ^ 64 := by rcases hf with rfl | rfl <;> decide
  have hlen : (toDigits fmt.mantissaRadix n).length ≤ 64 := by
    apply toDigits_length_le _ _ 64 hr (by decide)
    calc n < 2 ^ 64 := by omega
      _ ≤ fmt.mantissaRadix ^ 64 := Nat.pow_le_pow_left hr 64
  rw [hdt] at hlen hdig
  obtain ⟨hi, hl⟩ := LexVerif.Proof.WriteRadixIntText.layoutText_int (WriteFloat.effFmt feats fmt) feats o ho
    (modelOps f) n d0 t (by rw [hmr]; exact hdig) hd0 (by simp only [List.length_cons] at hlen; omega)
  refine ⟨hi, ?_⟩
  rw [writeFloat_old]
  rw [hgen, hdt]
  simp only [Res.bind]
  rw [hmr] at hl
  have hl' : layoutText (WriteFloat.effFmt feats fmt) feats o fmt.mantissaRadix
      ⟨List.map digitChar (d0 :: t), [], []⟩ = _ := hl
  rw [hl']

/-- non-vacuity: `2^53 - 1` and `2^24 - 1` are such integers -/
example : generate true f64 36 (ofNat f64 (2 ^ 53 - 1)) = .ok ⟨(toDigits 36 (2 ^ 53 - 1)).map digitChar, [], []⟩ :=
  (radix_integer_exact_full true (Or.inl rfl) (by decide) (by decide) (by decide) (by decide)).1
example : generate false f32 3 (ofNat f32 (2 ^ 24 - 1)) = .ok ⟨(toDigits 3 (2 ^ 24 - 1)).map digitChar, [], []⟩ :=
  (radix_integer_exact_full false (Or.inr rfl) (by decide) (by decide) (by decide) (by decide)).1

/-! ### 3d. toward the ulp clause: what is exact -/

/-- the split `float = integer + fraction` is exact (`floor` and the subtraction do not round) -/
theorem radix_split_exact {f : Fmt} (hf : StdFmt f) {bits : Nat} (hb : bits < f.infBits) :
    Proof.RoundNE.ival f (ffloor f bits) + Proof.RoundNE.ival f (fsub f bits (ffloor f bits)) = Proof.RoundNE.ival f bits := by
  rw [(ffloor_exact hf.fok.wf hb).1, fsub_ffloor_exact hf.fok.wf hb]
  have := Nat.div_add_mod (Proof.RoundNE.ival f bits) (unit f)
  rw [Nat.mul_comm] at this
  exact this

/-- **one iteration of the fraction loop is exact up to ONE rounding**: with `fraction ≤ 1`,
`P = round(fraction · base)` is the only inexact operation; `digit = ⌊P⌋ ≤ radix` and the next `fraction = P - digit`
exactly, so `digit + fraction' = P` and `fraction' < 1` (values in units of `2^-L`). What is missing for the ulp bound:
summing the per-step errors `|P - fraction·base| ≤ ulp(P)/2` over the (≤ 1075) steps against `delta · base^k`, and the
effect of the final round-up. -/
theorem radix_fraction_step_partial {f : Fmt} (hf : StdFmt f) {r : Nat} (hr36 : r ≤ 36) {x : Nat} (hx : x ≤ one f) :
    let P := fmul f x (ofNat f r)
    let digit := asU32 f P
    digit * unit f + Proof.RoundNE.ival f (fsub f P (ofNat f digit)) = Proof.RoundNE.ival f P
      ∧ digit ≤ r ∧ fsub f P (ofNat f digit) < one f := by
  intro P digit
  obtain ⟨hd, hle, hmod, hlt⟩ := frac_step hf.fok hr36 (hf.radix_lt hr36) hx
  refine ⟨?_, hle, hlt⟩
  rw [hmod]
  show asU32 f (fmul f x (ofNat f r)) * unit f + _ = _
  rw [hd]
  have := Nat.div_add_mod (Proof.RoundNE.ival f (fmul f x (ofNat f r))) (unit f)
  rw [Nat.mul_comm] at this
  exact this

/-- **accumulated error of the fraction digits (partial result toward the ulp clause).** Whatever the fraction loop
returns is, for some `n ≥ 1`, the `n`-digit trace `d₁ … dₙ` of the iteration (`fracIter`), either as it stands or after
the final round-up back-trace; and for that trace, in units of `2^-L` (`U = 2^L` is 1.0, `B = 2^(bias+3)` is half an
ulp of a float below 64):

    | fraction · rⁿ  −  (d₁…dₙ)ᵣ · U  −  fractionₙ |  ≤  B · (1 + r + … + rⁿ⁻¹)

i.e. `|fraction − 0.d₁…dₙ − fractionₙ·r⁻ⁿ| < 2^(5−p)/(r−1)` — an ABSOLUTE error below `2^-48/(r−1)` (f64),
`2^-19/(r−1)` (f32). (Used for `1 ≤ |x| < 2^p`; below 1 the RELATIVE version `fracIter_rel` is needed.) -/
theorem radix_fraction_error_partial (cf : Bool) {f : Fmt} (hf : StdFmt f) {r : Nat} (hr36 : r ≤ 36)
    {fuel x delta : Nat} {acc : List Nat} {out : List Nat × List Nat × Bool} (hx : x ≤ one f)
    (h : fracLoop cf f r (ofNat f r) fuel x delta acc = .ok out) :
    ∃ n, 1 ≤ n ∧ n ≤ fuel ∧
      (out = (((fracIter f r n x).1.map (digitToCharConst · r)).reverse ++ acc, [], false) ∨
       out = backtrace cf r (((fracIter f r n x).1.map (digitToCharConst · r)).reverse ++ acc) []) ∧
      (fracIter f r n x).1.length = n ∧
      ofDigits r (fracIter f r n x).1 * unit f + Proof.RoundNE.ival f (fracIter f r n x).2
        ≤ Proof.RoundNE.ival f x * r ^ n + errB f * geom r n ∧
      Proof.RoundNE.ival f x * r ^ n
        ≤ ofDigits r (fracIter f r n x).1 * unit f + Proof.RoundNE.ival f (fracIter f r n x).2 + errB f * geom r n := by
  obtain ⟨n, h1, h2, h3⟩ := fracLoop_trace cf f r fuel x delta acc out h
  obtain ⟨e1, _, _, e4, e5⟩ := fracIter_err hf.fok hr36 (hf.radix_lt hr36) n x hx
  exact ⟨n, h1, h2, h3, e1, e4, e5⟩

/-- the error constant is `2^-48` (f64) / `2^-19` (f32) of 1.0, and the geometric sum is `(rⁿ − 1)/(r − 1)` -/
example : errB f64 * 2 ^ 48 = unit f64 ∧ errB f32 * 2 ^ 19 = unit f32 := by decide +kernel
theorem geom_closed {r : Nat} (hr : 1 ≤ r) : ∀ n, geom r n * (r - 1) + 1 = r ^ n
  | 0 => by simp [geom]
  | n + 1 => by
    obtain ⟨k, rfl⟩ : ∃ k, r = k + 1 := ⟨r - 1, by omega⟩
    have ih := geom_closed hr n
    simp only [Nat.add_sub_cancel] at ih ⊢
    unfold geom
    calc ((k + 1) ^ n + geom (k + 1) n) * k + 1 = (k + 1) ^ n * k + (geom (k + 1) n * k + 1) := by ring
      _ = (k + 1) ^ n * k + (k + 1) ^ n := by rw [ih]
      _ = (k + 1) ^ (n + 1) := by ring

/-- on the repaired code the digit is even `< radix` (`fraction.as_u32()` never yields the radix itself) -/
theorem radix_fraction_digit_lt {f : Fmt} (hf : StdFmt f) {r : Nat} (hr : r ∈ genericRadices) {x : Nat}
    (hx : x < one f) : asU32 f (fmul f x (ofNat f r)) < r :=
  fracDigit_lt hf.fok (genericRadices_bounds r hr).2 (hf.radix_lt (genericRadices_bounds r hr).2) (hf.predOne hr) hx

/-- **C07 ulp clause, full statement (digit level) — proved below as `radix_error_bound` from the three range theorems
`radix_error_bound_small_partial`, `radix_error_bound_mid_partial`, `radix_error_bound_big_partial`.**
For every finite binary32/binary64 pattern and every generic radix, the digits `ints . fracs` the writer generates
denote a number whose nearest float is within 2048 (f64) / 256 (f32) patterns of the input. -/
def C07_radix_error_bound : Prop :=
  ∀ (f : Fmt), StdFmt f → ∀ r ∈ genericRadices, ∀ bits < f.infBits, ∀ g, generate true f r bits = .ok g →
    ulpDist (roundNE f (ofDigits r ((g.ints ++ g.fracs).map byteDigit)) (r ^ g.fracs.length)) bits
      ≤ (if f = f64 then 2048 else 256)

theorem StdFmt.mid {f : Fmt} (h : StdFmt f) : MidFmt f := by
  rcases h with rfl | rfl; exacts [midFmt_f64, midFmt_f32]

/-- **C07 ulp clause, proved for `1 ≤ |x| < 2^p`** (`2^53` / `2^24`), every generic radix, binary32 and binary64:
the digits the writer generates denote a number whose nearest float is at most **34 patterns (ulps of the original
float's neighbourhood)** from the input — at most 17 above, at most 34 below (the value is within 16.5 ulp of the
input: half an ulp from `delta`, 16 ulp from the accumulated roundings; below a power of two the spacing halves).
At most `2p` digits are generated, so `PositionalFits` holds and the text is laid out from all of them
(`layout_keeps_all_digits`, default `max_significant_digits`). The judge's limits are 2048 / 256. -/
theorem radix_error_bound_mid_partial {f : Fmt} (hf : StdFmt f) {r : Nat} (hr : r ∈ genericRadices) {bits : Nat}
    (h1 : one f ≤ bits) (h2 : bits < (f.bias + f.p) * 2 ^ (f.p - 1)) {g : Gen}
    (hg : generate true f r bits = .ok g) :
    ulpDist (roundNE f (ofDigits r ((g.ints ++ g.fracs).map byteDigit)) (r ^ g.fracs.length)) bits ≤ 34
    ∧ PositionalFits g := by
  obtain ⟨h3, h36⟩ := genericRadices_bounds r hr
  obtain ⟨e1, e2⟩ := error_mid hf.mid h3 h36 (hf.predOne hr) h1 h2 hg
  refine ⟨e1, ?_⟩
  unfold PositionalFits maxDigitLength
  have : 2 * f.p ≤ 232 := by rcases hf with rfl | rfl <;> decide
  omega

/-- **C07 ulp clause, proved for `|x| ≥ 2^p`** (every finite float from `2^53` / `2^24` up to the largest), every
generic radix: such a float is an even integer, there are no fraction digits, and the digits the integer loops produce
(zero padding `integer /= base` — each step within a factor `1 ± 2^-p`, at most 613 / 66 steps because `3^z` cannot exceed
the float's range — then one doubly rounded digit step, then exact steps) denote a number whose nearest float is at most
**1340 patterns (binary64) / 246 patterns (binary32)** from the input. The judge's limits are 2048 / 256.
(`PositionalFits` can fail here: more than 232 integer digits in positional notation are cut to zeros.) -/
theorem radix_error_bound_big_partial {f : Fmt} (hf : StdFmt f) {r : Nat} (hr : r ∈ genericRadices) {bits : Nat}
    (h1 : (f.bias + f.p) * 2 ^ (f.p - 1) ≤ bits) (h2 : bits < f.infBits) {g : Gen}
    (hg : generate true f r bits = .ok g) :
    ulpDist (roundNE f (ofDigits r ((g.ints ++ g.fracs).map byteDigit)) (r ^ g.fracs.length)) bits
      ≤ (if f = f64 then 1340 else 246) := by
  obtain ⟨h3, h36⟩ := genericRadices_bounds r hr
  rcases hf with rfl | rfl
  · exact error_big bigFmt_f64 h3 h36 h1 h2 hg
  · exact error_big bigFmt_f32 h3 h36 h1 h2 hg

/-- **C07 ulp clause, proved for `0 ≤ |x| < 1`** (zero, subnormals and every float below 1), every generic radix: the
float is its own fraction; every `round(fraction · base)` has a RELATIVE error `≤ 2^-p` (exact for subnormal results), the
telescoped error after `N` digits is `≤ (N + 1)` ulps of the input, the exit residual `≤ 2` ulps, and `N ≤ 679` / `95`
because `delta` grows by a factor `≥ 3(1 − 2^-p)` per step and the loop ends once `delta ≥ 1`. The nearest float of the
digits is at most **1364 patterns (binary64) / 196 patterns (binary32)** from the input (limits 2048 / 256). -/
theorem radix_error_bound_small_partial {f : Fmt} (hf : StdFmt f) {r : Nat} (hr : r ∈ genericRadices) {bits : Nat}
    (h1 : bits < one f) {g : Gen} (hg : generate true f r bits = .ok g) :
    ulpDist (roundNE f (ofDigits r ((g.ints ++ g.fracs).map byteDigit)) (r ^ g.fracs.length)) bits
      ≤ (if f = f64 then 1364 else 196) := by
  obtain ⟨h3, h36⟩ := genericRadices_bounds r hr
  rcases hf with rfl | rfl
  · exact error_small smallFmt_f64 h3 h36 (predOne_table_f64 r hr) h1 hg
  · exact error_small smallFmt_f32 h3 h36 (predOne_table_f32 r hr) h1 hg

/-- the range of `radix_error_bound_mid_partial` in bit patterns: `[1.0, 2^p)` -/
example : one f64 = 0x3ff0000000000000 ∧ (f64.bias + f64.p) * 2 ^ (f64.p - 1) = 0x4340000000000000
    ∧ one f32 = 0x3f800000 ∧ (f32.bias + f32.p) * 2 ^ (f32.p - 1) = 0x4b800000 := by decide +kernel

/-- non-vacuity: binary32 10.7 in radix 3 -/
example : ∃ g, generate true f32 3 0x412b3333 = .ok g ∧
    ulpDist (roundNE f32 (ofDigits 3 ((g.ints ++ g.fracs).map byteDigit)) (3 ^ g.fracs.length)) 0x412b3333 ≤ 34 := by
  obtain ⟨g, hg, _⟩ := radix_generate_total true (Or.inr rfl : StdFmt f32) (r := 3) (by decide) (by decide)
    (bits := 0x412b3333) (by decide)
  exact ⟨g, hg, (radix_error_bound_mid_partial (Or.inr rfl) (by decide) (by decide +kernel) (by decide +kernel) hg).1⟩

/-- **the exclusion for the text** (finding C07-generic-radix-positional-truncation): the layout only looks at the
first 232 bytes of the generated digits. `PositionalFits g` — integer and fraction digits together are at most 232 —
is the exact condition under which (default `max_significant_digits`) the text is laid out from ALL generated digits:
`layoutText = layoutAll`. -/
theorem radix_layout_keeps_all_digits (fmt : Format) (feats : Features) (o : WOpts) (ho : o.maxDigits = none)
    (r : Nat) (g : Gen) (hfit : PositionalFits g) : layoutText fmt feats o r g = layoutAll fmt feats o g :=
  layout_keeps_all_digits fmt feats o ho r g hfit

/-- decided witness of the excluded case: 232 fraction zeros followed by `1` (a value `3^-233`; such buffers arise,
e.g. corpus op `wf f64 6060…0c e05fa782cd98f39 - - 1 -700 …` replayed through the correspondence) do not fit, and the
positional text is `"0."` — the only significant digit is gone, while the layout of all digits keeps it -/
theorem positional_truncation_witness :
    let g : Gen := ⟨[48], List.replicate 232 48 ++ [49], []⟩
    ¬ PositionalFits g
    ∧ (layoutText fmt3 featsRadix { negBreak := some (-700) } 3 g).bind (fun t => .ok t.text) = .ok [48, 46]
    ∧ (layoutAll fmt3 featsRadix { negBreak := some (-700) } g).bind (fun t => .ok t.text)
        = .ok ([48, 46] ++ List.replicate 232 48 ++ [49]) := by
  refine ⟨by decide +kernel, by decide +kernel, by decide +kernel⟩

/-- **C07 ulp clause — the full statement is a theorem** (digit level): the three ranges `[0,1)`, `[1,2^p)`, `[2^p,∞)`
cover every finite pattern; proved constants 1364 (binary64) and 246 (binary32), below the judge's 2048 / 256. What the
TEXT denotes equals what the digits denote when the layout keeps all digits: default `max_significant_digits` and
`PositionalFits` (`radix_layout_keeps_all_digits`; always true for `1 ≤ |x| < 2^p`); the excluded case is the recorded
finding C07-generic-radix-positional-truncation (`positional_truncation_witness`). -/
theorem radix_error_bound : C07_radix_error_bound := by
  intro f hf r hr bits hb g hg
  by_cases h1 : bits < one f
  · have := radix_error_bound_small_partial hf hr h1 hg
    rcases hf with rfl | rfl
    · simp only [if_true] at this ⊢; omega
    · rw [if_neg (by decide)] at this ⊢; omega
  · by_cases h2 : bits < (f.bias + f.p) * 2 ^ (f.p - 1)
    · have := (radix_error_bound_mid_partial hf hr (Nat.le_of_not_lt h1) h2 hg).1
      split <;> omega
    · have := radix_error_bound_big_partial hf hr (Nat.le_of_not_lt h2) hb hg
      rcases hf with rfl | rfl
      · simp only [if_true] at this ⊢; omega
      · rw [if_neg (by decide)] at this ⊢; omega

/-! ### 3e. the open positional findings and their repairs

`writeFloat … wf mf`: `wf` = fixes/C07-generic-radix-positional-truncation.diff (digit window starts at the first
significant digit), `mf` = fixes/C14-generic-digit-options-min-and-literal.diff; defaults `false` = /repo now
(`WriteRadix.repoHasWindowFix`, `repoHasMinPadFix` select what the driver runs). -/

/-- **root cause of C07-generic-radix-positional-truncation, decided**: the 232-byte window of
`write_float_nonscientific` starts at the first INTEGER digit; with 232 leading fraction zeros the only significant digit
falls outside (`"0."`); the repaired window keeps it. -/
theorem positional_truncation_root_cause :
    let g : Gen := ⟨[48], List.replicate 232 48 ++ [49], []⟩
    let o : WOpts := { negBreak := some (-700) }
    (layoutText fmt3 featsRadix o 3 g).bind (fun t => .ok t.text) = .ok [48, 46]
    ∧ (layoutTextW false fmt3 featsRadix o 3 g).bind (fun t => .ok t.text)
        = .ok ([48, 46] ++ List.replicate 232 48 ++ [49])
    ∧ ¬ PositionalFits g ∧ SigFits g := by
  refine ⟨by decide +kernel, by decide +kernel, by decide +kernel, by decide +kernel⟩

/-- with the repaired window the layout uses ALL digits whenever at most 232 of them are SIGNIFICANT -/
theorem radix_layoutW_keeps_all_digits (mf : Bool) (o : WOpts) (ho : o.maxDigits = none) (r : Nat) (g : Gen)
    (hfit : SigFits g) :
    nonsciTextW mf o r g = .ok (if mf then
        nonsciFinish2 (min (ltrimCount 48 (g.ints ++ g.fracs)) (g.ints.length + g.fracs.length - 1)) o
          (g.ints ++ g.fracs) g.ints.length
      else nonsciFinish o (g.ints ++ g.fracs) g.ints.length) :=
  nonsciTextW_keeps_all mf o ho r g hfit

/-- well-formedness for the repaired writers too (every option set, either tail) -/
theorem radix_wellformed_repaired (mf : Bool) {f : Fmt} (hf : StdFmt f) {r : Nat} (hr : r ∈ genericRadices)
    (feats : Features) (fmt : Format) (hfr : fmt.mantissaRadix = r) (her : 2 ≤ fmt.exponentRadix) (o : WOpts)
    {bits : Nat} (hb : bits < f.infBits) (len : Nat) {text : List Nat}
    (hw : WriteRadix.writeFloat true feats f fmt o bits len true mf = .ok text) :
    WellFormed r fmt.exponentRadix o.dp o.exp text := by
  obtain ⟨h3, h36⟩ := genericRadices_bounds r hr
  rw [writeFloat_W, hfr] at hw
  cases hg : generate true f r bits with
  | ok g =>
    rw [hg] at hw
    simp only [Res.bind] at hw
    cases hl : layoutTextW mf (WriteFloat.effFmt feats fmt) feats o r g with
    | ok t =>
      rw [hl] at hw
      simp only at hw
      split at hw
      · simp at hw
      · simp only [Res.ok.injEq] at hw
        subst hw
        obtain ⟨hd, hne⟩ := generate_digitBytes hf.fok (by omega) h36 (hf.radix_lt h36) (hf.predOne hr) hb hg
        have := layoutTextW_wellFormed_all mf (WriteFloat.effFmt feats fmt) feats o (by omega : 2 ≤ r) h36
          (by rw [effFmt_exponentRadix]; exact her) g hd hne hl
        rwa [effFmt_exponentRadix] at this
    | fault => rw [hl] at hw; simp at hw
    | panic => rw [hl] at hw; simp at hw
  | fault => rw [hg] at hw; simp [Res.bind] at hw
  | panic => rw [hg] at hw; simp [Res.bind] at hw

/-- … and they never PANIC either (except for a too short output slice) -/
theorem radix_write_total_repaired (mf : Bool) {f : Fmt} (hf : StdFmt f) {r : Nat} (hr : r ∈ genericRadices)
    (feats : Features) (fmt : Format) (hfr : fmt.mantissaRadix = r) (o : WOpts) (ho : o.maxDigits ≠ some 0)
    {bits : Nat} (hb : bits < f.infBits) (len : Nat) :
    ∃ t : Text, WriteRadix.writeFloat true feats f fmt o bits len true mf
      = if t.hi > len then .panic else .ok t.text := by
  obtain ⟨h3, h36⟩ := genericRadices_bounds r hr
  obtain ⟨g, hg, hlen⟩ := generate_total hf.fok (by omega : 2 ≤ r) (hf.radix_lt h36) true hf.fuel.1 hf.fuel.2.1 h36 hb
  obtain ⟨hd, hne⟩ := generate_digitBytes hf.fok (by omega) h36 (hf.radix_lt h36) (hf.predOne hr) hb hg
  have hil : g.ints.length < halfSize := by
    have : f.bias + 2 < halfSize := by rcases hf with rfl | rfl <;> decide
    omega
  obtain ⟨t, ht⟩ := layoutTextW_total mf (WriteFloat.effFmt feats fmt) feats o ho (by omega : 2 ≤ r) h36 g hd hne hil
  refine ⟨t, ?_⟩
  rw [writeFloat_W, hfr, hg]
  simp only [Res.bind]
  rw [ht]

end RadixFull

end LexVerif.Props.C07
