import LexVerif.Props.RoundNE
import LexVerif.Proof.WriteRadixInt
import LexVerif.Proof.WriteBinaryShape
import Mathlib.Tactic.SplitIfs
/-!
# C07 — generic-radix float output (property theorems about the judge)

The check measures, for each written output, the distance between the float and the nearest float of the
output's exact value. Monotonicity of `roundNE` is what makes that measurement meaningful: a larger exact
value never has a smaller nearest float.
-/
namespace LexVerif.Props.C07
open LexVerif.Spec LexVerif.Proof.RoundNE LexVerif.Props.RoundNE

/-- the judge's nearest-float map is monotone in the exact value (f64 instance) -/
theorem judge_monotone_f64 (a b c d : Nat) (hb : 0 < b) (hd : 0 < d) (h : (a : ℚ) / b ≤ (c : ℚ) / d) :
    roundNE f64 a b ≤ roundNE f64 c d :=
  roundNE_mono wf_f64 hb hd h

/-! ## the integer part of radix.rs (model `Model/WriteRadixInt.lean`, tied by the `wf` correspondence on integral floats)

IEEE ASSUMPTION, explicit: `IeeeExact lim ops` — on operands that are integers below `lim = 2^53` (f64) / `2^24` (f32),
the float operations `%`, `-`, `/` return the exact result whenever that result is an integer below `lim` (i.e. is
representable; IEEE-754 requires correctly rounded `-`, `/` and an exact remainder). The hardware is trusted to satisfy
it; the Lean driver runs the model with `exactOps`, which satisfies it by definition (`exactOps_ieee`). -/
section RadixInteger
open LexVerif.Model LexVerif.Model.WriteBinary LexVerif.Model.WriteRadixInt LexVerif.Proof.WriteRadixInt
open LexVerif.Proof.WriteBinaryDigits LexVerif.Proof.WriteBinaryShape

theorem exactOps_satisfies_assumption (lim : Nat) : IeeeExact lim exactOps := exactOps_ieee lim

/-- `radix_integer_exact` (digits): for a float whose value is an integer `1 ≤ n < lim ≤ 2^64`, any radix `2 ≤ r < lim`,
the digit loop of radix.rs produces exactly the canonical numeral `toDigits r n`; it has no leading zero, so
`sci_exp = digit count - 1`. -/
theorem radix_integer_exact (ops : FOps) (r lim n : Nat) (hx : IeeeExact lim ops) (hr : 2 ≤ r) (hrl : r < lim)
    (h0 : 0 < n) (hl : n < lim) (h64 : lim ≤ 2 ^ 64) :
    integerDigits ops r n = toDigits r n ∧ ltrimZeroCount (integerDigits ops r n) = 0 := by
  have h := integerDigits_eq ops r lim n hx hr hrl h0 hl h64
  exact ⟨h, by rw [h]; exact ltrimZeroCount_toDigits r n hr h0⟩

/-- positional notation: the integer part written is `toDigits r n` (never trimmed), the fraction is absent or zeros -/
theorem radix_integer_exact_positional (o : WOpts) (ds : List Nat) :
    (nonsciLayout o ds).int = ds ∧ (∀ d ∈ (nonsciLayout o ds).frac, d = 0) ∧ (nonsciLayout o ds).exp = none := by
  unfold nonsciLayout
  split
  · exact ⟨rfl, by simp, rfl⟩
  · refine ⟨rfl, ?_, rfl⟩
    intro d hd
    rcases List.mem_append.mp hd with h | h
    · simpa using h
    · rw [pad_eq] at h; exact (List.mem_replicate.mp h).2

/-- scientific notation: one integer digit; the written digits and `toDigits r n` agree up to trailing zeros; the
exponent is the one passed in (`digit count - 1`) — so the text denotes `n` exactly -/
theorem radix_integer_exact_scientific (fmt : Format) (o : WOpts) (ds : List Nat) (e : Int) (hne : ds ≠ []) :
    ∃ j k, (sciLayout fmt o ds e).int ++ (sciLayout fmt o ds e).frac ++ List.replicate k 0 = ds ++ List.replicate j 0
      ∧ (sciLayout fmt o ds e).int.length = 1 ∧ (sciLayout fmt o ds e).exp = some e := by
  cases hds : ds with
  | nil => exact absurd hds hne
  | cons d0 tail =>
    obtain ⟨k, hk, _⟩ := rtrimZeros_spec tail
    have hrep : ∀ a b : Nat, List.replicate a (0 : Nat) ++ List.replicate b 0 = List.replicate b 0 ++ List.replicate a 0 := by
      intro a b; rw [List.replicate_append_replicate, List.replicate_append_replicate, Nat.add_comm]
    rcases sciLayout_cases fmt o d0 tail e with ⟨h, hnil⟩ | ⟨h, hnil⟩ | h
    · rw [h]
      rw [hnil, List.nil_append] at hk
      refine ⟨0, k, ?_, rfl, rfl⟩
      rw [hk]; simp
    · rw [h]
      rw [hnil, List.nil_append] at hk
      refine ⟨1, k, ?_, rfl, rfl⟩
      have h1 : ([0] : List Nat) = List.replicate 1 0 := rfl
      rw [hk, h1]
      simp only [List.cons_append, List.nil_append, List.append_assoc]
      rw [hrep]
    · rw [h]
      refine ⟨minExactDigits (1 + (rtrimZeros tail).length) o - (1 + (rtrimZeros tail).length), k, ?_, rfl, rfl⟩
      have e1 : d0 :: tail = d0 :: (rtrimZeros tail ++ List.replicate k 0) := by rw [← hk]
      rw [e1]
      simp only [List.cons_append, List.nil_append, List.append_assoc]
      rw [hrep]

/-- the whole integer path: with the digits of `radix_integer_exact`, `radix::write_float` chooses between exactly these
two layouts on `sci_exp = digit count - 1` -/
theorem radix_integer_layout (fmt : Format) (o : WOpts) (ops : FOps) (lim n : Nat)
    (hx : IeeeExact lim ops) (hr : 2 ≤ fmt.mantissaRadix) (hrl : fmt.mantissaRadix < lim)
    (h0 : 0 < n) (hl : n < lim) (h64 : lim ≤ 2 ^ 64) :
    layoutInt fmt o ops n = sciLayout fmt o (toDigits fmt.mantissaRadix n)
        (Dragonbox.i32 (Dragonbox.i32 (((toDigits fmt.mantissaRadix n).length : Int) - (0 : Nat)) - 1))
    ∨ layoutInt fmt o ops n = nonsciLayout o (toDigits fmt.mantissaRadix n) := by
  obtain ⟨h1, h2⟩ := radix_integer_exact ops fmt.mantissaRadix lim n hx hr hrl h0 hl h64
  unfold layoutInt
  simp only
  rw [h2, h1]
  split
  · exact Or.inl rfl
  · exact Or.inr rfl

/-- non-vacuity: 2^53 - 1 in radix 36, by the kernel -/
example : integerDigits exactOps 36 (2 ^ 53 - 1) = toDigits 36 (2 ^ 53 - 1) := by decide +kernel
example : render ⟨12 + 3 * 2 ^ 104⟩ { radix := true, powerOfTwo := true } {}
    (layoutInt ⟨12 + 3 * 2 ^ 104⟩ {} exactOps 5000) = [50, 48, 50, 49, 50, 48, 49, 50, 46, 48] := by decide +kernel

end RadixInteger

end LexVerif.Props.C07
