import LexVerif.Props.RoundNE
/-!
# C07 — generic-radix float output (property theorems about the judge)

The check measures, for each written output, the distance between the float and the nearest float of the
output's exact value. Monotonicity of `roundNE` is what makes that measurement meaningful: a larger exact
value never has a smaller nearest float.
-/
namespace LexVerif.Props.C07
open LexVerif.Spec LexVerif.Proof.RoundNE LexVerif.Props.RoundNE

/-- the judge's nearest-float map is monotone in the exact value (f64 instance) -/
theorem judge_monotone_f64 (a b c d : Nat) (hb : 0 < b) (hd : 0 < d) (h : (a : ℚ) / b ≤ (c : ℚ) / d) :
    roundNE f64 a b ≤ roundNE f64 c d :=
  roundNE_mono wf_f64 hb hd h

end LexVerif.Props.C07
