import LexVerif.Props.C08
import LexVerif.Props.C02
/-!
# C08 — decimal value round trip tied to the Dragonbox model (C08 ∘ C02)

`Props.C08.roundtrip_decimal_value` has one named hypothesis, `WriterDigitsShortest`.  Here it is discharged from
C02's correctness predicate of the Dragonbox model (`dragonboxOk t bits`: `to_decimal` returns, up to trailing zeros
of the significand, a member of `Spec.shortest`): `writerDigitsShortest_of_dragonboxOk`.  Consequences:
* `roundtrip_decimal_value_full` — the full statement for every finite non-zero float (a `Prop`; it follows from
  C02's full statement `dragonbox_correct` (`roundtrip_decimal_value_of_dragonbox_correct`), which is now proved:
  `roundtrip_decimal_value_holds`);
* `roundtrip_decimal_value_partial` — **proved** for every float whose mantissa field is zero (all 2300 powers of two
  of f32 and f64: the `compute_nearest_shorter` branch, kernel-evaluated in C02), every valid decimal format, every
  compatible option pair without a digit limit, both signs.
The digits handed to the formatting layer are the decimal digits of `to_decimal`'s significand, the scientific
exponent is `exponent + digit count − 1` (`algorithm.rs::write_float`).
-/
namespace LexVerif.Props.C08
open LexVerif.Spec LexVerif.Model LexVerif.Model.WriteFloat LexVerif.Model.Dragonbox LexVerif.Proof.RoundTrip
open LexVerif.Proof.RoundNE LexVerif.Proof.DragonboxSpec

theorem normDec_value : ∀ (n d : Nat) (e : Int),
    ((normDec n d e).1 : ℚ) * (10 : ℚ) ^ (normDec n d e).2 = (d : ℚ) * (10 : ℚ) ^ e
  | 0, _, _ => rfl
  | n + 1, d, e => by
    unfold normDec
    split
    · rename_i h
      rw [normDec_value n (d / 10) (e + 1)]
      have h1 : d = 10 * (d / 10) := by omega
      rw [zpow_add₀ (by norm_num : (10 : ℚ) ≠ 0), zpow_one]
      conv_rhs => rw [h1]
      push_cast
      ring
    · rfl

theorem wf_fmtOf (t : FTy) : WF (fmtOf t) := by
  cases t
  · exact wf_f32
  · exact wf_f64

theorem fmtRange_fmtOf (t : FTy) : FmtRange (fmtOf t) := by
  cases t
  · exact fmtRange_f32
  · exact fmtRange_f64

/-- C02's per-input correctness predicate of the Dragonbox model gives the hypothesis of the value round trip -/
theorem writerDigitsShortest_of_dragonboxOk (t : FTy) (bits : Nat) (h0 : 0 < bits) (hfin : bits < (fmtOf t).infBits)
    (h : dragonboxOk t bits = true) :
    ∃ m e, toDecimal t bits = some (m, e) ∧
      WriterDigitsShortest (fmtOf t) bits (toDigits 10 m) (e + ((toDigits 10 m).length : Int) - 1) := by
  unfold dragonboxOk at h
  cases hd : toDecimal t bits with
  | none => simp [hd] at h
  | some p =>
    obtain ⟨m, e⟩ := p
    simp only [hd] at h
    have hmem : normDec 20 m e ∈ shortest (fmtOf t) bits := by simpa using h
    have hval := normDec_value 20 m e
    have hm : m ≠ 0 := by
      intro hz
      subst hz
      have hrt := LexVerif.Props.RoundNE.shortest_roundtrips (wf_fmtOf t) h0 hfin
        (D := (normDec 20 0 e).1) (E := (normDec 20 0 e).2) hmem
      have h1 : (normDec 20 0 e).1 = 0 := by simp [normDec]
      rw [h1] at hrt
      have : (decFrac 0 (normDec 20 0 e).2).1 = 0 := by unfold decFrac; split <;> simp
      rw [this, roundNE_zero] at hrt
      omega
    refine ⟨m, e, rfl, ⟨toDigits_ne_nil 10 m (by omega), toDigits_digit_lt 10 m (by omega), ?_⟩,
      (normDec 20 m e).1, (normDec 20 m e).2, hmem, ?_⟩
    · intro h0'
      exact absurd h0' (toDigits_head_ne_zero 10 m (by omega) hm)
    · rw [hval, ofDigits_toDigits 10 m (by omega)]
      congr 2
      omega

/-- conclusion of the value round trip for the Dragonbox model's digits of `bits` (non-`compact` builds) -/
def RoundTripsAll (t : FTy) (bits : Nat) : Prop :=
  ∃ m e, toDecimal t bits = some (m, e) ∧
    ∀ (feats : Features) (fmt : Format) (wo : WOpts) (po : POpts) (neg : Bool),
      FormatValid feats (unpack fmt.raw) → fmt.mantissaRadix = 10 → fmt.exponentBase = 10 →
      OptionsAgree feats fmt wo po → PrefixClear feats fmt po.dp po.exp → wo.maxDigits = none →
      ∃ l : FloatLit,
        grammarFloatComplete feats fmt po (writerSign feats fmt neg ++
            writeDecimal fmt feats (toDigits 10 m) (e + ((toDigits 10 m).length : Int) - 1) wo) =
          .num l (writerSign feats fmt neg ++
            writeDecimal fmt feats (toDigits 10 m) (e + ((toDigits 10 m).length : Int) - 1) wo).length ∧
        litBits (fmtOf t) fmt.mantissaRadix fmt.exponentBase l = bits + (if neg then (fmtOf t).signBit else 0)

theorem roundTripsAll_of_dragonboxOk (t : FTy) (bits : Nat) (h0 : 0 < bits) (hfin : bits < (fmtOf t).infBits)
    (h : dragonboxOk t bits = true) : RoundTripsAll t bits := by
  obtain ⟨m, e, hd, hW⟩ := writerDigitsShortest_of_dragonboxOk t bits h0 hfin h
  refine ⟨m, e, hd, ?_⟩
  intro feats fmt wo po neg hv h10 hb ha hc hm
  exact roundtrip_decimal_value (fmtOf t) (wf_fmtOf t) (fmtRange_fmtOf t) feats fmt wo po bits _ _ neg hv h10 hb ha hc hm
    h0 hfin hW

/-- FULL STATEMENT (open, because C02's `dragonbox_correct` is): every finite non-zero float, written by the Dragonbox
model's digits through the formatting-layer model in any valid decimal format with any compatible options (no digit
limit), is read back by the documented grammar as the same bits. -/
def roundtrip_decimal_value_full : Prop :=
  ∀ (t : FTy) (bits : Nat), 0 < bits → bits < (fmtOf t).infBits → RoundTripsAll t bits

/-- the full statement is exactly as open as C02's -/
theorem roundtrip_decimal_value_of_dragonbox_correct (h : LexVerif.Props.C02.dragonbox_correct) :
    roundtrip_decimal_value_full :=
  fun t bits h0 hfin => roundTripsAll_of_dragonboxOk t bits h0 hfin (h t bits h0 hfin)

/-- **the full statement holds** (default, non-`compact` builds): C02's `dragonbox_correct` is proved for every finite
non-zero f32 / f64 (`Props.C02.dragonbox_correct_holds`) -/
theorem roundtrip_decimal_value_holds : roundtrip_decimal_value_full :=
  roundtrip_decimal_value_of_dragonbox_correct LexVerif.Props.C02.dragonbox_correct_holds

/-- **PROVED PART**: all floats with a zero mantissa field (every power of two of f32 and f64) -/
theorem roundtrip_decimal_value_partial (t : FTy) (e : Nat) (h0 : 0 < e) (he : e < 2 ^ t.exponentSize.toNat - 1)
    (hfin : e * 2 ^ t.ms < (fmtOf t).infBits) : RoundTripsAll t (e * 2 ^ t.ms) :=
  roundTripsAll_of_dragonboxOk t _ (Nat.mul_pos h0 (Nat.pow_pos (by omega))) hfin
    (LexVerif.Props.C02.dragonbox_correct_shorter_partial t e h0 he)

/-- non-vacuity: f64 `1.0` (exponent field 1023) -/
example : RoundTripsAll .f64 (1023 * 2 ^ FTy.f64.ms) :=
  roundtrip_decimal_value_partial .f64 1023 (by decide) (by decide) (by decide)

end LexVerif.Props.C08
