import LexVerif.Proof.ParseNumberC11Prefix
/-!
# C11 — partial and complete parsers agree (float syntax layer)

Entry point `parseFloatSyntax c o isPartial input` (`parse_complete` / `parse_partial` of
`lexical-parse-float/src/parse.rs` up to the `Number`), every format, feature set and debug flag unless a
hypothesis says otherwise.

(A) `complete s = ok p ⇔ partial s = ok p ∧ count p = |s|`
* `parseNumber_isPartial_ok`, `parseNumber_isPartial_err`: `IS_PARTIAL` only selects an error kind.
* `complete_of_partial` (⇐): no hypothesis.
* `partial_of_complete_number`, `partial_of_complete_zero` (⇒ for numbers / the empty case): no hypothesis.
* `partial_of_complete` (⇒): under `NoShadow`; `shadow_disagree` shows the hypothesis is exact.
* `noShadow_syntactic`, `complete_iff_partial_syntactic`: syntactic sufficient condition (no separator byte,
  mantissa digits required, special strings do not start with a digit / the decimal point).
* `complete_iff_partial_full` is FALSE: `not_complete_iff_partial_full` (witnesses below).

(B) `partial s = ok (p, n) ∧ n > 0 → complete (s.take n) = ok p`
* `partial_prefix_full` is FALSE: `not_partial_prefix_full`, three witness classes.
* `partial_prefix_contiguous` (+ `_number`, `_special`, `partial_prefix_noformat`, `partial_prefix_model`): proved for
  every release build without a digit-separator byte (no `format` feature, or a `format` build whose format has no
  separator — base prefix/suffix and all syntax flags allowed) when mantissa digits are required; numbers
  unconditionally, specials under `SpecialHeadsOK`.
* `partial_prefix_number` (+ `partial_prefix_model_number`, `parseNumber_prefix`, `partial_prefix_phases`): number
  results for the larger class `NumContig` — a separator byte may exist as long as the integer, fraction and exponent
  components have no separator flag (separator in special values only). There the buffer is not contiguous and the
  digit counts of `parse_number` come from `increment_count`; the proof needs every digit to be counted exactly once,
  which holds since /repo 7e8a135 (8-digit blocks) — `regression_*` below are the former failing inputs.
* formats WITH separator flags on integer / fraction / exponent: `Props/C11Sep.lean` (`partial_prefix_sep`, every
  separator predicate, number and special-value results; exact exclusion = the open defect of `witness_B_hexfloat_sep`).
-/
namespace LexVerif.Props.C11
open LexVerif LexVerif.Model LexVerif.Spec
open LexVerif.Proof.C11

/-! ## full statements -/

/-- C11 (A), verbatim from `Props/C12.lean` -/
def complete_iff_partial_full : Prop :=
  ∀ (c : Cfg) (o : Spec.POpts) (s : List Nat) (p : Parsed),
    parseFloatSyntax c o false s = .ok p ↔
      (∃ q, parseFloatSyntax c o true s = .ok q ∧
        match q, p with
        | .zero n, .zero m => n = s.length ∧ m = n
        | .number x n, .number y m => x = y ∧ n = s.length ∧ m = n
        | .special a sa n, .special a' sa' m => a = a' ∧ sa = sa' ∧ n = s.length ∧ m = n
        | _, _ => False)

/-- the `match` of the full statement says: same result, count = length -/
theorem agree_iff (len : Nat) (q p : Parsed) :
    (match q, p with
      | .zero n, .zero m => n = len ∧ m = n
      | .number x n, .number y m => x = y ∧ n = len ∧ m = n
      | .special a sa n, .special a' sa' m => a = a' ∧ sa = sa' ∧ n = len ∧ m = n
      | _, _ => False) ↔ (q = p ∧ pcount p = len) := by
  cases q <;> cases p <;> simp [pcount] <;> grind

/-! ## `IS_PARTIAL` inside `parse_number` -/

/-- lemma 1: success and the result of `parse_number` do not depend on `IS_PARTIAL` (any cfg) -/
theorem parseNumber_isPartial_ok (c : Cfg) (o : POpts) (b : Bytes) (neg fv : Bool) (r : Number × Nat) :
    parseNumber c true o b neg fv = .ok r ↔ parseNumber c false o b neg fv = .ok r :=
  parseNumber_ok_iff c o b neg fv r

/-- lemma 2: `Error::Kind(idx)` results correspond (kind and index may differ), panics/faults are identical -/
theorem parseNumber_isPartial_err (c : Cfg) (o : POpts) (b : Bytes) (neg fv : Bool) :
    ((∃ k i, parseNumber c true o b neg fv = .error (.err k i)) ↔
      (∃ k i, parseNumber c false o b neg fv = .error (.err k i))) ∧
    (∀ e, (∀ k i, e ≠ .err k i) →
      (parseNumber c true o b neg fv = .error e ↔ parseNumber c false o b neg fv = .error e)) :=
  ⟨parseNumber_err_iff c o b neg fv, fun e he => parseNumber_panic_iff c o b neg fv e he⟩

example : parseNumber ⟨{}, Format.standard, false⟩ true {} (Bytes.new [49, 46, 53, 120]) false
    = .ok (⟨15, -1, false, false, [49], some [53], 0⟩, 3) := by decide

/-! ## (A) ⇐ : no hypothesis -/

/-- if the partial parser accepts and consumed everything, the complete parser returns the same -/
theorem complete_of_partial (c : Cfg) (o : POpts) (s : List Nat) (fv : Bool) (q : Parsed)
    (h : parseFloatSyntax c o true s fv = .ok q) (hc : pcount q = s.length) :
    parseFloatSyntax c o false s fv = .ok q := by
  rw [parseFloatSyntax_eq] at h ⊢
  cases ha : afterSign c s with
  | error e => rw [ha] at h; cases h
  | ok r =>
    obtain ⟨neg, consumed, b⟩ := r
    rw [ha] at h
    simp only at h ⊢
    cases consumed with
    | true => simpa using h
    | false =>
      simp only [Bool.false_eq_true, if_false] at h ⊢
      exact tail_complete_of_partial c o s fv neg b q (afterSign_ok c s neg false b ha).1 h hc

example : parseFloatSyntax ⟨{}, Format.standard, false⟩ {} true [49, 46, 53] = .ok (.number ⟨15, -1, false, false, [49], some [53], 0⟩ 3)
    ∧ pcount (.number ⟨15, -1, false, false, [49], some [53], 0⟩ 3) = [49, 46, 53].length := by decide

/-! ## (A) ⇒ -/

/-- ⇒ for numbers: no hypothesis -/
theorem partial_of_complete_number (c : Cfg) (o : POpts) (s : List Nat) (fv : Bool) (n : Number) (m : Nat)
    (h : parseFloatSyntax c o false s fv = .ok (.number n m)) :
    parseFloatSyntax c o true s fv = .ok (.number n s.length) ∧ m = s.length := by
  rw [parseFloatSyntax_eq] at h ⊢
  cases ha : afterSign c s with
  | error e => rw [ha] at h; cases h
  | ok r =>
    obtain ⟨neg, consumed, b⟩ := r
    rw [ha] at h
    simp only at h ⊢
    cases consumed with
    | true =>
      simp only [if_true] at h
      split at h <;> cases h
    | false =>
      simp only [Bool.false_eq_true, if_false] at h ⊢
      have h1 := tail_complete_number c o s fv neg b n m (afterSign_ok c s neg false b ha).1 h
      refine ⟨?_, h1.2⟩
      unfold tail
      simp [(parseNumber_ok_iff c o b neg fv _).mpr h1.1, pure, Except.pure]

example : parseFloatSyntax ⟨{}, Format.standard, false⟩ {} false [49, 46, 53]
    = .ok (.number ⟨15, -1, false, false, [49], some [53], 0⟩ 3) := by decide

/-- ⇒ for the empty case (`Ok(F::ZERO)`): no hypothesis -/
theorem partial_of_complete_zero (c : Cfg) (o : POpts) (s : List Nat) (fv : Bool) (m : Nat)
    (h : parseFloatSyntax c o false s fv = .ok (.zero m)) :
    parseFloatSyntax c o true s fv = .ok (.zero m) ∧ m = s.length := by
  rw [parseFloatSyntax_eq] at h ⊢
  cases ha : afterSign c s with
  | error e => rw [ha] at h; cases h
  | ok r =>
    obtain ⟨neg, consumed, b⟩ := r
    rw [ha] at h
    simp only at h ⊢
    cases consumed with
    | true =>
      simp only [if_true] at h ⊢
      refine ⟨h, ?_⟩
      have hidx := ((afterSign_ok c s neg true b ha).2.2).mp rfl
      split at h
      · cases h
      · simp only [Except.ok.injEq, Parsed.zero.injEq] at h
        omega
    | false =>
      exfalso
      simp only [Bool.false_eq_true, if_false] at h
      unfold tail at h
      simp only [Bool.false_eq_true, if_false] at h
      split at h
      · cases h
      · split at h <;> cases h
      · cases h

example : parseFloatSyntax ⟨{ format := true }, ⟨0x4 + 10 * 2 ^ 104⟩, false⟩ {} false [45] = .ok (.zero 1) := by decide

/-- ⇒ in general: under `NoShadow` (after the sign, it is not the case that `parse_number` succeeds on a proper prefix
while the special-value parser matches the whole buffer) -/
theorem partial_of_complete (c : Cfg) (o : POpts) (s : List Nat) (fv : Bool) (p : Parsed)
    (hns : NoShadow c o s fv) (h : parseFloatSyntax c o false s fv = .ok p) :
    parseFloatSyntax c o true s fv = .ok p ∧ pcount p = s.length := by
  rw [parseFloatSyntax_eq] at h ⊢
  cases ha : afterSign c s with
  | error e => rw [ha] at h; cases h
  | ok r =>
    obtain ⟨neg, consumed, b⟩ := r
    rw [ha] at h
    simp only at h ⊢
    cases consumed with
    | true =>
      simp only [if_true] at h ⊢
      refine ⟨h, ?_⟩
      have hidx := ((afterSign_ok c s neg true b ha).2.2).mp rfl
      split at h
      · cases h
      · simp only [Except.ok.injEq] at h
        subst h
        simpa [pcount] using hidx
    | false =>
      simp only [Bool.false_eq_true, if_false] at h ⊢
      exact tail_partial_of_complete c o s fv neg b p (afterSign_ok c s neg false b ha).1 (hns neg b ha) h

/-- non-vacuity: STANDARD format, "inf" is not shadowed and is accepted -/
example : parseFloatSyntax ⟨{}, Format.standard, false⟩ {} false [105, 110, 102] = .ok (.special .inf false 3) := by
  decide

/-- `NoShadow` is exact: a shadowed input is a disagreement (complete → special, partial → number on a proper prefix) -/
theorem shadow_disagree (c : Cfg) (o : POpts) (s : List Nat) (fv : Bool) (h : ¬ NoShadow c o s fv) :
    ∃ sp neg n count, parseFloatSyntax c o false s fv = .ok (.special sp neg s.length) ∧
      parseFloatSyntax c o true s fv = .ok (.number n count) ∧ count ≠ s.length := by
  unfold NoShadow at h
  simp only [Classical.not_forall, Classical.not_not] at h
  obtain ⟨neg, b, ha, hs⟩ := h
  obtain ⟨sp, n, count, h1, h2, h3⟩ := tail_shadow c o s fv neg b (afterSign_ok c s neg false b ha).1 hs
  refine ⟨sp, neg, n, count, ?_, ?_, h3⟩
  · rw [parseFloatSyntax_eq, ha]; simpa using h1
  · rw [parseFloatSyntax_eq, ha]; simpa using h2

/-- (A) for one input, under the exact exclusion -/
theorem complete_iff_partial (c : Cfg) (o : POpts) (s : List Nat) (p : Parsed) (hns : NoShadow c o s) :
    parseFloatSyntax c o false s = .ok p ↔
      (∃ q, parseFloatSyntax c o true s = .ok q ∧
        match q, p with
        | .zero n, .zero m => n = s.length ∧ m = n
        | .number x n, .number y m => x = y ∧ n = s.length ∧ m = n
        | .special a sa n, .special a' sa' m => a = a' ∧ sa = sa' ∧ n = s.length ∧ m = n
        | _, _ => False) := by
  constructor
  · intro h
    have := partial_of_complete c o s true p hns h
    exact ⟨p, this.1, (agree_iff s.length p p).mpr ⟨rfl, this.2⟩⟩
  · rintro ⟨q, hq, hm⟩
    obtain ⟨rfl, hc⟩ := (agree_iff s.length q p).mp hm
    exact complete_of_partial c o s true q hq hc

/-! ## (A) negation witnesses — each is a disagreement of the library (model tied to the Rust by correspondence) -/

/-- feature sets / formats of the witnesses (raw values as in `harness/formats.txt`) -/
def featsRadixFormat : Features := { radix := true, powerOfTwo := true, format := true }
def featsRadix : Features := { radix := true, powerOfTwo := true }
def fmtNoMantissaDigits : Format := ⟨0xa0a0a00000000000000000000000004⟩   -- flag_no_required_mantissa_digits
def fmtRadix20 : Format := ⟨0x1414140000000000000000000000000c⟩
def fmtRadix24 : Format := ⟨0x1818180000000000000000000000000c⟩
def fmtRadix30 : Format := ⟨0x1e1e1e0000000000000000000000000c⟩
def fmtSepIHexfloatPrefix : Format := ⟨0xa0210007800005f000000070000000c⟩  -- sep_i_hexfloat_prefix

/-- (i) mantissa digits not required: complete "NaN" = NaN, partial "NaN" = (0.0, 0) -/
theorem witness_A_nodigits_nan :
    parseFloatModel featsRadixFormat fmtNoMantissaDigits {} false f64 [78, 97, 78] = "ok nan -" ∧
    parseFloatModel featsRadixFormat fmtNoMantissaDigits {} true f64 [78, 97, 78] = "ok 0 0" := by decide +kernel

/-- (i) complete "-inf" = -inf, partial "-inf" = (-0.0, 1) -/
theorem witness_A_nodigits_neginf :
    parseFloatModel featsRadixFormat fmtNoMantissaDigits {} false f64 [45, 105, 110, 102] = "ok fff0000000000000 -" ∧
    parseFloatModel featsRadixFormat fmtNoMantissaDigits {} true f64 [45, 105, 110, 102] = "ok 8000000000000000 1" := by
  decide +kernel

/-- (ii) radix 20 (no `format` feature; exponent character '^'): complete "inf" = inf, partial "inf" = (18.0, 1):
'i' = 18 is a digit, 'n' = 23 is not -/
theorem witness_A_radix20_inf :
    parseFloatModel featsRadix fmtRadix20 { exp := 94 } false f64 [105, 110, 102] = "ok 7ff0000000000000 -" ∧
    parseFloatModel featsRadix fmtRadix20 { exp := 94 } true f64 [105, 110, 102] = "ok 4032000000000000 1" := by
  decide +kernel

/-- (ii) radix 30: complete "infinity" = inf, partial "infinity" = (13693557269.0, 7): 'y' = 34 is not a digit -/
theorem witness_A_radix30_infinity :
    parseFloatModel featsRadix fmtRadix30 { exp := 94 } false f64 [105, 110, 102, 105, 110, 105, 116, 121]
      = "ok 7ff0000000000000 -" ∧
    parseFloatModel featsRadix fmtRadix30 { exp := 94 } true f64 [105, 110, 102, 105, 110, 105, 116, 121]
      = "ok 42098198d0a80000 7" := by
  decide +kernel

/-- the same radix-20 witness on the syntax layer -/
theorem witness_A_radix20_syntax :
    parseFloatSyntax ⟨featsRadix, fmtRadix20, false⟩ { exp := 94 } false [105, 110, 102] = .ok (.special .inf false 3) ∧
    parseFloatSyntax ⟨featsRadix, fmtRadix20, false⟩ { exp := 94 } true [105, 110, 102]
      = .ok (.number ⟨18, 0, false, false, [105], none, 0⟩ 1) := by decide +kernel

/-- C11 (A) as stated is false (valid format, valid options) -/
theorem not_complete_iff_partial_full : ¬ complete_iff_partial_full := by
  intro h
  obtain ⟨q, hq, hm⟩ := (h ⟨featsRadix, fmtRadix20, false⟩ { exp := 94 } [105, 110, 102] (.special .inf false 3)).mp
    witness_A_radix20_syntax.1
  rw [witness_A_radix20_syntax.2] at hq
  cases hq
  exact hm

/-- the witness formats/options are valid (the API does not reject them) -/
example : formatError featsRadix fmtRadix20 = none ∧ isValidOptionsPunctuation featsRadix fmtRadix20 94 46 = true ∧
    formatError featsRadixFormat fmtNoMantissaDigits = none ∧
    formatError featsRadixFormat fmtSepIHexfloatPrefix = none ∧ formatError featsRadix fmtRadix24 = none := by
  decide +kernel

/-! ## (B) `partial_prefix` -/

/-- C11 (B), full statement: a successful partial parse with a positive count is reproduced by the complete parser
on exactly the consumed prefix -/
def partial_prefix_full : Prop :=
  ∀ (c : Cfg) (o : Spec.POpts) (s : List Nat) (p : Parsed),
    parseFloatSyntax c o true s = .ok p → pcount p > 0 →
      parseFloatSyntax c o false (s.take (pcount p)) = .ok p

/-- (i) mantissa digits not required: partial "-+" = (-0.0, 1) but complete "-" = +0.0 -/
theorem witness_B_nodigits_sign :
    parseFloatModel featsRadixFormat fmtNoMantissaDigits {} true f64 [45, 43] = "ok 8000000000000000 1" ∧
    parseFloatModel featsRadixFormat fmtNoMantissaDigits {} false f64 [45] = "ok 0 -" := by decide +kernel

/-- (ii) `sep_i_hexfloat_prefix` (radix 16, exponent radix 10, exponent-internal '_'): partial "1p1_a" = (2.0, 4) — the
internal-separator look-ahead accepts `_` because the *mantissa*-radix digit 'a' follows — but complete "1p1_" fails -/
theorem witness_B_hexfloat_sep :
    parseFloatModel featsRadixFormat fmtSepIHexfloatPrefix { exp := 112 } true f64 [49, 112, 49, 95, 97]
      = "ok 4000000000000000 4" ∧
    parseFloatModel featsRadixFormat fmtSepIHexfloatPrefix { exp := 112 } false f64 [49, 112, 49, 95]
      = "err InvalidDigit 3" := by decide +kernel

/-- (iii) radix ≥ 24, no `format` feature needed: partial "nan^" = (NaN, 3) — `parse_number` reads the digits n,a,n, then
the exponent character with no exponent digits: `EmptyExponent`, fall back to the specials — but complete "nan" is the
number 13511 -/
theorem witness_B_radix24_nan :
    parseFloatModel featsRadix fmtRadix24 { exp := 94 } true f64 [110, 97, 110, 94] = "ok nan 3" ∧
    parseFloatModel featsRadix fmtRadix24 { exp := 94 } false f64 [110, 97, 110] = "ok 40ca638000000000 -" := by
  decide +kernel

theorem witness_B_radix24_syntax :
    parseFloatSyntax ⟨featsRadix, fmtRadix24, false⟩ { exp := 94 } true [110, 97, 110, 94] = .ok (.special .nan false 3) ∧
    parseFloatSyntax ⟨featsRadix, fmtRadix24, false⟩ { exp := 94 } false [110, 97, 110]
      = .ok (.number ⟨13511, 0, false, false, [110, 97, 110], none, 0⟩ 3) := by decide +kernel

/-- C11 (B) as stated is false (valid format, valid options, no `format` feature) -/
theorem not_partial_prefix_full : ¬ partial_prefix_full := by
  intro h
  have := h ⟨featsRadix, fmtRadix24, false⟩ { exp := 94 } [110, 97, 110, 94] (.special .nan false 3)
    witness_B_radix24_syntax.1 (by decide)
  rw [show List.take (pcount (.special .nan false 3)) [110, 97, 110, 94] = [110, 97, 110] by decide,
    witness_B_radix24_syntax.2] at this
  cases this

/-! ## regressions of the two repaired counting defects (/repo 7e8a135, 12a2453)

Formats whose separator flags sit on some components only (here: `_` allowed between fraction digits only,
`c13_dec_fra_i`): the integer iterator is contiguous while the buffer is not. Before the repairs the digits of the
8-digit fast loop were not counted (`12345678` → `EmptyMantissa` from the complete AND the partial parser — both
relations of C11 held vacuously on such inputs); now both entry points return the value and the two relations hold
with content. -/

def fmtSepFracI : Format := ⟨0xa0a0a000000005f000000020000000c⟩   -- c13_dec_fra_i

/-- (A) on `12345678`: complete = 12345678.0, partial = (12345678.0, 8 = length) -/
theorem regression_A_sep_format_8digit_block :
    parseFloatModel featsRadixFormat fmtSepFracI {} false f64 [49, 50, 51, 52, 53, 54, 55, 56]
      = "ok 41678c29c0000000 -" ∧
    parseFloatModel featsRadixFormat fmtSepFracI {} true f64 [49, 50, 51, 52, 53, 54, 55, 56]
      = "ok 41678c29c0000000 8" := by decide +kernel

/-- (B) on `12345678x`: partial = (12345678.0, 8), complete on the first 8 bytes = 12345678.0; and through the fraction
separator: partial `123456789.1_2x` = (123456789.12, 13) = complete `123456789.1_2` -/
theorem regression_B_sep_format_8digit_block :
    (parseFloatModel featsRadixFormat fmtSepFracI {} true f64 [49, 50, 51, 52, 53, 54, 55, 56, 120]
      = "ok 41678c29c0000000 8" ∧
     parseFloatModel featsRadixFormat fmtSepFracI {} false f64 ([49, 50, 51, 52, 53, 54, 55, 56, 120].take 8)
      = "ok 41678c29c0000000 -") ∧
    (parseFloatModel featsRadixFormat fmtSepFracI {} true f64 [49, 50, 51, 52, 53, 54, 55, 56, 57, 46, 49, 95, 50, 120]
      = "ok 419d6f34547ae148 13" ∧
     parseFloatModel featsRadixFormat fmtSepFracI {} false f64
        ([49, 50, 51, 52, 53, 54, 55, 56, 57, 46, 49, 95, 50, 120].take 13) = "ok 419d6f34547ae148 -") := by
  decide +kernel

/-- the same on the syntax layer: the number carries all eight integer digits -/
theorem regression_sep_format_syntax :
    parseFloatSyntax ⟨featsRadixFormat, fmtSepFracI, false⟩ {} true [49, 50, 51, 52, 53, 54, 55, 56, 120]
      = .ok (.number ⟨12345678, 0, false, false, [49, 50, 51, 52, 53, 54, 55, 56], none, 0⟩ 8) ∧
    parseFloatSyntax ⟨featsRadixFormat, fmtSepFracI, false⟩ {} false [49, 50, 51, 52, 53, 54, 55, 56]
      = .ok (.number ⟨12345678, 0, false, false, [49, 50, 51, 52, 53, 54, 55, 56], none, 0⟩ 8) := by decide +kernel

/-! ## (B) proved part 1: truncation of the phases of `parse_number`

Setting: release build (`Rel c`) and `NumContig c`: no digit-separator byte, or no separator flag on the integer,
fraction and exponent components — the build without the `format` feature and every `format` build whose format has no
separator inside numbers (base prefix/suffix, all syntax flags, a separator in special values allowed).
`trunc n b` cuts the buffer after `n` bytes. Each phase that returns with its cursor at `i ≤ n` returns the same
result on the truncated buffer (bytes at positions `≥ i` are inspected only to decide to stop). -/

/-- integer (with base prefix), fraction and exponent phase commute with truncation at or beyond their final cursor;
the cursor only moves forward and stays inside the buffer. (The digit loops, `parse_sign!`, prefix and suffix are
`parseDigits_trunc`, `tryParse8_trunc`, `parse8Digits_trunc`, `parseSign_trunc`, `prefixPhase_trunc`,
`suffixPhase_trunc` in `Proof/ParseNumberC11Trunc.lean`.) -/
theorem partial_prefix_phases (c : Cfg) (o : POpts) (hc : Proof.PNTotal.Rel c) (hb : NumContig c)
    (b : Bytes) (hv : C12.Bytes.Valid b) :
    (∀ ip, integerPhase c b = .ok ip →
      b.index ≤ ip.byte.index ∧ ip.byte.index ≤ b.slc.length ∧
      ∀ n, ip.byte.index ≤ n → integerPhase c (trunc n b) = .ok { ip with start := trunc n ip.start, byte := trunc n ip.byte }) ∧
    (∀ m fp, fractionPhase c o b m = .ok fp →
      b.index ≤ fp.byte.index ∧ fp.byte.index ≤ b.slc.length ∧
      ∀ n, fp.byte.index ≤ n → fractionPhase c o (trunc n b) m = .ok { fp with byte := trunc n fp.byte }) ∧
    (∀ fr ex ep, b.index < b.slc.length → exponentPhase c true b fr ex = .ok ep →
      b.index + 1 ≤ ep.byte.index ∧ ep.byte.index ≤ b.slc.length ∧
      ∀ n, ep.byte.index ≤ n → exponentPhase c true (trunc n b) fr ex = .ok { ep with byte := trunc n ep.byte }) := by
  refine ⟨?_, ?_, ?_⟩
  · intro ip h
    obtain ⟨_, e2, _, e4, e5, e6, _, _, e9⟩ := integerPhase_trunc hc hb b ip hv h
    exact ⟨by omega, by have : ip.byte.index ≤ ip.byte.slc.length := e6
                        rw [e4] at this; exact this, e9⟩
  · intro m fp h
    obtain ⟨e1, e2, e3, _, _, _, e5⟩ := fractionPhase_trunc hc hb o b m fp hv h
    exact ⟨e2, by have : fp.byte.index ≤ fp.byte.slc.length := e3
                  rw [e1] at this; exact this, e5⟩
  · intro fr ex ep hlt h
    obtain ⟨e1, _, e3, e4, e5⟩ := exponentPhase_trunc hc hb true b fr ex ep hv (fun _ => hlt) h
    exact ⟨e4 rfl, by have : ep.byte.index ≤ ep.byte.slc.length := e3
                      rw [e1] at this; exact this, e5⟩

/-- non-vacuity: "12.5e3x" — the three phases succeed -/
example : (∃ ip, integerPhase ⟨{}, Format.standard, false⟩ (Bytes.new [49, 50, 46, 53, 101, 51, 120]) = .ok ip ∧
      ip.byte.index = 2) ∧
    (∃ fp, fractionPhase ⟨{}, Format.standard, false⟩ {} { slc := [49, 50, 46, 53, 101, 51, 120], index := 2 } 12 = .ok fp ∧
      fp.byte.index = 4) ∧
    (∃ ep, exponentPhase ⟨{}, Format.standard, false⟩ true { slc := [49, 50, 46, 53, 101, 51, 120], index := 4 }
      (some [53]) (-1) = .ok ep ∧ ep.byte.index = 6) :=
  ⟨⟨_, rfl, rfl⟩, ⟨_, rfl, rfl⟩, ⟨_, rfl, rfl⟩⟩

/-! ## (A) syntactic sufficient condition for `NoShadow` -/

/-- no digit-separator byte, mantissa digits required, and every special string is non-empty with a
first byte that (in either case) is neither a mantissa digit nor the decimal point ⇒ nothing is shadowed.
Any feature set, any other flags (base suffix, sign/exponent flags …), debug or release. -/
theorem noShadow_syntactic (c : Cfg) (o : POpts) (s : List Nat) (fv : Bool)
    (hb : c.bytesContiguous = true) (hr : 1 ≤ c.mantissaRadix) (hm : c.requiredMantissaDigits = true)
    (hrad : c.feats.powerOfTwo = false → c.mantissaRadix ≤ 10) (hh : SpecialHeadsOK c o) : NoShadow c o s fv :=
  noShadow_of_heads hb o s fv hh hrad hr hm

/-- C11 (A) under the syntactic condition -/
theorem complete_iff_partial_syntactic (c : Cfg) (o : POpts) (s : List Nat) (p : Parsed)
    (hb : c.bytesContiguous = true) (hr : 1 ≤ c.mantissaRadix) (hm : c.requiredMantissaDigits = true)
    (hrad : c.feats.powerOfTwo = false → c.mantissaRadix ≤ 10) (hh : SpecialHeadsOK c o) :
    parseFloatSyntax c o false s = .ok p ↔
      (∃ q, parseFloatSyntax c o true s = .ok q ∧
        match q, p with
        | .zero n, .zero m => n = s.length ∧ m = n
        | .number x n, .number y m => x = y ∧ n = s.length ∧ m = n
        | .special a sa n, .special a' sa' m => a = a' ∧ sa = sa' ∧ n = s.length ∧ m = n
        | _, _ => False) :=
  complete_iff_partial c o s p (noShadow_syntactic c o s true hb hr hm hrad hh)

/-- non-vacuity: the hypotheses hold for STANDARD (no `format`) and for a `format`-feature build with a base suffix -/
example : (⟨{}, Format.standard, false⟩ : Cfg).bytesContiguous = true ∧ (⟨{}, Format.standard, false⟩ : Cfg).basePrefix = 0 ∧
    (⟨{}, Format.standard, false⟩ : Cfg).requiredMantissaDigits = true ∧
    (⟨{ radix := true, powerOfTwo := true, format := true }, ⟨0xa02106800000000000000000000000c⟩, false⟩ : Cfg).bytesContiguous = true ∧
    (⟨{ radix := true, powerOfTwo := true, format := true }, ⟨0xa02106800000000000000000000000c⟩, false⟩ : Cfg).basePrefix = 0 ∧
    (⟨{ radix := true, powerOfTwo := true, format := true }, ⟨0xa02106800000000000000000000000c⟩, false⟩ : Cfg).requiredMantissaDigits = true := by
  decide +kernel

/-- the key lemma behind it: `parse_number` fails on a byte that is neither digit nor decimal point -/
theorem parseNumber_fails_on_nondigit (c : Cfg) (p : Bool) (o : POpts) (b : Bytes) (neg fv : Bool) (x : Nat)
    (hb : c.bytesContiguous = true) (hr : 1 ≤ c.mantissaRadix) (hm : c.requiredMantissaDigits = true)
    (hrad : c.feats.powerOfTwo = false → c.mantissaRadix ≤ 10)
    (hx : b.slc[b.index]? = some x) (hnd : charToDigit x c.mantissaRadix = none) (hdp : x ≠ o.dp)
    (r : Number × Nat) : parseNumber c p o b neg fv ≠ .ok r :=
  parseNumber_not_ok hb p o b neg fv x hx hnd hdp hrad hr hm r

/-- valid options, mantissa radix ≤ 18 and a decimal point that is not one of `I i N n` satisfy `SpecialHeadsOK` -/
theorem specialHeadsOK_of_valid (c : Cfg) (o : POpts) (hopt : optionsError o = none) (hr : c.mantissaRadix ≤ 18)
    (hdp : o.dp ≠ 73 ∧ o.dp ≠ 105 ∧ o.dp ≠ 78 ∧ o.dp ≠ 110) : SpecialHeadsOK c o := by
  have hxor : ∀ x y : Nat, (Nat.xor x y = 0 ∨ Nat.xor x y = 32) → x = y ∨ x = Nat.xor 32 y := by
    intro x y h
    have hc : Nat.xor (Nat.xor x y) y = x := by
      show (x ^^^ y) ^^^ y = x
      rw [Nat.xor_assoc, Nat.xor_self, Nat.xor_zero]
    rcases h with h | h
    · left; rw [h] at hc; simpa using hc.symm
    · right; rw [h] at hc; exact hc.symm
  have hnd : ∀ x, (x = 73 ∨ x = 105 ∨ x = 78 ∨ x = 110) → charToDigit x c.mantissaRadix = none ∧ x ≠ o.dp := by
    intro x hx
    refine ⟨?_, by rcases hx with rfl | rfl | rfl | rfl <;> omega⟩
    unfold charToDigit charToValidDigit
    rcases hx with rfl | rfl | rfl | rfl <;> simp <;> split <;> omega
  have hhead : ∀ (str : List Nat) (a b : Nat), (a = 73 ∧ b = 105) ∨ (a = 78 ∧ b = 110) →
      (str.isEmpty || !(str.head? = some a || str.head? = some b)) = false →
      ∃ y ys, str = y :: ys ∧ ∀ x, (Nat.xor x y = 0 ∨ Nat.xor x y = 32) →
        charToDigit x c.mantissaRadix = none ∧ x ≠ o.dp := by
    intro str a b hab hs
    cases str with
    | nil => simp at hs
    | cons y ys =>
      refine ⟨y, ys, rfl, ?_⟩
      intro x hx
      simp only [List.isEmpty_cons, List.head?_cons, Option.some.injEq, Bool.false_or, Bool.not_eq_false',
        Bool.or_eq_true, decide_eq_true_eq] at hs
      apply hnd
      rcases hxor x y hx with rfl | rfl
      · rcases hab with ⟨rfl, rfl⟩ | ⟨rfl, rfl⟩ <;> rcases hs with rfl | rfl <;> simp
      · rcases hab with ⟨rfl, rfl⟩ | ⟨rfl, rfl⟩ <;> rcases hs with rfl | rfl <;> decide
  intro str hstr
  unfold optionsError at hopt
  simp only at hopt
  split at hopt
  · cases hopt
  split at hopt
  · cases hopt
  split at hopt
  · cases hopt
  · next hnan =>
    split at hopt
    · cases hopt
    · split at hopt
      · cases hopt
      · next hinf =>
        rcases hstr with h | h | h
        · rw [h] at hnan
          simp only at hnan
          by_cases hc : (str.isEmpty || !(decide (str.head? = some 78) || decide (str.head? = some 110))) = true
          · rw [if_pos hc] at hnan; cases hnan
          · exact hhead str 78 110 (Or.inr ⟨rfl, rfl⟩) (by simpa using hc)
        · rw [h] at hinf
          simp only at hinf
          by_cases hc : (str.isEmpty || !(decide (str.head? = some 73) || decide (str.head? = some 105))) = true
          · rw [if_pos hc] at hinf; cases hinf
          · exact hhead str 73 105 (Or.inl ⟨rfl, rfl⟩) (by simpa using hc)
        · rw [h] at hopt
          simp only at hopt
          split at hopt
          · cases hopt
          · next hinfy =>
            by_cases hc : (str.isEmpty || !(decide (str.head? = some 73) || decide (str.head? = some 105))) = true
            · rw [if_pos hc] at hinfy; cases hinfy
            · exact hhead str 73 105 (Or.inl ⟨rfl, rfl⟩) (by simpa using hc)

/-! ## (B) proved part 2: `partial_prefix` without a digit separator inside numbers (release build) -/

/-- `parse_number` returns the same number and count on every truncation of the buffer at or beyond its count; the
count is inside the buffer and at least one byte was consumed (includes base prefix/suffix and the many-digits
re-parse) -/
theorem parseNumber_prefix (c : Cfg) (p : Bool) (o : POpts) (b : Bytes) (neg fv : Bool) (r : Number)
    (count : Nat) (hc : Proof.PNTotal.Rel c) (hb : NumContig c) (hr : 1 ≤ c.mantissaRadix)
    (hm : c.requiredMantissaDigits = true) (hv : C12.Bytes.Valid b) (h : parseNumber c p o b neg fv = .ok (r, count)) :
    b.index < count ∧ count ≤ b.slc.length ∧
    ∀ n, count ≤ n → parseNumber c p o (trunc n b) neg fv = .ok (r, count) :=
  parseNumber_trunc hc hb p o b neg fv r count hr hm hv h

/-- **C11 (B), no digit-separator byte** (release build; with or without the `format` feature; base prefix/suffix and
every syntax flag allowed; mantissa digits required): `partial s = ok p → complete (s.take (count p)) = ok p`.
Numbers need no hypothesis on the options; specials need `SpecialHeadsOK`. -/
theorem partial_prefix_contiguous (c : Cfg) (o : POpts) (s : List Nat) (p : Parsed)
    (hc : Proof.PNTotal.Rel c) (hb : c.bytesContiguous = true) (hr : 1 ≤ c.mantissaRadix)
    (hm : c.requiredMantissaDigits = true)
    (hrad : c.feats.powerOfTwo = false → c.mantissaRadix ≤ 10) (hh : SpecialHeadsOK c o)
    (h : parseFloatSyntax c o true s = .ok p) :
    parseFloatSyntax c o false (s.take (pcount p)) = .ok p :=
  partial_prefix_g hc hb o s true p hr hm hrad hh h

/-- **C11 (B), number results, no digit separator inside numbers** (`NumContig`: no separator byte, or no separator flag
on integer / fraction / exponent — the special values may take separators): every input, every options -/
theorem partial_prefix_number (c : Cfg) (o : POpts) (s : List Nat) (x : Number) (cnt : Nat)
    (hc : Proof.PNTotal.Rel c) (hn : NumContig c) (hr : 1 ≤ c.mantissaRadix)
    (hm : c.requiredMantissaDigits = true)
    (h : parseFloatSyntax c o true s = .ok (.number x cnt)) :
    parseFloatSyntax c o false (s.take cnt) = .ok (.number x cnt) :=
  partial_prefix_number_g hc hn o s true x cnt hr hm h

/-- `special_digit_separator` alone (`_` in special values only; bit 44) -/
def fmtSepSpecialOnly : Format := ⟨0xa0a0a000000005f000010000000000c⟩

/-- non-vacuity of `NumContig` beyond "no separator byte": the buffer of `fmtSepSpecialOnly` is not contiguous, the
format is valid, and `12345678x` (8-digit fast loop, digits counted by `increment_count`) → count 8 -/
example : NumContig ⟨featsRadixFormat, fmtSepSpecialOnly, false⟩ ∧
    (⟨featsRadixFormat, fmtSepSpecialOnly, false⟩ : Cfg).bytesContiguous = false ∧
    (⟨featsRadixFormat, fmtSepSpecialOnly, false⟩ : Cfg).specialSep = true ∧
    formatError featsRadixFormat fmtSepSpecialOnly = none ∧
    (⟨featsRadixFormat, fmtSepSpecialOnly, false⟩ : Cfg).requiredMantissaDigits = true ∧
    parseFloatSyntax ⟨featsRadixFormat, fmtSepSpecialOnly, false⟩ {} true [49, 50, 51, 52, 53, 54, 55, 56, 120]
      = .ok (.number ⟨12345678, 0, false, false, [49, 50, 51, 52, 53, 54, 55, 56], none, 0⟩ 8) := by
  refine ⟨Or.inr ?_, by decide +kernel, by decide +kernel, by decide +kernel, by decide +kernel, by decide +kernel⟩
  intro k hk
  cases k with
  | special => exact absurd rfl hk
  | integer => decide +kernel
  | fraction => decide +kernel
  | exponent => decide +kernel

/-- number results without a separator byte (special case of `partial_prefix_number`) -/
theorem partial_prefix_contiguous_number (c : Cfg) (o : POpts) (s : List Nat) (x : Number) (cnt : Nat)
    (hc : Proof.PNTotal.Rel c) (hb : c.bytesContiguous = true) (hr : 1 ≤ c.mantissaRadix)
    (hm : c.requiredMantissaDigits = true)
    (h : parseFloatSyntax c o true s = .ok (.number x cnt)) :
    parseFloatSyntax c o false (s.take cnt) = .ok (.number x cnt) :=
  partial_prefix_number c o s x cnt hc (NumContig.of_bytes hb) hr hm h

/-- special results: under `SpecialHeadsOK` (class (iii), `witness_B_radix24_nan`, shows that a hypothesis of this kind
is necessary) -/
theorem partial_prefix_contiguous_special (c : Cfg) (o : POpts) (s : List Nat) (sp : Special) (neg : Bool) (cnt : Nat)
    (hc : Proof.PNTotal.Rel c) (hb : c.bytesContiguous = true) (hr : 1 ≤ c.mantissaRadix)
    (hm : c.requiredMantissaDigits = true)
    (hrad : c.feats.powerOfTwo = false → c.mantissaRadix ≤ 10) (hh : SpecialHeadsOK c o)
    (h : parseFloatSyntax c o true s = .ok (.special sp neg cnt)) :
    parseFloatSyntax c o false (s.take cnt) = .ok (.special sp neg cnt) :=
  partial_prefix_special_g hc hb o s true sp neg cnt hr hm hrad hh h

/-- the build without the `format` feature: `Rel`, contiguity and required mantissa digits are automatic -/
theorem partial_prefix_noformat (c : Cfg) (o : POpts) (s : List Nat) (p : Parsed)
    (hf : c.feats.format = false) (hd : c.debug = false) (hr : 1 ≤ c.mantissaRadix)
    (hrad : c.feats.powerOfTwo = false → c.mantissaRadix ≤ 10) (hh : SpecialHeadsOK c o)
    (h : parseFloatSyntax c o true s = .ok p) :
    parseFloatSyntax c o false (s.take (pcount p)) = .ok p :=
  partial_prefix_contiguous c o s p (rel_nf hf hd) (Proof.PNTotal.notFormat_bytesContig hf) hr
    (by simp [Cfg.requiredMantissaDigits, Cfg.flag, hf]) hrad hh h

theorem partial_prefix_noformat_number (c : Cfg) (o : POpts) (s : List Nat) (x : Number) (cnt : Nat)
    (hf : c.feats.format = false) (hd : c.debug = false) (hr : 1 ≤ c.mantissaRadix)
    (h : parseFloatSyntax c o true s = .ok (.number x cnt)) :
    parseFloatSyntax c o false (s.take cnt) = .ok (.number x cnt) :=
  partial_prefix_contiguous_number c o s x cnt (rel_nf hf hd) (Proof.PNTotal.notFormat_bytesContig hf) hr
    (by simp [Cfg.requiredMantissaDigits, Cfg.flag, hf]) h

example : parseFloatSyntax ⟨{}, Format.standard, false⟩ {} true [49, 46, 53, 120]
    = .ok (.number ⟨15, -1, false, false, [49], some [53], 0⟩ 3) := by decide

example : parseFloatSyntax ⟨{}, Format.standard, false⟩ {} true [45, 110, 97, 110, 53] = .ok (.special .nan true 4) := by
  decide

/-- non-vacuity of the hypotheses: the STANDARD format with default options -/
example : SpecialHeadsOK ⟨{}, Format.standard, false⟩ {} :=
  specialHeadsOK_of_valid _ _ (by decide) (by decide) (by decide)

/-- non-vacuity with the `format` feature: C hex-float strings with base prefix `x` (`prefix_x_hexfloat`, radix 16,
exponent `p`): "0x1.8p1z" → count 7 -/
example : (⟨featsRadixFormat, ⟨0xa02100078000000000000000000000c⟩, false⟩ : Cfg).bytesContiguous = true ∧
    (⟨featsRadixFormat, ⟨0xa02100078000000000000000000000c⟩, false⟩ : Cfg).requiredMantissaDigits = true ∧
    parseFloatSyntax ⟨featsRadixFormat, ⟨0xa02100078000000000000000000000c⟩, false⟩ { exp := 112 } true
      [48, 120, 49, 46, 56, 112, 49, 122] = .ok (.number ⟨24, -3, false, false, [49], some [56], 1⟩ 7) := by
  decide +kernel

/-! ## (B) at the API level (`parseFloatModel`, the harness line) -/

/-- when the validation of `api.rs` passes, the API result is the rendered syntax result -/
theorem parseFloatModel_of_valid (feats : Features) (fmt : Format) (o : POpts) (p : Bool) (f : Fmt) (s : List Nat)
    (debug : Bool) (h1 : optionsError o = none) (h2 : formatError feats fmt = none)
    (h3 : isValidOptionsPunctuation feats fmt o.exp o.dp = true) (h4 : checkRadix feats fmt = true) :
    parseFloatModel feats fmt o p f s debug =
      match parseFloatSyntax ⟨feats, fmt, debug⟩ o p s true with
      | .ok q => renderParsed ⟨feats, fmt, debug⟩ f p q
      | .error e => renderErr e := by
  unfold parseFloatModel
  simp only [h1, h2, h3, h4, Option.isSome_none, Option.isNone_none, Bool.false_eq_true, if_false, Bool.not_true]
  rfl

/-- C11 (B) for `parse_partial_with_options` / `parse_with_options` (release build, valid format and options, no digit
separator in the format, mantissa digits required, mantissa radix ≤ 18, decimal point not one of `I i N n`): whatever
the partial parser returns as `(value, count)`, the complete parser returns the same value on the first `count` bytes -/
theorem partial_prefix_model (feats : Features) (fmt : Format) (o : POpts) (f : Fmt) (s : List Nat) (q : Parsed)
    (hfeat : feats.radix = true → feats.powerOfTwo = true)
    (hb : (⟨feats, fmt, false⟩ : Cfg).bytesContiguous = true)
    (hm : (⟨feats, fmt, false⟩ : Cfg).requiredMantissaDigits = true)
    (h1 : optionsError o = none) (h2 : formatError feats fmt = none)
    (h3 : isValidOptionsPunctuation feats fmt o.exp o.dp = true) (h4 : checkRadix feats fmt = true)
    (hr18 : fmt.mantissaRadix ≤ 18) (hdp : o.dp ≠ 73 ∧ o.dp ≠ 105 ∧ o.dp ≠ 78 ∧ o.dp ≠ 110)
    (h : parseFloatSyntax ⟨feats, fmt, false⟩ o true s = .ok q) :
    parseFloatModel feats fmt o true f s = renderParsed ⟨feats, fmt, false⟩ f true q ∧
    parseFloatModel feats fmt o false f (s.take (pcount q)) = renderParsed ⟨feats, fmt, false⟩ f false q := by
  have hvr : isValidRadix feats fmt.mantissaRadix = true := by
    cases hc : isValidRadix feats fmt.mantissaRadix with
    | true => rfl
    | false => simp [formatError, hc] at h2
  have hr : 1 ≤ fmt.mantissaRadix ∧ (feats.powerOfTwo = false → fmt.mantissaRadix ≤ 10) := by
    unfold isValidRadix at hvr
    split at hvr
    · next hrx =>
      simp only [Bool.and_eq_true, decide_eq_true_eq] at hvr
      exact ⟨by omega, fun hp => by rw [hfeat hrx] at hp; cases hp⟩
    · split at hvr
      · next hp =>
        simp only [Bool.or_eq_true, decide_eq_true_eq] at hvr
        exact ⟨by omega, fun hp2 => by rw [hp] at hp2; cases hp2⟩
      · simp only [decide_eq_true_eq] at hvr
        exact ⟨by omega, fun _ => by omega⟩
  have hrel : Proof.PNTotal.Rel ⟨feats, fmt, false⟩ := Proof.PNTotal.rel_of_valid _ rfl (by simp [h2])
  have hh : SpecialHeadsOK ⟨feats, fmt, false⟩ o := specialHeadsOK_of_valid _ _ h1 hr18 hdp
  have hc := partial_prefix_contiguous ⟨feats, fmt, false⟩ o s q hrel hb hr.1 hm hr.2 hh h
  rw [parseFloatModel_of_valid feats fmt o true f s false h1 h2 h3 h4,
    parseFloatModel_of_valid feats fmt o false f _ false h1 h2 h3 h4, h, hc]
  exact ⟨rfl, rfl⟩

/-- C11 (B) at the API level for number results under `NumContig` (a separator byte may exist when integer, fraction
and exponent have no separator flag): no restriction on the radix, the decimal point or the special strings -/
theorem partial_prefix_model_number (feats : Features) (fmt : Format) (o : POpts) (f : Fmt) (s : List Nat)
    (x : Number) (cnt : Nat)
    (hn : NumContig ⟨feats, fmt, false⟩)
    (hm : (⟨feats, fmt, false⟩ : Cfg).requiredMantissaDigits = true)
    (h1 : optionsError o = none) (h2 : formatError feats fmt = none)
    (h3 : isValidOptionsPunctuation feats fmt o.exp o.dp = true) (h4 : checkRadix feats fmt = true)
    (h : parseFloatSyntax ⟨feats, fmt, false⟩ o true s = .ok (.number x cnt)) :
    parseFloatModel feats fmt o true f s = renderParsed ⟨feats, fmt, false⟩ f true (.number x cnt) ∧
    parseFloatModel feats fmt o false f (s.take cnt) = renderParsed ⟨feats, fmt, false⟩ f false (.number x cnt) := by
  have hvr : isValidRadix feats fmt.mantissaRadix = true := by
    cases hc : isValidRadix feats fmt.mantissaRadix with
    | true => rfl
    | false => simp [formatError, hc] at h2
  have hr : 1 ≤ fmt.mantissaRadix := by
    unfold isValidRadix at hvr
    split at hvr
    · simp only [Bool.and_eq_true, decide_eq_true_eq] at hvr; omega
    · split at hvr
      · simp only [Bool.or_eq_true, decide_eq_true_eq] at hvr; omega
      · simp only [decide_eq_true_eq] at hvr; omega
  have hrel : Proof.PNTotal.Rel ⟨feats, fmt, false⟩ := Proof.PNTotal.rel_of_valid _ rfl (by simp [h2])
  have hc := partial_prefix_number ⟨feats, fmt, false⟩ o s x cnt hrel hn hr hm h
  rw [parseFloatModel_of_valid feats fmt o true f s false h1 h2 h3 h4,
    parseFloatModel_of_valid feats fmt o false f _ false h1 h2 h3 h4, h, hc]
  exact ⟨rfl, rfl⟩

/-- non-vacuity (separator byte present, `fmtSepSpecialOnly`): "12345678x" → (12345678.0, 8), "12345678" → 12345678.0 -/
example : parseFloatModel featsRadixFormat fmtSepSpecialOnly {} true f64 [49, 50, 51, 52, 53, 54, 55, 56, 120]
      = "ok 41678c29c0000000 8" ∧
    parseFloatModel featsRadixFormat fmtSepSpecialOnly {} false f64 [49, 50, 51, 52, 53, 54, 55, 56]
      = "ok 41678c29c0000000 -" := by decide +kernel

/-- non-vacuity: default features, STANDARD format: "1.5x" → (1.5, 3) and "1.5" → 1.5 -/
example : parseFloatModel {} Format.standard {} true f64 [49, 46, 53, 120] = "ok 3ff8000000000000 3" ∧
    parseFloatModel {} Format.standard {} false f64 [49, 46, 53] = "ok 3ff8000000000000 -" := by decide +kernel

end LexVerif.Props.C11
