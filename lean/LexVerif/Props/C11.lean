import LexVerif.Proof.ParseNumberC11
/-!
# C11 — partial and complete parsers agree (float syntax layer)

Entry point `parseFloatSyntax c o isPartial input` (`parse_complete` / `parse_partial` of
`lexical-parse-float/src/parse.rs` up to the `Number`), every format, feature set and debug flag unless a
hypothesis says otherwise.

(A) `complete s = ok p ⇔ partial s = ok p ∧ count p = |s|`
* `parseNumber_isPartial_ok`, `parseNumber_isPartial_err`: `IS_PARTIAL` only selects an error kind.
* `complete_of_partial` (⇐): no hypothesis.
* `partial_of_complete_number`, `partial_of_complete_zero` (⇒ for numbers / the empty case): no hypothesis.
* `partial_of_complete` (⇒): under `NoShadow`; `shadow_disagree` shows the hypothesis is exact.
* `complete_iff_partial_full` is FALSE: `not_complete_iff_partial_full` (witnesses below).
-/
namespace LexVerif.Props.C11
open LexVerif LexVerif.Model LexVerif.Spec
open LexVerif.Proof.C11

/-! ## full statements -/

/-- C11 (A), verbatim from `Props/C12.lean` -/
def complete_iff_partial_full : Prop :=
  ∀ (c : Cfg) (o : Spec.POpts) (s : List Nat) (p : Parsed),
    parseFloatSyntax c o false s = .ok p ↔
      (∃ q, parseFloatSyntax c o true s = .ok q ∧
        match q, p with
        | .zero n, .zero m => n = s.length ∧ m = n
        | .number x n, .number y m => x = y ∧ n = s.length ∧ m = n
        | .special a sa n, .special a' sa' m => a = a' ∧ sa = sa' ∧ n = s.length ∧ m = n
        | _, _ => False)

/-- the `match` of the full statement says: same result, count = length -/
theorem agree_iff (len : Nat) (q p : Parsed) :
    (match q, p with
      | .zero n, .zero m => n = len ∧ m = n
      | .number x n, .number y m => x = y ∧ n = len ∧ m = n
      | .special a sa n, .special a' sa' m => a = a' ∧ sa = sa' ∧ n = len ∧ m = n
      | _, _ => False) ↔ (q = p ∧ pcount p = len) := by
  cases q <;> cases p <;> simp [pcount] <;> grind

/-! ## `IS_PARTIAL` inside `parse_number` -/

/-- lemma 1: success and the result of `parse_number` do not depend on `IS_PARTIAL` (any cfg) -/
theorem parseNumber_isPartial_ok (c : Cfg) (o : POpts) (b : Bytes) (neg fv : Bool) (r : Number × Nat) :
    parseNumber c true o b neg fv = .ok r ↔ parseNumber c false o b neg fv = .ok r :=
  parseNumber_ok_iff c o b neg fv r

/-- lemma 2: `Error::Kind(idx)` results correspond (kind and index may differ), panics/faults are identical -/
theorem parseNumber_isPartial_err (c : Cfg) (o : POpts) (b : Bytes) (neg fv : Bool) :
    ((∃ k i, parseNumber c true o b neg fv = .error (.err k i)) ↔
      (∃ k i, parseNumber c false o b neg fv = .error (.err k i))) ∧
    (∀ e, (∀ k i, e ≠ .err k i) →
      (parseNumber c true o b neg fv = .error e ↔ parseNumber c false o b neg fv = .error e)) :=
  ⟨parseNumber_err_iff c o b neg fv, fun e he => parseNumber_panic_iff c o b neg fv e he⟩

example : parseNumber ⟨{}, Format.standard, false⟩ true {} (Bytes.new [49, 46, 53, 120]) false
    = .ok (⟨15, -1, false, false, [49], some [53], 0⟩, 3) := by decide

/-! ## (A) ⇐ : no hypothesis -/

/-- if the partial parser accepts and consumed everything, the complete parser returns the same -/
theorem complete_of_partial (c : Cfg) (o : POpts) (s : List Nat) (fv : Bool) (q : Parsed)
    (h : parseFloatSyntax c o true s fv = .ok q) (hc : pcount q = s.length) :
    parseFloatSyntax c o false s fv = .ok q := by
  rw [parseFloatSyntax_eq] at h ⊢
  cases ha : afterSign c s with
  | error e => rw [ha] at h; cases h
  | ok r =>
    obtain ⟨neg, consumed, b⟩ := r
    rw [ha] at h
    simp only at h ⊢
    cases consumed with
    | true => simpa using h
    | false =>
      simp only [Bool.false_eq_true, if_false] at h ⊢
      exact tail_complete_of_partial c o s fv neg b q (afterSign_ok c s neg false b ha).1 h hc

example : parseFloatSyntax ⟨{}, Format.standard, false⟩ {} true [49, 46, 53] = .ok (.number ⟨15, -1, false, false, [49], some [53], 0⟩ 3)
    ∧ pcount (.number ⟨15, -1, false, false, [49], some [53], 0⟩ 3) = [49, 46, 53].length := by decide

/-! ## (A) ⇒ -/

/-- ⇒ for numbers: no hypothesis -/
theorem partial_of_complete_number (c : Cfg) (o : POpts) (s : List Nat) (fv : Bool) (n : Number) (m : Nat)
    (h : parseFloatSyntax c o false s fv = .ok (.number n m)) :
    parseFloatSyntax c o true s fv = .ok (.number n s.length) ∧ m = s.length := by
  rw [parseFloatSyntax_eq] at h ⊢
  cases ha : afterSign c s with
  | error e => rw [ha] at h; cases h
  | ok r =>
    obtain ⟨neg, consumed, b⟩ := r
    rw [ha] at h
    simp only at h ⊢
    cases consumed with
    | true =>
      simp only [if_true] at h
      split at h <;> cases h
    | false =>
      simp only [Bool.false_eq_true, if_false] at h ⊢
      have h1 := tail_complete_number c o s fv neg b n m (afterSign_ok c s neg false b ha).1 h
      refine ⟨?_, h1.2⟩
      unfold tail
      simp [(parseNumber_ok_iff c o b neg fv _).mpr h1.1, pure, Except.pure]

example : parseFloatSyntax ⟨{}, Format.standard, false⟩ {} false [49, 46, 53]
    = .ok (.number ⟨15, -1, false, false, [49], some [53], 0⟩ 3) := by decide

/-- ⇒ for the empty case (`Ok(F::ZERO)`): no hypothesis -/
theorem partial_of_complete_zero (c : Cfg) (o : POpts) (s : List Nat) (fv : Bool) (m : Nat)
    (h : parseFloatSyntax c o false s fv = .ok (.zero m)) :
    parseFloatSyntax c o true s fv = .ok (.zero m) ∧ m = s.length := by
  rw [parseFloatSyntax_eq] at h ⊢
  cases ha : afterSign c s with
  | error e => rw [ha] at h; cases h
  | ok r =>
    obtain ⟨neg, consumed, b⟩ := r
    rw [ha] at h
    simp only at h ⊢
    cases consumed with
    | true =>
      simp only [if_true] at h ⊢
      refine ⟨h, ?_⟩
      have hidx := ((afterSign_ok c s neg true b ha).2.2).mp rfl
      split at h
      · cases h
      · simp only [Except.ok.injEq, Parsed.zero.injEq] at h
        omega
    | false =>
      exfalso
      simp only [Bool.false_eq_true, if_false] at h
      unfold tail at h
      simp only [Bool.false_eq_true, if_false] at h
      split at h
      · cases h
      · split at h <;> cases h
      · cases h

example : parseFloatSyntax ⟨{ format := true }, ⟨0x4 + 10 * 2 ^ 104⟩, false⟩ {} false [45] = .ok (.zero 1) := by decide

/-- ⇒ in general: under `NoShadow` (after the sign, it is not the case that `parse_number` succeeds on a proper prefix
while the special-value parser matches the whole buffer) -/
theorem partial_of_complete (c : Cfg) (o : POpts) (s : List Nat) (fv : Bool) (p : Parsed)
    (hns : NoShadow c o s fv) (h : parseFloatSyntax c o false s fv = .ok p) :
    parseFloatSyntax c o true s fv = .ok p ∧ pcount p = s.length := by
  rw [parseFloatSyntax_eq] at h ⊢
  cases ha : afterSign c s with
  | error e => rw [ha] at h; cases h
  | ok r =>
    obtain ⟨neg, consumed, b⟩ := r
    rw [ha] at h
    simp only at h ⊢
    cases consumed with
    | true =>
      simp only [if_true] at h ⊢
      refine ⟨h, ?_⟩
      have hidx := ((afterSign_ok c s neg true b ha).2.2).mp rfl
      split at h
      · cases h
      · simp only [Except.ok.injEq] at h
        subst h
        simpa [pcount] using hidx
    | false =>
      simp only [Bool.false_eq_true, if_false] at h ⊢
      exact tail_partial_of_complete c o s fv neg b p (afterSign_ok c s neg false b ha).1 (hns neg b ha) h

/-- non-vacuity: STANDARD format, "inf" is not shadowed and is accepted -/
example : parseFloatSyntax ⟨{}, Format.standard, false⟩ {} false [105, 110, 102] = .ok (.special .inf false 3) := by
  decide

/-- `NoShadow` is exact: a shadowed input is a disagreement (complete → special, partial → number on a proper prefix) -/
theorem shadow_disagree (c : Cfg) (o : POpts) (s : List Nat) (fv : Bool) (h : ¬ NoShadow c o s fv) :
    ∃ sp neg n count, parseFloatSyntax c o false s fv = .ok (.special sp neg s.length) ∧
      parseFloatSyntax c o true s fv = .ok (.number n count) ∧ count ≠ s.length := by
  unfold NoShadow at h
  simp only [Classical.not_forall, Classical.not_not] at h
  obtain ⟨neg, b, ha, hs⟩ := h
  obtain ⟨sp, n, count, h1, h2, h3⟩ := tail_shadow c o s fv neg b (afterSign_ok c s neg false b ha).1 hs
  refine ⟨sp, neg, n, count, ?_, ?_, h3⟩
  · rw [parseFloatSyntax_eq, ha]; simpa using h1
  · rw [parseFloatSyntax_eq, ha]; simpa using h2

/-- (A) for one input, under the exact exclusion -/
theorem complete_iff_partial (c : Cfg) (o : POpts) (s : List Nat) (p : Parsed) (hns : NoShadow c o s) :
    parseFloatSyntax c o false s = .ok p ↔
      (∃ q, parseFloatSyntax c o true s = .ok q ∧
        match q, p with
        | .zero n, .zero m => n = s.length ∧ m = n
        | .number x n, .number y m => x = y ∧ n = s.length ∧ m = n
        | .special a sa n, .special a' sa' m => a = a' ∧ sa = sa' ∧ n = s.length ∧ m = n
        | _, _ => False) := by
  constructor
  · intro h
    have := partial_of_complete c o s true p hns h
    exact ⟨p, this.1, (agree_iff s.length p p).mpr ⟨rfl, this.2⟩⟩
  · rintro ⟨q, hq, hm⟩
    obtain ⟨rfl, hc⟩ := (agree_iff s.length q p).mp hm
    exact complete_of_partial c o s true q hq hc

end LexVerif.Props.C11
