import LexVerif.Props.C01SlowMain
/-!
# C01 — the `SlowDomain` conditions hold for every untruncated decimal `Number` Eisel–Lemire hands over

`Props.C01SlowMain.numberToFloat_slowModel` needs `SlowDomain` for each invalid-marked estimate of the moderate path.
Here those conditions are **derived**:

* from `Props.C01.lemire_estimate_facts` (normalised mantissa, un-biased exponent within `±4096`, the bracket) and the
  cut-offs of `compute_float` (an invalid-marked answer implies `SMALLEST_POWER_OF_TEN ≤ q ≤ LARGEST_POWER_OF_TEN`, `w ≠ 0`);
* from `NumberExactAt` (the `mantissa`/`exponent` words denote the digit content) and `scientific_exponent_spec`: the
  leading significant digit sits at `10^sci_exp` (`slowDomain_value`);
* from plain arithmetic: at most 19 significant digits, `|sci_exp| ≤ 400` ⇒ both capacity guards hold with a wide margin
  in every build, and the estimate's round-down is finite.

What remains about the input is `PlainSlices` (the stored digit slices are validated separator-free digit bytes whose
digit values are what `numberLit` reads) and "at most 19 significant digits" (what `many_digits = false` means).
-/
namespace LexVerif.Props.C01SlowDomain
open LexVerif LexVerif.Spec LexVerif.Model LexVerif.Model.Slow LexVerif.Model.ParseFloatAlgo
open LexVerif.Proof.RoundNE LexVerif.Proof.ExtRound LexVerif.Proof.Pipeline LexVerif.Proof.Slow LexVerif.Proof.Tables
open LexVerif.Props.C01Slow LexVerif.Props.C01Main LexVerif.Props.C01SlowMain
open LexVerif.Props.C01 (IsLemireFloat IsI64 Bracket)

/-! ## small arithmetic -/

theorem powFrac_eq (r : Nat) (x : Int) (m : Nat) : powFrac r x m = (m * r ^ x.toNat, r ^ (-x).toNat) := by
  unfold powFrac
  split
  · have : (-x).toNat = 0 := by omega
    rw [this, Nat.pow_zero]
  · have : x.toNat = 0 := by omega
    rw [this, Nat.pow_zero, Nat.mul_one]

theorem litFrac_eq (r : Nat) (l : FloatLit) :
    litFrac r r l = (ofDigits r (l.intDigits ++ l.fracDigits) * r ^ l.exp.toNat,
      r ^ l.fracDigits.length * r ^ (-l.exp).toNat) := by
  unfold litFrac
  split
  · have : (-l.exp).toNat = 0 := by omega
    rw [this, Nat.pow_zero, Nat.mul_one]
  · have : l.exp.toNat = 0 := by omega
    rw [this, Nat.pow_zero, Nat.mul_one]

/-- the position of the leading digit of a positive rational `a·r^P = b·r^Q` is unique -/
theorem exp_unique {r : Nat} (hr : 2 ≤ r) {a b P Q A B : Nat} (h : a * r ^ P = b * r ^ Q)
    (ha1 : r ^ A ≤ a) (ha2 : a < r ^ (A + 1)) (hb1 : r ^ B ≤ b) (hb2 : b < r ^ (B + 1)) : A + P = B + Q := by
  have hrp : 0 < r := by omega
  have l1 : r ^ (A + P) ≤ a * r ^ P := by rw [Nat.pow_add]; exact Nat.mul_le_mul_right _ ha1
  have u1 : a * r ^ P < r ^ (A + 1 + P) := by
    rw [Nat.pow_add]; exact Nat.mul_lt_mul_of_pos_right ha2 (Nat.pow_pos hrp)
  have l2 : r ^ (B + Q) ≤ b * r ^ Q := by rw [Nat.pow_add]; exact Nat.mul_le_mul_right _ hb1
  have u2 : b * r ^ Q < r ^ (B + 1 + Q) := by
    rw [Nat.pow_add]; exact Nat.mul_lt_mul_of_pos_right hb2 (Nat.pow_pos hrp)
  rw [h] at l1 u1
  have c1 : A + P < B + 1 + Q := (Nat.pow_lt_pow_iff_right (by omega : 1 < r)).mp (Nat.lt_of_le_of_lt l1 u2)
  have c2 : B + Q < A + 1 + P := (Nat.pow_lt_pow_iff_right (by omega : 1 < r)).mp (Nat.lt_of_le_of_lt l2 u1)
  omega

/-! ## the digit slices -/

/-- the stored digit slices of a `Number` are validated, separator-free digit bytes, and `numberLit` reads their digit
values (true of every `Number` the syntax layer builds from a format without digit separators) -/
structure PlainSlices (c : Cfg) (n : Number) : Prop where
  validInt : ValidDigits c.mantissaRadix n.integer
  validFrac : ∀ fr, n.fraction = some fr → ValidDigits c.mantissaRadix fr
  bytesInt : ∀ x ∈ n.integer, x < 256
  bytesFrac : ∀ fr, n.fraction = some fr → ∀ x ∈ fr, x < 256
  intDigits : (numberLit c n).intDigits = dv c.mantissaRadix n.integer
  fracDigits : (numberLit c n).fracDigits = dv c.mantissaRadix (n.fraction.getD [])

theorem skipZeros_decomp (bs : List Nat) : ∃ z, bs = List.replicate z 48 ++ Binary.skipZeros bs := by
  induction bs with
  | nil => exact ⟨0, by simp [Binary.skipZeros]⟩
  | cons b bs ih =>
    obtain ⟨z, hz⟩ := ih
    unfold Binary.skipZeros at hz ⊢
    rw [List.dropWhile_cons]
    split
    · rename_i hb
      have hb' : b = 48 := by simpa using hb
      exact ⟨z + 1, by rw [List.replicate_succ, List.cons_append, ← hz, hb']⟩
    · exact ⟨0, by simp⟩

/-- all stored digit bytes = some `'0'`s followed by the significant bytes -/
theorem sig_decomp (integer : List Nat) (fraction : Option (List Nat)) :
    ∃ z, integer ++ fraction.getD [] = List.replicate z 48 ++ sigBytes integer fraction := by
  unfold sigBytes
  obtain ⟨zi, hzi⟩ := skipZeros_decomp integer
  cases fraction with
  | none => exact ⟨zi, by simpa using hzi⟩
  | some fr =>
    simp only [Option.getD_some]
    split
    · rename_i hnil
      obtain ⟨zf, hzf⟩ := skipZeros_decomp fr
      rw [hnil, List.append_nil] at hzi
      refine ⟨zi + zf, ?_⟩
      rw [List.replicate_add, List.append_assoc, ← hzf, ← hzi]
    · exact ⟨zi, by rw [← List.append_assoc, ← hzi]⟩

theorem digitVal_zero (radix : Nat) : Binary.digitVal 48 radix = 0 := by
  unfold Binary.digitVal
  split
  · rfl
  · simp

theorem ofDigits_dv_zeros (radix z : Nat) (bs : List Nat) :
    ofDigits radix (dv radix (List.replicate z 48 ++ bs)) = ofDigits radix (dv radix bs) := by
  rw [ofDigits_dv_append]
  have : ofDigits radix (dv radix (List.replicate z 48)) = 0 := by
    apply ofDigits_zeros
    intro d hd
    unfold dv at hd
    obtain ⟨c, hc, rfl⟩ := List.mem_map.mp hd
    rw [(List.mem_replicate.mp hc).2]
    exact digitVal_zero radix
  rw [this, Nat.zero_mul, Nat.zero_add]

/-- bounds of the value of a non-empty significant digit string: its leading byte is a non-zero digit -/
theorem sig_value_bounds {radix : Nat} (hr : 2 ≤ radix) {integer : List Nat} {fraction : Option (List Nat)}
    (hne : sigBytes integer fraction ≠ []) (hv : ValidDigits radix (sigBytes integer fraction))
    (hb : ∀ c ∈ sigBytes integer fraction, c < 256) :
    radix ^ ((sigBytes integer fraction).length - 1) ≤ ofDigits radix (dv radix (sigBytes integer fraction)) ∧
    ofDigits radix (dv radix (sigBytes integer fraction)) < radix ^ (sigBytes integer fraction).length := by
  refine ⟨?_, ofDigits_dv_lt hv⟩
  cases hs : sigBytes integer fraction with
  | nil => exact absurd hs hne
  | cons c cs =>
    have h48 := sigBytes_head hs
    have hc : c < 256 := hb c (by rw [hs]; exact List.mem_cons_self ..)
    have hd := digitVal_ne_zero (radix := radix) hc h48
    simp only [dv, List.map_cons, List.length_cons, Nat.add_sub_cancel]
    rw [ofDigits_cons, List.length_map]
    have : 1 * radix ^ cs.length ≤ Binary.digitVal c radix * radix ^ cs.length := Nat.mul_le_mul_right _ (by omega)
    omega

theorem valid_sigBytes {radix : Nat} {integer : List Nat} {fraction : Option (List Nat)}
    (hvi : ValidDigits radix integer) (hvf : ∀ fr, fraction = some fr → ValidDigits radix fr) :
    ValidDigits radix (sigBytes integer fraction) := by
  unfold sigBytes
  cases hfr : fraction with
  | none => exact valid_skipZeros hvi
  | some fr =>
    simp only
    split
    · exact valid_skipZeros (hvf fr hfr)
    · exact valid_append (valid_skipZeros hvi) (hvf fr hfr)

theorem mem_sigBytes {integer : List Nat} {fraction : Option (List Nat)} {x : Nat}
    (h : x ∈ sigBytes integer fraction) : x ∈ integer ∨ ∃ fr, fraction = some fr ∧ x ∈ fr := by
  unfold sigBytes at h
  have sub : ∀ bs : List Nat, x ∈ Binary.skipZeros bs → x ∈ bs := fun bs hx =>
    (List.dropWhile_sublist _).subset hx
  cases hfr : fraction with
  | none => rw [hfr] at h; exact Or.inl (sub _ h)
  | some fr =>
    rw [hfr] at h
    simp only at h
    split at h
    · exact Or.inr ⟨fr, rfl, sub _ h⟩
    · rcases List.mem_append.mp h with h | h
      · exact Or.inl (sub _ h)
      · exact Or.inr ⟨fr, rfl, h⟩

/-! ## what an invalid-marked answer of `compute_float` implies about its input -/

theorem lemire_invalid_range {F : FTy} (hF : IsLemireFloat F) {q : Int} {w : Nat} {fp : ExtendedFloat80}
    (hcf : Lemire.computeFloat F q w false = .ok fp) (hinv : fp.exp < 0) :
    w ≠ 0 ∧ -342 ≤ q ∧ q ≤ 308 := by
  have hc : -342 ≤ F.C.smallestPowerOfTen ∧ F.C.largestPowerOfTen ≤ 308 ∧ 0 ≤ F.C.infinitePower := by
    rcases hF with h | h <;> subst h <;> decide
  unfold Lemire.computeFloat at hcf
  by_cases h1 : w = 0 ∨ q < F.C.smallestPowerOfTen
  · rw [if_pos h1] at hcf
    injection hcf with hcf; subst hcf
    exact absurd hinv (by decide)
  · rw [if_neg h1] at hcf
    by_cases h2 : q > F.C.largestPowerOfTen
    · rw [if_pos h2] at hcf
      injection hcf with hcf; subst hcf
      unfold Lemire.fpInf at hinv
      simp only at hinv
      omega
    · refine ⟨fun h => h1 (Or.inl h), ?_, ?_⟩ <;> omega

/-- every build has a decimal digit limit of at least 19 digits for both float types -/
theorem maxDigits_decimal (feats : Features) {F : FTy} (hF : IsLemireFloat F) :
    ∃ d, (envOf feats).S.maxDigits F.fmt 10 = some d ∧ 19 ≤ d := by
  obtain ⟨c, p2, r, f, sd⟩ := feats
  rcases hF with h | h <;> subst h <;> cases c <;> cases p2 <;> cases r <;> exact ⟨_, rfl, by decide⟩

/-- `BIGINT_LIMBS ≥ 62` in every build -/
theorem cap_ge (feats : Features) : 62 ≤ (envOf feats).L.bigintLimbs := by
  obtain ⟨c, p2, r, f, sd⟩ := feats
  cases c <;> cases p2 <;> cases r <;> exact Nat.le_of_ble_eq_true rfl

/-- the round-down of a normalised estimate, in the `(k, q)` coordinates the capacity guard is written in — above and
below the underflow cut -/
theorem roundedDown_kq {F : FTy} {p eb : Nat} (lay : Layout F p eb) (fp : ExtendedFloat80) (hm1 : 2 ^ 63 ≤ fp.mant)
    (hm2 : fp.mant < 2 ^ 64) (hfin : C01Slow.roundedDown F fp < F.fmt.infBits) :
    C01Slow.roundedDown F fp = (fp.exp + 64 - p - 1).toNat * 2 ^ (p - 1) + fp.mant / 2 ^ shiftOf p fp.exp ∧
    fp.mant / 2 ^ shiftOf p fp.exp < 2 * 2 ^ (p - 1) := by
  have hp := lay.hp; have hp64 := lay.hp64; have heb := lay.heb
  have hfp : F.fmt.p = p := by rw [lay.fmt]
  by_cases hp2 : -fp.exp + 1 ≤ 64
  · obtain ⟨_, qb, _, _, _⟩ := LexVerif.Proof.BinaryCorrect.quot_bounds hp (by omega) hm1 hm2 fp.exp hp2
    refine ⟨?_, qb⟩
    unfold C01Slow.roundedDown at hfin ⊢
    rw [round_down_bits lay fp hm1 hm2 hp2] at hfin ⊢
    unfold encode at hfin ⊢
    split
    · rename_i hinf
      rw [if_pos hinf] at hfin
      exact absurd hfin (Nat.lt_irrefl _)
    · rw [hfp]
  · have hk0 : (fp.exp + 64 - p - 1).toNat = 0 := by omega
    have hq0 : fp.mant / 2 ^ shiftOf p fp.exp = 0 := by
      apply Nat.div_eq_of_lt
      have hs : 64 ≤ shiftOf p fp.exp := by unfold shiftOf; split <;> omega
      exact Nat.lt_of_lt_of_le hm2 (Nat.pow_le_pow_right (by decide) hs)
    rw [hk0, hq0, roundedDown_tiny lay fp hm2 (by omega)]
    have := Nat.two_pow_pos (p - 1)
    omega

/-! ## the domain conditions -/

/-- numeric facts about a float type used below (instances: `floatNums_f64`, `floatNums_f32`) -/
structure FloatNums (F : FTy) (p : Nat) : Prop where
  p53 : p ≤ 53
  bias0 : 0 ≤ F.C.exponentBias
  bias : F.C.exponentBias ≤ 1075
  big : roundNE F.fmt (2 ^ 64) 1 < F.fmt.infBits
  bigk : roundNE F.fmt (2 ^ 64) 1 ≤ 1087 * 2 ^ (p - 1)

theorem floatNums_f64 : FloatNums FTy.f64 53 := ⟨by decide, by decide, by decide, by decide +kernel, by decide +kernel⟩
theorem floatNums_f32 : FloatNums FTy.f32 24 := ⟨by decide, by decide, by decide, by decide +kernel, by decide +kernel⟩

theorem floatNums_of {F : FTy} (hF : IsLemireFloat F) {p eb : Nat} (lay : Layout F p eb) : FloatNums F p := by
  have hfmt := lay.fmt
  rcases hF with h | h <;> subst h
  · have : p = 53 := by
      have h1 : FTy.f64.fmt.p = p := by rw [hfmt]
      exact h1.symm
    subst this; exact floatNums_f64
  · have : p = 24 := by
      have h1 : FTy.f32.fmt.p = p := by rw [hfmt]
      exact h1.symm
    subst this; exact floatNums_f32

theorem pow5_360 : 5 ^ 360 < 2 ^ 840 := by decide +kernel
theorem pow10_19 : 10 ^ 19 < 2 ^ 64 := by decide
theorem pow10_20 : 2 ^ 64 < 10 ^ 20 := by decide

/-- **`SlowDomain` for the untruncated decimal `Number`s**: an exact `Number` with plain digit slices and at most 19
significant digits, and an invalid-marked answer of `compute_float` for it: every condition of the slow-path model's
domain holds (for the un-biased estimate). -/
theorem slowDomain_of_exact {F : FTy} (hF : IsLemireFloat F) {p eb : Nat} (lay : Layout F p eb) (c : Cfg)
    (hr : c.mantissaRadix = 10) (hb : c.exponentBase = 10) (n : Number) (hx : NumberExactAt c n)
    (hs : PlainSlices c n) (hfew : (sigBytes n.integer n.fraction).length ≤ 19)
    (fp : ExtendedFloat80) (hcf : Lemire.computeFloat F n.exponent n.mantissa false = .ok fp) (hinv : fp.exp < 0) :
    ∃ d, SlowDomain c F p n { fp with exp := fp.exp - invalidFp } d := by
  obtain ⟨hw, hq, hre⟩ := hx
  obtain ⟨hw0, hq1, hq2⟩ := lemire_invalid_range hF hcf hinv
  obtain ⟨f1, f2, f3, f4, hbr⟩ := C01.lemire_estimate_facts F hF n.exponent n.mantissa fp hw hcf hinv
  obtain ⟨d, hd, hd19⟩ := maxDigits_decimal c.feats hF
  have FN := floatNums_of hF lay
  have hp := lay.hp
  have h27 : (2 : Int) ^ 27 = 134217728 := by norm_num
  have h30 : (2 : Int) ^ 30 = 1073741824 := by norm_num
  have h20 : (2 : Int) ^ 20 = 1048576 := by norm_num
  -- the scientific exponent
  obtain ⟨T, t1, t2, t3⟩ := scientificExponent_spec (radix := 10) (by decide) (by decide)
    (Nat.pos_of_ne_zero hw0) hw (e := n.exponent) (by omega) (by omega)
  have hT19 : T ≤ 19 := by
    have : 10 ^ T < 10 ^ 20 := Nat.lt_of_le_of_lt t1 (Nat.lt_trans hw pow10_20)
    have := (Nat.pow_lt_pow_iff_right (by decide : 1 < 10)).mp this
    omega
  have hsci : sciOf c n = n.exponent + T := by unfold sciOf; rw [hr, t3]
  -- the digits
  have hvs : ValidDigits 10 (sigBytes n.integer n.fraction) := by
    have := valid_sigBytes hs.validInt hs.validFrac
    rwa [hr] at this
  have hbs : ∀ x ∈ sigBytes n.integer n.fraction, x < 256 := by
    intro x hx
    rcases mem_sigBytes hx with h | ⟨fr, hfr, h⟩
    · exact hs.bytesInt x h
    · exact hs.bytesFrac fr hfr x h
  obtain ⟨z, hz⟩ := sig_decomp n.integer n.fraction
  have hD : ofDigits 10 ((numberLit c n).intDigits ++ (numberLit c n).fracDigits) =
      ofDigits 10 (dv 10 (sigBytes n.integer n.fraction)) := by
    rw [hs.intDigits, hs.fracDigits, hr]
    have : dv 10 n.integer ++ dv 10 (n.fraction.getD []) = dv 10 (n.integer ++ n.fraction.getD []) := by
      unfold dv; rw [List.map_append]
    rw [this, hz, ofDigits_dv_zeros]
  have hfl : (numberLit c n).fracDigits.length = (n.fraction.getD []).length := by
    rw [hs.fracDigits, dv_length]
  have hE : (numberLit c n).exp = n.explicitExp := rfl
  generalize hsig : sigBytes n.integer n.fraction = sig at *
  generalize hS : ofDigits 10 (dv 10 sig) = S at *
  generalize hfle : (n.fraction.getD []).length = fl at *
  -- the exactness equation in natural numbers
  rw [hr, hb, powFrac_eq, litFrac_eq] at hre
  unfold RatEq at hre
  simp only [hD, hfl, hE] at hre
  have hm0 : 0 < n.mantissa := Nat.pos_of_ne_zero hw0
  have hS0 : S ≠ 0 := by
    intro h0
    rw [h0, Nat.zero_mul, Nat.zero_mul] at hre
    have : 0 < n.mantissa * 10 ^ n.exponent.toNat * (10 ^ fl * 10 ^ (-n.explicitExp).toNat) :=
      Nat.mul_pos (Nat.mul_pos hm0 (Nat.pow_pos (by decide))) (Nat.mul_pos (Nat.pow_pos (by decide)) (Nat.pow_pos (by decide)))
    omega
  have hne : sig ≠ [] := by
    intro h0; rw [h0] at hS; exact hS0 (by rw [← hS]; rfl)
  obtain ⟨sb1, sb2⟩ : 10 ^ (sig.length - 1) ≤ S ∧ S < 10 ^ sig.length := by
    have := sig_value_bounds (radix := 10) (by decide) (integer := n.integer) (fraction := n.fraction)
      (by rw [hsig]; exact hne) (by rw [hsig]; exact hvs) (by rw [hsig]; exact hbs)
    rw [hsig, hS] at this
    exact this
  have hlen : 1 ≤ sig.length := List.length_pos_iff.mpr hne
  have hu := exp_unique (r := 10) (by decide) (a := n.mantissa) (b := S)
    (P := n.exponent.toNat + (fl + (-n.explicitExp).toNat)) (Q := n.explicitExp.toNat + (-n.exponent).toNat)
    (A := T) (B := sig.length - 1) (by
      rw [Nat.pow_add, Nat.pow_add, Nat.pow_add]
      calc n.mantissa * (10 ^ n.exponent.toNat * (10 ^ fl * 10 ^ (-n.explicitExp).toNat))
          = n.mantissa * 10 ^ n.exponent.toNat * (10 ^ fl * 10 ^ (-n.explicitExp).toNat) := by ring
        _ = S * 10 ^ n.explicitExp.toNat * 10 ^ (-n.exponent).toNat := hre
        _ = S * (10 ^ n.explicitExp.toNat * 10 ^ (-n.exponent).toNat) := by ring)
    t1 t2 sb1 (by rw [Nat.sub_add_cancel hlen]; exact sb2)
  -- `sci + 1 − len = explicit − fracLen`
  have hkey : n.exponent + T + 1 - (sig.length : Int) = n.explicitExp - (fl : Int) := by omega
  have hS64 : S < 2 ^ 64 :=
    Nat.lt_trans (Nat.lt_of_lt_of_le sb2 (Nat.pow_le_pow_right (by decide) hfew)) pow10_19
  have hmant : mantissaOf 10 d sig = (S, sig.length) := by
    unfold mantissaOf; rw [if_pos (by omega), hS]
  refine ⟨d, ?_⟩
  constructor
  · rw [hr]; exact envRadix_decimal c.feats
  · rw [hr]; exact hd
  · exact hs.validInt
  · exact hs.validFrac
  · rw [hsig]; exact hne
  · rw [hsig]; exact hbs
  · rw [hsci]; omega
  · rw [hsci]; omega
  · -- value
    rw [hr, hb, hsig, hsci]
    unfold sigValue digitExponent
    rw [litFrac_eq, powFrac_eq, hS]
    unfold RatEq
    simp only [hD, hfl, hE]
    have e1 : n.explicitExp.toNat + (-(n.exponent + ↑T + 1 - ↑sig.length)).toNat =
        (n.exponent + ↑T + 1 - ↑sig.length).toNat + (fl + (-n.explicitExp).toNat) := by omega
    calc S * 10 ^ n.explicitExp.toNat * 10 ^ (-(n.exponent + ↑T + 1 - ↑sig.length)).toNat
        = S * 10 ^ (n.explicitExp.toNat + (-(n.exponent + ↑T + 1 - ↑sig.length)).toNat) := by
          rw [Nat.pow_add]; ring
      _ = S * 10 ^ ((n.exponent + ↑T + 1 - ↑sig.length).toNat + (fl + (-n.explicitExp).toNat)) := by rw [e1]
      _ = S * 10 ^ (n.exponent + ↑T + 1 - ↑sig.length).toNat * (10 ^ fl * 10 ^ (-n.explicitExp).toNat) := by
          rw [Nat.pow_add, Nat.pow_add]; ring
  · -- the capacity guard of `positive_digit_comp`
    rw [hr, hsig, hsci, hmant]
    intro hpos
    unfold digitExponent at hpos ⊢
    simp only at hpos ⊢
    exact positive_guard_decimal (envRadix_decimal c.feats) sb2 (by omega)
  · -- negative exponent
    rw [hr, hsig, hsci, hmant]
    intro hneg
    unfold digitExponent at hneg ⊢
    simp only at hneg ⊢
    have hfe : fp.exp - invalidFp < 2 ^ 20 := by omega
    -- the rounded value is below 2^64
    have hval : roundNE F.fmt (powFrac 10 n.exponent n.mantissa).1 (powFrac 10 n.exponent n.mantissa).2 =
        roundNE F.fmt S (10 ^ (-(n.exponent + ↑T + 1 - (sig.length : Int))).toNat) := by
      apply roundNE_congr' lay.wf (powFrac_den_pos (by decide) _ _) (Nat.pow_pos (by decide))
      rw [powFrac_eq]
      simp only
      have e3 : n.explicitExp.toNat + (-(n.exponent + ↑T + 1 - (sig.length : Int))).toNat = fl + (-n.explicitExp).toNat := by
        have e4 : -(n.exponent + ↑T + 1 - (sig.length : Int)) = (fl : Int) - n.explicitExp := by
          rw [hkey]; ring
        rw [e4]
        have e5 : n.explicitExp - (fl : Int) < 0 := by rw [← hkey]; exact hneg
        omega
      have hpos : 0 < 10 ^ fl * 10 ^ (-n.explicitExp).toNat := Nat.mul_pos (Nat.pow_pos (by decide)) (Nat.pow_pos (by decide))
      apply Nat.eq_of_mul_eq_mul_right hpos
      calc n.mantissa * 10 ^ n.exponent.toNat * 10 ^ (-(n.exponent + ↑T + 1 - (sig.length : Int))).toNat *
            (10 ^ fl * 10 ^ (-n.explicitExp).toNat)
          = n.mantissa * 10 ^ n.exponent.toNat * (10 ^ fl * 10 ^ (-n.explicitExp).toNat) *
              10 ^ (-(n.exponent + ↑T + 1 - (sig.length : Int))).toNat := by ring
        _ = S * 10 ^ n.explicitExp.toNat * 10 ^ (-n.exponent).toNat *
              10 ^ (-(n.exponent + ↑T + 1 - (sig.length : Int))).toNat := by rw [hre]
        _ = S * 10 ^ (-n.exponent).toNat *
              10 ^ (n.explicitExp.toNat + (-(n.exponent + ↑T + 1 - (sig.length : Int))).toNat) := by
            rw [Nat.pow_add]; ring
        _ = S * 10 ^ (-n.exponent).toNat * (10 ^ fl * 10 ^ (-n.explicitExp).toNat) := by
            rw [e3, Nat.pow_add]
    generalize hj : (-(n.exponent + ↑T + 1 - (sig.length : Int))).toNat = j at *
    have hj360 : j ≤ 360 := by omega
    have hle64 : roundNE F.fmt S (10 ^ j) ≤ roundNE F.fmt (2 ^ 64) 1 :=
      roundNE_mono' lay.wf (Nat.pow_pos (by decide)) Nat.one_pos (by
        have : 1 ≤ 10 ^ j := Nat.pow_pos (by decide)
        calc S * 1 = S := Nat.mul_one _
          _ ≤ 2 ^ 64 * 1 := by omega
          _ ≤ 2 ^ 64 * 10 ^ j := Nat.mul_le_mul_left _ this)
    unfold C01.Bracket at hbr
    rw [hval] at hbr
    have hrd : C01Slow.roundedDown F { mant := fp.mant, exp := fp.exp - invalidFp } = C01.roundedDown F fp := rfl
    have hfin : C01Slow.roundedDown F { mant := fp.mant, exp := fp.exp - invalidFp } < F.fmt.infBits := by
      rw [hrd]; have := FN.big; omega
    refine ⟨f1, f2, hfe, Or.inl ⟨hfin, ?_⟩⟩
    obtain ⟨kq1, kq2⟩ := roundedDown_kq lay { mant := fp.mant, exp := fp.exp - invalidFp } f1 f2 hfin
    simp only at kq1 kq2
    generalize hK : (fp.exp - invalidFp + 64 - ↑p - 1).toNat = K at *
    generalize hQ : fp.mant / 2 ^ shiftOf p (fp.exp - invalidFp) = Q at *
    have hTpos : 0 < 2 ^ (p - 1) := Nat.two_pow_pos _
    have hK1087 : K ≤ 1087 := by
      have h1 : K * 2 ^ (p - 1) ≤ 1087 * 2 ^ (p - 1) := by
        have := FN.bigk
        rw [hrd] at kq1
        omega
      exact Nat.le_of_mul_le_mul_right h1 hTpos
    have hcap := cap_ge c.feats
    have hcapp : 2 ^ (64 * 62) ≤ 2 ^ (64 * (envOf c.feats).L.bigintLimbs) :=
      Nat.pow_le_pow_right (by decide) (by omega)
    have hb0 := FN.bias0
    have hb1 := FN.bias
    unfold NegGuard
    simp only [hK, hQ, hj]
    constructor
    · -- (2Q+1)·5^j·2^be⁺
      have a1 : 2 * Q + 1 < 2 ^ 54 := by
        have : 2 * 2 ^ (p - 1) ≤ 2 ^ 53 := by
          rw [← Nat.pow_succ']
          exact Nat.pow_le_pow_right (by decide) (by have := FN.p53; omega)
        have h54 : (2 : Nat) ^ 54 = 2 * 2 ^ 53 := by norm_num
        omega
      have a2 : (10 / 2) ^ j < 2 ^ 840 :=
        Nat.lt_of_le_of_lt (Nat.pow_le_pow_right (by decide) hj360) pow5_360
      have a3 : 2 ^ ((K : Int) - F.C.exponentBias - (n.exponent + ↑T + 1 - (sig.length : Int))).toNat ≤ 2 ^ 1447 :=
        Nat.pow_le_pow_right (by decide) (by omega)
      calc (2 * Q + 1) * (10 / 2) ^ j * 2 ^ ((K : Int) - F.C.exponentBias - (n.exponent + ↑T + 1 - (sig.length : Int))).toNat
          ≤ (2 * Q + 1) * (10 / 2) ^ j * 2 ^ 1447 := Nat.mul_le_mul_left _ a3
        _ < 2 ^ 54 * 2 ^ 840 * 2 ^ 1447 := by
            apply Nat.mul_lt_mul_of_pos_right _ (Nat.two_pow_pos _)
            exact Nat.mul_lt_mul'' a1 a2
        _ ≤ 2 ^ (64 * 62) := by rw [← Nat.pow_add, ← Nat.pow_add]; exact Nat.pow_le_pow_right (by decide) (by decide)
        _ ≤ _ := hcapp
    · have a3 : 2 ^ (-((K : Int) - F.C.exponentBias - (n.exponent + ↑T + 1 - (sig.length : Int)))).toNat ≤ 2 ^ 1075 :=
        Nat.pow_le_pow_right (by decide) (by omega)
      calc S * 2 ^ (-((K : Int) - F.C.exponentBias - (n.exponent + ↑T + 1 - (sig.length : Int)))).toNat
          ≤ S * 2 ^ 1075 := Nat.mul_le_mul_left _ a3
        _ < 2 ^ 64 * 2 ^ 1075 := Nat.mul_lt_mul_of_pos_right hS64 (Nat.two_pow_pos _)
        _ ≤ 2 ^ (64 * 62) := by rw [← Nat.pow_add]; exact Nat.pow_le_pow_right (by decide) (by decide)
        _ ≤ _ := hcapp

end LexVerif.Props.C01SlowDomain
