import LexVerif.Props.C04
/-!
# C16 — cargo features are additive (property theorems)

For the default (decimal, STANDARD) integer-parsing API the model of the parser equals one and the same
specification whatever the feature set: the result cannot depend on the features.
-/
namespace LexVerif.Props.C16
open LexVerif.Spec LexVerif.Model LexVerif.Model.ParseInt LexVerif.Proof.ParseInt LexVerif.Props.C04

/-- default-API integer parsing is feature independent: two feature sets give the same model result on every input -/
theorem parseInt_feature_independent (feats₁ feats₂ : Features) (t : IntTy) (ht : IsIntTy t)
    (p nm : Bool) (s : List Nat) (hs : ∀ b ∈ s, b < 256) :
    Model.ParseInt.parseInt feats₁ t 10 p nm s = Model.ParseInt.parseInt feats₂ t 10 p nm s := by
  rw [parseInt_model_eq_spec feats₁ t ht 10 (by decide) (by decide) (Or.inr rfl) p nm s hs,
      parseInt_model_eq_spec feats₂ t ht 10 (by decide) (by decide) (Or.inr rfl) p nm s hs]

end LexVerif.Props.C16
