import LexVerif.Props.C18
/-!
# C18 (builder part) — `rebuild ∘ build_unchecked` and `build_unchecked ∘ rebuild`, exactly

Proves the two statements kept as `Prop`s in `Props/C18.lean`:
* `rebuild_build : rebuild_build_full` — `rebuild (build b) = normalize b` for builders within field ranges;
* `build_rebuild : build_rebuild_full` — which bits `build (rebuild f)` keeps, clears and fills.
-/
namespace LexVerif.Props.C18
open LexVerif.Model LexVerif.Model.FormatError LexVerif.Spec LexVerif.Proof.Bits

/-! ## the flag word produced by `add_flags!` -/

theorem pos_lt (fl : Flag) : pos fl < 45 := by cases fl <;> decide

theorem pos_injective (a b : Flag) (h : pos a = pos b) : a = b := by
  cases a <;> cases b <;> first | rfl | (exact absurd h (by decide))

theorem mem_all (fl : Flag) : fl ∈ Flag.all := by cases fl <;> decide

theorem mem_sep_iff (fl : Flag) : fl ∈ Flag.all.drop 18 ↔ 32 ≤ pos fl := by cases fl <;> decide

theorem testBit_foldl (g : Flag → Bool) (l : List Flag) (acc i : Nat) :
    (l.foldl (fun format fl => if g fl then format ||| fl.mask else format) acc).testBit i =
      (acc.testBit i || l.any (fun fl => g fl && decide (pos fl = i))) := by
  induction l generalizing acc with
  | nil => simp
  | cons x xs ih =>
    rw [List.foldl_cons, ih, List.any_cons]
    by_cases hx : g x = true
    · simp only [hx, if_true, Nat.testBit_or, mask_eq, Nat.testBit_two_pow, Bool.true_and, Bool.or_assoc]
    · simp [hx]

theorem testBit_flagWord (b : Builder) (i : Nat) :
    b.flagWord.testBit i = Flag.all.any (fun fl => b.flags fl && decide (pos fl = i)) := by
  unfold Builder.flagWord; rw [testBit_foldl]; simp

theorem testBit_flagWord_pos (b : Builder) (fl : Flag) : b.flagWord.testBit (pos fl) = b.flags fl := by
  rw [testBit_flagWord]
  by_cases h : b.flags fl = true
  · rw [h, List.any_eq_true]; exact ⟨fl, mem_all fl, by simp [h]⟩
  · have h' : b.flags fl = false := by simpa using h
    rw [h', List.any_eq_false]
    intro x _ hx
    simp only [Bool.and_eq_true, decide_eq_true_eq] at hx
    rw [pos_injective x fl hx.2] at hx
    exact h hx.1

theorem flagWord_lt (b : Builder) : b.flagWord < 2 ^ 45 := by
  apply Nat.lt_pow_two_of_testBit
  intro i hi
  rw [testBit_flagWord, List.any_eq_false]
  intro x _ hx
  simp only [Bool.and_eq_true, decide_eq_true_eq] at hx
  have := pos_lt x; omega

theorem flagWord_bit (b : Builder) (fl : Flag) : b.flagWord / 2 ^ pos fl % 2 = (b.flags fl).toNat := by
  have h := testBit_flagWord_pos b fl
  rw [Nat.testBit_eq_decide_div_mod_eq] at h
  have : b.flagWord / 2 ^ pos fl % 2 = 0 ∨ b.flagWord / 2 ^ pos fl % 2 = 1 := by omega
  cases hb : b.flags fl <;> rw [hb] at h <;> rcases this with t | t <;> simp [t] at h ⊢ <;> omega

/-! ## `build_unchecked` as a sum of disjoint fields -/

theorem sepCond (b : Builder) :
    (b.flagWord &&& G.DIGIT_SEPARATOR_FLAG_MASK != 0) = (Flag.all.drop 18).any b.flags := by
  have m : G.DIGIT_SEPARATOR_FLAG_MASK = (2 ^ 13 - 1) <<< 32 := by decide
  rw [m, and_shifted_mask]
  by_cases h : (Flag.all.drop 18).any b.flags = true
  · rw [h]
    obtain ⟨fl, hm, hf⟩ := List.any_eq_true.mp h
    have h32 := (mem_sep_iff fl).mp hm
    have h45 := pos_lt fl
    have hb := flagWord_bit b fl
    rw [hf] at hb
    have hne : b.flagWord / 2 ^ 32 % 2 ^ 13 ≠ 0 := by
      intro h0
      have := bit_of_field b.flagWord 32 13 (pos fl) 0 h32 (by omega) h0
      rw [hb] at this
      simp at this
    have : b.flagWord / 2 ^ 32 % 2 ^ 13 * 2 ^ 32 ≠ 0 := by
      have : 0 < 2 ^ 32 := by decide
      exact Nat.mul_ne_zero hne (by omega)
    simp only [bne_iff_ne, ne_eq, this, not_false_eq_true]
  · have h' : (Flag.all.drop 18).any b.flags = false := by simpa using h
    rw [h']
    have hlt : b.flagWord < 2 ^ 32 := by
      apply Nat.lt_pow_two_of_testBit
      intro i hi
      rw [testBit_flagWord, List.any_eq_false]
      intro x _ hx
      simp only [Bool.and_eq_true, decide_eq_true_eq] at hx
      have hmem : x ∈ Flag.all.drop 18 := (mem_sep_iff x).mpr (by omega)
      have := List.any_eq_false.mp h' x hmem
      exact this hx.1
    have : b.flagWord / 2 ^ 32 = 0 := Nat.div_eq_of_lt hlt
    simp [this]

theorem build_eq (b : Builder) (hr : b.InRange) :
    b.build = b.flagWord + (if (Flag.all.drop 18).any b.flags = true then b.digitSeparator else 0) * 2 ^ 64 +
      b.basePrefix * 2 ^ 88 + b.baseSuffix * 2 ^ 96 + b.mantissaRadix * 2 ^ 104 + b.exponentBase * 2 ^ 112 +
      b.exponentRadix * 2 ^ 120 := by
  obtain ⟨r1, r2, r3, r4, r5, r6⟩ := hr
  have hw := flagWord_lt b
  unfold Builder.build
  simp only [sepCond]
  show (((((if (Flag.all.drop 18).any b.flags = true then b.flagWord ||| b.digitSeparator <<< 64 else b.flagWord) |||
    b.basePrefix <<< 88) ||| b.baseSuffix <<< 96) ||| b.mantissaRadix <<< 104) ||| b.exponentBase <<< 112) |||
    b.exponentRadix <<< 120 = _
  have e0 : (if (Flag.all.drop 18).any b.flags = true then b.flagWord ||| b.digitSeparator <<< 64 else b.flagWord) =
      b.flagWord + (if (Flag.all.drop 18).any b.flags = true then b.digitSeparator else 0) * 2 ^ 64 := by
    split
    · exact or_shiftLeft _ _ _ (by omega)
    · simp
  rw [e0]
  have hs : (if (Flag.all.drop 18).any b.flags = true then b.digitSeparator else 0) < 256 := by split <;> omega
  generalize (if (Flag.all.drop 18).any b.flags = true then b.digitSeparator else 0) = s at *
  rw [or_shiftLeft _ _ 88 (by omega), or_shiftLeft _ _ 96 (by omega), or_shiftLeft _ _ 104 (by omega),
    or_shiftLeft _ _ 112 (by omega), or_shiftLeft _ _ 120 (by omega)]
theorem bytes_arith (f : Nat) :
    digitSeparator f = f / 2 ^ 64 % 256 ∧ basePrefix f = f / 2 ^ 88 % 256 ∧ baseSuffix f = f / 2 ^ 96 % 256 ∧
    mantissaRadix f = f / 2 ^ 104 % 256 ∧
    exponentBase f = (if f / 2 ^ 112 % 256 = 0 then f / 2 ^ 104 % 256 else f / 2 ^ 112 % 256) ∧
    exponentRadix f = (if f / 2 ^ 120 % 256 = 0 then f / 2 ^ 104 % 256 else f / 2 ^ 120 % 256) :=
  bytes_unpack f

theorem flag_of_low (f w : Nat) (hw : f / 2 ^ 0 % 2 ^ 64 = w) (fl : Flag) :
    hasFlag f fl.mask = decide (w / 2 ^ pos fl % 2 = 1) := by
  rw [hasFlag, mask_eq, and_two_pow_ne_zero,
    bit_of_field f 0 64 (pos fl) w (Nat.zero_le _) (by have := pos_lt fl; omega) hw, Nat.sub_zero]

theorem sum_fields (f w s p q m e r : Nat) (hw : w < 2 ^ 45) (hs : s < 256) (hp : p < 256) (hq : q < 256)
    (hm : m < 256) (he : e < 256) (hr : r < 256)
    (hf : f = w + s * 2 ^ 64 + p * 2 ^ 88 + q * 2 ^ 96 + m * 2 ^ 104 + e * 2 ^ 112 + r * 2 ^ 120) :
    f / 2 ^ 0 % 2 ^ 64 = w ∧ f / 2 ^ 64 % 256 = s ∧ f / 2 ^ 88 % 256 = p ∧ f / 2 ^ 96 % 256 = q ∧
    f / 2 ^ 104 % 256 = m ∧ f / 2 ^ 112 % 256 = e ∧ f / 2 ^ 120 % 256 = r ∧ f / 2 ^ 72 % 2 ^ 16 = 0 ∧
    f / 2 ^ 120 = r ∧ f / 2 ^ 88 % 2 ^ 24 = p + q * 2 ^ 8 + m * 2 ^ 16 := by
  subst hf
  refine ⟨?_, ?_, ?_, ?_, ?_, ?_, ?_, ?_, ?_, ?_⟩ <;> omega

/-- **(c) `rebuild ∘ build_unchecked`** -/
theorem rebuild_build : rebuild_build_full := by
  intro b hr
  have hb := build_eq b hr
  obtain ⟨r1, r2, r3, r4, r5, r6⟩ := hr
  have hs : (if (Flag.all.drop 18).any b.flags = true then b.digitSeparator else 0) < 256 := by split <;> omega
  obtain ⟨hlow, s1, s2, s3, s4, s5, s6, -, -, -⟩ := sum_fields _ _ _ _ _ _ _ _ (flagWord_lt b) hs r2 r3 r4 r5 r6 hb
  obtain ⟨a1, a2, a3, a4, a5, a6⟩ := bytes_arith b.build
  rw [s4, s5] at a5
  rw [s4, s6] at a6
  simp only [rebuild, normalize, Builder.mk.injEq]
  refine ⟨?_, ?_, ?_, ?_, ?_, ?_, ?_⟩
  · rw [a1, s1]
  · rw [a2, s2]
  · rw [a3, s3]
  · rw [a4, s4]; exact Nat.mod_eq_of_lt r4
  · rw [a5]; split
    · exact Nat.mod_eq_of_lt r4
    · exact Nat.mod_eq_of_lt r5
  · rw [a6]; split
    · exact Nat.mod_eq_of_lt r4
    · exact Nat.mod_eq_of_lt r6
  · funext fl
    rw [flag_of_low _ _ hlow fl, flagWord_bit]
    cases b.flags fl <;> simp
theorem any_pos_eq : ∀ i < 45, Flag.all.any (fun fl => decide (pos fl = i)) = decide (i < 18 ∨ 32 ≤ i) := by decide

theorem any_testBit (f i : Nat) (l : List Flag) :
    l.any (fun fl => f.testBit (pos fl) && decide (pos fl = i)) =
      (f.testBit i && l.any (fun fl => decide (pos fl = i))) := by
  induction l with
  | nil => simp
  | cons x xs ih =>
    rw [List.any_cons, List.any_cons, ih]
    by_cases h : pos x = i
    · subst h; cases f.testBit (pos x) <;> simp
    · simp [h]

theorem hasFlag_testBit (f : Nat) (fl : Flag) : hasFlag f fl.mask = f.testBit (pos fl) := by
  rw [hasFlag, mask_eq, and_two_pow_ne_zero, Nat.testBit_eq_decide_div_mod_eq]

/-- the flag word of `rebuild f` is `f` restricted to the 31 flag positions -/
theorem flagWord_rebuild (f : Nat) : (rebuild f).flagWord = f % 2 ^ 18 + (f / 2 ^ 32 % 2 ^ 13) * 2 ^ 32 := by
  rw [← or_mul_two_pow _ _ _ (by omega)]
  apply Nat.eq_of_testBit_eq
  intro i
  rw [testBit_flagWord, Nat.testBit_or, Nat.testBit_mod_two_pow, Nat.testBit_mul_two_pow, Nat.testBit_mod_two_pow,
    Nat.testBit_div_two_pow]
  simp only [rebuild, hasFlag_testBit]
  rw [any_testBit]
  by_cases hi : i < 45
  · rw [any_pos_eq i hi]
    by_cases h1 : i < 18
    · have : ¬ 32 ≤ i := by omega
      simp [h1, this, Bool.and_comm]
    · by_cases h2 : 32 ≤ i
      · have e : i - 32 + 32 = i := by omega
        have : i - 32 < 13 := by omega
        simp [h1, h2, e, this, Bool.and_comm]
      · simp [h1, h2]
  · have : Flag.all.any (fun fl => decide (pos fl = i)) = false := by
      rw [List.any_eq_false]; intro x _; have := pos_lt x; simp; omega
    rw [this]
    have h1 : ¬ i < 18 := by omega
    have h3 : ¬ i - 32 < 13 := by omega
    simp [h1, h3]

theorem rebuild_inRange (f : Nat) : (rebuild f).InRange := by
  unfold Builder.InRange rebuild
  obtain ⟨a1, a2, a3, -, -, -⟩ := bytes_arith f
  simp only [a1, a2, a3]
  refine ⟨?_, ?_, ?_, ?_, ?_, ?_⟩ <;> omega

/-- **(c) `build_unchecked ∘ rebuild`** -/
theorem build_rebuild : build_rebuild_full := by
  intro f hf
  have hr := rebuild_inRange f
  have hb := build_eq (rebuild f) hr
  have hW := flagWord_rebuild f
  have hc := sepCond (rebuild f)
  have m : G.DIGIT_SEPARATOR_FLAG_MASK = (2 ^ 13 - 1) <<< 32 := by decide
  rw [m, and_shifted_mask, hW] at hc
  have ec : (f % 2 ^ 18 + f / 2 ^ 32 % 2 ^ 13 * 2 ^ 32) / 2 ^ 32 % 2 ^ 13 = f / 2 ^ 32 % 2 ^ 13 := by omega
  rw [ec] at hc
  obtain ⟨a1, a2, a3, a4, a5, a6⟩ := bytes_arith f
  have hs : (if (Flag.all.drop 18).any (rebuild f).flags = true then (rebuild f).digitSeparator else 0) < 256 := by
    have := hr.1; split <;> omega
  obtain ⟨hlow, s1, -, -, -, s5, -, s72, s120, s88⟩ :=
    sum_fields _ _ _ _ _ _ _ _ (flagWord_lt _) hs hr.2.1 hr.2.2.1 hr.2.2.2.1 hr.2.2.2.2.1 hr.2.2.2.2.2 hb
  show _ ∧ _ ∧ _ ∧ _ ∧ _ ∧ _
  generalize (rebuild f).build = g at *
  have d1 : (rebuild f).digitSeparator = f / 2 ^ 64 % 256 := a1
  have d2 : (rebuild f).basePrefix = f / 2 ^ 88 % 256 := a2
  have d3 : (rebuild f).baseSuffix = f / 2 ^ 96 % 256 := a3
  have d4 : (rebuild f).mantissaRadix = f / 2 ^ 104 % 256 % 256 := by show mantissaRadix f % 256 = _; rw [a4]
  have d5 : (rebuild f).exponentBase =
      (if f / 2 ^ 112 % 256 = 0 then f / 2 ^ 104 % 256 else f / 2 ^ 112 % 256) % 256 := by
    show exponentBase f % 256 = _; rw [a5]
  have d6 : (rebuild f).exponentRadix =
      (if f / 2 ^ 120 % 256 = 0 then f / 2 ^ 104 % 256 else f / 2 ^ 120 % 256) % 256 := by
    show exponentRadix f % 256 = _; rw [a6]
  rw [d1] at s1; rw [d2, d3, d4] at s88; rw [d5] at s5; rw [d6] at s120
  rw [hW] at hlow
  clear hb hs hr a1 a2 a3 a4 a5 a6 d1 d2 d3 d4 d5 d6 m
  refine ⟨?_, ?_, s72, ?_, ?_, ?_⟩
  · clear s1 s5 s72 s120 s88 hc; omega
  · rw [s1]
    clear s1 s5 s72 s120 s88 hlow
    by_cases h0 : f / 2 ^ 32 % 2 ^ 13 = 0
    · have : (Flag.all.drop 18).any (rebuild f).flags = false := by
        rw [← hc, h0]; rfl
      simp [this, h0]
    · have : (Flag.all.drop 18).any (rebuild f).flags = true := by
        rw [← hc]
        have : f / 2 ^ 32 % 2 ^ 13 * 2 ^ 32 ≠ 0 := Nat.mul_ne_zero h0 (by decide)
        simp only [bne_iff_ne, ne_eq, this, not_false_eq_true]
      simp [this, h0]
  · rw [s88]; clear s1 s5 s72 s120 s88 hlow hc hW
    have e1 : f / 2 ^ 96 = f / 2 ^ 88 / 2 ^ 8 := by rw [Nat.div_div_eq_div_mul, ← Nat.pow_add]
    have e2 : f / 2 ^ 104 = f / 2 ^ 88 / 2 ^ 16 := by rw [Nat.div_div_eq_div_mul, ← Nat.pow_add]
    rw [e1, e2]
    generalize f / 2 ^ 88 = x
    omega
  · rw [s5]; clear s1 s5 s72 s120 s88 hlow hc hW; split <;> omega
  · rw [s120]; clear s1 s5 s72 s120 s88 hlow hc hW; split <;> omega

end LexVerif.Props.C18
