import LexVerif.Props.C01Compact
/-!
# Props.C01Final — C01 with Eisel–Lemire proved and the slow path modelled

`Props.C01Main.C01_main` had three named hypotheses. Here
* `lemire_sound` is **discharged** (`Props.C01.lemire_sound_proved`: every exponent, every mantissa; valid answers are
  `roundNE`, invalid-marked ones bracket the value);
* the abstract `slow : SlowRadix` with `SlowPathCorrect slow` is **replaced by the model of the real code**
  (`Props.C01SlowMain.slowModel`, proved in `Props.C01Slow` on its domain `SlowDomain`); what Eisel–Lemire hands to it is
  characterised by `lemire_estimate_facts` (normalised mantissa, un-biased exponent within `±4096`, the bracket);
* `NumberExact` remains (the syntax layer; C11/C12 territory).

`numberToFloat_final` / `C01_main_slow`: for every untruncated decimal input of a non-`compact` build,
`parseFloatAlgoModel slowModel = parseFloatModel` (i.e. `Spec.litBits` of the digit content), provided the estimates
Eisel–Lemire can return for the input lie in `SlowDomain`.

Then everything is discharged: `C01_decimal_correct` (untruncated inputs: `NumberExact` from the syntax model,
`SlowDomain` from `lemire_estimate_facts`), `C01_decimal_correct_all` (truncated inputs the two-pass wrapper decides),
and **`C01_decimal_correct_slow`** — every input of a non-`compact` decimal build, any number of digits, no residual
hypothesis (`Props.C01Trunc`: what `lemire` hands to the slow path for a truncated mantissa; `Props.C01Slow`:
`truncation_invariant_proved`, the `b = +∞` case); `C01_decimal_correct_compact` — the same for `compact` builds
(`Props.C01Compact`: Bellerophon's two-sided estimate); together **`C01_decimal_full_proved`**: every build.
-/
namespace LexVerif.Props.C01Final
open LexVerif.Spec LexVerif.Model LexVerif.Model.ParseFloatAlgo
open LexVerif.Proof.RoundNE LexVerif.Proof.ExtRound LexVerif.Proof.Pipeline
open LexVerif.Props.C01 (IsLemireFloat IsI64 Bracket)
open LexVerif.Props.C01Main LexVerif.Props.C01SlowMain LexVerif.Props.C01SlowDomain LexVerif.Proof.Slow

theorem hden_of {F : FTy} (hF : IsLemireFloat F) : F.C.denormalExponent = 1 - F.C.exponentBias := by
  rcases hF with h | h <;> subst h <;> decide

/-- the moderate-path contract of the non-`compact` decimal builds — **unconditional** -/
theorem moderateContract_lemire_proved {F : FTy} (hF : IsLemireFloat F) (c : Cfg)
    (hcompact : c.feats.compact = false) (hr : c.mantissaRadix = 10) (hb : c.exponentBase = 10)
    (n : Number) (hmany : n.manyDigits = false) (hw : n.mantissa < 2 ^ 64) (hq : IsI64 n.exponent) :
    ModerateContract c F n :=
  moderateContract_lemire C01.lemire_sound_proved hF c hcompact hr hb n hmany hw hq

/-- **C01 for one `Number`, slow path modelled, Eisel–Lemire proved**: an exact untruncated `Number` is converted to
`litBits` of its digit content, provided every estimate `compute_float` can hand over for it — normalised, exponent
within `±4096`, bracketing the value — lies in the domain of the slow-path model. -/
theorem numberToFloat_final {F : FTy} (hF : IsLemireFloat F) (c : Cfg) (hcompact : c.feats.compact = false)
    (hr : c.mantissaRadix = 10) (hb : c.exponentBase = 10)
    (n : Number) (hmany : n.manyDigits = false) (hx : NumberExactAt c n)
    (hdom : ∀ fp, Lemire.computeFloat F n.exponent n.mantissa false = .ok fp → fp.exp < 0 →
      2 ^ 63 ≤ fp.mant → fp.mant < 2 ^ 64 → -(4096 : Int) ≤ fp.exp - invalidFp → fp.exp - invalidFp ≤ 4096 →
      ∀ {p eb : Nat}, Layout F p eb → ∃ d, SlowDomain c F p n { fp with exp := fp.exp - invalidFp } d) :
    numberToFloat slowModel c F n false = some (litBits F.fmt c.mantissaRadix c.exponentBase (numberLit c n)) := by
  obtain ⟨hw, hq, hre⟩ := hx
  obtain ⟨p, eb, lay⟩ := layout_of hF
  apply numberToFloat_slowModel hF lay (hden_of hF) c (by omega) (by omega) (by omega) n hmany hre
    (fastContract_decimal hF c hr n) (moderateContract_lemire_proved hF c hcompact hr hb n hmany hw hq)
  intro fp hm hneg
  have hcf : Lemire.computeFloat F n.exponent n.mantissa false = .ok fp := by
    unfold moderatePath at hm
    rw [hr, backend_lemire _ hcompact] at hm
    simp only [] at hm
    rw [lemire_untruncated F (numOf n) hmany] at hm
    exact hm
  obtain ⟨f1, f2, f3, f4, _⟩ := C01.lemire_estimate_facts F hF n.exponent n.mantissa fp hw hcf hneg
  exact hdom fp hcf hneg f1 f2 f3 f4 lay

/-- **`C01_main_slow`** — API level: `NumberExact` is the only named hypothesis left; the slow path is the model. -/
theorem C01_main_slow (hN : NumberExact) (feats : Features) (hcompact : feats.compact = false) (fmt : Format)
    (hr : fmt.mantissaRadix = 10) (hb : fmt.exponentBase = 10)
    (hclass : feats.format = false ∨ C12.SepPrefixFree fmt)
    (o : POpts) {F : FTy} (hF : IsLemireFloat F) (isPartial : Bool) (s : List Nat)
    (hfew : ∀ n cnt, parseFloatSyntax ⟨feats, fmt, false⟩ o isPartial s (formatError feats fmt).isNone =
      .ok (.number n cnt) → n.manyDigits = false)
    (hdom : ∀ n cnt, parseFloatSyntax ⟨feats, fmt, false⟩ o isPartial s (formatError feats fmt).isNone =
      .ok (.number n cnt) → ∀ fp, Lemire.computeFloat F n.exponent n.mantissa false = .ok fp → fp.exp < 0 →
      2 ^ 63 ≤ fp.mant → fp.mant < 2 ^ 64 → -(4096 : Int) ≤ fp.exp - invalidFp → fp.exp - invalidFp ≤ 4096 →
      ∀ {p eb : Nat}, Layout F p eb →
        ∃ d, SlowDomain ⟨feats, fmt, false⟩ F p n { fp with exp := fp.exp - invalidFp } d) :
    parseFloatAlgoModel slowModel feats fmt o isPartial F s = parseFloatModel feats fmt o isPartial F.fmt s := by
  apply parseFloatAlgoModel_eq
  intro n cnt hp
  have hmany := hfew n cnt hp
  have hx := hN ⟨feats, fmt, false⟩ o isPartial s _ n cnt rfl hclass hr hb hp hmany
  rw [numberToFloat_final hF ⟨feats, fmt, false⟩ hcompact hr hb n hmany hx (hdom n cnt hp)]
  have hr' : (⟨feats, fmt, false⟩ : Cfg).mantissaRadix = 10 := hr
  have hb' : (⟨feats, fmt, false⟩ : Cfg).exponentBase = 10 := hb
  rw [(spec_forms hF ⟨feats, fmt, false⟩ (by omega) (by omega) (by omega) n hmany hx.2.2).2]

/-- the inputs Eisel–Lemire decides need no slow path at all: `NumberExact` alone -/
theorem C01_main_decided (hN : NumberExact) (feats : Features) (hcompact : feats.compact = false) (fmt : Format)
    (hr : fmt.mantissaRadix = 10) (hb : fmt.exponentBase = 10)
    (hclass : feats.format = false ∨ C12.SepPrefixFree fmt)
    (o : POpts) {F : FTy} (hF : IsLemireFloat F) (isPartial : Bool) (s : List Nat) (slow : SlowRadix)
    (hfew : ∀ n cnt, parseFloatSyntax ⟨feats, fmt, false⟩ o isPartial s (formatError feats fmt).isNone =
      .ok (.number n cnt) → n.manyDigits = false)
    (hdec : ∀ n cnt, parseFloatSyntax ⟨feats, fmt, false⟩ o isPartial s (formatError feats fmt).isNone =
      .ok (.number n cnt) → ∀ fp, Lemire.computeFloat F n.exponent n.mantissa false = .ok fp → 0 ≤ fp.exp) :
    parseFloatAlgoModel slow feats fmt o isPartial F s = parseFloatModel feats fmt o isPartial F.fmt s := by
  apply parseFloatAlgoModel_eq
  intro n cnt hp
  have hmany := hfew n cnt hp
  have hx := hN ⟨feats, fmt, false⟩ o isPartial s _ n cnt rfl hclass hr hb hp hmany
  obtain ⟨hw, hq, hre⟩ := hx
  have hr' : (⟨feats, fmt, false⟩ : Cfg).mantissaRadix = 10 := hr
  have hb' : (⟨feats, fmt, false⟩ : Cfg).exponentBase = 10 := hb
  obtain ⟨fp, hm, hvalid, _⟩ := moderateContract_lemire_proved hF ⟨feats, fmt, false⟩ hcompact hr hb n hmany hw hq
  have hcf : Lemire.computeFloat F n.exponent n.mantissa false = .ok fp := by
    unfold moderatePath at hm
    rw [hr', backend_lemire _ hcompact] at hm
    simp only [] at hm
    rw [lemire_untruncated F (numOf n) hmany] at hm
    exact hm
  have hv := hdec n cnt hp fp hcf
  rw [numberToFloat_decided slow hF ⟨feats, fmt, false⟩ (by omega) (by omega) (by omega) n hmany hre
    (fastContract_decimal hF ⟨feats, fmt, false⟩ hr n) hm hv (hvalid hv)]
  rw [(spec_forms hF ⟨feats, fmt, false⟩ (by omega) (by omega) (by omega) n hmany hre).2]

/-! ## the `SlowDomain` conditions discharged (`Props.C01SlowDomain.slowDomain_of_exact`) -/

/-- **C01 for one untruncated decimal `Number`, no condition on the estimate left**: exact `mantissa`/`exponent` words
(`NumberExactAt`), plain digit slices (`PlainSlices`) and at most 19 significant digits — then the pipeline with the
modelled slow path returns `litBits` of the digit content. Everything about Eisel–Lemire's estimate (normalisation,
exponent range, bracket, finiteness of its round-down, both capacity guards of the big-integer code) is derived. -/
theorem numberToFloat_exact {F : FTy} (hF : IsLemireFloat F) (c : Cfg) (hcompact : c.feats.compact = false)
    (hr : c.mantissaRadix = 10) (hb : c.exponentBase = 10)
    (n : Number) (hmany : n.manyDigits = false) (hx : NumberExactAt c n) (hs : PlainSlices c n)
    (hfew : (sigBytes n.integer n.fraction).length ≤ 19) :
    numberToFloat slowModel c F n false = some (litBits F.fmt c.mantissaRadix c.exponentBase (numberLit c n)) := by
  apply numberToFloat_final hF c hcompact hr hb n hmany hx
  intro fp hcf hinv _ _ _ _ p eb lay
  exact slowDomain_of_exact hF lay c hr hb n hx hs hfew fp hcf hinv

/-! ## the decimal theorem without named hypotheses (untruncated inputs) -/

/-- a valid decimal-point option is not a decimal digit -/
theorem dp_not_digit (feats : Features) (fmt : Format) (o : POpts) (hr : 10 ≤ fmt.mantissaRadix)
    (hv : isValidOptionsPunctuation feats fmt o.exp o.dp = true) : charToDigit o.dp 10 = none := by
  unfold isValidOptionsPunctuation at hv
  split at hv
  · cases hv
  · rename_i hc
    simp only [Bool.or_eq_true, Bool.not_eq_true', not_or, Bool.not_eq_false] at hc
    have h1 := hc.1
    unfold isValidControl isValidOptionalControl at h1
    simp only [Bool.and_eq_true, decide_eq_true_eq, Option.isNone_iff_eq_none, Bool.or_eq_true] at h1
    obtain ⟨hne0, ⟨⟨hnone, _⟩, _⟩, hasc⟩ := h1
    have hlt : o.dp < 256 := by
      rcases hasc with h | h
      · unfold isValidAscii at h
        simp only [Bool.or_eq_true, Bool.and_eq_true, decide_eq_true_eq] at h
        omega
      · omega
    generalize hR : (if fmt.mantissaRadix > fmt.exponentRadix then fmt.mantissaRadix else fmt.exponentRadix) = R at hnone
    have hR10 : 10 ≤ R := by rw [← hR]; split <;> omega
    unfold charToDigit charToValidDigit at hnone ⊢
    dsimp only at hnone ⊢
    rw [if_pos (Nat.le_refl 10)]
    split
    · rename_i hd
      exfalso
      split at hnone
      · rename_i hR'
        rw [if_pos (by omega)] at hnone
        cases hnone
      · rename_i hR'
        have hdig : 48 ≤ o.dp ∧ o.dp ≤ 57 := by omega
        rw [if_pos hdig] at hnone
        rw [if_pos (by omega)] at hnone
        cases hnone
    · rfl

/-- `parseFloatAlgoModel_eq` with the option validation available to the per-`Number` obligation -/
theorem parseFloatAlgoModel_eq_valid (slow : SlowRadix) (feats : Features) (fmt : Format) (o : POpts) (isPartial : Bool)
    (F : FTy) (s : List Nat)
    (h : isValidOptionsPunctuation feats fmt o.exp o.dp = true → ∀ n cnt,
      parseFloatSyntax ⟨feats, fmt, false⟩ o isPartial s (formatError feats fmt).isNone = .ok (.number n cnt) →
      numberToFloat slow ⟨feats, fmt, false⟩ F n false = some (numberBits ⟨feats, fmt, false⟩ F.fmt n)) :
    parseFloatAlgoModel slow feats fmt o isPartial F s = parseFloatModel feats fmt o isPartial F.fmt s := by
  unfold parseFloatAlgoModel parseFloatModel
  cases optionsError o with
  | some e => rfl
  | none =>
    simp only []
    split
    · rfl
    · split
      · rfl
      · rename_i hval
        split
        · rfl
        · cases hp : parseFloatSyntax ⟨feats, fmt, false⟩ o isPartial s (formatError feats fmt).isNone with
          | error e => rfl
          | ok q =>
            simp only []
            cases q with
            | zero k => rfl
            | special sp neg k => cases sp <;> rfl
            | number n cnt =>
              unfold renderParsedAlgo renderParsed
              simp only []
              rw [h (by simpa using hval) n cnt hp]

/-- **`C01_decimal_correct`** — decimal string→float is correctly rounded, API level, pipeline with the **modelled** slow
path, Eisel–Lemire **proved**, the syntax layer's `Number` **proved** exact: for every non-`compact` build, every decimal
format without digit separator and base prefix (every format when the `format` feature is off), all options, complete
and partial parser, float type `f32`/`f64`, and every input of bytes (shorter than `2^60`) whose `Number` is untruncated
(`many_digits = false`, i.e. at most 19 significant digits),
`parseFloatAlgoModel slowModel` — syntax → `try_fast_path` → `lemire` → `slow_radix` → `to_native` — prints exactly what
the specification model prints: `Spec.litBits` of the digit content (the nearest float, ties to even, overflow to
infinity, gradual underflow), the same count, the same errors. **No named hypothesis is left**; the only restriction on the
input is `hfew`. -/
theorem C01_decimal_correct (feats : Features) (hcompact : feats.compact = false) (fmt : Format)
    (hr : fmt.mantissaRadix = 10) (hb : fmt.exponentBase = 10)
    (hclass : feats.format = false ∨ C12.SepPrefixFree fmt)
    (o : POpts) {F : FTy} (hF : IsLemireFloat F) (isPartial : Bool) (s : List Nat)
    (h256 : ∀ x ∈ s, x < 256) (hlen : s.length < 2 ^ 60)
    (hfew : ∀ n cnt, parseFloatSyntax ⟨feats, fmt, false⟩ o isPartial s (formatError feats fmt).isNone =
      .ok (.number n cnt) → n.manyDigits = false) :
    parseFloatAlgoModel slowModel feats fmt o isPartial F s = parseFloatModel feats fmt o isPartial F.fmt s := by
  apply parseFloatAlgoModel_eq_valid
  intro hval n cnt hp
  have hmany := hfew n cnt hp
  have hdp := dp_not_digit feats fmt o (by omega) hval
  obtain ⟨hx, hs, hfew19⟩ := C01Number.number_exact_of_syntax ⟨feats, fmt, false⟩ rfl hclass hr hb o hdp isPartial s _
    h256 hlen n cnt hp hmany
  rw [numberToFloat_exact hF ⟨feats, fmt, false⟩ hcompact hr hb n hmany hx hs hfew19]
  have hr' : (⟨feats, fmt, false⟩ : Cfg).mantissaRadix = 10 := hr
  have hb' : (⟨feats, fmt, false⟩ : Cfg).exponentBase = 10 := hb
  rw [(spec_forms hF ⟨feats, fmt, false⟩ (by omega) (by omega) (by omega) n hmany hx.2.2).2]

/-! ## truncated mantissas decided by the two-pass wrapper -/

/-- **a truncated decimal `Number` on which Eisel–Lemire's wrapper answers validly**: the first 19 significant digits
`w` and the exponent `q` bracket the exact value, `w·10^q ≤ V < (w+1)·10^q` (`number_truncated_of_syntax`), and
`lemire_wrapper_all` says a valid answer is `roundNE` of every value in that interval — so the pipeline returns `litBits` of
the whole digit content without consulting the slow path. -/
theorem numberToFloat_truncated_decided {F : FTy} (hF : IsLemireFloat F) (slow : SlowRadix) (c : Cfg)
    (hcompact : c.feats.compact = false) (hr : c.mantissaRadix = 10) (hb : c.exponentBase = 10)
    (n : Number) (hmany : n.manyDigits = true) (hs : PlainSlices c n)
    (hN : 19 < (sigBytes n.integer n.fraction).length)
    (hw : n.mantissa = ofDigits 10 (dv 10 ((sigBytes n.integer n.fraction).take 19)))
    (hwlt : n.mantissa < 10 ^ 19)
    (hq : n.exponent = ((sigBytes n.integer n.fraction).length : Int) - 19 + n.explicitExp -
      ((n.fraction.getD []).length : Int))
    (hE1 : -(2 ^ 40 : Int) ≤ n.explicitExp) (hE2 : n.explicitExp ≤ 2 ^ 40)
    (hl1 : n.integer.length < 2 ^ 60) (hl2 : (n.fraction.getD []).length < 2 ^ 60)
    (hdec : ∃ fp, Lemire.lemire F (numOf n) false = .ok fp ∧ 0 ≤ fp.exp) :
    numberToFloat slow c F n false = some (numberBits c F.fmt n) := by
  obtain ⟨p, eb, lay⟩ := layout_of hF
  obtain ⟨fp, hm, hv⟩ := hdec
  have h40 : (2 : Int) ^ 40 = 1099511627776 := by norm_num
  have h60 : (2 : Nat) ^ 60 = 1152921504606846976 := by norm_num
  have h63 : (2 : Int) ^ 63 = 9223372036854775808 := by norm_num
  -- the specification side
  have hbits : numberBits c F.fmt n = litBits F.fmt 10 10 (numberLit c n) := by
    unfold numberBits numberLit
    simp only [hmany, if_true, hr, hb]
    rfl
  have hlit := litBits_exact lay (r := 10) (b := 10) (by decide) (by decide) (by decide) (numberLit c n)
    (by have := numberLit_digits_lt c n; rwa [hr] at this)
  -- the digits
  have hvs : ValidDigits 10 (sigBytes n.integer n.fraction) := by
    have := valid_sigBytes hs.validInt hs.validFrac
    rwa [hr] at this
  obtain ⟨z, hz⟩ := sig_decomp n.integer n.fraction
  have hD : ofDigits 10 ((numberLit c n).intDigits ++ (numberLit c n).fracDigits) =
      ofDigits 10 (dv 10 (sigBytes n.integer n.fraction)) := by
    rw [hs.intDigits, hs.fracDigits, hr]
    have : dv 10 n.integer ++ dv 10 (n.fraction.getD []) = dv 10 (n.integer ++ n.fraction.getD []) := by
      unfold dv; rw [List.map_append]
    rw [this, hz, ofDigits_dv_zeros]
  have hfl : (numberLit c n).fracDigits.length = (n.fraction.getD []).length := by
    rw [hs.fracDigits, dv_length]
  have hE : (numberLit c n).exp = n.explicitExp := rfl
  have hsplit := C01Number.ofDigits_dv_take_drop 10 (sigBytes n.integer n.fraction) 19
  have htail := ofDigits_dv_lt (valid_drop hvs 19)
  have hNle : (sigBytes n.integer n.fraction).length ≤ n.integer.length + (n.fraction.getD []).length := by
    have := congrArg List.length hz
    rw [List.length_append, List.length_append, List.length_replicate] at this
    omega
  generalize hsig : sigBytes n.integer n.fraction = sig at *
  generalize hfle : (n.fraction.getD []).length = fl at *
  generalize hS : ofDigits 10 (dv 10 sig) = S at *
  generalize htl : ofDigits 10 (dv 10 (sig.drop 19)) = tail at *
  rw [← hw, List.length_drop] at hsplit
  rw [List.length_drop] at htail
  generalize hA : sig.length - 19 = A at *
  -- the interval
  have hqI : IsI64 n.exponent := by unfold IsI64; rw [hq]; constructor <;> omega
  have key : ∀ m : Nat, (powFrac 10 n.exponent m) = (m * 10 ^ n.exponent.toNat, 10 ^ (-n.exponent).toNat) :=
    fun m => powFrac_eq 10 _ m
  have hexp : n.exponent.toNat + (fl + (-n.explicitExp).toNat) = A + n.explicitExp.toNat + (-n.exponent).toNat := by
    rw [hq]; omega
  have hV : litFrac 10 10 (numberLit c n) = (S * 10 ^ n.explicitExp.toNat, 10 ^ fl * 10 ^ (-n.explicitExp).toNat) := by
    rw [litFrac_eq, hD, hfl, hE]
  have hsound := C01.lemire_wrapper_all F hF n.exponent hqI n.mantissa n.isNegative
    (by have : (10 : Nat) ^ 19 < 2 ^ 64 := by decide
        omega) (fp := fp)
    (by
      have : numOf n = ⟨n.mantissa, n.exponent, n.isNegative, true⟩ := by unfold numOf; rw [hmany]
      rw [← this]; exact hm) hv
    (litFrac 10 10 (numberLit c n)).1 (litFrac 10 10 (numberLit c n)).2
    (litFrac_den_pos (by decide) (by decide) _)
    (by
      rw [key, hV]
      simp only
      calc n.mantissa * 10 ^ n.exponent.toNat * (10 ^ fl * 10 ^ (-n.explicitExp).toNat)
          = n.mantissa * 10 ^ (n.exponent.toNat + (fl + (-n.explicitExp).toNat)) := by
            rw [Nat.pow_add, Nat.pow_add]; ring
        _ = n.mantissa * 10 ^ A * (10 ^ n.explicitExp.toNat * 10 ^ (-n.exponent).toNat) := by
            rw [hexp, Nat.pow_add, Nat.pow_add]; ring
        _ ≤ S * (10 ^ n.explicitExp.toNat * 10 ^ (-n.exponent).toNat) :=
            Nat.mul_le_mul_right _ (by omega)
        _ = S * 10 ^ n.explicitExp.toNat * 10 ^ (-n.exponent).toNat := by ring)
    (by
      rw [key, hV]
      simp only
      calc S * 10 ^ n.explicitExp.toNat * 10 ^ (-n.exponent).toNat
          = S * (10 ^ n.explicitExp.toNat * 10 ^ (-n.exponent).toNat) := by ring
        _ ≤ (n.mantissa + 1) * 10 ^ A * (10 ^ n.explicitExp.toNat * 10 ^ (-n.exponent).toNat) :=
            Nat.mul_le_mul_right _ (by
              have : (n.mantissa + 1) * 10 ^ A = n.mantissa * 10 ^ A + 10 ^ A := by ring
              omega)
        _ = (n.mantissa + 1) * 10 ^ (n.exponent.toNat + (fl + (-n.explicitExp).toNat)) := by
            rw [hexp, Nat.pow_add, Nat.pow_add]; ring
        _ = (n.mantissa + 1) * 10 ^ n.exponent.toNat * (10 ^ fl * 10 ^ (-n.explicitExp).toNat) := by
            rw [Nat.pow_add, Nat.pow_add]; ring)
  -- the pipeline
  unfold numberToFloat
  have hfast : FastPath.tryFastPath (smallSetOf c.feats) F c.mantissaRadix c.exponentBase (numOf n) = .none := by
    unfold FastPath.tryFastPath FastPath.isFastPath
    rw [hr, hb]
    simp only [ne_eq, not_true_eq_false, if_false]
    have : (numOf n).manyDigits = true := hmany
    simp [this]
  rw [hfast]
  simp only
  have hmp : moderatePath c F (numOf n) false = .ok fp := by
    unfold moderatePath
    rw [hr, backend_lemire _ hcompact]
    exact hm
  rw [hmp]
  simp only
  rw [if_neg (by omega), toNative_eq F fp n.isNegative hsound, hbits, hlit]
  rfl

/-- **`C01_decimal_correct_all`** — the decimal theorem for **every** input, truncated mantissas included, with the one
residual hypothesis listed explicitly: `hdec` — on a truncated `Number` (more than 19 significant digits) the two-pass wrapper
of Eisel–Lemire answers validly (both `w` and `w+1` round to the same float), i.e. the slow path is not consulted. `hdec`
is a decidable statement about the input (evaluate `Lemire.lemire`); it fails only for inputs within `10^-19` relative distance
of a rounding boundary. -/
theorem C01_decimal_correct_all (feats : Features) (hcompact : feats.compact = false) (fmt : Format)
    (hr : fmt.mantissaRadix = 10) (hb : fmt.exponentBase = 10)
    (hclass : feats.format = false ∨ C12.SepPrefixFree fmt)
    (o : POpts) {F : FTy} (hF : IsLemireFloat F) (isPartial : Bool) (s : List Nat)
    (h256 : ∀ x ∈ s, x < 256) (hlen : s.length < 2 ^ 60)
    (hdec : ∀ n cnt, parseFloatSyntax ⟨feats, fmt, false⟩ o isPartial s (formatError feats fmt).isNone =
      .ok (.number n cnt) → n.manyDigits = true →
      ∃ fp, Lemire.lemire F (numOf n) false = .ok fp ∧ 0 ≤ fp.exp) :
    parseFloatAlgoModel slowModel feats fmt o isPartial F s = parseFloatModel feats fmt o isPartial F.fmt s := by
  apply parseFloatAlgoModel_eq_valid
  intro hval n cnt hp
  have hdp := dp_not_digit feats fmt o (by omega) hval
  cases hmany : n.manyDigits with
  | false =>
    obtain ⟨hx, hs, hfew19⟩ := C01Number.number_exact_of_syntax ⟨feats, fmt, false⟩ rfl hclass hr hb o hdp isPartial s _
      h256 hlen n cnt hp hmany
    rw [numberToFloat_exact hF ⟨feats, fmt, false⟩ hcompact hr hb n hmany hx hs hfew19]
    have hr' : (⟨feats, fmt, false⟩ : Cfg).mantissaRadix = 10 := hr
    have hb' : (⟨feats, fmt, false⟩ : Cfg).exponentBase = 10 := hb
    rw [(spec_forms hF ⟨feats, fmt, false⟩ (by omega) (by omega) (by omega) n hmany hx.2.2).2]
  | true =>
    obtain ⟨hs, hN, hw, _, hwlt, hq, hE1, hE2, hl1, hl2⟩ := C01Number.number_truncated_of_syntax ⟨feats, fmt, false⟩ rfl
      hclass hr hb o hdp isPartial s _ h256 hlen n cnt hp hmany
    exact numberToFloat_truncated_decided hF slowModel ⟨feats, fmt, false⟩ hcompact hr hb n hmany hs hN hw hwlt hq
      hE1 hE2 hl1 hl2 (hdec n cnt hp hmany)

/-- `hdec` as a Boolean -/
def wrapperDecides (F : FTy) (n : Num) : Bool :=
  match Lemire.lemire F n false with
  | .ok fp => decide (0 ≤ fp.exp)
  | _ => false

theorem wrapperDecides_spec (F : FTy) (n : Num) (h : wrapperDecides F n = true) :
    ∃ fp, Lemire.lemire F n false = .ok fp ∧ 0 ≤ fp.exp := by
  unfold wrapperDecides at h
  split at h
  · rename_i fp hfp
    exact ⟨fp, hfp, by simpa using h⟩
  · cases h

/-- non-vacuity of `hdec`: the words of a truncated input (`1.234567890123456789…`) on which the wrapper decides -/
example : ∃ fp, Lemire.lemire FTy.f64 ⟨1234567890123456789, -18, false, true⟩ false = .ok fp ∧ 0 ≤ fp.exp :=
  wrapperDecides_spec _ _ (by decide +kernel)

/-! ## truncated mantissas the wrapper does not decide: the slow path -/

/-- **a truncated decimal `Number`, decided or not**: `lemire` answers (no panic); a valid answer is right
(`numberToFloat_truncated_decided`); an invalid-marked one is an estimate of `w·10^q` from inside the table
(`C01Trunc.lemire_truncated`), with which the slow-path model returns the float nearest to the value of all the digits
(`C01Trunc.slowDomain_of_truncated`). -/
theorem numberToFloat_truncated {F : FTy} (hF : IsLemireFloat F) (c : Cfg)
    (hcompact : c.feats.compact = false) (hr : c.mantissaRadix = 10) (hb : c.exponentBase = 10)
    (n : Number) (hmany : n.manyDigits = true) (hs : PlainSlices c n)
    (hN : 19 < (sigBytes n.integer n.fraction).length)
    (hw : n.mantissa = ofDigits 10 (dv 10 ((sigBytes n.integer n.fraction).take 19)))
    (hw1 : 10 ^ 18 ≤ n.mantissa) (hwlt : n.mantissa < 10 ^ 19)
    (hq : n.exponent = ((sigBytes n.integer n.fraction).length : Int) - 19 + n.explicitExp -
      ((n.fraction.getD []).length : Int))
    (hE1 : -(2 ^ 40 : Int) ≤ n.explicitExp) (hE2 : n.explicitExp ≤ 2 ^ 40)
    (hl1 : n.integer.length < 2 ^ 60) (hl2 : (n.fraction.getD []).length < 2 ^ 60) :
    numberToFloat slowModel c F n false = some (numberBits c F.fmt n) := by
  have hw0 : n.mantissa ≠ 0 := by
    have : 0 < 10 ^ 18 := Nat.pow_pos (by decide)
    omega
  have hw64 : n.mantissa + 1 < 2 ^ 64 := by
    have : (10 : Nat) ^ 19 < 2 ^ 64 := by decide
    omega
  have hnum : numOf n = ⟨n.mantissa, n.exponent, n.isNegative, true⟩ := by unfold numOf; rw [hmany]
  obtain ⟨fp, hm, hfacts⟩ := C01Trunc.lemire_truncated F hF n.exponent n.mantissa n.isNegative hw0 hw64
  rw [← hnum] at hm
  by_cases hv : 0 ≤ fp.exp
  · exact numberToFloat_truncated_decided hF slowModel c hcompact hr hb n hmany hs hN hw hwlt hq hE1 hE2 hl1 hl2
      ⟨fp, hm, hv⟩
  · have hinv : fp.exp < 0 := by omega
    obtain ⟨hq1, hq2, p, eb, lay, hest⟩ := hfacts hinv
    obtain ⟨d, hd, hd19, hd769⟩ := C01Trunc.maxDigits_decimal_le c.feats hF
    obtain ⟨D, hbr⟩ := C01Trunc.slowDomain_of_truncated hF lay c hr hb n hs hN hw hw1 hwlt hq hq1 hq2 fp hest d hd
      hd19 hd769
    -- the specification side
    have hbits : numberBits c F.fmt n = litBits F.fmt 10 10 (numberLit c n) := by
      unfold numberBits numberLit
      simp only [hmany, if_true, hr, hb]
      rfl
    have hlit := litBits_exact lay (r := 10) (b := 10) (by decide) (by decide) (by decide) (numberLit c n)
      (by have := numberLit_digits_lt c n; rwa [hr] at this)
    have hslow := slowModel_hslow hF lay (hden_of hF) (by omega) n fp D (by rw [hr, hb]; exact hbr)
    rw [hr, hb] at hslow
    -- the pipeline
    unfold numberToFloat
    have hfast : FastPath.tryFastPath (smallSetOf c.feats) F c.mantissaRadix c.exponentBase (numOf n) = .none := by
      unfold FastPath.tryFastPath FastPath.isFastPath
      rw [hr, hb]
      simp only [ne_eq, not_true_eq_false, if_false]
      have : (numOf n).manyDigits = true := hmany
      simp [this]
    rw [hfast]
    simp only
    have hmp : moderatePath c F (numOf n) false = .ok fp := by
      unfold moderatePath
      rw [hr, backend_lemire _ hcompact]
      exact hm
    rw [hmp]
    simp only
    rw [if_pos hinv, slowPath_generic slowModel c D.env, toNative_eq F _ n.isNegative hslow, hbits, hlit]
    rfl

/-- **`C01_decimal_correct_slow`** — decimal string→float is correctly rounded for **every** input of a non-`compact`
build: any number of digits, truncated mantissas whether or not the two-pass wrapper decides; radix 10, separator-free
format class, `f32`/`f64`, complete and partial parser, inputs shorter than `2^60` bytes.
`parseFloatAlgoModel slowModel` — syntax → `try_fast_path` → `lemire` (both passes, `compute_error`) → `slow_radix`
(`parse_mantissa` with its digit limit, `positive_digit_comp` / `negative_digit_comp`, big-integer arithmetic with its
capacity checks) → `to_native` — prints exactly what the specification prints: `Spec.litBits` of the digit content, the
same count, the same errors. **No residual hypothesis.** -/
theorem C01_decimal_correct_slow (feats : Features) (hcompact : feats.compact = false) (fmt : Format)
    (hr : fmt.mantissaRadix = 10) (hb : fmt.exponentBase = 10)
    (hclass : feats.format = false ∨ C12.SepPrefixFree fmt)
    (o : POpts) {F : FTy} (hF : IsLemireFloat F) (isPartial : Bool) (s : List Nat)
    (h256 : ∀ x ∈ s, x < 256) (hlen : s.length < 2 ^ 60) :
    parseFloatAlgoModel slowModel feats fmt o isPartial F s = parseFloatModel feats fmt o isPartial F.fmt s := by
  apply parseFloatAlgoModel_eq_valid
  intro hval n cnt hp
  have hdp := dp_not_digit feats fmt o (by omega) hval
  cases hmany : n.manyDigits with
  | false =>
    obtain ⟨hx, hs, hfew19⟩ := C01Number.number_exact_of_syntax ⟨feats, fmt, false⟩ rfl hclass hr hb o hdp isPartial s _
      h256 hlen n cnt hp hmany
    rw [numberToFloat_exact hF ⟨feats, fmt, false⟩ hcompact hr hb n hmany hx hs hfew19]
    have hr' : (⟨feats, fmt, false⟩ : Cfg).mantissaRadix = 10 := hr
    have hb' : (⟨feats, fmt, false⟩ : Cfg).exponentBase = 10 := hb
    rw [(spec_forms hF ⟨feats, fmt, false⟩ (by omega) (by omega) (by omega) n hmany hx.2.2).2]
  | true =>
    obtain ⟨hs, hN, hw, hw1, hwlt, hq, hE1, hE2, hl1, hl2⟩ := C01Number.number_truncated_of_syntax ⟨feats, fmt, false⟩ rfl
      hclass hr hb o hdp isPartial s _ h256 hlen n cnt hp hmany
    exact numberToFloat_truncated hF ⟨feats, fmt, false⟩ hcompact hr hb n hmany hs hN hw hw1 hwlt hq
      hE1 hE2 hl1 hl2

/-- non-vacuity: the standard format of the default build satisfies every hypothesis -/
example (s : List Nat) (h256 : ∀ x ∈ s, x < 256) (hlen : s.length < 2 ^ 60) :
    parseFloatAlgoModel slowModel {} Format.standard {} false FTy.f64 s =
      parseFloatModel {} Format.standard {} false f64 s :=
  C01_decimal_correct_slow {} rfl Format.standard rfl rfl (Or.inl rfl) {} (Or.inl rfl) false s h256 hlen

/-- the pipeline on 30-digit literals around the half-way point `2^53 + 1` (truncated mantissa, the wrapper does not
decide, `negative_digit_comp` does): just above rounds up, exactly half-way and just below round to even -/
example :
    parseFloatAlgoModel slowModel {} Format.standard {} false FTy.f64
      (C01Slow.bytesOf "9007199254740993.00000000000001") = "ok 4340000000000001 -" ∧
    parseFloatAlgoModel slowModel {} Format.standard {} false FTy.f64
      (C01Slow.bytesOf "9007199254740993.00000000000000") = "ok 4340000000000000 -" ∧
    parseFloatAlgoModel slowModel {} Format.standard {} false FTy.f64
      (C01Slow.bytesOf "9007199254740992.99999999999999") = "ok 4340000000000000 -" := by decide +kernel

/-! ## `compact` builds: Bellerophon and the slow path -/

open LexVerif.Props.C01Compact in
theorem moderatePath_compact (c : Cfg) (hcompact : c.feats.compact = true) (hr : c.mantissaRadix = 10) (F : FTy)
    (n : Num) : moderatePath c F n false = Bellerophon.bellerophon F compactP n false := by
  unfold moderatePath
  rw [hr, backend_bellerophon_compact _ hcompact]
  simp only []
  unfold Bellerophon.powersOf
  rw [hcompact]
  rfl

open LexVerif.Props.C01Compact in
/-- an untruncated decimal `Number` in a `compact` build: fast path, Bellerophon (`bellerophon_sound`), and for an
invalid-marked answer the slow path with Bellerophon's two-sided estimate (`slowDomain_bell_exact`) -/
theorem numberToFloat_compact_exact {F : FTy} (hF : IsLemireFloat F) (c : Cfg) (hcompact : c.feats.compact = true)
    (hr : c.mantissaRadix = 10) (hb : c.exponentBase = 10)
    (n : Number) (hmany : n.manyDigits = false) (hx : NumberExactAt c n) (hs : PlainSlices c n)
    (hfew : (sigBytes n.integer n.fraction).length ≤ 19) :
    numberToFloat slowModel c F n false = some (litBits F.fmt c.mantissaRadix c.exponentBase (numberLit c n)) := by
  obtain ⟨p, eb, lay⟩ := layout_of hF
  have hmp := moderatePath_compact c hcompact hr F (numOf n)
  cases hbel : Bellerophon.bellerophon F compactP (numOf n) false with
  | panic => exact absurd hbel (C01.bellerophon_no_panic F (numOf n) false)
  | ok fp =>
    have hx' := hx
    obtain ⟨hw, hq, hre⟩ := hx'
    apply numberToFloat_slowModel hF lay (hden_of hF) c (by omega) (by omega) (by omega) n hmany hre
      (fastContract_decimal hF c hr n)
    · refine ⟨fp, by rw [hmp, hbel], fun hv => ?_, fun hinv => ?_⟩
      · rw [hb]; exact C01.bellerophon_sound_untruncated F hF (numOf n) hmany hw hbel hv
      · obtain ⟨d, _, hbr⟩ := slowDomain_bell_exact hF lay c hr hb n hmany hx hs hfew fp hbel hinv
        have hcg := roundNE_congr' lay.wf (powFrac_den_pos (by omega) _ _)
          (litFrac_den_pos (by omega) (by omega) _) hre
        rw [hr, hb] at hcg
        unfold C01.Bracket at hbr ⊢
        rw [hb, hcg]
        exact hbr
    · intro fp' hm hneg
      rw [hmp, hbel] at hm
      injection hm with hm
      subst hm
      obtain ⟨d, D, _⟩ := slowDomain_bell_exact hF lay c hr hb n hmany hx hs hfew fp hbel hneg
      exact ⟨d, D⟩

open LexVerif.Props.C01Compact in
/-- a truncated decimal `Number` in a `compact` build -/
theorem numberToFloat_compact_truncated {F : FTy} (hF : IsLemireFloat F) (c : Cfg)
    (hcompact : c.feats.compact = true) (hr : c.mantissaRadix = 10) (hb : c.exponentBase = 10)
    (n : Number) (hmany : n.manyDigits = true) (hs : PlainSlices c n)
    (hN : 19 < (sigBytes n.integer n.fraction).length)
    (hw : n.mantissa = ofDigits 10 (dv 10 ((sigBytes n.integer n.fraction).take 19)))
    (hw1 : 10 ^ 18 ≤ n.mantissa) (hwlt : n.mantissa < 10 ^ 19)
    (hq : n.exponent = ((sigBytes n.integer n.fraction).length : Int) - 19 + n.explicitExp -
      ((n.fraction.getD []).length : Int)) :
    numberToFloat slowModel c F n false = some (numberBits c F.fmt n) := by
  obtain ⟨p, eb, lay⟩ := layout_of hF
  have hmp := moderatePath_compact c hcompact hr F (numOf n)
  have hw64 : n.mantissa < 2 ^ 64 := by
    have : (10 : Nat) ^ 19 < 2 ^ 64 := by decide
    omega
  -- the specification side
  have hbits : numberBits c F.fmt n = litBits F.fmt 10 10 (numberLit c n) := by
    unfold numberBits numberLit
    simp only [hmany, if_true, hr, hb]
    rfl
  have hlit := litBits_exact lay (r := 10) (b := 10) (by decide) (by decide) (by decide) (numberLit c n)
    (by have := numberLit_digits_lt c n; rwa [hr] at this)
  have hfast : FastPath.tryFastPath (smallSetOf c.feats) F c.mantissaRadix c.exponentBase (numOf n) = .none := by
    unfold FastPath.tryFastPath FastPath.isFastPath
    rw [hr, hb]
    simp only [ne_eq, not_true_eq_false, if_false]
    have : (numOf n).manyDigits = true := hmany
    simp [this]
  cases hbel : Bellerophon.bellerophon F compactP (numOf n) false with
  | panic => exact absurd hbel (C01.bellerophon_no_panic F (numOf n) false)
  | ok fp =>
    unfold numberToFloat
    rw [hfast]
    simp only
    rw [hmp, hbel]
    simp only
    by_cases hv : 0 ≤ fp.exp
    · have htv := litFrac_tv_truncated c hr n hmany hs hN hw hq
      have hsound := C01.bellerophon_sound F hF (numOf n) hw64 (fun _ => by
        have : (2 : Nat) ^ 44 ≤ 10 ^ 18 := by decide
        exact Nat.le_trans this hw1) _ _ (litFrac_den_pos (by decide) (by decide) _) htv hbel hv
      rw [if_neg (by omega), toNative_eq F fp n.isNegative hsound, hbits, hlit]
      rfl
    · have hinv : fp.exp < 0 := by omega
      obtain ⟨d, D, hbr⟩ := slowDomain_bell_truncated hF lay c hr hb n hmany hs hN hw hw1 hwlt hq fp hbel hinv
      have hslow := slowModel_hslow hF lay (hden_of hF) (by omega) n fp D (by rw [hr, hb]; exact hbr)
      rw [hr, hb] at hslow
      rw [if_pos hinv, slowPath_generic slowModel c D.env, toNative_eq F _ n.isNegative hslow, hbits, hlit]
      rfl

/-- **`C01_decimal_correct_compact`** — the decimal theorem for `compact` builds: every input, any number of digits, no
residual hypothesis; the moderate path is Bellerophon -/
theorem C01_decimal_correct_compact (feats : Features) (hcompact : feats.compact = true) (fmt : Format)
    (hr : fmt.mantissaRadix = 10) (hb : fmt.exponentBase = 10)
    (hclass : feats.format = false ∨ C12.SepPrefixFree fmt)
    (o : POpts) {F : FTy} (hF : IsLemireFloat F) (isPartial : Bool) (s : List Nat)
    (h256 : ∀ x ∈ s, x < 256) (hlen : s.length < 2 ^ 60) :
    parseFloatAlgoModel slowModel feats fmt o isPartial F s = parseFloatModel feats fmt o isPartial F.fmt s := by
  apply parseFloatAlgoModel_eq_valid
  intro hval n cnt hp
  have hdp := dp_not_digit feats fmt o (by omega) hval
  cases hmany : n.manyDigits with
  | false =>
    obtain ⟨hx, hs, hfew19⟩ := C01Number.number_exact_of_syntax ⟨feats, fmt, false⟩ rfl hclass hr hb o hdp isPartial s _
      h256 hlen n cnt hp hmany
    rw [numberToFloat_compact_exact hF ⟨feats, fmt, false⟩ hcompact hr hb n hmany hx hs hfew19]
    have hr' : (⟨feats, fmt, false⟩ : Cfg).mantissaRadix = 10 := hr
    have hb' : (⟨feats, fmt, false⟩ : Cfg).exponentBase = 10 := hb
    rw [(spec_forms hF ⟨feats, fmt, false⟩ (by omega) (by omega) (by omega) n hmany hx.2.2).2]
  | true =>
    obtain ⟨hs, hN, hw, hw1, hwlt, hq, _, _, _, _⟩ := C01Number.number_truncated_of_syntax ⟨feats, fmt, false⟩ rfl
      hclass hr hb o hdp isPartial s _ h256 hlen n cnt hp hmany
    exact numberToFloat_compact_truncated hF ⟨feats, fmt, false⟩ hcompact hr hb n hmany hs hN hw hw1 hwlt hq

/-- **the full statement** (kept as a `Prop`, and proved: `C01_decimal_full_proved`): decimal string→float is correctly
rounded for **every** build (`compact` or not, any other feature), every separator-free format class of C12, `f32`/`f64`,
complete and partial parser, every input shorter than `2^60` bytes -/
def C01_decimal_full : Prop :=
  ∀ (feats : Features) (fmt : Format), fmt.mantissaRadix = 10 → fmt.exponentBase = 10 →
    (feats.format = false ∨ C12.SepPrefixFree fmt) →
    ∀ (o : POpts) (F : FTy), IsLemireFloat F → ∀ (isPartial : Bool) (s : List Nat),
      (∀ x ∈ s, x < 256) → s.length < 2 ^ 60 →
      parseFloatAlgoModel slowModel feats fmt o isPartial F s = parseFloatModel feats fmt o isPartial F.fmt s

/-- **`C01_decimal_full` holds**: Eisel–Lemire builds by `C01_decimal_correct_slow`, `compact` builds by
`C01_decimal_correct_compact` -/
theorem C01_decimal_full_proved : C01_decimal_full := by
  intro feats fmt hr hb hclass o F hF isPartial s h256 hlen
  cases hc : feats.compact with
  | false => exact C01_decimal_correct_slow feats hc fmt hr hb hclass o hF isPartial s h256 hlen
  | true => exact C01_decimal_correct_compact feats hc fmt hr hb hclass o hF isPartial s h256 hlen

/-- non-vacuity for a `compact` build -/
example (s : List Nat) (h256 : ∀ x ∈ s, x < 256) (hlen : s.length < 2 ^ 60) :
    parseFloatAlgoModel slowModel { compact := true } Format.standard {} false FTy.f32 s =
      parseFloatModel { compact := true } Format.standard {} false f32 s :=
  C01_decimal_full_proved { compact := true } Format.standard rfl rfl (Or.inl rfl) {} FTy.f32 (Or.inr rfl) false s h256 hlen

end LexVerif.Props.C01Final
