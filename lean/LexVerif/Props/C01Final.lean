import LexVerif.Props.C01SlowDomain
/-!
# Props.C01Final — C01 with Eisel–Lemire proved and the slow path modelled

`Props.C01Main.C01_main` had three named hypotheses. Here
* `lemire_sound` is **discharged** (`Props.C01.lemire_sound_proved`: every exponent, every mantissa; valid answers are
  `roundNE`, invalid-marked ones bracket the value);
* the abstract `slow : SlowRadix` with `SlowPathCorrect slow` is **replaced by the model of the real code**
  (`Props.C01SlowMain.slowModel`, proved in `Props.C01Slow` on its domain `SlowDomain`); what Eisel–Lemire hands to it is
  characterised by `lemire_estimate_facts` (normalised mantissa, un-biased exponent within `±4096`, the bracket);
* `NumberExact` remains (the syntax layer; C11/C12 territory).

`numberToFloat_final` / `C01_main_slow`: for every untruncated decimal input of a non-`compact` build,
`parseFloatAlgoModel slowModel = parseFloatModel` (i.e. `Spec.litBits` of the digit content), provided the estimates
Eisel–Lemire can return for the input lie in `SlowDomain` (input-dependent capacity / range side conditions of the
big-integer model; vacuous whenever `compute_float` decides).
-/
namespace LexVerif.Props.C01Final
open LexVerif.Spec LexVerif.Model LexVerif.Model.ParseFloatAlgo
open LexVerif.Proof.RoundNE LexVerif.Proof.ExtRound LexVerif.Proof.Pipeline
open LexVerif.Props.C01 (IsLemireFloat IsI64 Bracket)
open LexVerif.Props.C01Main LexVerif.Props.C01SlowMain LexVerif.Props.C01SlowDomain LexVerif.Proof.Slow

theorem hden_of {F : FTy} (hF : IsLemireFloat F) : F.C.denormalExponent = 1 - F.C.exponentBias := by
  rcases hF with h | h <;> subst h <;> decide

/-- the moderate-path contract of the non-`compact` decimal builds — **unconditional** -/
theorem moderateContract_lemire_proved {F : FTy} (hF : IsLemireFloat F) (c : Cfg)
    (hcompact : c.feats.compact = false) (hr : c.mantissaRadix = 10) (hb : c.exponentBase = 10)
    (n : Number) (hmany : n.manyDigits = false) (hw : n.mantissa < 2 ^ 64) (hq : IsI64 n.exponent) :
    ModerateContract c F n :=
  moderateContract_lemire C01.lemire_sound_proved hF c hcompact hr hb n hmany hw hq

/-- **C01 for one `Number`, slow path modelled, Eisel–Lemire proved**: an exact untruncated `Number` is converted to
`litBits` of its digit content, provided every estimate `compute_float` can hand over for it — normalised, exponent
within `±4096`, bracketing the value — lies in the domain of the slow-path model. -/
theorem numberToFloat_final {F : FTy} (hF : IsLemireFloat F) (c : Cfg) (hcompact : c.feats.compact = false)
    (hr : c.mantissaRadix = 10) (hb : c.exponentBase = 10)
    (n : Number) (hmany : n.manyDigits = false) (hx : NumberExactAt c n)
    (hdom : ∀ fp, Lemire.computeFloat F n.exponent n.mantissa false = .ok fp → fp.exp < 0 →
      2 ^ 63 ≤ fp.mant → fp.mant < 2 ^ 64 → -(4096 : Int) ≤ fp.exp - invalidFp → fp.exp - invalidFp ≤ 4096 →
      ∀ {p eb : Nat}, Layout F p eb → ∃ d, SlowDomain c F p n { fp with exp := fp.exp - invalidFp } d) :
    numberToFloat slowModel c F n false = some (litBits F.fmt c.mantissaRadix c.exponentBase (numberLit c n)) := by
  obtain ⟨hw, hq, hre⟩ := hx
  obtain ⟨p, eb, lay⟩ := layout_of hF
  apply numberToFloat_slowModel hF lay (hden_of hF) c (by omega) (by omega) (by omega) n hmany hre
    (fastContract_decimal hF c hr n) (moderateContract_lemire_proved hF c hcompact hr hb n hmany hw hq)
  intro fp hm hneg
  have hcf : Lemire.computeFloat F n.exponent n.mantissa false = .ok fp := by
    unfold moderatePath at hm
    rw [hr, backend_lemire _ hcompact] at hm
    simp only [] at hm
    rw [lemire_untruncated F (numOf n) hmany] at hm
    exact hm
  obtain ⟨f1, f2, f3, f4, _⟩ := C01.lemire_estimate_facts F hF n.exponent n.mantissa fp hw hcf hneg
  exact hdom fp hcf hneg f1 f2 f3 f4 lay

/-- **`C01_main_slow`** — API level: `NumberExact` is the only named hypothesis left; the slow path is the model. -/
theorem C01_main_slow (hN : NumberExact) (feats : Features) (hcompact : feats.compact = false) (fmt : Format)
    (hr : fmt.mantissaRadix = 10) (hb : fmt.exponentBase = 10)
    (hclass : feats.format = false ∨ C12.SepPrefixFree fmt)
    (o : POpts) {F : FTy} (hF : IsLemireFloat F) (isPartial : Bool) (s : List Nat)
    (hfew : ∀ n cnt, parseFloatSyntax ⟨feats, fmt, false⟩ o isPartial s (formatError feats fmt).isNone =
      .ok (.number n cnt) → n.manyDigits = false)
    (hdom : ∀ n cnt, parseFloatSyntax ⟨feats, fmt, false⟩ o isPartial s (formatError feats fmt).isNone =
      .ok (.number n cnt) → ∀ fp, Lemire.computeFloat F n.exponent n.mantissa false = .ok fp → fp.exp < 0 →
      2 ^ 63 ≤ fp.mant → fp.mant < 2 ^ 64 → -(4096 : Int) ≤ fp.exp - invalidFp → fp.exp - invalidFp ≤ 4096 →
      ∀ {p eb : Nat}, Layout F p eb →
        ∃ d, SlowDomain ⟨feats, fmt, false⟩ F p n { fp with exp := fp.exp - invalidFp } d) :
    parseFloatAlgoModel slowModel feats fmt o isPartial F s = parseFloatModel feats fmt o isPartial F.fmt s := by
  apply parseFloatAlgoModel_eq
  intro n cnt hp
  have hmany := hfew n cnt hp
  have hx := hN ⟨feats, fmt, false⟩ o isPartial s _ n cnt rfl hclass hr hb hp hmany
  rw [numberToFloat_final hF ⟨feats, fmt, false⟩ hcompact hr hb n hmany hx (hdom n cnt hp)]
  have hr' : (⟨feats, fmt, false⟩ : Cfg).mantissaRadix = 10 := hr
  have hb' : (⟨feats, fmt, false⟩ : Cfg).exponentBase = 10 := hb
  rw [(spec_forms hF ⟨feats, fmt, false⟩ (by omega) (by omega) (by omega) n hmany hx.2.2).2]

/-- the inputs Eisel–Lemire decides need no slow path at all: `NumberExact` alone -/
theorem C01_main_decided (hN : NumberExact) (feats : Features) (hcompact : feats.compact = false) (fmt : Format)
    (hr : fmt.mantissaRadix = 10) (hb : fmt.exponentBase = 10)
    (hclass : feats.format = false ∨ C12.SepPrefixFree fmt)
    (o : POpts) {F : FTy} (hF : IsLemireFloat F) (isPartial : Bool) (s : List Nat) (slow : SlowRadix)
    (hfew : ∀ n cnt, parseFloatSyntax ⟨feats, fmt, false⟩ o isPartial s (formatError feats fmt).isNone =
      .ok (.number n cnt) → n.manyDigits = false)
    (hdec : ∀ n cnt, parseFloatSyntax ⟨feats, fmt, false⟩ o isPartial s (formatError feats fmt).isNone =
      .ok (.number n cnt) → ∀ fp, Lemire.computeFloat F n.exponent n.mantissa false = .ok fp → 0 ≤ fp.exp) :
    parseFloatAlgoModel slow feats fmt o isPartial F s = parseFloatModel feats fmt o isPartial F.fmt s := by
  apply parseFloatAlgoModel_eq
  intro n cnt hp
  have hmany := hfew n cnt hp
  have hx := hN ⟨feats, fmt, false⟩ o isPartial s _ n cnt rfl hclass hr hb hp hmany
  obtain ⟨hw, hq, hre⟩ := hx
  have hr' : (⟨feats, fmt, false⟩ : Cfg).mantissaRadix = 10 := hr
  have hb' : (⟨feats, fmt, false⟩ : Cfg).exponentBase = 10 := hb
  obtain ⟨fp, hm, hvalid, _⟩ := moderateContract_lemire_proved hF ⟨feats, fmt, false⟩ hcompact hr hb n hmany hw hq
  have hcf : Lemire.computeFloat F n.exponent n.mantissa false = .ok fp := by
    unfold moderatePath at hm
    rw [hr', backend_lemire _ hcompact] at hm
    simp only [] at hm
    rw [lemire_untruncated F (numOf n) hmany] at hm
    exact hm
  have hv := hdec n cnt hp fp hcf
  rw [numberToFloat_decided slow hF ⟨feats, fmt, false⟩ (by omega) (by omega) (by omega) n hmany hre
    (fastContract_decimal hF ⟨feats, fmt, false⟩ hr n) hm hv (hvalid hv)]
  rw [(spec_forms hF ⟨feats, fmt, false⟩ (by omega) (by omega) (by omega) n hmany hre).2]

/-! ## the `SlowDomain` conditions discharged (`Props.C01SlowDomain.slowDomain_of_exact`) -/

/-- **C01 for one untruncated decimal `Number`, no condition on the estimate left**: exact `mantissa`/`exponent` words
(`NumberExactAt`), plain digit slices (`PlainSlices`) and at most 19 significant digits — then the pipeline with the
modelled slow path returns `litBits` of the digit content. Everything about Eisel–Lemire's estimate (normalisation,
exponent range, bracket, finiteness of its round-down, both capacity guards of the big-integer code) is derived. -/
theorem numberToFloat_exact {F : FTy} (hF : IsLemireFloat F) (c : Cfg) (hcompact : c.feats.compact = false)
    (hr : c.mantissaRadix = 10) (hb : c.exponentBase = 10)
    (n : Number) (hmany : n.manyDigits = false) (hx : NumberExactAt c n) (hs : PlainSlices c n)
    (hfew : (sigBytes n.integer n.fraction).length ≤ 19) :
    numberToFloat slowModel c F n false = some (litBits F.fmt c.mantissaRadix c.exponentBase (numberLit c n)) := by
  apply numberToFloat_final hF c hcompact hr hb n hmany hx
  intro fp hcf hinv _ _ _ _ p eb lay
  exact slowDomain_of_exact hF lay c hr hb n hx hs hfew fp hcf hinv

end LexVerif.Props.C01Final
