import LexVerif.Props.C01Number
/-!
# Props.C01Final — C01 with Eisel–Lemire proved and the slow path modelled

`Props.C01Main.C01_main` had three named hypotheses. Here
* `lemire_sound` is **discharged** (`Props.C01.lemire_sound_proved`: every exponent, every mantissa; valid answers are
  `roundNE`, invalid-marked ones bracket the value);
* the abstract `slow : SlowRadix` with `SlowPathCorrect slow` is **replaced by the model of the real code**
  (`Props.C01SlowMain.slowModel`, proved in `Props.C01Slow` on its domain `SlowDomain`); what Eisel–Lemire hands to it is
  characterised by `lemire_estimate_facts` (normalised mantissa, un-biased exponent within `±4096`, the bracket);
* `NumberExact` remains (the syntax layer; C11/C12 territory).

`numberToFloat_final` / `C01_main_slow`: for every untruncated decimal input of a non-`compact` build,
`parseFloatAlgoModel slowModel = parseFloatModel` (i.e. `Spec.litBits` of the digit content), provided the estimates
Eisel–Lemire can return for the input lie in `SlowDomain` (input-dependent capacity / range side conditions of the
big-integer model; vacuous whenever `compute_float` decides).
-/
namespace LexVerif.Props.C01Final
open LexVerif.Spec LexVerif.Model LexVerif.Model.ParseFloatAlgo
open LexVerif.Proof.RoundNE LexVerif.Proof.ExtRound LexVerif.Proof.Pipeline
open LexVerif.Props.C01 (IsLemireFloat IsI64 Bracket)
open LexVerif.Props.C01Main LexVerif.Props.C01SlowMain LexVerif.Props.C01SlowDomain LexVerif.Proof.Slow

theorem hden_of {F : FTy} (hF : IsLemireFloat F) : F.C.denormalExponent = 1 - F.C.exponentBias := by
  rcases hF with h | h <;> subst h <;> decide

/-- the moderate-path contract of the non-`compact` decimal builds — **unconditional** -/
theorem moderateContract_lemire_proved {F : FTy} (hF : IsLemireFloat F) (c : Cfg)
    (hcompact : c.feats.compact = false) (hr : c.mantissaRadix = 10) (hb : c.exponentBase = 10)
    (n : Number) (hmany : n.manyDigits = false) (hw : n.mantissa < 2 ^ 64) (hq : IsI64 n.exponent) :
    ModerateContract c F n :=
  moderateContract_lemire C01.lemire_sound_proved hF c hcompact hr hb n hmany hw hq

/-- **C01 for one `Number`, slow path modelled, Eisel–Lemire proved**: an exact untruncated `Number` is converted to
`litBits` of its digit content, provided every estimate `compute_float` can hand over for it — normalised, exponent
within `±4096`, bracketing the value — lies in the domain of the slow-path model. -/
theorem numberToFloat_final {F : FTy} (hF : IsLemireFloat F) (c : Cfg) (hcompact : c.feats.compact = false)
    (hr : c.mantissaRadix = 10) (hb : c.exponentBase = 10)
    (n : Number) (hmany : n.manyDigits = false) (hx : NumberExactAt c n)
    (hdom : ∀ fp, Lemire.computeFloat F n.exponent n.mantissa false = .ok fp → fp.exp < 0 →
      2 ^ 63 ≤ fp.mant → fp.mant < 2 ^ 64 → -(4096 : Int) ≤ fp.exp - invalidFp → fp.exp - invalidFp ≤ 4096 →
      ∀ {p eb : Nat}, Layout F p eb → ∃ d, SlowDomain c F p n { fp with exp := fp.exp - invalidFp } d) :
    numberToFloat slowModel c F n false = some (litBits F.fmt c.mantissaRadix c.exponentBase (numberLit c n)) := by
  obtain ⟨hw, hq, hre⟩ := hx
  obtain ⟨p, eb, lay⟩ := layout_of hF
  apply numberToFloat_slowModel hF lay (hden_of hF) c (by omega) (by omega) (by omega) n hmany hre
    (fastContract_decimal hF c hr n) (moderateContract_lemire_proved hF c hcompact hr hb n hmany hw hq)
  intro fp hm hneg
  have hcf : Lemire.computeFloat F n.exponent n.mantissa false = .ok fp := by
    unfold moderatePath at hm
    rw [hr, backend_lemire _ hcompact] at hm
    simp only [] at hm
    rw [lemire_untruncated F (numOf n) hmany] at hm
    exact hm
  obtain ⟨f1, f2, f3, f4, _⟩ := C01.lemire_estimate_facts F hF n.exponent n.mantissa fp hw hcf hneg
  exact hdom fp hcf hneg f1 f2 f3 f4 lay

/-- **`C01_main_slow`** — API level: `NumberExact` is the only named hypothesis left; the slow path is the model. -/
theorem C01_main_slow (hN : NumberExact) (feats : Features) (hcompact : feats.compact = false) (fmt : Format)
    (hr : fmt.mantissaRadix = 10) (hb : fmt.exponentBase = 10)
    (hclass : feats.format = false ∨ C12.SepPrefixFree fmt)
    (o : POpts) {F : FTy} (hF : IsLemireFloat F) (isPartial : Bool) (s : List Nat)
    (hfew : ∀ n cnt, parseFloatSyntax ⟨feats, fmt, false⟩ o isPartial s (formatError feats fmt).isNone =
      .ok (.number n cnt) → n.manyDigits = false)
    (hdom : ∀ n cnt, parseFloatSyntax ⟨feats, fmt, false⟩ o isPartial s (formatError feats fmt).isNone =
      .ok (.number n cnt) → ∀ fp, Lemire.computeFloat F n.exponent n.mantissa false = .ok fp → fp.exp < 0 →
      2 ^ 63 ≤ fp.mant → fp.mant < 2 ^ 64 → -(4096 : Int) ≤ fp.exp - invalidFp → fp.exp - invalidFp ≤ 4096 →
      ∀ {p eb : Nat}, Layout F p eb →
        ∃ d, SlowDomain ⟨feats, fmt, false⟩ F p n { fp with exp := fp.exp - invalidFp } d) :
    parseFloatAlgoModel slowModel feats fmt o isPartial F s = parseFloatModel feats fmt o isPartial F.fmt s := by
  apply parseFloatAlgoModel_eq
  intro n cnt hp
  have hmany := hfew n cnt hp
  have hx := hN ⟨feats, fmt, false⟩ o isPartial s _ n cnt rfl hclass hr hb hp hmany
  rw [numberToFloat_final hF ⟨feats, fmt, false⟩ hcompact hr hb n hmany hx (hdom n cnt hp)]
  have hr' : (⟨feats, fmt, false⟩ : Cfg).mantissaRadix = 10 := hr
  have hb' : (⟨feats, fmt, false⟩ : Cfg).exponentBase = 10 := hb
  rw [(spec_forms hF ⟨feats, fmt, false⟩ (by omega) (by omega) (by omega) n hmany hx.2.2).2]

/-- the inputs Eisel–Lemire decides need no slow path at all: `NumberExact` alone -/
theorem C01_main_decided (hN : NumberExact) (feats : Features) (hcompact : feats.compact = false) (fmt : Format)
    (hr : fmt.mantissaRadix = 10) (hb : fmt.exponentBase = 10)
    (hclass : feats.format = false ∨ C12.SepPrefixFree fmt)
    (o : POpts) {F : FTy} (hF : IsLemireFloat F) (isPartial : Bool) (s : List Nat) (slow : SlowRadix)
    (hfew : ∀ n cnt, parseFloatSyntax ⟨feats, fmt, false⟩ o isPartial s (formatError feats fmt).isNone =
      .ok (.number n cnt) → n.manyDigits = false)
    (hdec : ∀ n cnt, parseFloatSyntax ⟨feats, fmt, false⟩ o isPartial s (formatError feats fmt).isNone =
      .ok (.number n cnt) → ∀ fp, Lemire.computeFloat F n.exponent n.mantissa false = .ok fp → 0 ≤ fp.exp) :
    parseFloatAlgoModel slow feats fmt o isPartial F s = parseFloatModel feats fmt o isPartial F.fmt s := by
  apply parseFloatAlgoModel_eq
  intro n cnt hp
  have hmany := hfew n cnt hp
  have hx := hN ⟨feats, fmt, false⟩ o isPartial s _ n cnt rfl hclass hr hb hp hmany
  obtain ⟨hw, hq, hre⟩ := hx
  have hr' : (⟨feats, fmt, false⟩ : Cfg).mantissaRadix = 10 := hr
  have hb' : (⟨feats, fmt, false⟩ : Cfg).exponentBase = 10 := hb
  obtain ⟨fp, hm, hvalid, _⟩ := moderateContract_lemire_proved hF ⟨feats, fmt, false⟩ hcompact hr hb n hmany hw hq
  have hcf : Lemire.computeFloat F n.exponent n.mantissa false = .ok fp := by
    unfold moderatePath at hm
    rw [hr', backend_lemire _ hcompact] at hm
    simp only [] at hm
    rw [lemire_untruncated F (numOf n) hmany] at hm
    exact hm
  have hv := hdec n cnt hp fp hcf
  rw [numberToFloat_decided slow hF ⟨feats, fmt, false⟩ (by omega) (by omega) (by omega) n hmany hre
    (fastContract_decimal hF ⟨feats, fmt, false⟩ hr n) hm hv (hvalid hv)]
  rw [(spec_forms hF ⟨feats, fmt, false⟩ (by omega) (by omega) (by omega) n hmany hre).2]

/-! ## the `SlowDomain` conditions discharged (`Props.C01SlowDomain.slowDomain_of_exact`) -/

/-- **C01 for one untruncated decimal `Number`, no condition on the estimate left**: exact `mantissa`/`exponent` words
(`NumberExactAt`), plain digit slices (`PlainSlices`) and at most 19 significant digits — then the pipeline with the
modelled slow path returns `litBits` of the digit content. Everything about Eisel–Lemire's estimate (normalisation,
exponent range, bracket, finiteness of its round-down, both capacity guards of the big-integer code) is derived. -/
theorem numberToFloat_exact {F : FTy} (hF : IsLemireFloat F) (c : Cfg) (hcompact : c.feats.compact = false)
    (hr : c.mantissaRadix = 10) (hb : c.exponentBase = 10)
    (n : Number) (hmany : n.manyDigits = false) (hx : NumberExactAt c n) (hs : PlainSlices c n)
    (hfew : (sigBytes n.integer n.fraction).length ≤ 19) :
    numberToFloat slowModel c F n false = some (litBits F.fmt c.mantissaRadix c.exponentBase (numberLit c n)) := by
  apply numberToFloat_final hF c hcompact hr hb n hmany hx
  intro fp hcf hinv _ _ _ _ p eb lay
  exact slowDomain_of_exact hF lay c hr hb n hx hs hfew fp hcf hinv

/-! ## the decimal theorem without named hypotheses (untruncated inputs) -/

/-- a valid decimal-point option is not a decimal digit -/
theorem dp_not_digit (feats : Features) (fmt : Format) (o : POpts) (hr : 10 ≤ fmt.mantissaRadix)
    (hv : isValidOptionsPunctuation feats fmt o.exp o.dp = true) : charToDigit o.dp 10 = none := by
  unfold isValidOptionsPunctuation at hv
  split at hv
  · cases hv
  · rename_i hc
    simp only [Bool.or_eq_true, Bool.not_eq_true', not_or, Bool.not_eq_false] at hc
    have h1 := hc.1
    unfold isValidControl isValidOptionalControl at h1
    simp only [Bool.and_eq_true, decide_eq_true_eq, Option.isNone_iff_eq_none, Bool.or_eq_true] at h1
    obtain ⟨hne0, ⟨⟨hnone, _⟩, _⟩, hasc⟩ := h1
    have hlt : o.dp < 256 := by
      rcases hasc with h | h
      · unfold isValidAscii at h
        simp only [Bool.or_eq_true, Bool.and_eq_true, decide_eq_true_eq] at h
        omega
      · omega
    generalize hR : (if fmt.mantissaRadix > fmt.exponentRadix then fmt.mantissaRadix else fmt.exponentRadix) = R at hnone
    have hR10 : 10 ≤ R := by rw [← hR]; split <;> omega
    unfold charToDigit charToValidDigit at hnone ⊢
    dsimp only at hnone ⊢
    rw [if_pos (Nat.le_refl 10)]
    split
    · rename_i hd
      exfalso
      split at hnone
      · rename_i hR'
        rw [if_pos (by omega)] at hnone
        cases hnone
      · rename_i hR'
        have hdig : 48 ≤ o.dp ∧ o.dp ≤ 57 := by omega
        rw [if_pos hdig] at hnone
        rw [if_pos (by omega)] at hnone
        cases hnone
    · rfl

/-- `parseFloatAlgoModel_eq` with the option validation available to the per-`Number` obligation -/
theorem parseFloatAlgoModel_eq_valid (slow : SlowRadix) (feats : Features) (fmt : Format) (o : POpts) (isPartial : Bool)
    (F : FTy) (s : List Nat)
    (h : isValidOptionsPunctuation feats fmt o.exp o.dp = true → ∀ n cnt,
      parseFloatSyntax ⟨feats, fmt, false⟩ o isPartial s (formatError feats fmt).isNone = .ok (.number n cnt) →
      numberToFloat slow ⟨feats, fmt, false⟩ F n false = some (numberBits ⟨feats, fmt, false⟩ F.fmt n)) :
    parseFloatAlgoModel slow feats fmt o isPartial F s = parseFloatModel feats fmt o isPartial F.fmt s := by
  unfold parseFloatAlgoModel parseFloatModel
  cases optionsError o with
  | some e => rfl
  | none =>
    simp only []
    split
    · rfl
    · split
      · rfl
      · rename_i hval
        split
        · rfl
        · cases hp : parseFloatSyntax ⟨feats, fmt, false⟩ o isPartial s (formatError feats fmt).isNone with
          | error e => rfl
          | ok q =>
            simp only []
            cases q with
            | zero k => rfl
            | special sp neg k => cases sp <;> rfl
            | number n cnt =>
              unfold renderParsedAlgo renderParsed
              simp only []
              rw [h (by simpa using hval) n cnt hp]

/-- **`C01_decimal_correct`** — decimal string→float is correctly rounded, API level, pipeline with the **modelled** slow
path, Eisel–Lemire **proved**, the syntax layer's `Number` **proved** exact: for every non-`compact` build, every decimal
format without digit separator and base prefix (every format when the `format` feature is off), all options, complete
and partial parser, float type `f32`/`f64`, and every input of bytes (shorter than `2^60`) whose `Number` is untruncated
(`many_digits = false`, i.e. at most 19 significant digits),
`parseFloatAlgoModel slowModel` — syntax → `try_fast_path` → `lemire` → `slow_radix` → `to_native` — prints exactly what
the specification model prints: `Spec.litBits` of the digit content (the nearest float, ties to even, overflow to
infinity, gradual underflow), the same count, the same errors. **No named hypothesis is left**; the only restriction on the
input is `hfew`. -/
theorem C01_decimal_correct (feats : Features) (hcompact : feats.compact = false) (fmt : Format)
    (hr : fmt.mantissaRadix = 10) (hb : fmt.exponentBase = 10)
    (hclass : feats.format = false ∨ C12.SepPrefixFree fmt)
    (o : POpts) {F : FTy} (hF : IsLemireFloat F) (isPartial : Bool) (s : List Nat)
    (h256 : ∀ x ∈ s, x < 256) (hlen : s.length < 2 ^ 60)
    (hfew : ∀ n cnt, parseFloatSyntax ⟨feats, fmt, false⟩ o isPartial s (formatError feats fmt).isNone =
      .ok (.number n cnt) → n.manyDigits = false) :
    parseFloatAlgoModel slowModel feats fmt o isPartial F s = parseFloatModel feats fmt o isPartial F.fmt s := by
  apply parseFloatAlgoModel_eq_valid
  intro hval n cnt hp
  have hmany := hfew n cnt hp
  have hdp := dp_not_digit feats fmt o (by omega) hval
  obtain ⟨hx, hs, hfew19⟩ := C01Number.number_exact_of_syntax ⟨feats, fmt, false⟩ rfl hclass hr hb o hdp isPartial s _
    h256 hlen n cnt hp hmany
  rw [numberToFloat_exact hF ⟨feats, fmt, false⟩ hcompact hr hb n hmany hx hs hfew19]
  have hr' : (⟨feats, fmt, false⟩ : Cfg).mantissaRadix = 10 := hr
  have hb' : (⟨feats, fmt, false⟩ : Cfg).exponentBase = 10 := hb
  rw [(spec_forms hF ⟨feats, fmt, false⟩ (by omega) (by omega) (by omega) n hmany hx.2.2).2]

/-- **full statement** (a `Prop`): the same for **every** input, truncated mantissas (more than 19 significant digits)
included, and for `compact` builds. Missing for it: the `many_digits = true` case — the two-pass wrapper of `lemire` is
proved (`lemire_wrapper_all`), but its invalid-marked estimates (`compute_error`) are not yet characterised, the
`Number`'s truncated `mantissa`/`exponent` words are not yet related to the digit slices (`SlowDomain.value`), and
`Props.C01Slow.truncation_invariant` (non-zero cut tail beyond `max_digits`) is open; `compact`: the Bellerophon analogue
of `lemire_estimate_facts`. -/
def C01_decimal_full : Prop :=
  ∀ (feats : Features) (fmt : Format), fmt.mantissaRadix = 10 → fmt.exponentBase = 10 →
    (feats.format = false ∨ C12.SepPrefixFree fmt) →
    ∀ (o : POpts) (F : FTy), IsLemireFloat F → ∀ (isPartial : Bool) (s : List Nat),
      (∀ x ∈ s, x < 256) → s.length < 2 ^ 60 →
      parseFloatAlgoModel slowModel feats fmt o isPartial F s = parseFloatModel feats fmt o isPartial F.fmt s

end LexVerif.Props.C01Final
