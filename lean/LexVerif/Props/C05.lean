import LexVerif.Spec.Decimal
import LexVerif.Props.TablesParse
import LexVerif.Proof.FastPathExact
import LexVerif.Proof.BinaryCorrect
import LexVerif.Proof.SlowBinaryDigits
import LexVerif.Proof.BellSound
/-!
# C05 — non-decimal radix string→float parsing is correctly rounded (property theorems)

Oracle: `Spec.litBits` with mantissa radix `r` and exponent base `b`. Table theorems for all 35 radices
are in `Props/TablesParse.lean`.

Algorithm level (models `Model.FastPath`, `Model.Binary`; tie: component ops `fp`, `bin`, `sbin`):

* `fastPath_exact_radix` — **complete**, all 35 radices, both float types, `radix` and `compact` builds;
* `binary_correct` — **complete** for the model's `binary` (power-of-two radices and mixed bases), without
  exclusions since /repo commit 6cdda4d (before it the invalid marker `power2 + INVALID_FP` was not negative
  once `power2 ≥ 32768`: radix 2, `1` `0`×52 `1` `0`×10 `1` `e` `1001110001000000` (= 40000) parsed to
  `0x8740000000000400` instead of `+∞`; `binary_marker_overflow` keeps the input as a regression example);
* `binary_decides` — without `many_digits` (or with `lossy`) `binary` always returns a valid float;
* `binary_truncated_correct` — **complete**: a *valid* non-lossy answer for a truncated mantissa is `roundNE x`
  for every `x ∈ [M, M+1)·base^e` (the true value of the literal);
* `bellerophon_radix_sound` — **complete** on the model: a valid answer of Bellerophon is `roundNE` of the true
  value, all 29 generic radices, `radix` and `compact` tables, truncated mantissas included;
* `slowBinary_correct` — **complete**: the undecided case: both digit loops, leading-zero skipping, the
  `u64_step` cut, the sticky flag and the rounding of `slow_binary`.
-/
namespace LexVerif.Props.C05
open LexVerif.Spec LexVerif.Model LexVerif.Proof.Tables
open LexVerif.Proof.RoundNE LexVerif.Proof.ExtRound LexVerif.Proof.FastPathExact LexVerif.Proof.BinaryCorrect
open LexVerif.Proof.SlowBinary
open LexVerif.Props.TablesParse

/-- the oracle's result never depends on the exponent once the mantissa digits are all zero -/
theorem litBits_zero_any_radix (f : Fmt) (r b : Nat) (l : FloatLit)
    (h : ofDigits r (l.intDigits ++ l.fracDigits) = 0) :
    litBits f r b l = if l.neg then f.signBit else 0 := by
  unfold litBits; simp [h]

/-! ## fast path, every radix -/

def IsRadixSet (S : SmallSet) : Prop := S = SmallSet.Radix ∨ S = SmallSet.CompactRadix

theorem fastTables_radix {S : SmallSet} (hS : IsRadixSet S) {r : Nat} (hr : r ∈ S.radices) :
    FastTables S f64 r ∧ FastTables S f32 r := by
  have lim64 : ∀ {S : SmallSet}, (∀ r ∈ S.radices, (limitsOk S f32 r && limitsOk S f64 r) = true) →
      ∀ r ∈ S.radices, limitsOk S f64 r = true := fun h r hr => by
    have := h r hr; simp only [Bool.and_eq_true] at this; exact this.2
  have lim32 : ∀ {S : SmallSet}, (∀ r ∈ S.radices, (limitsOk S f32 r && limitsOk S f64 r) = true) →
      ∀ r ∈ S.radices, limitsOk S f32 r = true := fun h r hr => by
    have := h r hr; simp only [Bool.and_eq_true] at this; exact this.1
  rcases hS with h | h <;> subst h
  · have hri : r ∈ SmallSet.Radix.intRadices := by
      have : SmallSet.Radix.intRadices = SmallSet.Radix.radices := by decide
      rw [this]; exact hr
    have hpos : 0 < r := by
      have : ∀ x ∈ SmallSet.Radix.radices, 0 < x := by decide
      exact this r hr
    have hml : SmallSet.Radix.f32MantissaLimit r ≤ SmallSet.Radix.f64MantissaLimit r := by
      have : ∀ x ∈ SmallSet.Radix.radices, SmallSet.Radix.f32MantissaLimit x ≤ SmallSet.Radix.f64MantissaLimit x := by
        decide
      exact this r hr
    exact ⟨⟨(small_f64_powers_radix r hr).2, lim64 limits_ok_radix r hr,
        fun e he => ((small_int_powers_radix r hri).2.2 e he).1, hpos, (small_f64_powers_radix r hr).1,
        (small_int_powers_radix r hri).2.1⟩,
      ⟨(small_f32_powers_radix r hr).2, lim32 limits_ok_radix r hr,
        fun e he => ((small_int_powers_radix r hri).2.2 e he).1, hpos, (small_f32_powers_radix r hr).1,
        Int.lt_of_le_of_lt hml (small_int_powers_radix r hri).2.1⟩⟩
  · have hri : r ∈ SmallSet.CompactRadix.intRadices := by
      have : SmallSet.CompactRadix.intRadices = SmallSet.CompactRadix.radices := by decide
      rw [this]; exact hr
    have hpos : 0 < r := by
      have : ∀ x ∈ SmallSet.CompactRadix.radices, 0 < x := by decide
      exact this r hr
    have hml : SmallSet.CompactRadix.f32MantissaLimit r ≤ SmallSet.CompactRadix.f64MantissaLimit r := by
      have : ∀ x ∈ SmallSet.CompactRadix.radices,
          SmallSet.CompactRadix.f32MantissaLimit x ≤ SmallSet.CompactRadix.f64MantissaLimit x := by decide
      exact this r hr
    exact ⟨⟨(small_f64_powers_compact r hr).2, lim64 limits_ok_compact r hr,
        fun e he => ((small_int_powers_compact r hri).2.2 e he).1, hpos, (small_f64_powers_compact r hr).1,
        (small_int_powers_compact r hri).2.1⟩,
      ⟨(small_f32_powers_compact r hr).2, lim32 limits_ok_compact r hr,
        fun e he => ((small_int_powers_compact r hri).2.2 e he).1, hpos, (small_f32_powers_compact r hr).1,
        Int.lt_of_le_of_lt hml (small_int_powers_compact r hri).2.1⟩⟩

/-- **`fastPath_exact`, every radix**: whenever `try_fast_path` answers `Some(v)` for a radix-`r` number
(`r ∈ 2..=36`; the answer is `None` when the exponent base differs from the mantissa radix), `v` is the
correctly rounded, signed value of `mantissa · r^exponent`. -/
theorem fastPath_exact_radix_f64 {S : SmallSet} (hS : IsRadixSet S) {r : Nat} (hr : r ∈ S.radices)
    (expBase : Nat) (n : Num) (v : Nat) (h : FastPath.tryFastPath S FTy.f64 r expBase n = .some v) :
    v = roundSigned f64 n.isNegative (powFrac r n.exponent n.mantissa).1 (powFrac r n.exponent n.mantissa).2 :=
  LexVerif.Proof.FastPathExact.fastPath_exact layout_f64 (fastTables_radix hS hr).1 expBase n v h

theorem fastPath_exact_radix_f32 {S : SmallSet} (hS : IsRadixSet S) {r : Nat} (hr : r ∈ S.radices)
    (expBase : Nat) (n : Num) (v : Nat) (h : FastPath.tryFastPath S FTy.f32 r expBase n = .some v) :
    v = roundSigned f32 n.isNegative (powFrac r n.exponent n.mantissa).1 (powFrac r n.exponent n.mantissa).2 :=
  LexVerif.Proof.FastPathExact.fastPath_exact layout_f32 (fastTables_radix hS hr).2 expBase n v h

/-- `try_fast_path` never panics, any radix -/
theorem fastPath_no_panic_radix {S : SmallSet} (hS : IsRadixSet S) {r : Nat} (hr : r ∈ S.radices) (F : FTy)
    (hF : F = FTy.f64 ∨ F = FTy.f32) (expBase : Nat) (n : Num) : FastPath.tryFastPath S F r expBase n ≠ .panic := by
  rcases hF with h | h <;> subst h
  · exact LexVerif.Proof.FastPathExact.fastPath_no_panic (fastTables_radix hS hr).1 expBase n
  · exact LexVerif.Proof.FastPathExact.fastPath_no_panic (fastTables_radix hS hr).2 expBase n

/-- the mixed-base guard (/repo commit 5add295): no native fast path when the exponent base differs -/
theorem fastPath_mixed_base_none (S : SmallSet) (F : FTy) {r b : Nat} (h : r ≠ b) (n : Num) :
    FastPath.tryFastPath S F r b n = .none := by
  unfold FastPath.tryFastPath; rw [if_pos h]

/-- non-vacuity: radix 3 (`12345·3^10`), radix 36 disguised, radix 16 division; `1.8p3`-style mixed base declines -/
example : FastPath.tryFastPath SmallSet.Radix FTy.f64 3 3 ⟨12345, 10, false, false⟩ = .some 0x41c5b985d0800000 ∧
    FastPath.tryFastPath SmallSet.Radix FTy.f64 16 2 ⟨24, 3, false, false⟩ = .none ∧
    (3 ∈ SmallSet.Radix.radices ∧ 36 ∈ SmallSet.CompactRadix.radices) := by
  decide +kernel

/-! ## power-of-two radices -/

def IsPow2 (b : Nat) : Prop := b = 2 ∨ b = 4 ∨ b = 8 ∨ b = 16 ∨ b = 32

/-- exponents `parse_number` can hand over without saturating `calculate_power2` (it saturates literal
exponents at `±2^28`; beyond `±2^27` in radix 32 `calculate_power2` clamps and the answer is 0 / ∞) -/
def ExpInRange (e : Int) : Prop := -(2 ^ 27 : Int) ≤ e ∧ e ≤ (2 ^ 27 : Int)

/-- **`binary_correct`**: a valid answer of `binary::<f64, FORMAT>` (any power-of-two exponent base, `lossy`
and `many_digits` arbitrary) is `roundNE (mantissa · base^exponent)`: shifting, the half-way/even test,
denormals, underflow to zero, overflow to infinity. -/
theorem binary_correct_f64 {base : Nat} (hb : IsPow2 base) (n : Num) (lossy : Bool)
    (hm : n.mantissa < 2 ^ 64) (he : ExpInRange n.exponent)
    {fp : ExtendedFloat80} (h : Binary.binary FTy.f64 base n lossy = .ok fp) (hv : 0 ≤ fp.exp) :
    extendedToFloat FTy.f64 fp =
      roundNE f64 (powFrac base n.exponent n.mantissa).1 (powFrac base n.exponent n.mantissa).2 :=
  binary_exact layout_f64 hb n lossy hm he.1 he.2 h hv

theorem binary_correct_f32 {base : Nat} (hb : IsPow2 base) (n : Num) (lossy : Bool)
    (hm : n.mantissa < 2 ^ 64) (he : ExpInRange n.exponent)
    {fp : ExtendedFloat80} (h : Binary.binary FTy.f32 base n lossy = .ok fp) (hv : 0 ≤ fp.exp) :
    extendedToFloat FTy.f32 fp =
      roundNE f32 (powFrac base n.exponent n.mantissa).1 (powFrac base n.exponent n.mantissa).2 :=
  binary_exact layout_f32 hb n lossy hm he.1 he.2 h hv

/-- `binary` always decides an untruncated mantissa (and everything under `lossy`) -/
theorem binary_decides {F : FTy} (hF : F = FTy.f64 ∨ F = FTy.f32) {base : Nat} (hb : IsPow2 base) (n : Num)
    (lossy : Bool) (hm : n.mantissa < 2 ^ 64) (he : ExpInRange n.exponent)
    (hdec : n.manyDigits = false ∨ lossy = true) :
    ∃ fp, Binary.binary F base n lossy = .ok fp ∧ 0 ≤ fp.exp := by
  rcases hF with h | h <;> subst h
  · exact binary_valid layout_f64 hb n lossy hm he.1 he.2 hdec
  · exact binary_valid layout_f32 hb n lossy hm he.1 he.2 hdec

/-- regression example for the defect fixed by /repo commit 6cdda4d (`<<< 40000` is `· 2^40000`, the exact value):
the op `bin f64 202020000000000000000000000000c 9223372036854776832 40000 1 0` answered `ok 8730000000000400 …`
(the non-negative "invalid" marker `41075 − 32768` taken for a float); model and implementation now answer `+∞`. -/
theorem binary_marker_overflow :
    Binary.binary FTy.f64 2 ⟨2 ^ 63 + 2 ^ 10, 40000, false, true⟩ false = .ok ⟨0, 2047⟩ ∧
    extendedToFloat FTy.f64 ⟨0, 2047⟩ = 0x7ff0000000000000 ∧
    roundNE f64 ((2 ^ 63 + 2 ^ 10) <<< 40000) 1 = 0x7ff0000000000000 := binary_marker_overflow_regression

/-- non-vacuity of `binary_correct`: a denormal result, a tie to even, an undecided truncated mantissa -/
example : Binary.binary FTy.f64 2 ⟨3, -1075, false, false⟩ false = .ok ⟨2, 0⟩ ∧
    Binary.binary FTy.f64 16 ⟨0x20000000000001, 0, false, false⟩ false = .ok ⟨0, 1076⟩ ∧
    Binary.binary FTy.f64 16 ⟨0x20000000000001, 0, false, true⟩ false = .ok ⟨9223372036854776832, -31703⟩ := by
  decide +kernel

/-- **`binary_truncated_correct`**: the value of the whole literal is `x = (M + r/c)·base^e` with `0 ≤ r < c`
(`r = 0` when nothing was truncated). If non-lossy `binary` answers with a valid float, that float is
`roundNE x` — provided the mantissa fills the word up to fewer leading zeros than bits are shifted out
(`clz(M) < shift`; true whenever `M` holds `u64_step` digits: at most 9 leading zeros against a shift `≥ 11`). -/
theorem binary_truncated_correct {F : FTy} (hF : F = FTy.f64 ∨ F = FTy.f32) {base : Nat} (hb : IsPow2 base)
    (n : Num) (hm : n.mantissa < 2 ^ 64) (he : ExpInRange n.exponent)
    (c r : Nat) (hr : r < c) (hmany : n.manyDigits = false → r = 0) (hM0 : n.mantissa ≠ 0)
    (hcs : clz64 n.mantissa < shiftOf F.fmt.p (Binary.calculatePower2 F base n.exponent (clz64 n.mantissa)))
    {fp : ExtendedFloat80} (h : Binary.binary F base n false = .ok fp) (hv : 0 ≤ fp.exp) :
    extendedToFloat F fp =
      roundNE F.fmt (powFrac base n.exponent (n.mantissa * c + r)).1
        ((powFrac base n.exponent (n.mantissa * c + r)).2 * c) := by
  rcases hF with h' | h' <;> subst h'
  · exact binary_truncated layout_f64 hb n hm he.1 he.2 c r hr hmany hM0 hcs h hv
  · exact binary_truncated layout_f32 hb n hm he.1 he.2 c r hr hmany hM0 hcs h hv

/-- the significant digit values of a literal: leading zeros of integer ++ fraction dropped -/
def sigDigits (radix : Nat) (integer : List Nat) (fraction : Option (List Nat)) : List Nat :=
  ((integer ++ fraction.getD []).map fun c => Binary.digitVal c radix).dropWhile (· == 0)

/-- **`slowBinary_correct`** (**complete**): when `binary` could not decide — the first `u64_step` significant
digits `M` sit exactly half-way above an even significand — `slow_binary` returns `roundNE` of the whole literal
`(M + 0.d₁d₂…)·base^e`: down to even when every further digit is zero, up otherwise. Covers both digit loops of
`parse_u64_digits` (single digits; 8 digits at a time for radix ≤ 10 in non-`compact` builds), the skipping of
leading zeros across integer and fraction part, the `u64_step` cut and the sticky flag. Bytes are ASCII digits
valid for the radix (what `parse_number` hands over for a separator-free format). -/
theorem slowBinary_correct (F : FTy) (hF : F = FTy.f64 ∨ F = FTy.f32) (compact : Bool) (radix : Nat)
    (hradix : IsPow2 radix) (base : Nat) (hb : IsPow2 base)
    (u64step : Nat) (hfit : radix ^ u64step ≤ 2 ^ 64) (hmax : 2 ^ 64 < radix ^ (u64step + 1))
    (e : Int) (he : ExpInRange e) (integer : List Nat) (fraction : Option (List Nat))
    (hvalid : ∀ c ∈ integer ++ fraction.getD [], c < 256 ∧ Binary.digitVal c radix < radix)
    (hund : ∃ fp, Binary.binary F base
        ⟨valOf radix 0 ((sigDigits radix integer fraction).take u64step), e, false, true⟩ false = .ok fp ∧
        fp.exp < 0) :
    extendedToFloat F (Binary.slowBinary F compact radix base u64step e integer fraction) =
      roundNE F.fmt (powFrac base e (valOf radix 0 (sigDigits radix integer fraction))).1
        ((powFrac base e (valOf radix 0 (sigDigits radix integer fraction))).2 *
          radix ^ ((sigDigits radix integer fraction).length - u64step)) := by
  rcases hF with h' | h' <;> subst h'
  · exact slowBinary_digits_correct layout_f64 (by decide) compact radix hradix hb u64step hfit hmax e
      he.1 he.2 integer fraction hvalid hund
  · exact slowBinary_digits_correct layout_f32 (by decide) compact radix hradix hb u64step hfit hmax e
      he.1 he.2 integer fraction hvalid hund

/-- the `u64_step` values of the crate satisfy the hypothesis `radix^step ≤ 2^64 < radix^(step+1)` -/
example : ∀ r ∈ [2, 4, 8, 16, 32], r ^ SmallSet.Radix.u64Step r ≤ 2 ^ 64 ∧ 2 ^ 64 < r ^ (SmallSet.Radix.u64Step r + 1) := by
  decide

/-- non-vacuity: radix 16, sixteen digits `8000000000000400` (even, exactly half-way) then `1`: `binary`
declines, `slow_binary` rounds up; with a `0` tail it rounds to even -/
example : Binary.binary FTy.f64 16 ⟨0x8000000000000400, 1, false, true⟩ false = .ok ⟨0x8000000000000400, -31689⟩ ∧
    Binary.slowBinary FTy.f64 false 16 16 16 1 [56,48,48,48,48,48,48,48,48,48,48,48,48,52,48,48,49] none = ⟨1, 1090⟩ ∧
    Binary.slowBinary FTy.f64 false 16 16 16 1 [56,48,48,48,48,48,48,48,48,48,48,48,48,52,48,48,48] none = ⟨0, 1090⟩ := by
  decide +kernel

/-! ## Bellerophon, generic radices -/

open LexVerif.Proof.Bell in
/-- which `(tables, radix)` pairs the crate can be compiled with -/
def IsBellTable (P : Gen.Bellerophon.Powers) (r : Nat) : Prop :=
  (r ∈ bellRadicesRadix ∧ P = Gen.Bellerophon.Radix.powers r) ∨
  (r ∈ bellRadicesCompact ∧ P = Gen.Bellerophon.CompactRadix.powers r)

open LexVerif.Proof.Bell in
/-- **`bellerophon_radix_sound`** (**complete** on the model): for every radix with Bellerophon tables (29 generic
radices, `radix` and `compact` builds; 10 under `compact`), a valid non-lossy answer of `bellerophon::<F, FORMAT>`
is `roundNE` of the true value of the literal (`TrueValue`: `w·r^e`, or any value in `[w, w+1)·r^e` for a
truncated mantissa `w ≥ 2^44` — a `u64_step`-digit mantissa is at least `r^(u64_step−1) ≥ 2^55`). -/
theorem bellerophon_radix_sound (F : FTy) (hF : F = FTy.f64 ∨ F = FTy.f32)
    (P : Gen.Bellerophon.Powers) (r : Nat) (hP : IsBellTable P r) (n : Num) (hw : n.mantissa < 2 ^ 64)
    (hmw : n.manyDigits = true → 2 ^ 44 ≤ n.mantissa) (num den : Nat) (hd : 0 < den)
    (htv : TrueValue r n num den) {fp : ExtendedFloat80}
    (h : Bellerophon.bellerophon F P n false = .ok fp) (hv : 0 ≤ fp.exp) :
    extendedToFloat F fp = roundNE F.fmt num den := by
  have hc : BellFacts r P := by
    rcases hP with ⟨hr, rfl⟩ | ⟨hr, rfl⟩
    · exact bellFacts_of (bellCheck_radix r hr)
    · exact bellFacts_of (bellCheck_compact r hr)
  rcases hF with h' | h' <;> subst h'
  · exact bellerophon_sound_all layout_f64 (by decide) hc n hw hmw num den hd htv h hv
  · exact bellerophon_sound_all layout_f32 (by decide) hc n hw hmw num den hd htv h hv

open LexVerif.Proof.Bell in
/-- the untruncated case in closed form -/
theorem bellerophon_radix_sound_untruncated (F : FTy) (hF : F = FTy.f64 ∨ F = FTy.f32)
    (P : Gen.Bellerophon.Powers) (r : Nat) (hP : IsBellTable P r) (n : Num) (hmany : n.manyDigits = false)
    (hw : n.mantissa < 2 ^ 64) {fp : ExtendedFloat80}
    (h : Bellerophon.bellerophon F P n false = .ok fp) (hv : 0 ≤ fp.exp) :
    extendedToFloat F fp =
      roundNE F.fmt (powFrac r n.exponent n.mantissa).1 (powFrac r n.exponent n.mantissa).2 := by
  have hc : BellFacts r P := by
    rcases hP with ⟨hr, rfl⟩ | ⟨hr, rfl⟩
    · exact bellFacts_of (bellCheck_radix r hr)
    · exact bellFacts_of (bellCheck_compact r hr)
  rcases hF with h' | h' <;> subst h'
  · exact bellerophon_untruncated_sound layout_f64 (by decide) hc n hmany hw h hv
  · exact bellerophon_untruncated_sound layout_f32 (by decide) hc n hmany hw h hv

open LexVerif.Proof.Bell in
/-- `bellerophon` never panics for a radix with tables (for a radix **without** tables — powers of two, and 10 in
non-`compact` builds — it does: remainder by `step = 0`; the dispatcher never sends those there) -/
theorem bellerophon_no_panic_radix (F : FTy) (P : Gen.Bellerophon.Powers) (r : Nat) (hP : IsBellTable P r)
    (n : Num) (lossy : Bool) : Bellerophon.bellerophon F P n lossy ≠ .panic := by
  have hc : BellFacts r P := by
    rcases hP with ⟨hr, rfl⟩ | ⟨hr, rfl⟩
    · exact bellFacts_of (bellCheck_radix r hr)
    · exact bellFacts_of (bellCheck_compact r hr)
  exact LexVerif.Proof.Bell.bellerophon_no_panic hc n lossy

/-- non-vacuity: radix 3 -/
example : Bellerophon.bellerophon FTy.f64 (Gen.Bellerophon.Radix.powers 3) ⟨12345, 10, false, false⟩ false =
    .ok ⟨1611359263391744, 1052⟩ ∧ IsBellTable (Gen.Bellerophon.Radix.powers 3) 3 := by
  refine ⟨by decide +kernel, Or.inl ⟨by decide, rfl⟩⟩

end LexVerif.Props.C05
