import LexVerif.Spec.Decimal
/-!
# C05 — non-decimal radix string→float parsing is correctly rounded (property theorems)

Oracle: `Spec.litBits` with mantissa radix `r` and exponent base `b`. Table theorems for all 35 radices
are in `Props/TablesParse.lean`.
-/
namespace LexVerif.Props.C05
open LexVerif.Spec

/-- the oracle's result never depends on the exponent once the mantissa digits are all zero -/
theorem litBits_zero_any_radix (f : Fmt) (r b : Nat) (l : FloatLit)
    (h : ofDigits r (l.intDigits ++ l.fracDigits) = 0) :
    litBits f r b l = if l.neg then f.signBit else 0 := by
  unfold litBits; simp [h]

end LexVerif.Props.C05
