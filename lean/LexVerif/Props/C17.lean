import LexVerif.Proof.WriteFloatAscii
import LexVerif.Proof.WriteFloatDragon
/-!
# C17 — every byte the writer models emit under valid options is 7-bit ASCII (property theorems)

`ValidOpts` is what `OptionsBuilder::build` = `Ok` guarantees (`validOpts_of_build`): punctuation bytes pass
`is_valid_ascii`, special strings consist of ASCII letters.
* `ascii_only_decimal`: the list-level decimal writer (either back-end), all digit lists / exponents / formats / options;
* `ascii_only`: the buffer-faithful `write_float` model — whatever it returns (finite decimal values and special values)
  is ASCII, sign byte included;
* `ascii_only_int`: sign + numeral of the integer writers, any radix 2..36.
The facade half of C17 (`lexical::to_string*` = `lexical_core::write*`) is checked by correspondence (`props/C17.py`).
-/
namespace LexVerif.Props.C17
open LexVerif.Spec LexVerif.Model LexVerif.Model.WriteFloat LexVerif.Proof.WriteFloatAscii LexVerif.Proof.WriteFloatBuf
open LexVerif.Model.WriteInt (Res)

/-- the list-level decimal writer only emits ASCII -/
theorem ascii_only_decimal (fmt : Format) (feats : Features) (ds : List Nat) (sci : Int) (o : WOpts)
    (hd : ∀ d ∈ ds, d < 10) (hv : wOptsError o = none)
    (hr : 2 ≤ (effFmt feats fmt).exponentRadix) (hr36 : (effFmt feats fmt).exponentRadix ≤ 36) :
    ∀ b ∈ writeDecimal fmt feats ds sci o, b < 128 := by
  have hvo := validOpts_of_build o hv
  have htr := truncateAndRound_digs ds o hd
  show Asc (writeDecimal fmt feats ds sci o)
  unfold writeDecimal
  split
  · unfold writeDigitsC
    dsimp only
    repeat' split
    all_goals first
      | exact asc_writeScientific _ _ _ _ _ _ htr hvo.exp hvo.dp hr hr36
      | exact asc_writeNegative _ _ _ htr hvo.dp
      | exact asc_writePositive _ _ _ htr hvo.dp
  · unfold writeDigitsN
    dsimp only
    repeat' split
    all_goals first
      | exact asc_writeScientific _ _ _ _ _ _ hd hvo.exp hvo.dp hr hr36
      | exact asc_writeNegative _ _ _ hd hvo.dp
      | exact asc_writePositive _ _ _ hd hvo.dp

/-- non-vacuity: `-1.5e-7` with `^` as exponent character and `,` as decimal point -/
example : writeDecimal Format.standard {} [1, 5] (-7) { exp := 94, dp := 44 } = [49, 44, 53, 94, 45, 55] := by decide +kernel
example : wOptsError { exp := 94, dp := 44 } = none := by decide +kernel

theorem take_append_sign (sign bytes : List Nat) (n : Nat) :
    (sign ++ bytes).take (sign.length + n) = sign ++ bytes.take n := by
  simp [List.take_append, List.take_of_length_le]

/-- **C17 `ascii_only`** on the buffer-faithful model of `WriteFloat::write_float`: every byte of the returned slice is
`< 0x80` — sign, digits, configured punctuation, exponent, special strings. -/
theorem ascii_only (feats : Features) (f : Fmt) (fmt : Format) (o : WOpts) (debug : Bool) (bits : Nat) (ds : List Nat)
    (sci : Int) (buf : List Nat) (w : Written)
    (hd : ∀ d ∈ ds, d < 10) (hds : 1 ≤ ds.length) (hmx : o.maxDigits ≠ some 0) (hv : wOptsError o = none)
    (hr : 2 ≤ (effFmt feats fmt).exponentRadix) (hr36 : (effFmt feats fmt).exponentRadix ≤ 36)
    (h : writeFloat feats f fmt o debug bits (ds, sci) buf = .done w) :
    ∀ b ∈ w.bytes.take w.len, b < 128 := by
  have hvo := validOpts_of_build o hv
  show Asc (w.bytes.take w.len)
  unfold writeFloat writeFloatB at h
  dsimp only at h
  split at h
  · cases h
  split at h
  · cases h
  split at h
  · cases h
  have hsign : Asc (if f.isNeg bits = true ∧ ¬f.isNaN bits = true then [45]
      else if feats.format = true ∧ fmt.requiredMantissaSign = true then [43] else []) := by
    repeat' split
    all_goals simp
  generalize (if f.isNeg bits = true ∧ ¬f.isNaN bits = true then [45]
      else if feats.format = true ∧ fmt.requiredMantissaSign = true then [43] else []) = sign at h hsign
  split at h
  · cases h
  · have key : ∀ (g : WBuf → Res Out) (target : List Nat), Asc target →
        (∀ r, g ⟨buf.drop sign.length, 0⟩ = .ok r → r.buf.bytes.take r.cursor = target) →
        finalCheck (onTail sign (buf.drop sign.length) g) = .done w → Asc (w.bytes.take w.len) := by
      intro g target hasc hg hfc
      unfold onTail at hfc
      cases hr' : g ⟨buf.drop sign.length, 0⟩ with
      | fault => rw [hr'] at hfc; cases hfc
      | panic => rw [hr'] at hfc; cases hfc
      | ok r =>
        rw [hr'] at hfc
        simp only [finalCheck] at hfc
        split at hfc
        · simp only [Outcome.done.injEq] at hfc
          subst hfc
          dsimp only
          rw [take_append_sign, hg r hr']
          exact asc_append hsign hasc
        · cases hfc
    split at h
    · split at h
      · exact key _ _ (ascii_only_decimal fmt feats ds sci o hd hv hr hr36)
          (fun r hr' => LexVerif.Proof.WriteFloatDragon.decimalB_bytes fmt feats f debug ds sci o _ r hds hmx hr') h
      · simp only [finalCheck] at h; cases h
    · split at h
      · cases hn : o.nan with
        | none => rw [hn] at h; simp [writeSpecial, onTail, finalCheck] at h
        | some s =>
          rw [hn] at h
          refine key _ s (hvo.nan s hn) ?_ h
          intro r hr'
          simp only [writeSpecial, bind_ok_iff, blit_ok_iff, Res.ok.injEq] at hr'
          obtain ⟨b1, ⟨h1, rfl⟩, rfl⟩ := hr'
          apply take_eq_of_getD
          · simpa [WBuf.len] using h1
          · rfl
          · intro i hi
            simp only [put_getD, put_length]
            simp only [WBuf.len, List.length_drop] at h1
            simp only [List.getD_eq_getElem?_getD, List.length_drop]
            grind
      · cases hn : o.inf with
        | none => rw [hn] at h; simp [writeSpecial, onTail, finalCheck] at h
        | some s =>
          rw [hn] at h
          refine key _ s (hvo.inf s hn) ?_ h
          intro r hr'
          simp only [writeSpecial, bind_ok_iff, blit_ok_iff, Res.ok.injEq] at hr'
          obtain ⟨b1, ⟨h1, rfl⟩, rfl⟩ := hr'
          apply take_eq_of_getD
          · simpa [WBuf.len] using h1
          · rfl
          · intro i hi
            simp only [put_getD, put_length]
            simp only [WBuf.len, List.length_drop] at h1
            simp only [List.getD_eq_getElem?_getD, List.length_drop]
            grind

/-- sign and numeral of the integer writers (`Spec`-level output proved equal to the model's in C03) -/
theorem ascii_only_int (r n : Nat) (neg plus : Bool) (hr : 2 ≤ r) (hr36 : r ≤ 36) :
    ∀ b ∈ (if neg then [45] else if plus then [43] else []) ++ numeral r n, b < 128 := by
  show Asc _
  apply asc_append
  · repeat' split
    all_goals simp
  · exact asc_numeral r n hr hr36

/-- special strings that `OptionsBuilder::build` rejects are exactly what would break ASCII: a witness -/
example : wOptsError { nan := some [78, 0xe9, 78] } = some "InvalidNanString" := by decide +kernel
example : wOptsError { dp := 0x80 } = some "InvalidDecimalPoint" := by decide +kernel

end LexVerif.Props.C17
