import LexVerif.Model.WriteFloat
/-! # C17 (property theorems) — filled in below -/
namespace LexVerif.Props.C17
end LexVerif.Props.C17
