import LexVerif.Proof.ParseIntFormatGrammar
import LexVerif.Proof.ParseIntFormatTotal
import LexVerif.Proof.ParseIntFormatAgree
import LexVerif.Proof.ParseIntFormatGrammar2
import LexVerif.Props.C04
import LexVerif.Props.C11Int
import LexVerif.Model.Ops.ParseInt
import LexVerif.Model.ParseNumber
/-!
# C04 / C10 / C11 / C12 for the integer parser compiled WITH cargo feature `format` (property theorems)

Subject: `Model.ParseIntFormat.parseIntFormat` — the statement-by-statement model of the `#[cfg(feature = "format")]`
expansion of `algorithm!` (`lexical-parse-integer/src/algorithm.rs`) on the skip iterators of `Model.Iter`, tied to
the implementation by correspondence on every `pi` op of the C10 / C11 / C12 / C13 generators.

The class for which everything below is PROVED (`SimpleFmt`): release build, no INTEGER separator flags (contiguous
integer iterator), no base prefix, no base suffix, `no_integer_leading_zeros` off — any combination of
`required_integer_digits`, `required_mantissa_digits`, `no_positive_mantissa_sign`, `required_mantissa_sign` (and of
the float-only flags, which the integer parser ignores), ANY digit-separator byte and any separator flags on the
fraction / exponent (since repo fixes 12a2453 / 7e8a135; the class used to require "no digit-separator byte" only
because of the defect repaired there, see `regression_sep_elsewhere`), every radix / type / `no_multi_digit` / input
admitted by C04 — inputs MAY contain the separator byte: it is an ordinary non-digit for a contiguous iterator.
Outside the class the full statements are kept as `def … : Prop`, and each known defect has a `decide`d witness on the
model (`known_findings.json`: C10-dbg-int-suffix-with-separator, C11-int-*, C12-base-prefix-swallows-leading-zero,
C12-no-digits-accepted-as-zero).

* (a) `parseIntFormat_plain_eq` / `parseIntFormat_plain_eq_spec`: on plain formats the `format` build computes exactly
  what the non-`format` build computes, hence the specification scan of C04 — C04 holds for `format` builds.
* (b) `parseIntFormat_total` (C10, release, every valid format): never FAULT / PANIC, indices ≤ length
  (`parseIntFormat_total_full_holds`); debug build: `debug_panics_suffix_separator` ("1h_").
* (c) `int_accepts_iff_grammar_prefix` (C12): contiguous integer iterator, no base suffix, base prefix /
  `no_integer_leading_zeros` / sign flags arbitrary, digits required: the complete parser accepts iff
  `Spec.grammarIntComplete` derives the input, with the same value (`int_accepts_iff_grammar_partial`: the sub-class
  without prefix / leading-zero flag); with a base suffix: `int_accepts_iff_grammar_contig_full` (a `def`, exact exclusions);
  `int_accepts_iff_grammar_full` is FALSE (`not_int_accepts_iff_grammar_full`).
* (d) `int_format_complete_iff_partial` (C11 clause 1): EVERY valid format; regression I2, witnesses I3, I4 (clause 2).
* (b) is `parseIntFormat_total`: EVERY valid format.
-/
namespace LexVerif.Props.C04Format
open LexVerif LexVerif.Spec LexVerif.Model LexVerif.Model.ParseIntFormat LexVerif.Proof.PIF
open LexVerif.Proof.ParseInt (IsIntTy)

/-- the class of formats for which the theorems below are proved (see the module doc) -/
structure SimpleFmt (c : Cfg) : Prop extends Simple c where
  pre : c.fmt.basePrefix = 0
  nolz : c.fmt.noIntegerLeadingZeros = false

/-- what C04 assumes about type, radix and feature set (`format.is_valid()` guarantees the radix part) -/
structure Admissible (e : Env) : Prop where
  ty : IsIntTy e.t
  r2 : 2 ≤ e.radix
  r36 : e.radix ≤ 36
  feat : e.c.feats.powerOfTwo = true ∨ e.radix = 10

/-! ## (a) C04 for `format` builds -/

theorem simpleFmt_of_plain (c : Cfg) (hf : c.feats.format = true) (hd : c.debug = false)
    (hp : Ops.ParseInt.isPlain c.fmt = true) :
    SimpleFmt c ∧ c.fmt.noPositiveMantissaSign = false ∧ c.fmt.requiredMantissaSign = false ∧
      c.fmt.requiredMantissaDigits = true := by
  simp only [Ops.ParseInt.isPlain, Bool.and_eq_true, decide_eq_true_eq, Format.flagBits] at hp
  obtain ⟨⟨⟨h12, hpre⟩, hsuf⟩, hsep⟩ := hp
  have bits : c.fmt.bit 3 = true ∧ c.fmt.bit 4 = false ∧ c.fmt.bit 5 = false ∧ c.fmt.bit 12 = false ∧
      c.fmt.bit 32 = false ∧ c.fmt.bit 35 = false ∧ c.fmt.bit 38 = false ∧ c.fmt.bit 41 = false := by
    simp only [Format.bit, decide_eq_true_eq, decide_eq_false_iff_not]
    have h12' := of_decide_eq_true h12
    simp only [Nat.reducePow] at h12' ⊢
    omega
  obtain ⟨b3, b4, b5, b12, b32, b35, b38, b41⟩ := bits
  refine ⟨⟨⟨hf, hd, ?_, hsuf⟩, hpre, b12⟩, b4, b5, b3⟩
  simp [Cfg.sepFlags, Cfg.flag, hf, SepFlags.none, Format.integerInternalSep, Format.integerLeadingSep,
    Format.integerTrailingSep, Format.integerConsecutiveSep, b32, b35, b38, b41]

/-- **(a)** plain format (`flags = REQUIRED_EXPONENT_DIGITS | REQUIRED_MANTISSA_DIGITS`, no prefix / suffix /
separator): the model of the `format` build equals the model of the non-`format` build, for EVERY input, type,
radix, `no_multi_digit`, complete and partial. -/
theorem parseIntFormat_plain_eq (e : Env) (hf : e.c.feats.format = true) (hd : e.c.debug = false)
    (hp : Ops.ParseInt.isPlain e.c.fmt = true) (s : List Nat) :
    parseIntFormat e s = ofM (ParseInt.parseInt e.c.feats e.t e.radix e.partial_ e.noMulti s) := by
  obtain ⟨hs, hnp, hrs, hrm⟩ := simpleFmt_of_plain e.c hf hd hp
  have hreq : e.requiredDigits = true := by
    simp [Env.requiredDigits, Cfg.requiredMantissaDigits, Cfg.flag, hf, hrm]
  rw [parseIntFormat_simple_eq e hs.toSimple hs.pre hs.nolz]
  simp [signGate, hnp, hrs, hreq]

/-- … hence equals the specification of C04 (`Spec.parseInt`): **C04 holds for `format` builds**. -/
theorem parseIntFormat_plain_eq_spec (e : Env) (hf : e.c.feats.format = true) (hd : e.c.debug = false)
    (hp : Ops.ParseInt.isPlain e.c.fmt = true) (ha : Admissible e) (s : List Nat) (hb : ∀ b ∈ s, b < 256) :
    parseIntFormat e s = ofM (.done (Spec.parseInt e.t e.radix e.partial_ s)) := by
  rw [parseIntFormat_plain_eq e hf hd hp,
    C04.parseInt_model_eq_spec e.c.feats e.t ha.ty e.radix ha.r2 ha.r36 ha.feat e.partial_ e.noMulti s hb]

/-- non-vacuity: a plain radix-10 format under `radix+format`, u8 "256" overflows at index 2 -/
example : parseIntFormat ⟨⟨{ powerOfTwo := true, radix := true, format := true }, Format.standard, false⟩,
    ⟨8, false⟩, false, false⟩ [50, 53, 54] = .error (.err "Overflow" 2) := by decide

/-! ## the characterisation with the specification scan substituted -/

theorem requiredDigits_eq (c : Cfg) (t : IntTy) (p nm : Bool) (hf : c.feats.format = true) :
    (⟨c, t, p, nm⟩ : Env).requiredDigits = (c.fmt.requiredIntegerDigits || c.fmt.requiredMantissaDigits) := by
  simp [Env.requiredDigits, Cfg.requiredIntegerDigits, Cfg.requiredMantissaDigits, Cfg.flag, hf]

/-- on `SimpleFmt` formats the model is: the two sign flags, then "no digit byte at all and no digits required ⇒ zero",
then the specification scan of C04 -/
theorem parseIntFormat_simple_spec (e : Env) (hs : SimpleFmt e.c) (ha : Admissible e) (s : List Nat)
    (hb : ∀ b ∈ s, b < 256) :
    parseIntFormat e s =
      signGate e s
        (if e.requiredDigits = false ∧ signLen e.t s = s.length then .ok (0, s.length)
         else ofM (.done (Spec.parseInt e.t e.radix e.partial_ s))) := by
  rw [parseIntFormat_simple_eq e hs.toSimple hs.pre hs.nolz,
    C04.parseInt_model_eq_spec e.c.feats e.t ha.ty e.radix ha.r2 ha.r36 ha.feat e.partial_ e.noMulti s hb]

/-! ## (b) C10 — totality -/

/-! `Total len r` (`Proof/ParseIntFormatTotal.lean`): `r` is `Ok` with a count `≤ len` or `Error::Kind(i)` with `i ≤ len`;
never the model's FAULT (unchecked step / slice / fuel) and never PANIC. -/

/-- **C10, full statement (release build)**: every format accepted by `format.is_valid()` — separators with any of the
15 skip predicates, base prefix, base suffix, `no_integer_leading_zeros` included. PROVED: `parseIntFormat_total`. -/
def parseIntFormat_total_full : Prop :=
  ∀ (e : Env) (s : List Nat), e.c.feats.format = true → e.c.debug = false →
    (formatError e.c.feats e.c.fmt).isNone = true → Admissible e → (∀ b ∈ s, b < 256) →
      Total s.length (parseIntFormat e s)

/-- **C10 (release) for the integer parser of `format` builds**: for every feature set, every format that passes
`format.is_valid()`, every integer type / radix / `no_multi_digit`, complete and partial, and EVERY byte list the model
returns `Ok` with a count `≤ length` or `Error::Kind(i)` with `i ≤ length`; the unchecked steps
(`step_unchecked`, `step_by_unchecked`, `take_n`'s `from_parts` / `set_cursor`) stay inside the buffer, no digit loop
runs out of fuel, the `usize` subtractions `cursor - zeros`, `cursor - 1`, `cursor - start_index` of the paths that
use their result as an index do not wrap, `unreachable!()` is not reached. (No hypothesis on type / radix / bytes is
needed: wrapping arithmetic is total.) -/
theorem parseIntFormat_total (e : Env) (hd : e.c.debug = false)
    (hv : (formatError e.c.feats e.c.fmt).isNone = true) (s : List Nat) : Total s.length (parseIntFormat e s) :=
  parseIntFormat_total_rel (LexVerif.Proof.PNTotal.rel_of_valid e.c hd hv) s

theorem parseIntFormat_total_full_holds : parseIntFormat_total_full :=
  fun e s _ hd hv _ _ => parseIntFormat_total e hd hv s

/-- non-vacuity: the format of the debug-panic witness below (prefix, suffix, separator with I+L+T+C) is valid -/
example : (formatError { powerOfTwo := true, radix := true, format := true }
    ⟨0x101010687800005f000002490000000c⟩).isNone = true := by decide

theorem parseIntFormat_total_partial (e : Env) (hs : SimpleFmt e.c) (ha : Admissible e) (s : List Nat)
    (hb : ∀ b ∈ s, b < 256) : Total s.length (parseIntFormat e s) := by
  rw [parseIntFormat_simple_spec e hs ha s hb]
  unfold signGate
  split
  · simp [Proof.PIF.Total, err]
  · split
    · simp [Proof.PIF.Total, err]
    · split
      · simp [Proof.PIF.Total]
      · have := C04.spec_index_le_length e.t e.radix e.partial_ s
        cases h : Spec.parseInt e.t e.radix e.partial_ s <;> simp [h, C04.PRes.index] at this <;>
          simp [ofM, Proof.PIF.Total, err, this]

/-- radix 16, prefix `x`, suffix `h`, separator `_` with integer flags I+L+T+C (catalogue: `int_prefix_suffix_sep_iltc`) -/
def fmtSuffixSep : Format := ⟨0x101010687800005f000002490000000c⟩
def featsRF : Features := { powerOfTwo := true, radix := true, format := true }

/-- **debug-assertion build, known finding C10-dbg-int-suffix-with-separator**: `"1h_"` — after the non-digit `h`
`fmt_invalid_digit!` calls `step_unchecked()` on the skip iterator while the cursor is on a digit separator
(`debug_assert!(… != Some(&format.digit_separator()))` in `step_by_unchecked_impl`) -/
theorem debug_panics_suffix_separator :
    parseIntFormat ⟨⟨featsRF, fmtSuffixSep, true⟩, ⟨8, false⟩, false, false⟩ [0x31, 0x68, 0x5f]
      = .error (.panic "step_by: on digit separator") := by decide

/-- the release build steps over the separator and reports the index after it -/
theorem release_suffix_separator :
    parseIntFormat ⟨⟨featsRF, fmtSuffixSep, false⟩, ⟨8, false⟩, false, false⟩ [0x31, 0x68, 0x5f]
      = .error (.err "InvalidDigit" 2) := by decide

/-- **C10, debug-assertion build, full statement with the exact exclusion**: no panic unless the format combines a base
suffix with a separator-skipping integer iterator, or the separator equals a control character up to ASCII case (the
float-side finding C10-dbg-sep-case-equals-control-char, which `read_if_value` on the base prefix shares). Not proved
(correspondence: `tools/intfmt_corr.py --dbg`). -/
def parseIntFormat_no_panic_debug_full : Prop :=
  ∀ (e : Env) (s : List Nat), e.c.feats.format = true → e.c.debug = true →
    (formatError e.c.feats e.c.fmt).isNone = true → Admissible e → (∀ b ∈ s, b < 256) →
    (e.c.baseSuffix = 0 ∨ e.c.iterContiguous .integer = true) →
    (e.c.digitSeparator = 0 ∨ (lowerAscii e.c.digitSeparator ≠ lowerAscii e.c.basePrefix ∧
      lowerAscii e.c.digitSeparator ≠ lowerAscii e.c.baseSuffix)) →
      Total s.length (parseIntFormat e s)

/-- the exclusion is necessary -/
theorem not_no_panic_debug_without_exclusion :
    ¬ (∀ (e : Env) (s : List Nat), e.c.feats.format = true → e.c.debug = true →
        (formatError e.c.feats e.c.fmt).isNone = true → Admissible e → (∀ b ∈ s, b < 256) →
          Total s.length (parseIntFormat e s)) := by
  intro h
  have := h ⟨⟨featsRF, fmtSuffixSep, true⟩, ⟨8, false⟩, false, false⟩ [0x31, 0x68, 0x5f] rfl rfl (by decide)
    ⟨by unfold IsIntTy; decide, by decide, by decide, by decide⟩ (by decide)
  rw [debug_panics_suffix_separator] at this
  exact this

/-! ## (c) C12 — the complete parser accepts exactly the documented grammar -/

/-- the sign flags of the model and of the grammar agree -/
theorem signGate_iff_signOk (e : Env) (s : List Nat) (r : Res) :
    (signOk e.c.fmt.noPositiveMantissaSign e.c.fmt.requiredMantissaSign (splitIntSign e.t.signed s).1 = true →
      signGate e s r = r) ∧
    (signOk e.c.fmt.noPositiveMantissaSign e.c.fmt.requiredMantissaSign (splitIntSign e.t.signed s).1 = false →
      ∃ k, signGate e s r = err k 0) := by
  have key : ((splitIntSign e.t.signed s).1 == some false) = decide (s.head? = some 43) ∧
      (splitIntSign e.t.signed s).1.isNone = !hasSign e.t s := by
    cases s with
    | nil => simp [splitIntSign, hasSign]
    | cons x xs =>
      by_cases h43 : x = 43
      · subst h43; simp [splitIntSign, hasSign]
      · by_cases h45 : x = 45
        · subst h45
          by_cases hsg : e.t.signed = true
          · simp [splitIntSign, hasSign, hsg]
          · simp [splitIntSign, hasSign, hsg]
        · have : splitIntSign e.t.signed (x :: xs) = (none, x :: xs) := by
            unfold splitIntSign; split <;> simp_all
          simp [this, hasSign, h43, h45]
  simp only [signOk, key.1, key.2, signGate]
  by_cases h1 : s.head? = some 43 <;> cases e.c.fmt.noPositiveMantissaSign <;>
    cases e.c.fmt.requiredMantissaSign <;> cases hasSign e.t s <;> simp [h1] <;> exact ⟨_, rfl⟩

/-- **C12 for integers, full statement** (`DESIGN.md` §6 C12: every valid format, separator-free input):
the complete parser returns `Ok(v)` iff the documented grammar derives the input with value `v`.
FALSE on the current code — see `not_int_accepts_iff_grammar_full`. -/
def int_accepts_iff_grammar_full : Prop :=
  ∀ (c : Cfg) (t : IntTy) (nm : Bool) (s : List Nat) (v : Int), c.feats.format = true → c.debug = false →
    (formatError c.feats c.fmt).isNone = true → Admissible ⟨c, t, false, nm⟩ → (∀ b ∈ s, b < 256) →
    separatorFree c.fmt s = true →
      (complete c t nm s = .ok v ↔ grammarIntComplete c.feats c.fmt t s = .ok v)

/-- **(c) proved part**: formats without integer separator flags (any separator byte, any flags on fraction /
exponent; the input may contain the separator byte — both sides reject it as a non-digit), without base prefix and base
suffix, with `no_integer_leading_zeros` off, in which digits are required (`required_integer_digits` or
`required_mantissa_digits`; the complement is the excluded class "no digits accepted as zero"): for every type, radix,
`no_multi_digit` and input, acceptance and value of the complete parser are those of `Spec.grammarIntComplete`.
Missing towards the full statement: base suffix, `no_integer_leading_zeros`, integer-separator formats on
separator-free inputs (all three hold on the correspondence streams); base prefix and "no digits required" are genuinely false. -/
theorem int_accepts_iff_grammar_partial (c : Cfg) (t : IntTy) (nm : Bool) (hs : SimpleFmt c)
    (ha : Admissible ⟨c, t, false, nm⟩)
    (hreq : (c.fmt.requiredIntegerDigits || c.fmt.requiredMantissaDigits) = true)
    (s : List Nat) (hb : ∀ b ∈ s, b < 256) (v : Int) :
    complete c t nm s = .ok v ↔ grammarIntComplete c.feats c.fmt t s = .ok v := by
  have hrd : (⟨c, t, false, nm⟩ : Env).requiredDigits = true := by rw [requiredDigits_eq c t false nm hs.hf]; exact hreq
  have hr1 : 1 ≤ c.fmt.mantissaRadix := by have := ha.r2; simp only [Env.radix, Cfg.mantissaRadix] at this; omega
  have hg := grammar_iff_spec (Syn.of c.feats c.fmt) t
    (by simpa [Syn.of, hs.hf] using hr1) (by simp [Syn.of, hs.hf, hs.pre]) (by simp [Syn.of, hs.hf, hs.suf])
    (by simp [Syn.of, hs.hf, hs.nolz]) (by simpa [Syn.of, hs.hf] using hreq) s v
  have hsyn : (Syn.of c.feats c.fmt).noPosMant = c.fmt.noPositiveMantissaSign ∧
      (Syn.of c.feats c.fmt).reqMantSign = c.fmt.requiredMantissaSign ∧
      (Syn.of c.feats c.fmt).radix = c.fmt.mantissaRadix := by simp [Syn.of, hs.hf]
  rw [hsyn.1, hsyn.2.1, hsyn.2.2] at hg
  unfold grammarIntComplete
  rw [hg]
  unfold complete
  rw [parseIntFormat_simple_spec _ hs ha s hb]
  simp only [hrd, Bool.true_eq_false, false_and, if_false]
  have hgate := signGate_iff_signOk ⟨c, t, false, nm⟩ s
    (ofM (.done (Spec.parseInt t (⟨c, t, false, nm⟩ : Env).radix false s)))
  cases hok : signOk c.fmt.noPositiveMantissaSign c.fmt.requiredMantissaSign (splitIntSign t.signed s).1 with
  | true =>
    rw [hgate.1 hok]
    simp only [true_and, Env.radix, Cfg.mantissaRadix]
    cases hsp : Spec.parseInt t c.fmt.mantissaRadix false s <;> simp [ofM, err, Except.map]
  | false =>
    obtain ⟨k, hk⟩ := hgate.2 hok
    rw [hk]
    simp [err, Except.map]

/-- the sign split of the grammar is the sign the parser consumes -/
theorem splitIntSign_eq (t : IntTy) (s : List Nat) :
    (splitIntSign t.signed s).2 = s.drop (signLen t s) ∧
    ((splitIntSign t.signed s).1 == some true) = decide (s.head? = some 45 ∧ t.signed = true) := by
  cases s with
  | nil => simp [splitIntSign, signLen, hasSign]
  | cons x xs =>
    by_cases h43 : x = 43
    · subst h43; simp [splitIntSign, signLen, hasSign]
    · by_cases h45 : x = 45
      · subst h45
        by_cases hsg : t.signed = true
        · simp [splitIntSign, signLen, hasSign, hsg]
        · simp [splitIntSign, signLen, hasSign, hsg]
      · have : splitIntSign t.signed (x :: xs) = (none, x :: xs) := by
          unfold splitIntSign; split <;> simp_all
        simp [this, signLen, hasSign, h43, h45]

/-- **(c) with base prefix and `no_integer_leading_zeros`**: formats with a contiguous integer iterator (no integer
separator flags; separator byte and the other components' flags arbitrary) and WITHOUT base suffix; base prefix (not
the byte `'0'` — `format.is_valid()` rejects digit prefixes), its case flag, `no_integer_leading_zeros`, the sign flags:
arbitrary; digits required. For every type, radix, `no_multi_digit` and input the complete parser returns `Ok(v)` iff
`Spec.grammarIntComplete` derives the input with value `v` — NO exclusion: without a base suffix the integer parser
has no prefix / leading-zero defect (C12-base-prefix-swallows-leading-zero needs the suffix, see
`witness_prefix_swallows_zero`, `witness_suffix_nolz_zero`). -/
theorem int_accepts_iff_grammar_prefix (c : Cfg) (t : IntTy) (nm : Bool) (hs : Simple c)
    (ha : Admissible ⟨c, t, false, nm⟩) (h48 : c.fmt.basePrefix ≠ 48)
    (hreq : (c.fmt.requiredIntegerDigits || c.fmt.requiredMantissaDigits) = true)
    (s : List Nat) (hb : ∀ b ∈ s, b < 256) (v : Int) :
    complete c t nm s = .ok v ↔ grammarIntComplete c.feats c.fmt t s = .ok v := by
  have hrd : (⟨c, t, false, nm⟩ : Env).requiredDigits = true := by rw [requiredDigits_eq c t false nm hs.hf]; exact hreq
  have hsl : signLen t s ≤ s.length := by
    unfold signLen hasSign; cases s <;> simp; split <;> omega
  have hcomp : ∀ r : Res, ((r.map Prod.fst : Except Err Int) = .ok v) ↔ ∃ k, r = .ok (v, k) := by
    intro r; cases r with
    | error x => simp [Except.map]
    | ok p => obtain ⟨w, k⟩ := p; simp [Except.map]
  unfold complete
  rw [hcomp, parseIntFormat_prefix_eq _ hs]
  simp only [hrd, if_true]
  unfold grammarIntComplete grammarIntSyn
  have hy : (Syn.of c.feats c.fmt).radix = c.fmt.mantissaRadix ∧ (Syn.of c.feats c.fmt).pre = c.fmt.basePrefix ∧
      (Syn.of c.feats c.fmt).suf = 0 ∧ (Syn.of c.feats c.fmt).csPrefix = c.fmt.caseSensitiveBasePrefix ∧
      (Syn.of c.feats c.fmt).noIntLZ = c.fmt.noIntegerLeadingZeros ∧
      (Syn.of c.feats c.fmt).noPosMant = c.fmt.noPositiveMantissaSign ∧
      (Syn.of c.feats c.fmt).reqMantSign = c.fmt.requiredMantissaSign ∧
      ((Syn.of c.feats c.fmt).reqInt || (Syn.of c.feats c.fmt).reqMant) = true := by
    simp [Syn.of, hs.hf, hs.suf, hreq]
  obtain ⟨hy1, hy2, hy3, hy4, hy5, hy6, hy7, hy8⟩ := hy
  have hr2 : 2 ≤ c.fmt.mantissaRadix := by have := ha.r2; simpa [Env.radix, Cfg.mantissaRadix] using this
  have hcs : c.caseSensitiveBasePrefix = c.fmt.caseSensitiveBasePrefix := by simp [Cfg.caseSensitiveBasePrefix, Cfg.flag, hs.hf]
  by_cases hemp : s = []
  · subst hemp
    simp only [List.isEmpty_nil, if_true, signLen, hasSign, List.head?_nil, List.length_nil]
    constructor
    · rintro ⟨k, hk⟩
      simp only [signGate, List.head?_nil, reduceCtorEq, false_and, if_false] at hk
      split at hk <;> simp [err] at hk
    · intro h; cases h
  · have hne : s.isEmpty = false := by simpa using hemp
    simp only [hne, Bool.false_eq_true, if_false]
    obtain ⟨hbody, hnegeq⟩ := splitIntSign_eq t s
    generalize hsp : splitIntSign t.signed s = sp at hbody hnegeq
    obtain ⟨sign, body⟩ := sp
    simp only at hbody hnegeq ⊢
    have hgate := signGate_iff_signOk ⟨c, t, false, nm⟩ s
    rw [hsp] at hgate
    simp only at hgate
    by_cases hbe : body = []
    · -- only a sign byte: `Empty`; the grammar has no digits
      have hlen : signLen t s = s.length := by
        have := congrArg List.length hbody; rw [hbe] at this
        simp only [List.length_nil, List.length_drop] at this; omega
      subst hbe
      simp only [hlen, if_true]
      constructor
      · rintro ⟨k, hk⟩
        simp only [signGate] at hk
        split at hk
        · simp [err] at hk
        · split at hk <;> simp [err] at hk
      · intro h
        simp [splitPrefix, takeDigits, splitSuffix, hy8] at h
    · have hlen : signLen t s ≠ s.length := by
        intro h; apply hbe; rw [hbody, h]; simp
      have hlt : signLen t s < s.length := by omega
      simp only [hlen, if_false]
      have hg := grammar_accept (Syn.of c.feats c.fmt) t (by rw [hy1]; omega) hy3 (by rw [hy2]; exact h48) hy8 sign body hbe
        (decide (s.head? = some 45 ∧ t.signed = true)) hnegeq.symm (by simp) v
      rw [hg, hy1, hy2, hy4, hy5, hy6, hy7]
      cases hok : signOk c.fmt.noPositiveMantissaSign c.fmt.requiredMantissaSign sign with
      | true =>
        rw [(hgate _).1 hok]
        simp only [true_and]
        have := afterSign_accept ⟨c, t, false, nm⟩ rfl ha.ty ha.r2 ha.r36 ha.feat
          (decide (s.head? = some 45 ∧ t.signed = true)) (by simp) s hb (signLen t s) hlt v
        simp only [Env.radix, Cfg.mantissaRadix, hcs] at this
        rw [this, hbody]
      | false =>
        obtain ⟨k, hk⟩ := (hgate _).2 hok
        rw [hk]
        simp [err]

def fmtPrefixXNoLZ : Format := ⟨0x1010100078000000000000000000100c⟩   -- radix 16, prefix `x`, no_integer_leading_zeros

theorem prefixXNoLZ_simple : Simple ⟨featsRF, fmtPrefixXNoLZ, false⟩ := ⟨rfl, rfl, by decide, by decide⟩

/-- non-vacuity of `int_accepts_iff_grammar_prefix`: `0x1f` = 31, `0x01` = 1 (leading zeros behind a prefix are
exempt), `01` rejected by both (`InvalidLeadingZeros`), `0` = 0, `0x` rejected by both -/
example :
    complete ⟨featsRF, fmtPrefixXNoLZ, false⟩ ⟨32, true⟩ false [0x30, 0x78, 0x31, 0x66] = .ok 31 ∧
    grammarIntComplete featsRF fmtPrefixXNoLZ ⟨32, true⟩ [0x30, 0x78, 0x31, 0x66] = .ok 31 ∧
    complete ⟨featsRF, fmtPrefixXNoLZ, false⟩ ⟨32, true⟩ false [0x30, 0x78, 0x30, 0x31] = .ok 1 ∧
    grammarIntComplete featsRF fmtPrefixXNoLZ ⟨32, true⟩ [0x30, 0x78, 0x30, 0x31] = .ok 1 ∧
    complete ⟨featsRF, fmtPrefixXNoLZ, false⟩ ⟨32, true⟩ false [0x30, 0x31] = .error (.err "InvalidLeadingZeros" 0) ∧
    grammarIntComplete featsRF fmtPrefixXNoLZ ⟨32, true⟩ [0x30, 0x31] = .err ∧
    complete ⟨featsRF, fmtPrefixXNoLZ, false⟩ ⟨32, true⟩ false [0x30] = .ok 0 ∧
    grammarIntComplete featsRF fmtPrefixXNoLZ ⟨32, true⟩ [0x30] = .ok 0 ∧
    complete ⟨featsRF, fmtPrefixXNoLZ, false⟩ ⟨32, true⟩ false [0x30, 0x78] = .error (.err "Empty" 2) ∧
    grammarIntComplete featsRF fmtPrefixXNoLZ ⟨32, true⟩ [0x30, 0x78] = .err := by decide

/-- the body (input behind the sign) is one or more `0` followed by a base-suffix byte: the class of the open findings
C12-base-prefix-swallows-leading-zero (integers) and "zero before the base suffix under no_integer_leading_zeros" -/
def zerosThenSuffix (c : Cfg) (t : IntTy) (s : List Nat) : Prop :=
  ∃ k h, 1 ≤ k ∧ isSuffixByte c h = true ∧ s.drop (signLen t s) = List.replicate k 48 ++ [h]

/-- **C12 for a contiguous integer iterator WITH base suffix, full statement under the exact exclusions** (not proved;
holds on every op of the correspondence streams): the complete parser accepts exactly the grammar unless digits are
not required (C12-no-digits-accepted-as-zero) or a base prefix / `no_integer_leading_zeros` is combined with a base
suffix and the body is zeros followed by the suffix (`witness_prefix_swallows_zero`, `witness_suffix_nolz_zero`).
The suffix-free half is `int_accepts_iff_grammar_prefix`. -/
def int_accepts_iff_grammar_contig_full : Prop :=
  ∀ (c : Cfg) (t : IntTy) (nm : Bool) (s : List Nat) (v : Int), c.feats.format = true → c.debug = false →
    (formatError c.feats c.fmt).isNone = true → c.sepFlags .integer = SepFlags.none →
    Admissible ⟨c, t, false, nm⟩ → (∀ b ∈ s, b < 256) →
    (c.fmt.requiredIntegerDigits || c.fmt.requiredMantissaDigits) = true →
    ¬ (c.fmt.baseSuffix ≠ 0 ∧ (c.fmt.basePrefix ≠ 0 ∨ c.fmt.noIntegerLeadingZeros = true) ∧ zerosThenSuffix c t s) →
      (complete c t nm s = .ok v ↔ grammarIntComplete c.feats c.fmt t s = .ok v)

def fmtPrefixDSuffixH : Format := ⟨0xa0a0a6864000000000000000000000c⟩  -- radix 10, prefix `d`, suffix `h`
def fmtNoReq : Format := ⟨0xa0a0a00000000000000000000000000⟩        -- radix 10, no digits required (int_noreq)

/-- **excluded class 1 (C12-base-prefix-swallows-leading-zero)**: with a base prefix configured the leading `0` is
consumed by `skip_zeros` and moves `start_index`; the integer `"0h"` (zero with the optional base suffix) is then
rejected because `cursor - start_index > 1` fails, although the grammar derives it -/
theorem witness_prefix_swallows_zero :
    complete ⟨featsRF, fmtPrefixDSuffixH, false⟩ ⟨32, true⟩ false [0x30, 0x68] = .error (.err "InvalidDigit" 1) ∧
    grammarIntComplete featsRF fmtPrefixDSuffixH ⟨32, true⟩ [0x30, 0x68] = .ok 0 := by decide

/-- **excluded class 2 (C12-no-digits-accepted-as-zero)**: the empty string and a bare sign are accepted as zero
when neither digit flag is set; the documentation keeps the empty string invalid -/
theorem witness_no_digits_zero :
    complete ⟨featsRF, fmtNoReq, false⟩ ⟨32, true⟩ false [] = .ok 0 ∧
    grammarIntComplete featsRF fmtNoReq ⟨32, true⟩ [] = .err := by decide

theorem not_int_accepts_iff_grammar_full : ¬ int_accepts_iff_grammar_full := by
  intro h
  have := (h ⟨featsRF, fmtNoReq, false⟩ ⟨32, true⟩ false [] 0 rfl rfl (by decide)
    ⟨by unfold IsIntTy; decide, by decide, by decide, by decide⟩ (by decide) (by decide)).1
    witness_no_digits_zero.1
  rw [witness_no_digits_zero.2] at this
  cases this

/-- non-vacuity of (c): `no_positive_mantissa_sign` (int_nopossign) rejects `+1`, accepts `-1` -/
def fmtNoPosSign : Format := ⟨0xa0a0a0000000000000000000000001c⟩
example : complete ⟨featsRF, fmtNoPosSign, false⟩ ⟨8, true⟩ false [0x2b, 0x31] = .error (.err "InvalidPositiveSign" 0) ∧
    grammarIntComplete featsRF fmtNoPosSign ⟨8, true⟩ [0x2b, 0x31] = .err ∧
    complete ⟨featsRF, fmtNoPosSign, false⟩ ⟨8, true⟩ false [0x2d, 0x31] = .ok (-1) ∧
    grammarIntComplete featsRF fmtNoPosSign ⟨8, true⟩ [0x2d, 0x31] = .ok (-1) := by decide

/-! ## (d) C11 — the complete and the partial parser agree -/

/-- **C11 clause 1 for the `format` build, full statement**: PROVED (`int_format_complete_iff_partial`). Its former
counter-example `"0"` under `no_integer_leading_zeros` was a defect, repaired in /repo (`regression_I2`). -/
def int_format_complete_iff_partial_full : Prop :=
  ∀ (c : Cfg) (t : IntTy) (nm : Bool) (s : List Nat) (v : Int), c.feats.format = true → c.debug = false →
    (formatError c.feats c.fmt).isNone = true → Admissible ⟨c, t, false, nm⟩ → (∀ b ∈ s, b < 256) →
      (complete c t nm s = .ok v ↔ partial_ c t nm s = .ok (v, s.length))

/-- **C11 clause 1, integers, `format` builds — every valid format** (digit separators with any flags, base prefix,
base suffix, `no_integer_leading_zeros`, any sign / digit flags), every type, radix, `no_multi_digit`, every byte list,
release build: the complete parser returns `Ok(v)` iff the partial parser returns `Ok((v, length))`.
Proof (`Proof/ParseIntFormatAgree.lean`): the two parsers are one macro body and differ only in `invalid_digit!`; they
run in lockstep until its first call, where complete returns `Err` and partial `Ok((_, i))` with `i < length` (cursor
inside the buffer, `Proof/ParseIntFormatTotal.lean`); every other `Ok` carries the buffer length. -/
theorem int_format_complete_iff_partial (c : Cfg) (t : IntTy) (nm : Bool) (hd : c.debug = false)
    (hv : (formatError c.feats c.fmt).isNone = true) (s : List Nat) (v : Int) :
    complete c t nm s = .ok v ↔ partial_ c t nm s = .ok (v, s.length) := by
  have h := (parseIntFormat_agree (t := t) (nm := nm) (LexVerif.Proof.PNTotal.rel_of_valid c hd hv) s).iff v
  unfold complete partial_
  rw [← h]
  cases parseIntFormat ⟨c, t, false, nm⟩ s with
  | error x => simp [Except.map]
  | ok p => obtain ⟨w, k⟩ := p; simp [Except.map]

theorem int_format_complete_iff_partial_full_holds : int_format_complete_iff_partial_full :=
  fun c t nm s v _ hd hv _ _ => int_format_complete_iff_partial c t nm hd hv s v

/-- non-vacuity on a format with everything at once (prefix `x`, suffix `h`, separator `_` I+L+T+C): `"0x1_fh"` -/
example : complete ⟨{ powerOfTwo := true, radix := true, format := true }, ⟨0x101010687800005f000002490000000c⟩, false⟩
      ⟨32, true⟩ false [0x30, 0x78, 0x31, 0x5f, 0x66, 0x68] = .ok 31 ∧
    partial_ ⟨{ powerOfTwo := true, radix := true, format := true }, ⟨0x101010687800005f000002490000000c⟩, false⟩
      ⟨32, true⟩ false [0x30, 0x78, 0x31, 0x5f, 0x66, 0x68] = .ok (31, 6) := by decide

/-- **C11 clause 2 for the `format` build, full statement** (a digit was consumed): FALSE (`witness_I3`, `witness_I4`). -/
def int_format_partial_prefix_full : Prop :=
  ∀ (c : Cfg) (t : IntTy) (nm : Bool) (s : List Nat) (v : Int) (n : Nat), c.feats.format = true → c.debug = false →
    (formatError c.feats c.fmt).isNone = true → Admissible ⟨c, t, false, nm⟩ → (∀ b ∈ s, b < 256) →
      partial_ c t nm s = .ok (v, n) → signLen t s < n → complete c t nm (s.take n) = .ok v

/-- clause 1 on `SimpleFmt` formats through the characterisation (superseded by `int_format_complete_iff_partial`, kept: it
does not go through the lockstep argument but through the specification scan). Clause 2 is false for base suffix (I3)
and base prefix (I4), and for separator formats (C11-partial-count-includes-trailing-separator). -/
theorem int_format_complete_iff_partial_partial (c : Cfg) (t : IntTy) (nm : Bool) (hs : SimpleFmt c)
    (ha : Admissible ⟨c, t, false, nm⟩) (s : List Nat) (hb : ∀ b ∈ s, b < 256) (v : Int) :
    complete c t nm s = .ok v ↔ partial_ c t nm s = .ok (v, s.length) := by
  have ha' : Admissible ⟨c, t, true, nm⟩ := ⟨ha.ty, ha.r2, ha.r36, ha.feat⟩
  unfold complete partial_
  rw [parseIntFormat_simple_spec _ hs ha s hb, parseIntFormat_simple_spec _ hs ha' s hb]
  have hrq : (⟨c, t, false, nm⟩ : Env).requiredDigits = (⟨c, t, true, nm⟩ : Env).requiredDigits := rfl
  simp only [signGate, Env.radix, hrq]
  split
  · simp [err, Except.map]
  · split
    · simp [err, Except.map]
    · split
      · simp only [Except.map, Except.ok.injEq, Prod.mk.injEq]
        constructor
        · intro h; exact ⟨h, trivial⟩
        · intro h; exact h.1
      · -- the specification scan: `Proof/ParseIntPartial.lean`
        have h1 := LexVerif.Proof.ParseIntPartial.spec_complete_ok t c.mantissaRadix s v
        have h2 := LexVerif.Proof.ParseIntPartial.spec_partial_full t c.mantissaRadix s v
        cases hc : Spec.parseInt t c.mantissaRadix false s with
        | ok v1 n1 =>
          have := h1 n1
          cases hp : Spec.parseInt t c.mantissaRadix true s with
          | ok v2 n2 =>
            simp only [ofM, Except.map, Except.ok.injEq, Prod.mk.injEq]
            constructor
            · intro hv; subst hv
              have := (h1 n1 hc); rw [hp] at this
              simp only [PRes.ok.injEq] at this
              exact ⟨this.2.1, by omega⟩
            · rintro ⟨hv, hn⟩; subst hv; subst hn
              have := h2 hp; rw [hc] at this
              simp only [PRes.ok.injEq] at this
              exact this.1
          | _ =>
            simp only [ofM, err, Except.map, Except.ok.injEq, reduceCtorEq, iff_false]
            intro hv; subst hv
            have := (h1 n1 hc).2; rw [hp] at this; cases this
        | _ =>
          simp only [ofM, err, Except.map, reduceCtorEq, false_iff]
          intro hp
          cases hp2 : Spec.parseInt t c.mantissaRadix true s with
          | ok v2 n2 =>
            rw [hp2] at hp
            simp only [ofM, Except.ok.injEq, Prod.mk.injEq] at hp
            obtain ⟨hv, hn⟩ := hp; subst hv; subst hn
            have := h2 hp2; rw [hc] at this; cases this
          | _ => rw [hp2] at hp; simp [ofM, err] at hp

def fmtNoLZ : Format := ⟨0xa0a0a0000000000000000000000100c⟩          -- no_integer_leading_zeros (int_nolz)
def fmtSuffixH : Format := ⟨0x1010106800000000000000000000000c⟩       -- radix 16, base suffix `h` (int_suffix_h)
def fmtPrefixX : Format := ⟨0x1010100078000000000000000000000c⟩       -- radix 16, base prefix `x` (int_prefix_x)

/-- **I2, regression (C11-int-no-leading-zeros-partial, repaired in /repo by "fix: partial integer parser must count the
lone zero under no_integer_leading_zeros")**: `"0"` under `no_integer_leading_zeros`: complete `Ok(0)` and partial
`Ok((0, 1))`. Before the repair the index handed to `into_ok!` was `cursor - zeros` and the partial parser returned
`Ok((0, 0))`, which refuted clause 1. -/
theorem regression_I2 :
    complete ⟨featsRF, fmtNoLZ, false⟩ ⟨32, true⟩ false [0x30] = .ok 0 ∧
    partial_ ⟨featsRF, fmtNoLZ, false⟩ ⟨32, true⟩ false [0x30] = .ok (0, 1) := by decide

/-- **I3 (C11-int-base-suffix-partial)**: `"1+1"` with a base suffix: partial `Ok((1, 2))` (the byte after the digits
is stepped over by `fmt_invalid_digit!`), complete `"1+"` → `InvalidDigit(1)` -/
theorem witness_I3 :
    partial_ ⟨featsRF, fmtSuffixH, false⟩ ⟨32, true⟩ false [0x31, 0x2b, 0x31] = .ok (1, 2) ∧
    complete ⟨featsRF, fmtSuffixH, false⟩ ⟨32, true⟩ false [0x31, 0x2b] = .error (.err "InvalidDigit" 1) := by decide

/-- **I4 (C11-int-base-prefix-without-digits)**: `"0xg"`: partial `Ok((0, 2))`, complete `"0x"` → `Empty(2)` -/
theorem witness_I4 :
    partial_ ⟨featsRF, fmtPrefixX, false⟩ ⟨32, true⟩ false [0x30, 0x78, 0x67] = .ok (0, 2) ∧
    complete ⟨featsRF, fmtPrefixX, false⟩ ⟨32, true⟩ false [0x30, 0x78] = .error (.err "Empty" 2) := by decide

theorem not_int_format_partial_prefix_full : ¬ int_format_partial_prefix_full := by
  intro h
  have := h ⟨featsRF, fmtSuffixH, false⟩ ⟨32, true⟩ false [0x31, 0x2b, 0x31] 1 2 rfl rfl (by decide)
    ⟨by unfold IsIntTy; decide, by decide, by decide, by decide⟩ (by decide) witness_I3.1 (by decide)
  have h2 := witness_I3.2
  simp only [List.take] at this
  rw [h2] at this
  cases this

/-! ## a repaired defect (regression) and one further defect the model predicts and the implementation confirms
(formats of `fmtcat_intfmt.py`) -/

def fmtSepFractionOnly : Format := ⟨0xa0a0a000000005f000000020000000c⟩   -- separator `_`, fraction-internal flag only
def fmtSuffixHNoLZ : Format := ⟨0xa0a0a6800000000000000000000100c⟩       -- base suffix `h` + no_integer_leading_zeros

/-- **regression (known finding "integer reject-all", fixed by repo commit 12a2453)**: a digit-separator byte used by the
fraction / exponent only. The integer iterator is contiguous; before the fix its `current_count()` was the per-buffer
digit count of the non-contiguous `Bytes` (never incremented, 0), `into_ok!` saw `count == 0` and EVERY integer was
rejected as `Empty` (`"123"` → `Empty(3)`). Now the count is the cursor: `"123"` → 123, as the grammar says; the
multi-digit path (i64, 9 digits; blocks counted since 7e8a135) agrees; a separator byte in the input is an invalid
digit for both sides. -/
theorem regression_sep_elsewhere :
    complete ⟨featsRF, fmtSepFractionOnly, false⟩ ⟨32, true⟩ false [0x31, 0x32, 0x33] = .ok 123 ∧
    grammarIntComplete featsRF fmtSepFractionOnly ⟨32, true⟩ [0x31, 0x32, 0x33] = .ok 123 ∧
    partial_ ⟨featsRF, fmtSepFractionOnly, false⟩ ⟨32, true⟩ false [0x31, 0x32, 0x33] = .ok (123, 3) ∧
    complete ⟨featsRF, fmtSepFractionOnly, false⟩ ⟨64, true⟩ false [0x31, 0x32, 0x33, 0x34, 0x35, 0x36, 0x37, 0x38, 0x39]
      = .ok 123456789 ∧
    complete ⟨featsRF, fmtSepFractionOnly, false⟩ ⟨32, true⟩ false [0x31, 0x5f, 0x32] = .error (.err "InvalidDigit" 1) ∧
    grammarIntComplete featsRF fmtSepFractionOnly ⟨32, true⟩ [0x31, 0x5f, 0x32] = .err ∧
    partial_ ⟨featsRF, fmtSepFractionOnly, false⟩ ⟨32, true⟩ false [0x31, 0x5f, 0x32] = .ok (1, 1) := by decide

/-- the format of the regression lies in the class of the theorems above (it did not while the class demanded
`digitSeparator = 0`): non-vacuity of the widened `SimpleFmt` -/
theorem sepFractionOnly_simpleFmt : SimpleFmt ⟨featsRF, fmtSepFractionOnly, false⟩ :=
  ⟨⟨rfl, rfl, by decide, by decide⟩, by decide, by decide⟩

example : (⟨featsRF, fmtSepFractionOnly, false⟩ : Cfg).digitSeparator = 0x5f ∧
    (⟨featsRF, fmtSepFractionOnly, false⟩ : Cfg).bytesContiguous = false ∧
    (⟨featsRF, fmtSepFractionOnly, false⟩ : Cfg).iterContiguous .fraction = false := by decide

/-- **the integer parser is blind to separators configured on the other components**: two `SimpleFmt` configurations
with the same feature set, radix and the four flags the integer parser reads (separator byte, fraction / exponent
separator flags and all float-only flags arbitrary on both sides) compute the same result on EVERY input — also on
inputs containing either separator byte. -/
theorem parseIntFormat_separator_irrelevant (e e2 : Env) (hs : SimpleFmt e.c) (hs2 : SimpleFmt e2.c)
    (hfeats : e.c.feats = e2.c.feats) (ht : e.t = e2.t) (hp : e.partial_ = e2.partial_) (hnm : e.noMulti = e2.noMulti)
    (hr : e.c.fmt.mantissaRadix = e2.c.fmt.mantissaRadix)
    (hri : e.c.fmt.requiredIntegerDigits = e2.c.fmt.requiredIntegerDigits)
    (hrm : e.c.fmt.requiredMantissaDigits = e2.c.fmt.requiredMantissaDigits)
    (hnp : e.c.fmt.noPositiveMantissaSign = e2.c.fmt.noPositiveMantissaSign)
    (hrs : e.c.fmt.requiredMantissaSign = e2.c.fmt.requiredMantissaSign) (s : List Nat) :
    parseIntFormat e s = parseIntFormat e2 s := by
  have hrad : e.radix = e2.radix := by simp [Env.radix, Cfg.mantissaRadix, hr]
  have hreq : e.requiredDigits = e2.requiredDigits := by
    obtain ⟨c, t, p, nm⟩ := e; obtain ⟨c2, t2, p2, nm2⟩ := e2
    rw [requiredDigits_eq c t p nm hs.hf, requiredDigits_eq c2 t2 p2 nm2 hs2.hf]
    simp only at hri hrm; rw [hri, hrm]
  rw [parseIntFormat_simple_eq e hs.toSimple hs.pre hs.nolz, parseIntFormat_simple_eq e2 hs2.toSimple hs2.pre hs2.nolz]
  simp only [signGate, hfeats, ht, hp, hnm, hrad, hreq, hnp, hrs]

theorem standard_simpleFmt : SimpleFmt ⟨featsRF, Format.standard, false⟩ :=
  ⟨⟨rfl, rfl, by decide, by decide⟩, by decide, by decide⟩

/-- non-vacuity: `fmtSepFractionOnly` against the plain radix-10 format `Format.standard` -/
example (t : IntTy) (p nm : Bool) (s : List Nat) :
    parseIntFormat ⟨⟨featsRF, fmtSepFractionOnly, false⟩, t, p, nm⟩ s =
      parseIntFormat ⟨⟨featsRF, Format.standard, false⟩, t, p, nm⟩ s :=
  parseIntFormat_separator_irrelevant ⟨⟨featsRF, fmtSepFractionOnly, false⟩, t, p, nm⟩
    ⟨⟨featsRF, Format.standard, false⟩, t, p, nm⟩ sepFractionOnly_simpleFmt standard_simpleFmt rfl rfl rfl rfl
    (by dsimp only; decide) (by dsimp only; decide) (by dsimp only; decide) (by dsimp only; decide)
    (by dsimp only; decide) s

/-- base suffix with `no_integer_leading_zeros` (no prefix): `"0h"` → `InvalidDigit(1)`; the grammar derives 0 -/
theorem witness_suffix_nolz_zero :
    complete ⟨featsRF, fmtSuffixHNoLZ, false⟩ ⟨32, true⟩ false [0x30, 0x68] = .error (.err "InvalidDigit" 1) ∧
    grammarIntComplete featsRF fmtSuffixHNoLZ ⟨32, true⟩ [0x30, 0x68] = .ok 0 := by decide

end LexVerif.Props.C04Format
