import LexVerif.Props.RoundNE
/-!
# C06 — power-of-two radix float output is exact and round-trips (property theorems)

The judge used by the check evaluates each written output exactly and compares it with the float.
The theorem below is what turns "exact" into "round-trips": any fraction denoting exactly the value of
a finite float is rounded back to that float by the specification parser's conversion.
-/
namespace LexVerif.Props.C06
open LexVerif.Spec LexVerif.Proof.RoundNE LexVerif.Props.RoundNE

/-- exactness implies round trip: a literal whose exact value is the float's value re-parses to the same bits -/
theorem exact_implies_roundtrip {f : Fmt} (hf : WF f) {b : Nat} (hb : b < f.infBits) (num : Nat) {den : Nat}
    (hd : 0 < den) (h : (num : ℚ) / den = valQ f b) : roundNE f num den = b :=
  roundNE_of_valQ hf hb num hd h

/-- instance for binary64: every finite pattern -/
theorem exact_implies_roundtrip_f64 {b : Nat} (hb : b < f64.infBits) (num : Nat) {den : Nat}
    (hd : 0 < den) (h : (num : ℚ) / den = valQ f64 b) : roundNE f64 num den = b :=
  roundNE_of_valQ wf_f64 hb num hd h

end LexVerif.Props.C06
