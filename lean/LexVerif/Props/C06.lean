import LexVerif.Props.RoundNE
import LexVerif.Proof.WriteBinaryBits
import LexVerif.Proof.WriteBinaryBytes
import LexVerif.Spec.StdFloat
/-!
# C06 — power-of-two radix float output is exact and round-trips (property theorems)

The judge used by the check evaluates each written output exactly and compares it with the float.
The theorem below is what turns "exact" into "round-trips": any fraction denoting exactly the value of
a finite float is rounded back to that float by the specification parser's conversion.

Section "the writers": theorems about the Lean model of `binary.rs` / `hex.rs` (`Model/WriteBinary.lean`, tied to the
code by the `wf` correspondence of `./check C06`, which compares the model's BYTES with the implementation's):
* the integer helpers `calculate_shl`, `inverse_remainder`, `fast_ceildiv`, both `scale_sci_exp` are floor division /
  modulus on every exponent a float can have;
* `writeBinary_exact_digits_partial`: for EVERY finite f32/f64 (zero included, sign removed), radix 2/4/8/16/32, exponent base equal or one of
  the documented mixed pairs, scientific and both positional notations, any break points, any `min_significant_digits`,
  trim on/off: the laid-out digits (integer part, fraction part, explicit exponent) denote exactly the float's value;
* `writeBinary_roundtrip_partial`: hence the fraction a parser reads from those digits rounds back to the same bits.
* `writeBinary_exact_holds` / `writeBinary_parses_back`: the BYTE-level statement — the bytes (sign, digit characters,
  decimal point, exponent character, exponent sign and digits in the exponent radix) are accepted completely by
  `Spec.parseStdComplete` as a literal that `Spec.litBits` maps back to the same bits, for every finite float.
Not covered by theorems: `max_significant_digits` (C14), specials (in radix 32 `NaN`/`inf` are digit strings), formats with
syntax flags; the mantissa digits are `Spec.toDigits` (the integer writer is C03's subject).
-/
namespace LexVerif.Props.C06
open LexVerif.Spec LexVerif.Proof.RoundNE LexVerif.Props.RoundNE

/-- exactness implies round trip: a literal whose exact value is the float's value re-parses to the same bits -/
theorem exact_implies_roundtrip {f : Fmt} (hf : WF f) {b : Nat} (hb : b < f.infBits) (num : Nat) {den : Nat}
    (hd : 0 < den) (h : (num : ℚ) / den = valQ f b) : roundNE f num den = b :=
  roundNE_of_valQ hf hb num hd h

/-- instance for binary64: every finite pattern -/
theorem exact_implies_roundtrip_f64 {b : Nat} (hb : b < f64.infBits) (num : Nat) {den : Nat}
    (hd : 0 < den) (h : (num : ℚ) / den = valQ f64 b) : roundNE f64 num den = b :=
  roundNE_of_valQ wf_f64 hb num hd h

/-! ## the writers -/
section Writers
open LexVerif.Model LexVerif.Model.WriteBinary LexVerif.Model.Dragonbox
open LexVerif.Proof.WriteBinaryArith LexVerif.Proof.WriteBinaryExact LexVerif.Proof.WriteBinaryBits
open LexVerif.Proof.DragonboxSpec

/-- `calculate_shl(e, bits_per_digit) = e mod bits_per_digit` (non-negative modulus): `e - shl` is a digit boundary -/
theorem calculate_shl_is_mod {e bpd : Int} (he1 : -4000 ≤ e) (he2 : e ≤ 4000) (h1 : 1 ≤ bpd) (h5 : bpd ≤ 5) :
    calculateShl e bpd = e % bpd := calculateShl_eq he1 he2 h1 h5

/-- `fast_ceildiv(v, b) = ⌈v / b⌉` for `v ≥ 0` -/
theorem fast_ceildiv_is_ceil {v bpd : Int} (hv0 : 0 ≤ v) (hv : v ≤ 4000) (h1 : 1 ≤ bpd) (h5 : bpd ≤ 5) :
    fastCeildiv v bpd = -((-v) / bpd) := fastCeildiv_eq hv0 hv h1 h5

/-- `binary::scale_sci_exp` is floor division, also for negative scientific exponents -/
theorem scale_sci_exp_is_floor {s bpd : Int} (hs1 : -4000 ≤ s) (hs2 : s ≤ 4000) (h1 : 1 ≤ bpd) (h5 : bpd ≤ 5) :
    scaleSciExp s bpd = s / bpd := scaleSciExp_eq hs1 hs2 h1 h5

/-- `hex::scale_sci_exp`: the exponent written in base `2^bpb` is worth exactly `⌊s / bpd⌋` digits of `2^bpd` -/
theorem hex_scale_sci_exp_exact {s bpd bpb : Int} (hs1 : -4000 ≤ s) (hs2 : s ≤ 4000) (h1 : 1 ≤ bpd) (h5 : bpd ≤ 5)
    (hb : bpb = 1 ∨ (bpb = 2 ∧ bpd = 4) ∨ bpb = bpd) :
    scaleSciExpHex s bpd bpb * bpb = s / bpd * bpd := scaleSciExpHex_eq hs1 hs2 h1 h5 hb

/-- PROVED PART 1 (digits): every finite float (sign removed; `+0.0` included), every power-of-two radix and documented base pair, all three
layouts, any break points / `min_significant_digits` / trim: the digits denote exactly `valQ` -/
theorem writeBinary_exact_digits_partial (fmt : Format) (o : WOpts) (t : FTy) {bits bpd bpb : Nat}
    (hr : fmt.mantissaRadix = 2 ^ bpd) (hb : fmt.exponentBase = 2 ^ bpb) (hp : IsPair bpd bpb)
    (hfin : bits < (fmtOf t).infBits) :
    layoutQ (2 ^ bpd) (2 ^ bpb) (layoutBits fmt o t bits) = valQ (fmtOf t) bits :=
  layoutBits_exact_all fmt o t hr hb hp hfin

/-- PROVED PART 2 (round trip): the fraction `(num, den)` those digits denote — the one `Spec.litBits` rounds — is
rounded by the exact `roundNE` to the bits that were written -/
theorem writeBinary_roundtrip_partial (fmt : Format) (o : WOpts) (t : FTy) {bits bpd bpb : Nat}
    (hr : fmt.mantissaRadix = 2 ^ bpd) (hb : fmt.exponentBase = 2 ^ bpb) (hp : IsPair bpd bpb)
    (hfin : bits < (fmtOf t).infBits) :
    roundNE (fmtOf t) (layoutFrac (2 ^ bpd) (2 ^ bpb) (layoutBits fmt o t bits)).1
      (layoutFrac (2 ^ bpd) (2 ^ bpb) (layoutBits fmt o t bits)).2 = bits :=
  layoutBits_roundtrip fmt o t hr hb hp hfin

/-- the hypotheses are satisfiable for each of the ten (radix, base) pairs the writers accept -/
example : IsPair 1 1 ∧ IsPair 2 2 ∧ IsPair 3 3 ∧ IsPair 4 4 ∧ IsPair 5 5 ∧ IsPair 2 1 ∧ IsPair 3 1 ∧ IsPair 4 1
    ∧ IsPair 5 1 ∧ IsPair 4 2 := by unfold IsPair; decide

/-- FULL STATEMENT (byte level), PROVED below (`writeBinary_exact_holds`): with default digit options, for every finite
float the bytes the model writes are accepted by the complete specification parser of the same format, as a literal
that `litBits` (exact value, then `roundNE`) maps back to the float's bits — sign, signed zero, subnormals included. -/
def writeBinary_exact : Prop :=
  ∀ (fmt : Format) (feats : Features) (o : WOpts) (t : FTy) (bits bpd bpb : Nat),
    fmt.mantissaRadix = 2 ^ bpd → fmt.exponentBase = 2 ^ bpb → IsPair bpd bpb → 2 ≤ fmt.exponentRadix →
    fmt.exponentRadix ≤ 36 → fmt.flagBits = 12 → o.maxDigits = none → o.minDigits = none →
    (digitVal (2 ^ bpd) o.exp).isNone → (digitVal (2 ^ bpd) o.dp).isNone → o.exp ≠ o.dp →
    bits % (fmtOf t).signBit < (fmtOf t).infBits → bits < 2 ^ t.bits →
    ∃ bytes l n, writeFloat fmt feats o t bits = some bytes
      ∧ parseStdComplete (2 ^ bpd) fmt.exponentRadix { exp := o.exp, dp := o.dp, nan := o.nan, inf := o.inf } bytes
          = .num l n
      ∧ litBits (fmtOf t) (2 ^ bpd) (2 ^ bpb) l = bits

/-- C06 for the model, complete: digits → bytes (`render`, `digitChar`, decimal point, exponent character, exponent sign
and digits in the exponent radix) → `Spec.parseStdComplete` → `Spec.litBits` is the identity on every finite f32 / f64,
for radix 2/4/8/16/32, the ten (radix, base) pairs, any exponent radix 2..36, scientific and both positional notations
(any break points, trim on/off, any `min_significant_digits`). The whole input is consumed (`n = bytes.length`). -/
theorem writeBinary_parses_back (fmt : Format) (feats : Features) (o : WOpts) (t : FTy) {bits bpd bpb : Nat}
    (hr : fmt.mantissaRadix = 2 ^ bpd) (hb : fmt.exponentBase = 2 ^ bpb) (hp : IsPair bpd bpb)
    (her2 : 2 ≤ fmt.exponentRadix) (her : fmt.exponentRadix ≤ 36) (hflags : fmt.flagBits = 12)
    (hexp : (digitVal (2 ^ bpd) o.exp).isNone) (hdp : (digitVal (2 ^ bpd) o.dp).isNone) (hne : o.exp ≠ o.dp)
    (hfin : bits % (fmtOf t).signBit < (fmtOf t).infBits) (hlt : bits < 2 ^ t.bits) :
    ∃ bytes l n, writeFloat fmt feats o t bits = some bytes
      ∧ parseStdComplete (2 ^ bpd) fmt.exponentRadix { exp := o.exp, dp := o.dp, nan := o.nan, inf := o.inf } bytes
          = .num l n
      ∧ n = bytes.length
      ∧ litBits (fmtOf t) (2 ^ bpd) (2 ^ bpb) l = bits :=
  LexVerif.Proof.WriteBinaryBytes.writeFloat_parses_back fmt feats o t hr hb hp her2 her hflags hexp hdp hne hfin hlt

theorem writeBinary_exact_holds : writeBinary_exact := by
  intro fmt feats o t bits bpd bpb hr hb hp her2 her hflags _ _ hexp hdp hne hfin hlt
  obtain ⟨bytes, l, n, h1, h2, _, h4⟩ := writeBinary_parses_back fmt feats o t hr hb hp her2 her hflags hexp hdp hne hfin hlt
  exact ⟨bytes, l, n, h1, h2, h4⟩

/-- the hypotheses are satisfiable: hexadecimal with `^` as exponent character, every finite double of either sign -/
example (bits : Nat) (hfin : bits % (fmtOf .f64).signBit < (fmtOf .f64).infBits) (hlt : bits < 2 ^ FTy.f64.bits) :
    ∃ bytes l n, writeFloat ⟨12 + 16 * 2 ^ 104⟩ {} { exp := 94 } .f64 bits = some bytes
      ∧ parseStdComplete (2 ^ 4) (Format.exponentRadix ⟨12 + 16 * 2 ^ 104⟩)
          { exp := 94, dp := 46, nan := some [78, 97, 78], inf := some [105, 110, 102] } bytes = .num l n
      ∧ litBits (fmtOf .f64) (2 ^ 4) (2 ^ 4) l = bits :=
  writeBinary_exact_holds ⟨12 + 16 * 2 ^ 104⟩ {} { exp := 94 } .f64 bits 4 4 (by decide) (by decide)
    (by unfold IsPair; decide) (by decide) (by decide) (by decide) rfl rfl (by decide) (by decide) (by decide) hfin hlt

/-! byte-level instances of the full statement, evaluated by the kernel (scientific, positional, negative, subnormal,
zero; binary, hex-with-binary-exponent) -/
def fmtOfRadix (r b er : Nat) : Format := ⟨12 + r * 2 ^ 104 + b * 2 ^ 112 + er * 2 ^ 120⟩
def popts (o : WOpts) : POpts := { exp := o.exp, dp := o.dp, nan := o.nan, inf := o.inf }
def roundTripsBytes (fmt : Format) (o : WOpts) (t : FTy) (bits : Nat) : Bool :=
  match writeFloat fmt { powerOfTwo := true, radix := true } o t bits with
  | some bytes =>
    (match parseStdComplete fmt.mantissaRadix fmt.exponentRadix (popts o) bytes with
     | .num l _ => litBits (fmtOf t) fmt.mantissaRadix fmt.exponentBase l == bits
     | _ => false)
  | none => false

/-- 1.5 in hexadecimal is `1.8` -/
example : writeFloat (fmtOfRadix 16 16 16) { powerOfTwo := true } { exp := 94 } .f64 0x3FF8000000000000
    = some [49, 46, 56] := by decide +kernel
/-- C-style hex float digits: 2^-1074 = `4.0p-1076` in radix 16 / base 2 / decimal exponent digits -/
example : writeFloat (fmtOfRadix 16 2 10) { powerOfTwo := true } { exp := 112 } .f64 1
    = some [52, 46, 48, 112, 45, 49, 48, 55, 54] := by decide +kernel
example : ([0x3FF8000000000000, 1, 0x7FEFFFFFFFFFFFFF, 0x8000000000000000 + 0x4093480000000000, 0, 0x3F50624DD2F1A9FC,
    0x000FFFFFFFFFFFFF, 0x0010000000000000].all fun b =>
      [(2, 2, 2), (4, 4, 4), (8, 8, 8), (16, 16, 16), (32, 32, 32), (16, 2, 10), (4, 2, 10), (8, 2, 8), (32, 2, 2), (16, 4, 10)].all
        fun (r, b', er) => roundTripsBytes (fmtOfRadix r b' er) { exp := if r > 25 then 94 else if r ≥ 15 then 112 else 101 } .f64 b)
    = true := by decide +kernel

end Writers

end LexVerif.Props.C06
