import LexVerif.Props.C07
/-!
# C14 for the generic-radix writer (radix.rs): root causes of the open findings, laws of the repaired model

Model: `Model/WriteRadix.lean` (byte-exact with radix.rs). `writeFloat cf feats f fmt o bits len wf mf`:
`wf` / `mf` = the repairs fixes/C07-generic-radix-positional-truncation.diff and
fixes/C14-generic-digit-options-min-and-literal.diff (defaults `false` = /repo now); the tie-parity repair
fixes/C14-generic-radix-tie-parity.diff is `truncateAndRoundP true`.
-/
namespace LexVerif.Props.C14Radix
open LexVerif.Spec LexVerif.Model LexVerif.Model.WriteRadix LexVerif.Props.C07
open LexVerif.Proof.WriteRadixWF LexVerif.Proof.WriteRadixFix LexVerif.Proof.WriteRadixFrac
open LexVerif.Proof.WriteRadixTermInt
open LexVerif.Model.WriteInt (Res)

/-- radix 12 plain format -/
def fmt12 : Format := ⟨0xc0c0c0000000000000000000000000c⟩

/-! ## decided root causes (code as in /repo now) and the repaired outputs -/

/-- **C14-generic-digit-options-fewer-than-min**: `write_float_nonscientific` pads to `min_significant_digits` against
a `digit_count` that includes the leading zeros (`"0"`, `"0"` of `0.01`): binary32 1/9 in radix 3, min 3 → `"0.01"`
(one significant digit). `wf f32 303030000000000000000000000000c 3de38e39 - 3 - - r 0 101 46 4e614e 696e66 -`.
Repaired: `"0.0100"`. -/
theorem finding_min_counts_leading_zeros :
    WriteRadix.writeFloat true featsRadix f32 fmt3 { minDigits := some 3 } 0x3de38e39 256 = .ok [48, 46, 48, 49]
    ∧ WriteRadix.writeFloat true featsRadix f32 fmt3 { minDigits := some 3 } 0x3de38e39 256 true true
        = .ok [48, 46, 48, 49, 48, 48] := by
  refine ⟨by decide +kernel, by decide +kernel⟩

/-- **C14-generic-digit-options-not-a-literal**: after rounding to `max_significant_digits` the kept fraction digits can
all be zeros; they are trimmed and nothing is written after the point: binary32 `1 + 2^-23` in radix 3, max 2 → `"1."`.
`wf f32 303030000000000000000000000000c 3f800001 2 - - - r 0 101 46 4e614e 696e66 -`.
Repaired: `"1.0"`, and `"1"` with `trim_floats`. -/
theorem finding_point_without_fraction :
    WriteRadix.writeFloat true featsRadix f32 fmt3 { maxDigits := some 2 } 0x3f800001 256 = .ok [49, 46]
    ∧ WriteRadix.writeFloat true featsRadix f32 fmt3 { maxDigits := some 2 } 0x3f800001 256 true true
        = .ok [49, 46, 48]
    ∧ WriteRadix.writeFloat true featsRadix f32 fmt3 { maxDigits := some 2, trim := true } 0x3f800001 256 true true
        = .ok [49] := by
  refine ⟨by decide +kernel, by decide +kernel, by decide +kernel⟩

/-- **NEW: tie parity on the ASCII character** (`last & 1` in the even-radix branch of `truncate_and_round`): the
exact tie `A.6` (10.5) in radix 12 cut to one digit keeps the buffer `"A6"` under half-to-even, but the snapshot tests
the parity of `'A'` = 65 and rounds up to `B`; `B.6` (11.5) is rounded DOWN. Scratch-buffer level, both variants;
op: `wf f32 c0c0c0000000000000000000000000c 41280000 1 - - - r 0 101 46 4e614e 696e66 -` → `"B.0"` (repaired `"A.0"`). -/
theorem finding_tie_parity_on_character :
    truncateAndRoundP false 12 { maxDigits := some 1 } [65, 54] 0 2 = .ok ([66, 54], 1, false)
    ∧ truncateAndRoundP true 12 { maxDigits := some 1 } [65, 54] 0 2 = .ok ([65, 54], 1, false)
    ∧ truncateAndRoundP false 12 { maxDigits := some 1 } [66, 54] 0 2 = .ok ([66, 54], 1, false)
    ∧ truncateAndRoundP true 12 { maxDigits := some 1 } [66, 54] 0 2 = .ok ([49, 54], 1, true) := by
  refine ⟨by decide, by decide, by decide, by decide⟩

/-- the same through the whole writer, whichever way the switch stands -/
theorem tie_parity_whole_writer :
    WriteRadix.writeFloat true featsRadix f32 fmt12 { maxDigits := some 1 } 0x41280000 256
      = .ok (if repoHasTieParityFix then [65, 46, 48] else [66, 46, 48]) := by decide +kernel

/-! ## laws of the repaired positional writer -/

/-- **LITERAL law** (every option set): the text is integer digits, then nothing or the point followed by AT LEAST ONE
digit, then nothing or the exponent — never `"1."`, `"0."`, `"-0."` -/
theorem radix_literal_law {f : Fmt} (hf : StdFmt f) {r : Nat} (hr : r ∈ genericRadices) (feats : Features)
    (fmt : Format) (hfr : fmt.mantissaRadix = r) (o : WOpts) {bits : Nat} (hb : bits < f.infBits) (len : Nat)
    {text : List Nat} (hw : WriteRadix.writeFloat true feats f fmt o bits len true true = .ok text) :
    StrictShape o.dp o.exp text := by
  obtain ⟨h3, h36⟩ := genericRadices_bounds r hr
  rw [writeFloat_W, hfr] at hw
  cases hg : generate true f r bits with
  | ok g =>
    rw [hg] at hw
    simp only [Res.bind] at hw
    cases hl : layoutTextW true (WriteFloat.effFmt feats fmt) feats o r g with
    | ok t =>
      rw [hl] at hw
      simp only at hw
      split at hw
      · simp at hw
      · simp only [Res.ok.injEq] at hw
        subst hw
        obtain ⟨hd, hne⟩ := generate_digitBytes hf.fok (by omega) h36 (hf.radix_lt h36) (hf.predOne hr) hb hg
        exact layoutTextW_strict (WriteFloat.effFmt feats fmt) feats o (by omega) h36 g hd hne hl
    | fault => rw [hl] at hw; simp at hw
    | panic => rw [hl] at hw; simp at hw
  | fault => rw [hg] at hw; simp [Res.bind] at hw
  | panic => rw [hg] at hw; simp [Res.bind] at hw

/-- **DIGIT-COUNT law** of the repaired tail: with `min_significant_digits = mn`, unless the value is trimmed to an
integer, a point is written and at least `mn` digits stand at and after position `leading` (the first significant
digit), provided that digit is kept -/
theorem radix_min_digits_law (leading : Nat) (o : WOpts) (digits : List Nat) (il mn : Nat)
    (hmin : o.minDigits = some mn)
    (hlead : leading < digits.length - rtrimCount 48 ((digits.drop (min digits.length il)).take (digits.length - il)))
    (hnt : ¬ (digits.length - il - rtrimCount 48 ((digits.drop (min digits.length il)).take (digits.length - il)) = 0
      ∧ o.trim = true)) :
    ∃ fd, (nonsciFinish2 leading o digits il).text
        = digits.take (min digits.length il) ++ List.replicate (il - min digits.length il) 48 ++ o.dp :: fd ∧
      mn + leading ≤ il + fd.length :=
  nonsciFinish2_min_law leading o digits il mn hmin hlead hnt

/-- **NOTATION law**: exponent notation iff it is not forbidden and (required or the scientific exponent of the
UNROUNDED digits is outside the break points) -/
theorem radix_notation_law (mf : Bool) (fmt : Format) (feats : Features) (o : WOpts) (r : Nat) (g : Gen) :
    layoutTextW mf fmt feats o r g =
      if ¬ fmt.noExponentNotation ∧ (fmt.requiredExponentNotation ∨
          (sciExpOf g < o.negBreak.getD (-5) ∨ sciExpOf g > o.posBreak.getD 9))
      then sciText fmt feats o r g (sciExpOf g) else nonsciTextW mf o r g := rfl

/-- **VALUE law, full statement (NOT proved; judged exactly on every op of the stream by props/C14.py `radix_laws`).**
On a window of valid digits with `mx + (leading zeros) < window length`, Round mode, the repaired
`truncate_and_round` keeps digits whose value (scaled to the window) is a multiple of the unit `u` of the last kept
digit, within `u/2` of the window's value, and even in units of `u` at an exact tie. -/
def C14_radix_value_law : Prop :=
  ∀ (r mx : Nat) (o : WOpts) (buf : List Nat) (s e : Nat) (x : List Nat × Nat × Bool),
    2 ≤ r → r ≤ 36 → s ≤ e → e ≤ buf.length → LexVerif.Proof.WriteRadixRound.Win r buf s (e - s) →
    o.maxDigits = some mx → 1 ≤ mx → o.truncate = false →
    mx + ltrimCount 48 ((buf.drop s).take (e - s)) < e - s →
    truncateAndRoundP true r o buf s e = .ok x →
    let W := ofDigits r (((buf.drop s).take (e - s)).map LexVerif.Proof.WriteRadixMid.byteDigit)
    let u := r ^ (e - s - (mx + ltrimCount 48 ((buf.drop s).take (e - s))))
    let kept := ofDigits r (((x.1.drop s).take x.2.1).map LexVerif.Proof.WriteRadixMid.byteDigit)
      * r ^ (if x.2.2 then e - s else e - s - x.2.1)
    u ∣ kept ∧ 2 * (kept - W) ≤ u ∧ 2 * (W - kept) ≤ u ∧ (2 * (kept - W) = u ∨ 2 * (W - kept) = u → kept / u % 2 = 0)

end LexVerif.Props.C14Radix
