import LexVerif.Spec.ParseInt
import LexVerif.Proof.ParseIntMain
import LexVerif.Proof.ParseIntSwar
/-!
# C04 — string→integer parsing is exact with exact overflow detection (property theorems)
-/
namespace LexVerif.Props.C04
open LexVerif.Spec

/-- index carried by a result -/
def PRes.index : PRes → Nat
  | .ok _ n => n | .empty i => i | .invalidDigit i => i | .overflow i => i | .underflow i => i
  | .invalidNegativeSign i => i

theorem scanDigits_index_le (r mx : Nat) (neg p : Bool) (cs : List Nat) (acc i : Nat) :
    PRes.index (scanDigits r mx neg p cs acc i) ≤ i + cs.length := by
  induction cs generalizing acc i with
  | nil => simp [scanDigits, PRes.index]
  | cons c cs ih =>
    simp only [scanDigits]
    cases digitVal r c with
    | none => cases p <;> simp [PRes.index]
    | some d =>
      simp only
      split
      · cases neg <;> simp [PRes.index]
      · have := ih (acc * r + d) (i + 1)
        simp only [List.length_cons]; omega

/-- "no index ever exceeds the input length" for the specification scan -/
theorem spec_index_le_length (t : IntTy) (r : Nat) (p : Bool) (s : List Nat) :
    PRes.index (parseInt t r p s) ≤ s.length := by
  unfold parseInt
  split
  next neg rest i heq =>
    have key : i + rest.length = s.length := by
      split at heq
      · cases heq; simp; omega
      · split at heq <;> cases heq <;> simp <;> omega
      · cases heq; simp
    cases rest with
    | nil => simp [PRes.index]; omega
    | cons c cs =>
      have := scanDigits_index_le r (t.maxMag neg) neg p (c :: cs) 0 i
      simp only at *; omega


/-! ## the model of `lexical-parse-integer/src/algorithm.rs` computes the specification -/

open LexVerif.Model LexVerif.Model.ParseInt LexVerif.Proof.ParseInt

/-- The full statement of C04 on the model: for each of the 12 integer types (10 distinct (bits, signed) pairs;
`usize/isize` are 64-bit), every radix 2..36 the feature set allows (`power-of-two`/`radix` builds: any;
otherwise the format validator only lets radix 10 through), both parsers, both `no_multi_digit` settings
and every byte string, the model returns exactly what the left-to-right scan of the specification
returns (in particular never `FAULT`). -/
def parseInt_model_eq_spec_full : Prop :=
  ∀ (feats : Features) (t : IntTy), IsIntTy t → ∀ (r : Nat), 2 ≤ r → r ≤ 36 → (feats.powerOfTwo = true ∨ r = 10) →
    ∀ (partial_ noMulti : Bool) (s : List Nat), (∀ b ∈ s, b < 256) →
      Model.ParseInt.parseInt feats t r partial_ noMulti s = .done (Spec.parseInt t r partial_ s)

theorem hmulti_of {feats : Features} {r : Nat} {nm : Bool} (hfeat : feats.powerOfTwo = true ∨ r = 10)
    (hsw : r ≤ 10 → SwarCorrect r) : (canMulti feats r && !nm) = true → r ≤ 10 ∧ SwarCorrect r := by
  intro h
  have h10 : r ≤ 10 := by
    rcases hfeat with hp | h10
    · simp [canMulti, hp] at h; exact h.1
    · omega
  exact ⟨h10, hsw h10⟩

/-- C04 on the model, conditional on the correctness of the four SWAR kernels for the radix in use
(`SwarCorrect r`: `is_{4,8}digits` ⇔ all bytes are digits, `parse_{4,8}digits` = positional value). -/
theorem parseInt_model_eq_spec_partial (feats : Features) (t : IntTy) (ht : IsIntTy t) (r : Nat) (h2 : 2 ≤ r)
    (hr : r ≤ 36) (hfeat : feats.powerOfTwo = true ∨ r = 10) (hsw : r ≤ 10 → SwarCorrect r)
    (partial_ noMulti : Bool) (s : List Nat) (hs : ∀ b ∈ s, b < 256) :
    Model.ParseInt.parseInt feats t r partial_ noMulti s = .done (Spec.parseInt t r partial_ s) :=
  parseInt_eq_spec_of feats t ht h2 hr partial_ noMulti (hmulti_of hfeat hsw) s hs

/-- C04 on the model with `no_multi_digit = true` (no SWAR code is reached): unconditional, any feature set. -/
theorem parseInt_model_eq_spec_noMulti (feats : Features) (t : IntTy) (ht : IsIntTy t) (r : Nat) (h2 : 2 ≤ r)
    (hr : r ≤ 36) (partial_ : Bool) (s : List Nat) (hs : ∀ b ∈ s, b < 256) :
    Model.ParseInt.parseInt feats t r partial_ true s = .done (Spec.parseInt t r partial_ s) :=
  parseInt_eq_spec_of feats t ht h2 hr partial_ true (by simp) s hs

/-- **C04 on the model, unconditional**: for each of the 12 integer types, every radix 2..36 accepted by the
feature set, `parse` and `parse_partial`, `no_multi_digit` on and off, and every byte string, the model of
`algorithm.rs` (wrapping prefix of `overflow_digits` digits incl. the 4/8-digit SWAR loops, then the
`checked_mul`/`checked_add|sub` tail) returns exactly the result of the specification's exact left-to-right scan. -/
theorem parseInt_model_eq_spec (feats : Features) (t : IntTy) (ht : IsIntTy t) (r : Nat) (h2 : 2 ≤ r)
    (hr : r ≤ 36) (hfeat : feats.powerOfTwo = true ∨ r = 10)
    (partial_ noMulti : Bool) (s : List Nat) (hs : ∀ b ∈ s, b < 256) :
    Model.ParseInt.parseInt feats t r partial_ noMulti s = .done (Spec.parseInt t r partial_ s) :=
  parseInt_model_eq_spec_partial feats t ht r h2 hr hfeat (fun h10 => swarCorrect h2 h10) partial_ noMulti s hs

theorem parseInt_model_eq_spec_full_holds : parseInt_model_eq_spec_full :=
  fun feats t ht r h2 hr hfeat p nm s hs => parseInt_model_eq_spec feats t ht r h2 hr hfeat p nm s hs

/-- the SWAR kernels are correct for every radix that can reach them -/
theorem swar_correct (r : Nat) (h2 : 2 ≤ r) (h10 : r ≤ 10) : SwarCorrect r := swarCorrect h2 h10

/-- `overflow_digits(radix)` digits never leave the positive range of the type -/
theorem overflowDigits_is_safe (t : IntTy) (ht : IsIntTy t) (r : Nat) (h2 : 2 ≤ r) (hr : r ≤ 36) :
    r ^ overflowDigits t r ≤ t.maxMag false + 1 := overflowDigits_safe t ht h2 hr

/-- consequences for the model: no unchecked access goes out of bounds, and no reported index exceeds the input length -/
theorem model_no_fault_index_le (feats : Features) (t : IntTy) (ht : IsIntTy t) (r : Nat) (h2 : 2 ≤ r)
    (hr : r ≤ 36) (hfeat : feats.powerOfTwo = true ∨ r = 10)
    (partial_ noMulti : Bool) (s : List Nat) (hs : ∀ b ∈ s, b < 256) :
    ∃ res, Model.ParseInt.parseInt feats t r partial_ noMulti s = .done res ∧ PRes.index res ≤ s.length :=
  ⟨_, parseInt_model_eq_spec feats t ht r h2 hr hfeat partial_ noMulti s hs, spec_index_le_length t r partial_ s⟩

/-- non-vacuity: the model reports `Overflow` at the digit where the value leaves the range -/
example : Model.ParseInt.parseInt {} ⟨8, false⟩ 10 false false [50, 53, 54] = .done (.overflow 2) := by decide
example : Model.ParseInt.parseInt {} ⟨8, true⟩ 10 false false [45, 49, 50, 57] = .done (.underflow 3) := by decide
/-- … also through the 8-digit SWAR loop (u64, "18446744073709551616" = 2^64) -/
example : Model.ParseInt.parseInt {} ⟨64, false⟩ 10 false false
    [49, 56, 52, 52, 54, 55, 52, 52, 48, 55, 51, 55, 48, 57, 53, 53, 49, 54, 49, 54] = .done (.overflow 19) := by
  decide +kernel
example : Model.ParseInt.parseInt {} ⟨64, false⟩ 10 false false
    [49, 56, 52, 52, 54, 55, 52, 52, 48, 55, 51, 55, 48, 57, 53, 53, 49, 54, 49, 53] = .done (.ok 18446744073709551615 20) := by
  decide +kernel


/-- The hypothesis `feats.powerOfTwo = true ∨ r = 10` is needed *on the model*: without the `power-of-two`
feature `can_try_parse_multidigits` is `true` for every radix, so a radix-16 call would send `":000"` through
`is_4digits` (which then accepts `0x30..0x3F`) and return a value instead of `InvalidDigit(0)`. The public API
cannot get there: in such builds `format.is_valid()` rejects every radix other than 10 before `algorithm!` runs. -/
example : Model.ParseInt.parseInt {} ⟨32, false⟩ 16 false false [58, 48, 48, 48]
    ≠ .done (Spec.parseInt ⟨32, false⟩ 16 false [58, 48, 48, 48]) := by decide +kernel

end LexVerif.Props.C04
