import LexVerif.Spec.ParseInt
/-!
# C04 — string→integer parsing is exact with exact overflow detection (property theorems)
-/
namespace LexVerif.Props.C04
open LexVerif.Spec

/-- index carried by a result -/
def PRes.index : PRes → Nat
  | .ok _ n => n | .empty i => i | .invalidDigit i => i | .overflow i => i | .underflow i => i
  | .invalidNegativeSign i => i

theorem scanDigits_index_le (r mx : Nat) (neg p : Bool) (cs : List Nat) (acc i : Nat) :
    PRes.index (scanDigits r mx neg p cs acc i) ≤ i + cs.length := by
  induction cs generalizing acc i with
  | nil => simp [scanDigits, PRes.index]
  | cons c cs ih =>
    simp only [scanDigits]
    cases digitVal r c with
    | none => cases p <;> simp [PRes.index]
    | some d =>
      simp only
      split
      · cases neg <;> simp [PRes.index]
      · have := ih (acc * r + d) (i + 1)
        simp only [List.length_cons]; omega

/-- "no index ever exceeds the input length" for the specification scan -/
theorem spec_index_le_length (t : IntTy) (r : Nat) (p : Bool) (s : List Nat) :
    PRes.index (parseInt t r p s) ≤ s.length := by
  unfold parseInt
  split
  next neg rest i heq =>
    have key : i + rest.length = s.length := by
      split at heq
      · cases heq; simp; omega
      · split at heq <;> cases heq <;> simp <;> omega
      · cases heq; simp
    cases rest with
    | nil => simp [PRes.index]; omega
    | cons c cs =>
      have := scanDigits_index_le r (t.maxMag neg) neg p (c :: cs) 0 i
      simp only at *; omega

end LexVerif.Props.C04
