import LexVerif.Model.WriteInt
import LexVerif.Gen.Literals
import LexVerif.Props.TablesWrite
/-!
# Props.C03Tie — the constants of `Model.WriteInt` are the constants of /repo

`Gen.IntTables` / `Gen.Sizes` are regenerated from the compiled crates (R) and `Gen.Literals` from the source
text (S) on every run. The theorems below equate every table, per-radix constant and magic literal that
`Model.WriteInt` carries with the regenerated ones, so that the C03 theorems (stated about the model's
constants) speak about the tables and literals the code has *now*. The closed forms of the regenerated tables
are in `Props/TablesWrite.lean`; composed here: `tableGet_is_named_table`.
-/
namespace LexVerif.Props.C03Tie
open LexVerif LexVerif.Spec LexVerif.Model LexVerif.Model.WriteInt LexVerif.Gen.Literals

/-! ## R: tables dumped from the compiled crate -/

/-- the model's unchecked table read `tableGet r j` is a read of the compiled `DIGIT_TO_BASE<r>_SQUARED`
(same length ⇒ same FAULT condition, same bytes), for all 35 radices -/
theorem tableGet_is_named_table (r : Nat) (hr : r ∈ Gen.IntTables.tableRadices) :
    tableLen r = (Gen.IntTables.namedTable r).size ∧
    ∀ (j : Nat) (h : j < (Gen.IntTables.namedTable r).size), tableGet r j = .ok (Gen.IntTables.namedTable r)[j] := by
  obtain ⟨hs, hj⟩ := Props.TablesWrite.pair_tables r hr
  refine ⟨by rw [hs]; rfl, fun j h => ?_⟩
  have hlt : j < tableLen r := by unfold tableLen; rw [← hs]; exact h
  rw [hj j h]
  unfold tableGet Spec.Tables.pairEntry digitPairTable
  rw [if_pos hlt]
  split <;> rfl

/-- `get_table` has a table exactly where the model's `hasTable` (radix build) says so -/
theorem hasTable_radix :
    ((List.range 40).all fun r =>
      hasTable { powerOfTwo := true, radix := true } r == decide (r ∈ Gen.IntTables.tableRadices)
      && (!hasTable { powerOfTwo := true, radix := true } r || Gen.IntTables.getTable r == some r)) = true := by
  decide

theorem hasTable_pow2 :
    ((List.range 40).all fun r => hasTable { powerOfTwo := true } r == decide (r ∈ [2, 4, 8, 10, 16, 32])) = true := by
  decide

/-- `u64_step` -/
theorem u64Step_table : ((List.range 35).all fun i => u64StepTable (i + 2) == Gen.IntTables.u64Step (i + 2)) = true := by
  decide

/-- the `u128_divrem_<r>` constants -/
def ofGen : Gen.IntTables.Div128 → Option DivRem
  | .pow2 m s => some (.pow2 m s)
  | .moderate d f s => some (.moderate d f s)
  | .fast d fa fs f s => some (.fast d fa fs f s)
  | .slow d c => some (.slow d c)
  | .missing => none

theorem divremKind_table : ((List.range 40).all fun r => divremKind r == ofGen (Gen.IntTables.div128 r)) = true := by
  decide

/-- … and directly against the per-function literal extraction of `div128.rs` -/
theorem divremKind_literals :
    (List.range 35).map (fun i => Lits.divremArgs (divremKind (i + 2))) = [UtilDiv128.k_u128_divrem_2.1, UtilDiv128.k_u128_divrem_3.1, UtilDiv128.k_u128_divrem_4.1, UtilDiv128.k_u128_divrem_5.1, UtilDiv128.k_u128_divrem_6.1, UtilDiv128.k_u128_divrem_7.1, UtilDiv128.k_u128_divrem_8.1, UtilDiv128.k_u128_divrem_9.1, UtilDiv128.k_u128_divrem_10.1, UtilDiv128.k_u128_divrem_11.1, UtilDiv128.k_u128_divrem_12.1, UtilDiv128.k_u128_divrem_13.1, UtilDiv128.k_u128_divrem_14.1, UtilDiv128.k_u128_divrem_15.1, UtilDiv128.k_u128_divrem_16.1, UtilDiv128.k_u128_divrem_17.1, UtilDiv128.k_u128_divrem_18.1, UtilDiv128.k_u128_divrem_19.1, UtilDiv128.k_u128_divrem_20.1, UtilDiv128.k_u128_divrem_21.1, UtilDiv128.k_u128_divrem_22.1, UtilDiv128.k_u128_divrem_23.1, UtilDiv128.k_u128_divrem_24.1, UtilDiv128.k_u128_divrem_25.1, UtilDiv128.k_u128_divrem_26.1, UtilDiv128.k_u128_divrem_27.1, UtilDiv128.k_u128_divrem_28.1, UtilDiv128.k_u128_divrem_29.1, UtilDiv128.k_u128_divrem_30.1, UtilDiv128.k_u128_divrem_31.1, UtilDiv128.k_u128_divrem_32.1, UtilDiv128.k_u128_divrem_33.1, UtilDiv128.k_u128_divrem_34.1, UtilDiv128.k_u128_divrem_35.1, UtilDiv128.k_u128_divrem_36.1] := by
  decide

/-- `FORMATTED_SIZE`, `FORMATTED_SIZE_DECIMAL` of the 12 integer types: `power-of-two`/`radix` builds and decimal-only builds -/
theorem formatted_sizes :
    ((Gen.Sizes.types.zip (Gen.Sizes.sizesRadix.zip Gen.Sizes.sizesDefault)).all fun x =>
      x.1.float ||
        (formattedSizeRadix ⟨x.1.bits, x.1.signed⟩ == x.2.1.1 && formattedSizeDecimal ⟨x.1.bits, x.1.signed⟩ == x.2.1.2
          && formattedSizeDecimal ⟨x.1.bits, x.1.signed⟩ == x.2.2.1 && formattedSizeDecimal ⟨x.1.bits, x.1.signed⟩ == x.2.2.2
          && (IntTy.ofName x.1.name == some ⟨x.1.bits, x.1.signed⟩))) = true
    ∧ Gen.Sizes.types.length = 14 ∧ Gen.Sizes.sizesRadix.length = 14 ∧ Gen.Sizes.sizesDefault.length = 14 := by
  decide

/-- the decimal digit-count tables -/
theorem fastDigitCount_table : fastDigitCountTable = Gen.IntTables.fastDigitCountTableList := by decide
theorem decimalTableU64_table : decimalTableU64 = Gen.IntTables.decimalCountTableU64List := by decide
theorem decimalTableU128_table : decimalTableU128 = Gen.IntTables.decimalCountTableU128List := by decide

/-- `digit_to_char` / `digit_to_char_const(·, 10)` -/
theorem digitToChar_table (d : Nat) (h : d < 36) : digitToChar d = .ok (Gen.IntTables.digitToChar[d]!) := by
  have hs := Props.TablesWrite.digit_to_char_size
  have hd : d < Gen.IntTables.digitToChar.size := by omega
  have e : Gen.IntTables.digitToChar[d]! = Gen.IntTables.digitToChar[d] := by simp [hd]
  rw [e, Props.TablesWrite.digit_to_char d hd]
  simp [digitToChar, h]

theorem digitToCharConst10_table :
    ((List.range 10).map digitToCharConst10) = (Gen.IntTables.digitToCharConst.getD 8 []) := by decide

/-! ## S: literals extracted from the source text, per function -/

theorem jeaiii_next2 : Lits.next2 = WriteIntegerJeaiii.k_next2.1 := by decide
theorem jeaiii_u128_divrem_10_10pow10 : Lits.u128Divrem1e10 = WriteIntegerJeaiii.k_u128_divrem_10_10pow10.1 := by decide
theorem jeaiii_write_n_macro : Lits.writeN = WriteIntegerJeaiii.k_write_n_macro.1 := by decide
theorem jeaiii_print_n_macro : Lits.printN = WriteIntegerJeaiii.k_print_n_macro.1 := by decide
theorem jeaiii_write_digits_macro : Lits.writeDigits = WriteIntegerJeaiii.k_write_digits_macro.1 := by decide
theorem jeaiii_from_u8 : Lits.fromU8 = WriteIntegerJeaiii.k_from_u8.1 := by decide
theorem jeaiii_from_u16 : Lits.fromU16 = WriteIntegerJeaiii.k_from_u16.1 := by decide
theorem jeaiii_from_u32 : Lits.fromU32 = WriteIntegerJeaiii.k_from_u32.1 := by decide
theorem jeaiii_from_u64_impl : Lits.fromU64Impl = WriteIntegerJeaiii.k_from_u64_impl.1 := by decide
theorem jeaiii_from_u128 : Lits.fromU128 = WriteIntegerJeaiii.k_from_u128.1 := by decide

theorem decimal_fast_log10 : Lits.fastLog10 = WriteIntegerDecimal.k_fast_log10.1 := by decide
theorem decimal_fast_digit_count : Lits.fastDigitCount = WriteIntegerDecimal.k_fast_digit_count.1 := by decide
theorem decimal_fallback_digit_count : Lits.fallbackDigitCount = WriteIntegerDecimal.k_fallback_digit_count.1 := by decide
theorem decimal_decimal_count : Lits.decimalCount = WriteIntegerDecimal.k_decimal_count.1 := by decide
theorem decimal_decimal : Lits.decimal = WriteIntegerDecimal.k_decimal.1
    ∧ Lits.decimal = WriteIntegerDecimal.k_decimal_signed.1 := by decide

theorem digit_count_fast_log2 : Lits.fastLog2 = WriteIntegerDigitCount.k_fast_log2.1 := by decide
theorem digit_count_digit_logs :
    Lits.digitLog = [WriteIntegerDigitCount.k_digit_log2.1, WriteIntegerDigitCount.k_digit_log4.1,
      WriteIntegerDigitCount.k_digit_log8.1, WriteIntegerDigitCount.k_digit_log16.1,
      WriteIntegerDigitCount.k_digit_log32.1] := by decide
theorem digit_count_macro : Lits.digitCountMacro = WriteIntegerDigitCount.k_digit_count_macro.1 := by decide
theorem digit_count_digit_count : Lits.digitCount = WriteIntegerDigitCount.k_digit_count.1 := by decide

theorem algorithm_write_digits_macro : Lits.algWriteDigitsMacro = WriteIntegerAlgorithm.k_write_digits_macro.1 := by decide
theorem algorithm_write_digit_macro : Lits.algWriteDigitMacro = WriteIntegerAlgorithm.k_write_digit_macro.1 := by decide
theorem algorithm_write_digits : Lits.algWriteDigits = WriteIntegerAlgorithm.k_write_digits.1 := by decide
theorem algorithm_algorithm : Lits.algorithm = WriteIntegerAlgorithm.k_algorithm.1 := by decide
theorem algorithm_algorithm_u128 : Lits.algorithmU128 = WriteIntegerAlgorithm.k_algorithm_u128.1 := by decide
theorem compact_compact : Lits.compact = WriteIntegerCompact.k_compact.1 := by decide
theorem radix_radix : Lits.radix = WriteIntegerRadix.k_radix.1 := by decide
theorem write_write_integer : Lits.writeInteger = WriteIntegerWrite.k_write_integer.1
    ∧ Lits.writeInteger = WriteIntegerWrite.k_write_integer_signed.1 := by decide
theorem api_unsigned : Lits.apiUnsigned = WriteIntegerApi.k_unsigned.1 := by decide
theorem api_signed : Lits.apiSigned = WriteIntegerApi.k_signed.1 := by decide

theorem util_digit_to_char : Lits.digitToChar = UtilDigit.k_digit_to_char.1 := by decide
theorem util_digit_to_char_const : Lits.digitToCharConst = UtilDigit.k_digit_to_char_const.1 := by decide
theorem util_slow_u128_divrem : Lits.slowU128Divrem = UtilDiv128.k_slow_u128_divrem.1 := by decide
theorem util_u64_step : Lits.u64Step = UtilStep.k_u64_step.1 := by decide

/-- the individual constants, for the record -/
example : Lit.m34 = 42949673 ∧ Lit.m56 = 429497 ∧ Lit.m78 = 281474978 ∧ Lit.s78 = 16 ∧ Lit.m9 = 1441151882
    ∧ Lit.s9 = 25 ∧ Lit.m10 = 1441151881 ∧ Lit.s10 = 25 ∧ Lit.m10u64 = 11529215047 ∧ Lit.s10u64 = 28
    ∧ Lit.log10Mul = 1233 ∧ Lit.log10Shr = 12 ∧ Lit.e10D = 10 ^ 10 ∧ Lit.e10Fast = 2 ^ 74 := by decide

end LexVerif.Props.C03Tie
