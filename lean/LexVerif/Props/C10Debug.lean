import LexVerif.Proof.ParseNumberDebugApi
import LexVerif.Proof.ParseNumberDebugRescanApi
/-!
# C10 in debug-assertion builds (`Cfg.debug = true`)

Part 1 — witnesses: the model *does* predict `debug_assert!` panics of `parse_number` for valid formats: exactly
one class was found (exhaustive over the 15×15 per-component separator-flag combinations on a template list of
inputs, plus a random search): a component whose separator flags are I+T+C without L, when the digit slice
stored by the first pass starts with a separator that the first pass skipped because the byte before it (the
decimal point for the fraction, the base-prefix letter for the integer) is a non-digit. The many-digits path
re-scans the stored slice with a fresh iterator that has no previous byte; `is_itc @first` then refuses to
skip, `parse_u64_digits` takes the separator as a digit and `step_unchecked` trips
`debug_assert!(!is_digit_separator)` (model tag `step_by: on digit separator`).

Every witness is a harness op line (`pf f64 <fmt> <partial> 0 101 46 4e614e 696e66 696e66696e697479 <hex>`).
-/
namespace LexVerif.Props.C10Debug
open LexVerif LexVerif.Model LexVerif.Spec

/-- the panic tag of a result, if it is a panic -/
def panicTag {α} : Except Err α → Option String
  | .error (.panic t) => some t
  | _ => none

def fFormat : Features := { format := true }
def fRadixFormat : Features := { format := true, radix := true, powerOfTwo := true }

/-- `1._1234567890123456789` -/
def inFrac : List Nat := [49, 46, 95, 49, 50, 51, 52, 53, 54, 55, 56, 57, 48, 49, 50, 51, 52, 53, 54, 55, 56, 57]
/-- `0d_12345678901234567890` -/
def inInt : List Nat := [48, 100, 95, 49, 50, 51, 52, 53, 54, 55, 56, 57, 48, 49, 50, 51, 52, 53, 54, 55, 56, 57, 48]
/-- `1._0123456789abcdef0` -/
def inHex : List Nat := [49, 46, 95, 48, 49, 50, 51, 52, 53, 54, 55, 56, 57, 97, 98, 99, 100, 101, 102, 48]

def sepItc : Format := ⟨0xa0a0a000000005f00000fc70000000c⟩
def rustLiteral : Format := ⟨0xa000000005f00000fc70000041f⟩
def swiftLiteral : Format := ⟨0xa000000005f00000fc70000040f⟩
def ocamlLiteral : Format := ⟨0xa000000005f00000fd70000081d⟩
def prefixDSepItc : Format := ⟨0xa0a0a006400005f00000fc70000000c⟩
def sepmixFracItc : Format := ⟨0xa0a0a000000005f000004820000000c⟩
def prefixDSepmixIntItc : Format := ⟨0xa0a0a006400005f000002410000000c⟩
def sepItcHexfloat : Format := ⟨0xa0210000000005f00000fc70000000c⟩

/-! ### fraction slice (feature set `format`)

The I+T+C witnesses are stated `Fix.itc = true ∨ …`: they hold for the code as it is (`Fix.itc = false`, the default of
`Model/Iter.lean`) and are void under the proposed repair `fixes/C13-sep-itc-accepts-leading.diff`. -/

/-- `pf f64 a0a0a000000005f00000fc70000000c 0 0 101 46 4e614e 696e66 696e66696e697479 312e5f31323334353637383930313233343536373839` -/
theorem witness_sep_itc_fraction :
    Fix.itc = true ∨ parseFloatModel fFormat sepItc {} false f64 inFrac true = "panic" := by
  decide +kernel

theorem witness_sep_itc_fraction_tag :
    Fix.itc = true ∨ panicTag (parseFloatSyntax ⟨fFormat, sepItc, true⟩ {} false inFrac) = some "step_by: on digit separator" := by
  decide +kernel

/-- same with `parse_partial` (`… 1 0 101 46 …`) -/
theorem witness_sep_itc_fraction_partial :
    Fix.itc = true ∨ parseFloatModel fFormat sepItc {} true f64 inFrac true = "panic" := by
  decide +kernel

/-- the release build of the same input does not fault (it silently mis-scans the slice instead) -/
theorem witness_sep_itc_fraction_release : parseFloatModel fFormat sepItc {} false f64 inFrac false ≠ "panic" := by
  decide +kernel

/-- `pf f64 a000000005f00000fc70000041f 0 0 101 46 4e614e 696e66 696e66696e697479 312e5f31…39` (RUST_LITERAL) -/
theorem witness_rust_literal :
    Fix.itc = true ∨ parseFloatModel fFormat rustLiteral {} false f64 inFrac true = "panic" := by
  decide +kernel

/-- `pf f64 a000000005f00000fc70000040f 0 0 101 46 …` (SWIFT_LITERAL) -/
theorem witness_swift_literal :
    Fix.itc = true ∨ parseFloatModel fFormat swiftLiteral {} false f64 inFrac true = "panic" := by
  decide +kernel

/-- fraction flags I+T+C only, integer and exponent without separators -/
theorem witness_sepmix_frac_itc :
    Fix.itc = true ∨ parseFloatModel fFormat sepmixFracItc {} false f64 inFrac true = "panic" := by
  decide +kernel

/-- OCAML_LITERAL (integer I+T+C, fraction I+L+T+C, no base prefix) is *not* in the class: its fraction iterator
always skips, and without a base prefix the integer slice cannot start with a separator (`is_consumed`'s `peek`
in `parse_complete` has already skipped it). -/
theorem ocaml_literal_no_panic : parseFloatModel fFormat ocamlLiteral {} false f64 inFrac true ≠ "panic" := by
  decide +kernel

/-! ### integer slice (needs a base prefix: feature set `radix+format`) -/

/-- `pf f64 a0a0a006400005f00000fc70000000c 0 0 101 46 4e614e 696e66 696e66696e697479 30645f3132333435363738393031323334353637383930` -/
theorem witness_prefix_itc_integer :
    Fix.itc = true ∨ parseFloatModel fRadixFormat prefixDSepItc {} false f64 inInt true = "panic" := by
  decide +kernel

theorem witness_prefix_itc_integer_tag :
    Fix.itc = true ∨ panicTag (parseFloatSyntax ⟨fRadixFormat, prefixDSepItc, true⟩ {} false inInt) = some "step_by: on digit separator" := by
  decide +kernel

/-- integer flags I+T+C only -/
theorem witness_prefix_int_itc_only :
    Fix.itc = true ∨ parseFloatModel fRadixFormat prefixDSepmixIntItc {} false f64 inInt true = "panic" := by
  decide +kernel

/-! ### other radix: hex float, 17 > `u64_step(16) = 16` digits, exponent character `p` -/

/-- `pf f64 a0210000000005f00000fc70000000c 0 0 112 46 4e614e 696e66 696e66696e697479 312e5f3031323334353637383961626364656630` -/
theorem witness_sep_itc_hexfloat :
    Fix.itc = true ∨ parseFloatModel fRadixFormat sepItcHexfloat { exp := 112 } false f64 inHex true = "panic" := by
  decide +kernel

/-! ### `parse_number` level -/

theorem witness_parseNumber :
    Fix.itc = true ∨ panicTag (parseNumber ⟨fFormat, sepItc, true⟩ false {} (Bytes.new inFrac) false) = some "step_by: on digit separator" := by
  decide +kernel

/-! ### second class: separator = exponent character / base suffix / base prefix *up to ASCII case*

`is_valid_punctuation` / `is_valid_options_punctuation` compare the control characters exactly, the parser
compares the exponent character, base prefix and base suffix case-insensitively (unless the `case_sensitive_*`
flag is set). With separator `E` and exponent `e` (or `X` / `x` for prefix or suffix) the byte under the cursor
matches, and the following `step_unchecked` is on a digit separator. -/

def sepEI : Format := ⟨0xa0a0a0000000045000000070000000c⟩
def suffixXSepXI : Format := ⟨0xa0a0a7800000058000000070000000c⟩
def prefixXSepXI : Format := ⟨0xa0a0a0078000058000000070000000c⟩

/-- `pf f64 a0a0a0000000045000000070000000c 0 0 101 46 4e614e 696e66 696e66696e697479 31452b35` (`1E+5`, feature set `format`) -/
theorem witness_sep_eq_exponent_uncased :
    parseFloatModel fFormat sepEI {} false f64 [49, 69, 43, 53] true = "panic" := by decide +kernel

theorem witness_sep_eq_exponent_uncased_tag :
    panicTag (parseFloatSyntax ⟨fFormat, sepEI, true⟩ {} false [49, 69, 43, 53]) = some "step_by: on digit separator" := by
  decide +kernel

/-- `pf f64 a0a0a7800000058000000070000000c 0 0 101 46 4e614e 696e66 696e66696e697479 3158` (`1X`, `radix+format`) -/
theorem witness_sep_eq_suffix_uncased :
    parseFloatModel fRadixFormat suffixXSepXI {} false f64 [49, 88] true = "panic" := by decide +kernel

/-- `pf f64 a0a0a0078000058000000070000000c 0 0 101 46 4e614e 696e66 696e66696e697479 3058` (`0X`, `radix+format`) -/
theorem witness_sep_eq_prefix_uncased :
    parseFloatModel fRadixFormat prefixXSepXI {} false f64 [48, 88] true = "panic" := by decide +kernel

/-! ### the unrestricted debug-mode statement is false -/

theorem not_parse_total_debug :
    ¬ (∀ (c : Cfg) (o : POpts) (isPartial : Bool) (input : List Nat),
      (formatError c.feats c.fmt).isNone = true → checkRadix c.feats c.fmt = true →
      isValidOptionsPunctuation c.feats c.fmt o.exp o.dp = true →
      match parseFloatSyntax c o isPartial input with
      | .error (.panic _) => False
      | .error (.fault _) => False
      | _ => True) := by
  intro h
  have hw := witness_sep_eq_exponent_uncased_tag
  have := h ⟨fFormat, sepEI, true⟩ {} false [49, 69, 43, 53] (by decide +kernel) (by decide +kernel) (by decide +kernel)
  cases hr : parseFloatSyntax ⟨fFormat, sepEI, true⟩ {} false [49, 69, 43, 53] with
  | ok p => rw [hr] at hw; simp [panicTag] at hw
  | error e =>
    rw [hr] at this hw
    cases e with
    | err k i => simp [panicTag] at hw
    | panic t => exact this
    | fault t => exact this

/-! ### why the theorem below needs `radix → power-of-two` on the feature record

`Features` is a record of independent booleans; cargo's `radix` feature enables `power-of-two`. For the
ill-formed record `{radix, ¬power-of-two}` the radix assertions of `parse_8digits` are reachable — this is not
a configuration the crate can be built in (no harness op). -/
theorem witness_illformed_features :
    panicTag (parseFloatSyntax ⟨{ radix := true }, ⟨0xa02100000000000000000000000000c⟩, true⟩ { exp := 112 } false
      [49, 50, 51, 52, 53, 54, 55, 56]) = some "parse_8digits: radix >= 16" := by
  decide +kernel

/-! ## Part 2 — no panic in debug builds when `Bytes::IS_CONTIGUOUS`

Hypotheses (all syntactic): the format passes `NumberFormat::error()` and `check_radix!` (what every API entry
point checks first), the feature record is one cargo can produce, and the format has no digit-separator byte
(`DIGIT_SEPARATOR == 0`: every build without the `format` feature, and every format without a separator
character — separator *flags* may be set). `is_valid_options_punctuation` is **not** needed in this class.

Conclusion, for every input / options / partial flag, for `debug = true` and (same proof) `debug = false`:
never `Err.panic`, never `Err.fault` (this includes `fault "fuel"`: no loop runs out of fuel), and the count
returned by `parse_number` is inside the buffer. Proof obligations discharged (see `Proof/ParseNumberDebug*.lean`):
(a) `step_unchecked`/`step_by` assertions (`stepUnchecked_ok`, `stepBy8_ok`), (b) `get_unchecked(..n)` bounds
(`sliceTo_ok`), (c) radix assertions of `try_parse_8digits`/`parse_8digits`/`parse_u64_digits` from
`can_try_parse_multidigit!` + validity (`Ctx.multi`), (d) `parse_u64_digits` overflow (`MInv`, `pow_u64Step`,
stored slices are digit bytes: `IntOk.range`, `FracOk.digits`), (e) `scaleExponent` (`scale_of_checkRadix`),
(f) `fraction_digits.unwrap()` unreachable (counting argument in `manyDigitsPhase_safe`), (g) fuel.
The other model panic sites (`debug_assert format.is_valid()`, `debug_assert !is_buffer_empty()`,
`unreachable!()` of `peek`) are unreachable too (`parseNumber_safe`, `parseFloatSyntax_safe`, `skip_ne_unreachable`). -/

open LexVerif.Proof.PNDebug in
/-- the explicit hypothesis set `H` of the main class -/
structure ValidContiguous (c : Cfg) : Prop where
  formatOk : (formatError c.feats c.fmt).isNone = true
  radixOk : checkRadix c.feats c.fmt = true
  featsOk : c.feats.radix = true → c.feats.powerOfTwo = true
  contiguous : c.bytesContiguous = true

/-- neither a panic nor a fault -/
def NoPanicNoFault {α : Type} (r : Except Err α) : Prop :=
  (∀ t, r ≠ .error (.panic t)) ∧ (∀ t, r ≠ .error (.fault t))

theorem ValidContiguous.ctx {c : Cfg} (h : ValidContiguous c) : LexVerif.Proof.PNDebug.Ctx c :=
  LexVerif.Proof.PNDebug.Ctx.of_valid c h.formatOk h.radixOk h.featsOk h.contiguous

/-- `parse_number`, any `debug` value: no panic, no fault, count within the buffer -/
theorem parseNumber_no_panic (c : Cfg) (h : ValidContiguous c) (o : POpts) (isPartial neg : Bool) (b : Bytes)
    (hb : b.index < b.slc.length) :
    NoPanicNoFault (parseNumber c isPartial o b neg) ∧
      ∀ n count, parseNumber c isPartial o b neg = .ok (n, count) → count ≤ b.slc.length := by
  have cx := h.ctx
  have hs := LexVerif.Proof.PNDebug.parseNumber_safe cx
    (Or.inl (LexVerif.Proof.PNDebug.peek_triv c cx .integer (Or.inl h.contiguous)))
    (Or.inl (LexVerif.Proof.PNDebug.peek_triv c cx .fraction (Or.inl h.contiguous))) isPartial o
    (LexVerif.Proof.PNDebug.OCtx.of_bc c o h.contiguous) b neg hb
  exact ⟨⟨hs.not_panic, hs.not_fault⟩, fun n count he => hs.of_eq_ok he⟩

/-- C10, debug-assertion build, syntax layer, `parse_number` -/
theorem parseNumber_no_panic_debug (c : Cfg) (h : ValidContiguous c) (_hd : c.debug = true) (o : POpts)
    (isPartial neg : Bool) (b : Bytes) (hb : b.index < b.slc.length) :
    NoPanicNoFault (parseNumber c isPartial o b neg) ∧
      ∀ n count, parseNumber c isPartial o b neg = .ok (n, count) → count ≤ b.slc.length :=
  parseNumber_no_panic c h o isPartial neg b hb

/-- `parse_complete` / `parse_partial` up to the `Number` (sign, `parse_number!`, specials), any `debug` value -/
theorem parseFloatSyntax_no_panic (c : Cfg) (h : ValidContiguous c) (o : POpts) (isPartial : Bool) (input : List Nat) :
    NoPanicNoFault (parseFloatSyntax c o isPartial input) := by
  have cx := h.ctx
  have hs := LexVerif.Proof.PNDebug.parseFloatSyntax_safe cx
    (Or.inl (LexVerif.Proof.PNDebug.peek_triv c cx .integer (Or.inl h.contiguous)))
    (Or.inl (LexVerif.Proof.PNDebug.peek_triv c cx .fraction (Or.inl h.contiguous))) o
    (LexVerif.Proof.PNDebug.OCtx.of_bc c o h.contiguous) isPartial input
  exact ⟨hs.not_panic, hs.not_fault⟩

/-- C10, debug-assertion build, syntax layer, entry points -/
theorem parseFloatSyntax_no_panic_debug (c : Cfg) (h : ValidContiguous c) (_hd : c.debug = true) (o : POpts)
    (isPartial : Bool) (input : List Nat) : NoPanicNoFault (parseFloatSyntax c o isPartial input) :=
  parseFloatSyntax_no_panic c h o isPartial input

/-! ### non-vacuity -/

/-- the default build, STANDARD format, debug assertions on -/
example : ValidContiguous ⟨{}, Format.standard, true⟩ := ⟨by decide +kernel, by decide +kernel, by decide, by decide +kernel⟩

/-- `radix+format`, hex float with base prefix `x` and separator *flags* I+T+C but no separator byte -/
example : ValidContiguous ⟨fRadixFormat, ⟨0xa0210007800000000000fc70000000c⟩, true⟩ :=
  ⟨by decide +kernel, by decide +kernel, by decide, by decide +kernel⟩

/-- the many-digits path is exercised and returns `ok` (25 digits) -/
example : (parseFloatSyntax ⟨{}, Format.standard, true⟩ {} false
    ([49, 46] ++ inFrac.drop 3 ++ [48, 48, 55])).toBool = true := by decide +kernel

/-! ## Part 3 — integer and fraction iterators contiguous, `Bytes` not contiguous

The format has a digit-separator byte, but only the exponent (and/or the special values) may contain it
(`integer_*_digit_separator` and `fraction_*_digit_separator` flags all clear). Then `Bytes::current_count()` is
`integer_count + fraction_count + exponent_count`; the contiguous integer / fraction iterators count by the cursor
(`current_count() = byte.index`, repaired in /repo 12a2453) and `try_parse_8digits` / `try_parse_4digits` now call
`increment_count()` for every digit they step over (repaired in /repo 7e8a135; before, `parse_8digits` did not
count what it consumed — former finding `sep-format-uncounted-8digit-block`; the no-panic proof only needs
`tryParse8_spec`: cursor + 8, `Adv` preserved). Every
`Bytes::step_unchecked` (sign, decimal point, exponent character, base suffix) and every exponent-iterator step
asserts "not on the digit separator". Additional hypotheses: `is_valid_options_punctuation`, and the separator
must differ from the exponent character and the base suffix *up to ASCII case* where the parser compares
case-insensitively (`witness_sep_eq_exponent_uncased`, `witness_sep_eq_suffix_uncased` show this is necessary). -/

open LexVerif.Proof.PNDebug (matchesB) in
/-- hypothesis set of the class "integer and fraction iterators contiguous" -/
structure ValidIntFracContiguous (c : Cfg) (o : POpts) : Prop where
  formatOk : (formatError c.feats c.fmt).isNone = true
  radixOk : checkRadix c.feats c.fmt = true
  featsOk : c.feats.radix = true → c.feats.powerOfTwo = true
  optsOk : isValidOptionsPunctuation c.feats c.fmt o.exp o.dp = true
  intContig : c.iterContiguous .integer = true
  fracContig : c.iterContiguous .fraction = true
  expCase : c.bytesContiguous = true ∨
    matchesB c.fmt.digitSeparator o.exp (c.caseSensitiveExponent && c.feats.format) = false
  suffixCase : c.baseSuffix ≠ 0 → c.bytesContiguous = true ∨
    matchesB c.fmt.digitSeparator c.baseSuffix c.caseSensitiveBaseSuffix = false

theorem ValidIntFracContiguous.ctx {c : Cfg} {o : POpts} (h : ValidIntFracContiguous c o) :
    LexVerif.Proof.PNDebug.Ctx c :=
  LexVerif.Proof.PNDebug.Ctx.of_valid_gen c h.formatOk h.radixOk h.featsOk (fun _ => Or.inl h.intContig) h.suffixCase

theorem ValidIntFracContiguous.octx {c : Cfg} {o : POpts} (h : ValidIntFracContiguous c o) :
    LexVerif.Proof.PNDebug.OCtx c o := by
  refine ⟨?_, h.expCase⟩
  cases hf : c.feats.format
  · exact Or.inl (h.ctx.nfbc hf)
  · right
    have := h.optsOk
    unfold isValidOptionsPunctuation at this
    intro hdp
    simp [hf, hdp] at this

theorem parseNumber_no_panic_intfrac (c : Cfg) (o : POpts) (h : ValidIntFracContiguous c o) (isPartial neg : Bool)
    (b : Bytes) (hb : b.index < b.slc.length) :
    NoPanicNoFault (parseNumber c isPartial o b neg) ∧
      ∀ n count, parseNumber c isPartial o b neg = .ok (n, count) → count ≤ b.slc.length := by
  have cx := h.ctx
  have hs := LexVerif.Proof.PNDebug.parseNumber_safe cx
    (Or.inl (LexVerif.Proof.PNDebug.peek_triv c cx .integer (Or.inr h.intContig)))
    (Or.inl (LexVerif.Proof.PNDebug.peek_triv c cx .fraction (Or.inr h.fracContig))) isPartial o h.octx b neg hb
  exact ⟨⟨hs.not_panic, hs.not_fault⟩, fun n count he => hs.of_eq_ok he⟩

/-- C10, debug-assertion build, `parse_number`, class "integer and fraction iterators contiguous" -/
theorem parseNumber_no_panic_debug_intfrac (c : Cfg) (o : POpts) (h : ValidIntFracContiguous c o) (_hd : c.debug = true)
    (isPartial neg : Bool) (b : Bytes) (hb : b.index < b.slc.length) :
    NoPanicNoFault (parseNumber c isPartial o b neg) ∧
      ∀ n count, parseNumber c isPartial o b neg = .ok (n, count) → count ≤ b.slc.length :=
  parseNumber_no_panic_intfrac c o h isPartial neg b hb

theorem parseFloatSyntax_no_panic_intfrac (c : Cfg) (o : POpts) (h : ValidIntFracContiguous c o) (isPartial : Bool)
    (input : List Nat) : NoPanicNoFault (parseFloatSyntax c o isPartial input) := by
  have cx := h.ctx
  have hs := LexVerif.Proof.PNDebug.parseFloatSyntax_safe cx
    (Or.inl (LexVerif.Proof.PNDebug.peek_triv c cx .integer (Or.inr h.intContig)))
    (Or.inl (LexVerif.Proof.PNDebug.peek_triv c cx .fraction (Or.inr h.fracContig))) o h.octx isPartial input
  exact ⟨hs.not_panic, hs.not_fault⟩

/-- C10, debug-assertion build, entry points, class "integer and fraction iterators contiguous" -/
theorem parseFloatSyntax_no_panic_debug_intfrac (c : Cfg) (o : POpts) (h : ValidIntFracContiguous c o)
    (_hd : c.debug = true) (isPartial : Bool) (input : List Nat) :
    NoPanicNoFault (parseFloatSyntax c o isPartial input) :=
  parseFloatSyntax_no_panic_intfrac c o h isPartial input

/-- non-vacuity: `sepmix_exp_iltc` (separator `_` in the exponent only), `format`, debug assertions on -/
example : ValidIntFracContiguous ⟨fFormat, ⟨0xa0a0a000000005f000009240000000c⟩, true⟩ {} :=
  ⟨by decide +kernel, by decide +kernel, by decide, by decide +kernel, by decide +kernel, by decide +kernel,
   Or.inr (by decide +kernel), fun h => absurd (by decide +kernel) h⟩

/-- … and a separator in the exponent is really skipped there: `1.5e1_0` -/
example : (parseFloatSyntax ⟨fFormat, ⟨0xa0a0a000000005f000009240000000c⟩, true⟩ {} false
    [49, 46, 53, 101, 49, 95, 48]).toBool = true := by decide +kernel

/-- regression (former finding `sep-format-uncounted-8digit-block`, repaired in /repo 7e8a135 + 12a2453), debug
build: in this class the digits of the 8-digit fast loop are counted now — `12345678` is a number with mantissa
12345678 (it used to be rejected as an empty mantissa) and `1.123456789` keeps its nine fraction digits -/
theorem regression_intfrac_counts_8digit_block :
    (match parseFloatSyntax ⟨fFormat, ⟨0xa0a0a000000005f000009240000000c⟩, true⟩ {} false
        [49, 50, 51, 52, 53, 54, 55, 56] with
      | .ok (.number n _) => n.mantissa == 12345678 && n.exponent == 0
      | _ => false) = true ∧
    (match parseFloatSyntax ⟨fFormat, ⟨0xa0a0a000000005f000009240000000c⟩, true⟩ {} false
        [49, 46, 49, 50, 51, 52, 53, 54, 55, 56, 57] with
      | .ok (.number n _) =>
        n.fraction == some [49, 50, 51, 52, 53, 54, 55, 56, 57] && n.exponent == -9 && n.mantissa == 1123456789
      | _ => false) = true := by decide +kernel

/-! ## Part 4 — integer / fraction iterators contiguous **or I+L+T+C**

Of the 15 `peek` variants (`noskip` + 14 predicates) two are covered for the integer and fraction components:
`noskip` (no flag) and `iltc` (all four flags: every run of separators is skipped unconditionally, independent
of the neighbouring bytes, so the first pass and the re-scan of the stored slice agree and `peek` never returns
the separator). The exponent component may use **any** of the 15; the special iterator too. This class is about
`parse_number` started in ANY state (`parseNumber_no_panic_debug_iltc`); the other 12 predicates
(`i l t il it lt ilt ic lc tc ilc ltc`) on the integer / fraction component are covered for the entry points in
Part 5 (`itc` is refuted by the witnesses of Part 1). -/

open LexVerif.Proof.PNDebug (matchesB) in
structure ValidIltc (c : Cfg) (o : POpts) : Prop where
  formatOk : (formatError c.feats c.fmt).isNone = true
  radixOk : checkRadix c.feats c.fmt = true
  featsOk : c.feats.radix = true → c.feats.powerOfTwo = true
  optsOk : isValidOptionsPunctuation c.feats c.fmt o.exp o.dp = true
  intFlags : c.iterContiguous .integer = true ∨ c.sepFlags .integer = ⟨true, true, true, true⟩
  fracFlags : c.iterContiguous .fraction = true ∨ c.sepFlags .fraction = ⟨true, true, true, true⟩
  expCase : c.bytesContiguous = true ∨
    matchesB c.fmt.digitSeparator o.exp (c.caseSensitiveExponent && c.feats.format) = false
  suffixCase : c.baseSuffix ≠ 0 → c.bytesContiguous = true ∨
    matchesB c.fmt.digitSeparator c.baseSuffix c.caseSensitiveBaseSuffix = false
  prefixCase : c.basePrefix ≠ 0 → c.iterContiguous .integer = true ∨
    matchesB c.fmt.digitSeparator c.basePrefix c.caseSensitiveBasePrefix = false

theorem ValidIltc.ctx {c : Cfg} {o : POpts} (h : ValidIltc c o) : LexVerif.Proof.PNDebug.Ctx c :=
  LexVerif.Proof.PNDebug.Ctx.of_valid_gen c h.formatOk h.radixOk h.featsOk h.prefixCase h.suffixCase

theorem ValidIltc.octx {c : Cfg} {o : POpts} (h : ValidIltc c o) : LexVerif.Proof.PNDebug.OCtx c o := by
  refine ⟨?_, h.expCase⟩
  cases hf : c.feats.format
  · exact Or.inl (h.ctx.nfbc hf)
  · right
    have := h.optsOk
    unfold isValidOptionsPunctuation at this
    intro hdp
    simp [hf, hdp] at this

theorem parseNumber_no_panic_iltc (c : Cfg) (o : POpts) (h : ValidIltc c o) (isPartial neg : Bool)
    (b : Bytes) (hb : b.index < b.slc.length) :
    NoPanicNoFault (parseNumber c isPartial o b neg) ∧
      ∀ n count, parseNumber c isPartial o b neg = .ok (n, count) → count ≤ b.slc.length := by
  have cx := h.ctx
  have hs := LexVerif.Proof.PNDebug.parseNumber_safe cx
    (LexVerif.Proof.PNDebug.good_of_flags cx .integer (Or.inl rfl) h.intFlags)
    (LexVerif.Proof.PNDebug.good_of_flags cx .fraction (Or.inr rfl) h.fracFlags) isPartial o h.octx b neg hb
  exact ⟨⟨hs.not_panic, hs.not_fault⟩, fun n count he => hs.of_eq_ok he⟩

/-- C10, debug-assertion build, `parse_number`, integer / fraction iterators `noskip` or `iltc` -/
theorem parseNumber_no_panic_debug_iltc (c : Cfg) (o : POpts) (h : ValidIltc c o) (_hd : c.debug = true)
    (isPartial neg : Bool) (b : Bytes) (hb : b.index < b.slc.length) :
    NoPanicNoFault (parseNumber c isPartial o b neg) ∧
      ∀ n count, parseNumber c isPartial o b neg = .ok (n, count) → count ≤ b.slc.length :=
  parseNumber_no_panic_iltc c o h isPartial neg b hb

theorem parseFloatSyntax_no_panic_iltc (c : Cfg) (o : POpts) (h : ValidIltc c o) (isPartial : Bool)
    (input : List Nat) : NoPanicNoFault (parseFloatSyntax c o isPartial input) := by
  have cx := h.ctx
  have hs := LexVerif.Proof.PNDebug.parseFloatSyntax_safe cx
    (LexVerif.Proof.PNDebug.good_of_flags cx .integer (Or.inl rfl) h.intFlags)
    (LexVerif.Proof.PNDebug.good_of_flags cx .fraction (Or.inr rfl) h.fracFlags) o h.octx isPartial input
  exact ⟨hs.not_panic, hs.not_fault⟩

/-- C10, debug-assertion build, entry points, integer / fraction iterators `noskip` or `iltc` -/
theorem parseFloatSyntax_no_panic_debug_iltc (c : Cfg) (o : POpts) (h : ValidIltc c o) (_hd : c.debug = true)
    (isPartial : Bool) (input : List Nat) : NoPanicNoFault (parseFloatSyntax c o isPartial input) :=
  parseFloatSyntax_no_panic_iltc c o h isPartial input

/-- non-vacuity: `sep_iltc` (`_`, all flags in all components), `format`, debug assertions on -/
example : ValidIltc ⟨fFormat, ⟨0xa0a0a000000005f00000fff0000000c⟩, true⟩ {} :=
  ⟨by decide +kernel, by decide +kernel, by decide, by decide +kernel, Or.inr (by decide +kernel),
   Or.inr (by decide +kernel), Or.inr (by decide +kernel), fun h => absurd (by decide +kernel) h,
   fun h => absurd (by decide +kernel) h⟩

/-- non-vacuity: `prefix_d_sep_iltc` with `radix+format` (base prefix `d`, separators everywhere) -/
example : ValidIltc ⟨fRadixFormat, ⟨0xa0a0a006400005f00000fff0000000c⟩, true⟩ {} :=
  ⟨by decide +kernel, by decide +kernel, by decide, by decide +kernel, Or.inr (by decide +kernel),
   Or.inr (by decide +kernel), Or.inr (by decide +kernel), fun h => absurd (by decide +kernel) h,
   fun _ => Or.inr (by decide +kernel)⟩

/-- … the many-digits re-scan over a slice with separators returns `ok`: `1_2._3_4567890123456789012_` -/
example : (parseFloatSyntax ⟨fFormat, ⟨0xa0a0a000000005f00000fff0000000c⟩, true⟩ {} false
    ([49, 95, 50, 46, 95, 51, 95] ++ inFrac.drop 6 ++ [48, 49, 50, 95])).toBool = true := by decide +kernel

/-! ## Part 5 — the full statement: every valid format outside the two witnessed classes (PROVED, entry points)

Hypotheses: `formatError = none`, `check_radix!`, `is_valid_options_punctuation`, a feature record cargo can produce,
`NoCaseClash` (second witnessed class excluded) and `RescanSafe` (first witnessed class excluded: no I+T+C on the
fraction; I+T+C on the integer only without base prefix). The integer and the fraction component may carry ANY of the
other separator predicates (`i l t il it lt ilt ic lc tc ilc ltc`, `noskip`, `iltc`), the exponent and special
iterators any of the 15. Conclusion for `parse_complete` / `parse_partial` (`parseFloatSyntax`), `debug = true` (and,
same proof, `false`), EVERY input (the model's `List Nat`, also "bytes" ≥ 256): never `Err.panic`, never `Err.fault`.

Proof (`Proof/ParseNumberDebug{Bridge,Sim,Rescan,RescanFacts,RescanMain,RescanApi}.lean`):
* `peek` does not look at `Cfg.debug`; the first pass (`parse_digits`: steps over digits only) and `skip_zeros` (steps
  over `'0'` only) return in the debug build what the release build returns (`parseDigitsLoop_rel`, `skipZerosLoop_rel`);
* the first pass and the re-scan of the stored slice take the same skip decisions (`rescan_sim2`, built on
  `holds_weaker` / `nbr_slice` of `Proof/SepLocal*.lean`; unlike `Sep.Rescan` it does not need the byte behind the
  region to be a non-separator — `parse_number` also re-scans when the first pass stopped on a separator its predicate
  refused, before `parse_complete` rejects the input): the release-build `parse_digits` restarted on the stored
  slice runs through all of it (`rescan_pred2`; `rescan_itc_start` for I+T+C started on a non-separator);
* hence every byte `peek` returns during `parse_u64_digits` on the slice is a digit: `step_unchecked` is never on the
  separator, the overflow check holds (`u64Loop1_run_safe`); `skip_zeros` on the slice walks along the same run
  (`skipZeros_u64ok`);
* entry conditions: `parse_mantissa_sign` / `is_consumed` leave the digit counts 0 and the cursor in a state `peek`
  left (`PeekStable`); the base-prefix phase touches no count; the integer digits start behind the prefix letter or in
  a state `peek` left, the fraction digits behind the decimal point — neither is a digit or the separator
  (`prefix_not_digit_sep`, `dp_not_digit`, from validity + `NoCaseClash`).
`parse_number` started mid-buffer is NOT covered by this part (and the statement is false there:
`witness_parseNumber_midbuffer`). -/

/-- why the open part is stated for the entry points only: `parse_number` started in the middle of a buffer (digit
before the cursor; or a non-zero `integer_count`) with the plain `i` predicate — not reachable from
`parse_complete` / `parse_partial`, no harness op -/
theorem witness_parseNumber_midbuffer :
    panicTag (parseNumber ⟨fFormat, ⟨0xa0a0a000000005f000000070000000c⟩, true⟩ false {}
      { slc := [49, 95] ++ inFrac.drop 3 ++ [48], index := 1 } false) = some "step_by: on digit separator" ∧
    panicTag (parseNumber ⟨fFormat, ⟨0xa0a0a000000005f000000070000000c⟩, true⟩ false {}
      { slc := [95] ++ inFrac.drop 3 ++ [48], index := 0, ic := 1 } false) = some "step_by: on digit separator" := by
  decide +kernel

/-- component `k` has a separator byte and the flags internal + trailing + consecutive without leading -/
def hasItc (c : Cfg) (k : Comp) : Bool :=
  !c.bytesContiguous && decide (c.sepFlags k = ⟨true, false, true, true⟩)

/-- no stored digit slice can start with a separator that only the first pass skips -/
def RescanSafe (c : Cfg) : Prop :=
  hasItc c .fraction = false ∧ (hasItc c .integer = false ∨ c.basePrefix = 0)

open LexVerif.Proof.PNDebug (matchesB) in
/-- the separator differs from exponent character, base prefix and base suffix up to ASCII case wherever the
parser compares case-insensitively -/
def NoCaseClash (c : Cfg) (o : POpts) : Prop :=
  c.bytesContiguous = true ∨
    (matchesB c.fmt.digitSeparator o.exp (c.caseSensitiveExponent && c.feats.format) = false ∧
     (c.baseSuffix ≠ 0 → matchesB c.fmt.digitSeparator c.baseSuffix c.caseSensitiveBaseSuffix = false) ∧
     (c.basePrefix ≠ 0 → matchesB c.fmt.digitSeparator c.basePrefix c.caseSensitiveBasePrefix = false))

def parseNumber_no_panic_debug_full : Prop :=
  ∀ (c : Cfg) (o : POpts) (isPartial : Bool) (input : List Nat),
    (formatError c.feats c.fmt).isNone = true → checkRadix c.feats c.fmt = true →
    isValidOptionsPunctuation c.feats c.fmt o.exp o.dp = true →
    (c.feats.radix = true → c.feats.powerOfTwo = true) → NoCaseClash c o → RescanSafe c →
    NoPanicNoFault (parseFloatSyntax c o isPartial input)

/-- hypothesis set of the full class: integer / fraction component with any separator predicate except I+T+C (I+T+C on
the integer without base prefix allowed) -/
structure ValidNoItc (c : Cfg) (o : POpts) : Prop where
  formatOk : (formatError c.feats c.fmt).isNone = true
  radixOk : checkRadix c.feats c.fmt = true
  featsOk : c.feats.radix = true → c.feats.powerOfTwo = true
  optsOk : isValidOptionsPunctuation c.feats c.fmt o.exp o.dp = true
  noClash : NoCaseClash c o
  rescanSafe : RescanSafe c

open LexVerif.Proof.PNDebug in
/-- entry points, any `debug` value, class `ValidNoItc` -/
theorem parseFloatSyntax_no_panic_noitc (c : Cfg) (o : POpts) (h : ValidNoItc c o) (isPartial : Bool)
    (input : List Nat) : NoPanicNoFault (parseFloatSyntax c o isPartial input) := by
  cases hbc : c.bytesContiguous with
  | true => exact parseFloatSyntax_no_panic c ⟨h.formatOk, h.radixOk, h.featsOk, hbc⟩ o isPartial input
  | false =>
    obtain ⟨e1, e2, e3⟩ : matchesB c.fmt.digitSeparator o.exp (c.caseSensitiveExponent && c.feats.format) = false ∧
        (c.baseSuffix ≠ 0 → matchesB c.fmt.digitSeparator c.baseSuffix c.caseSensitiveBaseSuffix = false) ∧
        (c.basePrefix ≠ 0 → matchesB c.fmt.digitSeparator c.basePrefix c.caseSensitiveBasePrefix = false) := by
      rcases h.noClash with hb | hc
      · rw [hbc] at hb; cases hb
      · exact hc
    have cx : Ctx c := Ctx.of_valid_gen c h.formatOk h.radixOk h.featsOk (fun hp => Or.inr (e3 hp)) (fun hs => Or.inr (e2 hs))
    have hf : c.feats.format = true := format_of_nbc cx hbc
    have ox : OCtx c o := by
      refine ⟨?_, Or.inr e1⟩
      right
      have := h.optsOk
      unfold isValidOptionsPunctuation at this
      intro hdp
      simp [hf, hdp] at this
    have hitc : ∀ k, (k = .integer ∨ k = .fraction) → c.skip k = .pred .itc → hasItc c k = true := by
      intro k hk hs
      have hfl : c.sepFlags k = ⟨true, false, true, true⟩ := by
        rcases hk with rfl | rfl <;> exact flags_of_skip_itc _ hs
      simp [hasItc, hbc, hfl]
    have hI : CompOk c .integer (c.basePrefix = 0) := compOk_of_skip cx .integer _ (by
      intro hs
      rcases h.rescanSafe.2 with h1 | h1
      · rw [hitc .integer (Or.inl rfl) hs] at h1; cases h1
      · exact h1)
    have hF : CompOk c .fraction False := compOk_of_skip cx .fraction _ (by
      intro hs
      have h1 := h.rescanSafe.1
      rw [hitc .fraction (Or.inr rfl) hs] at h1; cases h1)
    have hs := parseFloatSyntax_safe2 cx hbc hI hF (prefix_not_digit_sep cx h.formatOk e3) o ox
      (dp_not_digit h.formatOk o h.optsOk) isPartial input
    exact ⟨hs.not_panic, hs.not_fault⟩

/-- C10, debug-assertion build, entry points, class `ValidNoItc` -/
theorem parseFloatSyntax_no_panic_debug_noitc (c : Cfg) (o : POpts) (h : ValidNoItc c o) (_hd : c.debug = true)
    (isPartial : Bool) (input : List Nat) : NoPanicNoFault (parseFloatSyntax c o isPartial input) :=
  parseFloatSyntax_no_panic_noitc c o h isPartial input

/-- **the full statement holds** -/
theorem parseNumber_no_panic_debug_full_proved : parseNumber_no_panic_debug_full := by
  intro c o isPartial input hfe hcr hopt hfeats hclash hres
  exact parseFloatSyntax_no_panic_noitc c o ⟨hfe, hcr, hfeats, hopt, hclash, hres⟩ isPartial input

/-! ### non-vacuity -/

/-- `sep_i`: separator `_`, plain internal predicate `i` on integer, fraction and exponent -/
def sepI : Format := ⟨0xa0a0a000000005f000000070000000c⟩

example : ValidNoItc ⟨fFormat, sepI, true⟩ {} :=
  ⟨by decide +kernel, by decide +kernel, by decide, by decide +kernel,
   Or.inr ⟨by decide +kernel, fun h => absurd (by decide +kernel) h, fun h => absurd (by decide +kernel) h⟩,
   ⟨by decide +kernel, Or.inl (by decide +kernel)⟩⟩

/-- 25 digits with separators: the many-digits re-scan of both stored slices (`1_2`, `3_1234567890123456789012`)
runs and returns `ok` in the debug build — `1_2.3_1234567890123456789012` -/
example : (match parseFloatSyntax ⟨fFormat, sepI, true⟩ {} false
      ([49, 95, 50, 46, 51, 95] ++ inFrac.drop 3 ++ [48, 49, 50]) with
    | .ok (.number n cnt) => n.manyDigits && cnt == 28 && n.integer == [49, 95, 50]
    | _ => false) = true := by decide +kernel

/-- the first pass stops on a separator its predicate refuses (`_` before `.`), the 23-digit integer slice is
re-scanned, then `parse_complete` rejects the input: an ordinary error, no panic — `12345678901234567890123_.5` -/
example : (match parseFloatSyntax ⟨fFormat, sepI, true⟩ {} false (inFrac.drop 3 ++ [48, 49, 50, 51, 95, 46, 53]) with
    | .error (.err k i) => k == "InvalidDigit" && i == 23
    | _ => false) = true := by decide +kernel

/-- OCAML_LITERAL (integer I+T+C, no base prefix; fraction I+L+T+C) is in the class -/
example : ValidNoItc ⟨fFormat, ocamlLiteral, true⟩ {} :=
  ⟨by decide +kernel, by decide +kernel, by decide, by decide +kernel,
   Or.inr ⟨by decide +kernel, fun h => absurd (by decide +kernel) h, fun h => absurd (by decide +kernel) h⟩,
   ⟨by decide +kernel, Or.inr (by decide +kernel)⟩⟩

/-- `radix+format`, base prefix `d`, predicates I+L on the integer and L+T+C on the fraction -/
def prefixDSepMix : Format := ⟨0xa0a0a006400005f000004990000000c⟩

example : ValidNoItc ⟨fRadixFormat, prefixDSepMix, true⟩ {} :=
  ⟨by decide +kernel, by decide +kernel, by decide, by decide +kernel,
   Or.inr ⟨by decide +kernel, fun h => absurd (by decide +kernel) h, fun _ => by decide +kernel⟩,
   ⟨by decide +kernel, Or.inl (by decide +kernel)⟩⟩

/-- … `0d_1_2._31234567890123456789012_`: separators behind the prefix letter, behind the point and at the end; both
stored slices (`_1_2`, `_31234567890123456789012_`) start with a separator and are re-scanned -/
example : (match parseFloatSyntax ⟨fRadixFormat, prefixDSepMix, true⟩ {} false
      ([48, 100, 95, 49, 95, 50, 46, 95, 51] ++ inFrac.drop 3 ++ [48, 49, 50, 95]) with
    | .ok (.number n cnt) => n.manyDigits && cnt == 32 && n.integer == [95, 49, 95, 50]
    | _ => false) = true := by decide +kernel

end LexVerif.Props.C10Debug
