import LexVerif.Model.ParseNumber
/-!
# C10 in debug-assertion builds (`Cfg.debug = true`)

Part 1 — witnesses: the model *does* predict `debug_assert!` panics of `parse_number` for valid formats: exactly
one class was found (exhaustive over the 15×15 per-component separator-flag combinations on a template list of
inputs, plus a random search): a component whose separator flags are I+T+C without L, when the digit slice
stored by the first pass starts with a separator that the first pass skipped because the byte before it (the
decimal point for the fraction, the base-prefix letter for the integer) is a non-digit. The many-digits path
re-scans the stored slice with a fresh iterator that has no previous byte; `is_itc @first` then refuses to
skip, `parse_u64_digits` takes the separator as a digit and `step_unchecked` trips
`debug_assert!(!is_digit_separator)` (model tag `step_by: on digit separator`).

Every witness is a harness op line (`pf f64 <fmt> <partial> 0 101 46 4e614e 696e66 696e66696e697479 <hex>`).
-/
namespace LexVerif.Props.C10Debug
open LexVerif LexVerif.Model LexVerif.Spec

/-- the panic tag of a result, if it is a panic -/
def panicTag {α} : Except Err α → Option String
  | .error (.panic t) => some t
  | _ => none

def fFormat : Features := { format := true }
def fRadixFormat : Features := { format := true, radix := true, powerOfTwo := true }

/-- `1._1234567890123456789` -/
def inFrac : List Nat := [49, 46, 95, 49, 50, 51, 52, 53, 54, 55, 56, 57, 48, 49, 50, 51, 52, 53, 54, 55, 56, 57]
/-- `0d_12345678901234567890` -/
def inInt : List Nat := [48, 100, 95, 49, 50, 51, 52, 53, 54, 55, 56, 57, 48, 49, 50, 51, 52, 53, 54, 55, 56, 57, 48]
/-- `1._0123456789abcdef0` -/
def inHex : List Nat := [49, 46, 95, 48, 49, 50, 51, 52, 53, 54, 55, 56, 57, 97, 98, 99, 100, 101, 102, 48]

def sepItc : Format := ⟨0xa0a0a000000005f00000fc70000000c⟩
def rustLiteral : Format := ⟨0xa000000005f00000fc70000041f⟩
def swiftLiteral : Format := ⟨0xa000000005f00000fc70000040f⟩
def ocamlLiteral : Format := ⟨0xa000000005f00000fd70000081d⟩
def prefixDSepItc : Format := ⟨0xa0a0a006400005f00000fc70000000c⟩
def sepmixFracItc : Format := ⟨0xa0a0a000000005f000004820000000c⟩
def prefixDSepmixIntItc : Format := ⟨0xa0a0a006400005f000002410000000c⟩
def sepItcHexfloat : Format := ⟨0xa0210000000005f00000fc70000000c⟩

/-! ### fraction slice (feature set `format`) -/

/-- `pf f64 a0a0a000000005f00000fc70000000c 0 0 101 46 4e614e 696e66 696e66696e697479 312e5f31323334353637383930313233343536373839` -/
theorem witness_sep_itc_fraction : parseFloatModel fFormat sepItc {} false f64 inFrac true = "panic" := by
  decide +kernel

theorem witness_sep_itc_fraction_tag :
    panicTag (parseFloatSyntax ⟨fFormat, sepItc, true⟩ {} false inFrac) = some "step_by: on digit separator" := by
  decide +kernel

/-- same with `parse_partial` (`… 1 0 101 46 …`) -/
theorem witness_sep_itc_fraction_partial : parseFloatModel fFormat sepItc {} true f64 inFrac true = "panic" := by
  decide +kernel

/-- the release build of the same input does not fault (it silently mis-scans the slice instead) -/
theorem witness_sep_itc_fraction_release : parseFloatModel fFormat sepItc {} false f64 inFrac false ≠ "panic" := by
  decide +kernel

/-- `pf f64 a000000005f00000fc70000041f 0 0 101 46 4e614e 696e66 696e66696e697479 312e5f31…39` (RUST_LITERAL) -/
theorem witness_rust_literal : parseFloatModel fFormat rustLiteral {} false f64 inFrac true = "panic" := by
  decide +kernel

/-- `pf f64 a000000005f00000fc70000040f 0 0 101 46 …` (SWIFT_LITERAL) -/
theorem witness_swift_literal : parseFloatModel fFormat swiftLiteral {} false f64 inFrac true = "panic" := by
  decide +kernel

/-- fraction flags I+T+C only, integer and exponent without separators -/
theorem witness_sepmix_frac_itc : parseFloatModel fFormat sepmixFracItc {} false f64 inFrac true = "panic" := by
  decide +kernel

/-- OCAML_LITERAL (integer I+T+C, fraction I+L+T+C, no base prefix) is *not* in the class: its fraction iterator
always skips, and without a base prefix the integer slice cannot start with a separator (`is_consumed`'s `peek`
in `parse_complete` has already skipped it). -/
theorem ocaml_literal_no_panic : parseFloatModel fFormat ocamlLiteral {} false f64 inFrac true ≠ "panic" := by
  decide +kernel

/-! ### integer slice (needs a base prefix: feature set `radix+format`) -/

/-- `pf f64 a0a0a006400005f00000fc70000000c 0 0 101 46 4e614e 696e66 696e66696e697479 30645f3132333435363738393031323334353637383930` -/
theorem witness_prefix_itc_integer : parseFloatModel fRadixFormat prefixDSepItc {} false f64 inInt true = "panic" := by
  decide +kernel

theorem witness_prefix_itc_integer_tag :
    panicTag (parseFloatSyntax ⟨fRadixFormat, prefixDSepItc, true⟩ {} false inInt) = some "step_by: on digit separator" := by
  decide +kernel

/-- integer flags I+T+C only -/
theorem witness_prefix_int_itc_only :
    parseFloatModel fRadixFormat prefixDSepmixIntItc {} false f64 inInt true = "panic" := by
  decide +kernel

/-! ### other radix: hex float, 17 > `u64_step(16) = 16` digits, exponent character `p` -/

/-- `pf f64 a0210000000005f00000fc70000000c 0 0 112 46 4e614e 696e66 696e66696e697479 312e5f3031323334353637383961626364656630` -/
theorem witness_sep_itc_hexfloat :
    parseFloatModel fRadixFormat sepItcHexfloat { exp := 112 } false f64 inHex true = "panic" := by
  decide +kernel

/-! ### `parse_number` level -/

theorem witness_parseNumber :
    panicTag (parseNumber ⟨fFormat, sepItc, true⟩ false {} (Bytes.new inFrac) false) = some "step_by: on digit separator" := by
  decide +kernel

end LexVerif.Props.C10Debug
