import LexVerif.Gen.Literals
import LexVerif.Model.FastPath
import LexVerif.Model.Lemire
import LexVerif.Model.Binary
/-!
# Props.LiteralsModel — the literals the algorithm models carry are the literals of /repo's source

`Gen.Literals` is re-extracted from the source text of /repo on every run (`extractors/literals.py`: per
function the integer literals in source order). The hand-written models of the string→float algorithms keep
every literal of the transcribed function bodies as a named constant (`Model.Lemire.litSafeLo`,
`Model.Bellerophon.litExpCut`, `Model.Binary.litZeroCut`, …) and assemble them, in source order, into one list per
function. The theorems below equate those lists with the extracted ones: a changed, added or removed literal in
/repo breaks the theorem named after the function, and the statement names the model constant it has to be
compared with. (The *shape* of the source — tokens with literals abstracted — is tied by `Props/Literals/*.lean`.)
-/
namespace LexVerif.Props.LiteralsModel
open LexVerif.Model LexVerif.Gen.Literals

/-! ## lemire.rs -/
theorem lemire_compute_float : Lemire.computeFloatLiterals = ParseFloatLemire.k_compute_float.1 := by decide
theorem lemire_compute_product_approx :
    Lemire.computeProductApproxLiterals = ParseFloatLemire.k_compute_product_approx.1 := by decide
theorem lemire_power : Lemire.powerLiterals = ParseFloatLemire.k_power.1 := by decide
theorem lemire_compute_error_scaled :
    Lemire.computeErrorScaledLiterals = ParseFloatLemire.k_compute_error_scaled.1 := by decide
theorem lemire_compute_error : Lemire.computeErrorLiterals = ParseFloatLemire.k_compute_error.1 := by decide
theorem lemire_lemire : Lemire.lemireLiterals = ParseFloatLemire.k_lemire.1 := by decide
theorem lemire_full_multiplication :
    Lemire.fullMultiplicationLiterals = ParseFloatLemire.k_full_multiplication.1 := by decide

/-! ## bellerophon.rs -/
theorem bellerophon_bellerophon : Bellerophon.bellerophonLiterals = ParseFloatBellerophon.k_bellerophon.1 := by
  decide
theorem bellerophon_error_scale : Bellerophon.errorScaleLiterals = ParseFloatBellerophon.k_error_scale.1 := by
  decide

/-! ## binary.rs, shared.rs -/
theorem binary_binary : Binary.binaryLiterals = ParseFloatBinary.k_binary.1 := by decide
theorem binary_slow_binary : Binary.slowBinaryLiterals = ParseFloatBinary.k_slow_binary.1 := by decide
theorem shared_calculate_power2 : Binary.calculatePower2Literals = ParseFloatShared.k_calculate_power2.1 := by
  decide
theorem shared_calculate_shift : Binary.calculateShiftLiterals = ParseFloatShared.k_calculate_shift.1 := by decide
theorem shared_log2 : Binary.log2Literals = ParseFloatShared.k_log2.1 := by decide

/-! ## number.rs -/
theorem number_try_fast_path : FastPath.tryFastPathLiterals = ParseFloatNumber.k_try_fast_path.1 := by decide
theorem number_is_fast_path : FastPath.isFastPathLiterals = ParseFloatNumber.k_is_fast_path.1 := by decide

/-- the individual constants, for the record (what a failing list theorem has to be compared with) -/
example : Lemire.litAllOnes = 2 ^ 64 - 1 ∧ Lemire.litSafeLo = -27 ∧ Lemire.litSafeHi = 55 ∧ Lemire.litTieLo = 1 ∧
    Bellerophon.litExpCut = 0x1000 ∧ Bellerophon.litErrorScale = 8 ∧ Bellerophon.litManyShiftCap = 20 ∧
    Bellerophon.litZeroShift = 65 ∧ Binary.litZeroCut = 64 ∧ Binary.litShiftFull = 64 ∧
    Binary.litPower2Limit = 1073741823 := by decide

end LexVerif.Props.LiteralsModel
