import LexVerif.Proof.WriteBinaryOpts
import LexVerif.Proof.ParseInt
/-!
# C14 for the power-of-two writers (`binary.rs`, `hex.rs`) under `max_significant_digits` — partial laws and witnesses

Model: `Model.WriteBinaryOpts` (`truncateAndRoundCur` = `binary::truncate_and_round` of /repo 2a1d05a, byte-exact with the
implementation on every generated `wf` op).  With `bpd = bits_per_digit`, `mb` = significant bits of the mantissa
(53 / 24 for normal f64 / f32), `e` the binary exponent of the mantissa's lowest bit:

* `pow2_value_partial`: **if `bpd ∣ mb`** the written text denotes exactly the mantissa rounded half-even (or truncated)
  to `d · bpd` bits, times `2^e` — whatever notation, breaks, `min_significant_digits`, trim.
* `pow2_digits_partial`: **if `bpd ∣ e`** (the digit string needs no left shift) at most `d` significant digits are
  written.
* Both hold together exactly when the top bit is the top bit of a digit AND the lowest bit is the lowest bit of a digit
  (`bpd ∣ mb`, `bpd ∣ e`): radix 2 always; f32 in radix 4/8/16 for every `bpd`-th binade; **never for a normal f64 in
  radix 4/8/16/32** (53 is odd and not a multiple of 3, 4, 5), never for f32 in radix 32 (`5 ∤ 24`).
* `pow2_value_full` / `pow2_digits_full`: the laws without the alignment hypotheses — false: decided witnesses
  `value_off_*`, `more_than_max_*` (findings C14-pow2-digit-options-value-off / -more-than-max), and
  `aligned_ok_*` non-vacuity examples for the partial laws.
-/
namespace LexVerif.Props.C14Pow2
open LexVerif.Spec LexVerif.Model LexVerif.Model.WriteBinary LexVerif.Model.Dragonbox
open LexVerif.Proof.WriteBinaryExact LexVerif.Proof.WriteBinaryOpts

/-- **value law, partial**: the bit count of the mantissa is a whole number of digits. -/
theorem pow2_value_partial (fmt : Format) (o : WOpts) {w bpd bpb m d : Nat} {e : ℤ}
    (hr : fmt.mantissaRadix = 2 ^ bpd) (hb : fmt.exponentBase = 2 ^ bpb)
    (h1 : 1 ≤ bpd) (h5 : bpd ≤ 5) (hpair : bpb = 1 ∨ (bpb = 2 ∧ bpd = 4) ∨ bpb = bpd)
    (hm : 0 < m) (hw : 5 ≤ w) (hw64 : w ≤ 64) (hmw : m * 16 < 2 ^ w) (he1 : -1900 ≤ e) (he2 : e ≤ 1900)
    (hd : o.maxDigits = some d) (hd1 : 1 ≤ d) (hlt : d * bpd < significantBits m)
    (halign : bpd ∣ significantBits m) :
    layoutQ (2 ^ bpd) (2 ^ bpb)
        (layoutMB fmt o w (truncateAndRoundCur w m (2 ^ bpd) o).1 (truncateAndRoundCur w m (2 ^ bpd) o).2 e) =
      (keptMantissa o m (significantBits m - d * bpd) : ℚ) * (2 : ℚ) ^ (e + ((significantBits m - d * bpd : Nat) : ℤ)) := by
  obtain ⟨s1, s2, s3⟩ := significantBits_spec hm
  have hmbw : significantBits m ≤ w := by
    have : 2 ^ (significantBits m - 1) < 2 ^ w := by omega
    have := (Nat.pow_lt_pow_iff_right (by decide : 1 < 2)).mp this
    omega
  obtain ⟨heq, hpos, hle⟩ := truncCur_spec o h1 h5 hm hmbw hw64 hd hd1 hlt
  rw [heq]
  have hal : bpd ∣ significantBits m - d * bpd := (Nat.dvd_sub halign (Dvd.intro_left d rfl))
  rw [layoutMB_shift fmt o _ e _ hr h1 h5 (by omega) (by omega) (by omega) hal]
  have hRm : keptMantissa o m (significantBits m - d * bpd) ≤ m := by
    have : 2 ^ (d * bpd) ≤ 2 ^ (significantBits m - 1) := Nat.pow_le_pow_right (by decide) (by omega)
    omega
  exact layoutME_exact fmt o hr hb h1 h5 hpair hpos hw (by omega)
    (by have : (2:Nat) ^ w ≤ 2 ^ 64 := Nat.pow_le_pow_right (by decide) hw64; omega) (by omega) (by omega)

/-- **digit-count law, partial**: the exponent of the lowest mantissa bit is a whole number of digits
(`calculate_shl = 0`): at most `d` significant digits reach the layouts. -/
theorem pow2_digits_partial (o : WOpts) {w bpd m d : Nat} {e : ℤ} (h1 : 1 ≤ bpd) (h5 : bpd ≤ 5) (hm : 0 < m)
    (hmw : significantBits m ≤ w) (hw64 : w ≤ 64) (he1 : -3000 ≤ e) (he2 : e ≤ 3000)
    (hd : o.maxDigits = some d) (hd1 : 1 ≤ d) (hlt : d * bpd < significantBits m)
    (halign : (bpd : ℤ) ∣ e) :
    (rtrimZeros (mantissaDigits w (2 ^ bpd) (truncateAndRoundCur w m (2 ^ bpd) o).1 e)).length ≤ d := by
  obtain ⟨heq, hpos, hle⟩ := truncCur_spec o h1 h5 hm hmw hw64 hd hd1 hlt
  rw [heq]
  generalize keptMantissa o m (significantBits m - d * bpd) = R at hpos hle
  have hb1 : (1 : ℤ) ≤ (bpd : ℤ) := by exact_mod_cast h1
  have hb5 : (bpd : ℤ) ≤ 5 := by exact_mod_cast h5
  have hshl : calculateShl e (fastLog2 (2 ^ bpd)) = 0 := by
    rw [fastLog2_pow h1 h5, LexVerif.Proof.WriteBinaryArith.calculateShl_eq (by omega) (by omega) hb1 hb5]
    exact Int.emod_eq_zero_of_dvd halign
  have hRw : R < 2 ^ w := by
    have : (2 : Nat) ^ (d * bpd) < 2 ^ w := Nat.pow_lt_pow_right (by decide) (by omega)
    omega
  unfold mantissaDigits
  rw [hshl]
  have hsh : shlW w R 0 = R := by unfold shlW; simp [Nat.mod_eq_of_lt hRw]
  rw [hsh]
  have hr2 : 2 ≤ 2 ^ bpd := by
    calc 2 = 2 ^ 1 := rfl
      _ ≤ 2 ^ bpd := Nat.pow_le_pow_right (by decide) h1
  have hpow : (2 ^ bpd) ^ d = 2 ^ (d * bpd) := by rw [← Nat.pow_mul, Nat.mul_comm]
  by_cases hRlt : R < 2 ^ (d * bpd)
  · -- no carry out of the top digit: at most `d` digits even before trimming
    have hlen := LexVerif.Spec.toDigits_length_le (2 ^ bpd) R d hr2 hd1 (by rw [hpow]; exact hRlt)
    obtain ⟨k, _, hk⟩ := LexVerif.Proof.WriteBinaryDigits.rtrimZeros_spec (toDigits (2 ^ bpd) R)
    omega
  · -- carry: `R = radix^d`, the digit string is `1 0 … 0` and trims to `1`
    have hR : R = (2 ^ bpd) ^ d := by rw [hpow]; omega
    have hdig : toDigits (2 ^ bpd) R = 1 :: List.replicate d 0 := by
      symm
      apply LexVerif.Spec.toDigits_unique (2 ^ bpd) hr2
      · refine ⟨by simp, ?_, Or.inr (by simp)⟩
        intro x hx
        rcases List.mem_cons.mp hx with h | h
        · omega
        · have := (List.mem_replicate.mp h).2; omega
      · rw [hR, LexVerif.Proof.ParseInt.ofDigits_cons, LexVerif.Proof.WriteBinaryDigits.ofDigits_replicate_zero]
        simp
    rw [hdig, LexVerif.Proof.WriteBinaryDigits.rtrimZeros_cons_ne_zero 1 _ (by decide)]
    obtain ⟨k, hk1, hk2⟩ := LexVerif.Proof.WriteBinaryDigits.rtrimZeros_spec (List.replicate d 0)
    have hnil : rtrimZeros (List.replicate d 0) = [] := by
      unfold rtrimZeros
      rw [List.reverse_replicate]
      have : ∀ n : Nat, (List.replicate n 0).dropWhile (· = 0) = [] := by
        intro n; induction n with
        | zero => rfl
        | succ n ih => simp [List.replicate_succ, List.dropWhile_cons, ih]
      rw [this]; rfl
    rw [hnil]; simp; omega

/-! ## the full laws (false) and decided witnesses on the model of the CURRENT code -/

/-- value law without the alignment hypothesis — **false**: `value_off_*` -/
def pow2_value_full : Prop :=
  ∀ (fmt : Format) (o : WOpts) (w bpd bpb m d : Nat) (e : ℤ),
    fmt.mantissaRadix = 2 ^ bpd → fmt.exponentBase = 2 ^ bpb → 1 ≤ bpd → bpd ≤ 5 →
    (bpb = 1 ∨ (bpb = 2 ∧ bpd = 4) ∨ bpb = bpd) → 0 < m → 5 ≤ w → w ≤ 64 → m * 16 < 2 ^ w → -1900 ≤ e → e ≤ 1900 →
    o.maxDigits = some d → 1 ≤ d → d * bpd < significantBits m →
    layoutQ (2 ^ bpd) (2 ^ bpb) (layoutMEOWith false fmt o w m e) =
      (keptMantissa o m (significantBits m - d * bpd) : ℚ) * (2 : ℚ) ^ (e + ((significantBits m - d * bpd : Nat) : ℤ))

/-- digit-count law without the alignment hypothesis — **false**: `more_than_max_*` -/
def pow2_digits_full : Prop :=
  ∀ (o : WOpts) (w bpd m d : Nat) (e : ℤ), 1 ≤ bpd → bpd ≤ 5 → 0 < m → significantBits m ≤ w → w ≤ 64 →
    -3000 ≤ e → e ≤ 3000 → o.maxDigits = some d → 1 ≤ d → d * bpd < significantBits m →
    (rtrimZeros (mantissaDigits w (2 ^ bpd) (truncateAndRoundSel false w m (2 ^ bpd) e o).1 e)).length ≤ d

def fmtR4 : Format := ⟨0x404040000000000000000000000000c⟩
def fmtR16 : Format := ⟨0x1010100000000000000000000000000c⟩
def pow2Feats : Features := { powerOfTwo := true }

/-- **value-off, minimal**: `1.0f64` in radix 4 with `max_significant_digits = 1` is written `2.0`
(`wf f64 404040000000000000000000000000c 3ff0000000000000 1 - - - r 0 101 46 4e614e 696e66 -`): 53 mantissa bits are cut to
2 bits (`10`), handed on as if still at exponent −52, whose `calculate_shl` is 0 — the digit `2`. -/
theorem value_off_one_radix4 :
    writeFloatOWith false fmtR4 pow2Feats { maxDigits := some 1 } .f64 0x3ff0000000000000 = some [50, 46, 48] := by decide +kernel

/-- **value-off**: `1.5f64` in radix 16, one digit: `C.0` (12 instead of 2) -/
theorem value_off_hex :
    writeFloatOWith false fmtR16 pow2Feats { maxDigits := some 1, exp := 94 } .f64 0x3ff8000000000000 = some [67, 46, 48] := by
  decide +kernel

/-- **value-off**: `255.9375f64` in radix 16, two digits: `800.0` (2048 instead of 256) -/
theorem value_off_hex_carry :
    writeFloatOWith false fmtR16 pow2Feats { maxDigits := some 2, exp := 94 } .f64 0x406ffe0000000000 =
      some [56, 48, 48, 46, 48] := by decide +kernel

/-- **more-than-max** (value right, `4 ∣ 24` but `4 ∤ e`): `1.5f32` in radix 16 with one digit is written `1.8` —
two significant digits (`wf f32 1010100000000000000000000000000c 3fc00000 1 - - - r 0 94 46 4e614e 696e66 -`) -/
theorem more_than_max_hex_f32 :
    writeFloatOWith false fmtR16 pow2Feats { maxDigits := some 1, exp := 94 } .f32 0x3fc00000 = some [49, 46, 56] := by
  decide +kernel

/-- **aligned, right** (non-vacuity of both partial laws: f32, `4 ∣ 24`, exponent −20): `8.75f32` in radix 16 with one
digit is `9.0`; `255.9375f32` with two digits carries to `100.0` -/
theorem aligned_ok_f32 :
    writeFloatOWith false fmtR16 pow2Feats { maxDigits := some 1, exp := 94 } .f32 0x410c0000 = some [57, 46, 48] ∧
    writeFloatOWith false fmtR16 pow2Feats { maxDigits := some 2, exp := 94 } .f32 0x437ff000 = some [49, 48, 48, 46, 48] ∧
    (4 : ℤ) ∣ FTy.exponent .f32 0x410c0000 ∧ 4 ∣ significantBits (FTy.mantissa .f32 0x410c0000) := by
  refine ⟨by decide +kernel, by decide +kernel, by decide +kernel, by decide +kernel⟩

/-! ## the repaired `truncate_and_round` (`fixes/C14-pow2-digit-options.diff`, `truncateAndRoundFixed`): regressions -/

/-- the witnesses above under the repair: `1.0` → `1.0` (radix 4), `1.5` → `2.0`, `255.9375` → `100.0` (radix 16, f64),
`1.5f32` with one hex digit → `2.0` (tie to even) -/
theorem fixed_regressions :
    writeFloatOWith true fmtR4 pow2Feats { maxDigits := some 1 } .f64 0x3ff0000000000000 = some [49, 46, 48] ∧
    writeFloatOWith true fmtR16 pow2Feats { maxDigits := some 1, exp := 94 } .f64 0x3ff8000000000000 = some [50, 46, 48] ∧
    writeFloatOWith true fmtR16 pow2Feats { maxDigits := some 2, exp := 94 } .f64 0x406ffe0000000000 =
      some [49, 48, 48, 46, 48] ∧
    writeFloatOWith true fmtR16 pow2Feats { maxDigits := some 1, exp := 94 } .f32 0x3fc00000 = some [50, 46, 48] ∧
    writeFloatOWith true fmtR16 pow2Feats { maxDigits := some 1, exp := 94 } .f32 0x410c0000 = some [57, 46, 48] := by
  refine ⟨by decide +kernel, by decide +kernel, by decide +kernel, by decide +kernel, by decide +kernel⟩

/-- **value law for the repaired code, NO alignment hypothesis**: the text denotes exactly the mantissa rounded half-even
(or truncated) on the boundary of the `d`-th digit (`keptBits`: the leading digit holds `(sci mod bpd) + 1` bits), times
`2^e`. -/
theorem fixed_value (fmt : Format) (o : WOpts) {w bpd bpb m d : Nat} {e : ℤ}
    (hr : fmt.mantissaRadix = 2 ^ bpd) (hb : fmt.exponentBase = 2 ^ bpb)
    (h1 : 1 ≤ bpd) (h5 : bpd ≤ 5) (hpair : bpb = 1 ∨ (bpb = 2 ∧ bpd = 4) ∨ bpb = bpd)
    (hm : 0 < m) (hw : 6 ≤ w) (hw64 : w ≤ 64) (hmw : m * 32 < 2 ^ w) (he1 : -2000 ≤ e) (he2 : e ≤ 2000)
    (hd : o.maxDigits = some d) (hd1 : 1 ≤ d) (hd64 : d ≤ 64)
    (hlt : keptBits bpd d (significantBits m) e < significantBits m) :
    layoutQ (2 ^ bpd) (2 ^ bpb) (layoutMEOWith true fmt o w m e) =
      (keptMantissa o m (significantBits m - keptBits bpd d (significantBits m) e) : ℚ) *
        (2 : ℚ) ^ (e + ((significantBits m - keptBits bpd d (significantBits m) e : Nat) : ℤ)) := by
  obtain ⟨s1, s2, s3⟩ := significantBits_spec hm
  have hmbw : significantBits m < w := by
    have : 2 ^ (significantBits m - 1) * 32 < 2 ^ w := by omega
    have h2 : (2 : Nat) ^ (significantBits m - 1) * 32 = 2 ^ (significantBits m - 1 + 5) := by rw [Nat.pow_add]
    rw [h2] at this
    have := (Nat.pow_lt_pow_iff_right (by decide : 1 < 2)).mp this
    omega
  obtain ⟨heq, hpos, hle, hK1⟩ := truncFixed_spec o e h1 h5 hm hmbw hw64 hd hd1 hd64 hlt
  unfold layoutMEOWith truncateAndRoundSel
  simp only [if_true, hr]
  rw [heq]
  dsimp only
  rw [← layoutME_eq]
  generalize hshr : significantBits m - keptBits bpd d (significantBits m) e = shr at *
  generalize hR : keptMantissa o m shr = R at *
  have hK : keptBits bpd d (significantBits m) e + shr = significantBits m := by omega
  have hM : R <<< shr ≤ 2 ^ significantBits m := by
    rw [Nat.shiftLeft_eq, ← hK, Nat.pow_add]
    exact Nat.mul_le_mul_right _ hle
  have hMpos : 0 < R <<< shr := by rw [Nat.shiftLeft_eq]; exact Nat.mul_pos hpos (Nat.two_pow_pos _)
  have h2m : 2 ^ significantBits m ≤ 2 * m := by
    have : (2 : Nat) ^ significantBits m = 2 * 2 ^ (significantBits m - 1) := by
      rw [← Nat.pow_succ']; congr 1; omega
    omega
  rw [layoutME_exact fmt o hr hb h1 h5 hpair hMpos (by omega) (by omega)
    (by have : (2:Nat) ^ w ≤ 2 ^ 64 := Nat.pow_le_pow_right (by decide) hw64; omega) (by omega) (by omega)]
  rw [Nat.shiftLeft_eq]
  push_cast
  rw [zpow_add₀ (by norm_num : (2 : ℚ) ≠ 0), zpow_natCast]
  ring

/-- digit-count law for the repaired code (all alignments) — statement only; the correspondence (`props/C14.py`
`radix_laws` on every generated op, `VERIF_REPO` = repaired tree) shows no violation -/
def fixed_digits_full : Prop :=
  ∀ (o : WOpts) (w bpd m d : Nat) (e : ℤ), 1 ≤ bpd → bpd ≤ 5 → 0 < m → significantBits m < w → w ≤ 64 →
    -3000 ≤ e → e ≤ 3000 → o.maxDigits = some d → 1 ≤ d →
    (rtrimZeros (mantissaDigits w (2 ^ bpd) (truncateAndRoundSel true w m (2 ^ bpd) e o).1 e)).length ≤ d

/-- the digit-count law is false in general (`more_than_max_hex_f32` at the level of the digit string) -/
theorem pow2_digits_full_false : ¬ pow2_digits_full := by
  intro h
  have := h { maxDigits := some 1 } 32 4 0xc00000 1 (-23) (by decide) (by decide) (by decide) (by decide +kernel)
    (by decide) (by decide) (by decide) rfl (by decide) (by decide +kernel)
  revert this
  decide +kernel

end LexVerif.Props.C14Pow2
