import LexVerif.Model.FormatError
import LexVerif.Spec.FormatValid
namespace LexVerif.Props.C18
end LexVerif.Props.C18
