import LexVerif.Model.FormatError
import LexVerif.Spec.FormatValid
import LexVerif.Proof.Bits
/-!
# C18 — format and options validation is sound and complete (property theorems)
-/
namespace LexVerif.Props.C18
open LexVerif.Model LexVerif.Model.FormatError LexVerif.Spec LexVerif.Proof.Bits
namespace G
export LexVerif.Gen.FormatFlags (REQUIRED_INTEGER_DIGITS REQUIRED_FRACTION_DIGITS REQUIRED_EXPONENT_DIGITS
  REQUIRED_MANTISSA_DIGITS REQUIRED_DIGITS NO_POSITIVE_MANTISSA_SIGN REQUIRED_MANTISSA_SIGN NO_EXPONENT_NOTATION
  NO_POSITIVE_EXPONENT_SIGN REQUIRED_EXPONENT_SIGN NO_EXPONENT_WITHOUT_FRACTION NO_SPECIAL CASE_SENSITIVE_SPECIAL
  NO_INTEGER_LEADING_ZEROS NO_FLOAT_LEADING_ZEROS REQUIRED_EXPONENT_NOTATION CASE_SENSITIVE_EXPONENT
  CASE_SENSITIVE_BASE_PREFIX CASE_SENSITIVE_BASE_SUFFIX INTEGER_INTERNAL_DIGIT_SEPARATOR
  FRACTION_INTERNAL_DIGIT_SEPARATOR EXPONENT_INTERNAL_DIGIT_SEPARATOR INTEGER_LEADING_DIGIT_SEPARATOR
  FRACTION_LEADING_DIGIT_SEPARATOR EXPONENT_LEADING_DIGIT_SEPARATOR INTEGER_TRAILING_DIGIT_SEPARATOR
  FRACTION_TRAILING_DIGIT_SEPARATOR EXPONENT_TRAILING_DIGIT_SEPARATOR INTEGER_CONSECUTIVE_DIGIT_SEPARATOR
  FRACTION_CONSECUTIVE_DIGIT_SEPARATOR EXPONENT_CONSECUTIVE_DIGIT_SEPARATOR SPECIAL_DIGIT_SEPARATOR
  INTERNAL_DIGIT_SEPARATOR LEADING_DIGIT_SEPARATOR TRAILING_DIGIT_SEPARATOR CONSECUTIVE_DIGIT_SEPARATOR
  DIGIT_SEPARATOR_SHIFT DIGIT_SEPARATOR BASE_PREFIX_SHIFT BASE_PREFIX BASE_SUFFIX_SHIFT BASE_SUFFIX
  MANTISSA_RADIX_SHIFT MANTISSA_RADIX RADIX_SHIFT RADIX EXPONENT_BASE_SHIFT EXPONENT_BASE EXPONENT_RADIX_SHIFT
  EXPONENT_RADIX RADIX_MASK FLAG_MASK INTERFACE_FLAG_MASK DIGIT_SEPARATOR_FLAG_MASK EXPONENT_FLAG_MASK
  INTEGER_DIGIT_SEPARATOR_FLAG_MASK FRACTION_DIGIT_SEPARATOR_FLAG_MASK EXPONENT_DIGIT_SEPARATOR_FLAG_MASK)
end G

/-! ## (a) the generated constants are the layout `Model.Format` uses -/

/-- bit position of a flag in the documentation table of `format_flags.rs` (= the index used by the
`Model.Format` accessor of the same name) -/
def pos : Flag → Nat
  | .requiredIntegerDigits => 0 | .requiredFractionDigits => 1 | .requiredExponentDigits => 2
  | .requiredMantissaDigits => 3 | .noPositiveMantissaSign => 4 | .requiredMantissaSign => 5
  | .noExponentNotation => 6 | .noPositiveExponentSign => 7 | .requiredExponentSign => 8
  | .noExponentWithoutFraction => 9 | .noSpecial => 10 | .caseSensitiveSpecial => 11
  | .noIntegerLeadingZeros => 12 | .noFloatLeadingZeros => 13 | .requiredExponentNotation => 14
  | .caseSensitiveExponent => 15 | .caseSensitiveBasePrefix => 16 | .caseSensitiveBaseSuffix => 17
  | .integerInternalSep => 32 | .fractionInternalSep => 33 | .exponentInternalSep => 34
  | .integerLeadingSep => 35 | .fractionLeadingSep => 36 | .exponentLeadingSep => 37
  | .integerTrailingSep => 38 | .fractionTrailingSep => 39 | .exponentTrailingSep => 40
  | .integerConsecutiveSep => 41 | .fractionConsecutiveSep => 42 | .exponentConsecutiveSep => 43
  | .specialSep => 44

/-- the named field of the unpacked record that corresponds to a builder flag -/
def flagOf (u : Unpacked) : Flag → Bool
  | .requiredIntegerDigits => u.requiredIntegerDigits | .requiredFractionDigits => u.requiredFractionDigits
  | .requiredExponentDigits => u.requiredExponentDigits | .requiredMantissaDigits => u.requiredMantissaDigits
  | .noPositiveMantissaSign => u.noPositiveMantissaSign | .requiredMantissaSign => u.requiredMantissaSign
  | .noExponentNotation => u.noExponentNotation | .noPositiveExponentSign => u.noPositiveExponentSign
  | .requiredExponentSign => u.requiredExponentSign | .noExponentWithoutFraction => u.noExponentWithoutFraction
  | .noSpecial => u.noSpecial | .caseSensitiveSpecial => u.caseSensitiveSpecial
  | .noIntegerLeadingZeros => u.noIntegerLeadingZeros | .noFloatLeadingZeros => u.noFloatLeadingZeros
  | .requiredExponentNotation => u.requiredExponentNotation | .caseSensitiveExponent => u.caseSensitiveExponent
  | .caseSensitiveBasePrefix => u.caseSensitiveBasePrefix | .caseSensitiveBaseSuffix => u.caseSensitiveBaseSuffix
  | .integerInternalSep => u.integerInternalSep | .fractionInternalSep => u.fractionInternalSep
  | .exponentInternalSep => u.exponentInternalSep | .integerLeadingSep => u.integerLeadingSep
  | .fractionLeadingSep => u.fractionLeadingSep | .exponentLeadingSep => u.exponentLeadingSep
  | .integerTrailingSep => u.integerTrailingSep | .fractionTrailingSep => u.fractionTrailingSep
  | .exponentTrailingSep => u.exponentTrailingSep | .integerConsecutiveSep => u.integerConsecutiveSep
  | .fractionConsecutiveSep => u.fractionConsecutiveSep | .exponentConsecutiveSep => u.exponentConsecutiveSep
  | .specialSep => u.specialSep

/-- **(a) `gen_layout`.** Every flag constant printed by the compiled crate is the single bit at the position the
`Model.Format` accessor reads, every byte mask is `0xFF` at its shift, the shifts are the byte offsets
`Model.Format` uses, and the composite masks are the unions their documentation states. -/
theorem gen_layout :
    (∀ fl : Flag, fl.mask = 2 ^ pos fl) ∧
    (G.DIGIT_SEPARATOR_SHIFT = 64 ∧ G.BASE_PREFIX_SHIFT = 88 ∧ G.BASE_SUFFIX_SHIFT = 96 ∧
      G.MANTISSA_RADIX_SHIFT = 104 ∧ G.EXPONENT_BASE_SHIFT = 112 ∧ G.EXPONENT_RADIX_SHIFT = 120 ∧
      G.RADIX_SHIFT = G.MANTISSA_RADIX_SHIFT) ∧
    (G.DIGIT_SEPARATOR = (2 ^ 8 - 1) <<< 64 ∧ G.BASE_PREFIX = (2 ^ 8 - 1) <<< 88 ∧
      G.BASE_SUFFIX = (2 ^ 8 - 1) <<< 96 ∧ G.MANTISSA_RADIX = (2 ^ 8 - 1) <<< 104 ∧
      G.EXPONENT_BASE = (2 ^ 8 - 1) <<< 112 ∧ G.EXPONENT_RADIX = (2 ^ 8 - 1) <<< 120 ∧
      G.RADIX = G.MANTISSA_RADIX ∧ G.RADIX_MASK = G.MANTISSA_RADIX ||| G.EXPONENT_RADIX) ∧
    (G.REQUIRED_DIGITS = 2 ^ 4 - 1 ∧
      G.INTERNAL_DIGIT_SEPARATOR = 2 ^ 32 ||| 2 ^ 33 ||| 2 ^ 34 ∧
      G.LEADING_DIGIT_SEPARATOR = 2 ^ 35 ||| 2 ^ 36 ||| 2 ^ 37 ∧
      G.TRAILING_DIGIT_SEPARATOR = 2 ^ 38 ||| 2 ^ 39 ||| 2 ^ 40 ∧
      G.CONSECUTIVE_DIGIT_SEPARATOR = 2 ^ 41 ||| 2 ^ 42 ||| 2 ^ 43 ∧
      G.FLAG_MASK = (2 ^ 18 - 1) ||| (2 ^ 13 - 1) <<< 32 ∧
      G.DIGIT_SEPARATOR_FLAG_MASK = (2 ^ 13 - 1) <<< 32 ∧
      G.INTEGER_DIGIT_SEPARATOR_FLAG_MASK = 2 ^ 32 ||| 2 ^ 35 ||| 2 ^ 38 ||| 2 ^ 41 ∧
      G.FRACTION_DIGIT_SEPARATOR_FLAG_MASK = 2 ^ 33 ||| 2 ^ 36 ||| 2 ^ 39 ||| 2 ^ 42 ∧
      G.EXPONENT_DIGIT_SEPARATOR_FLAG_MASK = 2 ^ 34 ||| 2 ^ 37 ||| 2 ^ 40 ||| 2 ^ 43 ∧
      G.EXPONENT_FLAG_MASK = 2 ^ 2 ||| 2 ^ 6 ||| 2 ^ 7 ||| 2 ^ 8 ||| 2 ^ 9 ||| 2 ^ 14 ||| G.EXPONENT_DIGIT_SEPARATOR_FLAG_MASK ∧
      G.INTERFACE_FLAG_MASK = G.REQUIRED_DIGITS ||| 2 ^ 6 ||| 2 ^ 7 ||| 2 ^ 8 ||| 2 ^ 9 ||| 2 ^ 13 ||| 2 ^ 14 |||
        (2 ^ 12 - 1) <<< 32) := by
  refine ⟨?_, by decide, by decide, by decide⟩
  intro fl; cases fl <;> decide

theorem mask_eq (fl : Flag) : fl.mask = 2 ^ pos fl := gen_layout.1 fl

/-- the Rust flag test with the generated constant reads the bit the `Model.Format` accessor reads -/
theorem hasFlag_unpack (f : Nat) (fl : Flag) : hasFlag f fl.mask = flagOf (unpack f) fl := by
  rw [hasFlag, mask_eq, and_two_pow_ne_zero]
  cases fl <;> rfl

theorem byteField_eq (f s : Nat) : byteField f ((2 ^ 8 - 1) <<< s) s = f / 2 ^ s % 256 := by
  rw [byteField, and_shifted_mask_shr]; omega

theorem u32Field_eq (f s : Nat) : u32Field f ((2 ^ 8 - 1) <<< s) s = f / 2 ^ s % 256 := by
  rw [u32Field, and_shifted_mask_shr]; omega

/-- the Rust extractors with the generated masks and shifts read the bytes the `Model.Format` accessors read -/
theorem bytes_unpack (f : Nat) :
    digitSeparator f = (unpack f).digitSeparator ∧ basePrefix f = (unpack f).basePrefix ∧
    baseSuffix f = (unpack f).baseSuffix ∧ mantissaRadix f = (unpack f).mantissaRadix ∧
    exponentBase f = (unpack f).exponentBase ∧ exponentRadix f = (unpack f).exponentRadix := by
  have h1 : digitSeparator f = f / 2 ^ 64 % 256 := byteField_eq f 64
  have h2 : basePrefix f = f / 2 ^ 88 % 256 := byteField_eq f 88
  have h3 : baseSuffix f = f / 2 ^ 96 % 256 := byteField_eq f 96
  have h4 : mantissaRadix f = f / 2 ^ 104 % 256 := u32Field_eq f 104
  have h5 : u32Field f G.EXPONENT_BASE G.EXPONENT_BASE_SHIFT = f / 2 ^ 112 % 256 := u32Field_eq f 112
  have h6 : u32Field f G.EXPONENT_RADIX G.EXPONENT_RADIX_SHIFT = f / 2 ^ 120 % 256 := u32Field_eq f 120
  refine ⟨h1, h2, h3, h4, ?_, ?_⟩
  · simp only [exponentBase, h5, h4]; rfl
  · simp only [exponentRadix, h6, h4]; rfl

/-! ## (b) `format_error_impl` = first violated documented constraint -/

theorem isValidRadix_spec (feats : Features) (r : Nat) :
    isValidRadix feats r = decide (RadixSupported feats r) := by
  unfold isValidRadix RadixSupported
  by_cases hr : feats.radix = true
  · simp [hr]
  · by_cases hp : feats.powerOfTwo = true <;> simp [hr, hp, Bool.beq_eq_decide_eq, Bool.or_assoc]

theorem radixSupported_range {feats : Features} {r : Nat} (h : RadixSupported feats r) : 2 ≤ r ∧ r ≤ 36 := by
  unfold RadixSupported at h
  by_cases hr : feats.radix = true
  · simp [hr] at h; omega
  · by_cases hp : feats.powerOfTwo = true <;> simp [hr, hp] at h <;> omega

/-- `is_valid_optional_control_radix` accepts exactly 0 and the documented control characters
(all 37 × 256 cases, kernel-evaluated) -/
theorem control_spec : ∀ r < 37, ∀ v < 256,
    isValidOptionalControlRadix r v = decide (v = 0 ∨ ControlChar r v) := by
  decide +kernel

theorem and_mask4 (f a b c d : Nat) (hab : a < b) (hbc : b < c) (hcd : c < d) :
    f &&& (2 ^ a ||| 2 ^ b ||| 2 ^ c ||| 2 ^ d) =
      (f / 2 ^ a % 2) * 2 ^ a + (f / 2 ^ b % 2) * 2 ^ b + (f / 2 ^ c % 2) * 2 ^ c + (f / 2 ^ d % 2) * 2 ^ d := by
  rw [Nat.and_or_distrib_left, Nat.and_or_distrib_left, Nat.and_or_distrib_left,
    and_two_pow, and_two_pow, and_two_pow, and_two_pow]
  have pa : 2 ^ a * 2 ≤ 2 ^ b := by rw [← Nat.pow_succ]; exact Nat.pow_le_pow_right (by omega) hab
  have pb : 2 ^ b * 2 ≤ 2 ^ c := by rw [← Nat.pow_succ]; exact Nat.pow_le_pow_right (by omega) hbc
  have pc : 2 ^ c * 2 ≤ 2 ^ d := by rw [← Nat.pow_succ]; exact Nat.pow_le_pow_right (by omega) hcd
  have qa : 0 < 2 ^ a := Nat.two_pow_pos a
  have xa : f / 2 ^ a % 2 ≤ 1 := by omega
  have xb : f / 2 ^ b % 2 ≤ 1 := by omega
  have xc : f / 2 ^ c % 2 ≤ 1 := by omega
  have h1 : (f / 2 ^ a % 2) * 2 ^ a < 2 ^ b := by
    rcases Nat.le_one_iff_eq_zero_or_eq_one.mp xa with h | h <;> rw [h] <;> omega
  have h2 : (f / 2 ^ a % 2) * 2 ^ a + (f / 2 ^ b % 2) * 2 ^ b < 2 ^ c := by
    rcases Nat.le_one_iff_eq_zero_or_eq_one.mp xa with h | h <;>
    rcases Nat.le_one_iff_eq_zero_or_eq_one.mp xb with h' | h' <;> rw [h, h'] <;> omega
  have h3 : (f / 2 ^ a % 2) * 2 ^ a + (f / 2 ^ b % 2) * 2 ^ b + (f / 2 ^ c % 2) * 2 ^ c < 2 ^ d := by
    rcases Nat.le_one_iff_eq_zero_or_eq_one.mp xa with h | h <;>
    rcases Nat.le_one_iff_eq_zero_or_eq_one.mp xb with h' | h' <;>
    rcases Nat.le_one_iff_eq_zero_or_eq_one.mp xc with h'' | h'' <;> rw [h, h', h''] <;> omega
  rw [or_mul_two_pow _ _ _ h1, or_mul_two_pow _ _ _ h2, or_mul_two_pow _ _ _ h3]

/-- `(format & GROUP_MASK) == GROUP_CONSECUTIVE`: consecutive set, no position flag set -/
theorem consec_eq (f a b c d : Nat) (hab : a < b) (hbc : b < c) (hcd : c < d) :
    ((f &&& (2 ^ a ||| 2 ^ b ||| 2 ^ c ||| 2 ^ d)) == 2 ^ d) =
      (decide (f / 2 ^ d % 2 = 1) && !decide (f / 2 ^ a % 2 = 1) && !decide (f / 2 ^ b % 2 = 1) &&
        !decide (f / 2 ^ c % 2 = 1)) := by
  rw [and_mask4 f a b c d hab hbc hcd]
  have pa : 2 ^ a * 2 ≤ 2 ^ b := by rw [← Nat.pow_succ]; exact Nat.pow_le_pow_right (by omega) hab
  have pb : 2 ^ b * 2 ≤ 2 ^ c := by rw [← Nat.pow_succ]; exact Nat.pow_le_pow_right (by omega) hbc
  have pc : 2 ^ c * 2 ≤ 2 ^ d := by rw [← Nat.pow_succ]; exact Nat.pow_le_pow_right (by omega) hcd
  have qa : 0 < 2 ^ a := Nat.two_pow_pos a
  have xa : f / 2 ^ a % 2 = 0 ∨ f / 2 ^ a % 2 = 1 := by omega
  have xb : f / 2 ^ b % 2 = 0 ∨ f / 2 ^ b % 2 = 1 := by omega
  have xc : f / 2 ^ c % 2 = 0 ∨ f / 2 ^ c % 2 = 1 := by omega
  have xd : f / 2 ^ d % 2 = 0 ∨ f / 2 ^ d % 2 = 1 := by omega
  rcases xa with h | h <;> rcases xb with h' | h' <;> rcases xc with h'' | h'' <;> rcases xd with h''' | h''' <;>
    rw [h, h', h'', h'''] <;> simp <;> omega

theorem chunk6 (f s : Nat) (a0 a1 a2 a3 a4 a5 : Nat) (h0 : f / 2 ^ (s+0) % 2 = a0) (h1 : f / 2 ^ (s+1) % 2 = a1)
    (h2 : f / 2 ^ (s+2) % 2 = a2) (h3 : f / 2 ^ (s+3) % 2 = a3) (h4 : f / 2 ^ (s+4) % 2 = a4)
    (h5 : f / 2 ^ (s+5) % 2 = a5) :
    f / 2 ^ s % 2 ^ 6 = a0 + 2 * a1 + 4 * a2 + 8 * a3 + 16 * a4 + 32 * a5 := by
  have e : ∀ k, f / 2 ^ (s + k) = f / 2 ^ s / 2 ^ k := fun k => by rw [Nat.pow_add, Nat.div_div_eq_div_mul]
  rw [e] at h0 h1 h2 h3 h4 h5
  generalize f / 2 ^ s = g at *
  omega

theorem digitRadix_eq (f : Nat) :
    (if mantissaRadix f > exponentRadix f then mantissaRadix f else exponentRadix f) = (unpack f).digitRadix := by
  obtain ⟨_, _, _, hm, _, hr⟩ := bytes_unpack f
  rw [hm, hr]; unfold Unpacked.digitRadix
  split <;> omega

theorem optControl_spec (f : Nat) (en : Bool) (v : Nat) (hv : v < 256) (hR : (unpack f).digitRadix < 37) :
    (if en = true then isValidOptionalControl f v else v == 0) =
      decide (OptionalControl en (unpack f).digitRadix v) := by
  unfold OptionalControl
  simp only [isValidOptionalControl, digitRadix_eq]
  cases en
  · simp [Bool.beq_eq_decide_eq]
  · simp [control_spec _ hR _ hv]

theorem unpack_bytes_lt (f : Nat) :
    (unpack f).digitSeparator < 256 ∧ (unpack f).basePrefix < 256 ∧ (unpack f).baseSuffix < 256 ∧
    (unpack f).mantissaRadix < 256 ∧ (unpack f).exponentBaseRaw < 256 ∧ (unpack f).exponentRadixRaw < 256 := by
  simp only [unpack, Format.digitSeparator, Format.basePrefix, Format.baseSuffix, Format.mantissaRadix,
    Format.exponentBaseRaw, Format.exponentRadixRaw, Format.byteAt]
  omega

theorem punctuation_pure (fmt : Bool) (s p q : Nat) (hs : fmt = false → s = 0) :
    (if (!fmt && s != 0) = true then false
      else if s = 0 ∧ p = 0 ∧ q = 0 then true
      else if p = 0 ∧ q = 0 then true
      else if s = 0 ∧ q = 0 then true
      else if s = 0 ∧ p = 0 then true
      else s != p && s != q && p != q) =
    decide ((s ≠ 0 → p ≠ 0 → s ≠ p) ∧ (s ≠ 0 → q ≠ 0 → s ≠ q) ∧ (p ≠ 0 → q ≠ 0 → p ≠ q)) := by
  cases fmt
  · simp at hs
    by_cases p0 : p = 0 <;> by_cases q0 : q = 0 <;> simp [hs, p0, q0] <;>
      (rw [Bool.eq_iff_iff]; simp; omega)
  · by_cases s0 : s = 0 <;> by_cases p0 : p = 0 <;> by_cases q0 : q = 0 <;> simp [s0, p0, q0] <;>
      (rw [Bool.eq_iff_iff]; simp; omega)

/-- `is_valid_punctuation`, once the digit separator itself has been accepted -/
theorem punctuation_spec (feats : Features) (f : Nat)
    (hs : OptionalControl feats.format (unpack f).digitRadix (unpack f).digitSeparator) :
    isValidPunctuation feats f = decide (PunctuationDistinct (unpack f)) := by
  obtain ⟨h1, h2, h3, -, -, -⟩ := bytes_unpack f
  unfold isValidPunctuation PunctuationDistinct
  simp only [h1, h2, h3]
  apply punctuation_pure
  intro hf
  simpa [OptionalControl, hf] using hs

theorem exponentFlags_spec (f : Nat) : isValidExponentFlags f = decide (ExponentFlagsOk (unpack f)) := by
  unfold isValidExponentFlags ExponentFlagsOk
  show (f &&& 2 ^ 6 == 0 || f &&& 2 ^ 14 == 0) = _
  rw [and_two_pow_eq_zero, and_two_pow_eq_zero]
  simp only [unpack, Format.noExponentNotation, Format.requiredExponentNotation, Format.bit]
  rw [Bool.eq_iff_iff]; simp <;> omega

theorem intConsec_spec (f : Nat) :
    ((f &&& G.INTEGER_DIGIT_SEPARATOR_FLAG_MASK) == G.INTEGER_CONSECUTIVE_DIGIT_SEPARATOR) =
      !decide (IntegerConsecutiveOk (unpack f)) := by
  show ((f &&& (2 ^ 32 ||| 2 ^ 35 ||| 2 ^ 38 ||| 2 ^ 41)) == 2 ^ 41) = _
  rw [consec_eq f 32 35 38 41 (by omega) (by omega) (by omega)]
  simp only [IntegerConsecutiveOk, unpack, Format.integerConsecutiveSep, Format.integerInternalSep,
    Format.integerLeadingSep, Format.integerTrailingSep, Format.bit]
  rw [Bool.eq_iff_iff]; simp <;> omega

theorem flagsAreDefault_unpack (f : Nat) : FlagsAreDefault (unpack f) ↔
    (f / 2 ^ 2 % 2 = 1 ∧ f / 2 ^ 3 % 2 = 1 ∧ ¬ f / 2 ^ 0 % 2 = 1 ∧ ¬ f / 2 ^ 1 % 2 = 1 ∧ ¬ f / 2 ^ 4 % 2 = 1 ∧
     ¬ f / 2 ^ 5 % 2 = 1 ∧ ¬ f / 2 ^ 6 % 2 = 1 ∧ ¬ f / 2 ^ 7 % 2 = 1 ∧ ¬ f / 2 ^ 8 % 2 = 1 ∧ ¬ f / 2 ^ 9 % 2 = 1 ∧
     ¬ f / 2 ^ 10 % 2 = 1 ∧ ¬ f / 2 ^ 11 % 2 = 1 ∧ ¬ f / 2 ^ 12 % 2 = 1 ∧ ¬ f / 2 ^ 13 % 2 = 1 ∧ ¬ f / 2 ^ 14 % 2 = 1 ∧
     ¬ f / 2 ^ 15 % 2 = 1 ∧ ¬ f / 2 ^ 16 % 2 = 1 ∧ ¬ f / 2 ^ 17 % 2 = 1 ∧
     ¬ f / 2 ^ 32 % 2 = 1 ∧ ¬ f / 2 ^ 33 % 2 = 1 ∧ ¬ f / 2 ^ 34 % 2 = 1 ∧ ¬ f / 2 ^ 35 % 2 = 1 ∧ ¬ f / 2 ^ 36 % 2 = 1 ∧
     ¬ f / 2 ^ 37 % 2 = 1 ∧ ¬ f / 2 ^ 38 % 2 = 1 ∧ ¬ f / 2 ^ 39 % 2 = 1 ∧ ¬ f / 2 ^ 40 % 2 = 1 ∧ ¬ f / 2 ^ 41 % 2 = 1 ∧
     ¬ f / 2 ^ 42 % 2 = 1 ∧ ¬ f / 2 ^ 43 % 2 = 1 ∧ ¬ f / 2 ^ 44 % 2 = 1) := by
  simp only [FlagsAreDefault, unpack, Format.requiredIntegerDigits, Format.requiredFractionDigits,
      Format.requiredExponentDigits, Format.requiredMantissaDigits, Format.noPositiveMantissaSign,
      Format.requiredMantissaSign, Format.noExponentNotation, Format.noPositiveExponentSign,
      Format.requiredExponentSign, Format.noExponentWithoutFraction, Format.noSpecial, Format.caseSensitiveSpecial,
      Format.noIntegerLeadingZeros, Format.noFloatLeadingZeros, Format.requiredExponentNotation,
      Format.caseSensitiveExponent, Format.caseSensitiveBasePrefix, Format.caseSensitiveBaseSuffix,
      Format.integerInternalSep, Format.fractionInternalSep, Format.exponentInternalSep, Format.integerLeadingSep,
      Format.fractionLeadingSep, Format.exponentLeadingSep, Format.integerTrailingSep, Format.fractionTrailingSep,
      Format.exponentTrailingSep, Format.integerConsecutiveSep, Format.fractionConsecutiveSep,
      Format.exponentConsecutiveSep, Format.specialSep, Format.bit, decide_eq_true_eq, decide_eq_false_iff_not]

theorem bit_of_field (f s n k v : Nat) (hs : s ≤ k) (hk : k < s + n) (h : f / 2 ^ s % 2 ^ n = v) :
    f / 2 ^ k % 2 = v / 2 ^ (k - s) % 2 := by
  subst h
  have e : f / 2 ^ k = f / 2 ^ s / 2 ^ (k - s) := by
    rw [Nat.div_div_eq_div_mul, ← Nat.pow_add]; congr 2; omega
  rw [e]
  generalize f / 2 ^ s = g
  have hj : k - s < n := by omega
  generalize k - s = j at *
  have t := Nat.testBit_mod_two_pow g n j
  rw [Nat.testBit_eq_decide_div_mod_eq, Nat.testBit_eq_decide_div_mod_eq] at t
  simp only [hj, decide_true, Bool.true_and] at t
  have a : g / 2 ^ j % 2 = 0 ∨ g / 2 ^ j % 2 = 1 := by omega
  have b : g % 2 ^ n / 2 ^ j % 2 = 0 ∨ g % 2 ^ n / 2 ^ j % 2 = 1 := by omega
  rcases a with a | a <;> rcases b with b | b <;> simp [a, b] at t ⊢

theorem flagWord_arith (f : Nat) :
    (f % 2 ^ 18 + (f / 2 ^ 32 % 2 ^ 13) * 2 ^ 32 = 12) ↔
    (f / 2 ^ 2 % 2 = 1 ∧ f / 2 ^ 3 % 2 = 1 ∧ ¬ f / 2 ^ 0 % 2 = 1 ∧ ¬ f / 2 ^ 1 % 2 = 1 ∧ ¬ f / 2 ^ 4 % 2 = 1 ∧
     ¬ f / 2 ^ 5 % 2 = 1 ∧ ¬ f / 2 ^ 6 % 2 = 1 ∧ ¬ f / 2 ^ 7 % 2 = 1 ∧ ¬ f / 2 ^ 8 % 2 = 1 ∧ ¬ f / 2 ^ 9 % 2 = 1 ∧
     ¬ f / 2 ^ 10 % 2 = 1 ∧ ¬ f / 2 ^ 11 % 2 = 1 ∧ ¬ f / 2 ^ 12 % 2 = 1 ∧ ¬ f / 2 ^ 13 % 2 = 1 ∧ ¬ f / 2 ^ 14 % 2 = 1 ∧
     ¬ f / 2 ^ 15 % 2 = 1 ∧ ¬ f / 2 ^ 16 % 2 = 1 ∧ ¬ f / 2 ^ 17 % 2 = 1 ∧
     ¬ f / 2 ^ 32 % 2 = 1 ∧ ¬ f / 2 ^ 33 % 2 = 1 ∧ ¬ f / 2 ^ 34 % 2 = 1 ∧ ¬ f / 2 ^ 35 % 2 = 1 ∧ ¬ f / 2 ^ 36 % 2 = 1 ∧
     ¬ f / 2 ^ 37 % 2 = 1 ∧ ¬ f / 2 ^ 38 % 2 = 1 ∧ ¬ f / 2 ^ 39 % 2 = 1 ∧ ¬ f / 2 ^ 40 % 2 = 1 ∧ ¬ f / 2 ^ 41 % 2 = 1 ∧
     ¬ f / 2 ^ 42 % 2 = 1 ∧ ¬ f / 2 ^ 43 % 2 = 1 ∧ ¬ f / 2 ^ 44 % 2 = 1) := by
  constructor
  · intro h
    have hl : f / 2 ^ 0 % 2 ^ 18 = 12 := by omega
    have hh : f / 2 ^ 32 % 2 ^ 13 = 0 := by omega
    clear h
    refine ⟨?_, ?_, ?_, ?_, ?_, ?_, ?_, ?_, ?_, ?_, ?_, ?_, ?_, ?_, ?_, ?_, ?_, ?_, ?_, ?_, ?_, ?_, ?_, ?_, ?_, ?_,
      ?_, ?_, ?_, ?_, ?_⟩
    iterate 18 (rw [bit_of_field f 0 18 _ 12 (Nat.zero_le _) (by decide) hl] <;> decide)
    iterate 13 (rw [bit_of_field f 32 13 _ 0 (by decide) (by decide) hh] <;> decide)
  · rintro ⟨h2, h3, h0, h1, h4, h5, h6, h7, h8, h9, h10, h11, h12, h13, h14, h15, h16, h17,
      g0, g1, g2, g3, g4, g5, g6, g7, g8, g9, g10, g11, g12⟩
    have bit0 : ∀ {x : Nat}, ¬ x % 2 = 1 → x % 2 = 0 := fun h => by omega
    have c0 := chunk6 f 0 0 0 1 1 0 0 (bit0 h0) (bit0 h1) h2 h3 (bit0 h4) (bit0 h5)
    have c1 := chunk6 f 6 0 0 0 0 0 0 (bit0 h6) (bit0 h7) (bit0 h8) (bit0 h9) (bit0 h10) (bit0 h11)
    have c2 := chunk6 f 12 0 0 0 0 0 0 (bit0 h12) (bit0 h13) (bit0 h14) (bit0 h15) (bit0 h16) (bit0 h17)
    have c3 := chunk6 f 32 0 0 0 0 0 0 (bit0 g0) (bit0 g1) (bit0 g2) (bit0 g3) (bit0 g4) (bit0 g5)
    have c4 := chunk6 f 38 0 0 0 0 0 0 (bit0 g6) (bit0 g7) (bit0 g8) (bit0 g9) (bit0 g10) (bit0 g11)
    clear h2 h3 h0 h1 h4 h5 h6 h7 h8 h9 h10 h11 h12 h13 h14 h15 h16 h17 g0 g1 g2 g3 g4 g5 g6 g7 g8 g9 g10 g11
    omega

theorem fracConsec_spec (f : Nat) :
    ((f &&& G.FRACTION_DIGIT_SEPARATOR_FLAG_MASK) == G.FRACTION_CONSECUTIVE_DIGIT_SEPARATOR) =
      !decide (FractionConsecutiveOk (unpack f)) := by
  show ((f &&& (2 ^ 33 ||| 2 ^ 36 ||| 2 ^ 39 ||| 2 ^ 42)) == 2 ^ 42) = _
  rw [consec_eq f 33 36 39 42 (by omega) (by omega) (by omega)]
  simp only [FractionConsecutiveOk, unpack, Format.fractionConsecutiveSep, Format.fractionInternalSep,
    Format.fractionLeadingSep, Format.fractionTrailingSep, Format.bit]
  rw [Bool.eq_iff_iff]; simp <;> omega

theorem expConsec_spec (f : Nat) :
    ((f &&& G.EXPONENT_DIGIT_SEPARATOR_FLAG_MASK) == G.EXPONENT_CONSECUTIVE_DIGIT_SEPARATOR) =
      !decide (ExponentConsecutiveOk (unpack f)) := by
  show ((f &&& (2 ^ 34 ||| 2 ^ 37 ||| 2 ^ 40 ||| 2 ^ 43)) == 2 ^ 43) = _
  rw [consec_eq f 34 37 40 43 (by omega) (by omega) (by omega)]
  simp only [ExponentConsecutiveOk, unpack, Format.exponentConsecutiveSep, Format.exponentInternalSep,
    Format.exponentLeadingSep, Format.exponentTrailingSep, Format.bit]
  rw [Bool.eq_iff_iff]; simp <;> omega

theorem mantissaSign_spec (f : Nat) :
    (hasFlag f G.NO_POSITIVE_MANTISSA_SIGN && hasFlag f G.REQUIRED_MANTISSA_SIGN) =
      !decide (MantissaSignOk (unpack f)) := by
  rw [show G.NO_POSITIVE_MANTISSA_SIGN = Flag.noPositiveMantissaSign.mask from rfl,
    show G.REQUIRED_MANTISSA_SIGN = Flag.requiredMantissaSign.mask from rfl, hasFlag_unpack, hasFlag_unpack]
  simp only [flagOf, MantissaSignOk]
  by_cases h1 : (unpack f).noPositiveMantissaSign = true <;> by_cases h2 : (unpack f).requiredMantissaSign = true <;>
    simp [h1, h2]

theorem exponentSign_spec (f : Nat) :
    (hasFlag f G.NO_POSITIVE_EXPONENT_SIGN && hasFlag f G.REQUIRED_EXPONENT_SIGN) =
      !decide (ExponentSignOk (unpack f)) := by
  rw [show G.NO_POSITIVE_EXPONENT_SIGN = Flag.noPositiveExponentSign.mask from rfl,
    show G.REQUIRED_EXPONENT_SIGN = Flag.requiredExponentSign.mask from rfl, hasFlag_unpack, hasFlag_unpack]
  simp only [flagOf, ExponentSignOk]
  by_cases h1 : (unpack f).noPositiveExponentSign = true <;> by_cases h2 : (unpack f).requiredExponentSign = true <;>
    simp [h1, h2]

theorem special_spec (f : Nat) :
    ((hasFlag f G.NO_SPECIAL && hasFlag f G.CASE_SENSITIVE_SPECIAL) ||
      (hasFlag f G.NO_SPECIAL && hasFlag f G.SPECIAL_DIGIT_SEPARATOR)) = !decide (SpecialOk (unpack f)) := by
  rw [show G.NO_SPECIAL = Flag.noSpecial.mask from rfl,
    show G.CASE_SENSITIVE_SPECIAL = Flag.caseSensitiveSpecial.mask from rfl,
    show G.SPECIAL_DIGIT_SEPARATOR = Flag.specialSep.mask from rfl, hasFlag_unpack, hasFlag_unpack, hasFlag_unpack]
  simp only [flagOf, SpecialOk]
  by_cases h1 : (unpack f).noSpecial = true <;> by_cases h2 : (unpack f).caseSensitiveSpecial = true <;>
    by_cases h3 : (unpack f).specialSep = true <;> simp [h1, h2, h3]

/-- without `format`: `(format & FLAG_MASK) != (REQUIRED_EXPONENT_DIGITS | REQUIRED_MANTISSA_DIGITS)` -/
theorem flagMask_spec (f : Nat) :
    ((f &&& G.FLAG_MASK) != (G.REQUIRED_EXPONENT_DIGITS ||| G.REQUIRED_MANTISSA_DIGITS)) =
      !decide (FlagsAreDefault (unpack f)) := by
  have e : (f &&& G.FLAG_MASK) = f % 2 ^ 18 + (f / 2 ^ 32 % 2 ^ 13) * 2 ^ 32 := by
    have m : G.FLAG_MASK = (2 ^ 18 - 1) ||| (2 ^ 13 - 1) <<< 32 := by decide
    rw [m, Nat.and_or_distrib_left, Nat.and_two_pow_sub_one_eq_mod, and_shifted_mask,
      or_mul_two_pow _ _ _ (by omega)]
  have v : (G.REQUIRED_EXPONENT_DIGITS ||| G.REQUIRED_MANTISSA_DIGITS) = 12 := by decide
  rw [e, v]
  have key : (f % 2 ^ 18 + (f / 2 ^ 32 % 2 ^ 13) * 2 ^ 32 = 12) ↔ FlagsAreDefault (unpack f) :=
    (flagWord_arith f).trans (flagsAreDefault_unpack f).symm
  by_cases h : FlagsAreDefault (unpack f)
  · simp [h, key.mpr h]
  · have : ¬ (f % 2 ^ 18 + (f / 2 ^ 32 % 2 ^ 13) * 2 ^ 32 = 12) := fun x => h (key.mp x)
    simp [h, this]

/-- **(b), strong form.** The validator returns exactly the first violated documented constraint (in the order
of the `Error` enum), for every packed value and every feature set. -/
theorem formatError_eq_firstViolated (feats : Features) (f : Nat) :
    formatError feats f = firstViolated feats (unpack f) := by
  obtain ⟨hs, hp, hx, hm, hb, hr⟩ := bytes_unpack f
  obtain ⟨ls, lp, lx, -, -, -⟩ := unpack_bytes_lt f
  cases hfmt : feats.format <;>
  ( unfold formatError firstViolated checks
    by_cases r1 : RadixSupported feats (unpack f).mantissaRadix
    case neg =>
      simp [hfmt, formatErrorFormat, formatErrorNoFormat, hm, isValidRadix_spec, r1, List.find?]
    by_cases r2 : RadixSupported feats (unpack f).exponentBase
    case neg =>
      simp [hfmt, formatErrorFormat, formatErrorNoFormat, hm, hb, isValidRadix_spec, r1, r2, List.find?]
    by_cases r3 : RadixSupported feats (unpack f).exponentRadix
    case neg =>
      simp [hfmt, formatErrorFormat, formatErrorNoFormat, hm, hb, hr, isValidRadix_spec, r1, r2, r3, List.find?]
    have hR : (unpack f).digitRadix < 37 := by
      have := (radixSupported_range r1).2; have := (radixSupported_range r3).2
      unfold Unpacked.digitRadix; omega
    have d1 : isValidDigitSeparator feats f =
        decide (OptionalControl feats.format (unpack f).digitRadix (unpack f).digitSeparator) := by
      unfold isValidDigitSeparator; simp only [hs]; exact optControl_spec f _ _ ls hR
    have d2 : isValidBasePrefix feats f =
        decide (OptionalControl (feats.format && feats.powerOfTwo) (unpack f).digitRadix (unpack f).basePrefix) := by
      unfold isValidBasePrefix; simp only [hp]; exact optControl_spec f _ _ lp hR
    have d3 : isValidBaseSuffix feats f =
        decide (OptionalControl (feats.format && feats.powerOfTwo) (unpack f).digitRadix (unpack f).baseSuffix) := by
      unfold isValidBaseSuffix; simp only [hx]; exact optControl_spec f _ _ lx hR
    rw [hfmt] at d1
    simp only [hfmt, Bool.false_and, Bool.true_and] at d2 d3
    by_cases s1 : OptionalControl feats.format (unpack f).digitRadix (unpack f).digitSeparator
    case neg =>
      rw [hfmt] at s1
      simp [hfmt, formatErrorFormat, formatErrorNoFormat, hm, hb, hr, isValidRadix_spec, r1, r2, r3, d1, s1, List.find?]
    have d4 := punctuation_spec feats f s1
    rw [hfmt] at s1
    by_cases s2 : OptionalControl (feats.format && feats.powerOfTwo) (unpack f).digitRadix (unpack f).basePrefix
    case neg =>
      simp only [hfmt, Bool.false_and, Bool.true_and] at s2
      simp [hfmt, formatErrorFormat, formatErrorNoFormat, hm, hb, hr, isValidRadix_spec, r1, r2, r3, d1, d2, s1, s2,
        List.find?]
    simp only [hfmt, Bool.false_and, Bool.true_and] at s2
    by_cases s3 : OptionalControl (feats.format && feats.powerOfTwo) (unpack f).digitRadix (unpack f).baseSuffix
    case neg =>
      simp only [hfmt, Bool.false_and, Bool.true_and] at s3
      simp [hfmt, formatErrorFormat, formatErrorNoFormat, hm, hb, hr, isValidRadix_spec, r1, r2, r3, d1, d2, d3, s1, s2,
        s3, List.find?]
    simp only [hfmt, Bool.false_and, Bool.true_and] at s3
    by_cases s4 : PunctuationDistinct (unpack f)
    case neg =>
      simp [hfmt, formatErrorFormat, formatErrorNoFormat, hm, hb, hr, isValidRadix_spec, r1, r2, r3, d1, d2, d3, d4,
        s1, s2, s3, s4, List.find?]
    first
    | ( have hff : feats.format = false := hfmt
        by_cases e8 : FlagsAreDefault (unpack f) <;>
          simp [hff, formatErrorNoFormat, hm, hb, hr, isValidRadix_spec, r1, r2, r3, d1, d2, d3, d4,
            s1, s2, s3, s4, List.find?, flagMask_spec, e8] )
    | ( have q := special_spec f
        by_cases e1 : ExponentFlagsOk (unpack f)
        case neg =>
          simp [hfmt, formatErrorFormat, hm, hb, hr, isValidRadix_spec, r1, r2, r3, d1, d2, d3, d4,
            s1, s2, s3, s4, List.find?, exponentFlags_spec, e1]
        by_cases e2 : MantissaSignOk (unpack f)
        case neg =>
          simp [hfmt, formatErrorFormat, hm, hb, hr, isValidRadix_spec, r1, r2, r3, d1, d2, d3, d4,
            s1, s2, s3, s4, List.find?, exponentFlags_spec, mantissaSign_spec, e1, e2]
        by_cases e3 : ExponentSignOk (unpack f)
        case neg =>
          simp [hfmt, formatErrorFormat, hm, hb, hr, isValidRadix_spec, r1, r2, r3, d1, d2, d3, d4,
            s1, s2, s3, s4, List.find?, exponentFlags_spec, mantissaSign_spec, exponentSign_spec, e1, e2, e3]
        by_cases e4 : SpecialOk (unpack f)
        case neg =>
          simp only [e4, decide_false, Bool.not_false, Bool.or_eq_true] at q
          rcases q with q | q <;>
          simp [hfmt, formatErrorFormat, hm, hb, hr, isValidRadix_spec, r1, r2, r3, d1, d2, d3, d4,
            s1, s2, s3, s4, List.find?, exponentFlags_spec, mantissaSign_spec, exponentSign_spec, e1, e2, e3, e4, q]
        simp only [e4, decide_true, Bool.not_true, Bool.or_eq_false_iff] at q
        by_cases e5 : IntegerConsecutiveOk (unpack f)
        case neg =>
          simp [hfmt, formatErrorFormat, hm, hb, hr, isValidRadix_spec, r1, r2, r3, d1, d2, d3, d4,
            s1, s2, s3, s4, List.find?, exponentFlags_spec, mantissaSign_spec, exponentSign_spec, intConsec_spec,
            e1, e2, e3, e4, e5, q]
        by_cases e6 : FractionConsecutiveOk (unpack f)
        case neg =>
          simp [hfmt, formatErrorFormat, hm, hb, hr, isValidRadix_spec, r1, r2, r3, d1, d2, d3, d4,
            s1, s2, s3, s4, List.find?, exponentFlags_spec, mantissaSign_spec, exponentSign_spec, intConsec_spec,
            fracConsec_spec, e1, e2, e3, e4, e5, e6, q]
        by_cases e7 : ExponentConsecutiveOk (unpack f) <;>
          simp [hfmt, formatErrorFormat, hm, hb, hr, isValidRadix_spec, r1, r2, r3, d1, d2, d3, d4,
            s1, s2, s3, s4, List.find?, exponentFlags_spec, mantissaSign_spec, exponentSign_spec, intConsec_spec,
            fracConsec_spec, expConsec_spec, e1, e2, e3, e4, e5, e6, e7, q] ) )

theorem firstViolated_success_iff (feats : Features) (u : Unpacked) :
    firstViolated feats u = "Success" ↔ FormatValid feats u := by
  unfold firstViolated checks FormatValid
  by_cases c1 : RadixSupported feats u.mantissaRadix
  case neg => simp [c1, List.find?]
  by_cases c2 : RadixSupported feats u.exponentBase
  case neg => simp [c1, c2, List.find?]
  by_cases c3 : RadixSupported feats u.exponentRadix
  case neg => simp [c1, c2, c3, List.find?]
  cases hf : feats.format
  · simp only [Bool.false_and]
    by_cases c4 : OptionalControl false u.digitRadix u.digitSeparator
    case neg => simp [c1, c2, c3, c4, List.find?]
    by_cases c5 : OptionalControl false u.digitRadix u.basePrefix
    case neg => simp [c1, c2, c3, c4, c5, List.find?]
    by_cases c6 : OptionalControl false u.digitRadix u.baseSuffix
    case neg => simp [c1, c2, c3, c4, c5, c6, List.find?]
    by_cases c7 : PunctuationDistinct u
    case neg => simp [c1, c2, c3, c4, c5, c6, c7, List.find?]
    by_cases e : FlagsAreDefault u <;> simp [c1, c2, c3, c4, c5, c6, c7, e, List.find?]
  · simp only [Bool.true_and]
    by_cases c4 : OptionalControl true u.digitRadix u.digitSeparator
    case neg => simp [c1, c2, c3, c4, List.find?]
    by_cases c5 : OptionalControl feats.powerOfTwo u.digitRadix u.basePrefix
    case neg => simp [c1, c2, c3, c4, c5, List.find?]
    by_cases c6 : OptionalControl feats.powerOfTwo u.digitRadix u.baseSuffix
    case neg => simp [c1, c2, c3, c4, c5, c6, List.find?]
    by_cases c7 : PunctuationDistinct u
    case neg => simp [c1, c2, c3, c4, c5, c6, c7, List.find?]
    by_cases e1 : ExponentFlagsOk u
    case neg => simp [c1, c2, c3, c4, c5, c6, c7, e1, List.find?]
    by_cases e2 : MantissaSignOk u
    case neg => simp [c1, c2, c3, c4, c5, c6, c7, e1, e2, List.find?]
    by_cases e3 : ExponentSignOk u
    case neg => simp [c1, c2, c3, c4, c5, c6, c7, e1, e2, e3, List.find?]
    by_cases e4 : SpecialOk u
    case neg => simp [c1, c2, c3, c4, c5, c6, c7, e1, e2, e3, e4, List.find?]
    by_cases e5 : IntegerConsecutiveOk u
    case neg => simp [c1, c2, c3, c4, c5, c6, c7, e1, e2, e3, e4, e5, List.find?]
    by_cases e6 : FractionConsecutiveOk u
    case neg => simp [c1, c2, c3, c4, c5, c6, c7, e1, e2, e3, e4, e5, e6, List.find?]
    by_cases e7 : ExponentConsecutiveOk u <;>
      simp [c1, c2, c3, c4, c5, c6, c7, e1, e2, e3, e4, e5, e6, e7, List.find?]

/-- **(b) `formatError_spec`.** For every packed value (in particular every `f < 2^128`) and every feature set, the
validator reports success exactly when the documented constraints hold. -/
theorem formatError_spec (feats : Features) (f : Nat) :
    formatError feats f = "Success" ↔ FormatValid feats (unpack f) := by
  rw [formatError_eq_firstViolated]; exact firstViolated_success_iff feats (unpack f)

theorem isValid_spec (feats : Features) (f : Nat) : isValid feats f = true ↔ FormatValid feats (unpack f) := by
  unfold isValid; rw [beq_iff_eq]; exact formatError_spec feats f

/-- non-vacuity: the standard format is valid in every feature set used, an invalid one is rejected with the
documented kind, and the reserved bits (18..31, 45..63, 72..87) are ignored by the validator (with `format`) -/
example : formatError {} 0xa0000000000000000000000000c = "Success" := by decide
example : formatError { radix := true, powerOfTwo := true, format := true } 0xa0000000000000000000000003c
    = "InvalidMantissaSign" := by decide
example : FormatValid { format := true } (unpack (0xa0000000000000000000000000c + 2 ^ 63 + 2 ^ 80)) := by
  rw [← formatError_spec]; decide

/-! ## (d) `build_strict` panics exactly for the invalid formats -/

theorem buildStrict_ok_iff (feats : Features) (b : Builder) :
    b.buildStrict feats = .ok b.build ↔ FormatValid feats (unpack b.build) := by
  rw [← formatError_spec]
  unfold Builder.buildStrict
  by_cases h : formatError feats b.build = "Success" <;> simp [h]

/-- **(d)** `build_strict` panics (model: `.error kind`) ⇔ the built format violates a documented constraint,
and the panic carries the first violated kind. -/
theorem buildStrict_panics_iff (feats : Features) (b : Builder) :
    (b.buildStrict feats = .error (firstViolated feats (unpack b.build))) ∧
      firstViolated feats (unpack b.build) ≠ "Success" ↔ ¬ FormatValid feats (unpack b.build) := by
  rw [← formatError_spec, ← formatError_eq_firstViolated]
  unfold Builder.buildStrict
  by_cases h : formatError feats b.build = "Success" <;> simp [h]

/-! ## (c) builder: getters reflect setters; `rebuild`/`build` -/

theorem getFlag_setFlag (b : Builder) (fl : Flag) (v : Bool) : (b.setFlag fl v).getFlag fl = v := by
  simp [Builder.setFlag, Builder.getFlag]

theorem getFlag_setFlag_ne (b : Builder) (fl fl' : Flag) (v : Bool) (h : fl' ≠ fl) :
    (b.setFlag fl v).getFlag fl' = b.getFlag fl' := by
  simp [Builder.setFlag, Builder.getFlag, h]

/-- the byte setters change exactly their field (each Rust getter is the field read) -/
theorem byte_setters (b : Builder) (c : Nat) :
    (b.setDigitSeparator c).digitSeparator = c ∧ (b.setBasePrefix c).basePrefix = c ∧
    (b.setBaseSuffix c).baseSuffix = c ∧ (b.setMantissaRadix c).mantissaRadix = c ∧
    (b.setExponentBase c).exponentBase = c ∧ (b.setExponentRadix c).exponentRadix = c ∧
    (b.setDigitSeparator c).flags = b.flags ∧ (b.setDigitSeparator c).basePrefix = b.basePrefix ∧
    (b.setMantissaRadix c).exponentBase = b.exponentBase ∧ (b.setMantissaRadix c).exponentRadix = b.exponentRadix :=
  ⟨rfl, rfl, rfl, rfl, rfl, rfl, rfl, rfl, rfl, rfl⟩

/-- composite setters (`required_digits`, `internal_digit_separator`, `digit_separator_flags`, …) -/
theorem getFlag_setFlags (b : Builder) (fls : List Flag) (v : Bool) (fl : Flag) :
    (b.setFlags fls v).getFlag fl = if fl ∈ fls then v else b.getFlag fl := by
  induction fls generalizing b with
  | nil => simp [Builder.setFlags]
  | cons x xs ih =>
    simp only [Builder.setFlags, List.foldl_cons] at ih ⊢
    rw [ih]
    by_cases h : fl ∈ xs
    · simp [h]
    · by_cases hx : fl = x
      · simp [h, hx, Builder.setFlag, Builder.getFlag]
      · simp [h, hx, Builder.setFlag, Builder.getFlag]

/-- **`rebuild` is NOT the inverse of `build_unchecked` on the unchanged tree.** `rebuild` reads the exponent
base / radix through `flags::exponent_base` / `exponent_radix`, which substitute the mantissa radix for an absent
(0) byte, so `None` comes back as `Some(mantissa_radix)`: -/
theorem rebuild_build_counterexample :
    (rebuild Builder.new.build).exponentBase = 10 ∧ Builder.new.exponentBase = 0 ∧
    (rebuild 0xa0000000000000000000000000c).build = 0xa0a0a0000000000000000000000000c := by decide

/-- the normal form `rebuild ∘ build` maps a builder to: exponent base / radix made explicit, digit separator
dropped when no digit-separator flag is set -/
def normalize (b : Builder) : Builder :=
  { b with
    digitSeparator := if (Flag.all.drop 18).any b.flags then b.digitSeparator else 0
    exponentBase := if b.exponentBase = 0 then b.mantissaRadix else b.exponentBase
    exponentRadix := if b.exponentRadix = 0 then b.mantissaRadix else b.exponentRadix }

/-- (c) full statement, proved as `rebuild_build` in `Props/C18Builder.lean`:
`rebuild (build b) = normalize b` for builders within field ranges; in particular `rebuild (build b) = b` exactly
when the exponent base and radix are explicit and (a digit-separator flag is set or there is no separator). -/
def rebuild_build_full : Prop :=
  ∀ b : Builder, b.InRange → rebuild b.build = normalize b

/-- (c) other direction, proved as `build_rebuild` in `Props/C18Builder.lean`: `build (rebuild f)` keeps the 31 flag bits, the prefix, suffix and
mantissa-radix bytes; it clears the reserved bits 18..31, 45..63, 72..87; it clears the separator byte when no
digit-separator flag is set; it replaces a zero exponent-base / exponent-radix byte by the mantissa radix. -/
def build_rebuild_full : Prop :=
  ∀ f : Nat, f < 2 ^ 128 →
    let g := (rebuild f).build
    g % 2 ^ 64 = f % 2 ^ 64 - (f / 2 ^ 18 % 2 ^ 14) * 2 ^ 18 - (f / 2 ^ 45 % 2 ^ 19) * 2 ^ 45 ∧
    g / 2 ^ 64 % 2 ^ 8 = (if f / 2 ^ 32 % 2 ^ 13 = 0 then 0 else f / 2 ^ 64 % 2 ^ 8) ∧
    g / 2 ^ 72 % 2 ^ 16 = 0 ∧
    g / 2 ^ 88 % 2 ^ 24 = f / 2 ^ 88 % 2 ^ 24 ∧
    g / 2 ^ 112 % 2 ^ 8 = (if f / 2 ^ 112 % 2 ^ 8 = 0 then f / 2 ^ 104 % 2 ^ 8 else f / 2 ^ 112 % 2 ^ 8) ∧
    g / 2 ^ 120 = (if f / 2 ^ 120 % 2 ^ 8 = 0 then f / 2 ^ 104 % 2 ^ 8 else f / 2 ^ 120 % 2 ^ 8)

/-- (c) proved part: the flags survive `rebuild ∘ build` whenever `build` is read back through the generated
masks, i.e. `rebuild` returns for each flag the bit `build` stored (statement about `rebuild` alone). -/
theorem rebuild_flags (f : Nat) (fl : Flag) : (rebuild f).flags fl = flagOf (unpack f) fl :=
  hasFlag_unpack f fl

theorem rebuild_bytes (f : Nat) :
    (rebuild f).digitSeparator = (unpack f).digitSeparator ∧ (rebuild f).basePrefix = (unpack f).basePrefix ∧
    (rebuild f).baseSuffix = (unpack f).baseSuffix ∧ (rebuild f).mantissaRadix = (unpack f).mantissaRadix ∧
    (rebuild f).exponentBase = (unpack f).exponentBase ∧ (rebuild f).exponentRadix = (unpack f).exponentRadix := by
  obtain ⟨h1, h2, h3, h4, h5, h6⟩ := bytes_unpack f
  obtain ⟨-, -, -, l4, l5, l6⟩ := unpack_bytes_lt f
  refine ⟨h1, h2, h3, ?_, ?_, ?_⟩
  · show mantissaRadix f % 256 = _; rw [h4]; omega
  · show exponentBase f % 256 = _; rw [h5]; unfold Unpacked.exponentBase; split <;> omega
  · show exponentRadix f % 256 = _; rw [h6]; unfold Unpacked.exponentRadix; split <;> omega

end LexVerif.Props.C18
