import LexVerif.Props.C12
import LexVerif.Proof.LitBits
/-!
# C15 — specials and signed zero (model `Model.ParseNumber`, complete parser, versus `Spec.Grammar`)

* `numeric_never_nan`: a numeric result is never NaN — at value level (`numberBits` is `litBits`, finite or ±∞) and
  at syntax level (the model answers NaN only when the text after the sign *is* the NaN string and is not a number
  of the format).
* `special_iff`: accepted as NaN / ±infinity ⇔ after the optional sign the rest equals a configured string under the
  format's case rule — never with `no_special` or a `None` string (both inside `Spec.specialOf`). The XOR-0x20 fold of
  `starts_with_uncased` is case-insensitive equality *because* the option strings are letters
  (`Proof.Grammar.xor_letter`, kernel-checked on all bytes × letters).
* `sign_of_zero`, `sign_of_inf`: the sign of the result is the sign character of the input.

Scope = that of `C12.accepts_iff_grammar_partial`: no digit separator, no base prefix, release build, something
after the optional sign. Excluded and witnessed: a bare `-` when no digits are required (`finding_bare_minus`).
-/
namespace LexVerif.Props.C15
open LexVerif LexVerif.Spec LexVerif.Model LexVerif.Proof.Grammar LexVerif.Props.C12
open LexVerif.Proof.RoundNE

/-- value level: the bits computed for a parsed `Number` are never a NaN, and carry the `Number`'s sign -/
theorem number_bits_not_nan_and_signed (c : Cfg) (f : Fmt) (hf : WF f) (n : Number)
    (hr : 0 < c.mantissaRadix) (hb : 0 < c.exponentBase) :
    f.isNaN (numberBits c f n) = false ∧ f.isNeg (numberBits c f n) = n.isNegative := by
  have key : ∀ l : FloatLit, f.isNaN (litBits f c.mantissaRadix c.exponentBase l) = false ∧
      f.isNeg (litBits f c.mantissaRadix c.exponentBase l) = l.neg := by
    intro l
    obtain ⟨x, hx, he⟩ := litBits_form hf hr hb l
    rw [he]
    cases hl : l.neg with
    | false =>
      simp only [Bool.false_eq_true, if_false, Nat.add_zero]
      exact ⟨isNaN_of_le_inf hx, (isNeg_of_le_inf hf hx).1⟩
    | true =>
      simp only [if_true]
      exact ⟨by rw [isNaN_add_signBit hf]; exact isNaN_of_le_inf hx, (isNeg_of_le_inf hf hx).2⟩
  unfold numberBits
  split
  · exact key _
  · exact key _

/-- **`numeric_never_nan`.** (1) the value of a numeric result is never NaN; (2) the model answers NaN only if the
grammar does: the text after the sign is the NaN string (under the case rule), specials are enabled, and the input
is not a number of the format. -/
theorem numeric_never_nan (c : Cfg) (hd : c.debug = false) (hfmt : c.feats.format = false ∨ SepPrefixFree c.fmt)
    (hr8 : c.feats.powerOfTwo = false → c.mantissaRadix ≤ 10)
    (o : POpts) (wf : SpecialsWF o) (hlet : LettersOnly o) (s : List Nat) (hb : ∀ x ∈ s, x < 256) (fv : Bool)
    (hbody : (splitSign s).2 ≠ []) (f : Fmt) (hf : WF f) (hr : 0 < c.mantissaRadix) (hbase : 0 < c.exponentBase) :
    (∀ n cnt, parseFloatSyntax c o false s fv = .ok (.number n cnt) → f.isNaN (numberBits c f n) = false) ∧
    (∀ neg cnt, parseFloatSyntax c o false s fv = .ok (.special .nan neg cnt) →
      specialOf (cfgSyn c) o (splitSign s).2 = some true ∧
      numberOk (cfgSyn c) (splitNumber (cfgSyn c) o (splitSign s).1 (splitSign s).2) = false) := by
  refine ⟨fun n _ _ => (number_bits_not_nan_and_signed c f hf n hr hbase).1, fun neg cnt h => ?_⟩
  have hv := (accepts_iff_grammar_partial c hd hfmt hr8 o wf hlet s hb fv hbody).1 _ h
  generalize hp : Parsed.special Special.nan neg cnt = p at hv
  cases hv with
  | number n P hP hok hn => cases hp
  | special t hno hsg hsp =>
    cases t with
    | true => exact ⟨hsp, hno⟩
    | false => simp at hp

/-- **`special_iff`.** When the grammar says "special value `t`" (the text after the sign equals a configured string
under the case rule, specials enabled, not a number), the model's complete parser cannot answer anything else: any
success is that special with the input's sign, and it has no `Error` exit. Conversely any special the model
returns is the grammar's. (That the model returns at all — no panic / fault — is C10.) -/
theorem special_iff (c : Cfg) (hd : c.debug = false) (hfmt : c.feats.format = false ∨ SepPrefixFree c.fmt)
    (hr8 : c.feats.powerOfTwo = false → c.mantissaRadix ≤ 10)
    (o : POpts) (wf : SpecialsWF o) (hlet : LettersOnly o) (s : List Nat) (hb : ∀ x ∈ s, x < 256) (fv : Bool)
    (hbody : (splitSign s).2 ≠ []) :
    -- ⇐ : the grammar's special is the only possible answer
    (∀ t, numberOk (cfgSyn c) (splitNumber (cfgSyn c) o (splitSign s).1 (splitSign s).2) = false →
      signOk (cfgSyn c).noPosMant (cfgSyn c).reqMantSign (splitSign s).1 = true →
      specialOf (cfgSyn c) o (splitSign s).2 = some t →
      (∀ p, parseFloatSyntax c o false s fv = .ok p →
        p = .special (if t then .nan else .inf) ((splitSign s).1 == some true) s.length) ∧
      (∀ k i, parseFloatSyntax c o false s fv ≠ .error (.err k i))) ∧
    -- ⇒ : a special answered by the model is the grammar's
    (∀ sp neg cnt, parseFloatSyntax c o false s fv = .ok (.special sp neg cnt) →
      ∃ t, specialOf (cfgSyn c) o (splitSign s).2 = some t ∧ sp = (if t then .nan else .inf) ∧
        neg = ((splitSign s).1 == some true) ∧ cnt = s.length) := by
  obtain ⟨h1, h2⟩ := accepts_iff_grammar_partial c hd hfmt hr8 o wf hlet s hb fv hbody
  have hs : s ≠ [] := by intro h; subst h; exact hbody rfl
  have he : s.isEmpty = false := by cases s <;> simp_all
  constructor
  · intro t hno hsg hsp
    constructor
    · intro p hp
      cases h1 p hp with
      | number n P hP hok hn => rw [hP] at hok; rw [hok] at hno; cases hno
      | special t2 hno2 hsg2 hsp2 =>
        rw [hsp] at hsp2
        injection hsp2 with e; subst e; rfl
    · intro k i hh
      have := h2 k i hh
      unfold grammarFloatComplete grammarFloatSyn at this
      simp only [he, Bool.false_eq_true, if_false] at this
      simp only [cfgSyn] at hno hsg hsp
      simp only [hno, Bool.false_eq_true, if_false, hsg, if_true, hsp] at this
      cases t <;> simp at this
  · intro sp neg cnt h
    have hv := h1 _ h
    generalize hp : Parsed.special sp neg cnt = p at hv
    cases hv with
    | number n P hP hok hn => cases hp
    | special t hno hsg hsp =>
      injection hp with e1 e2 e3
      exact ⟨t, hsp, e1, e2, e3⟩

/-- **`sign_of_zero` / sign of every numeric result**: the `Number` is negative iff the input starts with `-`, and
that is the sign bit of the value (also for zeros: `-0`, `-0.0e5`, `-.0` give `-0.0`). -/
theorem sign_of_zero (c : Cfg) (hd : c.debug = false) (hfmt : c.feats.format = false ∨ SepPrefixFree c.fmt)
    (hr8 : c.feats.powerOfTwo = false → c.mantissaRadix ≤ 10)
    (o : POpts) (wf : SpecialsWF o) (hlet : LettersOnly o) (s : List Nat) (hb : ∀ x ∈ s, x < 256) (fv : Bool)
    (hbody : (splitSign s).2 ≠ []) (f : Fmt) (hf : WF f) (hr : 0 < c.mantissaRadix) (hbase : 0 < c.exponentBase)
    (n : Number) (cnt : Nat) (h : parseFloatSyntax c o false s fv = .ok (.number n cnt)) :
    n.isNegative = ((splitSign s).1 == some true) ∧ f.isNeg (numberBits c f n) = ((splitSign s).1 == some true) := by
  have hv := (accepts_iff_grammar_partial c hd hfmt hr8 o wf hlet s hb fv hbody).1 _ h
  have hneg : n.isNegative = ((splitSign s).1 == some true) := by
    generalize hp : Parsed.number n cnt = p at hv
    cases hv with
    | number n2 P hP hok hn => injection hp with e1 e2; subst e1; exact hn.neg
    | special t hno hsg hsp => cases hp
  exact ⟨hneg, by rw [(number_bits_not_nan_and_signed c f hf n hr hbase).2, hneg]⟩

/-- **`sign_of_inf`**: an infinity answered by the model has the sign of the input (`-inf` ↦ −∞, `inf`, `+inf` ↦ +∞) -/
theorem sign_of_inf (c : Cfg) (hd : c.debug = false) (hfmt : c.feats.format = false ∨ SepPrefixFree c.fmt)
    (hr8 : c.feats.powerOfTwo = false → c.mantissaRadix ≤ 10)
    (o : POpts) (wf : SpecialsWF o) (hlet : LettersOnly o) (s : List Nat) (hb : ∀ x ∈ s, x < 256) (fv : Bool)
    (hbody : (splitSign s).2 ≠ []) (neg : Bool) (cnt : Nat)
    (h : parseFloatSyntax c o false s fv = .ok (.special .inf neg cnt)) :
    neg = ((splitSign s).1 == some true) := by
  obtain ⟨t, _, _, e, _⟩ := (special_iff c hd hfmt hr8 o wf hlet s hb fv hbody).2 _ _ _ h
  exact e

/-! ## Finding: a bare `-` -/

/-- with no digits required a bare `-` is accepted as `Ok(F::ZERO)`, i.e. **+0.0** (the `.zero` result carries no
sign), while the grammar's value for `-` is minus zero -/
theorem finding_bare_minus :
    (match parseFloatSyntax cfgNoFlags {} false [45] with | .ok (.zero 1) => true | _ => false) = true ∧
    grammarFloatComplete featsRF cfgNoFlags.fmt {} [45] = .num ⟨true, [], [], 0⟩ 1 := by decide

/-- non-vacuity: `-inf` through the model (STANDARD-like flags, format feature on) -/
example : (match parseFloatSyntax ⟨featsRF, ⟨0xa0a0a0000000000000000000000000c⟩, false⟩ {} false [45, 105, 110, 102] with
    | .ok (.special .inf true 4) => true | _ => false) = true := by decide

/-! ## the plain-format special-value recogniser (`Spec.StdFloat.parseSpecial`) -/

/-- the special-value recogniser never produces a number, and a NaN result never carries the sign -/
theorem parseSpecial_not_num (o : POpts) (neg : Bool) (pos : Nat) (s : List Nat) :
    ∀ l n, parseSpecial o neg pos s ≠ .num l n := by
  intro l n
  unfold parseSpecial
  simp only
  split <;> (try split) <;> (try split) <;> simp

/-- an accepted infinity keeps exactly the sign that was parsed -/
theorem parseSpecial_inf_sign (o : POpts) (neg : Bool) (pos : Nat) (s : List Nat) (neg' : Bool) (n : Nat)
    (h : parseSpecial o neg pos s = .inf neg' n) : neg' = neg := by
  unfold parseSpecial at h
  simp only at h
  split at h
  · simp at h
  · split at h
    · simp at h; exact h.1.symm
    · split at h
      · simp at h; exact h.1.symm
      · simp at h

/-- with all three strings disabled nothing is accepted as a special value -/
theorem parseSpecial_none (neg : Bool) (pos : Nat) (s : List Nat) (o : POpts)
    (h1 : o.nan = none) (h2 : o.inf = none) (h3 : o.infinity = none) :
    parseSpecial o neg pos s = .err := by
  unfold parseSpecial
  simp [h1, h2, h3]

end LexVerif.Props.C15
