import LexVerif.Spec.StdFloat
/-!
# C15 — special values and signed zero are handled consistently (property theorems)
-/
namespace LexVerif.Props.C15
open LexVerif.Spec

/-- the special-value recogniser never produces a number, and a NaN result never carries the sign -/
theorem parseSpecial_not_num (o : POpts) (neg : Bool) (pos : Nat) (s : List Nat) :
    ∀ l n, parseSpecial o neg pos s ≠ .num l n := by
  intro l n
  unfold parseSpecial
  simp only
  split <;> (try split) <;> (try split) <;> simp

/-- an accepted infinity keeps exactly the sign that was parsed -/
theorem parseSpecial_inf_sign (o : POpts) (neg : Bool) (pos : Nat) (s : List Nat) (neg' : Bool) (n : Nat)
    (h : parseSpecial o neg pos s = .inf neg' n) : neg' = neg := by
  unfold parseSpecial at h
  simp only at h
  split at h
  · simp at h
  · split at h
    · simp at h; exact h.1.symm
    · split at h
      · simp at h; exact h.1.symm
      · simp at h

/-- with all three strings disabled nothing is accepted as a special value -/
theorem parseSpecial_none (neg : Bool) (pos : Nat) (s : List Nat) (o : POpts)
    (h1 : o.nan = none) (h2 : o.inf = none) (h3 : o.infinity = none) :
    parseSpecial o neg pos s = .err := by
  unfold parseSpecial
  simp [h1, h2, h3]

end LexVerif.Props.C15
