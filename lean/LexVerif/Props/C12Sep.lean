import LexVerif.Proof.SepCounterpart
/-!
# C12 (continued) — acceptance vs. the documented grammar for formats WITH digit separators

`Props/C12.lean` proves `accepts_iff_grammar_partial` for formats without digit separator and base prefix. Since the
repairs /repo 7e8a135 + 12a2453 (finding `sep-format-uncounted-8digit-block`) a separator format treats an input
without the separator byte exactly like its separator-free counterpart (`Props/C13.lean`, `sep_free_same`), whatever
components carry separator flags; the counterpart exists for every format (`Proof.Sep.plainOf`) and the documented
grammar does not look at separators (`Proof.Sep.syn_clearSep`). So the digit-separator exclusion of
`accepts_iff_grammar_partial` falls on the scope of C12 (separator-free inputs): `accepts_iff_grammar_sep_partial`.
Still excluded (open findings): formats with a base prefix, empty input / bare sign.
-/
namespace LexVerif.Props.C12
open LexVerif LexVerif.Model LexVerif.Spec LexVerif.Proof.Grammar LexVerif.Proof.Sep

theorem cfgSyn_plainOf (c : Cfg) : cfgSyn (plainOf c) = cfgSyn c := syn_clearSep c.feats c.fmt

/-- a verdict for the separator-free counterpart is a verdict for the format itself -/
theorem verdict_plainOf (c : Cfg) (o : POpts) (s : List Nat) (p : Parsed) (h : Verdict (plainOf c) o s p) :
    Verdict c o s p := by
  have he : (plainOf c).exponentRadix = c.exponentRadix := (plainOf_counterpart c).exponentRadix
  cases h with
  | number n P hP hok hn =>
    rw [cfgSyn_plainOf] at hP hok
    rw [he] at hn
    exact .number n P hP hok hn
  | special t hno hsg hsp =>
    rw [cfgSyn_plainOf] at hno hsg hsp
    exact .special t hno hsg hsp

/-- the scope of C12 in the model's terms -/
theorem noSep_of_separatorFree (c : Cfg) (s : List Nat) (h : separatorFree c.fmt s = true) : NoSep c s := by
  intro x hx
  unfold separatorFree at h
  unfold Cfg.isSep Cfg.digitSeparator
  cases hf : c.feats.format
  · simp
  · simp only [if_true]
    simp only [Bool.or_eq_true, decide_eq_true_eq, Bool.not_eq_true', List.contains_eq_mem,
      decide_eq_false_iff_not] at h
    rcases h with h | h
    · simp [h]
    · have : x ≠ c.fmt.digitSeparator := fun e => h (e ▸ hx)
      simp [this]

/-- **`accepts_iff_grammar`, proved part, for every format without base prefix** — digit separator byte and
separator flags on any components allowed (`hk`: no component has the consecutive flag alone, which
`format.is_valid()` guarantees), inputs without the separator byte (the scope of C12), release build:
accepted ⇒ `Verdict` (the grammar derives the whole input and the `Number` carries the derivation's sign, digit
slices and exponent, or the same special value); rejected with an `Error` ⇒ the grammar rejects. -/
theorem accepts_iff_grammar_sep_partial (c : Cfg) (hd : c.debug = false) (hk : ∀ k, c.skip k ≠ .unreachable)
    (hpre : c.basePrefix = 0) (hr8 : c.feats.powerOfTwo = false → c.mantissaRadix ≤ 10)
    (o : POpts) (wf : SpecialsWF o) (hlet : LettersOnly o) (s : List Nat) (hb : ∀ x ∈ s, x < 256) (fv : Bool)
    (hbody : (splitSign s).2 ≠ []) (hn : separatorFree c.fmt s = true) :
    (∀ p, parseFloatSyntax c o false s fv = .ok p → Verdict c o s p) ∧
    (∀ k i, parseFloatSyntax c o false s fv = .error (.err k i) →
      grammarFloatComplete c.feats c.fmt o s = .err) := by
  have hP := plainOf_plain c hr8
  have hC := plainOf_counterpart c
  have heq := parseFloatSyntax_same c (plainOf c) ⟨hd, hk, hr8⟩ hP hC o false s fv (noSep_of_separatorFree c s hn)
  have hfmt : (plainOf c).feats.format = false ∨ SepPrefixFree (plainOf c).fmt := by
    cases hf : c.feats.format
    · exact Or.inl hf
    · exact Or.inr (clearSep_sepPrefixFree c.fmt (by simpa [Cfg.basePrefix, hf] using hpre))
  obtain ⟨h1, h2⟩ := accepts_iff_grammar_partial (plainOf c) rfl hfmt hP.radix o wf hlet s hb fv hbody
  rw [heq] at h1 h2
  refine ⟨fun p hp => verdict_plainOf c o s p (h1 p hp), fun k i h => ?_⟩
  have := h2 k i h
  unfold grammarFloatComplete at this ⊢
  rw [← syn_clearSep]
  exact this

/-- non-vacuity: `sepmix_frac_i` (separator `_`, fraction-internal flag only) satisfies the hypotheses; it accepts
`12345678` (the former finding's input) and rejects `1e` -/
example : cfgSepFracI.debug = false ∧ (∀ k, cfgSepFracI.skip k ≠ .unreachable) ∧ cfgSepFracI.basePrefix = 0 ∧
    separatorFree cfgSepFracI.fmt [49, 50, 51, 52, 53, 54, 55, 56] = true ∧
    modelAccepts cfgSepFracI {} [49, 50, 51, 52, 53, 54, 55, 56] = true ∧
    modelAccepts cfgSepFracI {} [49, 101] = false := by
  refine ⟨rfl, ?_, by decide, by decide, by decide, by decide⟩
  intro k; cases k <;> decide

end LexVerif.Props.C12
