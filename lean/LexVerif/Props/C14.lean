import LexVerif.Proof.WriteFloatRound
import LexVerif.Proof.WriteFloatAlphabet
import LexVerif.Proof.WriteFloatDragon
import LexVerif.Spec.StdFloat
/-!
# C14 — write options control digits and notation (property theorems, decimal writer)

Everything is stated on the list-level formatting model (`Model.FormatDecimal` / `Model.WriteFloat.writeDecimal`), which
`Proof.WriteFloatDragon.decimalB_bytes` proves byte-equal to the buffer-faithful model of the Rust functions, for ALL
digit lists, exponents and options.
* `digits_rounded`: Round = numeric round-half-to-even of the digit list as a number; `digits_truncated`: Truncate =
  prefix; `digits_unchanged`: no maximum, or enough room ⇒ digits untouched; `digits_count`: between 1 and `max`.
* `carry_*`: a carry leaves the single digit 1 and moves the exponent / the decimal point by one.
* `layout_*`: the exact text (padding to `min`, trimming, punctuation bytes) of the three notations.
* `notation_choice_*`, `notation_iff`: scientific ⇔ not forbidden ∧ (required ∨ outside the breaks); judged on the
  un-carried exponent by `algorithm.rs` and on the carried one by `compact.rs`.
* `trim_exact`, `trim_only_integral` (semantic: integral after rounding ⇔ trimmed), `trim_scientific`, and the
  regression theorems `trim_after_rounding_*` (the former finding C14-decimal-trim-after-rounding).
* `carry_padding_regression` (the former finding C14-negative-exponent-carry-padding) and `digits_written_count`: kept
  digits plus zero padding ≤ max (max digits, min digits, integer digits + 1) in positional notation, no exclusion.
* `punctuation_positional`: positional output consists of decimal digits and the configured decimal point only.
* `value_full`: the value of the emitted text through the parser specification — kept as `def … : Prop` (not proved).
-/
namespace LexVerif.Props.C14
open LexVerif.Spec LexVerif.Model LexVerif.Model.WriteFloat
open LexVerif.Proof.WriteFloatRound LexVerif.Proof.WriteFloatAscii LexVerif.Proof.WriteFloatBuf
open LexVerif.Proof.WriteFloatAlphabet

/-! ## digits -/

/-- **`digits_rounded`** — string-level half-even is numeric half-even. -/
theorem digits_rounded (ds : List Nat) (o : WOpts) (mx : Nat) (hd : ∀ d ∈ ds, d < 10) (hmx : o.maxDigits = some mx)
    (h1 : 1 ≤ mx) (h2 : mx < ds.length) (hround : o.truncate = false) :
    ofDigits 10 (truncateAndRound ds o).1 *
        10 ^ (mx + (if (truncateAndRound ds o).2 = true then 1 else 0) - (truncateAndRound ds o).1.length)
      = roundHalfEven (ofDigits 10 ds) (10 ^ (ds.length - mx)) :=
  truncateAndRound_numeric ds o mx hd hmx h1 h2 hround

/-- non-vacuity, three ties and a carry: 125→12, 135→14, 1251→13 (2 digits); 9996→10·10² (3 digits, carry) -/
example : truncateAndRound [1, 2, 5] { maxDigits := some 2 } = ([1, 2], false) := by decide
example : truncateAndRound [1, 3, 5] { maxDigits := some 2 } = ([1, 4], false) := by decide
example : truncateAndRound [1, 2, 5, 1] { maxDigits := some 2 } = ([1, 3], false) := by decide
example : truncateAndRound [9, 9, 9, 6] { maxDigits := some 3 } = ([1], true) := by decide
example : roundHalfEven 9996 10 = 1000 := by decide

/-- **Truncate = prefix** -/
theorem digits_truncated (ds : List Nat) (o : WOpts) (mx : Nat) (hmx : o.maxDigits = some mx) (h2 : mx < ds.length)
    (ht : o.truncate = true) : truncateAndRound ds o = (ds.take mx, false) := by
  unfold truncateAndRound
  rw [hmx]
  simp only [ht, if_true]
  rw [if_neg (by omega)]

/-- no maximum, or at least as many places as digits: nothing changes -/
theorem digits_unchanged (ds : List Nat) (o : WOpts) (h : ∀ mx, o.maxDigits = some mx → ds.length ≤ mx) :
    truncateAndRound ds o = (ds, false) := by
  unfold truncateAndRound
  cases hm : o.maxDigits with
  | none => rfl
  | some mx => simp only; rw [if_pos (h mx hm)]

/-- between one and `max` digits survive; a carry leaves exactly the digit `1` -/
theorem digits_count (ds : List Nat) (o : WOpts) (hds : 1 ≤ ds.length) (hmx : o.maxDigits ≠ some 0) :
    1 ≤ (truncateAndRound ds o).1.length ∧ (truncateAndRound ds o).1.length ≤ ds.length ∧
    (∀ mx, o.maxDigits = some mx → (truncateAndRound ds o).1.length ≤ mx) ∧
    ((truncateAndRound ds o).2 = true → (truncateAndRound ds o).1 = [1]) :=
  truncateAndRound_length ds o hds hmx

/-! ## layouts: padding to `min`, carry, trimming, punctuation -/

/-- **scientific** (`carry_exponent`): first digit, configured point, remaining digits, zero padding up to `min`, then
the configured exponent character, sign and the exponent **plus one after a carry**. -/
theorem layout_scientific (fmt : Format) (feats : Features) (ds : List Nat) (e : Int) (o : WOpts) (r : Nat) :
    writeScientific fmt feats ds e o r =
      (if ¬ fmt.noExponentWithoutFraction = true ∧ (roundSci ds o).1.length = 1 ∧ o.trim = true then
         [digitChar ((roundSci ds o).1.headD 0)]
       else if (roundSci ds o).1.length < minExactDigits (roundSci ds o).1.length o then
         [digitChar ((roundSci ds o).1.headD 0), o.dp] ++ chars (roundSci ds o).1.tail ++
           zeros (minExactDigits (roundSci ds o).1.length o - (roundSci ds o).1.length)
       else if (roundSci ds o).1.length = 1 then [digitChar ((roundSci ds o).1.headD 0), o.dp, 48]
       else [digitChar ((roundSci ds o).1.headD 0), o.dp] ++ chars (roundSci ds o).1.tail)
      ++ ([o.exp] ++ expSign fmt feats (e + (if (roundSci ds o).2 = true then 1 else 0)) ++
          numeral r (e + (if (roundSci ds o).2 = true then 1 else 0)).natAbs) := by
  rw [LexVerif.Proof.WriteFloatDragon.writeScientific_eq, LexVerif.Proof.WriteFloatCompact.writeExponent_eq]

/-- **negative exponent, positional** (`carry`: `0.0999…` → one zero fewer, `0.99…` → `1.0`; after fix
C14-negative-exponent-carry-padding the `0` of that `1.0` counts as a written digit, like `10.0` of the positive layout:
the `min` padding starts from `count + 1 = 2` digits) -/
theorem layout_negative (ds : List Nat) (e : Int) (o : WOpts) :
    writeNegative ds e o =
      (if (truncateAndRound ds o).2 = true ∧ e.natAbs = 1 then
        (if o.trim = true then [49] else [49, o.dp, 48] ++
          (if (truncateAndRound ds o).1.length + 1 < minExactDigits ((truncateAndRound ds o).1.length + 1) o then
            zeros (minExactDigits ((truncateAndRound ds o).1.length + 1) o - ((truncateAndRound ds o).1.length + 1))
           else []))
      else
        [48, o.dp] ++ zeros (if (truncateAndRound ds o).2 = true then e.natAbs - 2 else e.natAbs - 1)
          ++ chars (truncateAndRound ds o).1 ++
          (if (truncateAndRound ds o).1.length < minExactDigits (truncateAndRound ds o).1.length o then
            zeros (minExactDigits (truncateAndRound ds o).1.length o - (truncateAndRound ds o).1.length) else [])) :=
  LexVerif.Proof.WriteFloatDragon.writeNegative_eq ds e o

/-- a minimum digit count is always honoured by zero padding -/
theorem min_padding (c : Nat) (o : WOpts) (mn : Nat) (h : o.minDigits = some mn) :
    minExactDigits c o = max mn c := by unfold minExactDigits; rw [h]

/-- number of digits before the decimal point of the rounded value (positional notation, value ≥ 1) -/
def leadingOf (ds : List Nat) (e : Int) (o : WOpts) : Nat :=
  e.toNat + 1 + (if (truncateAndRound ds o).2 = true then 1 else 0)

/-- the rounded value is integral: every digit past the decimal point is `0` (in particular: there is none) -/
def IntegralAfterRounding (ds : List Nat) (e : Int) (o : WOpts) : Prop :=
  ∀ d ∈ (truncateAndRound ds o).1.drop (leadingOf ds e o), d = 0

theorem chars_zeros (l : List Nat) (h : ∀ d ∈ l, d = 0) : chars l = zeros l.length := by
  induction l with
  | nil => rfl
  | cons d t ih =>
    have hd : d = 0 := h d (List.mem_cons_self ..)
    have := ih (fun x hx => h x (List.mem_cons_of_mem _ hx))
    simp only [chars, zeros, List.map_cons, List.length_cons, List.replicate_succ] at this ⊢
    rw [this, hd]; rfl

theorem zeros_append (a b : Nat) : zeros a ++ zeros b = zeros (a + b) := by
  simp [zeros, List.replicate_append_replicate]

/-- **`trim_exact`** (after fix C14-decimal-trim-after-rounding; no layout exclusion any more): whenever the rounded
value is integral, the output with `trim_floats` is exactly its integer digits, and the output without `trim_floats` is
that followed by the decimal point and at least one `0` (the `.0`, the zero digits left by rounding, the `min` padding)
— `trim_floats` removes exactly that and nothing else. -/
theorem trim_exact (ds : List Nat) (e : Int) (o : WOpts) (hint : IntegralAfterRounding ds e o) :
    writePositive ds e { o with trim := true } =
      chars ((truncateAndRound ds o).1.take (leadingOf ds e o)) ++
        zeros (leadingOf ds e o - (truncateAndRound ds o).1.length) ∧
    ∃ z, 1 ≤ z ∧
      writePositive ds e { o with trim := false } = writePositive ds e { o with trim := true } ++ [o.dp] ++ zeros z := by
  unfold IntegralAfterRounding leadingOf at hint
  unfold leadingOf writePositive roundPos trimPos
  have h1 : truncateAndRound ds { o with trim := false } = truncateAndRound ds o := rfl
  have h2 : truncateAndRound ds { o with trim := true } = truncateAndRound ds o := rfl
  have h3 : ∀ c, minExactDigits c { o with trim := false } = minExactDigits c o := fun _ => rfl
  simp only [h1, h2, h3]
  generalize truncateAndRound ds o = tr at hint ⊢
  obtain ⟨T, c⟩ := tr
  dsimp only at hint ⊢
  generalize e.toNat + 1 + (if c = true then 1 else 0) = L at hint ⊢
  have hall : (T.drop L).all (fun x => decide (x = 0)) = true := by
    simp only [List.all_eq_true, decide_eq_true_eq]; exact hint
  by_cases hge : L ≥ T.length
  · have hng : ¬ T.length > L := by omega
    have htake : T.take L = T := List.take_of_length_le hge
    simp only [hng, hge, false_and, and_false, if_false, if_true, Bool.false_eq_true, htake]
    refine ⟨trivial, ?_⟩
    by_cases hp : minExactDigits (L + 1) o > L + 1
    · refine ⟨1 + (minExactDigits (L + 1) o - (L + 1)), by omega, ?_⟩
      simp only [hp, if_true]
      rw [← zeros_append]
      simp [zeros]
    · refine ⟨1, by omega, ?_⟩
      simp only [hp, if_false]
      simp [zeros]
  · have hgt : T.length > L := by omega
    have hlen : (T.take L).length = L := by simp; omega
    simp only [hgt, hall, and_self, if_true, hlen, Nat.le_refl, ge_iff_le, Nat.sub_self, Bool.false_eq_true, false_and,
      if_false, hge]
    refine ⟨by simp [zeros]; omega, ?_⟩
    have hz : chars (T.drop L) = zeros (T.length - L) := by
      rw [chars_zeros _ hint]; simp
    rw [hz]
    by_cases hp : minExactDigits T.length o > T.length
    · refine ⟨(T.length - L) + (minExactDigits T.length o - T.length), by omega, ?_⟩
      simp only [hp, if_true]
      rw [← zeros_append]
      simp [zeros]
    · refine ⟨T.length - L, by omega, ?_⟩
      simp only [hp, if_false]
      simp [zeros]

/-- … and when a non-zero digit remains after the point, `trim_floats` changes nothing. -/
theorem trim_only_integral (ds : List Nat) (e : Int) (o : WOpts) (hfrac : ¬ IntegralAfterRounding ds e o) :
    writePositive ds e { o with trim := true } = writePositive ds e { o with trim := false } := by
  unfold IntegralAfterRounding leadingOf at hfrac
  unfold writePositive roundPos trimPos
  have h1 : truncateAndRound ds { o with trim := false } = truncateAndRound ds o := rfl
  have h2 : truncateAndRound ds { o with trim := true } = truncateAndRound ds o := rfl
  have h3 : ∀ c, minExactDigits c { o with trim := false } = minExactDigits c o := fun _ => rfl
  have h4 : ∀ c, minExactDigits c { o with trim := true } = minExactDigits c o := fun _ => rfl
  simp only [h1, h2, h3, h4]
  generalize truncateAndRound ds o = tr at hfrac ⊢
  obtain ⟨T, c⟩ := tr
  dsimp only at hfrac ⊢
  generalize e.toNat + 1 + (if c = true then 1 else 0) = L at hfrac ⊢
  have hall : ¬ ((T.drop L).all (fun x => decide (x = 0)) = true) := by
    simp only [List.all_eq_true, decide_eq_true_eq]; exact hfrac
  have hgt : ¬ L ≥ T.length := by
    intro hge
    apply hfrac
    rw [List.drop_of_length_le hge]
    intro d hd; cases hd
  simp only [hall, and_false, if_false, Bool.false_eq_true, false_and, hgt]

/-- scientific notation: an all-zero fraction left by rounding is dropped under `trim_floats`
(`2.00…e-292` → `2e-292` unless the format forbids an exponent without fraction) -/
theorem trim_scientific (o : WOpts) (ds : List Nat) (htrim : o.trim = true) (hz : ∀ d ∈ ds.tail, d = 0) :
    trimSci o ds = ds.take 1 := by
  unfold trimSci
  rw [if_pos ⟨htrim, by simp only [List.all_eq_true, decide_eq_true_eq]; exact hz⟩]

/-- **regression (was the finding C14-decimal-trim-after-rounding)**: `64.00001f32` (digits 6400001, also
6400002) with `max_significant_digits = 3`, `min = 2` and `trim_floats` is written `64` — Dragonbox and compact layouts. -/
theorem trim_after_rounding_positive :
    writeDigitsN Format.standard {} [6, 4, 0, 0, 0, 0, 1] 1 { maxDigits := some 3, minDigits := some 2, trim := true } = [54, 52] ∧
    writeDigitsC Format.standard {} [6, 4, 0, 0, 0, 0, 1] 1 { maxDigits := some 3, minDigits := some 2, trim := true } = [54, 52] ∧
    writeDigitsN Format.standard {} [6, 4, 0, 0, 0, 0, 1] 1 { maxDigits := some 3, minDigits := some 2 } = [54, 52, 46, 48] := by
  decide +kernel

/-- **regression**: `2.0000000000000004e-292` (digits 20000000000000004) with `max_significant_digits = 2` and
`trim_floats` is written `2e-292`; without `trim_floats` `2.0e-292`. -/
theorem trim_after_rounding_scientific :
    writeDigitsN Format.standard {} [2, 0, 0, 0, 0, 0, 0, 0, 0, 0, 0, 0, 0, 0, 0, 0, 4] (-292) { maxDigits := some 2, trim := true } =
      [50, 101, 45, 50, 57, 50] ∧
    writeDigitsC Format.standard {} [2, 0, 0, 0, 0, 0, 0, 0, 0, 0, 0, 0, 0, 0, 0, 0, 4] (-292) { maxDigits := some 2, trim := true } =
      [50, 101, 45, 50, 57, 50] ∧
    writeDigitsN Format.standard {} [2, 0, 0, 0, 0, 0, 0, 0, 0, 0, 0, 0, 0, 0, 0, 0, 4] (-292) { maxDigits := some 2 } =
      [50, 46, 48, 101, 45, 50, 57, 50] := by
  decide +kernel

/-- the digits that survive rounding **and** trimming: between one and `max`, never more than were generated -/
theorem digits_kept_count (ds : List Nat) (e : Int) (o : WOpts) (hds : 1 ≤ ds.length) (hmx : o.maxDigits ≠ some 0) :
    (1 ≤ (roundSci ds o).1.length ∧ (∀ mx, o.maxDigits = some mx → (roundSci ds o).1.length ≤ mx)) ∧
    (1 ≤ (roundPos ds e o).1.length ∧ (∀ mx, o.maxDigits = some mx → (roundPos ds e o).1.length ≤ mx)) := by
  obtain ⟨a1, _, a3, _, _⟩ := roundSci_length ds o hds hmx
  obtain ⟨b1, _, b3, _, _⟩ := roundPos_length ds e o hds hmx
  exact ⟨⟨a1, a3⟩, ⟨b1, b3⟩⟩

/-- **regression (was the finding C14-negative-exponent-carry-padding)**: `0.9996` (digits 9996, exponent −1) with
`max_significant_digits = min_significant_digits = 3` is written `1.00` (was `1.000`), with `max = min = 2` `1.0` (was
`1.00`) — the Dragonbox layout; the compact layout (rounds before choosing the layout) always wrote these. -/
theorem carry_padding_regression :
    writeDigitsN Format.standard {} [9, 9, 9, 6] (-1) { maxDigits := some 3, minDigits := some 3 } = [49, 46, 48, 48] ∧
    writeDigitsN Format.standard {} [9, 9, 9, 6] (-1) { maxDigits := some 2, minDigits := some 2 } = [49, 46, 48] ∧
    writeDigitsC Format.standard {} [9, 9, 9, 6] (-1) { maxDigits := some 3, minDigits := some 3 } = [49, 46, 48, 48] ∧
    writeDigitsC Format.standard {} [9, 9, 9, 6] (-1) { maxDigits := some 2, minDigits := some 2 } = [49, 46, 48] ∧
    writeDigitsN Format.standard {} [9, 9, 9, 6] (-1) { maxDigits := some 3, minDigits := some 3, trim := true } = [49] ∧
    writeDigitsN Format.standard {} [9, 9, 9, 6] (-1) { maxDigits := some 3, minDigits := some 5 } = [49, 46, 48, 48, 48, 48] := by
  decide +kernel

/-! ## number of digits written (kept digits **and** zero padding) -/

/-- significant digits of a positional text: the bytes other than the decimal point, from the first byte that is not `0` -/
def sigWritten (out : List Nat) (dp : Nat) : Nat :=
  ((out.filter (fun b => decide (b ≠ dp))).dropWhile (fun b => decide (b = 48))).length

theorem dropWhile_length_le {α} (p : α → Bool) (l : List α) : (l.dropWhile p).length ≤ l.length := by
  induction l with
  | nil => simp
  | cons a t ih => simp only [List.dropWhile_cons]; split <;> (simp; try omega)

theorem sigWritten_le (out : List Nat) (dp : Nat) : sigWritten out dp ≤ out.length :=
  Nat.le_trans (dropWhile_length_le _ _) (List.length_filter_le _ _)

/-- leading zeros and points are not significant -/
theorem sigWritten_prefix (z l : List Nat) (dp : Nat) (hz : ∀ b ∈ z, b = 48 ∨ b = dp) :
    sigWritten (z ++ l) dp ≤ l.length := by
  induction z with
  | nil => exact sigWritten_le l dp
  | cons b t ih =>
    have iht := ih (fun x hx => hz x (List.mem_cons_of_mem _ hx))
    unfold sigWritten at iht ⊢
    by_cases hb : b = dp
    · simpa [List.filter_cons, hb] using iht
    · have h48 : b = 48 := (hz b (List.mem_cons_self ..)).resolve_right hb
      subst h48
      simpa [List.filter_cons, hb] using iht

/-- the decimal point is not a digit -/
theorem sigWritten_point (a b : List Nat) (dp : Nat) : sigWritten (a ++ [dp] ++ b) dp ≤ a.length + b.length := by
  unfold sigWritten
  refine Nat.le_trans (dropWhile_length_le _ _) ?_
  simp only [List.filter_append, List.length_append]
  have h1 := List.length_filter_le (fun b => decide (b ≠ dp)) a
  have h2 := List.length_filter_le (fun b => decide (b ≠ dp)) b
  have h3 : ([dp].filter (fun b => decide (b ≠ dp))).length = 0 := by simp
  omega

theorem minExactDigits_eq (c : Nat) (o : WOpts) : minExactDigits c o = max (o.minDigits.getD 0) c := by
  unfold minExactDigits; split <;> rename_i h <;> simp [h]

/-- **`digits_written_count`** (no exclusion after fix C14-negative-exponent-carry-padding): in positional notation the
significant digits written — kept digits plus zero padding — are at most
`max (max_significant_digits, min_significant_digits, integer digits + 1)` (the `+ 1` is the mandatory `.0` of an integral
value: `1.0` below one after a carry, `ddd.0` above one). -/
theorem digits_written_count (ds : List Nat) (e : Int) (o : WOpts) (mx : Nat) (hds : 1 ≤ ds.length)
    (hmx : o.maxDigits = some mx) (h1 : 1 ≤ mx) :
    sigWritten (writeNegative ds e o) o.dp ≤
      max (max mx (o.minDigits.getD 0)) (if (truncateAndRound ds o).2 = true ∧ e.natAbs = 1 then 1 + 1 else 0) ∧
    sigWritten (writePositive ds e o) o.dp ≤ max (max mx (o.minDigits.getD 0)) (leadingOf ds e o + 1) := by
  have hm0 : o.maxDigits ≠ some 0 := by rw [hmx]; intro h; cases h; omega
  constructor
  · obtain ⟨_, _, a3, a4⟩ := truncateAndRound_length ds o hds hm0
    have hc := a3 mx hmx
    rw [layout_negative]
    generalize truncateAndRound ds o = tr at hc a4 ⊢
    obtain ⟨T, c⟩ := tr
    dsimp only at hc a4 ⊢
    simp only [minExactDigits_eq]
    generalize o.minDigits.getD 0 = mn
    by_cases c1 : c = true ∧ e.natAbs = 1
    · have hT : T.length = 1 := by rw [a4 c1.1]; rfl
      rw [if_pos c1, if_pos c1]
      by_cases c2 : o.trim = true
      · rw [if_pos c2]
        exact Nat.le_trans (sigWritten_le _ _) (by simp)
      · rw [if_neg c2]
        have := sigWritten_point [49] ([48] ++
          (if T.length + 1 < max mn (T.length + 1) then zeros (max mn (T.length + 1) - (T.length + 1)) else [])) o.dp
        refine Nat.le_trans this ?_
        simp only [List.length_cons, List.length_nil, List.length_append]
        split <;> simp only [zeros_length, List.length_nil] <;> omega
    · rw [if_neg c1, if_neg c1]
      have := sigWritten_prefix ([48, o.dp] ++ zeros (if c = true then e.natAbs - 2 else e.natAbs - 1))
        (chars T ++ (if T.length < max mn T.length then zeros (max mn T.length - T.length) else [])) o.dp
        (by
          intro b hb
          simp only [List.mem_append, List.mem_cons, List.not_mem_nil, or_false, zeros, List.mem_replicate] at hb
          rcases hb with (hb | hb) | hb
          · exact Or.inl hb
          · exact Or.inr hb
          · exact Or.inl hb.2)
      rw [List.append_assoc ([48, o.dp] ++ _)]
      refine Nat.le_trans this ?_
      simp only [List.length_append, chars_length]
      split <;> simp only [zeros_length, List.length_nil] <;> omega
  · obtain ⟨_, _, b3, _, _⟩ := roundPos_length ds e o hds hm0
    have hc := b3 mx hmx
    rw [LexVerif.Proof.WriteFloatDragon.writePositive_eq]
    have hL : leadingOf ds e o = e.toNat + 1 + (if (roundPos ds e o).2 = true then 1 else 0) := rfl
    rw [hL]
    generalize roundPos ds e o = tr at hc ⊢
    obtain ⟨T, c⟩ := tr
    dsimp only at hc ⊢
    generalize e.toNat + 1 + (if c = true then 1 else 0) = L
    simp only [minExactDigits_eq]
    generalize o.minDigits.getD 0 = mn
    by_cases hge : L ≥ T.length
    · rw [if_pos hge]
      by_cases c2 : o.trim = true
      · rw [if_pos c2]
        refine Nat.le_trans (sigWritten_le _ _) ?_
        simp only [List.length_append, chars_length, zeros_length]; omega
      · rw [if_neg c2]
        have := sigWritten_point (chars T ++ zeros (L - T.length))
          ([48] ++ (if max mn (L + 1) > L + 1 then zeros (max mn (L + 1) - (L + 1)) else [])) o.dp
        have e1 : chars T ++ zeros (L - T.length) ++ [o.dp, 48] ++
            (if max mn (L + 1) > L + 1 then zeros (max mn (L + 1) - (L + 1)) else []) =
            chars T ++ zeros (L - T.length) ++ [o.dp] ++
              ([48] ++ (if max mn (L + 1) > L + 1 then zeros (max mn (L + 1) - (L + 1)) else [])) := by simp
        rw [e1]
        refine Nat.le_trans this ?_
        simp only [List.length_append, chars_length, zeros_length, List.length_cons, List.length_nil]
        split <;> simp only [zeros_length, List.length_nil] <;> omega
    · rw [if_neg hge]
      have := sigWritten_point (chars (T.take L))
        (chars (T.drop L) ++ (if max mn T.length > T.length then zeros (max mn T.length - T.length) else [])) o.dp
      rw [List.append_assoc (chars (T.take L) ++ [o.dp])]
      refine Nat.le_trans this ?_
      simp only [List.length_append, chars_length, List.length_take, List.length_drop]
      split <;> simp only [zeros_length, List.length_nil] <;> omega

/-- non-vacuity: the bound is attained by the repaired case (`1.00`: 3 digits = max = min) and by the `.0` term
(`0.95` with `max = 1`: `1.0`, 2 digits = integer digits + 1; `9.96` with `max = 2`: `10.0`, 3 digits) -/
example : sigWritten (writeNegative [9, 9, 9, 6] (-1) { maxDigits := some 3, minDigits := some 3 }) 46 = 3 := by decide
example : sigWritten (writeNegative [9, 5] (-1) { maxDigits := some 1 }) 46 = 2 := by decide
example : sigWritten (writePositive [9, 9, 6] 0 { maxDigits := some 2 }) 46 = 3 := by decide
example : sigWritten (writeNegative [1, 2, 3, 4] (-3) { maxDigits := some 2, minDigits := some 4 }) 46 = 4 := by decide

/-! ## notation -/

/-- `algorithm.rs` (Dragonbox builds): judged on the scientific exponent of the float (before rounding) -/
theorem notation_choice_N (fmt : Format) (feats : Features) (ds : List Nat) (e : Int) (o : WOpts) :
    writeDigitsN fmt feats ds e o =
      if ¬ fmt.noExponentNotation = true ∧
          (fmt.requiredExponentNotation = true ∨ e < o.negBreak.getD (-5) ∨ e > o.posBreak.getD 9) then
        writeScientific fmt feats ds e o fmt.exponentRadix
      else if e < 0 then writeNegative ds e o else writePositive ds e o := rfl

/-- `compact.rs` (Grisu builds): rounded first, judged on the carried exponent -/
theorem notation_choice_C (fmt : Format) (feats : Features) (ds : List Nat) (e : Int) (o : WOpts) :
    writeDigitsC fmt feats ds e o =
      if ¬ fmt.noExponentNotation = true ∧
          (fmt.requiredExponentNotation = true ∨
            e + (if (truncateAndRound ds o).2 = true then 1 else 0) < o.negBreak.getD (-5) ∨
            e + (if (truncateAndRound ds o).2 = true then 1 else 0) > o.posBreak.getD 9) then
        writeScientific fmt feats (truncateAndRound ds o).1 (e + (if (truncateAndRound ds o).2 = true then 1 else 0))
          { o with maxDigits := none } fmt.exponentRadix
      else if e + (if (truncateAndRound ds o).2 = true then 1 else 0) < 0 then
        writeNegative (truncateAndRound ds o).1 (e + (if (truncateAndRound ds o).2 = true then 1 else 0))
          { o with maxDigits := none }
      else writePositive (truncateAndRound ds o).1 (e + (if (truncateAndRound ds o).2 = true then 1 else 0))
          { o with maxDigits := none } := rfl

/-- a decimal digit character or the configured decimal point -/
def DigitOrPoint (o : WOpts) (b : Nat) : Prop := (48 ≤ b ∧ b ≤ 57) ∨ b = o.dp

theorem digitChar_digit (o : WOpts) (d : Nat) (h : d < 10) : DigitOrPoint o (digitChar d) := by
  unfold DigitOrPoint digitChar; rw [if_pos h]; omega

/-- **`punctuation_positional`** -/
theorem punctuation_positional (ds : List Nat) (e : Int) (o : WOpts) (hd : ∀ d ∈ ds, d < 10) :
    (∀ b ∈ writeNegative ds e o, DigitOrPoint o b) ∧ (∀ b ∈ writePositive ds e o, DigitOrPoint o b) :=
  ⟨allP_writeNegative (digitChar_digit o) ds e o hd (Or.inr rfl),
   allP_writePositive (digitChar_digit o) ds e o hd (Or.inr rfl)⟩

/-- **`notation_iff`** (Dragonbox builds): when the exponent character is not a decimal digit and differs from the decimal
point (what `is_valid_options_punctuation` demands), it occurs in the output **iff** the format does not forbid exponent
notation and requires it or the scientific exponent is outside the break points. -/
theorem notation_iff (fmt : Format) (feats : Features) (ds : List Nat) (e : Int) (o : WOpts) (hd : ∀ d ∈ ds, d < 10)
    (hexp : ¬ (48 ≤ o.exp ∧ o.exp ≤ 57)) (hne : o.exp ≠ o.dp) :
    o.exp ∈ writeDigitsN fmt feats ds e o ↔
      (¬ fmt.noExponentNotation = true ∧
        (fmt.requiredExponentNotation = true ∨ e < o.negBreak.getD (-5) ∨ e > o.posBreak.getD 9)) := by
  rw [notation_choice_N]
  obtain ⟨hneg, hpos⟩ := punctuation_positional ds e o hd
  by_cases c : ¬ fmt.noExponentNotation = true ∧
      (fmt.requiredExponentNotation = true ∨ e < o.negBreak.getD (-5) ∨ e > o.posBreak.getD 9)
  · rw [if_pos c]
    simp only [c, iff_true]
    rw [layout_scientific]
    simp
  · rw [if_neg c]
    simp only [c, iff_false]
    intro hmem
    have hp : DigitOrPoint o o.exp := by
      split at hmem
      · exact hneg _ hmem
      · exact hpos _ hmem
    rcases hp with hp | hp
    · exact hexp hp
    · exact hne hp

/-- non-vacuity: `1.5e10` is scientific with the default breaks and positional with `positive_exponent_break = 10` -/
example : writeDigitsN Format.standard {} [1, 5] 10 {} = [49, 46, 53, 101, 49, 48] := by decide +kernel
example : writeDigitsN Format.standard {} [1, 5] 10 { posBreak := some 10 } =
    [49, 53, 48, 48, 48, 48, 48, 48, 48, 48, 48, 46, 48] := by decide +kernel

/-! ## value of the emitted text (statement only) -/

/-- The text re-parsed by the parser specification denotes exactly the rounded digits × 10^exponent.
Not proved in Lean (needs the `Spec.StdFloat` recogniser to be inverted on every layout); it is what the
correspondence checks on every op (`props/C14.py`, value law with exact rationals). -/
def value_full : Prop :=
  ∀ (ds : List Nat) (e : Int) (o : WOpts), (∀ d ∈ ds, d < 10) → 1 ≤ ds.length → ds.head? ≠ some 0 → wOptsError o = none →
    o.exp = 101 → o.dp = 46 →
    ∃ (l : FloatLit) (n : Nat),
      parseStdComplete 10 10 {} (writeDigitsN Format.standard {} ds e o) = .num l n ∧
      (ofDigits 10 (l.intDigits ++ l.fracDigits) : Int) * 10 ^ ((truncateAndRound ds o).1.length - 1) * 10 ^ (l.exp.toNat) * 10 ^ ((-(e + (if (truncateAndRound ds o).2 = true then 1 else 0))).toNat)
        = (ofDigits 10 (truncateAndRound ds o).1 : Int) * 10 ^ l.fracDigits.length * 10 ^ ((-l.exp).toNat) *
            10 ^ ((e + (if (truncateAndRound ds o).2 = true then 1 else 0)).toNat)

end LexVerif.Props.C14
