import LexVerif.Model.WriteFloat
/-! # C14 (property theorems) — filled in below -/
namespace LexVerif.Props.C14
end LexVerif.Props.C14
