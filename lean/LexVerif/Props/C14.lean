import LexVerif.Proof.WriteFloatRound
import LexVerif.Proof.WriteFloatAlphabet
import LexVerif.Proof.WriteFloatDragon
import LexVerif.Spec.StdFloat
/-!
# C14 — write options control digits and notation (property theorems, decimal writer)

Everything is stated on the list-level formatting model (`Model.FormatDecimal` / `Model.WriteFloat.writeDecimal`), which
`Proof.WriteFloatDragon.decimalB_bytes` proves byte-equal to the buffer-faithful model of the Rust functions, for ALL
digit lists, exponents and options.
* `digits_rounded`: Round = numeric round-half-to-even of the digit list as a number; `digits_truncated`: Truncate =
  prefix; `digits_unchanged`: no maximum, or enough room ⇒ digits untouched; `digits_count`: between 1 and `max`.
* `carry_*`: a carry leaves the single digit 1 and moves the exponent / the decimal point by one.
* `layout_*`: the exact text (padding to `min`, trimming, punctuation bytes) of the three notations.
* `notation_choice_*`, `notation_iff`: scientific ⇔ not forbidden ∧ (required ∨ outside the breaks); judged on the
  un-carried exponent by `algorithm.rs` and on the carried one by `compact.rs`.
* `trim_exact`, `trim_only_integral_layout` (+ the deviation witness `trim_keeps_zero_fraction`).
* `punctuation_positional`: positional output consists of decimal digits and the configured decimal point only.
* `value_full`: the value of the emitted text through the parser specification — kept as `def … : Prop` (not proved).
-/
namespace LexVerif.Props.C14
open LexVerif.Spec LexVerif.Model LexVerif.Model.WriteFloat
open LexVerif.Proof.WriteFloatRound LexVerif.Proof.WriteFloatAscii LexVerif.Proof.WriteFloatBuf
open LexVerif.Proof.WriteFloatAlphabet

/-! ## digits -/

/-- **`digits_rounded`** — string-level half-even is numeric half-even. -/
theorem digits_rounded (ds : List Nat) (o : WOpts) (mx : Nat) (hd : ∀ d ∈ ds, d < 10) (hmx : o.maxDigits = some mx)
    (h1 : 1 ≤ mx) (h2 : mx < ds.length) (hround : o.truncate = false) :
    ofDigits 10 (truncateAndRound ds o).1 *
        10 ^ (mx + (if (truncateAndRound ds o).2 = true then 1 else 0) - (truncateAndRound ds o).1.length)
      = roundHalfEven (ofDigits 10 ds) (10 ^ (ds.length - mx)) :=
  truncateAndRound_numeric ds o mx hd hmx h1 h2 hround

/-- non-vacuity, three ties and a carry: 125→12, 135→14, 1251→13 (2 digits); 9996→10·10² (3 digits, carry) -/
example : truncateAndRound [1, 2, 5] { maxDigits := some 2 } = ([1, 2], false) := by decide
example : truncateAndRound [1, 3, 5] { maxDigits := some 2 } = ([1, 4], false) := by decide
example : truncateAndRound [1, 2, 5, 1] { maxDigits := some 2 } = ([1, 3], false) := by decide
example : truncateAndRound [9, 9, 9, 6] { maxDigits := some 3 } = ([1], true) := by decide
example : roundHalfEven 9996 10 = 1000 := by decide

/-- **Truncate = prefix** -/
theorem digits_truncated (ds : List Nat) (o : WOpts) (mx : Nat) (hmx : o.maxDigits = some mx) (h2 : mx < ds.length)
    (ht : o.truncate = true) : truncateAndRound ds o = (ds.take mx, false) := by
  unfold truncateAndRound
  rw [hmx]
  simp only [ht, if_true]
  rw [if_neg (by omega)]

/-- no maximum, or at least as many places as digits: nothing changes -/
theorem digits_unchanged (ds : List Nat) (o : WOpts) (h : ∀ mx, o.maxDigits = some mx → ds.length ≤ mx) :
    truncateAndRound ds o = (ds, false) := by
  unfold truncateAndRound
  cases hm : o.maxDigits with
  | none => rfl
  | some mx => simp only; rw [if_pos (h mx hm)]

/-- between one and `max` digits survive; a carry leaves exactly the digit `1` -/
theorem digits_count (ds : List Nat) (o : WOpts) (hds : 1 ≤ ds.length) (hmx : o.maxDigits ≠ some 0) :
    1 ≤ (truncateAndRound ds o).1.length ∧ (truncateAndRound ds o).1.length ≤ ds.length ∧
    (∀ mx, o.maxDigits = some mx → (truncateAndRound ds o).1.length ≤ mx) ∧
    ((truncateAndRound ds o).2 = true → (truncateAndRound ds o).1 = [1]) :=
  truncateAndRound_length ds o hds hmx

/-! ## layouts: padding to `min`, carry, trimming, punctuation -/

/-- **scientific** (`carry_exponent`): first digit, configured point, remaining digits, zero padding up to `min`, then
the configured exponent character, sign and the exponent **plus one after a carry**. -/
theorem layout_scientific (fmt : Format) (feats : Features) (ds : List Nat) (e : Int) (o : WOpts) (r : Nat) :
    writeScientific fmt feats ds e o r =
      (if ¬ fmt.noExponentWithoutFraction = true ∧ (truncateAndRound ds o).1.length = 1 ∧ o.trim = true then
         [digitChar ((truncateAndRound ds o).1.headD 0)]
       else if (truncateAndRound ds o).1.length < minExactDigits (truncateAndRound ds o).1.length o then
         [digitChar ((truncateAndRound ds o).1.headD 0), o.dp] ++ chars (truncateAndRound ds o).1.tail ++
           zeros (minExactDigits (truncateAndRound ds o).1.length o - (truncateAndRound ds o).1.length)
       else if (truncateAndRound ds o).1.length = 1 then [digitChar ((truncateAndRound ds o).1.headD 0), o.dp, 48]
       else [digitChar ((truncateAndRound ds o).1.headD 0), o.dp] ++ chars (truncateAndRound ds o).1.tail)
      ++ ([o.exp] ++ expSign fmt feats (e + (if (truncateAndRound ds o).2 = true then 1 else 0)) ++
          numeral r (e + (if (truncateAndRound ds o).2 = true then 1 else 0)).natAbs) := by
  rw [LexVerif.Proof.WriteFloatDragon.writeScientific_eq, LexVerif.Proof.WriteFloatCompact.writeExponent_eq]

/-- **negative exponent, positional** (`carry`: `0.0999…` → one zero fewer, `0.99…` → `1.0`) -/
theorem layout_negative (ds : List Nat) (e : Int) (o : WOpts) :
    writeNegative ds e o =
      (if (truncateAndRound ds o).2 = true ∧ e.natAbs = 1 then
        (if o.trim = true then [49] else [49, o.dp, 48] ++
          (if (truncateAndRound ds o).1.length < minExactDigits (truncateAndRound ds o).1.length o then
            zeros (minExactDigits (truncateAndRound ds o).1.length o - (truncateAndRound ds o).1.length) else []))
      else
        [48, o.dp] ++ zeros (if (truncateAndRound ds o).2 = true then e.natAbs - 2 else e.natAbs - 1)
          ++ chars (truncateAndRound ds o).1 ++
          (if (truncateAndRound ds o).1.length < minExactDigits (truncateAndRound ds o).1.length o then
            zeros (minExactDigits (truncateAndRound ds o).1.length o - (truncateAndRound ds o).1.length) else [])) :=
  LexVerif.Proof.WriteFloatDragon.writeNegative_eq ds e o

/-- a minimum digit count is always honoured by zero padding -/
theorem min_padding (c : Nat) (o : WOpts) (mn : Nat) (h : o.minDigits = some mn) :
    minExactDigits c o = max mn c := by unfold minExactDigits; rw [h]

/-- **`trim_exact`**: when the kept digits do not reach past the decimal point (`leading ≥ count`, an integral value),
the output without `trim_floats` is the output with `trim_floats` followed by the decimal point, one `0` and the
padding — trimming removes exactly that. -/
theorem trim_exact (ds : List Nat) (e : Int) (o : WOpts)
    (hint : e.toNat + 1 + (if (truncateAndRound ds o).2 = true then 1 else 0) ≥ (truncateAndRound ds o).1.length) :
    writePositive ds e { o with trim := false } =
      writePositive ds e { o with trim := true } ++ [o.dp, 48] ++
        (if minExactDigits (e.toNat + 1 + (if (truncateAndRound ds o).2 = true then 1 else 0) + 1) o >
              e.toNat + 1 + (if (truncateAndRound ds o).2 = true then 1 else 0) + 1 then
            zeros (minExactDigits (e.toNat + 1 + (if (truncateAndRound ds o).2 = true then 1 else 0) + 1) o -
              (e.toNat + 1 + (if (truncateAndRound ds o).2 = true then 1 else 0) + 1)) else []) := by
  rw [LexVerif.Proof.WriteFloatDragon.writePositive_eq, LexVerif.Proof.WriteFloatDragon.writePositive_eq]
  have h1 : truncateAndRound ds { o with trim := false } = truncateAndRound ds o := rfl
  have h2 : truncateAndRound ds { o with trim := true } = truncateAndRound ds o := rfl
  have h3 : ∀ c, minExactDigits c { o with trim := false } = minExactDigits c o := fun _ => rfl
  rw [h1, h2]
  simp only [h3]
  rw [if_pos hint, if_pos hint]
  simp

/-- … and when digits remain after the point, `trim_floats` changes nothing (even if those digits are zeros). -/
theorem trim_only_integral_layout (ds : List Nat) (e : Int) (o : WOpts)
    (hfrac : ¬ e.toNat + 1 + (if (truncateAndRound ds o).2 = true then 1 else 0) ≥ (truncateAndRound ds o).1.length) :
    writePositive ds e { o with trim := true } = writePositive ds e { o with trim := false } := by
  rw [LexVerif.Proof.WriteFloatDragon.writePositive_eq, LexVerif.Proof.WriteFloatDragon.writePositive_eq]
  have h1 : truncateAndRound ds { o with trim := false } = truncateAndRound ds o := rfl
  have h2 : truncateAndRound ds { o with trim := true } = truncateAndRound ds o := rfl
  have h3 : ∀ c, minExactDigits c { o with trim := false } = minExactDigits c o := fun _ => rfl
  have h4 : ∀ c, minExactDigits c { o with trim := true } = minExactDigits c o := fun _ => rfl
  rw [h1, h2]
  simp only [h3, h4]
  rw [if_neg hfrac, if_neg hfrac]

/-- **deviation witness (finding)**: `64.00002f32` (digits 6400002) with `max_significant_digits = 3` and
`trim_floats`: the kept digits `640` reach past the point, so the integral output keeps its `.0`. -/
theorem trim_keeps_zero_fraction :
    writePositive [6, 4, 0, 0, 0, 0, 2] 1 { maxDigits := some 3, minDigits := some 2, trim := true } = [54, 52, 46, 48] := by
  decide +kernel

/-! ## notation -/

/-- `algorithm.rs` (Dragonbox builds): judged on the scientific exponent of the float (before rounding) -/
theorem notation_choice_N (fmt : Format) (feats : Features) (ds : List Nat) (e : Int) (o : WOpts) :
    writeDigitsN fmt feats ds e o =
      if ¬ fmt.noExponentNotation = true ∧
          (fmt.requiredExponentNotation = true ∨ e < o.negBreak.getD (-5) ∨ e > o.posBreak.getD 9) then
        writeScientific fmt feats ds e o fmt.exponentRadix
      else if e < 0 then writeNegative ds e o else writePositive ds e o := rfl

/-- `compact.rs` (Grisu builds): rounded first, judged on the carried exponent -/
theorem notation_choice_C (fmt : Format) (feats : Features) (ds : List Nat) (e : Int) (o : WOpts) :
    writeDigitsC fmt feats ds e o =
      if ¬ fmt.noExponentNotation = true ∧
          (fmt.requiredExponentNotation = true ∨
            e + (if (truncateAndRound ds o).2 = true then 1 else 0) < o.negBreak.getD (-5) ∨
            e + (if (truncateAndRound ds o).2 = true then 1 else 0) > o.posBreak.getD 9) then
        writeScientific fmt feats (truncateAndRound ds o).1 (e + (if (truncateAndRound ds o).2 = true then 1 else 0))
          { o with maxDigits := none } fmt.exponentRadix
      else if e + (if (truncateAndRound ds o).2 = true then 1 else 0) < 0 then
        writeNegative (truncateAndRound ds o).1 (e + (if (truncateAndRound ds o).2 = true then 1 else 0))
          { o with maxDigits := none }
      else writePositive (truncateAndRound ds o).1 (e + (if (truncateAndRound ds o).2 = true then 1 else 0))
          { o with maxDigits := none } := rfl

/-- a decimal digit character or the configured decimal point -/
def DigitOrPoint (o : WOpts) (b : Nat) : Prop := (48 ≤ b ∧ b ≤ 57) ∨ b = o.dp

theorem digitChar_digit (o : WOpts) (d : Nat) (h : d < 10) : DigitOrPoint o (digitChar d) := by
  unfold DigitOrPoint digitChar; rw [if_pos h]; omega

/-- **`punctuation_positional`** -/
theorem punctuation_positional (ds : List Nat) (e : Int) (o : WOpts) (hd : ∀ d ∈ ds, d < 10) :
    (∀ b ∈ writeNegative ds e o, DigitOrPoint o b) ∧ (∀ b ∈ writePositive ds e o, DigitOrPoint o b) :=
  ⟨allP_writeNegative (digitChar_digit o) ds e o hd (Or.inr rfl),
   allP_writePositive (digitChar_digit o) ds e o hd (Or.inr rfl)⟩

/-- **`notation_iff`** (Dragonbox builds): when the exponent character is not a decimal digit and differs from the decimal
point (what `is_valid_options_punctuation` demands), it occurs in the output **iff** the format does not forbid exponent
notation and requires it or the scientific exponent is outside the break points. -/
theorem notation_iff (fmt : Format) (feats : Features) (ds : List Nat) (e : Int) (o : WOpts) (hd : ∀ d ∈ ds, d < 10)
    (hexp : ¬ (48 ≤ o.exp ∧ o.exp ≤ 57)) (hne : o.exp ≠ o.dp) :
    o.exp ∈ writeDigitsN fmt feats ds e o ↔
      (¬ fmt.noExponentNotation = true ∧
        (fmt.requiredExponentNotation = true ∨ e < o.negBreak.getD (-5) ∨ e > o.posBreak.getD 9)) := by
  rw [notation_choice_N]
  obtain ⟨hneg, hpos⟩ := punctuation_positional ds e o hd
  by_cases c : ¬ fmt.noExponentNotation = true ∧
      (fmt.requiredExponentNotation = true ∨ e < o.negBreak.getD (-5) ∨ e > o.posBreak.getD 9)
  · rw [if_pos c]
    simp only [c, iff_true]
    rw [layout_scientific]
    simp
  · rw [if_neg c]
    simp only [c, iff_false]
    intro hmem
    have hp : DigitOrPoint o o.exp := by
      split at hmem
      · exact hneg _ hmem
      · exact hpos _ hmem
    rcases hp with hp | hp
    · exact hexp hp
    · exact hne hp

/-- non-vacuity: `1.5e10` is scientific with the default breaks and positional with `positive_exponent_break = 10` -/
example : writeDigitsN Format.standard {} [1, 5] 10 {} = [49, 46, 53, 101, 49, 48] := by decide +kernel
example : writeDigitsN Format.standard {} [1, 5] 10 { posBreak := some 10 } =
    [49, 53, 48, 48, 48, 48, 48, 48, 48, 48, 48, 46, 48] := by decide +kernel

/-! ## value of the emitted text (statement only) -/

/-- The text re-parsed by the parser specification denotes exactly the rounded digits × 10^exponent.
Not proved in Lean (needs the `Spec.StdFloat` recogniser to be inverted on every layout); it is what the
correspondence checks on every op (`props/C14.py`, value law with exact rationals). -/
def value_full : Prop :=
  ∀ (ds : List Nat) (e : Int) (o : WOpts), (∀ d ∈ ds, d < 10) → 1 ≤ ds.length → ds.head? ≠ some 0 → wOptsError o = none →
    o.exp = 101 → o.dp = 46 →
    ∃ (l : FloatLit) (n : Nat),
      parseStdComplete 10 10 {} (writeDigitsN Format.standard {} ds e o) = .num l n ∧
      (ofDigits 10 (l.intDigits ++ l.fracDigits) : Int) * 10 ^ ((truncateAndRound ds o).1.length - 1) * 10 ^ (l.exp.toNat) * 10 ^ ((-(e + (if (truncateAndRound ds o).2 = true then 1 else 0))).toNat)
        = (ofDigits 10 (truncateAndRound ds o).1 : Int) * 10 ^ l.fracDigits.length * 10 ^ ((-l.exp).toNat) *
            10 ^ ((e + (if (truncateAndRound ds o).2 = true then 1 else 0)).toNat)

end LexVerif.Props.C14
