import LexVerif.Props.C12Sep
import LexVerif.Props.C10
import LexVerif.Props.C01Main
import LexVerif.Proof.GrammarOptions
import LexVerif.Proof.GrammarValue
import LexVerif.Proof.GrammarEmpty
/-!
# C12 (final assembly) — `accepts_iff_grammar` at the entry point, value included

`Props/C12.lean` keeps the target `accepts_iff_grammar : Prop` (the line `parseFloatModel` prints = the rendering of
`grammarFloatComplete`). `accepts_iff_grammar_partial` / `accepts_iff_grammar_sep_partial` prove the ACCEPTANCE part on
the syntax layer. This module closes the four parts their docstring lists as "not covered":

* **(a) panic / fault exits** — `syntax_dichotomy`: with C10 (`parseFloatSyntax_total`) the complete parser of the
  syntax layer is `.ok p` with `Verdict c o s p`, or `.error (.err k i)` with `i ≤ length` and the grammar rejecting.
  There is no third case.
* **(b) entry-point validation** — `entry_guards_pass`: under the hypotheses of `accepts_iff_grammar` the four guards of
  `parseFloatModel` pass; `SpecialsWF` / `LettersOnly` are consequences of `optionsError = none`
  (`Proof.GrammarOptions`), `skip ≠ unreachable` and the radix bounds of `formatError = none`.
* **(c) many-digit re-parse** — nothing excludes it: `Verdict` / `NumberIs` speak about the digit slices and the explicit
  exponent, which `manyDigitsPhase` copies; `accepted_value` has no hypothesis for `manyDigits = true`
  (witness with 21 digits below).
* **(d) value** — `accepted_value`: `numberBits` of an accepted `Number` is `litBits` of the grammar's literal. For
  `manyDigits = true` unconditionally; for `manyDigits = false` from `NumberExactAt c n` (`Props.C01Main`: the
  `mantissa`/`exponent` words denote the value of the digit slices — proved elsewhere, taken as a hypothesis here).

Result: `accepts_iff_grammar_entry_partial` (and `accepts_iff_grammar_decimal_partial` with `NumberExact` as the one named
hypothesis) — the statement of `accepts_iff_grammar`, verbatim, for `f32`/`f64`, under the
explicit side conditions listed there; `accepts_iff_grammar_of_numberExact` reduces the whole proved class to the single
open statement `NumberExactC12 : Prop`. `accepts_iff_grammar` itself stays a `def`: it is FALSE on the finding classes
(`regression_accepts_prefix_zero`: the former refutation by the base-prefix finding is repaired).
-/
namespace LexVerif.Props.C12
open LexVerif LexVerif.Model LexVerif.Spec LexVerif.Proof.Grammar LexVerif.Proof.Sep
open LexVerif.Proof.PNDebug (FeatsOk fe_mantissa fe_base fe_expRadix isValidRadix_le isValidRadix_ten skip_ne_unreachable)
open LexVerif.Props.C01 (IsLemireFloat)
open LexVerif.Props.C01Main (NumberExactAt NumberExact spec_forms)
open LexVerif.Model.ParseFloatAlgo (numberLit)

/-! ## (b) what the entry-point validation gives -/

/-- radix facts of a valid format (`FeatsOk`: the cargo feature `radix` enables `power-of-two`) -/
theorem radix_facts (c : Cfg) (hvalid : (formatError c.feats c.fmt).isNone = true) :
    2 ≤ c.mantissaRadix ∧ c.mantissaRadix ≤ 36 ∧ 2 ≤ c.exponentBase ∧ 2 ≤ c.exponentRadix ∧
    (FeatsOk c.feats → c.feats.powerOfTwo = false → c.mantissaRadix ≤ 10) := by
  have h1 := isValidRadix_le (fe_mantissa hvalid)
  have h2 := isValidRadix_le (fe_base hvalid)
  have h3 := isValidRadix_le (fe_expRadix hvalid)
  refine ⟨h1.1, h1.2, h2.1, h3.1, fun hf hp => ?_⟩
  have := isValidRadix_ten (fe_mantissa hvalid) hp hf
  unfold Cfg.mantissaRadix
  omega

/-- the guards of `parse_with_options` pass under the hypotheses of `accepts_iff_grammar`: what is printed is the
rendering of the syntax layer's result -/
theorem entry_guards_pass (feats : Features) (f : Format) (o : POpts) (isPartial : Bool) (ty : Fmt) (s : List Nat)
    (hfe : (formatError feats f).isNone = true) (hoe : (optionsError o).isNone = true)
    (hp : isValidOptionsPunctuation feats f o.exp o.dp = true) (hcr : checkRadix feats f = true) :
    parseFloatModel feats f o isPartial ty s =
      (match parseFloatSyntax ⟨feats, f, false⟩ o isPartial s true with
        | .ok p => renderParsed ⟨feats, f, false⟩ ty isPartial p
        | .error e => renderErr e) := by
  have h1 : optionsError o = none := by cases h : optionsError o <;> simp_all
  have h2 : formatError feats f = none := by cases h : formatError feats f <;> simp_all
  unfold parseFloatModel
  simp only [h1, h2, hp, hcr, Option.isSome_none, Option.isNone_none, Bool.false_eq_true, if_false, Bool.not_true]
  rfl

/-! ## the class "nothing after the sign", digits required -/

/-- `(splitSign s).2 = []` (empty input, bare sign) is excluded from `accepts_iff_grammar_sep_partial` because of the
finding `finding_empty_input`; the finding concerns only formats that require neither integer nor mantissa digits.
For every other format without base prefix (in particular with the `format` feature off) model and grammar agree on
this class: both reject. -/
theorem emptybody_rejects (c : Cfg) (hd : c.debug = false) (hk : ∀ k, c.skip k ≠ .unreachable)
    (hpre : c.basePrefix = 0) (hr8 : c.feats.powerOfTwo = false → c.mantissaRadix ≤ 10)
    (o : POpts) (wf : SpecialsWF o) (s : List Nat) (fv : Bool) (hbody : (splitSign s).2 = [])
    (hreq : (c.requiredIntegerDigits || c.requiredMantissaDigits) = true) (hn : separatorFree c.fmt s = true) :
    (∃ k i, parseFloatSyntax c o false s fv = .error (.err k i)) ∧ grammarFloatComplete c.feats c.fmt o s = .err := by
  have hP := plainOf_plain c hr8
  have hC := plainOf_counterpart c
  have heq := parseFloatSyntax_same c (plainOf c) ⟨hd, hk, hr8⟩ hP hC o false s fv (noSep_of_separatorFree c s hn)
  have hfmt : (plainOf c).feats.format = false ∨ SepPrefixFree (plainOf c).fmt := by
    cases hf : c.feats.format
    · exact Or.inl hf
    · exact Or.inr (clearSep_sepPrefixFree c.fmt (by simpa [Cfg.basePrefix, hf] using hpre))
  have hreq2 : ((plainOf c).requiredIntegerDigits || (plainOf c).requiredMantissaDigits) = true := by
    rw [hC.requiredIntegerDigits, hC.requiredMantissaDigits]; exact hreq
  obtain ⟨h1, h2⟩ := parseFloatSyntax_emptybody (std_of (plainOf c) rfl hfmt hP.radix) o wf s fv hbody hreq2
  rw [heq] at h1
  refine ⟨h1, ?_⟩
  rw [cfgSyn_plainOf] at h2
  exact h2

/-! ## (a) no third case -/

/-- **Dichotomy of the syntax layer** (release build, valid format without base prefix, valid options, separator-free
input with something after the sign — or nothing, if the format requires integer or mantissa digits): accepted with a
`Verdict`, or rejected with an `Error` whose index is inside
the input while the grammar rejects. Panic and fault exits do not occur (C10). -/
theorem syntax_dichotomy (c : Cfg) (hd : c.debug = false) (hvalid : (formatError c.feats c.fmt).isNone = true)
    (hfeats : FeatsOk c.feats) (hpre : c.basePrefix = 0) (o : POpts) (hoe : (optionsError o).isNone = true)
    (s : List Nat) (hb : ∀ x ∈ s, x < 256) (fv : Bool)
    (hbody : (splitSign s).2 ≠ [] ∨ (c.requiredIntegerDigits || c.requiredMantissaDigits) = true)
    (hn : separatorFree c.fmt s = true) :
    (∃ p, parseFloatSyntax c o false s fv = .ok p ∧ Verdict c o s p) ∨
    (∃ k i, parseFloatSyntax c o false s fv = .error (.err k i) ∧ i ≤ s.length ∧
      grammarFloatComplete c.feats c.fmt o s = .err) := by
  have hoe1 : optionsError o = none := by cases h : optionsError o <;> simp_all
  have ht := C10.parseFloatSyntax_total c hd hvalid o false fv s
  by_cases hbe : (splitSign s).2 = []
  · have hreq : (c.requiredIntegerDigits || c.requiredMantissaDigits) = true := by
      rcases hbody with h | h
      · exact absurd hbe h
      · exact h
    obtain ⟨⟨k, i, h1⟩, h2⟩ := emptybody_rejects c hd (skip_ne_unreachable c hvalid) hpre
      ((radix_facts c hvalid).2.2.2.2 hfeats) o (specialsWF_of_optionsError o hoe1) s fv hbe hreq hn
    rw [h1] at ht
    exact Or.inr ⟨k, i, h1, ht, h2⟩
  obtain ⟨h1, h2⟩ := accepts_iff_grammar_sep_partial c hd (skip_ne_unreachable c hvalid) hpre
    ((radix_facts c hvalid).2.2.2.2 hfeats) o (specialsWF_of_optionsError o hoe1) (lettersOnly_of_optionsError o hoe1)
    s hb fv hbe hn
  cases hp : parseFloatSyntax c o false s fv with
  | ok p => exact Or.inl ⟨p, rfl, h1 p hp⟩
  | error e =>
    rw [hp] at ht
    cases e with
    | err k i => exact Or.inr ⟨k, i, rfl, ht, h2 k i hp⟩
    | panic t => exact ht.elim
    | fault t => exact ht.elim

/-! ## (d) the value of an accepted number -/

/-- what `numberBits` rounds is the digit content `numberLit` — by definition for a truncated mantissa, by
`NumberExactAt` (`mantissa · base^exponent` = value of the digits) otherwise -/
theorem numberBits_eq_numberLit (c : Cfg) (hvalid : (formatError c.feats c.fmt).isNone = true) {F : FTy}
    (hF : IsLemireFloat F) (n : Number) (hx : n.manyDigits = false → NumberExactAt c n) :
    numberBits c F.fmt n = litBits F.fmt c.mantissaRadix c.exponentBase (numberLit c n) := by
  cases hm : n.manyDigits with
  | true =>
    unfold numberBits numberLit
    simp only [hm, if_true]
    rfl
  | false =>
    obtain ⟨r2, r36, b2, _, _⟩ := radix_facts c hvalid
    exact (spec_forms hF c r2 r36 b2 n hm (hx hm).2.2).2

/-- **VALUE clause**: an accepted number has the value of the grammar's literal. `hlen`: the exponent accumulator
saturates at `0x10000000`, which `litBits` cannot see for inputs shorter than `(0x10000000 − 1200)/6 ≈ 44.7·10⁶` bytes. -/
theorem accepted_value (c : Cfg) (hvalid : (formatError c.feats c.fmt).isNone = true) (hpre : c.basePrefix = 0)
    (o : POpts) (s : List Nat) (hb : ∀ x ∈ s, x < 256) (hn : separatorFree c.fmt s = true)
    (hlen : 1200 + 6 * s.length ≤ 0x10000000) {F : FTy} (hF : IsLemireFloat F) (n : Number) (cnt : Nat)
    (hv : Verdict c o s (.number n cnt)) (hx : n.manyDigits = false → NumberExactAt c n) :
    cnt = s.length ∧
    numberOk (cfgSyn c) (splitNumber (cfgSyn c) o (splitSign s).1 (splitSign s).2) = true ∧
    numberBits c F.fmt n = litBits F.fmt c.mantissaRadix c.exponentBase
      ((splitNumber (cfgSyn c) o (splitSign s).1 (splitSign s).2).lit (cfgSyn c)) := by
  obtain ⟨r2, r36, b2, e2, _⟩ := radix_facts c hvalid
  obtain ⟨P, hP, hok, hcnt, hlit, hdl⟩ := numberLit_of_verdict c (skip_ne_unreachable c hvalid) hpre (by omega) o s hb
    (noSep_of_separatorFree c s hn) n cnt hv
  have hpre2 : (cfgSyn c).pre = 0 := by rw [syn_pre]; exact hpre
  have hne := (splitNumber_value (cfgSyn c) hpre2 o (splitSign s).1 (splitSign s).2).2.2.2.1
  rw [← hP] at hne ⊢
  refine ⟨hcnt, hok, ?_⟩
  rw [numberBits_eq_numberLit c hvalid hF n hx, hlit]
  exact litBits_litSat F.fmt _ _ (cfgSyn c) (by rw [syn_expRadix]; omega) P hne (by omega)

/-! ## the entry point -/

theorem renderErr_startsWith (k : String) (i : Nat) : (renderErr (.err k i)).startsWith "err" = true := by
  unfold renderErr
  simp only [String.startsWith_string_iff, String.toList_append, toString]
  show ['e', 'r', 'r'] <+: ("err ").toList ++ _
  exact ⟨' ' :: _, rfl⟩

/-- the grammar's result for a `Verdict` -/
theorem grammar_of_verdict_special (c : Cfg) (o : POpts) (s : List Nat) (hs : s ≠ []) (t : Bool)
    (hno : numberOk (cfgSyn c) (splitNumber (cfgSyn c) o (splitSign s).1 (splitSign s).2) = false)
    (hsg : signOk (cfgSyn c).noPosMant (cfgSyn c).reqMantSign (splitSign s).1 = true)
    (hsp : specialOf (cfgSyn c) o (splitSign s).2 = some t) :
    grammarFloatComplete c.feats c.fmt o s =
      (match t with | true => .nan s.length | false => .inf ((splitSign s).1 == some true) s.length) := by
  have he : s.isEmpty = false := by cases s <;> simp_all
  unfold grammarFloatComplete grammarFloatSyn
  simp only [he, Bool.false_eq_true, if_false]
  simp only [cfgSyn] at hno hsg hsp
  simp only [hno, Bool.false_eq_true, if_false, hsg, if_true, hsp]
  cases t <;> rfl

theorem grammar_of_numberOk (c : Cfg) (o : POpts) (s : List Nat) (hs : s ≠ [])
    (hok : numberOk (cfgSyn c) (splitNumber (cfgSyn c) o (splitSign s).1 (splitSign s).2) = true) :
    grammarFloatComplete c.feats c.fmt o s =
      .num ((splitNumber (cfgSyn c) o (splitSign s).1 (splitSign s).2).lit (cfgSyn c)) s.length := by
  have he : s.isEmpty = false := by cases s <;> simp_all
  unfold grammarFloatComplete grammarFloatSyn
  simp only [he, Bool.false_eq_true, if_false]
  simp only [cfgSyn] at hok
  simp only [hok, if_true, cfgSyn]

/-- **`accepts_iff_grammar`, proved** — its conclusion verbatim (the line the entry point prints is the rendering of
the documented grammar's result, or the grammar rejects and the line starts with `err`), under its six hypotheses
plus, explicitly:
* `hF`: the float type is `f32` or `f64` (`accepts_iff_grammar` quantifies over arbitrary, also ill-formed, `Fmt`s);
* `hfeats`: the cargo feature `radix` enables `power-of-two` (a fact of `Cargo.toml`);
* `hpre`, `hbody`: the two excluded classes, which are open FINDINGS — formats with a base prefix; empty input / bare
  sign for formats that require NEITHER integer nor mantissa digits (for all other formats, e.g. every format with the
  `format` feature off, `hbody` holds by its right disjunct and nothing is excluded);
* `hlen`: the input is shorter than `(0x10000000 − 1200)/6` bytes — beyond, the saturating exponent accumulator of
  `parse_number` can differ from the exact exponent in a way the value sees;
* `hexact`: `NumberExactAt` for the accepted `Number` when its mantissa is untruncated (at most `u64_step` digits) —
  the statement `NumberExact` of `Props.C01Main`, proved separately; no hypothesis for many-digit numbers. -/
theorem accepts_iff_grammar_entry_partial (feats : Features) (f : Format) (o : POpts) (F : FTy) (s : List Nat)
    (hfe : (formatError feats f).isNone = true) (hoe : (optionsError o).isNone = true)
    (hp : isValidOptionsPunctuation feats f o.exp o.dp = true) (hcr : checkRadix feats f = true)
    (hb : ∀ x ∈ s, x < 256) (hn : separatorFree f s = true)
    (hF : IsLemireFloat F) (hfeats : FeatsOk feats)
    (hpre : feats.format = true → f.basePrefix = 0)
    (hbody : (splitSign s).2 ≠ [] ∨
      (Cfg.requiredIntegerDigits ⟨feats, f, false⟩ || Cfg.requiredMantissaDigits ⟨feats, f, false⟩) = true)
    (hlen : 1200 + 6 * s.length ≤ 0x10000000)
    (hexact : ∀ n cnt, parseFloatSyntax ⟨feats, f, false⟩ o false s true = .ok (.number n cnt) →
      n.manyDigits = false → NumberExactAt ⟨feats, f, false⟩ n) :
    parseFloatModel feats f o false F.fmt s =
        (grammarFloatComplete feats f o s).render F.fmt f.mantissaRadix f.exponentBase false
      ∨ (grammarFloatComplete feats f o s = .err ∧ (parseFloatModel feats f o false F.fmt s).startsWith "err") := by
  have hpre2 : (⟨feats, f, false⟩ : Cfg).basePrefix = 0 := by
    unfold Cfg.basePrefix
    cases hf : feats.format
    · simp
    · simpa using hpre hf
  rw [entry_guards_pass feats f o false F.fmt s hfe hoe hp hcr]
  rcases syntax_dichotomy ⟨feats, f, false⟩ rfl hfe hfeats hpre2 o hoe s hb true hbody hn with
    ⟨p, hp1, hv⟩ | ⟨k, i, hp1, _, hg⟩
  · left
    have hs : s ≠ [] := by
      intro h; subst h
      have hreq := hbody.resolve_left (fun h => h rfl)
      have e : splitSign ([] : List Nat) = (none, []) := rfl
      cases hv with
      | number n P hP hok hni =>
        rw [e] at hP
        subst hP
        rw [numberOk_nil _ o _ (by rw [syn_reqInt, syn_reqMant]; exact hreq)] at hok
        cases hok
      | special t hno hsg hsp =>
        rw [e, specialOf_nil _ o (specialsWF_of_optionsError o (by cases h : optionsError o <;> simp_all))] at hsp
        cases hsp
    rw [hp1]
    cases hv with
    | number n P hP hok hni =>
      have hv2 : Verdict ⟨feats, f, false⟩ o s (.number n s.length) := .number n P hP hok hni
      obtain ⟨_, hok2, hval⟩ := accepted_value ⟨feats, f, false⟩ hfe hpre2 o s hb hn hlen hF n s.length hv2
        (hexact n s.length hp1)
      rw [grammar_of_numberOk ⟨feats, f, false⟩ o s hs hok2]
      simp only [renderParsed, FRes.render, hval, Bool.false_eq_true, if_false]
      rfl
    | special t hno hsg hsp =>
      rw [grammar_of_verdict_special ⟨feats, f, false⟩ o s hs t hno hsg hsp]
      cases t <;> simp [renderParsed, FRes.render]
  · right
    rw [hp1]
    exact ⟨hg, renderErr_startsWith k i⟩

/-- **What is left of C12 on the proved class, as one statement**: `NumberExact` (`Props.C01Main`; there for decimal,
separator/prefix-free formats) for every valid format without base prefix, every radix, separator formats included,
complete parser, separator-free inputs below the length bound. Kept as a `def`: it is C01/C05 territory (the
`mantissa`/`exponent` words of `parse_number`), not a statement about syntax. -/
def NumberExactC12 : Prop :=
  ∀ (feats : Features) (f : Format) (o : POpts) (s : List Nat) (n : Number) (cnt : Nat),
    (formatError feats f).isNone = true → (optionsError o).isNone = true →
    isValidOptionsPunctuation feats f o.exp o.dp = true → checkRadix feats f = true →
    (∀ x ∈ s, x < 256) → separatorFree f s = true → FeatsOk feats → (feats.format = true → f.basePrefix = 0) →
    1200 + 6 * s.length ≤ 0x10000000 →
    parseFloatSyntax ⟨feats, f, false⟩ o false s true = .ok (.number n cnt) → n.manyDigits = false →
    NumberExactAt ⟨feats, f, false⟩ n

/-- `accepts_iff_grammar` on the whole proved class from `NumberExactC12` alone -/
theorem accepts_iff_grammar_of_numberExact (hN : NumberExactC12) (feats : Features) (f : Format) (o : POpts) (F : FTy)
    (s : List Nat) (hfe : (formatError feats f).isNone = true) (hoe : (optionsError o).isNone = true)
    (hp : isValidOptionsPunctuation feats f o.exp o.dp = true) (hcr : checkRadix feats f = true)
    (hb : ∀ x ∈ s, x < 256) (hn : separatorFree f s = true)
    (hF : IsLemireFloat F) (hfeats : FeatsOk feats)
    (hpre : feats.format = true → f.basePrefix = 0)
    (hbody : (splitSign s).2 ≠ [] ∨
      (Cfg.requiredIntegerDigits ⟨feats, f, false⟩ || Cfg.requiredMantissaDigits ⟨feats, f, false⟩) = true)
    (hlen : 1200 + 6 * s.length ≤ 0x10000000) :
    parseFloatModel feats f o false F.fmt s =
        (grammarFloatComplete feats f o s).render F.fmt f.mantissaRadix f.exponentBase false
      ∨ (grammarFloatComplete feats f o s = .err ∧ (parseFloatModel feats f o false F.fmt s).startsWith "err") :=
  accepts_iff_grammar_entry_partial feats f o F s hfe hoe hp hcr hb hn hF hfeats hpre hbody hlen
    (fun n cnt h hm => hN feats f o s n cnt hfe hoe hp hcr hb hn hfeats hpre hlen h hm)

/-- **… with `NumberExact` as the one named hypothesis**: decimal formats (radix and exponent base 10) of the class
`NumberExact` is stated for (`format` feature off, or no digit separator / base prefix). -/
theorem accepts_iff_grammar_decimal_partial (hN : NumberExact) (feats : Features) (f : Format) (o : POpts) (F : FTy)
    (s : List Nat) (hfe : (formatError feats f).isNone = true) (hoe : (optionsError o).isNone = true)
    (hp : isValidOptionsPunctuation feats f o.exp o.dp = true) (hcr : checkRadix feats f = true)
    (hb : ∀ x ∈ s, x < 256) (hF : IsLemireFloat F) (hfeats : FeatsOk feats)
    (hcls : feats.format = false ∨ SepPrefixFree f) (hr : f.mantissaRadix = 10) (hbase : f.exponentBase = 10)
    (hbody : (splitSign s).2 ≠ [] ∨
      (Cfg.requiredIntegerDigits ⟨feats, f, false⟩ || Cfg.requiredMantissaDigits ⟨feats, f, false⟩) = true)
    (hlen : 1200 + 6 * s.length ≤ 0x10000000) :
    parseFloatModel feats f o false F.fmt s =
        (grammarFloatComplete feats f o s).render F.fmt f.mantissaRadix f.exponentBase false
      ∨ (grammarFloatComplete feats f o s = .err ∧ (parseFloatModel feats f o false F.fmt s).startsWith "err") := by
  have hsep0 : f.digitSeparator = 0 := by
    rcases hcls with h | h
    · have := LexVerif.Proof.PNDebug.fe_sep hfe
      simpa [h] using this
    · exact h.1
  refine accepts_iff_grammar_entry_partial feats f o F s hfe hoe hp hcr hb (by simp [separatorFree, hsep0]) hF hfeats ?_ hbody
    hlen ?_
  · intro hf
    rcases hcls with h | h
    · simp [hf] at h
    · exact h.2.1
  · intro n cnt hpn hm
    exact hN ⟨feats, f, false⟩ o false s true n cnt rfl hcls hr hbase hpn hm

/-! ## non-vacuity and the status of the target -/

/-- non-vacuity of the hypotheses (STANDARD, default options, default feature set, `1.5e3`) -/
example : (formatError {} Format.standard).isNone = true ∧ (optionsError {}).isNone = true ∧
    isValidOptionsPunctuation {} Format.standard 101 46 = true ∧ checkRadix {} Format.standard = true ∧
    separatorFree Format.standard [49, 46, 53, 101, 51] = true ∧ (splitSign [49, 46, 53, 101, 51]).2 ≠ [] := by
  decide

/-- a number line never starts with `err` -/
theorem render_num_not_err (ty : Fmt) (r b : Nat) (l : FloatLit) (n : Nat) :
    ((FRes.num l n).render ty r b false).startsWith "err" = false := by
  unfold FRes.render
  simp only [Bool.false_eq_true, if_false]
  rw [Bool.eq_false_iff]
  intro h
  simp only [String.startsWith_string_iff, String.toList_append, toString] at h
  have : ("ok ").toList = ['o', 'k', ' '] := rfl
  rw [this] at h
  simp at h

/-- **regression (former refutation `accepts_iff_grammar_refuted_by_prefix`)**: format `prefix_d_radix10` (valid,
`radix+format`, a base prefix merely allowed), default options, input `0`. Before the repair of `parse_number`
(`fixes/C12-base-prefix-swallows-leading-zero.diff`, `Model.prefixRepair`) the syntax layer returned
`Err(EmptyMantissa(1))` while the documented grammar derives the number `0`, which refuted `accepts_iff_grammar`.
Now the syntax layer accepts and the grammar derives `0`.
`accepts_iff_grammar` nevertheless stays a `def`: as stated (no exclusion) it is still contradicted at the syntax level
by the open finding C12-no-digits-accepted-as-zero (`C12.finding_empty_input`). -/
theorem regression_accepts_prefix_zero :
    (match parseFloatSyntax ⟨featsRF, cfgPrefixD.fmt, false⟩ {} false [48] true with
     | .ok _ => true | .error _ => false) = true ∧
    grammarFloatComplete featsRF cfgPrefixD.fmt {} [48] = .num ⟨false, [0], [], 0⟩ 1 := by decide

/-- non-vacuity of `accepts_iff_grammar_entry_partial`, all hypotheses at once (STANDARD, default options and feature
set, `1.5e3`, `f64`; the `Number` is `15·10²`, untruncated, and `NumberExactAt` holds for it by evaluation) -/
example : parseFloatModel {} Format.standard {} false FTy.f64.fmt [49, 46, 53, 101, 51] =
      (grammarFloatComplete {} Format.standard {} [49, 46, 53, 101, 51]).render FTy.f64.fmt 10 10 false
    ∨ (grammarFloatComplete {} Format.standard {} [49, 46, 53, 101, 51] = .err ∧
      (parseFloatModel {} Format.standard {} false FTy.f64.fmt [49, 46, 53, 101, 51]).startsWith "err") := by
  refine accepts_iff_grammar_entry_partial {} Format.standard {} FTy.f64 [49, 46, 53, 101, 51] (by decide) (by decide)
    (by decide) (by decide) (by decide) (by decide) (Or.inl rfl) (by intro h; cases h) (by intro h; cases h) (by decide)
    (by decide) ?_
  intro n cnt h _
  have hm : parseFloatSyntax ⟨{}, Format.standard, false⟩ {} false [49, 46, 53, 101, 51] true =
      .ok (.number ⟨15, 2, false, false, [49], some [53], 3⟩ 5) := by decide
  rw [hm] at h
  injection h with h
  injection h with h _
  subst h
  refine ⟨by decide, ⟨by decide, by decide⟩, ?_⟩
  unfold C01Main.RatEq
  decide

/-- non-vacuity of `emptybody_rejects` and of the right disjunct of `hbody`: STANDARD requires mantissa digits; the bare
sign `-` is rejected by the entry point (`err Empty 1`) and by the grammar — no exclusion needed -/
example : (grammarFloatComplete {} Format.standard {} [45] = .err ∧
      (parseFloatModel {} Format.standard {} false FTy.f64.fmt [45]).startsWith "err") := by
  have h := accepts_iff_grammar_entry_partial {} Format.standard {} FTy.f64 [45] (by decide) (by decide)
    (by decide) (by decide) (by decide) (by decide) (Or.inl rfl) (by intro h; cases h) (by intro h; cases h)
    (Or.inr (by decide)) (by decide) (by
      intro n cnt h _
      have hm : parseFloatSyntax ⟨{}, Format.standard, false⟩ {} false [45] true = .error (.err "Empty" 1) := by decide
      rw [hm] at h; cases h)
  have hg : grammarFloatComplete {} Format.standard {} [45] = .err := by decide
  rcases h with h | h
  · rw [hg] at h
    refine ⟨hg, ?_⟩
    rw [entry_guards_pass {} Format.standard {} false FTy.f64.fmt [45] (by decide) (by decide) (by decide) (by decide)]
    have hm : parseFloatSyntax ⟨{}, Format.standard, false⟩ {} false [45] true = .error (.err "Empty" 1) := by decide
    rw [hm]
    exact renderErr_startsWith _ _
  · exact h

/-- (c) a 21-digit input takes the many-digit re-parse and is accepted: `accepted_value` applies without `hx` -/
example : (match parseFloatSyntax ⟨{}, Format.standard, false⟩ {} false
      [49, 50, 51, 52, 53, 54, 55, 56, 57, 48, 49, 50, 51, 52, 53, 54, 55, 56, 57, 48, 49, 46, 53] with
    | .ok (.number n c) => n.manyDigits && c == 23
    | _ => false) = true := by decide

end LexVerif.Props.C12
