import LexVerif.Props.C01SlowDomain
import LexVerif.Proof.SepFreeMany2
/-!
# C01 — `NumberExact`: the `Number` the syntax layer builds denotes the digit content

For every format without digit separator and base prefix (in particular every format when the `format` feature is off),
release build, decimal radix and exponent base: if `parse_number` accepts and reports `many_digits = false`, then

* `mantissa` is the value of all mantissa digits (no wrap: at most 19 significant digits), `exponent` is the explicit
  exponent minus the number of fraction digits (`NumberExactAt`);
* the stored digit slices are the digit runs themselves (`PlainSlices`);
* there are at most `u64_step = 19` significant digits.

Built on the closed forms of `Proof.SepFreePhases` / `Proof.SepFreeMany2` (`intClosed`, `fracClosed`, `manyClosed`).
-/
namespace LexVerif.Props.C01Number
open LexVerif LexVerif.Spec LexVerif.Model LexVerif.Model.ParseFloatAlgo
open LexVerif.Proof.Sep LexVerif.Proof.Slow LexVerif.Proof.Pipeline LexVerif.Proof.RoundNE
open LexVerif.Props.C01Main LexVerif.Props.C01SlowDomain LexVerif.Props.C12
open LexVerif.Props.C01 (IsI64)

/-! ## the exponent component -/

theorem foldExponent_le (r : Nat) : ∀ (ds : List Nat) (acc : Nat), (∀ d ∈ ds, d < r) →
    acc ≤ 0x10000000 * r + r → foldExponent r acc ds ≤ 0x10000000 * r + r
  | [], acc, _, h => by simpa [foldExponent] using h
  | d :: ds, acc, hd, h => by
    unfold foldExponent
    simp only [List.foldl_cons]
    have hdr : d < r := hd d (List.mem_cons_self ..)
    have := foldExponent_le r ds (if acc < 0x10000000 then acc * r + d else acc)
      (fun x hx => hd x (List.mem_cons_of_mem _ hx)) (by
        split
        · rename_i hlt
          have : acc * r ≤ (0x10000000 - 1) * r := Nat.mul_le_mul_right _ (by omega)
          have e : (0x10000000 - 1) * r = 0x10000000 * r - r := by
            rw [Nat.sub_mul, Nat.one_mul]
          have hpos : r ≤ 0x10000000 * r := Nat.le_mul_of_pos_left _ (by decide)
          omega
        · exact h)
    unfold foldExponent at this
    exact this

/-- what an accepted exponent component says: `exponent = implicit + explicit`, and the explicit exponent is small -/
theorem exponentPhase_facts (c : Cfg) (hasExp : Bool) (b : Bytes) (fr : Option (List Nat)) (e : Int) (ep : ExpPart)
    (hok : exponentPhase c hasExp b fr e = .ok ep) (hr : c.exponentRadix ≤ 255) :
    ep.exponent = e + ep.explicit ∧ -(2 ^ 40 : Int) ≤ ep.explicit ∧ ep.explicit ≤ 2 ^ 40 := by
  have h40 : (2 : Int) ^ 40 = 1099511627776 := by norm_num
  unfold exponentPhase at hok
  cases hasExp with
  | false =>
    simp only [Bool.false_eq_true, if_false] at hok
    split at hok
    · cases hok
    · simp only [pure, Except.pure, Except.ok.injEq] at hok
      subst hok
      simp
  | true =>
    simp only [if_true, bind, Except.bind] at hok
    cases hst : b.step c with
    | error err => rw [hst] at hok; cases hok
    | ok b1 =>
      rw [hst] at hok
      simp only at hok
      split at hok
      · cases hok
      · split at hok
        · cases hok
        · cases hsg : parseExponentSign c b1 with
          | error err => rw [hsg] at hok; cases hok
          | ok sg =>
            rw [hsg] at hok
            simp only at hok
            cases hpd : parseDigits c .exponent c.exponentRadix sg.2 with
            | error err => rw [hpd] at hok; cases hok
            | ok r =>
              rw [hpd] at hok
              simp only at hok
              split at hok
              · cases hok
              · simp only [pure, Except.pure, Except.ok.injEq] at hok
                subst hok
                have hlt : ∀ d ∈ r.1, d < c.exponentRadix := by
                  unfold parseDigits at hpd
                  exact parseDigitsLoop_lt c .exponent c.exponentRadix _ sg.2 r.2 r.1 hpd
                have hb := foldExponent_le c.exponentRadix r.1 0 hlt (by omega)
                have hb2 : 0x10000000 * c.exponentRadix + c.exponentRadix ≤ 0x10000000 * 255 + 255 := by
                  have := Nat.mul_le_mul_left 0x10000000 hr
                  omega
                refine ⟨rfl, ?_, ?_⟩ <;> simp only <;> split <;> omega

/-! ## `parse_number` -/

theorem scaleVal_same_base (c : Cfg) (h : c.mantissaRadix = c.exponentBase) (x : Int) : scaleVal c x = x := by
  unfold scaleVal; rw [if_pos h]

/-- `parse_number::<FORMAT, IS_PARTIAL>` after the integer and fraction components (verbatim copy of the model's code) -/
def tailOf (c : Cfg) (isPartial : Bool) (o : POpts) (neg : Bool) (ip : IntPart) (fp : FracPart) :
    Except Err (Number × Nat) :=
  let byte := fp.byte
  let hasExponent := byte.firstIs o.exp (c.caseSensitiveExponent && c.feats.format)
  let nDigits := ip.nDigits + fp.nAfterDot
  if c.requiredMantissaDigits && (nDigits = 0 || (c.feats.format && byte.currentCount c = 0)) then
    peek c .integer ip.start >>= fun x =>
    if fp.hasDecimal || hasExponent || x.1.isNone || isPartial then .error (.err "EmptyMantissa" byte.index)
    else .error (.err "InvalidDigit" ip.start.index)
  else
    exponentPhase c hasExponent byte fp.fraction fp.exponent >>= fun ep =>
    suffixPhase c ep.byte >>= fun byte =>
    let endIdx := byte.index
    let step := u64Step c.feats c.mantissaRadix
    let exponent : Int := if c.feats.format && !c.requiredMantissaDigits && nDigits = 0 then 0 else ep.exponent
    if nDigits ≤ step then
      pure (⟨fp.mantissa, exponent, neg, false, ip.integerDigits, fp.fraction, ep.explicit⟩, endIdx)
    else manyDigitsPhase c o neg ip fp ep nDigits step exponent endIdx

theorem parseNumber_tail (c : Cfg) (hd : c.debug = false) (isPartial : Bool) (o : POpts) (b : Bytes) (neg fv : Bool) :
    parseNumber c isPartial o b neg fv =
      (integerPhase c b >>= fun ip => fractionPhase c o ip.byte ip.mantissa >>= fun fp => tailOf c isPartial o neg ip fp) := by
  unfold parseNumber
  simp only [hd, Bool.false_and, Bool.false_eq_true, if_false]
  rfl

theorem manyCore_many (r : Nat) (scale : Int → Int) (ids : List Nat) (ipN : Nat) (fraction : Option (List Nat))
    (fpMant : Nat) (explicit : Int) (neg : Bool) (step : Nat) (ex0 : Int) (endIdx : Nat) (sepMode : Bool) (nd : Nat)
    (hnd : nd > 0) (n : Number) (cnt : Nat)
    (h : manyCore r scale ids ipN fraction fpMant explicit neg step ex0 endIdx sepMode nd = .ok (n, cnt)) :
    n.manyDigits = true := by
  unfold manyCore at h
  rw [if_pos hnd] at h
  dsimp only at h
  split at h
  · simp only [Except.ok.injEq, Prod.mk.injEq] at h
    rw [← h.1]
  · cases fraction with
    | none => cases h
    | some fd =>
      simp only [Except.ok.injEq, Prod.mk.injEq] at h
      rw [← h.1]

theorem manyCore_zero (r : Nat) (scale : Int → Int) (ids : List Nat) (ipN : Nat) (fraction : Option (List Nat))
    (fpMant : Nat) (explicit : Int) (neg : Bool) (step : Nat) (ex0 : Int) (endIdx : Nat) (sepMode : Bool) (nd : Nat)
    (hnd : ¬ nd > 0) :
    manyCore r scale ids ipN fraction fpMant explicit neg step ex0 endIdx sepMode nd =
      .ok (⟨fpMant, ex0, neg, false, ids, fraction, explicit⟩, endIdx) := by
  unfold manyCore
  rw [if_neg hnd]

/-- the tail of `parse_number` on an accepted untruncated input -/
theorem tailOf_facts (c : Cfg) (hS : RelClass c) (hre : c.exponentRadix ≤ 255) (isPartial : Bool) (o : POpts) (neg : Bool)
    (ip : IntPart) (fp : FracPart) (hn : NoSep c ip.start.slc) (hids : NoSep c ip.integerDigits)
    (hfd : ∀ fd, fp.fraction = some fd → NoSep c fd) (n : Number) (cnt : Nat)
    (h : tailOf c isPartial o neg ip fp = .ok (n, cnt)) (hmany : n.manyDigits = false) :
    n.integer = ip.integerDigits ∧ n.fraction = fp.fraction ∧ n.mantissa = fp.mantissa ∧
    (n.exponent = fp.exponent + n.explicitExp ∨ (ip.nDigits + fp.nAfterDot = 0 ∧ n.exponent = 0)) ∧
    -(2 ^ 40 : Int) ≤ n.explicitExp ∧ n.explicitExp ≤ 2 ^ 40 ∧
    (ip.nDigits + fp.nAfterDot ≤ u64Step c.feats c.mantissaRadix ∨
      ip.nDigits + fp.nAfterDot - u64Step c.feats c.mantissaRadix - zerosPrefix (ip.start.slc.drop ip.start.index) -
        zerosPrefix (ip.start.slc.drop
          (if (ip.start.slc[ip.start.index + zerosPrefix (ip.start.slc.drop ip.start.index)]? == some o.dp) = true
            then ip.start.index + zerosPrefix (ip.start.slc.drop ip.start.index) + 1
            else ip.start.index + zerosPrefix (ip.start.slc.drop ip.start.index))) = 0) := by
  unfold tailOf at h
  simp only [bind, Except.bind] at h
  split at h
  · -- required mantissa digits missing: both branches are errors
    cases hpk : peek c .integer ip.start with
    | error err => rw [hpk] at h; cases h
    | ok x =>
      rw [hpk] at h
      simp only at h
      split at h <;> cases h
  · cases hep : exponentPhase c (fp.byte.firstIs o.exp (c.caseSensitiveExponent && c.feats.format)) fp.byte fp.fraction
        fp.exponent with
    | error err => rw [hep] at h; cases h
    | ok ep =>
      rw [hep] at h
      simp only at h
      obtain ⟨x1, x2, x3⟩ := exponentPhase_facts c _ fp.byte fp.fraction fp.exponent ep hep hre
      cases hsf : suffixPhase c ep.byte with
      | error err => rw [hsf] at h; cases h
      | ok bs =>
        rw [hsf] at h
        simp only at h
        have hexp : ((if (c.feats.format && !c.requiredMantissaDigits && decide (ip.nDigits + fp.nAfterDot = 0)) = true
            then (0 : Int) else ep.exponent) = fp.exponent + ep.explicit ∨
            (ip.nDigits + fp.nAfterDot = 0 ∧ (if (c.feats.format && !c.requiredMantissaDigits &&
              decide (ip.nDigits + fp.nAfterDot = 0)) = true then (0 : Int) else ep.exponent) = 0)) := by
          split
          · rename_i hc
            simp only [Bool.and_eq_true, decide_eq_true_eq] at hc
            exact Or.inr ⟨hc.2, rfl⟩
          · exact Or.inl x1
        by_cases hle : ip.nDigits + fp.nAfterDot ≤ u64Step c.feats c.mantissaRadix
        · rw [if_pos hle] at h
          simp only [pure, Except.pure, Except.ok.injEq, Prod.mk.injEq] at h
          obtain ⟨rfl, _⟩ := h
          exact ⟨rfl, rfl, rfl, hexp, x2, x3, Or.inl hle⟩
        · rw [if_neg hle, manyDigits_rel c hS ip.start.slc hn o neg ip fp ep _ _ _ _ rfl hids hfd] at h
          unfold manyClosed at h
          dsimp only at h
          generalize hnd : ip.nDigits + fp.nAfterDot - u64Step c.feats c.mantissaRadix -
            zerosPrefix (ip.start.slc.drop ip.start.index) -
            zerosPrefix (ip.start.slc.drop
              (if (ip.start.slc[ip.start.index + zerosPrefix (ip.start.slc.drop ip.start.index)]? == some o.dp) = true
                then ip.start.index + zerosPrefix (ip.start.slc.drop ip.start.index) + 1
                else ip.start.index + zerosPrefix (ip.start.slc.drop ip.start.index))) = nd at h ⊢
          by_cases hpos : nd > 0
          · have := manyCore_many _ _ _ _ _ _ _ _ _ _ _ _ nd hpos n cnt h
            rw [this] at hmany; cases hmany
          · rw [manyCore_zero _ _ _ _ _ _ _ _ _ _ _ _ nd hpos] at h
            simp only [Except.ok.injEq, Prod.mk.injEq] at h
            obtain ⟨rfl, _⟩ := h
            exact ⟨rfl, rfl, rfl, hexp, x2, x3, Or.inr (by omega)⟩

/-- index just after the integer digit run -/
def intEnd (c : Cfg) (b : Bytes) : Nat := b.index + (digitsPrefix c.mantissaRadix (b.slc.drop b.index)).length

/-- is the byte after the integer digits the decimal point? -/
def hasPoint (o : POpts) (c : Cfg) (b : Bytes) : Bool := b.slc[intEnd c b]? == some o.dp

/-- the fraction digit run (empty without a decimal point) -/
def fracRun (o : POpts) (c : Cfg) (b : Bytes) : List Nat :=
  if hasPoint o c b then digitsPrefix c.mantissaRadix (b.slc.drop (intEnd c b + 1)) else []

/-- **what an accepted, untruncated `parse_number` returns** (any format on separator-free input without base prefix,
release build, mantissa radix = exponent base) -/
theorem parseNumber_facts (c : Cfg) (hS : RelClass c) (hpre : c.basePrefix = 0) (hrb : c.mantissaRadix = c.exponentBase)
    (hre : c.exponentRadix ≤ 255)
    (isPartial : Bool) (o : POpts) (b : Bytes) (neg fv : Bool) (hn : NoSep c b.slc) (n : Number) (cnt : Nat)
    (h : parseNumber c isPartial o b neg fv = .ok (n, cnt)) (hmany : n.manyDigits = false) :
    n.integer = (b.slc.drop b.index).take (digitsPrefix c.mantissaRadix (b.slc.drop b.index)).length ∧
    n.fraction = (if hasPoint o c b then some ((b.slc.drop (intEnd c b + 1)).take (fracRun o c b).length) else none) ∧
    n.mantissa = foldMantissa c.mantissaRadix (foldMantissa c.mantissaRadix 0
      (digitsPrefix c.mantissaRadix (b.slc.drop b.index))) (fracRun o c b) ∧
    (n.exponent = -((fracRun o c b).length : Int) + n.explicitExp ∨
      ((digitsPrefix c.mantissaRadix (b.slc.drop b.index)).length + (fracRun o c b).length = 0 ∧ n.exponent = 0)) ∧
    -(2 ^ 40 : Int) ≤ n.explicitExp ∧ n.explicitExp ≤ 2 ^ 40 ∧
    ((digitsPrefix c.mantissaRadix (b.slc.drop b.index)).length + (fracRun o c b).length ≤ u64Step c.feats c.mantissaRadix ∨
      (digitsPrefix c.mantissaRadix (b.slc.drop b.index)).length + (fracRun o c b).length -
        u64Step c.feats c.mantissaRadix - zerosPrefix (b.slc.drop b.index) -
        zerosPrefix (b.slc.drop
          (if (b.slc[b.index + zerosPrefix (b.slc.drop b.index)]? == some o.dp) = true
            then b.index + zerosPrefix (b.slc.drop b.index) + 1
            else b.index + zerosPrefix (b.slc.drop b.index))) = 0) := by
  rw [parseNumber_tail c hS.debug] at h
  simp only [bind, Except.bind] at h
  rw [integerPhase_rel c hS b b false hn (LexVerif.Proof.Grammar.prefixPhase_none hpre b)] at h
  unfold intClosed at h
  dsimp only at h
  unfold fracRun hasPoint intEnd
  generalize hdsI : digitsPrefix c.mantissaRadix (b.slc.drop b.index) = dsI at *
  by_cases e1 : (c.feats.format && c.requiredIntegerDigits && decide (dsI.length = 0)) = true
  · rw [if_pos e1] at h; cases h
  rw [if_neg e1] at h
  by_cases e2 : (c.feats.format && !false && c.noFloatLeadingZeros &&
      decide ((List.take dsI.length (List.drop b.index b.slc)).length > 1) &&
      decide ((List.take dsI.length (List.drop b.index b.slc)).head? = some 48)) = true
  · rw [if_pos e2] at h; cases h
  rw [if_neg e2] at h
  simp only at h
  rw [fractionPhase_rel c hS o _ _ (by simpa using hn)] at h
  unfold fracClosed at h
  simp only [adv_slc, adv_index] at h
  have hfirst : (adv c Comp.integer dsI.length b).firstIsCased o.dp = (b.slc[b.index + dsI.length]? == some o.dp) := by
    simp [Bytes.firstIsCased, Bytes.first]
  rw [hfirst] at h
  by_cases hdot : (b.slc[b.index + dsI.length]? == some o.dp) = true
  · rw [if_pos hdot] at h
    simp only [hdot, if_true]
    generalize hdsF : digitsPrefix c.mantissaRadix (b.slc.drop (b.index + dsI.length + 1)) = dsF at *
    by_cases e3 : (c.feats.format && c.requiredFractionDigits && decide (dsF.length = 0)) = true
    · rw [if_pos e3] at h; cases h
    rw [if_neg e3] at h
    simp only at h
    obtain ⟨f1, f2, f3, f4, f5, f6, f7⟩ := tailOf_facts c hS hre isPartial o neg _ _ (by simpa using hn)
      (by simp only; exact (hn.drop _).take _) (by
        intro fd hfd
        simp only [Option.some.injEq] at hfd
        rw [← hfd]; exact (hn.drop _).take _) n cnt h hmany
    simp only at f1 f2 f3 f4 f5 f6 f7
    rw [scaleVal_same_base c hrb] at f4
    exact ⟨f1, f2, f3, f4, f5, f6, f7⟩
  · rw [if_neg hdot] at h
    simp only [hdot, Bool.false_eq_true, if_false]
    simp only at h
    obtain ⟨f1, f2, f3, f4, f5, f6, f7⟩ := tailOf_facts c hS hre isPartial o neg _ _ (by simpa using hn)
      (by simp only; exact (hn.drop _).take _) (by intro fd hfd; cases hfd) n cnt h hmany
    simp only at f1 f2 f3 f4 f5 f6 f7
    refine ⟨f1, f2, by rw [f3]; rfl, ?_, f5, f6, by simpa using f7⟩
    simpa using f4

/-! ## digit runs -/

theorem digitVal_eq_valid (x r : Nat) : Binary.digitVal x r = charToValidDigit x r := rfl

theorem charToDigit_some {x r d : Nat} (h : charToDigit x r = some d) : Binary.digitVal x r = d ∧ d < r := by
  unfold charToDigit at h
  dsimp only at h
  split at h
  · rename_i hlt
    injection h with h
    rw [digitVal_eq_valid]
    exact ⟨h, by rw [← h]; exact hlt⟩
  · cases h

theorem charToDigit_48 {r : Nat} (hr : 0 < r) : charToDigit 48 r = some 0 := by
  unfold charToDigit charToValidDigit
  split <;> simp [hr]

theorem dp_cons_some {x r d : Nat} (xs : List Nat) (h : charToDigit x r = some d) :
    digitsPrefix r (x :: xs) = d :: digitsPrefix r xs := by
  rw [digitsPrefix]; simp only [h]
theorem dp_cons_none {x r : Nat} (xs : List Nat) (h : charToDigit x r = none) : digitsPrefix r (x :: xs) = [] := by
  rw [digitsPrefix]; simp only [h]
theorem dp_nil (r : Nat) : digitsPrefix r [] = [] := by rw [digitsPrefix]
theorem zp_cons_48 (xs : List Nat) : zerosPrefix (48 :: xs) = zerosPrefix xs + 1 := by rw [zerosPrefix]; simp
theorem zp_cons_ne {x : Nat} (xs : List Nat) (h : x ≠ 48) : zerosPrefix (x :: xs) = 0 := by rw [zerosPrefix]; simp [h]
theorem zp_nil : zerosPrefix [] = 0 := by rw [zerosPrefix]

/-- the bytes of a digit run: their digit values are the run, they are valid digits, and re-reading them gives the
same run -/
theorem run_slice (r : Nat) : ∀ (l : List Nat),
    (l.take (digitsPrefix r l).length).length = (digitsPrefix r l).length ∧
    dv r (l.take (digitsPrefix r l).length) = digitsPrefix r l ∧
    ValidDigits r (l.take (digitsPrefix r l).length) ∧
    digitsPrefix r (l.take (digitsPrefix r l).length) = digitsPrefix r l
  | [] => by simp [dp_nil, dv, ValidDigits]
  | x :: xs => by
    cases hx : charToDigit x r with
    | none => rw [dp_cons_none xs hx]; simp [dv, ValidDigits, dp_nil]
    | some d =>
      obtain ⟨i1, i2, i3, i4⟩ := run_slice r xs
      obtain ⟨e1, e2⟩ := charToDigit_some hx
      rw [dp_cons_some xs hx]
      simp only [List.length_cons, List.take_succ_cons]
      refine ⟨by rw [i1], ?_, ?_, ?_⟩
      · simp only [dv, List.map_cons, e1]
        unfold dv at i2; rw [i2]
      · intro c hc
        rcases List.mem_cons.mp hc with h | h
        · rw [h, e1]; exact e2
        · exact i3 c h
      · rw [dp_cons_some _ hx, i4]

theorem digitsPrefix_lt (r : Nat) : ∀ (l : List Nat), ∀ d ∈ digitsPrefix r l, d < r
  | [], d, h => by simp [dp_nil] at h
  | x :: xs, d, h => by
    cases hx : charToDigit x r with
    | none => rw [dp_cons_none xs hx] at h; simp at h
    | some d' =>
      rw [dp_cons_some xs hx] at h
      simp only [List.mem_cons] at h
      rcases h with h | h
      · rw [h]; exact (charToDigit_some hx).2
      · exact digitsPrefix_lt r xs d h

/-- leading `'0'` bytes are leading zero digits of the run -/
theorem digitsPrefix_zeros {r : Nat} (hr : 0 < r) : ∀ (l : List Nat),
    digitsPrefix r l = List.replicate (zerosPrefix l) 0 ++ digitsPrefix r (l.drop (zerosPrefix l))
  | [] => by simp [dp_nil, zp_nil]
  | x :: xs => by
    by_cases hx : x = 48
    · subst hx
      have ih := digitsPrefix_zeros hr xs
      rw [zp_cons_48, List.replicate_succ, List.drop_succ_cons, List.cons_append, ← ih,
        dp_cons_some xs (charToDigit_48 hr)]
    · rw [zp_cons_ne xs hx]; simp

theorem zerosPrefix_le_run {r : Nat} (hr : 0 < r) (l : List Nat) : zerosPrefix l ≤ (digitsPrefix r l).length := by
  rw [digitsPrefix_zeros hr l, List.length_append, List.length_replicate]; omega

theorem skipZeros_eq_drop : ∀ (l : List Nat), Binary.skipZeros l = l.drop (zerosPrefix l)
  | [] => by simp [Binary.skipZeros, zp_nil]
  | x :: xs => by
    unfold Binary.skipZeros
    rw [List.dropWhile_cons]
    by_cases hx : x = 48
    · subst hx
      rw [zp_cons_48]
      simp only [decide_true, if_true, List.drop_succ_cons]
      have := skipZeros_eq_drop xs
      unfold Binary.skipZeros at this
      exact this
    · rw [zp_cons_ne xs hx]; simp [hx]

theorem zerosPrefix_take : ∀ (l : List Nat) (n : Nat), zerosPrefix l ≤ n → zerosPrefix (l.take n) = zerosPrefix l
  | [], n, _ => by simp
  | x :: xs, n, h => by
    by_cases hx : x = 48
    · subst hx
      rw [zp_cons_48] at h
      obtain ⟨m, rfl⟩ : ∃ m, n = m + 1 := ⟨n - 1, by omega⟩
      rw [List.take_succ_cons, zp_cons_48, zp_cons_48, zerosPrefix_take xs m (by omega)]
    · rw [zp_cons_ne xs hx]
      cases n with
      | zero => simp [zp_nil]
      | succ m => rw [List.take_succ_cons, zp_cons_ne _ hx]

/-- the byte at the end of the leading zeros is not `'0'` -/
theorem zerosPrefix_drop_self : ∀ (l : List Nat), zerosPrefix (l.drop (zerosPrefix l)) = 0
  | [] => by simp [zp_nil]
  | x :: xs => by
    by_cases hx : x = 48
    · subst hx
      rw [zp_cons_48, List.drop_succ_cons]
      exact zerosPrefix_drop_self xs
    · rw [zp_cons_ne xs hx, List.drop_zero, zp_cons_ne xs hx]

/-- the byte just after a digit run is not a digit -/
theorem after_run (r : Nat) : ∀ (l : List Nat) (x : Nat),
    (l.drop (digitsPrefix r l).length).head? = some x → charToDigit x r = none
  | [], x, h => by simp [dp_nil] at h
  | y :: ys, x, h => by
    cases hy : charToDigit y r with
    | none =>
      rw [dp_cons_none ys hy] at h
      simp only [List.length_nil, List.drop_zero, List.head?_cons, Option.some.injEq] at h
      rw [← h]; exact hy
    | some d =>
      rw [dp_cons_some ys hy] at h
      simp only [List.length_cons, List.drop_succ_cons] at h
      exact after_run r ys x h

/-- a byte inside a digit run is a digit -/
theorem in_run (r : Nat) : ∀ (l : List Nat) (i : Nat) (x : Nat), i < (digitsPrefix r l).length → l[i]? = some x →
    (charToDigit x r).isSome
  | [], i, x, h, _ => by simp [dp_nil] at h
  | y :: ys, i, x, h, hx => by
    cases hy : charToDigit y r with
    | none => rw [dp_cons_none ys hy] at h; simp at h
    | some d =>
      rw [dp_cons_some ys hy] at h
      cases i with
      | zero => simp at hx; rw [← hx, hy]; rfl
      | succ j =>
        simp only [List.length_cons] at h
        simp only [List.getElem?_cons_succ] at hx
        exact in_run r ys j x (by omega) hx

/-! ## from the closed form to `NumberExactAt`, `PlainSlices` and the digit count -/

theorem u64Step_decimal (feats : Features) : u64Step feats 10 = 19 := by
  unfold u64Step
  cases feats.radix <;> cases feats.powerOfTwo <;> rfl

/-- `sliceDigits` of a separator-free slice is its digit run -/
theorem sliceDigits_run (c : Cfg) (hS : RelClass c) (k : Comp) (l : List Nat) (hn : NoSep c l) :
    sliceDigits c k l = digitsPrefix c.mantissaRadix l := by
  unfold sliceDigits
  have hn' : NoSep { c with debug := false } (Bytes.new l).slc := hn
  rw [parseDigits_nosep { c with debug := false } k c.mantissaRadix rfl (hS.reach k) (Bytes.new l) hn']
  simp [Bytes.new]

/-- the facts about one accepted untruncated decimal `Number` -/
theorem number_exact_of_parse (c : Cfg) (hS : RelClass c) (hpre : c.basePrefix = 0) (hr : c.mantissaRadix = 10)
    (hb : c.exponentBase = 10) (hre : c.exponentRadix ≤ 255)
    (isPartial : Bool) (o : POpts) (hdp : charToDigit o.dp 10 = none) (b : Bytes) (neg fv : Bool)
    (hn : NoSep c b.slc) (h256 : ∀ x ∈ b.slc, x < 256) (hlen : b.slc.length < 2 ^ 60) (n : Number) (cnt : Nat)
    (h : parseNumber c isPartial o b neg fv = .ok (n, cnt)) (hmany : n.manyDigits = false) :
    NumberExactAt c n ∧ PlainSlices c n ∧ (sigBytes n.integer n.fraction).length ≤ 19 := by
  obtain ⟨F1, F2, F3, F4, F5, F6, F7⟩ := parseNumber_facts c hS hpre (by rw [hr, hb]) hre isPartial o b neg fv hn n cnt h hmany
  rw [hr] at F1 F3 F4 F7
  rw [u64Step_decimal] at F7
  unfold fracRun hasPoint intEnd at *
  rw [hr] at F2 F3 F4 F7
  have h40 : (2 : Int) ^ 40 = 1099511627776 := by norm_num
  have h60 : (2 : Nat) ^ 60 = 1152921504606846976 := by norm_num
  have h63 : (2 : Int) ^ 63 = 9223372036854775808 := by norm_num
  generalize hs : b.slc = s at *
  generalize hrest : s.drop b.index = rest at *
  generalize hdsI : digitsPrefix 10 rest = dsI at *
  -- the integer slice
  obtain ⟨ri1, ri2, ri3, ri4⟩ := run_slice 10 rest
  rw [hdsI] at ri1 ri2 ri3 ri4
  have hzi : zerosPrefix rest ≤ dsI.length := by rw [← hdsI]; exact zerosPrefix_le_run (by decide) rest
  generalize hzI : zerosPrefix rest = zi at *
  have hmemrest : ∀ x ∈ rest, x < 256 := fun x hx => h256 x (by rw [← hrest] at hx; exact List.mem_of_mem_drop hx)
  -- the fraction slice, in both cases
  obtain ⟨fbytes, dsF, hfrac, hnF, hdvF, hvalF, hF3, hmemF, hsig, hpl⟩ :
      ∃ (fbytes : List Nat) (dsF : List Nat),
        n.fraction.getD [] = fbytes ∧ fbytes.length = dsF.length ∧ dv 10 fbytes = dsF ∧ ValidDigits 10 fbytes ∧
        n.mantissa = foldMantissa 10 (foldMantissa 10 0 dsI) dsF ∧ (∀ x ∈ fbytes, x < 256) ∧
        (sigBytes n.integer n.fraction).length ≤ 19 ∧
        ((n.exponent = -(dsF.length : Int) + n.explicitExp ∨ (dsI.length + dsF.length = 0 ∧ n.exponent = 0)) ∧
          (numberLit c n).fracDigits = dsF ∧ (∀ fr, n.fraction = some fr → fr = fbytes)) := by
    by_cases hpt : (s[b.index + dsI.length]? == some o.dp) = true
    · simp only [hpt, if_true] at F2 F3 F4 F7
      generalize hk : b.index + dsI.length + 1 = k at *
      obtain ⟨rf1, rf2, rf3, rf4⟩ := run_slice 10 (s.drop k)
      generalize hdsF : digitsPrefix 10 (s.drop k) = dsF at *
      have hmemF : ∀ x ∈ (s.drop k).take dsF.length, x < 256 := fun x hx =>
        h256 x (List.mem_of_mem_drop (List.mem_of_mem_take hx))
      refine ⟨(s.drop k).take dsF.length, dsF, (by rw [F2]; rfl), rf1, rf2, rf3, F3, hmemF, ?_, F4, ?_, ?_⟩
      · -- the count of significant digits
        rw [F1, F2]
        unfold sigBytes
        simp only
        rw [skipZeros_eq_drop, zerosPrefix_take rest dsI.length (by omega), hzI]
        by_cases hall : zi = dsI.length
        · -- integer digits all zero: the fraction's leading zeros are skipped too
          have hnil : List.drop zi (List.take dsI.length rest) = [] := by
            apply List.eq_nil_of_length_eq_zero
            rw [List.length_drop, ri1]; omega
          rw [if_pos hnil, skipZeros_eq_drop, List.length_drop, rf1]
          have hzf : zerosPrefix (s.drop k) ≤ dsF.length := by rw [← hdsF]; exact zerosPrefix_le_run (by decide) _
          rw [zerosPrefix_take _ _ hzf]
          rcases F7 with h7 | h7
          · omega
          · have hi1 : (s[b.index + zi]? == some o.dp) = true := by rw [hall]; exact hpt
            rw [if_pos hi1, hall, hk] at h7
            omega
        · have hne : List.drop zi (List.take dsI.length rest) ≠ [] := by
            intro h0
            have := congrArg List.length h0
            rw [List.length_drop, ri1] at this
            simp at this; omega
          rw [if_neg hne, List.length_append, List.length_drop, ri1, rf1]
          rcases F7 with h7 | h7
          · omega
          · -- the byte after the leading zeros is a non-zero digit, not the decimal point
            have hget : s[b.index + zi]? = rest[zi]? := by rw [← hrest, List.getElem?_drop]
            have hnotdp : ¬ (s[b.index + zi]? == some o.dp) = true := by
              intro hc
              rw [hget] at hc
              have hx : rest[zi]? = some o.dp := by simpa using hc
              have := in_run 10 rest zi o.dp (by rw [hdsI]; omega) hx
              rw [hdp] at this; cases this
            rw [if_neg hnotdp] at h7
            have hz0 : zerosPrefix (s.drop (b.index + zi)) = 0 := by
              have : s.drop (b.index + zi) = rest.drop zi := by rw [← hrest, List.drop_drop]
              rw [this, ← hzI]; exact zerosPrefix_drop_self rest
            rw [hz0] at h7
            omega
      · show (match n.fraction with | some fd => sliceDigits c .fraction fd | none => []) = dsF
        rw [F2]
        simp only
        rw [sliceDigits_run c hS .fraction _ ((hn.drop _).take _), hr, rf4]
      · intro fr hfr; rw [F2] at hfr; injection hfr with hfr; exact hfr.symm
    · simp only [hpt, Bool.false_eq_true, if_false, List.length_nil, Nat.add_zero] at F2 F3 F4 F7
      refine ⟨[], [], (by rw [F2]; rfl), rfl, rfl, (by intro x hx; cases hx), (by simpa [foldMantissa] using F3),
        (by intro x hx; cases hx), ?_, (by simpa using F4), ?_, ?_⟩
      · rw [F1, F2]
        unfold sigBytes
        simp only
        rw [skipZeros_eq_drop, zerosPrefix_take rest dsI.length (by omega), hzI, List.length_drop, ri1]
        rcases F7 with h7 | h7
        · omega
        · by_cases hall : zi = dsI.length
          · omega
          · have hget : s[b.index + zi]? = rest[zi]? := by rw [← hrest, List.getElem?_drop]
            have hnotdp : ¬ (s[b.index + zi]? == some o.dp) = true := by
              intro hc
              rw [hget] at hc
              have hx : rest[zi]? = some o.dp := by simpa using hc
              have := in_run 10 rest zi o.dp (by rw [hdsI]; omega) hx
              rw [hdp] at this; cases this
            rw [if_neg hnotdp] at h7
            have hz0 : zerosPrefix (s.drop (b.index + zi)) = 0 := by
              have : s.drop (b.index + zi) = rest.drop zi := by rw [← hrest, List.drop_drop]
              rw [this, ← hzI]; exact zerosPrefix_drop_self rest
            rw [hz0] at h7
            omega
      · show (match n.fraction with | some fd => sliceDigits c .fraction fd | none => []) = []
        rw [F2]
      · intro fr hfr; rw [F2] at hfr; cases hfr
  obtain ⟨hexp, hfd, hfrsome⟩ := hpl
  have hint : (numberLit c n).intDigits = dsI := by
    show sliceDigits c .integer n.integer = dsI
    rw [F1, sliceDigits_run c hS .integer _ (by rw [← hrest]; exact (hn.drop _).take _), hr, ri4]
  -- PlainSlices
  have hps : PlainSlices c n := by
    refine ⟨by rw [hr, F1]; exact ri3, ?_, ?_, ?_, by rw [hint, hr, F1, ri2], by rw [hfd, hr, hfrac, hdvF]⟩
    · intro fr hfr; rw [hr, hfrsome fr hfr]; exact hvalF
    · intro x hx; rw [F1] at hx; exact hmemrest x (List.mem_of_mem_take hx)
    · intro fr hfr x hx; rw [hfrsome fr hfr] at hx; exact hmemF x hx
  refine ⟨?_, hps, hsig⟩
  -- NumberExactAt
  obtain ⟨z, hz⟩ := sig_decomp n.integer n.fraction
  have hvs : ValidDigits 10 (sigBytes n.integer n.fraction) := by
    have := valid_sigBytes hps.validInt hps.validFrac
    rwa [hr] at this
  have hD : ofDigits 10 (dsI ++ dsF) = ofDigits 10 (dv 10 (sigBytes n.integer n.fraction)) := by
    have : dsI ++ dsF = dv 10 (n.integer ++ n.fraction.getD []) := by
      rw [hfrac, F1]; unfold dv; rw [List.map_append]; unfold dv at ri2 hdvF; rw [ri2, hdvF]
    rw [this, hz, ofDigits_dv_zeros]
  have hDlt : ofDigits 10 (dsI ++ dsF) < 10 ^ 19 := by
    rw [hD]
    exact Nat.lt_of_lt_of_le (ofDigits_dv_lt hvs) (Nat.pow_le_pow_right (by decide) hsig)
  have hmant : n.mantissa = ofDigits 10 (dsI ++ dsF) := by
    rw [hF3, ← foldMantissa_append]
    by_cases hnil : dsI ++ dsF = []
    · rw [hnil]; rfl
    · rw [foldMantissa_eq 10 _ 0 hnil, Nat.zero_mul, Nat.zero_add]
      have : horner 10 (dsI ++ dsF) 0 = ofDigits 10 (dsI ++ dsF) := rfl
      rw [this]
      exact Nat.mod_eq_of_lt (Nat.lt_trans hDlt (by unfold pow2_64; decide))
  have hnFlen : dsF.length < 2 ^ 60 := by
    rw [← hnF, ← hfrac]
    cases hfr : n.fraction with
    | none => simp
    | some fr =>
      have := hfrsome fr hfr
      simp only [Option.getD_some]
      by_cases hpt : (s[b.index + dsI.length]? == some o.dp) = true
      · simp only [hpt, if_true] at F2
        rw [hfr] at F2; injection F2 with F2
        rw [F2, List.length_take, List.length_drop]; omega
      · simp only [hpt, Bool.false_eq_true, if_false] at F2
        rw [hfr] at F2; cases F2
  refine ⟨by rw [hmant]; exact Nat.lt_trans hDlt (by decide), ?_, ?_⟩
  · -- `IsI64 exponent`
    unfold IsI64
    rcases hexp with he | ⟨_, he⟩
    · rw [he]; constructor <;> omega
    · rw [he]; constructor <;> omega
  · -- the value
    rw [hr, hb, powFrac_eq, litFrac_eq]
    unfold RatEq
    simp only [hint, hfd]
    have hE : (numberLit c n).exp = n.explicitExp := rfl
    rw [hE, hmant]
    rcases hexp with he | ⟨h0, he⟩
    · rw [he]
      have e1 : (-(dsF.length : Int) + n.explicitExp).toNat + (dsF.length + (-n.explicitExp).toNat) =
          n.explicitExp.toNat + (-(-(dsF.length : Int) + n.explicitExp)).toNat := by omega
      calc ofDigits 10 (dsI ++ dsF) * 10 ^ (-(dsF.length : Int) + n.explicitExp).toNat *
            (10 ^ dsF.length * 10 ^ (-n.explicitExp).toNat)
          = ofDigits 10 (dsI ++ dsF) *
              10 ^ ((-(dsF.length : Int) + n.explicitExp).toNat + (dsF.length + (-n.explicitExp).toNat)) := by
            rw [Nat.pow_add, Nat.pow_add]; ring
        _ = ofDigits 10 (dsI ++ dsF) * 10 ^ (n.explicitExp.toNat + (-(-(dsF.length : Int) + n.explicitExp)).toNat) := by
            rw [e1]
        _ = ofDigits 10 (dsI ++ dsF) * 10 ^ n.explicitExp.toNat * 10 ^ (-(-(dsF.length : Int) + n.explicitExp)).toNat := by
            rw [Nat.pow_add]; ring
    · have hnil : dsI ++ dsF = [] := List.eq_nil_of_length_eq_zero (by rw [List.length_append]; exact h0)
      rw [hnil]
      simp [ofDigits]

/-! ## the API-level syntax layer -/

theorem parseSign_slc (c : Cfg) (hd : c.debug = false) (np rq : Bool) (ip ms : String) (b : Bytes) (r : Bool × Bytes)
    (h : parseSign c np rq ip ms b = .ok r) : r.2.slc = b.slc := by
  unfold parseSign at h
  split at h
  · split at h
    · simp only [step_release c hd, bind, Except.bind, pure, Except.pure, Except.ok.injEq] at h
      rw [← h]
    · cases h
  · simp only [step_release c hd, bind, Except.bind, pure, Except.pure, Except.ok.injEq] at h
    rw [← h]
  · split at h
    · cases h
    · simp only [pure, Except.pure, Except.ok.injEq] at h
      rw [← h]

theorem isConsumed_same (c : Cfg) (hS : RelClass c) (b : Bytes) (hn : NoSep c b.slc) (r : Bool × Bytes)
    (h : isConsumed c .integer b = .ok r) : r.2 = b := by
  unfold isConsumed at h
  split at h
  · simp only [Except.ok.injEq] at h; rw [← h]
  · rw [peek_nosep c .integer b hn (hS.reach _)] at h
    simp only [bind, Except.bind, pure, Except.pure, Except.ok.injEq] at h
    rw [← h]

/-- the class of formats `NumberExact` is about gives the closed-form class of the phase lemmas -/
theorem relClass_of (c : Cfg) (hd : c.debug = false) (hclass : c.feats.format = false ∨ SepPrefixFree c.fmt)
    (hr : c.mantissaRadix = 10) : RelClass c ∧ c.basePrefix = 0 ∧ c.digitSeparator = 0 ∧ c.exponentRadix ≤ 255 := by
  have hs := std_of c hd hclass (by intro _; omega)
  exact ⟨⟨hd, fun k => by rw [hs.nosep.skip k]; decide, by intro _; omega⟩, hs.noprefix, hs.nosep.sep0, hs.expRadix⟩

theorem syntax_to_parse (c : Cfg) (hd : c.debug = false)
    (hclass : c.feats.format = false ∨ SepPrefixFree c.fmt) (hr : c.mantissaRadix = 10)
    (o : POpts) (isPartial : Bool) (s : List Nat) (fv : Bool) (n : Number) (cnt : Nat)
    (hp : parseFloatSyntax c o isPartial s fv = .ok (.number n cnt)) :
    ∃ (p : Bool) (b : Bytes) (neg : Bool) (cnt' : Nat), b.slc = s ∧ parseNumber c p o b neg fv = .ok (n, cnt') := by
  obtain ⟨hS, hpre, hsep, hre⟩ := relClass_of c hd hclass hr
  have hns : ∀ l, NoSep c l := noSep_of_sep_zero c hsep
  unfold parseFloatSyntax at hp
  simp only [bind, Except.bind] at hp
  cases hsg : parseMantissaSign c (Bytes.new s) with
  | error e => rw [hsg] at hp; cases hp
  | ok r1 =>
    rw [hsg] at hp
    simp only at hp
    have hslc1 : r1.2.slc = s := parseSign_slc c hd _ _ _ _ _ r1 hsg
    cases hic : isConsumed c .integer r1.2 with
    | error e => rw [hic] at hp; cases hp
    | ok r2 =>
      rw [hic] at hp
      simp only at hp
      have hsame := isConsumed_same c hS r1.2 (hns _) r2 hic
      have hslc2 : r2.2.slc = s := by rw [hsame, hslc1]
      have key : ∀ p cnt', parseNumber c p o r2.2 r1.1 fv = .ok (n, cnt') →
          ∃ (p : Bool) (b : Bytes) (neg : Bool) (cnt' : Nat), b.slc = s ∧ parseNumber c p o b neg fv = .ok (n, cnt') :=
        fun p cnt' hpn => ⟨p, r2.2, r1.1, cnt', hslc2, hpn⟩
      split at hp
      · split at hp <;> cases hp
      · split at hp
        · -- partial parser
          cases hpn : parseNumber c true o r2.2 r1.1 fv with
          | ok v =>
            rw [hpn] at hp
            simp only [pure, Except.pure, Except.ok.injEq, Parsed.number.injEq] at hp
            exact key true v.2 (by rw [hpn, ← hp.1])
          | error e =>
            rw [hpn] at hp
            cases e with
            | err k i =>
              simp only at hp
              cases hsp : parsePositiveSpecial c o r2.2 with
              | error e2 => rw [hsp] at hp; cases hp
              | ok sp =>
                rw [hsp] at hp
                cases sp with
                | none => cases hp
                | some v => simp [pure, Except.pure] at hp
            | panic t => cases hp
            | fault t => cases hp
        · -- complete parser
          cases hpc : parseCompleteNumber c o r2.2 r1.1 fv with
          | ok v =>
            rw [hpc] at hp
            simp only [pure, Except.pure, Except.ok.injEq, Parsed.number.injEq] at hp
            unfold parseCompleteNumber at hpc
            simp only [bind, Except.bind] at hpc
            cases hpn : parseNumber c false o r2.2 r1.1 fv with
            | error e => rw [hpn] at hpc; cases hpc
            | ok w =>
              rw [hpn] at hpc
              simp only at hpc
              split at hpc
              · simp only [pure, Except.pure, Except.ok.injEq] at hpc
                exact key false w.2 (by rw [hpn, ← hp.1, ← hpc])
              · cases hpc
          | error e =>
            rw [hpc] at hp
            cases e with
            | err k i =>
              simp only at hp
              cases hsp : parseSpecialComplete c o r2.2 with
              | error e2 => rw [hsp] at hp; cases hp
              | ok sp =>
                rw [hsp] at hp
                cases sp with
                | none => cases hp
                | some v => simp [pure, Except.pure] at hp
            | panic t => cases hp
            | fault t => cases hp

/-! ## truncated mantissas (`many_digits = true`) -/

/-- `parse_u64_digits` digit by digit: `min step len` bytes folded into the mantissa -/
theorem u64Spec_value (r : Nat) : ∀ (l : List Nat) (m st : Nat),
    (u64Spec r l m st).2.1 = foldMantissa r m (dv r (l.take (min st l.length)))
  | [], m, st => by simp [u64Spec, foldMantissa, dv]
  | x :: xs, m, st => by
    by_cases hst : st > 0
    · obtain ⟨t, rfl⟩ : ∃ t, st = t + 1 := ⟨st - 1, by omega⟩
      have ih := u64Spec_value r xs ((m * r + charToValidDigit x r) % pow2_64) t
      simp only [u64Spec, hst, if_true, Nat.add_sub_cancel, List.length_cons]
      rw [ih, Nat.add_min_add_right, List.take_succ_cons]
      simp only [dv, List.map_cons, foldMantissa, List.foldl_cons, digitVal_eq_valid]
    · have : st = 0 := by omega
      subst this
      simp [u64Spec, foldMantissa, dv]

/-- the tail of `parse_number` on an accepted **truncated** input: the result is `manyCore`'s, with a positive count of
significant digits beyond the step -/
theorem tailOf_many (c : Cfg) (hS : RelClass c) (hre : c.exponentRadix ≤ 255) (isPartial : Bool) (o : POpts) (neg : Bool)
    (ip : IntPart) (fp : FracPart) (hn : NoSep c ip.start.slc) (hids : NoSep c ip.integerDigits)
    (hfd : ∀ fd, fp.fraction = some fd → NoSep c fd) (n : Number) (cnt : Nat)
    (h : tailOf c isPartial o neg ip fp = .ok (n, cnt)) (hmany : n.manyDigits = true) :
    ∃ (explicit ex0 : Int) (endIdx : Nat),
      -(2 ^ 40 : Int) ≤ explicit ∧ explicit ≤ 2 ^ 40 ∧
      0 < ip.nDigits + fp.nAfterDot - u64Step c.feats c.mantissaRadix - zerosPrefix (ip.start.slc.drop ip.start.index) -
        zerosPrefix (ip.start.slc.drop
          (if (ip.start.slc[ip.start.index + zerosPrefix (ip.start.slc.drop ip.start.index)]? == some o.dp) = true
            then ip.start.index + zerosPrefix (ip.start.slc.drop ip.start.index) + 1
            else ip.start.index + zerosPrefix (ip.start.slc.drop ip.start.index))) ∧
      manyCore c.mantissaRadix (scaleVal c) ip.integerDigits ip.nDigits fp.fraction fp.mantissa explicit neg
        (u64Step c.feats c.mantissaRadix) ex0 endIdx (c.feats.format && !c.bytesContiguous)
        (ip.nDigits + fp.nAfterDot - u64Step c.feats c.mantissaRadix - zerosPrefix (ip.start.slc.drop ip.start.index) -
          zerosPrefix (ip.start.slc.drop
            (if (ip.start.slc[ip.start.index + zerosPrefix (ip.start.slc.drop ip.start.index)]? == some o.dp) = true
              then ip.start.index + zerosPrefix (ip.start.slc.drop ip.start.index) + 1
              else ip.start.index + zerosPrefix (ip.start.slc.drop ip.start.index)))) = .ok (n, cnt) := by
  unfold tailOf at h
  simp only [bind, Except.bind] at h
  split at h
  · cases hpk : peek c .integer ip.start with
    | error err => rw [hpk] at h; cases h
    | ok x =>
      rw [hpk] at h
      simp only at h
      split at h <;> cases h
  · cases hep : exponentPhase c (fp.byte.firstIs o.exp (c.caseSensitiveExponent && c.feats.format)) fp.byte fp.fraction
        fp.exponent with
    | error err => rw [hep] at h; cases h
    | ok ep =>
      rw [hep] at h
      simp only at h
      obtain ⟨x1, x2, x3⟩ := exponentPhase_facts c _ fp.byte fp.fraction fp.exponent ep hep hre
      cases hsf : suffixPhase c ep.byte with
      | error err => rw [hsf] at h; cases h
      | ok bs =>
        rw [hsf] at h
        simp only at h
        by_cases hle : ip.nDigits + fp.nAfterDot ≤ u64Step c.feats c.mantissaRadix
        · rw [if_pos hle] at h
          simp only [pure, Except.pure, Except.ok.injEq, Prod.mk.injEq] at h
          rw [← h.1] at hmany; cases hmany
        · rw [if_neg hle, manyDigits_rel c hS ip.start.slc hn o neg ip fp ep _ _ _ _ rfl hids hfd] at h
          unfold manyClosed at h
          dsimp only at h
          by_cases hpos : 0 < ip.nDigits + fp.nAfterDot - u64Step c.feats c.mantissaRadix -
              zerosPrefix (ip.start.slc.drop ip.start.index) -
              zerosPrefix (ip.start.slc.drop
                (if (ip.start.slc[ip.start.index + zerosPrefix (ip.start.slc.drop ip.start.index)]? == some o.dp) = true
                  then ip.start.index + zerosPrefix (ip.start.slc.drop ip.start.index) + 1
                  else ip.start.index + zerosPrefix (ip.start.slc.drop ip.start.index)))
          · exact ⟨ep.explicit, _, bs.index, x2, x3, hpos, h⟩
          · rw [manyCore_zero _ _ _ _ _ _ _ _ _ _ _ _ _ (by omega)] at h
            simp only [Except.ok.injEq, Prod.mk.injEq] at h
            rw [← h.1] at hmany; cases hmany

/-- what `manyCore` returns when the count is positive and the byte iterator is contiguous -/
theorem manyCore_facts (r : Nat) (scale : Int → Int) (ids : List Nat) (ipN : Nat) (fraction : Option (List Nat))
    (fpMant : Nat) (explicit : Int) (neg : Bool) (step : Nat) (ex0 : Int) (endIdx : Nat) (nd : Nat) (hnd : nd > 0)
    (n : Number) (cnt : Nat)
    (h : manyCore r scale ids ipN fraction fpMant explicit neg step ex0 endIdx false nd = .ok (n, cnt)) :
    n.integer = ids ∧ n.fraction = fraction ∧ n.explicitExp = explicit ∧
    (((u64Spec r (ids.drop (zerosPrefix ids)) 0 step).2.2 = 0 ∧
        n.mantissa = (u64Spec r (ids.drop (zerosPrefix ids)) 0 step).2.1 ∧
        n.exponent = scale ((ipN : Int) - ((zerosPrefix ids + (u64Spec r (ids.drop (zerosPrefix ids)) 0 step).1 : Nat) : Int)) + explicit) ∨
     ((u64Spec r (ids.drop (zerosPrefix ids)) 0 step).2.2 ≠ 0 ∧ ∃ fd, fraction = some fd ∧
        n.mantissa = (u64Spec r (fd.drop (if (u64Spec r (ids.drop (zerosPrefix ids)) 0 step).2.1 = 0 then zerosPrefix fd else 0))
          (u64Spec r (ids.drop (zerosPrefix ids)) 0 step).2.1 (u64Spec r (ids.drop (zerosPrefix ids)) 0 step).2.2).2.1 ∧
        n.exponent = scale (-(((if (u64Spec r (ids.drop (zerosPrefix ids)) 0 step).2.1 = 0 then zerosPrefix fd else 0) +
          (u64Spec r (fd.drop (if (u64Spec r (ids.drop (zerosPrefix ids)) 0 step).2.1 = 0 then zerosPrefix fd else 0))
            (u64Spec r (ids.drop (zerosPrefix ids)) 0 step).2.1 (u64Spec r (ids.drop (zerosPrefix ids)) 0 step).2.2).1 : Nat) : Int)) + explicit)) := by
  unfold manyCore at h
  rw [if_pos hnd] at h
  dsimp only at h
  by_cases hz : (u64Spec r (ids.drop (zerosPrefix ids)) 0 step).2.2 = 0
  · simp only [hz, decide_true, Bool.true_or, if_true, Except.ok.injEq, Prod.mk.injEq] at h
    obtain ⟨rfl, _⟩ := h
    exact ⟨rfl, rfl, rfl, Or.inl ⟨hz, rfl, rfl⟩⟩
  · simp only [hz, decide_false, Bool.false_and, Bool.or_false, Bool.false_eq_true, if_false] at h
    cases hfr : fraction with
    | none => rw [hfr] at h; cases h
    | some fd =>
      rw [hfr] at h
      simp only [Except.ok.injEq, Prod.mk.injEq] at h
      obtain ⟨rfl, _⟩ := h
      exact ⟨rfl, rfl, rfl, Or.inr ⟨hz, fd, rfl, rfl, rfl⟩⟩

/-- an accepted `parse_number`, split after the integer and fraction components, with their closed forms -/
theorem parseNumber_split (c : Cfg) (hS : RelClass c) (hpre : c.basePrefix = 0)
    (isPartial : Bool) (o : POpts) (b : Bytes) (neg fv : Bool) (hn : NoSep c b.slc) (n : Number) (cnt : Nat)
    (h : parseNumber c isPartial o b neg fv = .ok (n, cnt)) :
    ∃ ip fp, tailOf c isPartial o neg ip fp = .ok (n, cnt) ∧ ip.start = b ∧
      ip.nDigits = (digitsPrefix c.mantissaRadix (b.slc.drop b.index)).length ∧
      ip.integerDigits = (b.slc.drop b.index).take (digitsPrefix c.mantissaRadix (b.slc.drop b.index)).length ∧
      fp.nAfterDot = (fracRun o c b).length ∧
      fp.fraction = (if hasPoint o c b then some ((b.slc.drop (intEnd c b + 1)).take (fracRun o c b).length) else none) ∧
      fp.mantissa = foldMantissa c.mantissaRadix (foldMantissa c.mantissaRadix 0
        (digitsPrefix c.mantissaRadix (b.slc.drop b.index))) (fracRun o c b) ∧
      fp.exponent = scaleVal c (-((fracRun o c b).length : Int)) := by
  rw [parseNumber_tail c hS.debug] at h
  simp only [bind, Except.bind] at h
  rw [integerPhase_rel c hS b b false hn (LexVerif.Proof.Grammar.prefixPhase_none hpre b)] at h
  unfold intClosed at h
  dsimp only at h
  unfold fracRun hasPoint intEnd
  generalize hdsI : digitsPrefix c.mantissaRadix (b.slc.drop b.index) = dsI at *
  by_cases e1 : (c.feats.format && c.requiredIntegerDigits && decide (dsI.length = 0)) = true
  · rw [if_pos e1] at h; cases h
  rw [if_neg e1] at h
  by_cases e2 : (c.feats.format && !false && c.noFloatLeadingZeros &&
      decide ((List.take dsI.length (List.drop b.index b.slc)).length > 1) &&
      decide ((List.take dsI.length (List.drop b.index b.slc)).head? = some 48)) = true
  · rw [if_pos e2] at h; cases h
  rw [if_neg e2] at h
  simp only at h
  rw [fractionPhase_rel c hS o _ _ (by simpa using hn)] at h
  unfold fracClosed at h
  simp only [adv_slc, adv_index] at h
  have hfirst : (adv c Comp.integer dsI.length b).firstIsCased o.dp = (b.slc[b.index + dsI.length]? == some o.dp) := by
    simp [Bytes.firstIsCased, Bytes.first]
  rw [hfirst] at h
  by_cases hdot : (b.slc[b.index + dsI.length]? == some o.dp) = true
  · rw [if_pos hdot] at h
    simp only [hdot, if_true]
    generalize hdsF : digitsPrefix c.mantissaRadix (b.slc.drop (b.index + dsI.length + 1)) = dsF at *
    by_cases e3 : (c.feats.format && c.requiredFractionDigits && decide (dsF.length = 0)) = true
    · rw [if_pos e3] at h; cases h
    rw [if_neg e3] at h
    simp only at h
    exact ⟨_, _, h, rfl, rfl, rfl, rfl, rfl, rfl, rfl⟩
  · rw [if_neg hdot] at h
    simp only [hdot, Bool.false_eq_true, if_false]
    simp only at h
    refine ⟨_, _, h, rfl, rfl, rfl, rfl, rfl, rfl, ?_⟩
    simp [scaleVal]

/-- `manyClosed`'s second zero count, by cases on where the integer digits end -/
theorem zfTerm_cases (o : POpts) (hdp : charToDigit o.dp 10 = none) (s : List Nat) (i : Nat) :
    let rest := s.drop i
    let nI := (digitsPrefix 10 rest).length
    let zi := zerosPrefix rest
    let zf := zerosPrefix (s.drop (if (s[i + zi]? == some o.dp) = true then i + zi + 1 else i + zi))
    (zi < nI → zf = 0) ∧
    (zi = nI → (s[i + nI]? == some o.dp) = true → zf = zerosPrefix (s.drop (i + nI + 1))) ∧
    (zi = nI → ¬ (s[i + nI]? == some o.dp) = true → zf = 0) := by
  intro rest nI zi zf
  have hget : ∀ j, s[i + j]? = rest[j]? := fun j => by simp only [rest, List.getElem?_drop]
  have hdrop : ∀ j, s.drop (i + j) = rest.drop j := fun j => by simp only [rest, List.drop_drop]
  refine ⟨?_, ?_, ?_⟩
  · intro hlt
    have hnotdp : ¬ (s[i + zi]? == some o.dp) = true := by
      intro hc
      rw [hget] at hc
      have hx : rest[zi]? = some o.dp := by simpa using hc
      have := in_run 10 rest zi o.dp hlt hx
      rw [hdp] at this; cases this
    simp only [zf, if_neg hnotdp, hdrop]
    exact zerosPrefix_drop_self rest
  · intro he hpt
    simp only [zf, he, if_pos hpt]
  · intro he hpt
    simp only [zf, he, if_neg hpt, hdrop]
    -- the byte after the digit run is not a digit, so not `'0'`
    cases hh : (rest.drop nI) with
    | nil => exact zp_nil
    | cons x xs =>
      have := after_run 10 rest x (by simp only [nI] at hh; rw [hh]; rfl)
      have hx : x ≠ 48 := by
        intro h48; rw [h48, charToDigit_48 (by decide)] at this; cases this
      exact zp_cons_ne xs hx

theorem ofDigits_dv_take_drop (radix : Nat) (bs : List Nat) (k : Nat) :
    ofDigits radix (dv radix bs) =
      ofDigits radix (dv radix (bs.take k)) * radix ^ (bs.drop k).length + ofDigits radix (dv radix (bs.drop k)) := by
  conv => lhs; rw [← List.take_append_drop k bs]
  rw [ofDigits_dv_append]

theorem foldMantissa_small (ds : List Nat) (h : ofDigits 10 ds < 2 ^ 64) : foldMantissa 10 0 ds = ofDigits 10 ds := by
  by_cases hnil : ds = []
  · rw [hnil]; rfl
  · rw [foldMantissa_eq 10 _ 0 hnil, Nat.zero_mul, Nat.zero_add]
    have : horner 10 ds 0 = ofDigits 10 ds := rfl
    rw [this]
    exact Nat.mod_eq_of_lt (by unfold pow2_64; exact h)

/-- value of a non-empty prefix of a digit string whose first byte is a non-zero digit -/
theorem ofDigits_take_pos {bs : List Nat} {c0 : Nat} {cs : List Nat} (hbs : bs = c0 :: cs) (h48 : c0 ≠ 48)
    (hc : c0 < 256) (k : Nat) (hk : 0 < k) : 10 ^ ((bs.take k).length - 1) ≤ ofDigits 10 (dv 10 (bs.take k)) := by
  obtain ⟨k', rfl⟩ : ∃ k', k = k' + 1 := ⟨k - 1, by omega⟩
  rw [hbs, List.take_succ_cons]
  simp only [dv, List.map_cons, List.length_cons, Nat.add_sub_cancel]
  rw [ofDigits_cons, List.length_map]
  have hd := digitVal_ne_zero (radix := 10) hc h48
  have : 1 * 10 ^ (cs.take k').length ≤ Binary.digitVal c0 10 * 10 ^ (cs.take k').length :=
    Nat.mul_le_mul_right _ (by omega)
  omega

/-- **the truncated words**: whatever branch `manyCore` took, the `mantissa` is the value of the first 19 significant
digits and the `exponent` places them: `exponent = N − 19 + explicit − #fraction digits` (`N` significant digits) -/
theorem many_words (int : List Nat) (frac : Option (List Nat)) (E : Int) (mant : Nat) (expo : Int)
    (hvi : ValidDigits 10 int) (hvf : ∀ fr, frac = some fr → ValidDigits 10 fr)
    (h256i : ∀ x ∈ int, x < 256) (h256f : ∀ fr, frac = some fr → ∀ x ∈ fr, x < 256)
    (hN : 19 < (sigBytes int frac).length)
    (hcase :
      ((u64Spec 10 (int.drop (zerosPrefix int)) 0 19).2.2 = 0 ∧
        mant = (u64Spec 10 (int.drop (zerosPrefix int)) 0 19).2.1 ∧
        expo = ((int.length : Int) - ((zerosPrefix int + (u64Spec 10 (int.drop (zerosPrefix int)) 0 19).1 : Nat) : Int)) + E) ∨
      ((u64Spec 10 (int.drop (zerosPrefix int)) 0 19).2.2 ≠ 0 ∧ ∃ fd, frac = some fd ∧
        mant = (u64Spec 10 (fd.drop (if (u64Spec 10 (int.drop (zerosPrefix int)) 0 19).2.1 = 0 then zerosPrefix fd else 0))
          (u64Spec 10 (int.drop (zerosPrefix int)) 0 19).2.1 (u64Spec 10 (int.drop (zerosPrefix int)) 0 19).2.2).2.1 ∧
        expo = (-(((if (u64Spec 10 (int.drop (zerosPrefix int)) 0 19).2.1 = 0 then zerosPrefix fd else 0) +
          (u64Spec 10 (fd.drop (if (u64Spec 10 (int.drop (zerosPrefix int)) 0 19).2.1 = 0 then zerosPrefix fd else 0))
            (u64Spec 10 (int.drop (zerosPrefix int)) 0 19).2.1 (u64Spec 10 (int.drop (zerosPrefix int)) 0 19).2.2).1 : Nat) : Int)) + E)) :
    mant = ofDigits 10 (dv 10 ((sigBytes int frac).take 19)) ∧
    expo = ((sigBytes int frac).length : Int) - 19 + E - ((frac.getD []).length : Int) := by
  have hzle : zerosPrefix int ≤ int.length := by
    have := zerosPrefix_le_run (r := 10) (by decide) int
    exact Nat.le_trans this (digitsPrefix_length_le 10 int)
  generalize hz : zerosPrefix int = z at *
  generalize hA : int.drop z = A at *
  have hAlen : A.length = int.length - z := by rw [← hA, List.length_drop]
  have hvA : ValidDigits 10 A := by rw [← hA]; exact valid_drop hvi z
  have hskip : Binary.skipZeros int = A := by rw [skipZeros_eq_drop, hz, hA]
  obtain ⟨s1, s2⟩ := u64Spec_step 10 A 0 19
  have sv := u64Spec_value 10 A 0 19
  -- small values do not wrap
  have hsmall : ∀ l : List Nat, ValidDigits 10 l → l.length ≤ 19 → foldMantissa 10 0 (dv 10 l) = ofDigits 10 (dv 10 l) := by
    intro l hv hl
    apply foldMantissa_small
    have := ofDigits_dv_lt hv
    have h19 : 10 ^ l.length ≤ 10 ^ 19 := Nat.pow_le_pow_right (by decide) hl
    have : (10 : Nat) ^ 19 < 2 ^ 64 := by decide
    omega
  have htake_len : ∀ (l : List Nat) k, (l.take k).length ≤ k := fun l k => by rw [List.length_take]; omega
  rcases hcase with ⟨hu0, hm, he⟩ | ⟨hu0, fd, hfd, hm, he⟩
  · -- all 19 digits come from the integer part
    have hA19 : 19 ≤ A.length := by omega
    have hAne : A ≠ [] := by intro h0; rw [h0] at hA19; simp at hA19
    have hsig : sigBytes int frac = A ++ frac.getD [] := by
      unfold sigBytes
      cases frac with
      | none => simp [hskip]
      | some fr => simp only [hskip, if_neg hAne, Option.getD_some]
    rw [hsig, List.take_append_of_le_length hA19]
    refine ⟨?_, ?_⟩
    · rw [hm, sv, Nat.min_eq_left hA19, hsmall _ (valid_take hvA 19) (htake_len _ _)]
    · rw [he, s2, List.length_append, Nat.min_eq_left hA19]
      push_cast
      omega
  · have hAlt : A.length < 19 := by omega
    have hk1 : min 19 A.length = A.length := Nat.min_eq_right (by omega)
    rw [hk1, List.take_of_length_le (Nat.le_refl _), hsmall A hvA (by omega)] at sv
    have hvfd := hvf fd hfd
    by_cases hAnil : A = []
    · -- no significant integer digit: the fraction's leading zeros are skipped
      have hu1 : (u64Spec 10 A 0 19).2.1 = 0 := by rw [sv, hAnil]; rfl
      rw [hu1] at hm he
      simp only [if_true] at hm he
      have hsig : sigBytes int frac = fd.drop (zerosPrefix fd) := by
        unfold sigBytes; rw [hfd]; simp only [hskip, hAnil, if_true, skipZeros_eq_drop]
      rw [hsig] at hN ⊢
      rw [s1, s2, hk1, hAnil] at hm he
      simp only [List.length_nil, Nat.sub_zero] at hm he
      obtain ⟨t1, t2⟩ := u64Spec_step 10 (fd.drop (zerosPrefix fd)) 0 19
      have tv := u64Spec_value 10 (fd.drop (zerosPrefix fd)) 0 19
      have hmin : min 19 (fd.drop (zerosPrefix fd)).length = 19 := Nat.min_eq_left (by omega)
      rw [hmin] at tv
      refine ⟨?_, ?_⟩
      · rw [hm, tv, hsmall _ (valid_take (valid_drop hvfd _) 19) (htake_len _ _)]
      · rw [he, t2, hmin, hfd]
        simp only [Option.getD_some, List.length_drop] at hN ⊢
        push_cast
        have hzf : zerosPrefix fd ≤ fd.length := by
          have := zerosPrefix_le_run (r := 10) (by decide) fd
          exact Nat.le_trans this (digitsPrefix_length_le 10 fd)
        omega
    · -- some significant integer digits, the rest from the fraction
      obtain ⟨c0, cs, hAc⟩ : ∃ c0 cs, A = c0 :: cs := by
        cases A with
        | nil => exact absurd rfl hAnil
        | cons c0 cs => exact ⟨c0, cs, rfl⟩
      have h48 : c0 ≠ 48 := skipZeros_head (by rw [hskip, hAc])
      have hc0 : c0 < 256 := h256i c0 (by
        have : c0 ∈ int.drop z := by rw [hA, hAc]; exact List.mem_cons_self ..
        exact List.mem_of_mem_drop this)
      have hpos := ofDigits_take_pos hAc h48 hc0 A.length (by rw [hAc]; simp)
      rw [List.take_of_length_le (Nat.le_refl _)] at hpos
      have hu1 : (u64Spec 10 A 0 19).2.1 ≠ 0 := by
        rw [sv]
        have : 0 < 10 ^ (A.length - 1) := Nat.pow_pos (by decide)
        omega
      rw [if_neg hu1] at hm he
      simp only [List.drop_zero, Nat.zero_add] at hm he
      have hsig : sigBytes int frac = A ++ fd := by
        unfold sigBytes; rw [hfd]; simp only [hskip, if_neg hAnil]
      rw [hsig, List.length_append] at hN
      rw [hsig]
      rw [s1, s2, hk1] at hm he
      obtain ⟨t1, t2⟩ := u64Spec_step 10 fd (u64Spec 10 A 0 19).2.1 (19 - A.length)
      have tv := u64Spec_value 10 fd (u64Spec 10 A 0 19).2.1 (19 - A.length)
      have hmin : min (19 - A.length) fd.length = 19 - A.length := Nat.min_eq_left (by omega)
      rw [hmin] at tv
      have htk : (A ++ fd).take 19 = A ++ fd.take (19 - A.length) := by
        rw [List.take_append, List.take_of_length_le (by omega)]
      refine ⟨?_, ?_⟩
      · rw [hm, tv, sv, htk]
        have hvall : ValidDigits 10 (A ++ fd.take (19 - A.length)) := valid_append hvA (valid_take hvfd _)
        have hlen19 : (A ++ fd.take (19 - A.length)).length ≤ 19 := by
          rw [List.length_append, List.length_take]; omega
        rw [← hsmall A hvA (by omega), ← foldMantissa_append, ← hsmall _ hvall hlen19]
        unfold dv; rw [List.map_append]
      · rw [he, t2, hmin, hfd, List.length_append]
        simp only [Option.getD_some]
        push_cast
        omega

/-- **the truncated `Number`** (decimal, separator/prefix-free, release): for an accepted `parse_number` with
`many_digits = true`, the slices are plain, there are more than 19 significant digits, `mantissa = w` is the value of
the first 19 of them (`10^18 ≤ w < 10^19`) and `exponent = q` is such that the exact value `V` of the digit content
satisfies `w·10^q ≤ V < (w+1)·10^q` -/
theorem number_truncated_of_parse (c : Cfg) (hS : RelClass c) (hpre : c.basePrefix = 0) (hr : c.mantissaRadix = 10)
    (hb : c.exponentBase = 10) (hre : c.exponentRadix ≤ 255) (hbc : c.bytesContiguous = true)
    (isPartial : Bool) (o : POpts) (hdp : charToDigit o.dp 10 = none) (b : Bytes) (neg fv : Bool)
    (hn : NoSep c b.slc) (h256 : ∀ x ∈ b.slc, x < 256) (hlen : b.slc.length < 2 ^ 60) (n : Number) (cnt : Nat)
    (h : parseNumber c isPartial o b neg fv = .ok (n, cnt)) (hmany : n.manyDigits = true) :
    PlainSlices c n ∧ 19 < (sigBytes n.integer n.fraction).length ∧
    n.mantissa = ofDigits 10 (dv 10 ((sigBytes n.integer n.fraction).take 19)) ∧
    10 ^ 18 ≤ n.mantissa ∧ n.mantissa < 10 ^ 19 ∧
    n.exponent = ((sigBytes n.integer n.fraction).length : Int) - 19 + n.explicitExp - ((n.fraction.getD []).length : Int) ∧
    -(2 ^ 40 : Int) ≤ n.explicitExp ∧ n.explicitExp ≤ 2 ^ 40 ∧
    n.integer.length < 2 ^ 60 ∧ (n.fraction.getD []).length < 2 ^ 60 := by
  obtain ⟨ip, fp, ht, hstart, hnI, hids, hnF, hfrac, _, _⟩ := parseNumber_split c hS hpre isPartial o b neg fv hn n cnt h
  obtain ⟨explicit, ex0, endIdx, x2, x3, hpos, hmc⟩ := tailOf_many c hS hre isPartial o neg ip fp
    (by rw [hstart]; exact hn) (by rw [hids]; exact (hn.drop _).take _)
    (by
      intro fd hfd
      rw [hfrac] at hfd
      split at hfd
      · injection hfd with hfd; rw [← hfd]; exact (hn.drop _).take _
      · cases hfd) n cnt ht hmany
  rw [hbc] at hmc
  simp only [Bool.not_true, Bool.and_false] at hmc
  obtain ⟨m1, m2, m3, mcase⟩ := manyCore_facts _ _ _ _ _ _ _ _ _ _ _ _ hpos n cnt hmc
  rw [hstart, hnI, hnF, hr, u64Step_decimal] at hpos
  rw [hr, u64Step_decimal, hids, hnI, hfrac] at mcase
  rw [hids] at m1
  rw [hfrac] at m2
  unfold fracRun hasPoint intEnd at *
  rw [hr] at hpos mcase m1 m2
  have sc : ∀ x : Int, scaleVal c x = x := scaleVal_same_base c (by rw [hr, hb])
  simp only [sc] at mcase
  have hz := zfTerm_cases o hdp b.slc b.index
  simp only at hz
  generalize hs : b.slc = s at *
  generalize hrest : s.drop b.index = rest at *
  generalize hdsI : digitsPrefix 10 rest = dsI at *
  obtain ⟨ri1, ri2, ri3, ri4⟩ := run_slice 10 rest
  rw [hdsI] at ri1 ri2 ri3 ri4
  have hzi : zerosPrefix rest ≤ dsI.length := by rw [← hdsI]; exact zerosPrefix_le_run (by decide) rest
  have hztake : zerosPrefix (rest.take dsI.length) = zerosPrefix rest := zerosPrefix_take rest dsI.length hzi
  have hmemrest : ∀ x ∈ rest, x < 256 := fun x hx => h256 x (by rw [← hrest] at hx; exact List.mem_of_mem_drop hx)
  have h60 : (2 : Nat) ^ 60 = 1152921504606846976 := by norm_num
  -- the two cases of the decimal point give the fraction slice
  obtain ⟨frac, hfr, hvf, h256f, hfd, hNgt⟩ :
      ∃ frac : Option (List Nat), n.fraction = frac ∧ (∀ fr, frac = some fr → ValidDigits 10 fr) ∧
        (∀ fr, frac = some fr → ∀ x ∈ fr, x < 256) ∧
        (numberLit c n).fracDigits = dv 10 (frac.getD []) ∧
        19 < (sigBytes (rest.take dsI.length) frac).length := by
    by_cases hpt : (s[b.index + dsI.length]? == some o.dp) = true
    · simp only [hpt, if_true] at m2 hpos mcase
      generalize hk : b.index + dsI.length + 1 = k at *
      obtain ⟨rf1, rf2, rf3, rf4⟩ := run_slice 10 (s.drop k)
      generalize hdsF : digitsPrefix 10 (s.drop k) = dsF at *
      refine ⟨some ((s.drop k).take dsF.length), m2, ?_, ?_, ?_, ?_⟩
      · intro fr hfr; injection hfr with hfr; rw [← hfr]; exact rf3
      · intro fr hfr x hx; injection hfr with hfr; rw [← hfr] at hx
        exact h256 x (List.mem_of_mem_drop (List.mem_of_mem_take hx))
      · show (match n.fraction with | some fd => sliceDigits c .fraction fd | none => []) = _
        rw [m2]
        simp only [Option.getD_some]
        rw [sliceDigits_run c hS .fraction _ ((hn.drop _).take _), hr, rf4, rf2]
      · -- more than 19 significant digits
        unfold sigBytes
        simp only
        rw [skipZeros_eq_drop, hztake]
        by_cases hall : zerosPrefix rest = dsI.length
        · have hnil : List.drop (zerosPrefix rest) (List.take dsI.length rest) = [] := by
            apply List.eq_nil_of_length_eq_zero
            rw [List.length_drop, ri1]; omega
          rw [if_pos hnil, skipZeros_eq_drop, List.length_drop, rf1]
          have hzf : zerosPrefix (s.drop k) ≤ dsF.length := by rw [← hdsF]; exact zerosPrefix_le_run (by decide) _
          rw [zerosPrefix_take _ _ hzf]
          have := hz.2.1 hall hpt
          rw [this, hall] at hpos
          omega
        · have hne : List.drop (zerosPrefix rest) (List.take dsI.length rest) ≠ [] := by
            intro h0
            have := congrArg List.length h0
            rw [List.length_drop, ri1] at this
            simp at this; omega
          rw [if_neg hne, List.length_append, List.length_drop, ri1, rf1]
          have := hz.1 (by omega)
          rw [this] at hpos
          omega
    · simp only [hpt, Bool.false_eq_true, if_false, List.length_nil, Nat.add_zero] at m2 hpos mcase
      refine ⟨none, m2, (by intro fr hfr; cases hfr), (by intro fr hfr; cases hfr), ?_, ?_⟩
      · show (match n.fraction with | some fd => sliceDigits c .fraction fd | none => []) = _
        rw [m2]; rfl
      · unfold sigBytes
        simp only
        rw [skipZeros_eq_drop, hztake, List.length_drop, ri1]
        by_cases hall : zerosPrefix rest = dsI.length
        · have := hz.2.2 hall hpt
          rw [this, hall] at hpos
          omega
        · have := hz.1 (by omega)
          rw [this] at hpos
          omega
  have hint : (numberLit c n).intDigits = dsI := by
    show sliceDigits c .integer n.integer = dsI
    rw [m1, sliceDigits_run c hS .integer _ (by rw [← hrest]; exact (hn.drop _).take _), hr, ri4]
  have hps : PlainSlices c n := by
    refine ⟨by rw [hr, m1]; exact ri3, ?_, ?_, ?_, by rw [hint, hr, m1, ri2], by rw [hfd, hr, hfr]⟩
    · intro fr hfr'; rw [hr]; exact hvf fr (by rw [← hfr, hfr'])
    · intro x hx; rw [m1] at hx; exact hmemrest x (List.mem_of_mem_take hx)
    · intro fr hfr' x hx; exact h256f fr (by rw [← hfr, hfr']) x hx
  -- the words
  rw [m1, hfr]
  have mc' : _ := mcase
  rw [← m2, hfr] at mc'
  obtain ⟨w1, w2⟩ := many_words (rest.take dsI.length) frac explicit n.mantissa n.exponent ri3 hvf
    (fun x hx => hmemrest x (List.mem_of_mem_take hx)) h256f hNgt (by
      have e : ((rest.take dsI.length).length : Int) = (dsI.length : Int) := by rw [ri1]
      rw [e]; exact mc')
  have hvs : ValidDigits 10 (sigBytes (rest.take dsI.length) frac) := valid_sigBytes ri3 hvf
  have htlen : ((sigBytes (rest.take dsI.length) frac).take 19).length = 19 := by
    rw [List.length_take]; omega
  have hwlt : n.mantissa < 10 ^ 19 := by
    rw [w1]
    have := ofDigits_dv_lt (valid_take hvs 19)
    rwa [htlen] at this
  have hwge : 10 ^ 18 ≤ n.mantissa := by
    rw [w1]
    obtain ⟨c0, cs, hsg⟩ : ∃ c0 cs, sigBytes (rest.take dsI.length) frac = c0 :: cs := by
      cases hsg : sigBytes (rest.take dsI.length) frac with
      | nil => rw [hsg] at hNgt; simp at hNgt
      | cons c0 cs => exact ⟨c0, cs, rfl⟩
    have h48 := sigBytes_head hsg
    have hc0 : c0 < 256 := by
      have hm : c0 ∈ sigBytes (rest.take dsI.length) frac := by rw [hsg]; exact List.mem_cons_self ..
      rcases mem_sigBytes hm with h | ⟨fr, hfr', h⟩
      · exact hmemrest c0 (List.mem_of_mem_take h)
      · exact h256f fr hfr' c0 h
    have := ofDigits_take_pos hsg h48 hc0 19 (by decide)
    rw [htlen] at this
    exact this
  have hl1 : (rest.take dsI.length).length < 2 ^ 60 := by
    rw [List.length_take, ← hrest, List.length_drop]; omega
  have hl2 : (frac.getD []).length < 2 ^ 60 := by
    rw [← hfr, m2]
    split
    · simp only [Option.getD_some, List.length_take, List.length_drop]; omega
    · simp
  exact ⟨hps, hNgt, w1, hwge, hwlt, by rw [w2, m3], by rw [m3]; exact x2, by rw [m3]; exact x3, hl1, hl2⟩

/-- **`NumberExact`, proved** (with the two side conditions the statement in `Props.C01Main` lacks: the decimal point of
the options is not a digit — implied by `is_valid_options_punctuation` — and the input is shorter than `2^60` bytes):
every untruncated decimal `Number` the syntax layer produces for a format without digit separator and base prefix is
exact, its digit slices are plain, and it has at most 19 significant digits. -/
theorem number_exact_of_syntax (c : Cfg) (hd : c.debug = false)
    (hclass : c.feats.format = false ∨ SepPrefixFree c.fmt) (hr : c.mantissaRadix = 10) (hb : c.exponentBase = 10)
    (o : POpts) (hdp : charToDigit o.dp 10 = none) (isPartial : Bool) (s : List Nat) (fv : Bool)
    (h256 : ∀ x ∈ s, x < 256) (hlen : s.length < 2 ^ 60) (n : Number) (cnt : Nat)
    (hp : parseFloatSyntax c o isPartial s fv = .ok (.number n cnt)) (hmany : n.manyDigits = false) :
    NumberExactAt c n ∧ PlainSlices c n ∧ (sigBytes n.integer n.fraction).length ≤ 19 := by
  obtain ⟨hS, hpre, hsep, hre⟩ := relClass_of c hd hclass hr
  obtain ⟨p, b, neg, cnt', hslc, hpn⟩ := syntax_to_parse c hd hclass hr o isPartial s fv n cnt hp
  exact number_exact_of_parse c hS hpre hr hb hre p o hdp b neg fv (noSep_of_sep_zero c hsep _)
    (by rw [hslc]; exact h256) (by rw [hslc]; exact hlen) n cnt' hpn hmany

/-- the truncated counterpart: see `number_truncated_of_parse` -/
theorem number_truncated_of_syntax (c : Cfg) (hd : c.debug = false)
    (hclass : c.feats.format = false ∨ SepPrefixFree c.fmt) (hr : c.mantissaRadix = 10) (hb : c.exponentBase = 10)
    (o : POpts) (hdp : charToDigit o.dp 10 = none) (isPartial : Bool) (s : List Nat) (fv : Bool)
    (h256 : ∀ x ∈ s, x < 256) (hlen : s.length < 2 ^ 60) (n : Number) (cnt : Nat)
    (hp : parseFloatSyntax c o isPartial s fv = .ok (.number n cnt)) (hmany : n.manyDigits = true) :
    PlainSlices c n ∧ 19 < (sigBytes n.integer n.fraction).length ∧
    n.mantissa = ofDigits 10 (dv 10 ((sigBytes n.integer n.fraction).take 19)) ∧
    10 ^ 18 ≤ n.mantissa ∧ n.mantissa < 10 ^ 19 ∧
    n.exponent = ((sigBytes n.integer n.fraction).length : Int) - 19 + n.explicitExp - ((n.fraction.getD []).length : Int) ∧
    -(2 ^ 40 : Int) ≤ n.explicitExp ∧ n.explicitExp ≤ 2 ^ 40 ∧
    n.integer.length < 2 ^ 60 ∧ (n.fraction.getD []).length < 2 ^ 60 := by
  obtain ⟨hS, hpre, hsep, hre⟩ := relClass_of c hd hclass hr
  obtain ⟨p, b, neg, cnt', hslc, hpn⟩ := syntax_to_parse c hd hclass hr o isPartial s fv n cnt hp
  exact number_truncated_of_parse c hS hpre hr hb hre (by simp [Cfg.bytesContiguous, hsep]) p o hdp b neg fv
    (noSep_of_sep_zero c hsep _) (by rw [hslc]; exact h256) (by rw [hslc]; exact hlen) n cnt' hpn hmany

end LexVerif.Props.C01Number
