import LexVerif.Gen.Digits
import LexVerif.Gen.IntLimits
import LexVerif.Spec.Numeral
import LexVerif.Model.ParseInt
/-!
# TablesUtil — lexical-util dispatch functions equal their specifications on the whole domain

`Gen.Digits` / `Gen.IntLimits` are regenerated from the compiled crate on every run: `char_to_digit_const`,
`char_is_digit_const`, `char_to_valid_digit_const` for all 256 bytes x radix 2..=36, `digit_to_char_const`
for every digit, `Integer::overflow_digits` for the 12 integer types x 35 radices. A change to any arm of
those functions changes a generated row and breaks the theorem naming the function.
-/
namespace LexVerif.Props.TablesUtil
open LexVerif.Spec LexVerif.Gen

/-- row-wise check helper: `f radix c` must equal the dumped value for every radix 2..36 and every column -/
def rowsAgree (tab : List (List Nat)) (f : Nat → Nat → Nat) : Bool :=
  (tab.zipIdx.all fun (row, i) => row.zipIdx.all fun (v, c) => v == f (i + 2) c) && tab.length == 35

/-- `char_to_digit_const(c, r)` is the specification's `digitVal r c` (255 encodes `None`), all 35 x 256 cases -/
theorem char_to_digit_spec :
    rowsAgree Digits.charToDigit (fun r c => (digitVal r c).getD 255) = true ∧
    Digits.charToDigit.all (fun row => row.length == 256) = true := by
  decide +kernel

/-- `char_is_digit_const(c, r)` ⇔ `digitVal r c` is some digit -/
theorem char_is_digit_spec :
    rowsAgree Digits.charIsDigit (fun r c => if (digitVal r c).isSome then 1 else 0) = true := by
  decide +kernel

/-- on bytes that ARE digits of the radix, `char_to_valid_digit_const` returns the digit value -/
theorem char_to_valid_digit_spec :
    (Digits.charToValidDigit.zipIdx.all fun (row, i) => row.zipIdx.all fun (v, c) =>
      match digitVal (i + 2) c with
      | some d => v == d
      | none => true) = true := by
  decide +kernel

/-- `digit_to_char_const(d, r)` is `digitChar d` (`0-9` then `A-Z`) for every digit of every radix -/
theorem digit_to_char_spec :
    (Digits.digitToChar.zipIdx.all fun (row, i) => row.length == i + 2 && row.zipIdx.all fun (v, d) => v == digitChar d) = true := by
  decide +kernel

/-- the model's `overflowDigits` is the crate's `Integer::overflow_digits` for all 12 types and 35 radices -/
theorem overflow_digits_model :
    (IntLimits.overflowDigits.all fun (_, bits, signed, row) =>
      row.length == 35 && row.zipIdx.all fun (v, i) => v == Model.ParseInt.overflowDigits ⟨bits, signed⟩ (i + 2)) = true ∧
    IntLimits.overflowDigits.length = 12 := by
  decide +kernel

/-- safety of the unchecked prefix: `radix ^ overflow_digits ≤ 2^(bits-1)` (signed) / `2^bits` (unsigned),
i.e. that many digits can never leave the type's range -/
theorem overflow_digits_safe :
    (IntLimits.overflowDigits.all fun (_, bits, signed, row) =>
      row.zipIdx.all fun (v, i) => decide ((i + 2) ^ v ≤ 2 ^ (if signed then bits - 1 else bits))) = true := by
  decide +kernel

end LexVerif.Props.TablesUtil
