import LexVerif.Proof.RoundTripModel
import LexVerif.Model.WriteBinaryOpts
/-!
# Props.C15Write — the writer half of C15, stated on the buffer-faithful `write_float` model

C15: "The sign of zero and of infinity is preserved in both directions, NaN is written as the configured string and
never with a minus sign, and writing a special whose string is disabled panics rather than emitting bytes."

`Model.WriteFloat.writeFloat` is the model the `wf` correspondence stream compares byte-for-byte with
`lexical_core::write_with_options` (every special, both signs, every option-string variant incl. `None`).

* `nan_written_as_configured` — a completed call on any NaN (either sign bit, any payload) returns exactly the optional
  `+` of a `required_mantissa_sign` format followed by the configured string; `nan_never_minus`: with built options the
  first returned byte is never `-`.
* `inf_written_with_sign` — ±infinity: `-` iff the sign bit is set, then the configured string.
* `finite_written_with_sign` — every finite value, zero included (`-0.0` ↦ `-0.0`): `-` iff the sign bit is set.
* `disabled_special_panics` — the string of the special being written is `None`: the call panics (it does not return,
  does not fault, and does not reach any digit writer), whatever the buffer.
-/
namespace LexVerif.Props.C15Write
open LexVerif.Spec LexVerif.Model LexVerif.Model.WriteFloat LexVerif.Proof.RoundTrip

/-- the optional `+` of `required_mantissa_sign` formats -/
def plusText (feats : Features) (fmt : Format) : List Nat :=
  if feats.format = true ∧ fmt.requiredMantissaSign = true then [43] else []

/-- **NaN is written as the configured string, never with a minus sign** -/
theorem nan_written_as_configured (feats : Features) (f : Fmt) (fmt : Format) (o : WOpts) (debug : Bool) (bits : Nat)
    (ds : List Nat) (sci : Int) (buf : List Nat) (w : Written) (hds : 1 ≤ ds.length) (hmx : o.maxDigits ≠ some 0)
    (hsp : f.isSpecial bits = true) (hnan : f.isNaN bits = true)
    (h : writeFloat feats f fmt o debug bits (ds, sci) buf = .done w) :
    ∃ s, o.nan = some s ∧ w.bytes.take w.len = plusText feats fmt ++ s := by
  obtain ⟨htext, _, _, hcfg⟩ := writeFloat_done_text feats f fmt o debug bits ds sci buf w hds hmx h
  have hc := hcfg hsp
  simp only [hnan, if_true] at hc
  cases hs : o.nan with
  | none => exact absurd hs hc
  | some s =>
    refine ⟨s, rfl, ?_⟩
    rw [htext]
    unfold signText bodyText plusText
    simp [hsp, hnan, hs]

/-- with options accepted by `Options::is_valid` the NaN text never starts with `-` -/
theorem nan_never_minus (feats : Features) (f : Fmt) (fmt : Format) (o : WOpts) (debug : Bool) (bits : Nat)
    (ds : List Nat) (sci : Int) (buf : List Nat) (w : Written) (hds : 1 ≤ ds.length) (hmx : o.maxDigits ≠ some 0)
    (hsp : f.isSpecial bits = true) (hnan : f.isNaN bits = true) (hvalid : wOptsIsValid o = true)
    (h : writeFloat feats f fmt o debug bits (ds, sci) buf = .done w) :
    (w.bytes.take w.len).head? ≠ some 45 := by
  obtain ⟨s, hs, ht⟩ := nan_written_as_configured feats f fmt o debug bits ds sci buf w hds hmx hsp hnan h
  rw [ht]
  unfold plusText
  split
  · simp
  · unfold wOptsIsValid at hvalid
    simp only [hs, Bool.and_eq_true, Bool.or_eq_true, decide_eq_true_eq] at hvalid
    rcases hvalid.1.2 with ⟨⟨_, h1⟩, _⟩
    simp only [List.nil_append]
    rcases h1 with h1 | h1 <;> rw [h1] <;> simp

/-- **the sign of infinity is written**: `-` iff the sign bit is set, then the configured string -/
theorem inf_written_with_sign (feats : Features) (f : Fmt) (fmt : Format) (o : WOpts) (debug : Bool) (bits : Nat)
    (ds : List Nat) (sci : Int) (buf : List Nat) (w : Written) (hds : 1 ≤ ds.length) (hmx : o.maxDigits ≠ some 0)
    (hsp : f.isSpecial bits = true) (hnan : f.isNaN bits = false)
    (h : writeFloat feats f fmt o debug bits (ds, sci) buf = .done w) :
    ∃ s, o.inf = some s ∧
      w.bytes.take w.len = (if f.isNeg bits = true then [45] else plusText feats fmt) ++ s := by
  obtain ⟨htext, _, _, hcfg⟩ := writeFloat_done_text feats f fmt o debug bits ds sci buf w hds hmx h
  have hc := hcfg hsp
  simp only [hnan, Bool.false_eq_true, if_false] at hc
  cases hs : o.inf with
  | none => exact absurd hs hc
  | some s =>
    refine ⟨s, rfl, ?_⟩
    rw [htext]
    unfold signText bodyText plusText
    simp [hsp, hnan, hs]

/-- **the sign of every finite value, zero included, is written**: `-` iff the sign bit is set -/
theorem finite_written_with_sign (feats : Features) (f : Fmt) (fmt : Format) (o : WOpts) (debug : Bool) (bits : Nat)
    (ds : List Nat) (sci : Int) (buf : List Nat) (w : Written) (hds : 1 ≤ ds.length) (hmx : o.maxDigits ≠ some 0)
    (hsp : f.isSpecial bits = false) (hnan : f.isNaN bits = false)
    (h : writeFloat feats f fmt o debug bits (ds, sci) buf = .done w) :
    w.bytes.take w.len =
      (if f.isNeg bits = true then [45] else plusText feats fmt) ++ writeDecimal fmt feats ds sci o := by
  obtain ⟨htext, _, _, _⟩ := writeFloat_done_text feats f fmt o debug bits ds sci buf w hds hmx h
  rw [htext]
  unfold signText bodyText plusText
  simp [hsp, hnan]

/-- **writing a special whose string is disabled panics rather than emitting bytes** -/
theorem disabled_special_panics (feats : Features) (f : Fmt) (fmt : Format) (o : WOpts) (debug : Bool) (bits : Nat)
    (digits : List Nat × Int) (buf : List Nat) (hsp : f.isSpecial bits = true)
    (hnone : (if f.isNaN bits = true then o.nan else o.inf) = none) :
    writeFloat feats f fmt o debug bits digits buf = .panic := by
  unfold writeFloat writeFloatB
  dsimp only
  generalize (if f.isNeg bits = true ∧ ¬f.isNaN bits = true then [45]
      else if feats.format = true ∧ fmt.requiredMantissaSign = true then [43] else []) = sign
  split
  · rfl
  split
  · rfl
  split
  · rfl
  split
  · rfl
  cases hn : f.isNaN bits with
  | true =>
    simp only [hn, if_true] at hnone
    simp [hnone, writeSpecial, onTail, finalCheck]
  | false =>
    simp only [hn, Bool.false_eq_true, if_false] at hnone
    simp [hnone, writeSpecial, onTail, finalCheck]

/-! ## the power-of-two writers (`binary.rs` / `hex.rs`; model `WriteBinary.writeFloatO`, `none` = panic)

The same clauses for every format whose mantissa radix is 2, 4, 8, 16 or 32 (any exponent base), every option set. -/
section pow2
open LexVerif.Model.WriteBinary

/-- the model's NaN test: exponent field all ones and a non-zero fraction -/
def isNaNBits (t : Dragonbox.FTy) (bits : Nat) : Prop :=
  (bits &&& (t.signMask - 1)) &&& t.exponentMask = t.exponentMask ∧ (bits &&& (t.signMask - 1)) &&& t.mantissaMask ≠ 0
/-- exponent field all ones -/
def isSpecialBits (t : Dragonbox.FTy) (bits : Nat) : Prop :=
  (bits &&& (t.signMask - 1)) &&& t.exponentMask = t.exponentMask

/-- NaN: the configured string after at most a `+`; a disabled string panics (`none`) -/
theorem pow2_nan_written (fmt : Format) (feats : Features) (o : WOpts) (t : Dragonbox.FTy) (bits : Nat)
    (h : isNaNBits t bits) :
    writeFloatO fmt feats o t bits = o.nan.map (plusText feats fmt ++ ·) := by
  unfold isNaNBits at h
  unfold writeFloatO writeFloatOWith plusText
  simp only [h, and_self, ne_eq, not_false_eq_true, not_true_eq_false, and_false, if_false, if_true]

/-- ±infinity: `-` iff the sign bit is set, then the configured string; a disabled string panics (`none`) -/
theorem pow2_inf_written (fmt : Format) (feats : Features) (o : WOpts) (t : Dragonbox.FTy) (bits : Nat)
    (hs : isSpecialBits t bits) (hn : ¬ isNaNBits t bits) :
    writeFloatO fmt feats o t bits =
      o.inf.map ((if bits &&& t.signMask ≠ 0 then [45] else plusText feats fmt) ++ ·) := by
  unfold isSpecialBits at hs
  unfold isNaNBits at hn
  unfold writeFloatO writeFloatOWith plusText
  simp only [hs, true_and] at hn ⊢
  simp only [hn, not_false_eq_true, and_true, if_false, if_true]

/-- finite values, ±0 included: the call returns, and the text starts with `-` iff the sign bit is set -/
theorem pow2_finite_written (fmt : Format) (feats : Features) (o : WOpts) (t : Dragonbox.FTy) (bits : Nat)
    (hs : ¬ isSpecialBits t bits) :
    ∃ body, writeFloatO fmt feats o t bits =
      some ((if bits &&& t.signMask ≠ 0 then [45] else plusText feats fmt) ++ body) := by
  unfold isSpecialBits at hs
  unfold writeFloatO writeFloatOWith plusText
  simp only [hs, false_and, not_false_eq_true, and_true, if_false]
  exact ⟨_, rfl⟩

/-- non-vacuity: `-NaN` (f64, sign bit set) satisfies the hypothesis and is written `NaN` in hexadecimal;
`-inf` is written `-inf`; `-0.0` starts with `-` -/
example : isNaNBits .f64 0xFFF8000000000000 ∧
    writeFloatO (⟨12 + 16 * 2 ^ 104 + 16 * 2 ^ 112 + 10 * 2 ^ 120⟩) { powerOfTwo := true } { exp := 94 } .f64 0xFFF8000000000000
      = some [78, 97, 78] := by
  unfold isNaNBits
  decide +kernel
example : isSpecialBits .f64 0xFFF0000000000000 ∧ ¬ isNaNBits .f64 0xFFF0000000000000 ∧
    writeFloatO (⟨12 + 16 * 2 ^ 104 + 16 * 2 ^ 112 + 10 * 2 ^ 120⟩) { powerOfTwo := true } { exp := 94 } .f64 0xFFF0000000000000
      = some [45, 105, 110, 102] := by
  unfold isNaNBits isSpecialBits
  decide +kernel
example : ¬ isSpecialBits .f64 0x8000000000000000 ∧
    (writeFloatO (⟨12 + 16 * 2 ^ 104 + 16 * 2 ^ 112 + 10 * 2 ^ 120⟩) { powerOfTwo := true } { exp := 94 } .f64 0x8000000000000000).map
      (·.head?) = some (some 45) := by
  unfold isSpecialBits
  decide +kernel

end pow2

/-! ## non-vacuity: concrete completed calls (f64, default format and options) -/

/-- text returned by a completed call; `none` when the call does not complete -/
def textOf : Outcome → Option (List Nat)
  | .done w => some (w.bytes.take w.len)
  | _ => none

/-- `-NaN` (sign bit set) is written `NaN` -/
example : textOf (writeFloat {} f64 Format.standard {} false 0xFFF8000000000000 ([0], 0) (List.replicate 64 0))
    = some [78, 97, 78] := by decide +kernel

/-- `-inf` is written `-inf` -/
example : textOf (writeFloat {} f64 Format.standard {} false 0xFFF0000000000000 ([0], 0) (List.replicate 64 0))
    = some [45, 105, 110, 102] := by decide +kernel

/-- `-0.0` is written `-0.0` -/
example : textOf (writeFloat {} f64 Format.standard {} false 0x8000000000000000 ([0], 0) (List.replicate 64 0))
    = some [45, 48, 46, 48] := by decide +kernel

/-- NaN with `nan_string = None` panics -/
example : writeFloat {} f64 Format.standard { nan := none } false 0x7FF8000000000000 ([0], 0) (List.replicate 64 0)
    = .panic := by decide +kernel

end LexVerif.Props.C15Write
