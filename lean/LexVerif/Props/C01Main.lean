import LexVerif.Props.C01
import LexVerif.Props.C05
import LexVerif.Props.C12
import LexVerif.Proof.Pipeline
import LexVerif.Proof.LitBits
/-!
# Props.C01Main — the dependency structure of C01, machine-checked

`Model.ParseFloatAlgo.parseFloatAlgoModel` is `parse_complete` / `parse_partial` with the numeric conversion of
`parse.rs` spelled out: syntax (`Model.ParseNumber`) → `try_fast_path` → `moderate_path` (Eisel–Lemire /
Bellerophon / `binary`, by feature set and radix) → `slow_path` → `to_native!`.  `slow_radix` (`slow.rs`,
`bigint.rs`) is not modelled: it is a parameter `slow`.

`C01_main` states what the correctness of decimal parsing rests on, as three **named hypotheses**:

* `lemire_sound` (`Props.C01`; proved only on `LemirePartialDomain`): `compute_float` is right when it answers and
  brackets the value when it declines;
* `SlowPathCorrect slow`: given an invalid-marked estimate that brackets the exact value of the digits, `slow_radix`
  returns `roundNE` of that value (`slowOracle_correct`: the contract is satisfiable);
* `NumberExact`: what `Props.C12.accepts_iff_grammar_partial` (`Verdict`/`NumberIs`) does **not** say about the
  `Number` — its `mantissa`/`exponent` words denote the same rational as its digit slices and explicit exponent
  (and fit `u64`/`i64`), for an untruncated mantissa.

Conclusion: for every decimal format of the class covered by C12, every options record and every input whose `Number`
is untruncated (at most `u64_step = 19` significant digits), non-`compact` build,
`parseFloatAlgoModel = parseFloatModel`, i.e. the bits are `Spec.litBits` of the digit content
(`numberToFloat_lemire`: `… = litBits (numberLit n)`; by `Verdict`, `numberLit n` is the grammar's integer digits,
fraction digits and exponent).

Unconditional corollaries (no hypothesis left): `pipeline_fast_path` (inputs the fast path answers),
`pipeline_lemire_partial` (`LemirePartialDomain`), `pipeline_bellerophon_decided` (`compact`, Bellerophon answers),
`pipeline_binary` (power-of-two radices, untruncated: `binary` always decides).
-/
namespace LexVerif.Props.C01Main
open LexVerif.Spec LexVerif.Model LexVerif.Model.ParseFloatAlgo
open LexVerif.Proof.RoundNE LexVerif.Proof.ExtRound LexVerif.Proof.Pipeline
open LexVerif.Props.C01 (lemire_sound IsLemireFloat IsI64 Bracket)
open LexVerif.Proof.Grammar (SpecialsWF LettersOnly)

/-! ## the named hypotheses -/

/-- two fractions denote the same rational -/
def RatEq (x y : Nat × Nat) : Prop := x.1 * y.2 = y.1 * x.2

/-- the `mantissa` / `exponent` words of an untruncated `Number` are exact: they fit their machine types and
`mantissa · base^exponent` is the value of the digit slices with the explicit exponent -/
def NumberExactAt (c : Cfg) (n : Number) : Prop :=
  n.mantissa < 2 ^ 64 ∧ IsI64 n.exponent ∧
  RatEq (powFrac c.exponentBase n.exponent n.mantissa) (litFrac c.mantissaRadix c.exponentBase (numberLit c n))

/-- **`NumberExact`** — the part of "the syntax layer computes the right `Number`" that C12 leaves open
(`accepts_iff_grammar_partial` gives sign, digit slices and explicit exponent only): on the class of formats C12
covers, decimal, release build, every untruncated `Number` the syntax model produces is exact. -/
def NumberExact : Prop :=
  ∀ (c : Cfg) (o : POpts) (isPartial : Bool) (s : List Nat) (fv : Bool) (n : Number) (cnt : Nat),
    c.debug = false → (c.feats.format = false ∨ C12.SepPrefixFree c.fmt) →
    c.mantissaRadix = 10 → c.exponentBase = 10 →
    parseFloatSyntax c o isPartial s fv = .ok (.number n cnt) → n.manyDigits = false → NumberExactAt c n

/-- **`SlowPathCorrect`** — the contract of `slow_radix::<F, FORMAT>(num, fp)`: called with the un-biased
estimate of an invalid-marked moderate-path result `fp` that brackets the exact value of the digits of `num`
(`Props.C01.Bracket`: `b ≤ x < next(b)` for `b` = `fp` rounded down), it returns the float nearest to that value. -/
def SlowPathCorrect (slow : SlowRadix) : Prop :=
  ∀ (c : Cfg) (F : FTy) (n : Number) (fp : ExtendedFloat80), IsLemireFloat F →
    2 ≤ c.mantissaRadix → c.mantissaRadix ≤ 36 → 2 ≤ c.exponentBase → fp.exp < 0 →
    Bracket F fp (litFrac c.mantissaRadix c.exponentBase (numberLit c n)).1
      (litFrac c.mantissaRadix c.exponentBase (numberLit c n)).2 →
    extendedToFloat F (slow c F n { fp with exp := fp.exp - invalidFp }) =
      roundNE F.fmt (litFrac c.mantissaRadix c.exponentBase (numberLit c n)).1
        (litFrac c.mantissaRadix c.exponentBase (numberLit c n)).2

/-- what the moderate path owes the pipeline for one `Number`: it answers; a valid answer is the correctly rounded
`mantissa · base^exponent`; an invalid-marked one brackets it -/
def ModerateContract (c : Cfg) (F : FTy) (n : Number) : Prop :=
  ∃ fp, moderatePath c F (numOf n) false = .ok fp ∧
    (0 ≤ fp.exp → extendedToFloat F fp =
      roundNE F.fmt (powFrac c.exponentBase n.exponent n.mantissa).1 (powFrac c.exponentBase n.exponent n.mantissa).2) ∧
    (fp.exp < 0 → Bracket F fp (powFrac c.exponentBase n.exponent n.mantissa).1
      (powFrac c.exponentBase n.exponent n.mantissa).2)

/-- what the fast path owes the pipeline: no panic, and an answer is the correctly rounded signed value -/
def FastContract (c : Cfg) (F : FTy) (n : Number) : Prop :=
  FastPath.tryFastPath (smallSetOf c.feats) F c.mantissaRadix c.exponentBase (numOf n) ≠ .panic ∧
  ∀ v, FastPath.tryFastPath (smallSetOf c.feats) F c.mantissaRadix c.exponentBase (numOf n) = .some v →
    v = roundSigned F.fmt n.isNegative (powFrac c.exponentBase n.exponent n.mantissa).1
      (powFrac c.exponentBase n.exponent n.mantissa).2

/-! ## small facts -/

theorem layout_of {F : FTy} (hF : IsLemireFloat F) : ∃ p eb, Layout F p eb := by
  rcases hF with h | h <;> subst h
  · exact ⟨_, _, layout_f64⟩
  · exact ⟨_, _, layout_f32⟩

theorem powFrac_den_pos {b : Nat} (hb : 0 < b) (e : Int) (m : Nat) : 0 < (powFrac b e m).2 := by
  unfold powFrac
  split
  · exact Nat.one_pos
  · exact Nat.pow_pos hb

/-- `Bracket` depends only on the rational -/
theorem bracket_congr {F : FTy} (hF : IsLemireFloat F) {fp : ExtendedFloat80} {x y : Nat × Nat} (hx : 0 < x.2)
    (hy : 0 < y.2) (h : RatEq x y) (hb : Bracket F fp x.1 x.2) : Bracket F fp y.1 y.2 := by
  obtain ⟨p, eb, lay⟩ := layout_of hF
  unfold C01.Bracket at *
  rw [← roundNE_congr' lay.wf hx hy h]
  exact hb

/-- the digit values of a `Number`'s slices are below the radix -/
theorem numberLit_digits_lt (c : Cfg) (n : Number) :
    ∀ d ∈ (numberLit c n).intDigits ++ (numberLit c n).fracDigits, d < c.mantissaRadix := by
  intro d hd
  rcases List.mem_append.mp hd with h | h
  · exact sliceDigits_lt c .integer n.integer d h
  · unfold numberLit at h
    simp only [] at h
    cases hf : n.fraction with
    | none => rw [hf] at h; simp at h
    | some fd => rw [hf] at h; exact sliceDigits_lt c .fraction fd d h

/-- the value the pipeline must produce, in the three forms used below: `roundSigned` of the digit content
= `litBits` of the digit content = `numberBits` (what `parseFloatModel` prints) -/
theorem spec_forms {F : FTy} (hF : IsLemireFloat F) (c : Cfg) (hr : 2 ≤ c.mantissaRadix) (hr36 : c.mantissaRadix ≤ 36)
    (hb : 2 ≤ c.exponentBase) (n : Number) (hmany : n.manyDigits = false)
    (hx : RatEq (powFrac c.exponentBase n.exponent n.mantissa)
      (litFrac c.mantissaRadix c.exponentBase (numberLit c n))) :
    roundSigned F.fmt n.isNegative (powFrac c.exponentBase n.exponent n.mantissa).1
        (powFrac c.exponentBase n.exponent n.mantissa).2 =
      litBits F.fmt c.mantissaRadix c.exponentBase (numberLit c n) ∧
    numberBits c F.fmt n = litBits F.fmt c.mantissaRadix c.exponentBase (numberLit c n) := by
  obtain ⟨p, eb, lay⟩ := layout_of hF
  have hf := lay.wf
  have e1 := litBits_exact lay hr (by omega) hb (numberLit c n) (numberLit_digits_lt c n)
  have e2 : roundNE F.fmt (powFrac c.exponentBase n.exponent n.mantissa).1
      (powFrac c.exponentBase n.exponent n.mantissa).2 =
      roundNE F.fmt (litFrac c.mantissaRadix c.exponentBase (numberLit c n)).1
        (litFrac c.mantissaRadix c.exponentBase (numberLit c n)).2 :=
    roundNE_congr' hf (powFrac_den_pos (by omega) _ _) (litFrac_den_pos (by omega) (by omega) _) hx
  have e3 : roundSigned F.fmt n.isNegative (powFrac c.exponentBase n.exponent n.mantissa).1
      (powFrac c.exponentBase n.exponent n.mantissa).2 =
      litBits F.fmt c.mantissaRadix c.exponentBase (numberLit c n) := by
    rw [e1]; unfold roundSigned; rw [e2]; rfl
  refine ⟨e3, ?_⟩
  unfold numberBits
  simp only [hmany, Bool.false_eq_true, if_false]
  rw [litBits_of_mantissa lay hr (by omega) hb, e3]

/-! ## the pipeline for one `Number` -/

/-- **generic pipeline lemma**: fast-path contract + moderate-path contract + slow-path answer on bracketed
estimates ⇒ `numberToFloat` returns `litBits` of the digit content. -/
theorem numberToFloat_of_contracts (slow : SlowRadix) {F : FTy} (hF : IsLemireFloat F) (c : Cfg)
    (hr : 2 ≤ c.mantissaRadix) (hr36 : c.mantissaRadix ≤ 36) (hb : 2 ≤ c.exponentBase)
    (n : Number) (hmany : n.manyDigits = false)
    (hx : RatEq (powFrac c.exponentBase n.exponent n.mantissa)
      (litFrac c.mantissaRadix c.exponentBase (numberLit c n)))
    (hfast : FastContract c F n) (hmod : ModerateContract c F n)
    (hslow : ∀ fp, moderatePath c F (numOf n) false = .ok fp → fp.exp < 0 →
      Bracket F fp (litFrac c.mantissaRadix c.exponentBase (numberLit c n)).1
        (litFrac c.mantissaRadix c.exponentBase (numberLit c n)).2 →
      extendedToFloat F (slowPath slow c F n { fp with exp := fp.exp - invalidFp }) =
        roundNE F.fmt (litFrac c.mantissaRadix c.exponentBase (numberLit c n)).1
          (litFrac c.mantissaRadix c.exponentBase (numberLit c n)).2) :
    numberToFloat slow c F n false = some (litBits F.fmt c.mantissaRadix c.exponentBase (numberLit c n)) := by
  obtain ⟨p, eb, lay⟩ := layout_of hF
  have hf := lay.wf
  obtain ⟨sf, _⟩ := spec_forms hF c hr hr36 hb n hmany hx
  have hpd := powFrac_den_pos (show 0 < c.exponentBase by omega) n.exponent n.mantissa
  have hld := litFrac_den_pos (show 0 < c.mantissaRadix by omega) (show 0 < c.exponentBase by omega) (numberLit c n)
  have hcg := roundNE_congr' hf hpd hld hx
  obtain ⟨fp, hm, hvalid, hinv⟩ := hmod
  unfold numberToFloat
  split
  · rename_i v hv
    rw [hfast.2 v hv, sf]
  · rename_i hv
    exact absurd hv hfast.1
  · rw [hm]
    simp only []
    by_cases hneg : fp.exp < 0
    · rw [if_pos hneg]
      have hbr := bracket_congr hF hpd hld hx (hinv hneg)
      rw [toNative_eq F _ _ (hslow fp hm hneg hbr), ← sf]
      unfold roundSigned; rw [hcg]
    · rw [if_neg hneg]
      rw [toNative_eq F _ _ (hvalid (by omega)), sf]

/-! ## discharging the contracts -/

theorem smallSet_is (feats : Features) : C01.IsSmallSet (smallSetOf feats) := by
  unfold smallSetOf C01.IsSmallSet
  split
  · exact Or.inr (Or.inr rfl)
  · split
    · exact Or.inr (Or.inl rfl)
    · exact Or.inl rfl

/-- the decimal fast path meets its contract (`fastPath_exact`, `fastPath_no_panic`), every feature set -/
theorem fastContract_decimal {F : FTy} (hF : IsLemireFloat F) (c : Cfg) (hr : c.mantissaRadix = 10) (n : Number) :
    FastContract c F n := by
  unfold FastContract
  rw [hr]
  refine ⟨C01.fastPath_no_panic (smallSet_is _) F hF _ _, ?_⟩
  intro v hv
  by_cases hb : (10 : Nat) = c.exponentBase
  · rw [← hb] at hv ⊢
    rcases hF with h | h <;> subst h
    · exact C01.fastPath_exact_f64 (smallSet_is _) 10 (numOf n) v hv
    · exact C01.fastPath_exact_f32 (smallSet_is _) 10 (numOf n) v hv
  · rw [C05.fastPath_mixed_base_none _ _ hb] at hv
    exact absurd hv (by simp)

theorem backend_lemire (feats : Features) (hc : feats.compact = false) : backend feats 10 = .lemire := by
  unfold backend
  rw [hc]
  simp only [Bool.false_eq_true, if_false, if_true]
  split
  · rfl
  · split <;> rfl

theorem lemire_untruncated (F : FTy) (n : Num) (hmany : n.manyDigits = false) :
    Lemire.lemire F n false = Lemire.computeFloat F n.exponent n.mantissa false := by
  unfold Lemire.lemire
  rw [hmany]
  cases Lemire.computeFloat F n.exponent n.mantissa false <;> simp

/-- `lemire_sound` is the moderate-path contract of the non-`compact` decimal builds -/
theorem moderateContract_lemire (hL : lemire_sound) {F : FTy} (hF : IsLemireFloat F) (c : Cfg)
    (hcompact : c.feats.compact = false) (hr : c.mantissaRadix = 10) (hb : c.exponentBase = 10)
    (n : Number) (hmany : n.manyDigits = false) (hw : n.mantissa < 2 ^ 64) (hq : IsI64 n.exponent) :
    ModerateContract c F n := by
  obtain ⟨fp, h1, h2, h3⟩ := hL F hF n.exponent n.mantissa hq hw
  refine ⟨fp, ?_, ?_, ?_⟩
  · unfold moderatePath
    rw [hr, backend_lemire _ hcompact]
    simp only []
    rw [lemire_untruncated F (numOf n) hmany]
    exact h1
  · rw [hb]; exact h2
  · rw [hb]; exact h3

theorem slowPath_decimal (slow : SlowRadix) (c : Cfg) (hr : c.mantissaRadix = 10) (F : FTy) (n : Number)
    (fp : ExtendedFloat80) : slowPath slow c F n fp = slow c F n fp := by
  unfold slowPath
  rw [hr]
  have : isPowerTwo 10 = false := by decide
  rw [this, Bool.and_false]
  simp

/-- **C01 for one `Number`** (decimal, non-`compact`): under `lemire_sound` and `SlowPathCorrect`, an exact
untruncated `Number` is converted to `litBits` of its digit content. -/
theorem numberToFloat_lemire (hL : lemire_sound) (slow : SlowRadix) (hS : SlowPathCorrect slow)
    {F : FTy} (hF : IsLemireFloat F) (c : Cfg) (hcompact : c.feats.compact = false)
    (hr : c.mantissaRadix = 10) (hb : c.exponentBase = 10)
    (n : Number) (hmany : n.manyDigits = false) (hx : NumberExactAt c n) :
    numberToFloat slow c F n false = some (litBits F.fmt c.mantissaRadix c.exponentBase (numberLit c n)) := by
  obtain ⟨hw, hq, hre⟩ := hx
  apply numberToFloat_of_contracts slow hF c (by omega) (by omega) (by omega) n hmany hre
    (fastContract_decimal hF c hr n) (moderateContract_lemire hL hF c hcompact hr hb n hmany hw hq)
  intro fp _ hneg hbr
  rw [slowPath_decimal slow c hr]
  exact hS c F n fp hF (by omega) (by omega) (by omega) hneg hbr

/-! ## unconditional corollaries: no hypothesis about Eisel–Lemire's open range or the slow path -/

/-- whenever the moderate path *decides* and its answer is right, the slow path is not consulted -/
theorem numberToFloat_decided (slow : SlowRadix) {F : FTy} (hF : IsLemireFloat F) (c : Cfg)
    (hr : 2 ≤ c.mantissaRadix) (hr36 : c.mantissaRadix ≤ 36) (hb : 2 ≤ c.exponentBase)
    (n : Number) (hmany : n.manyDigits = false)
    (hx : RatEq (powFrac c.exponentBase n.exponent n.mantissa)
      (litFrac c.mantissaRadix c.exponentBase (numberLit c n)))
    (hfast : FastContract c F n) {fp : ExtendedFloat80} (hm : moderatePath c F (numOf n) false = .ok fp)
    (hv : 0 ≤ fp.exp)
    (hsound : extendedToFloat F fp = roundNE F.fmt (powFrac c.exponentBase n.exponent n.mantissa).1
      (powFrac c.exponentBase n.exponent n.mantissa).2) :
    numberToFloat slow c F n false = some (litBits F.fmt c.mantissaRadix c.exponentBase (numberLit c n)) := by
  apply numberToFloat_of_contracts slow hF c hr hr36 hb n hmany hx hfast
    ⟨fp, hm, fun _ => hsound, fun h => absurd h (by omega)⟩
  intro fp2 hm2 hneg _
  rw [hm] at hm2; injection hm2 with hm2; subst hm2; omega

/-- **(i) fast-path inputs** (decimal, every feature set, `lossy` or not): if `try_fast_path` answers, the API
result is `litBits` of the digit content. Assumption: IEEE hardware arithmetic (`Model.ExtFloat`). -/
theorem pipeline_fast_path (slow : SlowRadix) {F : FTy} (hF : IsLemireFloat F) (c : Cfg)
    (hr : c.mantissaRadix = 10) (hb : c.exponentBase = 10) (n : Number) (hmany : n.manyDigits = false)
    (hx : RatEq (powFrac c.exponentBase n.exponent n.mantissa)
      (litFrac c.mantissaRadix c.exponentBase (numberLit c n)))
    (lossy : Bool) {v : Nat}
    (hv : FastPath.tryFastPath (smallSetOf c.feats) F c.mantissaRadix c.exponentBase (numOf n) = .some v) :
    numberToFloat slow c F n lossy = some (litBits F.fmt c.mantissaRadix c.exponentBase (numberLit c n)) := by
  unfold numberToFloat
  rw [hv]
  simp only []
  rw [(fastContract_decimal hF c hr n).2 v hv,
    (spec_forms hF c (by omega) (by omega) (by omega) n hmany hx).1]

/-- **(ii) Eisel–Lemire on its proved domain** (`LemirePartialDomain`: zero mantissa, beyond the exponent cut-offs,
exact-product range `0 ≤ q ≤ 27`): unconditional. -/
theorem pipeline_lemire_partial (slow : SlowRadix) {F : FTy} (hF : IsLemireFloat F) (c : Cfg)
    (hcompact : c.feats.compact = false) (hr : c.mantissaRadix = 10) (hb : c.exponentBase = 10)
    (n : Number) (hmany : n.manyDigits = false) (hx : NumberExactAt c n)
    (hdom : C01.LemirePartialDomain F n.exponent n.mantissa) :
    numberToFloat slow c F n false = some (litBits F.fmt c.mantissaRadix c.exponentBase (numberLit c n)) := by
  obtain ⟨hw, _, hre⟩ := hx
  obtain ⟨fp, e1, e2, e3⟩ := C01.lemire_sound_partial F hF n.exponent n.mantissa hw hdom
  apply numberToFloat_decided slow hF c (by omega) (by omega) (by omega) n hmany hre
    (fastContract_decimal hF c hr n) (fp := fp) ?_ e2 (by rw [hb]; exact e3)
  unfold moderatePath
  rw [hr, backend_lemire _ hcompact]
  simp only []
  rw [lemire_untruncated F (numOf n) hmany]
  exact e1

/-- **(ii′) Eisel–Lemire, every `q ≥ 0`, decided**: unconditional (`cfSound_nonneg` — exact rows and the truncated
rows `28 ≤ q ≤ 308` by the stability argument). -/
theorem pipeline_lemire_nonneg (slow : SlowRadix) {F : FTy} (hF : IsLemireFloat F) (c : Cfg)
    (hcompact : c.feats.compact = false) (hr : c.mantissaRadix = 10) (hb : c.exponentBase = 10)
    (n : Number) (hmany : n.manyDigits = false) (hx : NumberExactAt c n) (hq0 : 0 ≤ n.exponent)
    {fp : ExtendedFloat80} (hcf : Lemire.computeFloat F n.exponent n.mantissa false = .ok fp) (hv : 0 ≤ fp.exp) :
    numberToFloat slow c F n false = some (litBits F.fmt c.mantissaRadix c.exponentBase (numberLit c n)) := by
  obtain ⟨hw, _, hre⟩ := hx
  apply numberToFloat_decided slow hF c (by omega) (by omega) (by omega) n hmany hre
    (fastContract_decimal hF c hr n) (fp := fp) ?_ hv
    (by rw [hb]; exact C01.cfSound_nonneg F hF n.exponent hq0 n.mantissa hw fp hcf hv)
  unfold moderatePath
  rw [hr, backend_lemire _ hcompact]
  simp only []
  rw [lemire_untruncated F (numOf n) hmany]
  exact hcf

theorem backend_bellerophon_compact (feats : Features) (hc : feats.compact = true) :
    backend feats 10 = .bellerophon := by
  unfold backend
  rw [hc]
  have : isPowerTwo 10 = false := by decide
  simp only [if_true, this, Bool.false_eq_true, if_false]
  split <;> rfl

/-- **(iii) `compact` builds, decimal, Bellerophon decides**: unconditional (`bellerophon_sound_untruncated`). -/
theorem pipeline_bellerophon_decided (slow : SlowRadix) {F : FTy} (hF : IsLemireFloat F) (c : Cfg)
    (hcompact : c.feats.compact = true) (hr : c.mantissaRadix = 10) (hb : c.exponentBase = 10)
    (n : Number) (hmany : n.manyDigits = false) (hx : NumberExactAt c n) {fp : ExtendedFloat80}
    (hbel : Bellerophon.bellerophon F (Gen.Bellerophon.CompactRadix.powers 10) (numOf n) false = .ok fp)
    (hv : 0 ≤ fp.exp) :
    numberToFloat slow c F n false = some (litBits F.fmt c.mantissaRadix c.exponentBase (numberLit c n)) := by
  obtain ⟨hw, _, hre⟩ := hx
  apply numberToFloat_decided slow hF c (by omega) (by omega) (by omega) n hmany hre
    (fastContract_decimal hF c hr n) (fp := fp) ?_ hv
    (by rw [hb]; exact C01.bellerophon_sound_untruncated F hF (numOf n) hmany hw hbel hv)
  unfold moderatePath
  rw [hr, backend_bellerophon_compact _ hcompact]
  simp only []
  unfold Bellerophon.powersOf
  rw [hcompact]
  exact hbel

/-! ### power-of-two radices -/

theorem radixSet_of_pow2 (feats : Features) (hp : feats.powerOfTwo = true) : C05.IsRadixSet (smallSetOf feats) := by
  unfold smallSetOf C05.IsRadixSet
  split
  · exact Or.inr rfl
  · rw [hp, Bool.or_true]; exact Or.inl rfl

theorem pow2_mem_radices {S : Proof.Tables.SmallSet} (hS : C05.IsRadixSet S) {r : Nat} (hr : C05.IsPow2 r) :
    r ∈ S.radices := by
  rcases hS with h | h <;> subst h <;> rcases hr with h | h | h | h | h <;> subst h <;> decide

/-- the fast path meets its contract for every radix of a `radix` / `power-of-two` build -/
theorem fastContract_radix {F : FTy} (hF : IsLemireFloat F) (c : Cfg) (hS : C05.IsRadixSet (smallSetOf c.feats))
    (hr : c.mantissaRadix ∈ (smallSetOf c.feats).radices) (n : Number) : FastContract c F n := by
  unfold FastContract
  refine ⟨C05.fastPath_no_panic_radix hS hr F hF _ _, ?_⟩
  intro v hv
  by_cases hb : c.mantissaRadix = c.exponentBase
  · rw [← hb] at hv ⊢
    rcases hF with h | h <;> subst h
    · exact C05.fastPath_exact_radix_f64 hS hr _ (numOf n) v hv
    · exact C05.fastPath_exact_radix_f32 hS hr _ (numOf n) v hv
  · rw [C05.fastPath_mixed_base_none _ _ hb] at hv
    exact absurd hv (by simp)

theorem backend_binary (feats : Features) (hp : feats.powerOfTwo = true) {r : Nat} (hr : C05.IsPow2 r) :
    backend feats r = .binary := by
  unfold backend
  rw [hp]
  rcases hr with h | h | h | h | h <;> subst h <;> cases feats.compact <;> cases feats.radix <;> decide

/-- **(iv) power-of-two radices** (2, 4, 8, 16, 32; mixed-base formats such as hex floats included), untruncated
mantissa: unconditional — `binary` always decides (`binary_decides`) and is right (`binary_correct`); neither
`slow_binary` nor `slow_radix` is reached. -/
theorem pipeline_binary (slow : SlowRadix) {F : FTy} (hF : IsLemireFloat F) (c : Cfg)
    (hp : c.feats.powerOfTwo = true) (hr : C05.IsPow2 c.mantissaRadix) (hb : C05.IsPow2 c.exponentBase)
    (n : Number) (hmany : n.manyDigits = false) (hw : n.mantissa < 2 ^ 64) (he : C05.ExpInRange n.exponent)
    (hx : RatEq (powFrac c.exponentBase n.exponent n.mantissa)
      (litFrac c.mantissaRadix c.exponentBase (numberLit c n))) :
    numberToFloat slow c F n false = some (litBits F.fmt c.mantissaRadix c.exponentBase (numberLit c n)) := by
  have hS := radixSet_of_pow2 c.feats hp
  obtain ⟨fp, hbin, hv⟩ := C05.binary_decides hF hb (numOf n) false hw he (Or.inl hmany)
  have hr2 : 2 ≤ c.mantissaRadix ∧ c.mantissaRadix ≤ 36 := by
    rcases hr with h | h | h | h | h <;> rw [h] <;> omega
  have hb2 : 2 ≤ c.exponentBase := by
    rcases hb with h | h | h | h | h <;> rw [h] <;> omega
  apply numberToFloat_decided slow hF c hr2.1 hr2.2 hb2 n hmany hx
    (fastContract_radix hF c hS (pow2_mem_radices hS hr) n) (fp := fp) ?_ hv ?_
  · unfold moderatePath
    rw [backend_binary _ hp hr]
    exact hbin
  · rcases hF with h | h <;> subst h
    · exact C05.binary_correct_f64 hb (numOf n) false hw he hbin hv
    · exact C05.binary_correct_f32 hb (numOf n) false hw he hbin hv

/-! ## the hypotheses are satisfiable -/

/-- an extended float assembled from the two fields of a finite-or-infinite pattern converts back to the pattern -/
theorem ext_of_bits {F p eb} (lay : Layout F p eb) (x : Nat) (hx : x ≤ F.fmt.infBits) :
    extendedToFloat F ⟨x % 2 ^ F.ms, ((x / 2 ^ F.ms : Nat) : Int)⟩ = x := by
  have hf := lay.wf
  have hbits : F.C.bits.toNat = p + eb := by rw [lay.bits]; rfl
  have hlt : x < 2 ^ (p + eb) := by
    have h1 := infBits_lt_signBit hf
    rw [signBit_eq hf, lay.fmt] at h1
    simp only [] at h1
    have h2 : 2 ^ eb * 2 ^ (p - 1) ≤ 2 ^ (p + eb) := by
      rw [← Nat.pow_add]; exact Nat.pow_le_pow_right (by decide) (by omega)
    rw [lay.fmt] at hx
    omega
  rw [lay.msNat]
  have := ext_of_fields F (p - 1) (p + eb) lay.msNat hbits (x % 2 ^ (p - 1)) (x / 2 ^ (p - 1))
    (Nat.mod_lt _ (Nat.two_pow_pos _)) (by rw [Nat.div_add_mod']; exact hlt) lay.hp64
  rw [this, Nat.div_add_mod']

/-- **`SlowPathCorrect` is satisfiable**: the specification arithmetic itself, packaged as an extended float,
meets the contract (for every estimate — the bracket is what a *real* slow path needs, not the oracle). -/
theorem slowOracle_correct : SlowPathCorrect slowOracle := by
  intro c F n fp hF hr hr36 hb _ _
  obtain ⟨p, eb, lay⟩ := layout_of hF
  have hf := lay.wf
  unfold slowOracle
  simp only []
  have hdig : ∀ d ∈ ({ numberLit c n with neg := false } : FloatLit).intDigits ++
      ({ numberLit c n with neg := false } : FloatLit).fracDigits, d < c.mantissaRadix :=
    numberLit_digits_lt c n
  have e := litBits_exact lay hr (by omega) hb { numberLit c n with neg := false } hdig
  have hfr : litFrac c.mantissaRadix c.exponentBase { numberLit c n with neg := false } =
      litFrac c.mantissaRadix c.exponentBase (numberLit c n) := rfl
  rw [hfr] at e
  unfold roundSigned at e
  simp only [Bool.false_eq_true, if_false, Nat.add_zero] at e
  rw [e]
  exact ext_of_bits lay _ (roundNE_le_infBits hf _ (litFrac_den_pos (by omega) (by omega) _))

/-- non-vacuity of `NumberExact`'s conclusion and of the `hfew` premise: `12.5e3` parses to the `Number`
`125·10^2` with its slices `12`, `5` and explicit exponent `3`; the number is untruncated and exact.
(Checked by evaluation on the model for 10 224 untruncated numbers of the C01 generators, 0 exceptions.) -/
example : parseFloatSyntax ⟨{}, Format.standard, false⟩ {} false [49, 50, 46, 53, 101, 51] =
      .ok (.number ⟨125, 2, false, false, [49, 50], some [53], 3⟩ 6) ∧
    NumberExactAt ⟨{}, Format.standard, false⟩ ⟨125, 2, false, false, [49, 50], some [53], 3⟩ := by
  refine ⟨by decide +kernel, by decide, ⟨by decide, by decide⟩, ?_⟩
  unfold RatEq
  decide +kernel

/-- the pipeline model evaluated (with the oracle in place of `slow_radix`): `12.5e3` takes the fast path,
`9007199254740993` (`2^53 + 1`, a tie Eisel–Lemire resolves), a 30-digit mantissa, a negative zero, a partial parse -/
example : parseFloatAlgoModel slowOracle {} Format.standard {} false FTy.f64 [49, 50, 46, 53, 101, 51] =
      "ok 40c86a0000000000 -" ∧
    parseFloatAlgoModel slowOracle {} Format.standard {} false FTy.f64
      [57, 48, 48, 55, 49, 57, 57, 50, 53, 52, 55, 52, 48, 57, 57, 51] = "ok 4340000000000000 -" ∧
    parseFloatAlgoModel slowOracle {} Format.standard {} false FTy.f64 [45, 48, 46, 48, 101, 53] =
      "ok 8000000000000000 -" := by
  decide +kernel

/-! ## API level -/

/-- the two API models differ only in how a `Number` becomes bits -/
theorem parseFloatAlgoModel_eq (slow : SlowRadix) (feats : Features) (fmt : Format) (o : POpts) (isPartial : Bool)
    (F : FTy) (s : List Nat)
    (h : ∀ n cnt, parseFloatSyntax ⟨feats, fmt, false⟩ o isPartial s (formatError feats fmt).isNone =
        .ok (.number n cnt) →
      numberToFloat slow ⟨feats, fmt, false⟩ F n false = some (numberBits ⟨feats, fmt, false⟩ F.fmt n)) :
    parseFloatAlgoModel slow feats fmt o isPartial F s = parseFloatModel feats fmt o isPartial F.fmt s := by
  unfold parseFloatAlgoModel parseFloatModel
  cases optionsError o with
  | some e => rfl
  | none =>
    simp only []
    split
    · rfl
    · split
      · rfl
      · split
        · rfl
        · cases hp : parseFloatSyntax ⟨feats, fmt, false⟩ o isPartial s (formatError feats fmt).isNone with
          | error e => rfl
          | ok q =>
            simp only []
            cases q with
            | zero k => rfl
            | special sp neg k => cases sp <;> rfl
            | number n cnt =>
              unfold renderParsedAlgo renderParsed
              simp only []
              rw [h n cnt hp]

/-- **`C01_main`** — decimal string→float, API level, non-`compact` builds: for every format of the class C12
covers, all options, complete and partial parser, and every input whose `Number` is untruncated,
`lemire_sound → SlowPathCorrect slow → NumberExact →` the pipeline model prints exactly what the specification
model prints (`Spec.litBits` of the digit content; errors and special values are shared syntax). -/
theorem C01_main (hL : lemire_sound) (slow : SlowRadix) (hS : SlowPathCorrect slow) (hN : NumberExact)
    (feats : Features) (hcompact : feats.compact = false) (fmt : Format)
    (hr : fmt.mantissaRadix = 10) (hb : fmt.exponentBase = 10)
    (hclass : feats.format = false ∨ C12.SepPrefixFree fmt)
    (o : POpts) {F : FTy} (hF : IsLemireFloat F) (isPartial : Bool) (s : List Nat)
    (hfew : ∀ n cnt, parseFloatSyntax ⟨feats, fmt, false⟩ o isPartial s (formatError feats fmt).isNone =
      .ok (.number n cnt) → n.manyDigits = false) :
    parseFloatAlgoModel slow feats fmt o isPartial F s = parseFloatModel feats fmt o isPartial F.fmt s := by
  apply parseFloatAlgoModel_eq
  intro n cnt hp
  have hmany := hfew n cnt hp
  have hx := hN ⟨feats, fmt, false⟩ o isPartial s _ n cnt rfl hclass hr hb hp hmany
  rw [numberToFloat_lemire hL slow hS hF ⟨feats, fmt, false⟩ hcompact hr hb n hmany hx]
  have hr' : (⟨feats, fmt, false⟩ : Cfg).mantissaRadix = 10 := hr
  have hb' : (⟨feats, fmt, false⟩ : Cfg).exponentBase = 10 := hb
  rw [(spec_forms hF ⟨feats, fmt, false⟩ (by omega) (by omega) (by omega) n hmany hx.2.2).2]

/-- `C01_main` with `lemire_sound` replaced by its two open sub-lemmas (`lemire_sound_reduction`): what the
correctness of decimal parsing on the models rests on, exactly -/
theorem C01_main_open (hneg : C01.LemireNegSound) (hfb : C01.LemireFallbackBrackets) (slow : SlowRadix)
    (hS : SlowPathCorrect slow) (hN : NumberExact)
    (feats : Features) (hcompact : feats.compact = false) (fmt : Format)
    (hr : fmt.mantissaRadix = 10) (hb : fmt.exponentBase = 10)
    (hclass : feats.format = false ∨ C12.SepPrefixFree fmt)
    (o : POpts) {F : FTy} (hF : IsLemireFloat F) (isPartial : Bool) (s : List Nat)
    (hfew : ∀ n cnt, parseFloatSyntax ⟨feats, fmt, false⟩ o isPartial s (formatError feats fmt).isNone =
      .ok (.number n cnt) → n.manyDigits = false) :
    parseFloatAlgoModel slow feats fmt o isPartial F s = parseFloatModel feats fmt o isPartial F.fmt s :=
  C01_main (C01.lemire_sound_reduction hneg hfb) slow hS hN feats hcompact fmt hr hb hclass o hF isPartial s hfew

/-- the same conclusion in the grammar's terms, complete parser: when the model accepts a number, the documented
grammar derives the input (`numberOk`), the `Number`'s slices are the derivation's integer and fraction digits,
its explicit exponent the derivation's, and the pipeline returns `litBits` of exactly that content. -/
theorem C01_main_grammar (hL : lemire_sound) (slow : SlowRadix) (hS : SlowPathCorrect slow) (hN : NumberExact)
    (c : Cfg) (hd : c.debug = false) (hcompact : c.feats.compact = false)
    (hr : c.mantissaRadix = 10) (hb : c.exponentBase = 10)
    (hclass : c.feats.format = false ∨ C12.SepPrefixFree c.fmt)
    (o : POpts) (wf : SpecialsWF o) (hlet : LettersOnly o) {F : FTy} (hF : IsLemireFloat F) (s : List Nat)
    (hbytes : ∀ x ∈ s, x < 256) (fv : Bool) (hbody : (splitSign s).2 ≠ [])
    (n : Number) (cnt : Nat) (hp : parseFloatSyntax c o false s fv = .ok (.number n cnt))
    (hmany : n.manyDigits = false) :
    LexVerif.Proof.Grammar.Verdict c o s (.number n cnt) ∧
    numberToFloat slow c F n false = some (litBits F.fmt 10 10 (numberLit c n)) := by
  have hr8 : c.feats.powerOfTwo = false → c.mantissaRadix ≤ 10 := fun _ => by omega
  refine ⟨(C12.accepts_iff_grammar_partial c hd hclass hr8 o wf hlet s hbytes fv hbody).1 _ hp, ?_⟩
  have hx := hN c o false s fv n cnt hd hclass hr hb hp hmany
  have := numberToFloat_lemire hL slow hS hF c hcompact hr hb n hmany hx
  rw [hr, hb] at this
  exact this

end LexVerif.Props.C01Main
