import LexVerif.Model.WriteInt
/-!
# C03 — integer→string output is the exact canonical numeral in every radix (property theorems)
-/
namespace LexVerif.Props.C03
open LexVerif.Spec LexVerif.Model LexVerif.Model.WriteInt

end LexVerif.Props.C03
