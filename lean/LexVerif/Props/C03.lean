import LexVerif.Proof.WriteIntApi
import LexVerif.Proof.WriteIntAlgorithm
import LexVerif.Proof.WriteIntDecimal128
import LexVerif.Proof.WriteIntDecimalCount
import LexVerif.Proof.WriteIntAlgorithmU128
/-!
# C03 — integer→string output is the exact canonical numeral in every radix (property theorems)

`Model.WriteInt.writeInt feats t radix reqSign checkValid v buffer` is the model of
`lexical_core::write(_with_options)::<T, FORMAT>(v, buffer)`; `expected` is the specification
(`signBytes ++ Spec.numeral radix |v|`). Helper lemmas live in `Proof/WriteInt*.lean`, `Proof/Numeral.lean`.
-/
namespace LexVerif.Props.C03
open LexVerif.Spec LexVerif.Model LexVerif.Model.WriteInt

/-- **Full statement of C03 on the model.** For every feature set (with `radix ⇒ power-of-two`), each of the
12 integer types, every radix the feature set accepts, every value in range, either setting of
`required_mantissa_sign`, and every buffer of at least the documented size (`buffer_size_const`, i.e.
`FORMATTED_SIZE_DECIMAL` for radix 10 and `FORMATTED_SIZE` otherwise; one more byte when an *unsigned* type
is written with a required `+`, see `plus_sign_needs_one_more_byte`), the writer returns exactly
sign ++ canonical numeral at offset 0, the returned count is its length, the rest of the buffer is
untouched, and neither FAULT (out-of-range unchecked access) nor PANIC occurs. -/
-- Status: PROVED in full (`writeInt_correct_full_holds` at the end of this file), assembled from
-- `writeInt_correct_compact`, `writeInt_correct_decimal` and `writeInt_correct_radix`.
def writeInt_correct_full : Prop :=
  ∀ (feats : Features) (t : IntTy) (radix : Nat) (reqSign checkValid : Bool) (v : Int) (buffer : Buf),
    FeaturesWF feats → ValidBits t.bits → validRadix feats radix = true → t.inRange v →
    requiredSize feats t radix reqSign ≤ buffer.length →
    writeInt feats t radix reqSign checkValid v buffer =
      .ok (expected feats radix reqSign v ++ buffer.drop (expected feats radix reqSign v).length,
           (expected feats radix reqSign v).length)

/-- `compact.rs` writes the canonical numeral (any type width ≤ 128, any radix 2..36). -/
theorem compact_correct (bits r value : Nat) (buffer : Buf) (hb8 : 8 ≤ bits) (hb : bits ≤ 128)
    (hr : 2 ≤ r) (hr36 : r ≤ 36) (hv : value < 2 ^ bits) (hbuf : (numeral r value).length ≤ buffer.length) :
    compact bits r value buffer =
      .ok (numeral r value ++ buffer.drop (numeral r value).length, (numeral r value).length) :=
  compact_spec bits r value buffer hb8 hb hr hr36 hv hbuf

example : compact 8 36 255 (List.replicate 3 170) = .ok ([55, 51, 170], 2) := by decide +kernel

/-- **C03 for every `compact` build**: all 12 types, all radices of the feature set, all values, both sign
settings. -/
theorem writeInt_correct_compact (feats : Features) (t : IntTy) (radix : Nat) (reqSign checkValid : Bool)
    (v : Int) (buffer : Buf) (hc : feats.compact = true)
    (hwf : FeaturesWF feats) (hbits : ValidBits t.bits) (hvalid : validRadix feats radix = true)
    (hv : t.inRange v) (hbuf : requiredSize feats t radix reqSign ≤ buffer.length) :
    writeInt feats t radix reqSign checkValid v buffer =
      .ok (expected feats radix reqSign v ++ buffer.drop (expected feats radix reqSign v).length,
           (expected feats radix reqSign v).length) := by
  obtain ⟨hr2, hr36⟩ := validRadix_range feats radix hvalid
  have hsize := size_ok feats hwf t hbits radix hvalid reqSign v hv
  have hmaglt : v.natAbs < 2 ^ t.bits := by
    obtain ⟨bits, sg⟩ := t
    simp only [IntTy.inRange, IntTy.minVal, IntTy.maxVal, IntTy.maxMag] at hv
    simp only at hbits ⊢
    rcases hbits with h | h | h | h | h <;> subst h <;> cases sg <;> simp at hv <;> omega
  have hlen128 : (numeral radix v.natAbs).length ≤ 128 := by
    rw [numeral_length]
    have := toDigits_length_le_bits radix v.natAbs t.bits hr2
      (by rcases hbits with h | h | h | h | h <;> omega) hmaglt
    rcases hbits with h | h | h | h | h <;> omega
  apply writeInt_of_mantissa feats t radix reqSign checkValid v buffer (numeral radix v.natAbs).length hbits
    hvalid hv ?_ (by omega) (Nat.le_refl _) (by omega)
  intro buf hb
  unfold writeMantissa
  rw [if_pos hc]
  exact compact_spec t.bits radix v.natAbs buf (by rcases hbits with h | h | h | h | h <;> omega)
    (by rcases hbits with h | h | h | h | h <;> omega) hr2 hr36 hmaglt hb

/-- non-vacuity: the hypotheses are satisfiable (i8, radix 7, −128, compact+radix build) and the model really
computes the numeral there. -/
example : writeInt { compact := true, powerOfTwo := true, radix := true } ⟨8, true⟩ 7 false true (-128)
    (List.replicate 16 170) = .ok ([45, 50, 52, 50] ++ List.replicate 12 170, 4) := by decide +kernel

/-- `digit_count(value, radix)` is exact on u8..u64 for every non-decimal radix (power-of-two radices through
`fast_log2`, all others through the naive 4/2/1 loops). -/
theorem digitCount_exact (bits r value : Nat) (hb : SmallBits bits) (hr : 2 ≤ r) (hr36 : r ≤ 36) (h10 : r ≠ 10)
    (hv : value < 2 ^ bits) : digitCountSmall bits value r = .ok (toDigits r value).length :=
  digitCountSmall_spec bits r value hb hr hr36 h10 hv

example : digitCountSmall 8 255 11 = .ok 3 := by decide +kernel

/-- `write_digits` (the 4-2-1 digit-pair loop with unchecked writes) writes exactly the canonical numeral in the
`len` bytes below `index`, touches nothing else, and never faults, for u8..u64 and every radix. -/
theorem writeDigits_correct (bits r value : Nat) (hb : SmallBits bits) (hr : 2 ≤ r) (hr36 : r ≤ 36)
    (hv : value < 2 ^ bits) (pre suf : List Nat) (hlen : (toDigits r value).length ≤ pre.length)
    (hp64 : pre.length < 2 ^ 64) :
    ∃ pre', pre'.length + (toDigits r value).length = pre.length ∧
      writeDigits bits value r (pre ++ suf) pre.length = .ok (pre' ++ numeral r value ++ suf, pre'.length) := by
  obtain ⟨H4, H2, HN2⟩ := widths_ok bits r hb hr hr36
  exact writeDigits_spec bits r value hr hr36 (by rcases hb with h | h | h | h <;> omega)
    (by rcases hb with h | h | h | h <;> omega) hv H4 H2 HN2 pre suf hlen hp64

/-- **C03 for the generic radix writer** (`algorithm.rs`, builds with `power-of-two`/`radix`, not `compact`):
every non-decimal radix of the feature set, all of u8..u64, i8..i64, usize, isize, and those u128/i128 values
whose magnitude fits in 64 bits (the `value <= u64::MAX` shortcut of `algorithm_u128`).
Not covered here (correspondence only): 128-bit magnitudes ≥ 2^64 (`u128_divrem` chunking). -/
theorem writeInt_correct_radix_partial (feats : Features) (t : IntTy) (radix : Nat) (reqSign checkValid : Bool)
    (v : Int) (buffer : Buf) (hc : feats.compact = false)
    (hwf : FeaturesWF feats) (hbits : ValidBits t.bits) (hvalid : validRadix feats radix = true)
    (h10 : radix ≠ 10) (hv : t.inRange v) (hsmall : t.bits = 128 → v.natAbs < 2 ^ 64)
    (hbuf : requiredSize feats t radix reqSign ≤ buffer.length) :
    writeInt feats t radix reqSign checkValid v buffer =
      .ok (expected feats radix reqSign v ++ buffer.drop (expected feats radix reqSign v).length,
           (expected feats radix reqSign v).length) := by
  obtain ⟨hr2, hr36⟩ := validRadix_range feats radix hvalid
  have hp2 := validRadix_ne10 feats radix hwf hvalid h10
  have hsize := size_ok feats hwf t hbits radix hvalid reqSign v hv
  have hmaglt : v.natAbs < 2 ^ t.bits := by
    obtain ⟨bits, sg⟩ := t
    simp only [IntTy.inRange, IntTy.minVal, IntTy.maxVal, IntTy.maxMag] at hv
    simp only at hbits ⊢
    rcases hbits with h | h | h | h | h <;> subst h <;> cases sg <;> simp at hv <;> omega
  have htab : hasTable feats radix = true := by
    unfold hasTable; unfold validRadix at hvalid
    by_cases hrx : feats.radix = true
    · rw [if_pos hrx] at hvalid ⊢; exact hvalid
    · rw [if_neg hrx] at hvalid ⊢; rw [if_pos hp2] at hvalid; exact hvalid
  have hlen128 : (numeral radix v.natAbs).length ≤ 128 := by
    rw [numeral_length]
    have := toDigits_length_le_bits radix v.natAbs t.bits hr2
      (by rcases hbits with h | h | h | h | h <;> omega) hmaglt
    rcases hbits with h | h | h | h | h <;> omega
  apply writeInt_of_mantissa feats t radix reqSign checkValid v buffer (numeral radix v.natAbs).length hbits
    hvalid hv ?_ (by omega) (Nat.le_refl _) (by omega)
  intro buf hb
  unfold writeMantissa
  rw [if_neg (by simp [hc]), if_neg (by simp [hp2]), if_neg h10]
  rcases hbits with h | h | h | h | h
  · exact radixWrite_small_spec feats t.bits radix _ (Or.inl h) hr2 hr36 h10 hmaglt htab buf hb
  · exact radixWrite_small_spec feats t.bits radix _ (Or.inr (Or.inl h)) hr2 hr36 h10 hmaglt htab buf hb
  · exact radixWrite_small_spec feats t.bits radix _ (Or.inr (Or.inr (Or.inl h))) hr2 hr36 h10 hmaglt htab buf hb
  · exact radixWrite_small_spec feats t.bits radix _ (Or.inr (Or.inr (Or.inr h))) hr2 hr36 h10 hmaglt htab buf hb
  · rw [h]
    exact radixWrite_u128_small_spec feats radix _ hr2 hr36 h10 (hsmall h) htab hvalid buf hb

/-- `u128_divrem(n, radix) = (n / radix^u64_step(radix), n % radix^u64_step(radix))` for every 128-bit `n` and every
radix of the feature set: `pow2_u128_divrem`, `moderate_u128_divrem` / `fast_u128_divrem` (multiply-high with the
Granlund–Montgomery precondition on the literal constants) and `slow_u128_divrem` (bit-serial loop invariant). -/
theorem u128_divrem_correct (feats : Features) (n radix : Nat) (hvalid : validRadix feats radix = true)
    (hn : n < 2 ^ 128) :
    u128Divrem feats n radix = .ok (n / radix ^ u64StepTable radix, n % radix ^ u64StepTable radix) :=
  u128Divrem_spec feats n radix hvalid hn

example : u128Divrem { powerOfTwo := true, radix := true } (2 ^ 127 + 12345) 3 =
    .ok ((2 ^ 127 + 12345) / 3 ^ 40, (2 ^ 127 + 12345) % 3 ^ 40) := by decide +kernel

/-- `digit_count` of a `u128` is exact for every non-decimal radix (chunked variant included) -/
theorem digitCountU128_exact (feats : Features) (value radix : Nat) (hvalid : validRadix feats radix = true)
    (h10 : radix ≠ 10) (hv : value < 2 ^ 128) :
    digitCountU128 feats value radix = .ok (toDigits radix value).length :=
  digitCountU128_spec feats value radix hvalid h10 hv

/-- **C03 for the generic radix writer, complete**: every non-compact build with `power-of-two`/`radix`, every
non-decimal radix of the feature set, all 12 integer types, every value (for 128-bit magnitudes above
`u64::MAX`: `u128_divrem` chunking, `write_step_digits`, the chunked digit count). -/
theorem writeInt_correct_radix (feats : Features) (t : IntTy) (radix : Nat) (reqSign checkValid : Bool)
    (v : Int) (buffer : Buf) (hc : feats.compact = false)
    (hwf : FeaturesWF feats) (hbits : ValidBits t.bits) (hvalid : validRadix feats radix = true)
    (h10 : radix ≠ 10) (hv : t.inRange v)
    (hbuf : requiredSize feats t radix reqSign ≤ buffer.length) :
    writeInt feats t radix reqSign checkValid v buffer =
      .ok (expected feats radix reqSign v ++ buffer.drop (expected feats radix reqSign v).length,
           (expected feats radix reqSign v).length) := by
  by_cases hsmall : t.bits = 128 → v.natAbs < 2 ^ 64
  · exact writeInt_correct_radix_partial feats t radix reqSign checkValid v buffer hc hwf hbits hvalid h10 hv hsmall hbuf
  · have h128 : t.bits = 128 := by
      rcases Classical.em (t.bits = 128) with h | h
      · exact h
      · exact absurd (fun h' => absurd h' h) hsmall
    have hbig : ¬ v.natAbs ≤ 2 ^ 64 - 1 := by
      intro hle; exact hsmall (fun _ => by omega)
    obtain ⟨hr2, hr36⟩ := validRadix_range feats radix hvalid
    have hp2 := validRadix_ne10 feats radix hwf hvalid h10
    have hsize := size_ok feats hwf t hbits radix hvalid reqSign v hv
    have hmaglt : v.natAbs < 2 ^ 128 := by
      obtain ⟨bits, sg⟩ := t
      simp only [IntTy.inRange, IntTy.minVal, IntTy.maxVal, IntTy.maxMag] at hv
      simp only at h128
      subst h128
      cases sg <;> simp at hv <;> omega
    have htab : hasTable feats radix = true := by
      unfold hasTable; unfold validRadix at hvalid
      by_cases hrx : feats.radix = true
      · rw [if_pos hrx] at hvalid ⊢; exact hvalid
      · rw [if_neg hrx] at hvalid ⊢; rw [if_pos hp2] at hvalid; exact hvalid
    have hlen128 : (numeral radix v.natAbs).length ≤ 128 := by
      rw [numeral_length]; exact toDigits_length_le_bits radix v.natAbs 128 hr2 (by omega) hmaglt
    apply writeInt_of_mantissa feats t radix reqSign checkValid v buffer (numeral radix v.natAbs).length hbits
      hvalid hv ?_ (by omega) (Nat.le_refl _) (by omega)
    intro buf hb
    unfold writeMantissa
    rw [if_neg (by simp [hc]), if_neg (by simp [hp2]), if_neg h10, h128]
    unfold radixWrite
    rw [if_neg (by simp [htab]), if_pos rfl]
    exact algorithmU128_big_spec feats v.natAbs radix hvalid h10 hmaglt hbig buf hb

/-- non-vacuity: u128::MAX in radix 36 (two `u128_divrem` steps) and in radix 3 (`slow_u128_divrem`) -/
example : (writeInt { powerOfTwo := true, radix := true } ⟨128, false⟩ 36 false true
      340282366920938463463374607431768211455 (List.replicate 256 170)) =
    .ok ([70, 53, 76, 88, 88, 49, 90, 90, 53, 80, 78, 79, 82, 89, 78, 81, 71, 76, 72, 90, 77, 83, 80, 51, 51]
      ++ List.replicate 231 170, 25) := by decide +kernel

/-- non-vacuity: i64::MIN in radix 36 on a `radix` build -/
example : writeInt { powerOfTwo := true, radix := true } ⟨64, true⟩ 36 false true (-9223372036854775808)
    (List.replicate 128 170) =
    .ok ([45, 49, 89, 50, 80, 48, 73, 74, 51, 50, 69, 56, 69, 56] ++ List.replicate 114 170, 14) := by
  decide +kernel

/-- the decimal digit counts (`fast_digit_count` with its 32-row table for u8/u16/u32, `fallback_digit_count` with
`fast_log10` and the power-of-ten tables for u64/u128) are exact for every value. (They are not on the integer
write path — radix 10 goes through jeaiii — but the float writers use them.) -/
theorem decimalCount_exact (bits x : Nat) (hb : ValidBits bits) (hx : x < 2 ^ bits) :
    decimalCount bits x = .ok (toDigits 10 x).length :=
  decimalCount_spec bits x hb hx

example : decimalCount 32 999999999 = .ok 9 ∧ decimalCount 32 1000000000 = .ok 10 := by decide +kernel

/-- `Decimal::decimal(_signed)` (the jeaiii writers `from_u8 … from_u128`, `from_i64`) writes exactly the decimal
numeral into any buffer of at least the type's slice size, for every value. -/
theorem decimal_correct (bits value : Nat) (signedCall : Bool) (hb : ValidBits bits) (hv : value < 2 ^ bits)
    (hs : signedCall = true → value ≤ 2 ^ (bits - 1)) :
    MantSpec (decimal bits value signedCall) (numeral 10 value) (needDec bits signedCall) :=
  decimal_spec bits value signedCall hb hv hs

/-- **C03 for the decimal writers** (`decimal.rs` / `jeaiii.rs`): every non-compact build (default, `format`,
`power-of-two`, `radix`), radix 10, all 12 integer types, every value, both sign settings: the jeaiii comparison
trees `from_u8 … from_u128`, every `write_digits!` arm (fixed-point digit extraction with the literal
multipliers), `@10alex` and `div128_rem_1e10`. -/
theorem writeInt_correct_decimal (feats : Features) (t : IntTy) (reqSign checkValid : Bool)
    (v : Int) (buffer : Buf) (hc : feats.compact = false)
    (hbits : ValidBits t.bits) (hvalid : validRadix feats 10 = true)
    (hv : t.inRange v) (hbuf : requiredSize feats t 10 reqSign ≤ buffer.length) :
    writeInt feats t 10 reqSign checkValid v buffer =
      .ok (expected feats 10 reqSign v ++ buffer.drop (expected feats 10 reqSign v).length,
           (expected feats 10 reqSign v).length) := by
  obtain ⟨bits, sg⟩ := t
  simp only at hbits
  have hv' := hv
  simp only [IntTy.inRange, IntTy.minVal, IntTy.maxVal, IntTy.maxMag] at hv'
  -- magnitude bounds
  have hmag1 : v.natAbs < 2 ^ bits := by
    rcases hbits with h | h | h | h | h <;> subst h <;> cases sg <;> simp at hv' <;> omega
  have hmag2 : sg = true → v.natAbs ≤ 2 ^ (bits - 1) := by
    intro hsg; subst hsg
    rcases hbits with h | h | h | h | h <;> subst h <;> simp at hv' <;> omega
  have hM := decimal_spec bits v.natAbs sg hbits hmag1 hmag2
  have hMant : MantSpec (writeMantissa feats bits 10 v.natAbs sg) (numeral 10 v.natAbs) (needDec bits sg) := by
    intro buf hb
    unfold writeMantissa
    rw [if_neg (by simp [hc])]
    by_cases hp : feats.powerOfTwo = true
    · rw [if_neg (by simp [hp]), if_pos rfl]; exact hM buf hb
    · rw [if_pos (by simp [hp])]; exact hM buf hb
  have hroom := dec_room feats ⟨bits, sg⟩ reqSign v hbits hv
  simp only at hroom
  apply writeInt_of_mantissa feats ⟨bits, sg⟩ 10 reqSign checkValid v buffer _ hbits hvalid hv hMant (by omega)
  · -- the numeral fits the slice
    rcases hbits with h | h | h | h | h <;> subst h <;> cases sg <;> simp at hv' <;>
      first
        | exact dec_len_le _ 3 (by omega) (by omega)
        | exact dec_len_le _ 5 (by omega) (by omega)
        | exact dec_len_le _ 10 (by omega) (by omega)
        | exact dec_len_le _ 19 (by omega) (by omega)
        | exact dec_len_le _ 20 (by omega) (by omega)
        | exact dec_len_le _ 39 (by omega) (by omega)
  · rcases hbits with h | h | h | h | h <;> subst h <;> cases sg <;> simp [needDec]

/-- non-vacuity: u64::MAX and i128::MIN on the default build -/
example : writeInt {} ⟨64, false⟩ 10 false false 18446744073709551615 (List.replicate 20 170) =
    .ok ([49, 56, 52, 52, 54, 55, 52, 52, 48, 55, 51, 55, 48, 57, 53, 53, 49, 54, 49, 53], 20) := by decide +kernel
example : writeInt {} ⟨128, true⟩ 10 false false (-170141183460469231731687303715884105728)
    (List.replicate 40 170) =
    .ok ([45, 49, 55, 48, 49, 52, 49, 49, 56, 51, 52, 54, 48, 52, 54, 57, 50, 51, 49, 55, 51, 49, 54, 56, 55, 51, 48, 51, 55, 49, 53, 56, 56, 52, 49, 48, 53, 55, 50, 56], 40) := by
  decide +kernel

/-- **C03 holds on the model, in full**: `writeInt_correct_full` for every feature set, type, radix, value, sign
setting and buffer of the documented size. -/
theorem writeInt_correct_full_holds : writeInt_correct_full := by
  intro feats t radix reqSign checkValid v buffer hwf hbits hvalid hv hbuf
  by_cases hc : feats.compact = true
  · exact writeInt_correct_compact feats t radix reqSign checkValid v buffer hc hwf hbits hvalid hv hbuf
  · have hc' : feats.compact = false := by simpa using hc
    by_cases h10 : radix = 10
    · subst h10
      exact writeInt_correct_decimal feats t reqSign checkValid v buffer hc' hbits hvalid hv hbuf
    · exact writeInt_correct_radix feats t radix reqSign checkValid v buffer hc' hwf hbits hvalid h10 hv hbuf

/-- **Finding (kept out of the theorem by `requiredSize`)**: with the `format` feature and
`required_mantissa_sign`, an unsigned value written into a buffer of exactly `buffer_size_const`
(`FORMATTED_SIZE_DECIMAL`) bytes panics: the constant does not count the `+`. -/
theorem plus_sign_needs_one_more_byte :
    writeInt { format := true } ⟨8, false⟩ 10 true true 5 (List.replicate (bufferSizeConst { format := true } ⟨8, false⟩ 10) 170)
      = .panic := by decide

end LexVerif.Props.C03
