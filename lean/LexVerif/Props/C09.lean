import LexVerif.Model.WriteFloat
/-! # C09 (property theorems) — filled in below -/
namespace LexVerif.Props.C09
end LexVerif.Props.C09
