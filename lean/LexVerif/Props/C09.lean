import LexVerif.Proof.WriteFloatSafe
import LexVerif.Proof.WriteFloatFixed
import LexVerif.Props.C03
import LexVerif.Proof.WriteFloatDragon
/-!
# C09 — documented buffer bound, no out-of-slice access (property theorems)

All statements are about `Model.WriteFloat.writeFloat` (buffer-faithful model of `WriteFloat::write_float`, both decimal
back-ends) and the integer sizes of `Gen.Sizes`.
* `float_bound_before_fix`: with a buffer of at least `buffer_size_const` bytes, valid format/options, a decimal digit list as the
  digit generators produce and `SafeOpts`, the call succeeds, returns at most `buffer_size_const` bytes and never writes
  at or beyond index `buffer_size_const`.
* `float_bound_before_fix_full` (`def … : Prop`): the same without `SafeOpts` — **false**; `bound_too_small_*` are decided
  witnesses (they replay as panics on the implementation: findings).
* `short_buffer_safe_before_fix`: with ANY buffer the model yields `panic` or a result inside the buffer, never `fault`.
* `int_bound_before_fix`: `FORMATTED_SIZE(_DECIMAL)` of `Gen.Sizes` holds every numeral of every integer type and radix, sign
  included — for signed types; for unsigned types the optional `+` does not fit (`int_plus_sign_exception_before_fix`).
-/
namespace LexVerif.Props.C09
open LexVerif.Spec LexVerif.Model LexVerif.Model.WriteFloat LexVerif.Proof.WriteFloatBuf LexVerif.Proof.WriteFloatBound
open LexVerif.Model.WriteInt (Res)

/-- sign bytes written by `write_float` -/
def signBytes (feats : Features) (f : Fmt) (fmt : Format) (bits : Nat) : List Nat :=
  if f.isNeg bits ∧ ¬ f.isNaN bits then [45] else if feats.format ∧ fmt.requiredMantissaSign then [43] else []

theorem signBytes_length_le (feats : Features) (f : Fmt) (fmt : Format) (bits : Nat) :
    (signBytes feats f fmt bits).length ≤ 1 := by
  unfold signBytes; repeat' split
  all_goals simp

/-- hypotheses shared by the float theorems: a finite value on the decimal path, digits as the generators produce them -/
structure DecimalCall (feats : Features) (f : Fmt) (fmt : Format) (o : WOpts) (bits : Nat) (ds : List Nat) (sci : Int) : Prop where
  valid : FormatError.isValid feats fmt.raw = true
  mixed : mixedRadixOk feats fmt = true
  finite : f.isSpecial bits = false
  decimal : backend feats fmt = .decimal
  radix10 : fmt.mantissaRadix = 10
  expRadix10 : (effFmt feats fmt).exponentRadix = 10
  opts : NumOpts o
  digits1 : 1 ≤ ds.length
  digitsN : ds.length ≤ mantNeed f
  range : -324 ≤ sci ∧ sci ≤ 308

/-- `write_float` (with `bound` in `check_buffer`) on the decimal path, reduced to the back-end on the sub-slice after the sign -/
theorem writeFloatB_eq (bound : Nat) (feats : Features) (f : Fmt) (fmt : Format) (o : WOpts) (bits : Nat) (ds : List Nat)
    (sci : Int) (buf : List Nat) (hc : DecimalCall feats f fmt o bits ds sci) (h64 : 64 ≤ bound) (hbuf : bound ≤ buf.length) :
    writeFloatB bound feats f fmt o false bits (ds, sci) buf =
      finalCheck (onTail (signBytes feats f fmt bits) (buf.drop (signBytes feats f fmt bits).length)
          (decimalB fmt feats f false ds sci o)) := by
  have hS := signBytes_length_le feats f fmt bits
  unfold writeFloatB
  rw [if_neg (by omega)]
  simp only [hc.valid, hc.mixed, not_true_eq_false, if_false, hc.finite, Bool.false_eq_true, not_false_eq_true, if_true,
    hc.decimal]
  unfold signBytes at hS ⊢
  rw [if_neg (by omega)]

/-- whenever sign + slice need of the back-end fit a bound (≥ 64) that the buffer satisfies, the call returns, returns at
most `bound` bytes and writes no index `≥ bound` -/
theorem float_bound_of (bound : Nat) (feats : Features) (f : Fmt) (fmt : Format) (o : WOpts) (bits : Nat) (ds : List Nat)
    (sci : Int) (buf : List Nat) (hc : DecimalCall feats f fmt o bits ds sci) (h64 : 64 ≤ bound)
    (hneed : (signBytes feats f fmt bits).length + needDec fmt feats f ds sci o ≤ bound) (hbuf : bound ≤ buf.length) :
    ∃ w, writeFloatB bound feats f fmt o false bits (ds, sci) buf = .done w ∧
      w.len ≤ bound ∧ w.hi ≤ bound ∧ w.bytes.length = buf.length := by
  rw [writeFloatB_eq bound feats f fmt o bits ds sci buf hc h64 hbuf]
  have hS := signBytes_length_le feats f fmt bits
  have h32 : ds.length ≤ 32 := by have := mantNeed_le f; have := hc.digitsN; omega
  generalize signBytes feats f fmt bits = sign at hS hneed ⊢
  unfold onTail
  have hlen : (⟨buf.drop sign.length, 0⟩ : WBuf).len = buf.length - sign.length := by simp [WBuf.len]
  cases hr : decimalB fmt feats f false ds sci o ⟨buf.drop sign.length, 0⟩ with
  | fault => exact absurd hr (decimalB_nofault _ _ _ _ _ _ _ _)
  | panic =>
    have := (decimalB_panic_iff fmt feats f ds sci o _ hc.digits1 h32 hc.opts.mx).mp hr
    rw [hlen] at this; omega
  | ok r =>
    obtain ⟨hl, hcur, hhi⟩ := decimalB_ok_facts fmt feats f ds sci o _ r hc.digits1 hc.opts.mx hr
    rw [hlen] at hl
    have hbl : r.buf.bytes.length = buf.length - sign.length := hl
    dsimp only [finalCheck] at hhi ⊢
    have hle : sign.length + r.cursor ≤ (sign ++ r.buf.bytes).length := by
      have hnp : ¬ ((⟨buf.drop sign.length, 0⟩ : WBuf).len < needDec fmt feats f ds sci o) := by
        intro hlt
        have := (decimalB_panic_iff fmt feats f ds sci o _ hc.digits1 h32 hc.opts.mx).mpr hlt
        rw [hr] at this; cases this
      rw [hlen] at hnp
      simp only [List.length_append, hbl]; omega
    rw [if_pos hle]
    refine ⟨_, rfl, ?_, ?_, ?_⟩
    · dsimp only; omega
    · dsimp only; split <;> omega
    · simp only [List.length_append, hbl]; omega

/-- **C09 `float_bound_before_fix`** (decimal path, both back-ends), the `buffer_size_const` formula BEFORE /repo commit fb7040b (`bufferSizeConstOld`): needed `SafeOpts`. -/
theorem float_bound_before_fix (feats : Features) (f : Fmt) (fmt : Format) (o : WOpts) (bits : Nat) (ds : List Nat) (sci : Int)
    (buf : List Nat) (hc : DecimalCall feats f fmt o bits ds sci) (hsafe : SafeOpts feats f fmt o)
    (hbuf : bufferSizeConstOld feats f fmt o ≤ buf.length) :
    ∃ w, writeFloatOld feats f fmt o false bits (ds, sci) buf = .done w ∧
      w.len ≤ bufferSizeConstOld feats f fmt o ∧ w.hi ≤ bufferSizeConstOld feats f fmt o ∧ w.bytes.length = buf.length :=
  float_bound_of _ feats f fmt o bits ds sci buf hc (bufferSizeConst_ge feats f fmt o hc.radix10).2
    (need_le_bound feats f fmt o ds sci _ hc.radix10 hc.expRadix10 hc.opts hc.digits1 hc.digitsN hc.range
      (signBytes_length_le feats f fmt bits) hsafe) hbuf

/-- **C09 `float_bound`**: with the `buffer_size_const` of the current tree (repaired by /repo commit fb7040b) the bound
holds for ALL valid options and valid decimal formats — no `SafeOpts` — on both back-ends: the call returns, the result
and every index written lie below `bufferSizeConst`. -/
theorem float_bound (feats : Features) (f : Fmt) (fmt : Format) (o : WOpts) (bits : Nat) (ds : List Nat) (sci : Int)
    (buf : List Nat) (hc : DecimalCall feats f fmt o bits ds sci)
    (hbuf : bufferSizeConst feats f fmt o ≤ buf.length) :
    ∃ w, writeFloat feats f fmt o false bits (ds, sci) buf = .done w ∧
      w.len ≤ bufferSizeConst feats f fmt o ∧ w.hi ≤ bufferSizeConst feats f fmt o ∧
      w.bytes.length = buf.length := by
  have hneed := need_le_fixed feats f fmt o ds sci _ hc.radix10 hc.expRadix10 hc.opts hc.digits1 hc.digitsN hc.range
    (signBytes_length_le feats f fmt bits)
  have h64 : 64 ≤ bufferSizeConst feats f fmt o := by
    have := (bufferSizeConst_ge feats f fmt o hc.radix10).2
    have := bufferSizeConst_le_fixed feats f fmt o hc.opts
    omega
  exact float_bound_of _ feats f fmt o bits ds sci buf hc h64 hneed hbuf

/-- the repair only ever enlarges the bound: no existing caller's buffer becomes too small for `check_buffer` … it can
only become too small if it was sized by the OLD formula and is now compared with the new one, which is why the fix must
land in `buffer_size_const` itself (callers obtain the size from it). -/
theorem bound_ge_before_fix (feats : Features) (f : Fmt) (fmt : Format) (o : WOpts) (hno : NumOpts o) :
    bufferSizeConstOld feats f fmt o ≤ bufferSizeConst feats f fmt o :=
  bufferSizeConst_le_fixed feats f fmt o hno

/-- the three witnesses against the formula before the repair succeed under the current one -/
example :
    bufferSizeConst {} LexVerif.Spec.f64 ⟨0xa0a0a0000000000000000000000000c⟩ { maxDigits := some 10, negBreak := some (-100) } = 130 ∧
    writeFloat {} LexVerif.Spec.f64 ⟨0xa0a0a0000000000000000000000000c⟩ { maxDigits := some 10, negBreak := some (-100) } false
      0x2b2bff2ee48e0530 ([1], -100) (List.replicate 130 170) ≠ .panic ∧
    writeFloat {} LexVerif.Spec.f64 ⟨0xa0a0a0000000000000000000000000c⟩ { minDigits := some 100 } false 0x01b01297d23ab683
      ([1, 5], -300) (List.replicate 114 170) ≠ .panic ∧
    bufferSizeConst {} LexVerif.Spec.f64 ⟨0xa0a0a0000000000000000000000000c⟩ { minDigits := some 100 } = 114 ∧
    writeFloat { compact := true } LexVerif.Spec.f64 ⟨0xa0a0a0000000000000000000000000c⟩
      { maxDigits := some 1, posBreak := some 100 } false 0xd4b249ad2594c37d ([1], 100) (List.replicate 130 170) ≠ .panic := by
  decide +kernel

/-- the full statement (no option exclusion) for the formula before the repair — false, see the witnesses below; the current formula satisfies it: `float_bound` -/
def float_bound_before_fix_full : Prop :=
  ∀ (feats : Features) (f : Fmt) (fmt : Format) (o : WOpts) (bits : Nat) (ds : List Nat) (sci : Int) (buf : List Nat),
    DecimalCall feats f fmt o bits ds sci → bufferSizeConstOld feats f fmt o ≤ buf.length →
    ∃ w, writeFloatOld feats f fmt o false bits (ds, sci) buf = .done w ∧ w.hi ≤ bufferSizeConstOld feats f fmt o

/-! ### `short_buffer_safe_before_fix` -/

theorem onTail_facts (pre rest : List Nat) (g : WBuf → Res Out) (hnf : g ⟨rest, 0⟩ ≠ .fault)
    (hok : ∀ r, g ⟨rest, 0⟩ = .ok r → r.buf.bytes.length = rest.length ∧ r.buf.hi ≤ rest.length) :
    onTail pre rest g ≠ .fault ∧
    ∀ w, onTail pre rest g = .done w → w.bytes.length = pre.length + rest.length ∧ w.hi ≤ pre.length + rest.length := by
  unfold onTail
  cases hr : g ⟨rest, 0⟩ with
  | fault => exact absurd hr hnf
  | panic => exact ⟨by simp, by intro w h; cases h⟩
  | ok r =>
    obtain ⟨h1, h2⟩ := hok r hr
    refine ⟨by simp, ?_⟩
    intro w h
    simp only [Outcome.done.injEq] at h
    subst h
    dsimp only
    refine ⟨by simp [h1], ?_⟩
    split <;> omega

theorem writeSpecial_facts (s : Option (List Nat)) (rest : List Nat) :
    writeSpecial s ⟨rest, 0⟩ ≠ .fault ∧
    ∀ r, writeSpecial s ⟨rest, 0⟩ = .ok r → r.buf.bytes.length = rest.length ∧ r.buf.hi ≤ rest.length := by
  unfold writeSpecial
  cases s with
  | none => exact ⟨by simp, by intro r h; cases h⟩
  | some l =>
    refine ⟨bind_nofault _ _ (blit_nofault _ _ _) (fun _ => by intro h; cases h), ?_⟩
    intro r h
    simp only [bind_ok_iff, blit_ok_iff, ex_elim, Res.ok.injEq] at h
    obtain ⟨h1, rfl⟩ := h
    simp only [WBuf.len] at h1
    refine ⟨by simp, ?_⟩
    simp only [put_hi]; omega

theorem decimalB_facts (fmt : Format) (feats : Features) (f : Fmt) (ds : List Nat) (sci : Int) (o : WOpts) (rest : List Nat)
    (hds : 1 ≤ ds.length) (hds32 : ds.length ≤ 32) (hmx : o.maxDigits ≠ some 0) :
    decimalB fmt feats f false ds sci o ⟨rest, 0⟩ ≠ .fault ∧
    ∀ r, decimalB fmt feats f false ds sci o ⟨rest, 0⟩ = .ok r →
      r.buf.bytes.length = rest.length ∧ r.buf.hi ≤ rest.length := by
  refine ⟨decimalB_nofault _ _ _ _ _ _ _ _, ?_⟩
  intro r hr
  obtain ⟨hl, _, hhi⟩ := decimalB_ok_facts fmt feats f ds sci o _ r hds hmx hr
  have hnp : ¬ ((⟨rest, 0⟩ : WBuf).len < needDec fmt feats f ds sci o) := by
    intro hlt
    have := (decimalB_panic_iff fmt feats f ds sci o _ hds hds32 hmx).mpr hlt
    rw [hr] at this; cases this
  simp only [WBuf.len] at hl hnp
  dsimp only at hhi
  exact ⟨hl, by omega⟩

/-- **C09 `short_buffer_safe_before_fix`**: whatever the buffer length, format, options and value, the model of `write_float`
(decimal back-ends and special values) never reaches `fault`; a result, if any, lies inside the buffer and nothing at or
beyond `buf.length` was written (`hi ≤ buf.length`).  Non-decimal back-ends are reported as `.other` (not modelled here). -/
theorem short_buffer_safe_of (bound : Nat) (feats : Features) (f : Fmt) (fmt : Format) (o : WOpts) (bits : Nat)
    (ds : List Nat) (sci : Int) (buf : List Nat) (hds : 1 ≤ ds.length) (hds32 : ds.length ≤ 32) (hmx : o.maxDigits ≠ some 0) :
    writeFloatB bound feats f fmt o false bits (ds, sci) buf ≠ .fault ∧
    ∀ w, writeFloatB bound feats f fmt o false bits (ds, sci) buf = .done w →
      w.bytes.length = buf.length ∧ w.len ≤ buf.length ∧ w.hi ≤ buf.length := by
  unfold writeFloatB
  dsimp only
  split
  · exact ⟨by simp, by intro w h; cases h⟩
  split
  · exact ⟨by simp, by intro w h; cases h⟩
  split
  · exact ⟨by simp, by intro w h; cases h⟩
  generalize (if f.isNeg bits = true ∧ ¬f.isNaN bits = true then [45]
      else if feats.format = true ∧ fmt.requiredMantissaSign = true then [43] else []) = sign
  split
  · exact ⟨by simp, by intro w h; cases h⟩
  · rename_i hsl
    have hlen : sign.length + (buf.drop sign.length).length = buf.length := by simp; omega
    have key : ∀ out : Outcome, (out ≠ .fault ∧ ∀ w, out = .done w →
          w.bytes.length = sign.length + (buf.drop sign.length).length ∧ w.hi ≤ sign.length + (buf.drop sign.length).length) →
        finalCheck out ≠ .fault ∧
        ∀ w, finalCheck out = .done w → w.bytes.length = buf.length ∧ w.len ≤ buf.length ∧ w.hi ≤ buf.length := by
      intro out ⟨h1, h2⟩
      cases out with
      | fault => exact absurd rfl h1
      | panic => exact ⟨by simp [finalCheck], by intro w h; cases h⟩
      | other a b => exact ⟨by simp [finalCheck], by intro w h; cases h⟩
      | done w0 =>
        obtain ⟨h3, h4⟩ := h2 w0 rfl
        simp only [finalCheck]
        by_cases hle : w0.len ≤ w0.bytes.length
        · rw [if_pos hle]
          refine ⟨(by intro h; cases h), ?_⟩
          intro w h
          simp only [Outcome.done.injEq] at h
          subst h
          omega
        · rw [if_neg hle]
          exact ⟨(by intro h; cases h), (by intro w h; cases h)⟩
    apply key
    split
    · split
      · exact onTail_facts _ _ _ (decimalB_facts fmt feats f ds sci o _ hds hds32 hmx).1
          (decimalB_facts fmt feats f ds sci o _ hds hds32 hmx).2
      · exact ⟨by simp, by intro w h; cases h⟩
    · split
      · exact onTail_facts _ _ _ (writeSpecial_facts _ _).1 (writeSpecial_facts _ _).2
      · exact onTail_facts _ _ _ (writeSpecial_facts _ _).1 (writeSpecial_facts _ _).2

/-- **C09 `short_buffer_safe_before_fix`** (formula before the repair in `check_buffer`) -/
theorem short_buffer_safe_before_fix (feats : Features) (f : Fmt) (fmt : Format) (o : WOpts) (bits : Nat) (ds : List Nat) (sci : Int)
    (buf : List Nat) (hds : 1 ≤ ds.length) (hds32 : ds.length ≤ 32) (hmx : o.maxDigits ≠ some 0) :
    writeFloatOld feats f fmt o false bits (ds, sci) buf ≠ .fault ∧
    ∀ w, writeFloatOld feats f fmt o false bits (ds, sci) buf = .done w →
      w.bytes.length = buf.length ∧ w.len ≤ buf.length ∧ w.hi ≤ buf.length :=
  short_buffer_safe_of _ feats f fmt o bits ds sci buf hds hds32 hmx

/-- **C09 `short_buffer_safe`**: the same with the formula of the current tree -/
theorem short_buffer_safe (feats : Features) (f : Fmt) (fmt : Format) (o : WOpts) (bits : Nat) (ds : List Nat)
    (sci : Int) (buf : List Nat) (hds : 1 ≤ ds.length) (hds32 : ds.length ≤ 32) (hmx : o.maxDigits ≠ some 0) :
    writeFloat feats f fmt o false bits (ds, sci) buf ≠ .fault ∧
    ∀ w, writeFloat feats f fmt o false bits (ds, sci) buf = .done w →
      w.bytes.length = buf.length ∧ w.len ≤ buf.length ∧ w.hi ≤ buf.length :=
  short_buffer_safe_of _ feats f fmt o bits ds sci buf hds hds32 hmx

/-! ### non-vacuity and witnesses -/

/-- radix-10 format with explicit exponent base / radix (`NumberFormatBuilder::decimal()`) -/
def fmt10 : Format := ⟨0xa0a0a0000000000000000000000000c⟩

/-- non-vacuity of `float_bound_before_fix`: `1.2345` with 3..2 digits in a 64-byte buffer (default build) -/
example : writeFloatOld {} LexVerif.Spec.f64 fmt10 { maxDigits := some 3, minDigits := some 2 } false 0x3ff3c083126e978d
    ([1, 2, 3, 4, 5], 0) (List.replicate 64 170) =
      .done ⟨[49, 46, 50, 51, 53] ++ List.replicate 59 170, 4, 5⟩ := by decide +kernel

example : SafeOpts {} LexVerif.Spec.f64 fmt10 { maxDigits := some 3, minDigits := some 2 } := by
  unfold SafeOpts; decide +kernel

/-- **Witness 1 (finding)**: `negative_exponent_break = -100`, `max_significant_digits = 10`, value `1e-100`, Dragonbox
build: `buffer_size_const` is 112, but after 101 leading zeros the digit writer demands a 20-byte slice. -/
theorem bound_too_small_digit_writer :
    bufferSizeConstOld {} LexVerif.Spec.f64 fmt10 { maxDigits := some 10, negBreak := some (-100) } = 112 ∧
    writeFloatOld {} LexVerif.Spec.f64 fmt10 { maxDigits := some 10, negBreak := some (-100) } false 0x2b2bff2ee48e0530
      ([1], -100) (List.replicate 112 170) = .panic ∧
    writeFloatOld {} LexVerif.Spec.f64 fmt10 { maxDigits := some 10, negBreak := some (-100) } false 0x2b2bff2ee48e0530
      ([1], -100) (List.replicate 122 170) ≠ .panic := by decide +kernel

/-- **Witness 2 (finding)**: `min_significant_digits = 100`, default breaks, value `1.5e-300`, Dragonbox build:
`buffer_size_const` is 111; after 101 mantissa bytes, `e`, `-` the exponent writer demands a 10-byte slice. -/
theorem bound_too_small_exponent_writer :
    bufferSizeConstOld {} LexVerif.Spec.f64 fmt10 { minDigits := some 100 } = 111 ∧
    writeFloatOld {} LexVerif.Spec.f64 fmt10 { minDigits := some 100 } false 0x01b01297d23ab683
      ([1, 5], -300) (List.replicate 111 170) = .panic ∧
    writeFloatOld {} LexVerif.Spec.f64 fmt10 { minDigits := some 100 } false 0x01b01297d23ab683
      ([1, 5], -300) (List.replicate 114 170) ≠ .panic := by decide +kernel

/-- **Witness 3 (finding)**: `positive_exponent_break = 100`, `max_significant_digits = 1`, value `-1e100`:
`buffer_size_const` is 103 but sign + 101 digits + ".0" are 104 bytes — Dragonbox **and** `compact` builds. -/
theorem bound_too_small_positive_break :
    bufferSizeConstOld {} LexVerif.Spec.f64 fmt10 { maxDigits := some 1, posBreak := some 100 } = 103 ∧
    writeFloatOld {} LexVerif.Spec.f64 fmt10 { maxDigits := some 1, posBreak := some 100 } false 0xd4b249ad2594c37d
      ([1], 100) (List.replicate 103 170) = .panic ∧
    writeFloatOld { compact := true } LexVerif.Spec.f64 fmt10 { maxDigits := some 1, posBreak := some 100 } false
      0xd4b249ad2594c37d ([1], 100) (List.replicate 103 170) = .panic := by decide +kernel

/-- the witnesses lie in the excluded regions -/
example : ¬ SafeOpts {} LexVerif.Spec.f64 fmt10 { maxDigits := some 10, negBreak := some (-100) } := by
  unfold SafeOpts; decide +kernel
example : ¬ SafeOpts {} LexVerif.Spec.f64 fmt10 { minDigits := some 100 } := by unfold SafeOpts; decide +kernel
example : ¬ SafeOpts { compact := true } LexVerif.Spec.f64 fmt10 { maxDigits := some 1, posBreak := some 100 } := by
  unfold SafeOpts; decide +kernel

/-- the unrestricted statement is false (Witness 1) -/
theorem float_bound_before_fix_full_false : ¬ float_bound_before_fix_full := by
  intro h
  have hc : DecimalCall {} LexVerif.Spec.f64 fmt10 { maxDigits := some 10, negBreak := some (-100) } 0x2b2bff2ee48e0530
      [1] (-100) :=
    { valid := by decide +kernel, mixed := by decide +kernel, finite := by decide +kernel, decimal := by decide +kernel,
      radix10 := by decide +kernel, expRadix10 := by decide +kernel,
      opts := { mx := (by decide), mnmx := (by intro a b h1; cases h1), nb := (by decide +kernel), pb := (by decide +kernel) },
      digits1 := by decide, digitsN := by decide +kernel, range := by decide }
  obtain ⟨w, hw, _⟩ := h {} LexVerif.Spec.f64 fmt10 { maxDigits := some 10, negBreak := some (-100) } 0x2b2bff2ee48e0530
    [1] (-100) (List.replicate 112 170) hc (by decide +kernel)
  rw [bound_too_small_digit_writer.2.1] at hw
  cases hw

/-! ### integers -/

/-- the integer types of `Gen.Sizes` -/
def intTypes : List Gen.Sizes.Ty := Gen.Sizes.types.filter (fun t => !t.float)

def magOf (t : Gen.Sizes.Ty) : Nat := if t.signed then t.minMag else t.max
def sgnOf (t : Gen.Sizes.Ty) : Nat := if t.signed then 1 else 0

/-- the documented size leaves room for the sign of a signed type and for every digit of the largest magnitude -/
def intFits (feats : Features) (t : Gen.Sizes.Ty) (r : Nat) : Bool :=
  decide (sgnOf t < intBufferSizeConstOld feats t.name r) &&
  decide (magOf t < r ^ (intBufferSizeConstOld feats t.name r - sgnOf t))

def featureSets : List Features :=
  [{}, { compact := true }, { powerOfTwo := true, radix := true }, { powerOfTwo := true },
   { compact := true, powerOfTwo := true, radix := true }]
def radicesOf (feats : Features) : List Nat :=
  if feats.radix then (List.range 35).map (· + 2) else if feats.powerOfTwo then [2, 4, 8, 10, 16, 32] else [10]

/-- every (feature set, integer type, radix) row of the dumped size tables fits (kernel-evaluated, 12 types × 35 radices) -/
theorem int_sizes_fit :
    featureSets.all (fun feats => intTypes.all (fun t => (radicesOf feats).all (fun r => intFits feats t r))) = true := by
  decide +kernel

/-- **C09 `int_bound_before_fix`**: a value of magnitude at most the type's largest magnitude, written in radix `r` with the `-`
sign of a signed type, fits `FORMATTED_SIZE(_DECIMAL)` (`Gen.Sizes`, dumped from the crate). -/
theorem int_bound_before_fix (feats : Features) (t : Gen.Sizes.Ty) (r v : Nat) (hfit : intFits feats t r = true) (hr : 2 ≤ r)
    (hv : v ≤ magOf t) :
    (numeral r v).length + sgnOf t ≤ intBufferSizeConstOld feats t.name r := by
  unfold intFits at hfit
  simp only [Bool.and_eq_true, decide_eq_true_eq] at hfit
  obtain ⟨h1, h2⟩ := hfit
  have hlen := LexVerif.Spec.toDigits_length_le r v (intBufferSizeConstOld feats t.name r - sgnOf t) hr (by omega) (by omega)
  unfold numeral
  rw [List.length_map]
  omega

/-- non-vacuity: `i8` in radix 2 (`radix` build): 8 digits + sign ≤ 16 -/
example : intFits { powerOfTwo := true, radix := true } ⟨"i8", 8, true, false, 128, 127⟩ 2 = true := by decide +kernel

/-- **the stated exception (known finding)**: for unsigned types the size has no room for the `+` written under
`format` + `required_mantissa_sign`: `u8` 255 needs 3 digits + 1 sign = 4 > `FORMATTED_SIZE_DECIMAL` = 3. -/
theorem int_plus_sign_exception_before_fix :
    (numeral 10 255).length + 1 > intBufferSizeConstOld {} "u8" 10 := by decide +kernel

/-! ### the integer size of the current tree (repaired by /repo commit 2d9b865)

`lexical_write_integer::Options::buffer_size_const` + 1 when the format requires a mantissa sign (`format` feature). -/

/-- on the dumped size tables -/
def intBufferSizeConst (feats : Features) (name : String) (radix : Nat) (reqSign : Bool) : Nat :=
  intBufferSizeConstOld feats name radix + (if feats.format = true ∧ reqSign = true then 1 else 0)

/-- **`int_bound`**: with the size of the current tree, sign (`-`, or the required `+`, also for unsigned types) plus numeral
always fit; it is never smaller than the size before the repair. -/
theorem int_bound (feats : Features) (t : Gen.Sizes.Ty) (r v : Nat) (reqSign : Bool) (hfit : intFits feats t r = true)
    (hr : 2 ≤ r) (hv : v ≤ magOf t) (hsign : feats.format = true ∧ reqSign = true) :
    (numeral r v).length + 1 ≤ intBufferSizeConst feats t.name r reqSign ∧
    intBufferSizeConstOld feats t.name r ≤ intBufferSizeConst feats t.name r reqSign := by
  have h := int_bound_before_fix feats t r v hfit hr hv
  unfold intBufferSizeConst
  rw [if_pos hsign]
  omega

/-- on C03's writer model: the current size is at least the size under which C03 proves the integer writers correct
(`requiredSize` = documented size + 1 for unsigned types with a required `+`) … -/
def writeIntSize (feats : Features) (t : IntTy) (radix : Nat) (reqSign : Bool) : Nat :=
  LexVerif.Model.WriteInt.bufferSizeConst feats t radix + (if feats.format = true ∧ reqSign = true then 1 else 0)

theorem requiredSize_le_size (feats : Features) (t : IntTy) (radix : Nat) (reqSign : Bool) :
    LexVerif.Model.WriteInt.requiredSize feats t radix reqSign ≤ writeIntSize feats t radix reqSign ∧
    LexVerif.Model.WriteInt.bufferSizeConst feats t radix ≤ writeIntSize feats t radix reqSign := by
  unfold LexVerif.Model.WriteInt.requiredSize writeIntSize
  repeat' split
  all_goals simp_all

/-- … hence, with the repair, a buffer of the documented size suffices for every `compact` integer write, unsigned `+`
included (C03's `writeInt_correct_compact` transferred). -/
theorem writeInt_size_suffices_compact (feats : Features) (t : IntTy) (radix : Nat) (reqSign checkValid : Bool)
    (v : Int) (buffer : LexVerif.Model.WriteInt.Buf) (hc : feats.compact = true)
    (hwf : LexVerif.Model.WriteInt.FeaturesWF feats) (hbits : LexVerif.Model.WriteInt.ValidBits t.bits)
    (hvalid : LexVerif.Model.WriteInt.validRadix feats radix = true) (hv : t.inRange v)
    (hbuf : writeIntSize feats t radix reqSign ≤ buffer.length) :
    ∃ out, LexVerif.Model.WriteInt.writeInt feats t radix reqSign checkValid v buffer = .ok out :=
  ⟨_, LexVerif.Props.C03.writeInt_correct_compact feats t radix reqSign checkValid v buffer hc hwf hbits hvalid hv
    (Nat.le_trans (requiredSize_le_size feats t radix reqSign).1 hbuf)⟩

end LexVerif.Props.C09
