import LexVerif.Props.C01Number
import LexVerif.Proof.LemireWide
/-!
# Props.C01Trunc — truncated mantissas the two-pass wrapper does not decide

`lemire` on a truncated `Number` (`many_digits`): `compute_float(q, w)`; if valid, `compute_float(q, w + 1)`; if the two
differ, `compute_error(q, w)`. Whatever invalid-marked answer comes out is the upper product word of row `q`, normalised:
an estimate of `w·10^q` (`lemire_truncated_estOK`; `Proof.LemireError` for `compute_error`), hence a `40`-estimate of the value
of all the digits (`Proof.LemireWide.estW_widen`), which the slow path's `negative_digit_comp` can use
(`bracket_of_estW`).
-/
namespace LexVerif.Props.C01Trunc
open LexVerif.Spec LexVerif.Model LexVerif.Model.ParseFloatAlgo
open LexVerif.Proof.RoundNE LexVerif.Proof.ExtRound LexVerif.Proof.Pipeline LexVerif.Proof.Lemire
open LexVerif.Props.C01 (IsLemireFloat IsI64 Bracket)
open LexVerif.Props.C01Main LexVerif.Props.C01SlowMain LexVerif.Props.C01SlowDomain LexVerif.Proof.Slow

/-- **the wrapper on a truncated mantissa**: it answers (no panic), and an invalid-marked answer means `q` is inside the
table and the answer is an estimate of `w·10^q` -/
theorem lemire_truncated (F : FTy) (hF : IsLemireFloat F) (q : Int) (w : Nat) (neg : Bool)
    (hw0 : w ≠ 0) (hw : w + 1 < 2 ^ 64) :
    ∃ fp, Lemire.lemire F ⟨w, q, neg, true⟩ false = .ok fp ∧
      (fp.exp < 0 → -342 ≤ q ∧ q ≤ 308 ∧
        ∃ p eb, Layout F p eb ∧ EstOK F p fp (powFrac 10 q w).1 (powFrac 10 q w).2) := by
  obtain ⟨p, eb, sm, lg, a, b, LL, _, _⟩ := C01.lemLayout_of hF
  have np := fun w' => LexVerif.Proof.Lemire.computeFloat_no_panic LL q w' false
  unfold Lemire.lemire
  dsimp only
  cases h0 : Lemire.computeFloat F q w false with
  | panic => exact absurd h0 (np w)
  | ok fp0 =>
    dsimp only
    by_cases hv0 : fp0.exp ≥ 0
    · have hc : (!false && true && decide (fp0.exp ≥ 0)) = true := by simp [hv0]
      rw [if_pos hc]
      have hwrap : wrap64 (w + 1) = w + 1 := Nat.mod_eq_of_lt hw
      rw [hwrap]
      cases h1 : Lemire.computeFloat F q (w + 1) false with
      | panic => exact absurd h1 (np _)
      | ok fp1 =>
        dsimp only
        by_cases hne : fp0 ≠ fp1
        · rw [if_pos hne]
          -- `compute_error` is reached only inside the table
          have hq1 : -342 ≤ q := by
            apply Classical.byContradiction; intro hcon
            have hlt : q < F.C.smallestPowerOfTen := by
              rw [LL.smallest]; have := LL.sm342; omega
            have e0 := (cutoff_zero LL q w false (by omega) hlt).1
            have e1 := (cutoff_zero LL q (w + 1) false hw hlt).1
            rw [e0] at h0; rw [e1] at h1
            injection h0 with h0; injection h1 with h1
            exact hne (by rw [← h0, ← h1])
          have hq1' : ¬ q < F.C.smallestPowerOfTen := by
            intro hlt
            have e0 := (cutoff_zero LL q w false (by omega) hlt).1
            have e1 := (cutoff_zero LL q (w + 1) false hw hlt).1
            rw [e0] at h0; rw [e1] at h1
            injection h0 with h0; injection h1 with h1
            exact hne (by rw [← h0, ← h1])
          have hq2' : ¬ q > F.C.largestPowerOfTen := by
            intro hgt
            have e0 := (cutoff_inf LL q w false hw0 hgt).1
            have e1 := (cutoff_inf LL q (w + 1) false (by omega) hgt).1
            rw [e0] at h0; rw [e1] at h1
            injection h0 with h0; injection h1 with h1
            exact hne (by rw [← h0, ← h1])
          have hq2 : q ≤ 308 := by
            rw [LL.largest] at hq2'; have := LL.lg308; omega
          by_cases hq0 : 0 ≤ q
          · obtain ⟨qn, rfl⟩ : ∃ qn : Nat, q = (qn : Int) := ⟨q.toNat, by omega⟩
            obtain ⟨fp, e1, e2⟩ := computeError_estOK_nonneg LL.lay qn (by omega) w hw0 (by omega)
            refine ⟨fp, e1, fun _ => ⟨hq1, hq2, p, eb, LL.lay, ?_⟩⟩
            have hpf : powFrac 10 (qn : Int) w = (w * 10 ^ qn, 1) := by
              unfold powFrac; rw [if_pos (by omega)]; simp
            rw [hpf]; exact e2
          · obtain ⟨e, rfl⟩ : ∃ e : Nat, q = -(e : Int) := ⟨(-q).toNat, by omega⟩
            obtain ⟨fp, e1, e2⟩ := computeError_estOK_neg LL.lay e (by omega) (by omega) w hw0 (by omega)
            refine ⟨fp, e1, fun _ => ⟨hq1, hq2, p, eb, LL.lay, ?_⟩⟩
            have hpf : powFrac 10 (-(e : Int)) w = (w, 10 ^ e) := by
              unfold powFrac; rw [if_neg (by omega)]; simp
            rw [hpf]; exact e2
        · rw [if_neg hne]
          exact ⟨fp0, rfl, fun h => absurd h (by omega)⟩
    · have hc : ¬ (!false && true && decide (fp0.exp ≥ 0)) = true := by simp [hv0]
      rw [if_neg hc]
      refine ⟨fp0, rfl, fun hinv => ?_⟩
      obtain ⟨_, r1, r2⟩ := lemire_invalid_range hF h0 hinv
      exact ⟨r1, r2, C01.lemire_invalid_estOK F hF q w fp0 (by omega) h0 hinv⟩

end LexVerif.Props.C01Trunc
