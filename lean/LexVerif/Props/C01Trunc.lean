import LexVerif.Props.C01Number
import LexVerif.Proof.LemireWide
/-!
# Props.C01Trunc — truncated mantissas the two-pass wrapper does not decide

`lemire` on a truncated `Number` (`many_digits`): `compute_float(q, w)`; if valid, `compute_float(q, w + 1)`; if the two
differ, `compute_error(q, w)`. Whatever invalid-marked answer comes out is the upper product word of row `q`, normalised:
an estimate of `w·10^q` (`lemire_truncated_estOK`; `Proof.LemireError` for `compute_error`), hence a `40`-estimate of the value
of all the digits (`Proof.LemireWide.estW_widen`), which the slow path's `negative_digit_comp` can use
(`bracket_of_estW`).
-/
namespace LexVerif.Props.C01Trunc
open LexVerif.Spec LexVerif.Model LexVerif.Model.ParseFloatAlgo
open LexVerif.Proof.RoundNE LexVerif.Proof.ExtRound LexVerif.Proof.Pipeline LexVerif.Proof.Lemire
open LexVerif.Props.C01 (IsLemireFloat IsI64 Bracket)
open LexVerif.Props.C01Main LexVerif.Props.C01SlowMain LexVerif.Props.C01SlowDomain LexVerif.Proof.Slow

/-- **the wrapper on a truncated mantissa**: it answers (no panic), and an invalid-marked answer means `q` is inside the
table and the answer is an estimate of `w·10^q` -/
theorem lemire_truncated (F : FTy) (hF : IsLemireFloat F) (q : Int) (w : Nat) (neg : Bool)
    (hw0 : w ≠ 0) (hw : w + 1 < 2 ^ 64) :
    ∃ fp, Lemire.lemire F ⟨w, q, neg, true⟩ false = .ok fp ∧
      (fp.exp < 0 → -342 ≤ q ∧ q ≤ 308 ∧
        ∃ p eb, Layout F p eb ∧ EstOK F p fp (powFrac 10 q w).1 (powFrac 10 q w).2) := by
  obtain ⟨p, eb, sm, lg, a, b, LL, _, _⟩ := C01.lemLayout_of hF
  have np := fun w' => LexVerif.Proof.Lemire.computeFloat_no_panic LL q w' false
  unfold Lemire.lemire
  dsimp only
  cases h0 : Lemire.computeFloat F q w false with
  | panic => exact absurd h0 (np w)
  | ok fp0 =>
    dsimp only
    by_cases hv0 : fp0.exp ≥ 0
    · have hc : (!false && true && decide (fp0.exp ≥ 0)) = true := by simp [hv0]
      rw [if_pos hc]
      have hwrap : wrap64 (w + 1) = w + 1 := Nat.mod_eq_of_lt hw
      rw [hwrap]
      cases h1 : Lemire.computeFloat F q (w + 1) false with
      | panic => exact absurd h1 (np _)
      | ok fp1 =>
        dsimp only
        by_cases hne : fp0 ≠ fp1
        · rw [if_pos hne]
          -- `compute_error` is reached only inside the table
          have hq1 : -342 ≤ q := by
            apply Classical.byContradiction; intro hcon
            have hlt : q < F.C.smallestPowerOfTen := by
              rw [LL.smallest]; have := LL.sm342; omega
            have e0 := (cutoff_zero LL q w false (by omega) hlt).1
            have e1 := (cutoff_zero LL q (w + 1) false hw hlt).1
            rw [e0] at h0; rw [e1] at h1
            injection h0 with h0; injection h1 with h1
            exact hne (by rw [← h0, ← h1])
          have hq1' : ¬ q < F.C.smallestPowerOfTen := by
            intro hlt
            have e0 := (cutoff_zero LL q w false (by omega) hlt).1
            have e1 := (cutoff_zero LL q (w + 1) false hw hlt).1
            rw [e0] at h0; rw [e1] at h1
            injection h0 with h0; injection h1 with h1
            exact hne (by rw [← h0, ← h1])
          have hq2' : ¬ q > F.C.largestPowerOfTen := by
            intro hgt
            have e0 := (cutoff_inf LL q w false hw0 hgt).1
            have e1 := (cutoff_inf LL q (w + 1) false (by omega) hgt).1
            rw [e0] at h0; rw [e1] at h1
            injection h0 with h0; injection h1 with h1
            exact hne (by rw [← h0, ← h1])
          have hq2 : q ≤ 308 := by
            rw [LL.largest] at hq2'; have := LL.lg308; omega
          by_cases hq0 : 0 ≤ q
          · obtain ⟨qn, rfl⟩ : ∃ qn : Nat, q = (qn : Int) := ⟨q.toNat, by omega⟩
            obtain ⟨fp, e1, e2⟩ := computeError_estOK_nonneg LL.lay qn (by omega) w hw0 (by omega)
            refine ⟨fp, e1, fun _ => ⟨hq1, hq2, p, eb, LL.lay, ?_⟩⟩
            have hpf : powFrac 10 (qn : Int) w = (w * 10 ^ qn, 1) := by
              unfold powFrac; rw [if_pos (by omega)]; simp
            rw [hpf]; exact e2
          · obtain ⟨e, rfl⟩ : ∃ e : Nat, q = -(e : Int) := ⟨(-q).toNat, by omega⟩
            obtain ⟨fp, e1, e2⟩ := computeError_estOK_neg LL.lay e (by omega) (by omega) w hw0 (by omega)
            refine ⟨fp, e1, fun _ => ⟨hq1, hq2, p, eb, LL.lay, ?_⟩⟩
            have hpf : powFrac 10 (-(e : Int)) w = (w, 10 ^ e) := by
              unfold powFrac; rw [if_neg (by omega)]; simp
            rw [hpf]; exact e2
        · rw [if_neg hne]
          exact ⟨fp0, rfl, fun h => absurd h (by omega)⟩
    · have hc : ¬ (!false && true && decide (fp0.exp ≥ 0)) = true := by simp [hv0]
      rw [if_neg hc]
      refine ⟨fp0, rfl, fun hinv => ?_⟩
      obtain ⟨_, r1, r2⟩ := lemire_invalid_range hF h0 hinv
      exact ⟨r1, r2, C01.lemire_invalid_estOK F hF q w fp0 (by omega) h0 hinv⟩

/-! ## the capacity guard of `negative_digit_comp` from the closeness of the estimate -/

set_option exponentiation.threshold 5000 in
theorem pow_caps : 2 * 10 ^ 769 < 2 ^ 3968 ∧ 2 ^ 55 * 5 ^ 1093 < 2 ^ 3968 ∧ 10 ^ 1093 < 2 ^ 3968 :=
  ⟨by decide +kernel, by decide +kernel, by decide +kernel⟩

/-- both big integers of `negative_digit_comp` are about as large as the digits (`M < 10^769`) or as `b + h` scaled
(`< 2^55·5^j`): `theor ≤ 2·M` when it is the one shifted left, `real < (2Q+4)·5^j` when that one is — because the estimate
is a `40`-estimate of `M / 10^j` -/
theorem neg_guard_bounds (Q K Sf mant M j L : Nat) (be : Int) (hbe : be = (K : Int) + j - (L + 1))
    (hQ : Q = mant / 2 ^ Sf) (hS40 : 40 ≤ 2 ^ Sf) (hQ0 : Q = 0 → K = 0) (hQ53 : Q < 2 ^ 53)
    (hj : j ≤ 1093) (hM : M < 10 ^ 769)
    (lo : mant * 2 ^ K * 10 ^ j ≤ M * 2 ^ L * 2 ^ Sf) (hi : M * 2 ^ L * 2 ^ Sf < (mant + 40) * 2 ^ K * 10 ^ j) :
    (2 * Q + 1) * 5 ^ j * 2 ^ be.toNat < 2 ^ 3968 ∧ M * 2 ^ (-be).toNat < 2 ^ 3968 := by
  obtain ⟨c1, c2, c3⟩ := pow_caps
  have h10 : (10 : Nat) ^ j = 5 ^ j * 2 ^ j := by rw [← Nat.mul_pow]
  have h5j : 5 ^ j ≤ 5 ^ 1093 := Nat.pow_le_pow_right (by decide) hj
  have h10j : 10 ^ j ≤ 10 ^ 1093 := Nat.pow_le_pow_right (by decide) hj
  have hSpos := Nat.two_pow_pos Sf
  have hQm : Q * 2 ^ Sf ≤ mant := by rw [hQ]; exact Nat.div_mul_le_self _ _
  have hmQ : mant < 2 ^ Sf * (Q + 1) := by rw [hQ]; exact Nat.lt_mul_div_succ mant hSpos
  by_cases hb : 0 ≤ be
  · obtain ⟨n, hn⟩ : ∃ n : Nat, be = (n : Int) := ⟨be.toNat, by omega⟩
    have e1 : be.toNat = n := by omega
    have e2 : (-be).toNat = 0 := by omega
    rw [e1, e2, Nat.pow_zero, Nat.mul_one]
    have hKj : K + j = n + L + 1 := by omega
    refine ⟨?_, by omega⟩
    by_cases hq0 : Q = 0
    · have hK0 := hQ0 hq0
      have hnj : n ≤ j := by omega
      have : 2 ^ n ≤ 2 ^ j := Nat.pow_le_pow_right (by decide) hnj
      rw [hq0]
      calc (2 * 0 + 1) * 5 ^ j * 2 ^ n = 5 ^ j * 2 ^ n := by ring
        _ ≤ 5 ^ j * 2 ^ j := Nat.mul_le_mul_left _ this
        _ = 10 ^ j := h10.symm
        _ < 2 ^ 3968 := by omega
    · have k1 : Q * 2 ^ K * 10 ^ j ≤ M * 2 ^ L := by
        apply Nat.le_of_mul_le_mul_right _ hSpos
        calc Q * 2 ^ K * 10 ^ j * 2 ^ Sf = (Q * 2 ^ Sf) * 2 ^ K * 10 ^ j := by ring
          _ ≤ mant * 2 ^ K * 10 ^ j := Nat.mul_le_mul_right _ (Nat.mul_le_mul_right _ hQm)
          _ ≤ M * 2 ^ L * 2 ^ Sf := lo
      have k2 : 2 * (Q * 5 ^ j * 2 ^ n) ≤ M := by
        apply Nat.le_of_mul_le_mul_right _ (Nat.two_pow_pos L)
        calc 2 * (Q * 5 ^ j * 2 ^ n) * 2 ^ L = Q * 5 ^ j * 2 ^ (n + L + 1) := by
              rw [Nat.pow_add, Nat.pow_add]; ring
          _ = Q * 5 ^ j * 2 ^ (K + j) := by rw [hKj]
          _ = Q * 2 ^ K * 10 ^ j := by rw [h10, Nat.pow_add]; ring
          _ ≤ M * 2 ^ L := k1
      have k3 : (2 * Q + 1) * 5 ^ j * 2 ^ n ≤ 2 * (2 * (Q * 5 ^ j * 2 ^ n)) := by
        have : 2 * Q + 1 ≤ 4 * Q := by omega
        calc (2 * Q + 1) * 5 ^ j * 2 ^ n = (2 * Q + 1) * (5 ^ j * 2 ^ n) := by ring
          _ ≤ 4 * Q * (5 ^ j * 2 ^ n) := Nat.mul_le_mul_right _ this
          _ = 2 * (2 * (Q * 5 ^ j * 2 ^ n)) := by ring
      omega
  · obtain ⟨n, hn⟩ : ∃ n : Nat, -be = (n : Int) := ⟨(-be).toNat, by omega⟩
    have e1 : be.toNat = 0 := by omega
    have e2 : (-be).toNat = n := by omega
    rw [e1, e2, Nat.pow_zero, Nat.mul_one]
    have hKj : n + (K + j) = L + 1 := by omega
    constructor
    · calc (2 * Q + 1) * 5 ^ j ≤ 2 ^ 55 * 5 ^ 1093 := Nat.mul_le_mul (by omega) h5j
        _ < 2 ^ 3968 := c2
    · have k1 : M * 2 ^ L < (Q + 2) * 2 ^ K * 10 ^ j := by
        apply Nat.lt_of_mul_lt_mul_right (a := 2 ^ Sf)
        calc M * 2 ^ L * 2 ^ Sf < (mant + 40) * 2 ^ K * 10 ^ j := hi
          _ ≤ (2 ^ Sf * (Q + 1) + 2 ^ Sf) * 2 ^ K * 10 ^ j :=
              Nat.mul_le_mul_right _ (Nat.mul_le_mul_right _ (by omega))
          _ = (Q + 2) * 2 ^ K * 10 ^ j * 2 ^ Sf := by ring
      have k2 : M * 2 ^ n < (2 * Q + 4) * 5 ^ j := by
        apply Nat.lt_of_mul_lt_mul_right (a := 2 ^ (K + j))
        calc M * 2 ^ n * 2 ^ (K + j) = M * 2 ^ (n + (K + j)) := by rw [Nat.pow_add]; ring
          _ = 2 * (M * 2 ^ L) := by rw [hKj, Nat.pow_succ]; ring
          _ < 2 * ((Q + 2) * 2 ^ K * 10 ^ j) := Nat.mul_lt_mul_of_pos_left k1 (by decide)
          _ = (2 * Q + 4) * 5 ^ j * 2 ^ (K + j) := by rw [h10, Nat.pow_add]; ring
      calc M * 2 ^ n < (2 * Q + 4) * 5 ^ j := k2
        _ ≤ 2 ^ 55 * 5 ^ 1093 := Nat.mul_le_mul (by omega) h5j
        _ < 2 ^ 3968 := c2

end LexVerif.Props.C01Trunc
