import LexVerif.Props.C01Number
import LexVerif.Proof.LemireWide
/-!
# Props.C01Trunc — truncated mantissas the two-pass wrapper does not decide

`lemire` on a truncated `Number` (`many_digits`): `compute_float(q, w)`; if valid, `compute_float(q, w + 1)`; if the two
differ, `compute_error(q, w)`. Whatever invalid-marked answer comes out is the upper product word of row `q`, normalised:
an estimate of `w·10^q` (`lemire_truncated_estOK`; `Proof.LemireError` for `compute_error`), hence a `40`-estimate of the value
of all the digits (`Proof.LemireWide.estW_widen`), which the slow path's `negative_digit_comp` can use
(`bracket_of_estW`).
-/
namespace LexVerif.Props.C01Trunc
open LexVerif.Spec LexVerif.Model LexVerif.Model.ParseFloatAlgo
open LexVerif.Proof.RoundNE LexVerif.Proof.ExtRound LexVerif.Proof.Pipeline LexVerif.Proof.Lemire
open LexVerif.Props.C01 (IsLemireFloat IsI64 Bracket)
open LexVerif.Props.C01Main LexVerif.Props.C01SlowMain LexVerif.Props.C01SlowDomain LexVerif.Proof.Slow

/-- **the wrapper on a truncated mantissa**: it answers (no panic), and an invalid-marked answer means `q` is inside the
table and the answer is an estimate of `w·10^q` -/
theorem lemire_truncated (F : FTy) (hF : IsLemireFloat F) (q : Int) (w : Nat) (neg : Bool)
    (hw0 : w ≠ 0) (hw : w + 1 < 2 ^ 64) :
    ∃ fp, Lemire.lemire F ⟨w, q, neg, true⟩ false = .ok fp ∧
      (fp.exp < 0 → -342 ≤ q ∧ q ≤ 308 ∧
        ∃ p eb, Layout F p eb ∧ EstOK F p fp (powFrac 10 q w).1 (powFrac 10 q w).2) := by
  obtain ⟨p, eb, sm, lg, a, b, LL, _, _⟩ := C01.lemLayout_of hF
  have np := fun w' => LexVerif.Proof.Lemire.computeFloat_no_panic LL q w' false
  unfold Lemire.lemire
  dsimp only
  cases h0 : Lemire.computeFloat F q w false with
  | panic => exact absurd h0 (np w)
  | ok fp0 =>
    dsimp only
    by_cases hv0 : fp0.exp ≥ 0
    · have hc : (!false && true && decide (fp0.exp ≥ 0)) = true := by simp [hv0]
      rw [if_pos hc]
      have hwrap : wrap64 (w + 1) = w + 1 := Nat.mod_eq_of_lt hw
      rw [hwrap]
      cases h1 : Lemire.computeFloat F q (w + 1) false with
      | panic => exact absurd h1 (np _)
      | ok fp1 =>
        dsimp only
        by_cases hne : fp0 ≠ fp1
        · rw [if_pos hne]
          -- `compute_error` is reached only inside the table
          have hq1 : -342 ≤ q := by
            apply Classical.byContradiction; intro hcon
            have hlt : q < F.C.smallestPowerOfTen := by
              rw [LL.smallest]; have := LL.sm342; omega
            have e0 := (cutoff_zero LL q w false (by omega) hlt).1
            have e1 := (cutoff_zero LL q (w + 1) false hw hlt).1
            rw [e0] at h0; rw [e1] at h1
            injection h0 with h0; injection h1 with h1
            exact hne (by rw [← h0, ← h1])
          have hq1' : ¬ q < F.C.smallestPowerOfTen := by
            intro hlt
            have e0 := (cutoff_zero LL q w false (by omega) hlt).1
            have e1 := (cutoff_zero LL q (w + 1) false hw hlt).1
            rw [e0] at h0; rw [e1] at h1
            injection h0 with h0; injection h1 with h1
            exact hne (by rw [← h0, ← h1])
          have hq2' : ¬ q > F.C.largestPowerOfTen := by
            intro hgt
            have e0 := (cutoff_inf LL q w false hw0 hgt).1
            have e1 := (cutoff_inf LL q (w + 1) false (by omega) hgt).1
            rw [e0] at h0; rw [e1] at h1
            injection h0 with h0; injection h1 with h1
            exact hne (by rw [← h0, ← h1])
          have hq2 : q ≤ 308 := by
            rw [LL.largest] at hq2'; have := LL.lg308; omega
          by_cases hq0 : 0 ≤ q
          · obtain ⟨qn, rfl⟩ : ∃ qn : Nat, q = (qn : Int) := ⟨q.toNat, by omega⟩
            obtain ⟨fp, e1, e2⟩ := computeError_estOK_nonneg LL.lay qn (by omega) w hw0 (by omega)
            refine ⟨fp, e1, fun _ => ⟨hq1, hq2, p, eb, LL.lay, ?_⟩⟩
            have hpf : powFrac 10 (qn : Int) w = (w * 10 ^ qn, 1) := by
              unfold powFrac; rw [if_pos (by omega)]; simp
            rw [hpf]; exact e2
          · obtain ⟨e, rfl⟩ : ∃ e : Nat, q = -(e : Int) := ⟨(-q).toNat, by omega⟩
            obtain ⟨fp, e1, e2⟩ := computeError_estOK_neg LL.lay e (by omega) (by omega) w hw0 (by omega)
            refine ⟨fp, e1, fun _ => ⟨hq1, hq2, p, eb, LL.lay, ?_⟩⟩
            have hpf : powFrac 10 (-(e : Int)) w = (w, 10 ^ e) := by
              unfold powFrac; rw [if_neg (by omega)]; simp
            rw [hpf]; exact e2
        · rw [if_neg hne]
          exact ⟨fp0, rfl, fun h => absurd h (by omega)⟩
    · have hc : ¬ (!false && true && decide (fp0.exp ≥ 0)) = true := by simp [hv0]
      rw [if_neg hc]
      refine ⟨fp0, rfl, fun hinv => ?_⟩
      obtain ⟨_, r1, r2⟩ := lemire_invalid_range hF h0 hinv
      exact ⟨r1, r2, C01.lemire_invalid_estOK F hF q w fp0 (by omega) h0 hinv⟩

/-! ## the capacity guard of `negative_digit_comp` from the closeness of the estimate -/

set_option exponentiation.threshold 5000 in
theorem pow_caps : 4 * 10 ^ 770 < 2 ^ 3968 ∧ 2 ^ 55 * 5 ^ 1130 < 2 ^ 3968 ∧ 10 ^ 1130 < 2 ^ 3968 :=
  ⟨by decide +kernel, by decide +kernel, by decide +kernel⟩

/-- both big integers of `negative_digit_comp` are about as large as the digits (`M < 10^770`) or as `b + h` scaled
(`< 2^55·5^j`): `theor ≤ 4·M` when it is the one shifted left, `real < (2Q+4)·5^j` when that one is — because the estimate
is close to `M / 10^j` (`lo`: at most twice the value; `hi`: less than `ch ≤ 2^Sf` units below it) -/
theorem neg_guard_bounds (Q K Sf mant M j L ch : Nat) (be : Int) (hbe : be = (K : Int) + j - (L + 1))
    (hQ : Q = mant / 2 ^ Sf) (hS40 : ch ≤ 2 ^ Sf) (hQ0 : Q = 0 → K = 0) (hQ53 : Q < 2 ^ 53)
    (hj : j ≤ 1130) (hM : M < 10 ^ 770)
    (lo : mant * 2 ^ K * 10 ^ j ≤ 2 * (M * 2 ^ L * 2 ^ Sf)) (hi : M * 2 ^ L * 2 ^ Sf < (mant + ch) * 2 ^ K * 10 ^ j) :
    (2 * Q + 1) * 5 ^ j * 2 ^ be.toNat < 2 ^ 3968 ∧ M * 2 ^ (-be).toNat < 2 ^ 3968 := by
  obtain ⟨c1, c2, c3⟩ := pow_caps
  have h10 : (10 : Nat) ^ j = 5 ^ j * 2 ^ j := by rw [← Nat.mul_pow]
  have h5j : 5 ^ j ≤ 5 ^ 1130 := Nat.pow_le_pow_right (by decide) hj
  have h10j : 10 ^ j ≤ 10 ^ 1130 := Nat.pow_le_pow_right (by decide) hj
  have hSpos := Nat.two_pow_pos Sf
  have hQm : Q * 2 ^ Sf ≤ mant := by rw [hQ]; exact Nat.div_mul_le_self _ _
  have hmQ : mant < 2 ^ Sf * (Q + 1) := by rw [hQ]; exact Nat.lt_mul_div_succ mant hSpos
  by_cases hb : 0 ≤ be
  · obtain ⟨n, hn⟩ : ∃ n : Nat, be = (n : Int) := ⟨be.toNat, by omega⟩
    have e1 : be.toNat = n := by omega
    have e2 : (-be).toNat = 0 := by omega
    rw [e1, e2, Nat.pow_zero, Nat.mul_one]
    have hKj : K + j = n + L + 1 := by omega
    refine ⟨?_, by omega⟩
    by_cases hq0 : Q = 0
    · have hK0 := hQ0 hq0
      have hnj : n ≤ j := by omega
      have : 2 ^ n ≤ 2 ^ j := Nat.pow_le_pow_right (by decide) hnj
      rw [hq0]
      calc (2 * 0 + 1) * 5 ^ j * 2 ^ n = 5 ^ j * 2 ^ n := by ring
        _ ≤ 5 ^ j * 2 ^ j := Nat.mul_le_mul_left _ this
        _ = 10 ^ j := h10.symm
        _ < 2 ^ 3968 := by omega
    · have k1 : Q * 2 ^ K * 10 ^ j ≤ 2 * (M * 2 ^ L) := by
        apply Nat.le_of_mul_le_mul_right _ hSpos
        calc Q * 2 ^ K * 10 ^ j * 2 ^ Sf = (Q * 2 ^ Sf) * 2 ^ K * 10 ^ j := by ring
          _ ≤ mant * 2 ^ K * 10 ^ j := Nat.mul_le_mul_right _ (Nat.mul_le_mul_right _ hQm)
          _ ≤ 2 * (M * 2 ^ L * 2 ^ Sf) := lo
          _ = 2 * (M * 2 ^ L) * 2 ^ Sf := by ring
      have k2 : Q * 5 ^ j * 2 ^ n ≤ M := by
        apply Nat.le_of_mul_le_mul_right _ (Nat.two_pow_pos (L + 1))
        calc Q * 5 ^ j * 2 ^ n * 2 ^ (L + 1) = Q * 5 ^ j * 2 ^ (n + L + 1) := by
              rw [Nat.pow_add, Nat.pow_add, Nat.pow_add]; ring
          _ = Q * 5 ^ j * 2 ^ (K + j) := by rw [hKj]
          _ = Q * 2 ^ K * 10 ^ j := by rw [h10, Nat.pow_add]; ring
          _ ≤ 2 * (M * 2 ^ L) := k1
          _ = M * 2 ^ (L + 1) := by rw [Nat.pow_succ]; ring
      have k3 : (2 * Q + 1) * 5 ^ j * 2 ^ n ≤ 4 * (Q * 5 ^ j * 2 ^ n) := by
        have : 2 * Q + 1 ≤ 4 * Q := by omega
        calc (2 * Q + 1) * 5 ^ j * 2 ^ n = (2 * Q + 1) * (5 ^ j * 2 ^ n) := by ring
          _ ≤ 4 * Q * (5 ^ j * 2 ^ n) := Nat.mul_le_mul_right _ this
          _ = 4 * (Q * 5 ^ j * 2 ^ n) := by ring
      omega
  · obtain ⟨n, hn⟩ : ∃ n : Nat, -be = (n : Int) := ⟨(-be).toNat, by omega⟩
    have e1 : be.toNat = 0 := by omega
    have e2 : (-be).toNat = n := by omega
    rw [e1, e2, Nat.pow_zero, Nat.mul_one]
    have hKj : n + (K + j) = L + 1 := by omega
    constructor
    · calc (2 * Q + 1) * 5 ^ j ≤ 2 ^ 55 * 5 ^ 1130 := Nat.mul_le_mul (by omega) h5j
        _ < 2 ^ 3968 := c2
    · have k1 : M * 2 ^ L < (Q + 2) * 2 ^ K * 10 ^ j := by
        apply Nat.lt_of_mul_lt_mul_right (a := 2 ^ Sf)
        calc M * 2 ^ L * 2 ^ Sf < (mant + ch) * 2 ^ K * 10 ^ j := hi
          _ ≤ (2 ^ Sf * (Q + 1) + 2 ^ Sf) * 2 ^ K * 10 ^ j :=
              Nat.mul_le_mul_right _ (Nat.mul_le_mul_right _ (by omega))
          _ = (Q + 2) * 2 ^ K * 10 ^ j * 2 ^ Sf := by ring
      have k2 : M * 2 ^ n < (2 * Q + 4) * 5 ^ j := by
        apply Nat.lt_of_mul_lt_mul_right (a := 2 ^ (K + j))
        calc M * 2 ^ n * 2 ^ (K + j) = M * 2 ^ (n + (K + j)) := by rw [Nat.pow_add]; ring
          _ = 2 * (M * 2 ^ L) := by rw [hKj, Nat.pow_succ]; ring
          _ < 2 * ((Q + 2) * 2 ^ K * 10 ^ j) := Nat.mul_lt_mul_of_pos_left k1 (by decide)
          _ = (2 * Q + 4) * 5 ^ j * 2 ^ (K + j) := by rw [h10, Nat.pow_add]; ring
      calc M * 2 ^ n < (2 * Q + 4) * 5 ^ j := k2
        _ ≤ 2 ^ 55 * 5 ^ 1130 := Nat.mul_le_mul (by omega) h5j
        _ < 2 ^ 3968 := c2

/-- the same when the estimate rounds down to `+∞` (`K ≥ 2^eb − 2 = 2·bf`): the value is at least `2^bf`, so
`theor = bh(+∞)·10^j`-scaled is at most `4·M` -/
theorem neg_guard_inf_bounds (p bf K mant M j L Sf : Nat) (hp : 2 ≤ p) (hpb : p + 1 ≤ bf) (hK : 2 * bf ≤ K)
    (hmant : 2 ^ Sf * 2 ^ (p - 1) ≤ mant) (hL : L = bf + (p - 1) - 1) (hM : M < 10 ^ 770)
    (lo : mant * 2 ^ K * 10 ^ j ≤ 2 * (M * 2 ^ L * 2 ^ Sf)) :
    (2 * 2 ^ (p - 1) + 1) * 5 ^ j * 2 ^ (((2 * bf : Nat) : Int) - ((bf + (p - 1) : Nat) : Int) + j).toNat < 2 ^ 3968 ∧
    M * 2 ^ (-(((2 * bf : Nat) : Int) - ((bf + (p - 1) : Nat) : Int) + j)).toNat < 2 ^ 3968 := by
  obtain ⟨c1, _, _⟩ := pow_caps
  have h10 : (10 : Nat) ^ j = 5 ^ j * 2 ^ j := by rw [← Nat.mul_pow]
  have e1 : (((2 * bf : Nat) : Int) - ((bf + (p - 1) : Nat) : Int) + j).toNat = bf - (p - 1) + j := by omega
  have e2 : (-(((2 * bf : Nat) : Int) - ((bf + (p - 1) : Nat) : Int) + j)).toNat = 0 := by omega
  rw [e1, e2, Nat.pow_zero, Nat.mul_one]
  refine ⟨?_, by omega⟩
  have hSpos := Nat.two_pow_pos Sf
  have k0 : 2 ^ (2 * bf) ≤ 2 ^ K := Nat.pow_le_pow_right (by decide) hK
  have k1 : 2 ^ (p - 1) * 2 ^ (2 * bf) * 10 ^ j ≤ 2 * (M * 2 ^ L) := by
    apply Nat.le_of_mul_le_mul_right _ hSpos
    calc 2 ^ (p - 1) * 2 ^ (2 * bf) * 10 ^ j * 2 ^ Sf = (2 ^ Sf * 2 ^ (p - 1)) * 2 ^ (2 * bf) * 10 ^ j := by ring
      _ ≤ mant * 2 ^ K * 10 ^ j := Nat.mul_le_mul_right _ (Nat.mul_le_mul hmant k0)
      _ ≤ 2 * (M * 2 ^ L * 2 ^ Sf) := lo
      _ = 2 * (M * 2 ^ L) * 2 ^ Sf := by ring
  have k2 : 2 ^ (bf + 1) * 10 ^ j ≤ 2 * M := by
    apply Nat.le_of_mul_le_mul_right _ (Nat.two_pow_pos L)
    calc 2 ^ (bf + 1) * 10 ^ j * 2 ^ L = 2 ^ (bf + 1 + L) * 10 ^ j := by rw [Nat.pow_add]; ring
      _ = 2 ^ (p - 1 + 2 * bf) * 10 ^ j := by congr 2; omega
      _ = 2 ^ (p - 1) * 2 ^ (2 * bf) * 10 ^ j := by rw [Nat.pow_add]
      _ ≤ 2 * (M * 2 ^ L) := k1
      _ = 2 * M * 2 ^ L := by ring
  have k3 : 2 * 2 ^ (p - 1) + 1 ≤ 2 ^ (p + 1) := by
    have : 2 ^ (p + 1) = 4 * 2 ^ (p - 1) := by
      rw [show p + 1 = (p - 1) + 2 by omega, Nat.pow_add]; ring
    have := Nat.two_pow_pos (p - 1)
    omega
  calc (2 * 2 ^ (p - 1) + 1) * 5 ^ j * 2 ^ (bf - (p - 1) + j)
      ≤ 2 ^ (p + 1) * 5 ^ j * 2 ^ (bf - (p - 1) + j) :=
        Nat.mul_le_mul_right _ (Nat.mul_le_mul_right _ k3)
    _ = 2 ^ (p + 1 + (bf - (p - 1))) * 10 ^ j := by rw [h10, Nat.pow_add, Nat.pow_add]; ring
    _ = 2 * (2 ^ (bf + 1) * 10 ^ j) := by
        rw [show p + 1 + (bf - (p - 1)) = (bf + 1) + 1 by omega, Nat.pow_succ]; ring
    _ ≤ 2 * (2 * M) := Nat.mul_le_mul_left _ k2
    _ < 2 ^ 3968 := by omega

/-! ## the value of all the digits lies in `[w, w + 1)·10^q` -/

/-- `S = w·10^A + tail` with `tail < 10^A`, `q = A + E − fl`: then `S·10^(E − fl) ∈ [w·10^q, (w+1)·10^q)`, in the
cross-multiplied form `estW_widen` takes -/
theorem interval_core (S w A fl : Nat) (q E : Int) (hS1 : w * 10 ^ A ≤ S) (hS2 : S < (w + 1) * 10 ^ A) (hw0 : 0 < w)
    (hq : q = (A : Int) + E - fl) :
    (powFrac 10 q w).1 * (10 ^ fl * 10 ^ (-E).toNat) ≤ S * 10 ^ E.toNat * (powFrac 10 q w).2 ∧
    S * 10 ^ E.toNat * (powFrac 10 q w).2 * w < (powFrac 10 q w).1 * (10 ^ fl * 10 ^ (-E).toNat) * (w + 1) := by
  rw [powFrac_eq]
  dsimp only
  have hexp : q.toNat + (fl + (-E).toNat) = A + E.toNat + (-q).toNat := by omega
  generalize q.toNat = a at *
  generalize (-q).toNat = b at *
  generalize E.toNat = e1 at *
  generalize (-E).toNat = e2 at *
  have k1 : w * 10 ^ a * (10 ^ fl * 10 ^ e2) = w * 10 ^ A * (10 ^ e1 * 10 ^ b) := by
    calc w * 10 ^ a * (10 ^ fl * 10 ^ e2) = w * 10 ^ (a + (fl + e2)) := by rw [Nat.pow_add, Nat.pow_add]; ring
      _ = w * 10 ^ A * (10 ^ e1 * 10 ^ b) := by rw [hexp, Nat.pow_add, Nat.pow_add]; ring
  have k2 : (w + 1) * 10 ^ a * (10 ^ fl * 10 ^ e2) = (w + 1) * 10 ^ A * (10 ^ e1 * 10 ^ b) := by
    calc (w + 1) * 10 ^ a * (10 ^ fl * 10 ^ e2) = (w + 1) * 10 ^ (a + (fl + e2)) := by
          rw [Nat.pow_add, Nat.pow_add]; ring
      _ = (w + 1) * 10 ^ A * (10 ^ e1 * 10 ^ b) := by rw [hexp, Nat.pow_add, Nat.pow_add]; ring
  have hpos : 0 < 10 ^ e1 * 10 ^ b := Nat.mul_pos (Nat.pow_pos (by decide)) (Nat.pow_pos (by decide))
  constructor
  · rw [k1]
    calc w * 10 ^ A * (10 ^ e1 * 10 ^ b) ≤ S * (10 ^ e1 * 10 ^ b) := Nat.mul_le_mul_right _ hS1
      _ = S * 10 ^ e1 * 10 ^ b := by ring
  · calc S * 10 ^ e1 * 10 ^ b * w = (S * (10 ^ e1 * 10 ^ b)) * w := by ring
      _ < ((w + 1) * 10 ^ A * (10 ^ e1 * 10 ^ b)) * w :=
          Nat.mul_lt_mul_of_pos_right (Nat.mul_lt_mul_of_pos_right hS2 hpos) hw0
      _ = ((w + 1) * 10 ^ a * (10 ^ fl * 10 ^ e2)) * w := by rw [k2]
      _ = w * 10 ^ a * (10 ^ fl * 10 ^ e2) * (w + 1) := by ring

/-- every build's decimal digit limit is between 19 and 769 -/
theorem maxDigits_decimal_le (feats : Features) {F : FTy} (hF : IsLemireFloat F) :
    ∃ d, (Slow.envOf feats).S.maxDigits F.fmt 10 = some d ∧ 19 ≤ d ∧ d ≤ 769 := by
  obtain ⟨c, p2, r, f, sd⟩ := feats
  rcases hF with h | h <;> subst h <;> cases c <;> cases p2 <;> cases r <;> exact ⟨_, rfl, by decide, by decide⟩

/-- the first `k ≥ 19` digits lie in `[w, w + 1)·10^(k − 19)`, `w` the first 19 -/
theorem prefix_interval {sig : List Nat} (hv : ValidDigits 10 sig) (k : Nat) (hk19 : 19 ≤ k) (hkN : k ≤ sig.length) :
    ofDigits 10 (dv 10 (sig.take 19)) * 10 ^ (k - 19) ≤ ofDigits 10 (dv 10 (sig.take k)) ∧
    ofDigits 10 (dv 10 (sig.take k)) < (ofDigits 10 (dv 10 (sig.take 19)) + 1) * 10 ^ (k - 19) := by
  have hsplit := C01Number.ofDigits_dv_take_drop 10 (sig.take k) 19
  have htail := ofDigits_dv_lt (valid_drop (valid_take hv k) 19)
  rw [List.take_take, Nat.min_eq_left hk19, List.length_drop, List.length_take, Nat.min_eq_left hkN] at hsplit
  rw [List.length_drop, List.length_take, Nat.min_eq_left hkN] at htail
  have : (ofDigits 10 (dv 10 (sig.take 19)) + 1) * 10 ^ (k - 19) =
      ofDigits 10 (dv 10 (sig.take 19)) * 10 ^ (k - 19) + 10 ^ (k - 19) := by ring
  omega

/-- what `parse_mantissa` keeps of more than 19 significant digits: `cnt` digits, `19 ≤ cnt ≤ d + 1`, whose value lies in
`[w, w + 1)·10^(cnt − 19)` — the first `d` digits, or those followed by the digit `1` that stands for a non-zero cut tail -/
theorem mantissaOf_interval {d : Nat} {sig : List Nat} (hv : ValidDigits 10 sig) (hd19 : 19 ≤ d) (hN : 19 < sig.length) :
    ∃ M cnt, C01Slow.mantissaOf 10 d sig = (M, cnt) ∧ 19 ≤ cnt ∧ cnt ≤ d + 1 ∧
      ofDigits 10 (dv 10 (sig.take 19)) * 10 ^ (cnt - 19) ≤ M ∧
      M < (ofDigits 10 (dv 10 (sig.take 19)) + 1) * 10 ^ (cnt - 19) := by
  unfold C01Slow.mantissaOf
  by_cases hle : sig.length ≤ d
  · rw [if_pos hle]
    obtain ⟨a, b⟩ := prefix_interval hv sig.length (by omega) (Nat.le_refl _)
    rw [List.take_length] at a b
    exact ⟨_, _, rfl, by omega, by omega, a, b⟩
  · rw [if_neg hle]
    obtain ⟨a, b⟩ := prefix_interval hv d hd19 (by omega)
    by_cases hz : Slow.anyNonzero (sig.drop d) = true
    · rw [if_pos hz]
      refine ⟨_, _, rfl, by omega, Nat.le_refl _, ?_, ?_⟩
      · have e : d + 1 - 19 = (d - 19) + 1 := by omega
        rw [e, Nat.pow_succ]
        calc ofDigits 10 (dv 10 (sig.take 19)) * (10 ^ (d - 19) * 10)
            = (ofDigits 10 (dv 10 (sig.take 19)) * 10 ^ (d - 19)) * 10 := by ring
          _ ≤ ofDigits 10 (dv 10 (sig.take d)) * 10 := Nat.mul_le_mul_right _ a
          _ ≤ ofDigits 10 (dv 10 (sig.take d)) * 10 + 1 := Nat.le_succ _
      · have e : d + 1 - 19 = (d - 19) + 1 := by omega
        rw [e, Nat.pow_succ]
        have : (ofDigits 10 (dv 10 (sig.take 19)) + 1) * (10 ^ (d - 19) * 10) =
            ((ofDigits 10 (dv 10 (sig.take 19)) + 1) * 10 ^ (d - 19)) * 10 := by ring
        rw [this]
        omega
    · rw [if_neg hz]
      exact ⟨_, _, rfl, hd19, by omega, a, b⟩

/-! ## `SlowDomain` and the bracket for a truncated `Number` -/

/-- **`SlowDomain` and the pipeline's bracket for the truncated decimal `Number`s**: the words of the `Number` are the
first 19 significant digits and the matching exponent (`number_truncated_of_syntax`); `lemire` handed over an
estimate `fp` of `w·10^q` from inside the table. Then, for any number of digits, every
condition of the slow-path model's domain holds — whether the estimate rounds down to a finite float or to `+∞` — and
`fp` brackets the value of all the digits. -/
theorem slowDomain_of_truncated {F : FTy} (hF : IsLemireFloat F) {p eb : Nat} (lay : Layout F p eb) (c : Cfg)
    (hr : c.mantissaRadix = 10) (hb : c.exponentBase = 10) (n : Number) (hs : PlainSlices c n)
    (hN : 19 < (sigBytes n.integer n.fraction).length)
    (hw : n.mantissa = ofDigits 10 (dv 10 ((sigBytes n.integer n.fraction).take 19)))
    (hw1 : 10 ^ 18 ≤ n.mantissa) (hw2 : n.mantissa < 10 ^ 19)
    (hq : n.exponent = ((sigBytes n.integer n.fraction).length : Int) - 19 + n.explicitExp -
      ((n.fraction.getD []).length : Int))
    (hq1 : -342 ≤ n.exponent) (hq2 : n.exponent ≤ 308) (fp : ExtendedFloat80)
    (hest : EstOK F p fp (powFrac 10 n.exponent n.mantissa).1 (powFrac 10 n.exponent n.mantissa).2)
    (d : Nat) (hd : (Slow.envOf c.feats).S.maxDigits F.fmt 10 = some d) (hd19 : 19 ≤ d) (hd769 : d ≤ 769) :
    SlowDomain c F p n { fp with exp := fp.exp - invalidFp } d ∧
    Bracket F fp (litFrac 10 10 (numberLit c n)).1 (litFrac 10 10 (numberLit c n)).2 := by
  have FN := floatNums_of hF lay
  have hp := lay.hp
  have hp53 := FN.p53
  have h27 : (2 : Int) ^ 27 = 134217728 := by norm_num
  have h30 : (2 : Int) ^ 30 = 1073741824 := by norm_num
  have h20 : (2 : Int) ^ 20 = 1048576 := by norm_num
  have hw64 : n.mantissa < 2 ^ 64 := Nat.lt_trans hw2 pow10_19
  have hw0 : 0 < n.mantissa := Nat.lt_of_lt_of_le (Nat.pow_pos (by decide)) hw1
  have hc80 : 2 * 40 ≤ 2 ^ (64 - p) := by
    calc 2 * 40 ≤ 2 ^ 11 := by decide
      _ ≤ 2 ^ (64 - p) := Nat.pow_le_pow_right (by decide) (by omega)
  -- the scientific exponent
  obtain ⟨T, t1, t2, t3⟩ := scientificExponent_spec (radix := 10) (by decide) (by decide)
    hw0 hw64 (e := n.exponent) (by omega) (by omega)
  have hT : T = 18 := by
    have a1 : 10 ^ T < 10 ^ 19 := Nat.lt_of_le_of_lt t1 hw2
    have a2 : 10 ^ 18 < 10 ^ (T + 1) := Nat.lt_of_le_of_lt hw1 t2
    have := (Nat.pow_lt_pow_iff_right (by decide : 1 < 10)).mp a1
    have := (Nat.pow_lt_pow_iff_right (by decide : 1 < 10)).mp a2
    omega
  have hsci : sciOf c n = n.exponent + T := by unfold sciOf; rw [hr, t3]
  -- the digits
  have hvs : ValidDigits 10 (sigBytes n.integer n.fraction) := by
    have := valid_sigBytes hs.validInt hs.validFrac
    rwa [hr] at this
  have hbs : ∀ x ∈ sigBytes n.integer n.fraction, x < 256 := by
    intro x hx
    rcases mem_sigBytes hx with h | ⟨fr, hfr, h⟩
    · exact hs.bytesInt x h
    · exact hs.bytesFrac fr hfr x h
  obtain ⟨z, hz⟩ := sig_decomp n.integer n.fraction
  have hD : ofDigits 10 ((numberLit c n).intDigits ++ (numberLit c n).fracDigits) =
      ofDigits 10 (dv 10 (sigBytes n.integer n.fraction)) := by
    rw [hs.intDigits, hs.fracDigits, hr]
    have : dv 10 n.integer ++ dv 10 (n.fraction.getD []) = dv 10 (n.integer ++ n.fraction.getD []) := by
      unfold dv; rw [List.map_append]
    rw [this, hz, ofDigits_dv_zeros]
  have hfl : (numberLit c n).fracDigits.length = (n.fraction.getD []).length := by
    rw [hs.fracDigits, dv_length]
  have hE : (numberLit c n).exp = n.explicitExp := rfl
  obtain ⟨M, cnt, hmo, hc19, hcd, hM1, hM2⟩ := mantissaOf_interval (d := d) hvs hd19 hN
  rw [← hw] at hM1 hM2
  -- the whole digit string lies in `[w, w + 1)·10^(N − 19)`
  have hSsplit := C01Number.ofDigits_dv_take_drop 10 (sigBytes n.integer n.fraction) 19
  have hStail := ofDigits_dv_lt (valid_drop hvs 19)
  rw [← hw, List.length_drop] at hSsplit
  rw [List.length_drop] at hStail
  have hne : sigBytes n.integer n.fraction ≠ [] := by
    intro h0; rw [h0] at hN; simp at hN
  generalize hsig : sigBytes n.integer n.fraction = sig at *
  generalize hS : ofDigits 10 (dv 10 sig) = S at *
  generalize hfle : (n.fraction.getD []).length = fl at *
  generalize htl : ofDigits 10 (dv 10 (List.drop 19 sig)) = tl at *
  have hM0 : 0 < M := Nat.lt_of_lt_of_le (Nat.mul_pos hw0 (Nat.pow_pos (by decide))) hM1
  have hMlt : M < 10 ^ cnt := by
    calc M < (n.mantissa + 1) * 10 ^ (cnt - 19) := hM2
      _ ≤ 10 ^ 19 * 10 ^ (cnt - 19) := Nat.mul_le_mul_right _ (by omega)
      _ = 10 ^ cnt := by rw [← Nat.pow_add]; congr 1; omega
  have hM769 : M < 10 ^ 770 := Nat.lt_of_lt_of_le hMlt (Nat.pow_le_pow_right (by decide) (by omega))
  have hS1 : n.mantissa * 10 ^ (sig.length - 19) ≤ S := by omega
  have hS2 : S < (n.mantissa + 1) * 10 ^ (sig.length - 19) := by
    have : (n.mantissa + 1) * 10 ^ (sig.length - 19) = n.mantissa * 10 ^ (sig.length - 19) + 10 ^ (sig.length - 19) := by
      ring
    omega
  have hkey : n.exponent + T + 1 - (sig.length : Int) = n.explicitExp - (fl : Int) := by omega
  have hV : litFrac 10 10 (numberLit c n) = (S * 10 ^ n.explicitExp.toNat, 10 ^ fl * 10 ^ (-n.explicitExp).toNat) := by
    rw [litFrac_eq, hD, hfl, hE]
  have hwd : 0 < (powFrac 10 n.exponent n.mantissa).2 := powFrac_den_pos (by decide) _ _
  have hm36 : fp.mant + 4 ≤ 36 * n.mantissa := by
    have := hest.2.1
    have h18 : (2 : Nat) ^ 64 + 4 ≤ 36 * 10 ^ 18 := by decide
    omega
  constructor
  · constructor
    · rw [hr]; exact envRadix_decimal c.feats
    · rw [hr]; exact hd
    · exact hs.validInt
    · exact hs.validFrac
    · rw [hsig]; exact hne
    · rw [hsig]; exact hbs
    · rw [hsci]; omega
    · rw [hsci]; omega
    · -- value
      rw [hr, hb, hsig, hsci]
      unfold C01Slow.sigValue C01Slow.digitExponent
      rw [hV, powFrac_eq, hS]
      unfold RatEq
      simp only
      have e1 : n.explicitExp.toNat + (-(n.exponent + ↑T + 1 - ↑sig.length)).toNat =
          (n.exponent + ↑T + 1 - ↑sig.length).toNat + (fl + (-n.explicitExp).toNat) := by omega
      calc S * 10 ^ n.explicitExp.toNat * 10 ^ (-(n.exponent + ↑T + 1 - ↑sig.length)).toNat
          = S * 10 ^ (n.explicitExp.toNat + (-(n.exponent + ↑T + 1 - ↑sig.length)).toNat) := by
            rw [Nat.pow_add]; ring
        _ = S * 10 ^ ((n.exponent + ↑T + 1 - ↑sig.length).toNat + (fl + (-n.explicitExp).toNat)) := by rw [e1]
        _ = S * 10 ^ (n.exponent + ↑T + 1 - ↑sig.length).toNat * (10 ^ fl * 10 ^ (-n.explicitExp).toNat) := by
            rw [Nat.pow_add, Nat.pow_add]; ring
    · -- the capacity guard of `positive_digit_comp`
      rw [hr, hsig, hsci, hmo]
      intro hpos
      unfold C01Slow.digitExponent at hpos ⊢
      simp only at hpos ⊢
      exact C01Slow.positive_guard_decimal (envRadix_decimal c.feats) hMlt (by omega)
    · -- negative exponent
      rw [hr, hsig, hsci, hmo]
      intro hneg
      unfold C01Slow.digitExponent at hneg ⊢
      simp only at hneg ⊢
      have hest' := hest
      obtain ⟨f1, f2, f3, f4, _, _⟩ := hest'
      refine ⟨f1, f2, by show fp.exp - invalidFp < 2 ^ 20; omega, ?_⟩
      -- the estimate is a 40-estimate of `M / 10^j`
      obtain ⟨i1, i2⟩ := interval_core M n.mantissa (cnt - 19) 0 n.exponent (n.exponent + ↑T + 1 - (cnt : Int))
        hM1 hM2 hw0 (by omega)
      have hW := estW_widen _ _ _ _ n.mantissa hest hm36 hw0 hwd i1 i2
      have hdz : (n.exponent + ↑T + 1 - (cnt : Int)).toNat = 0 := by omega
      rw [hdz] at hW
      simp only [Nat.pow_zero, Nat.mul_one, Nat.one_mul] at hW
      obtain ⟨_, _, _, _, lo, hi⟩ := hW
      have hLb : (F.C.exponentBias : Int) = (L F.fmt : Int) + 1 := by
        rw [lay.bias, LexVerif.Proof.BinaryCorrect.L_eq lay]
        have := lay.hL127
        omega
      have hcap := cap_ge c.feats
      have hcapp : 2 ^ 3968 ≤ 2 ^ (64 * (Slow.envOf c.feats).L.bigintLimbs) :=
        Nat.pow_le_pow_right (by decide) (by omega)
      by_cases hfin' : C01Slow.roundedDown F { mant := fp.mant, exp := fp.exp - invalidFp } < F.fmt.infBits
      · refine Or.inl ⟨hfin', ?_⟩
        obtain ⟨kq1, kq2⟩ := roundedDown_kq lay { mant := fp.mant, exp := fp.exp - invalidFp } f1 f2 hfin'
        simp only at kq1 kq2
        -- `Q = 0` only with `K = 0`
        have hQ0 : fp.mant / 2 ^ shiftOf p (fp.exp - invalidFp) = 0 → (fp.exp - invalidFp + 64 - ↑p - 1).toNat = 0 := by
          intro h0
          by_cases hp2 : -(fp.exp - invalidFp) + 1 ≤ 64
          · obtain ⟨qa, _, _, _, _⟩ := LexVerif.Proof.BinaryCorrect.quot_bounds hp (by omega) f1 f2 (fp.exp - invalidFp) hp2
            apply Classical.byContradiction; intro hK
            have := (qa (by omega)).2.1
            have := Nat.two_pow_pos (p - 1)
            omega
          · omega
        have hS3 : 64 - p ≤ shiftOf p (fp.exp - invalidFp) := by
          unfold shiftOf; split <;> omega
        have hS40 : 40 ≤ 2 ^ shiftOf p (fp.exp - invalidFp) := by
          calc 40 ≤ 2 ^ 11 := by decide
            _ ≤ 2 ^ shiftOf p (fp.exp - invalidFp) := Nat.pow_le_pow_right (by decide) (by omega)
        have hQ53 : fp.mant / 2 ^ shiftOf p (fp.exp - invalidFp) < 2 ^ 53 := by
          have : 2 * 2 ^ (p - 1) ≤ 2 ^ 53 := by
            rw [← Nat.pow_succ']
            exact Nat.pow_le_pow_right (by decide) (by omega)
          omega
        generalize hj : (-(n.exponent + ↑T + 1 - (cnt : Int))).toNat = j at *
        generalize hK : (fp.exp - invalidFp + 64 - ↑p - 1).toNat = K at *
        generalize hQ : fp.mant / 2 ^ shiftOf p (fp.exp - invalidFp) = Q at *
        obtain ⟨g1, g2⟩ := neg_guard_bounds Q K (shiftOf p (fp.exp - invalidFp)) fp.mant M j (L F.fmt)
          40 ((K : Int) - F.C.exponentBias - (n.exponent + ↑T + 1 - (cnt : Int))) (by omega) hQ.symm hS40 hQ0 hQ53
          (by omega) hM769 (by omega) hi
        unfold C01Slow.NegGuard
        simp only [hK, hQ, hj]
        exact ⟨Nat.lt_of_lt_of_le g1 hcapp, Nat.lt_of_lt_of_le g2 hcapp⟩
      · -- the estimate rounds down to `+∞`
        have hinfpos := LexVerif.Proof.RoundNE.infBits_pos lay.wf
        have hfp : F.fmt.p = p := by rw [lay.fmt]
        have hfe : F.fmt.ebits = eb := by rw [lay.fmt]
        have hinf : F.fmt.infBits = (2 ^ eb - 1) * 2 ^ (p - 1) := by rw [lay.fmt]; rfl
        have hp2 : -(fp.exp - invalidFp) + 1 ≤ 64 := by
          apply Classical.byContradiction; intro hcon
          rw [C01Slow.roundedDown_tiny lay { mant := fp.mant, exp := fp.exp - invalidFp } f2 (by dsimp only; omega)] at hfin'
          omega
        obtain ⟨qa, qb, _, _, _⟩ := LexVerif.Proof.BinaryCorrect.quot_bounds hp (by omega) f1 f2 (fp.exp - invalidFp) hp2
        have hrd : C01Slow.roundedDown F { mant := fp.mant, exp := fp.exp - invalidFp } =
            encode F.fmt (fp.exp - invalidFp + 64 - ↑p - 1).toNat (fp.mant / 2 ^ shiftOf p (fp.exp - invalidFp)) := by
          unfold C01Slow.roundedDown
          exact round_down_bits lay { mant := fp.mant, exp := fp.exp - invalidFp } f1 f2 hp2
        have hov : F.fmt.infBits ≤ (fp.exp - invalidFp + 64 - ↑p - 1).toNat * 2 ^ (p - 1) +
            fp.mant / 2 ^ shiftOf p (fp.exp - invalidFp) := by
          rw [hrd] at hfin'
          unfold encode at hfin'
          rw [hfp] at hfin'
          split at hfin'
          · assumption
          · omega
        have heq : C01Slow.roundedDown F { mant := fp.mant, exp := fp.exp - invalidFp } = F.fmt.infBits := by
          rw [hrd]; unfold encode; rw [hfp, if_pos hov]
        refine Or.inr ⟨heq, ?_⟩
        have heb := lay.heb
        have h2eb : 2 ^ eb = 2 * 2 ^ (eb - 1) := by
          rw [← Nat.pow_succ']; congr 1; omega
        have hTpos := Nat.two_pow_pos (p - 1)
        have hebpos := Nat.two_pow_pos (eb - 1)
        generalize hK : (fp.exp - invalidFp + 64 - ↑p - 1).toNat = K at *
        have hK2 : 2 * (2 ^ (eb - 1) - 1) ≤ K := by
          rw [hinf] at hov
          apply Classical.byContradiction; intro hcon
          have h1 : K + 3 ≤ 2 ^ eb := by omega
          have h2 : (K + 3) * 2 ^ (p - 1) ≤ 2 ^ eb * 2 ^ (p - 1) := Nat.mul_le_mul_right _ h1
          have h3 : (2 ^ eb - 1) * 2 ^ (p - 1) + 2 ^ (p - 1) = 2 ^ eb * 2 ^ (p - 1) := by
            rw [← Nat.succ_mul]; congr 1; omega
          have h4 : (K + 3) * 2 ^ (p - 1) = K * 2 ^ (p - 1) + 3 * 2 ^ (p - 1) := by ring
          omega
        have hKpos : 0 < K := by
          have : 2 ≤ 2 ^ (eb - 1) := by
            calc 2 = 2 ^ 1 := rfl
              _ ≤ 2 ^ (eb - 1) := Nat.pow_le_pow_right (by decide) (by omega)
          omega
        obtain ⟨hSf, _, hmant⟩ := qa hKpos
        generalize hj : (-(n.exponent + ↑T + 1 - (cnt : Int))).toNat = j at *
        obtain ⟨g1, g2⟩ := neg_guard_inf_bounds p (2 ^ (eb - 1) - 1) K fp.mant M j (L F.fmt)
          (shiftOf p (fp.exp - invalidFp)) hp lay.hpb hK2 hmant (LexVerif.Proof.BinaryCorrect.L_eq lay) hM769 (by omega)
        unfold C01Slow.NegGuardInf
        rw [hfe, lay.bias]
        have e1 : ((2 ^ eb - 2 : Nat) : Int) - ((2 ^ (eb - 1) - 1 + (p - 1) : Nat) : Int) -
            (n.exponent + ↑T + 1 - (cnt : Int)) =
            ((2 * (2 ^ (eb - 1) - 1) : Nat) : Int) - ((2 ^ (eb - 1) - 1 + (p - 1) : Nat) : Int) + j := by
          have : 2 ^ eb - 2 = 2 * (2 ^ (eb - 1) - 1) := by omega
          rw [this]; omega
        rw [e1]
        simp only [hj]
        exact ⟨Nat.lt_of_lt_of_le g1 hcapp, Nat.lt_of_lt_of_le g2 hcapp⟩
  · -- the bracket
    obtain ⟨i1, i2⟩ := interval_core S n.mantissa (sig.length - 19) fl n.exponent n.explicitExp hS1 hS2 hw0 (by omega)
    have hW := estW_widen _ _ _ _ n.mantissa hest hm36 hw0 hwd i1 i2
    rw [hV]
    exact bracket_of_estW lay 40 hc80 fp _ _
      (Nat.mul_pos (Nat.pow_pos (by decide)) (Nat.pow_pos (by decide))) hW

end LexVerif.Props.C01Trunc
