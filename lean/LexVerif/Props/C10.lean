import LexVerif.Proof.ParseNumberTotalMain
import LexVerif.Props.C04
/-!
# C10 — parsers are total (float syntax layer; property theorems)

Subject: the model of `lexical-parse-float/src/parse.rs` + the `lexical-util` iterators
(`Model/Iter.lean`, `Model/ParseNumber.lean`), for EVERY feature set, EVERY format that passes
`format.is_valid()` (`formatError = none`), every option set, both entry points and EVERY byte list.

Release mode (`debug := false`), proved here:
* `parseNumber_total` / `parseFloatSyntax_total` / `parseFloatModel_total`: the result is never the model's
  `fault` (an unchecked `get_unchecked(..b_digits)`, `step_unchecked`, `peek_u64` out of bounds, or a loop running out
  of its fuel) and never `panic` (`unreachable!()`, `fraction_digits.unwrap()`); every error index and every
  consumed count is `≤` the input length.
* `phases_preserve_invariant`: the iterator invariant `index ≤ slc.length ∧ integer_count + fraction_count +
  exponent_count ≤ index` is preserved by every phase function.
* exponent accumulator: `explicit_exponent < 0x10000000·radix + radix`, and `|exponent| < 2^63` for inputs shorter
  than `2^59` bytes (`exponent_within_i64`).

Debug mode (`debug := true`) is in `Props/C10Debug.lean` (the model CAN panic there; hypotheses + witnesses).
The integer parser's totality is `Props/C04.lean` (`model_no_fault_index_le`).
-/
namespace LexVerif.Props.C10
open LexVerif LexVerif.Model LexVerif.Spec LexVerif.Proof.PNTotal

/-- Full statement of C10 on the float syntax model: any build mode. It is FALSE for `debug = true`
(see `Props/C10Debug.lean` for the witnesses); the release half is `parseFloatSyntax_total`. -/
def parse_total_full : Prop :=
  ∀ (c : Cfg) (o : POpts) (isPartial : Bool) (input : List Nat), (formatError c.feats c.fmt).isNone = true →
    match parseFloatSyntax c o isPartial input with
    | .ok p => Parsed.count p ≤ input.length
    | .error (.err _ i) => i ≤ input.length
    | .error _ => False

/-- `format.is_valid()` and a release build: the hypotheses of every theorem below -/
theorem rel_of_format_valid (c : Cfg) (hd : c.debug = false) (h : (formatError c.feats c.fmt).isNone = true) :
    Rel c := rel_of_valid c hd h

/-- **`parse_number` is total (release).** The statement kept as a `def` in `Props/C12.lean` holds: for every
feature set, every valid format, options, `partial` flag, sign and every buffer with a valid cursor the result is
`ok` with `count ≤ length` or `Error::Kind(i)` with `i ≤ length`; never `fault` (unchecked slice / step / fuel),
never `panic`. -/
theorem parseNumber_total : C12.parseNumber_total := by
  intro c o isPartial neg b hvalid hd hv
  have h := parseNumber_tot (rel_of_valid c hd (by simpa using hvalid)) isPartial o b neg true hv
  cases hp : parseNumber c isPartial o b neg with
  | ok r =>
    obtain ⟨n, count⟩ := r
    rw [hp] at h
    exact h.2.1
  | error e =>
    rw [hp] at h
    cases e with
    | err k i => exact h
    | panic t => exact h.elim
    | fault t => exact h.elim

/-- … with the cursor bound from below and for either value of the `format.is_valid()` flag handed in -/
theorem parseNumber_total_strong (c : Cfg) (hd : c.debug = false) (hvalid : (formatError c.feats c.fmt).isNone = true)
    (o : POpts) (isPartial neg fv : Bool) (b : Bytes) (hv : b.index ≤ b.slc.length) :
    match parseNumber c isPartial o b neg fv with
    | .ok (_, count) => b.index ≤ count ∧ count ≤ b.slc.length
    | .error (.err _ i) => i ≤ b.slc.length
    | .error _ => False := by
  have h := parseNumber_tot (rel_of_valid c hd hvalid) isPartial o b neg fv hv
  cases hp : parseNumber c isPartial o b neg fv with
  | ok r =>
    obtain ⟨n, count⟩ := r
    rw [hp] at h
    exact ⟨h.1, h.2.1⟩
  | error e =>
    rw [hp] at h
    cases e with
    | err k i => exact h
    | panic t => exact h.elim
    | fault t => exact h.elim

/-- **`parse_complete` / `parse_partial` are total (release)**: sign, emptiness test, `parse_number`, the
special-value fall-back. Every consumed count and every error index is `≤ input.length`. -/
theorem parseFloatSyntax_total (c : Cfg) (hd : c.debug = false) (hvalid : (formatError c.feats c.fmt).isNone = true)
    (o : POpts) (isPartial fv : Bool) (input : List Nat) :
    match parseFloatSyntax c o isPartial input fv with
    | .ok p => Parsed.count p ≤ input.length
    | .error (.err _ i) => i ≤ input.length
    | .error _ => False := by
  have h := parseFloatSyntax_tot (rel_of_valid c hd hvalid) o isPartial input fv
  cases hp : parseFloatSyntax c o isPartial input fv with
  | ok p => rw [hp] at h; exact h.1
  | error e =>
    rw [hp] at h
    cases e with
    | err k i => exact h
    | panic t => exact h.elim
    | fault t => exact h.elim

/-- the release half of `parse_total_full` -/
theorem parse_total_release (c : Cfg) (hd : c.debug = false) (o : POpts) (isPartial : Bool) (input : List Nat)
    (hvalid : (formatError c.feats c.fmt).isNone = true) :
    match parseFloatSyntax c o isPartial input with
    | .ok p => Parsed.count p ≤ input.length
    | .error (.err _ i) => i ≤ input.length
    | .error _ => False :=
  parseFloatSyntax_total c hd hvalid o isPartial true input

/-- **API level (release)**: the harness line printed by `parse_with_options` / `parse_partial_with_options` for a
float type is an option error, a format error, a rendered `Parsed` with `count ≤ length`, or `err Kind i` with
`i ≤ length` — never `renderErr (.fault _) = "fault"` / `renderErr (.panic _) = "panic"`. -/
theorem parseFloatModel_total (feats : Features) (fmt : Format) (o : POpts) (isPartial : Bool) (f : Fmt)
    (input : List Nat) :
    (∃ e : String, parseFloatModel feats fmt o isPartial f input false = s!"opterr {e} -") ∨
    (∃ e : String, parseFloatModel feats fmt o isPartial f input false = s!"err {e} -") ∨
    (∃ p, parseFloatSyntax ⟨feats, fmt, false⟩ o isPartial input true = .ok p ∧ Parsed.count p ≤ input.length ∧
        parseFloatModel feats fmt o isPartial f input false = renderParsed ⟨feats, fmt, false⟩ f isPartial p) ∨
    (∃ k i, parseFloatSyntax ⟨feats, fmt, false⟩ o isPartial input true = .error (.err k i) ∧ i ≤ input.length ∧
        parseFloatModel feats fmt o isPartial f input false = renderErr (.err k i)) := by
  unfold parseFloatModel
  cases hoe : optionsError o with
  | some e => exact Or.inl ⟨e, rfl⟩
  | none =>
    simp only
    cases hfe : formatError feats fmt with
    | some e => exact Or.inr (Or.inl ⟨e, by simp⟩)
    | none =>
      simp only [Option.isSome_none, Bool.false_eq_true, if_false, Option.isNone_none]
      split
      · exact Or.inr (Or.inl ⟨"InvalidPunctuation", rfl⟩)
      · split
        · exact Or.inr (Or.inl ⟨"InvalidRadix", rfl⟩)
        · have h := parseFloatSyntax_total ⟨feats, fmt, false⟩ rfl (by simp [hfe]) o isPartial true input
          cases hp : parseFloatSyntax ⟨feats, fmt, false⟩ o isPartial input true with
          | ok p =>
            rw [hp] at h
            exact Or.inr (Or.inr (Or.inl ⟨p, rfl, h, rfl⟩))
          | error e =>
            rw [hp] at h
            cases e with
            | err k i => exact Or.inr (Or.inr (Or.inr ⟨k, i, rfl, h, rfl⟩))
            | panic t => exact h.elim
            | fault t => exact h.elim

/-- `parse` / `parse_partial` without options (STANDARD format, default options): same shape -/
theorem parseFloatDefaultModel_total (feats : Features) (isPartial : Bool) (f : Fmt) (input : List Nat)
    (hvalid : (formatError feats Format.standard).isNone = true) :
    parseFloatDefaultModel feats isPartial f input false = "err InvalidRadix -" ∨
    (∃ p, parseFloatSyntax ⟨feats, Format.standard, false⟩ {} isPartial input = .ok p ∧ Parsed.count p ≤ input.length ∧
        parseFloatDefaultModel feats isPartial f input false = renderParsed ⟨feats, Format.standard, false⟩ f isPartial p) ∨
    (∃ k i, parseFloatSyntax ⟨feats, Format.standard, false⟩ {} isPartial input = .error (.err k i) ∧
        i ≤ input.length ∧ parseFloatDefaultModel feats isPartial f input false = renderErr (.err k i)) := by
  unfold parseFloatDefaultModel
  simp only
  split
  · exact Or.inl rfl
  · have h := parseFloatSyntax_total ⟨feats, Format.standard, false⟩ rfl hvalid {} isPartial true input
    cases hp : parseFloatSyntax ⟨feats, Format.standard, false⟩ {} isPartial input true with
    | ok p =>
      rw [hp] at h
      exact Or.inr (Or.inl ⟨p, rfl, h, rfl⟩)
    | error e =>
      rw [hp] at h
      cases e with
      | err k i => exact Or.inr (Or.inr ⟨k, i, rfl, h, rfl⟩)
      | panic t => exact h.elim
      | fault t => exact h.elim

/-- **The 12 integer types** (non-format build; from C04): the model of `lexical-parse-integer`'s `algorithm!` never
reaches `FAULT` (unchecked `step_by_unchecked`, `take_n`/`set_cursor`) and every index it reports — error position or
consumed count — is `≤ input.length`, for `parse` and `parse_partial`, every radix, with and without the
multi-digit (SWAR) paths. -/
theorem parseInt_total (feats : Features) (t : IntTy) (ht : Proof.ParseInt.IsIntTy t) (r : Nat) (h2 : 2 ≤ r)
    (hr : r ≤ 36) (hfeat : feats.powerOfTwo = true ∨ r = 10) (partial_ noMulti : Bool) (s : List Nat)
    (hs : ∀ b ∈ s, b < 256) :
    ∃ res, Model.ParseInt.parseInt feats t r partial_ noMulti s = .done res ∧ C04.PRes.index res ≤ s.length :=
  C04.model_no_fault_index_le feats t ht r h2 hr hfeat partial_ noMulti s hs

/-! ## the iterator invariant -/

/-- the invariant of `Bytes`: cursor inside the buffer, digit counts never ahead of the cursor -/
def Inv (b : Bytes) : Prop := b.index ≤ b.slc.length ∧ b.ic + b.fc + b.ec ≤ b.index

theorem Inv_of_Adv {b b' : Bytes} (h : Inv b) (ha : Adv b b') : Inv b' := by
  have h1 := ha.cnt
  have h2 := ha.valid'
  have h3 := ha.mono
  unfold Inv at *
  simp only [csum] at h1
  omega

theorem Inv_new (s : List Nat) : Inv (Bytes.new s) := by simp [Inv, Bytes.new]

/-- **Every phase function preserves the invariant** (release build, valid format), and so does every iterator
primitive they are built from. -/
theorem phases_preserve_invariant (c : Cfg) (hd : c.debug = false)
    (hvalid : (formatError c.feats c.fmt).isNone = true) (o : POpts) (b : Bytes) (hb : Inv b) :
    (∀ k v b', peek c k b = .ok (v, b') → Inv b') ∧
    (∀ k n b', skipZeros c k b = .ok (n, b') → Inv b') ∧
    (∀ k r ds b', parseDigits c k r b = .ok (ds, b') → Inv b') ∧
    (∀ k m m' b', parse8Digits c k b m = .ok (m', b') → Inv b') ∧
    (∀ k m s b' m' s', parseU64Digits c k b m s = .ok (b', m', s') → Inv b') ∧
    (∀ np rq s1 s2 neg b', parseSign c np rq s1 s2 b = .ok (neg, b') → Inv b') ∧
    (∀ ip, integerPhase c b = .ok ip → Inv ip.start ∧ Inv ip.byte) ∧
    (∀ m fp, fractionPhase c o b m = .ok fp → Inv fp.byte) ∧
    (∀ he fr e0 ep, (he = true → b.index < b.slc.length) → exponentPhase c he b fr e0 = .ok ep → Inv ep.byte) ∧
    (∀ b', suffixPhase c b = .ok b' → Inv b') := by
  have hc := rel_of_valid c hd hvalid
  have hv := hb.1
  refine ⟨?_, ?_, ?_, ?_, ?_, ?_, ?_, ?_, ?_, ?_⟩
  · intro k v b' h
    obtain ⟨v', b'', h', ha, _⟩ := peek_tot hc k b hv
    rw [h] at h'; cases h'; exact Inv_of_Adv hb ha
  · intro k n b' h
    obtain ⟨n', b'', h', ha⟩ := skipZeros_tot hc k b hv
    rw [h] at h'; cases h'; exact Inv_of_Adv hb ha
  · intro k r ds b' h
    obtain ⟨ds', b'', h', ha⟩ := parseDigits_tot hc k r b hv
    rw [h] at h'; cases h'; exact Inv_of_Adv hb ha
  · intro k m m' b' h
    obtain ⟨m'', b'', h', ha⟩ := parse8Digits_tot hc k b m hv
    rw [h] at h'; cases h'; exact Inv_of_Adv hb ha
  · intro k m s b' m' s' h
    obtain ⟨b'', m'', s'', h', ha⟩ := parseU64Digits_tot hc k b m s hv
    rw [h] at h'; cases h'; exact Inv_of_Adv hb ha
  · intro np rq s1 s2 neg b' h
    have ht := parseSign_tot hc np rq s1 s2 b hv
    rw [h] at ht; exact Inv_of_Adv hb ht
  · intro ip h
    have ht := integerPhase_tot hc b hv
    rw [h] at ht
    exact ⟨Inv_of_Adv hb ht.1, Inv_of_Adv hb (ht.1.trans ht.2.1)⟩
  · intro m fp h
    have ht := fractionPhase_tot hc o b m hv
    rw [h] at ht; exact Inv_of_Adv hb ht.1
  · intro he fr e0 ep hlt h
    have ht := exponentPhase_tot hc he b fr e0 hv hlt
    rw [h] at ht; exact Inv_of_Adv hb ht.1
  · intro b' h
    obtain ⟨b'', h', ha⟩ := suffixPhase_tot hc b hv
    rw [h] at h'; cases h'; exact Inv_of_Adv hb ha

/-! ## the exponent accumulator -/

/-- `explicit_exponent` saturates: starting from 0 with digits below the radix, the accumulator of
`parse_digits(.., |digit| if exp < 0x10000000 { exp *= radix; exp += digit })` stays below
`0x10000000·radix + radix` — far inside `i64` for every radix ≤ 36. -/
theorem foldExponent_lt (r : Nat) (hr : 0 < r) (ds : List Nat) (hds : ∀ d ∈ ds, d < r) :
    foldExponent r 0 ds < 0x10000000 * r + r := by
  unfold foldExponent
  suffices h : ∀ (ds : List Nat) (acc : Nat), (∀ d ∈ ds, d < r) → acc < 0x10000000 * r + r →
      ds.foldl (fun acc d => if acc < 0x10000000 then acc * r + d else acc) acc < 0x10000000 * r + r by
    exact h ds 0 hds (by omega)
  intro ds
  induction ds with
  | nil => intro acc _ h; simpa using h
  | cons d ds ih =>
    intro acc hd hacc
    simp only [List.foldl_cons]
    apply ih _ (fun x hx => hd x (List.mem_cons_of_mem _ hx))
    have hdr := hd d List.mem_cons_self
    split
    · next hlt =>
      have : acc * r ≤ (0x10000000 - 1) * r := Nat.mul_le_mul_right r (by omega)
      omega
    · exact hacc

/-- **No `i64` overflow in the exponent arithmetic.** For a number accepted by either entry point (release build,
valid format, exponent radix ≤ 36) the `explicit_exponent` magnitude is below `0x10000000·radix + radix < 2^34`, and
for inputs shorter than `2^59` bytes the final `exponent` (implicit exponent, scaled by at most `log2(32) = 5` for
mixed bases, plus the explicit exponent) has magnitude below `2^63`. (The intermediate values are `n_after_dot`,
`implicit = ±count`, `implicit·bits_per_digit`, all bounded by `5·length`: `scaleExponent_rel`, `FracOK`.) -/
theorem exponent_within_i64 (c : Cfg) (hd : c.debug = false) (hvalid : (formatError c.feats c.fmt).isNone = true)
    (hr0 : 0 < c.exponentRadix) (hr : c.exponentRadix ≤ 36)
    (o : POpts) (isPartial fv : Bool) (input : List Nat) (num : Number) (count : Nat)
    (h : parseFloatSyntax c o isPartial input fv = .ok (.number num count)) :
    num.explicitExp.natAbs < 0x10000000 * c.exponentRadix + c.exponentRadix ∧
    num.exponent.natAbs ≤ 5 * input.length + num.explicitExp.natAbs ∧
    (input.length < 2 ^ 59 → num.exponent.natAbs < 2 ^ 63) := by
  have ht := parseFloatSyntax_tot (rel_of_valid c hd hvalid) o isPartial input fv
  rw [h] at ht
  obtain ⟨hb, ds, hds, hmag⟩ := ht.2 num count rfl
  have hlt := foldExponent_lt c.exponentRadix hr0 ds hds
  rw [← hmag] at hlt
  refine ⟨hlt, hb, ?_⟩
  intro hlen
  omega

/-- the same bound at the level of `parse_number` -/
theorem parseNumber_exponent_bound (c : Cfg) (hd : c.debug = false)
    (hvalid : (formatError c.feats c.fmt).isNone = true) (hr0 : 0 < c.exponentRadix)
    (o : POpts) (isPartial neg fv : Bool) (b : Bytes) (hv : b.index ≤ b.slc.length) (num : Number) (count : Nat)
    (h : parseNumber c isPartial o b neg fv = .ok (num, count)) :
    num.explicitExp.natAbs < 0x10000000 * c.exponentRadix + c.exponentRadix ∧
    num.exponent.natAbs ≤ 5 * b.slc.length + num.explicitExp.natAbs := by
  have ht := parseNumber_tot (rel_of_valid c hd hvalid) isPartial o b neg fv hv
  rw [h] at ht
  obtain ⟨_, _, hb, ds, hds, hmag⟩ := ht
  have hlt := foldExponent_lt c.exponentRadix hr0 ds hds
  rw [← hmag] at hlt
  exact ⟨hlt, hb⟩

/-! ## non-vacuity -/

/-- the standard format is valid in the default build; "1.5x" is accepted up to byte 3 by the partial parser -/
example : (formatError {} Format.standard).isNone = true := by decide
example : (match parseFloatSyntax ⟨{}, Format.standard, false⟩ {} true [49, 46, 53, 120] with
    | .ok p => decide (p = .number ⟨15, -1, false, false, [49], some [53], 0⟩ 3)
    | _ => false) = true := by decide
/-- an error with an index: "1e" → `EmptyExponent(2)` -/
example : (match parseFloatSyntax ⟨{}, Format.standard, false⟩ {} false [49, 101] with
    | .error e => decide (e = .err "EmptyExponent" 2)
    | _ => false) = true := by decide
/-- the saturation is reached: eleven 9s as exponent digits stop growing after `0x10000000` is passed -/
example : foldExponent 10 0 [9, 9, 9, 9, 9, 9, 9, 9, 9, 9, 9] = 999999999 := by decide
/-- more than 19 digits: the many-digits re-parse (`parse_u64_digits`) runs and the invariant statement applies -/
example : (match parseFloatSyntax ⟨{}, Format.standard, false⟩ {} true
      [49, 50, 51, 52, 53, 54, 55, 56, 57, 48, 49, 50, 51, 52, 53, 54, 55, 56, 57, 48, 49, 46, 53] with
    | .ok (.number n c) => n.manyDigits && c == 23
    | _ => false) = true := by decide

end LexVerif.Props.C10
